import TrippyVerif.Model.Basic
/-
Line-by-line model of `/repo/crates/trippy-packet/src/checksum.rs` (lines 1-123).

Conventions
  * a Rust `u32` / `u16` / `usize` value is modelled by the `Nat` it denotes;
  * every `u32` addition that the dev profile checks (`+`, `+=`, `Iterator::sum`) goes through
    `addU32`, which yields `.panic` exactly when the mathematical sum does not fit in 32 bits;
  * `Ipv4Addr` / `Ipv6Addr` are the 4 / 16 octets returned by `octets()` (a `List UInt8`; the
    entry points are meaningful only for lists of that length, `handle` rejects other lengths);
  * `usize` is taken to be unbounded (64 bits on every supported target; `i += 1` cannot
    overflow because `i ≤ data.len()/2`).
-/
namespace TV.Cksum

/-- `2^32` -/
def U32 : Nat := 4294967296

/-- a dev-profile `u32` addition (`a + b`, `a += b`): panics on overflow -/
def addU32 (a b : Nat) : R Nat := if a + b < U32 then .ok (a + b) else .panic

/-- `u32::from(u16::from_be_bytes([a, b]))` -/
def be16n (a b : UInt8) : Nat := a.toNat * 256 + b.toNat

/-
    while cur_data.len() >= 2 {
        if i != ignore_word {
            sum += u32::from(u16::from_be_bytes(cur_data[0..2].try_into().unwrap()));
        }
        cur_data = &cur_data[2..];
        i += 1;
    }
Arguments: `cur_data`, `i`, `sum`; result: the values of `i` and `sum` after the loop.
(`cur_data[0..2]` and `[2..]` are in range by the loop condition, `try_into` of a 2-slice into
`[u8; 2]` cannot fail.)
-/
def sumLoop (ignoreWord : Nat) : List UInt8 → Nat → Nat → R (Nat × Nat)
  | a :: b :: rest, i, sum =>
    if i != ignoreWord then do
      let sum ← addU32 sum (be16n a b)
      sumLoop ignoreWord rest (i + 1) sum
    else
      sumLoop ignoreWord rest (i + 1) sum
  | _, i, sum => .ok (i, sum)

/-
fn sum_be_words(data: &[u8], ignore_word: usize) -> u32 {
    if data.is_empty() { return 0; }
    let len = data.len();
    let mut cur_data = data; let mut sum = 0u32; let mut i = 0;
    while ... (sumLoop)
    if i != ignore_word && len & 1 != 0 {
        sum += u32::from(data[len - 1]) << 8;
    }
    sum
}
`u32::from(u8) << 8` is at most 0xFF00: the shift itself loses nothing.
-/
def sumBeWords (data : List UInt8) (ignoreWord : Nat) : R Nat :=
  if data.isEmpty then .ok 0 else do
    let len := data.length
    let (i, sum) ← sumLoop ignoreWord data 0 0
    if i != ignoreWord && len &&& 1 != 0 then do
      let x ← rd data (len - 1)
      addU32 sum (x.toNat <<< 8)
    else
      .ok sum

theorem and_ffff (n : Nat) : n &&& 0xFFFF = n % 65536 :=
  Nat.and_two_pow_sub_one_eq_mod n 16

theorem shr16 (n : Nat) : n >>> 16 = n / 65536 := by
  rw [Nat.shiftRight_eq_div_pow]

/-- the loop body of `finalize_checksum` strictly decreases `sum` (termination), and — since the
new value is below the old one — never overflows the `u32`. -/
theorem finStep_lt (sum : Nat) (h : (sum >>> 16 != 0) = true) :
    (sum >>> 16) + (sum &&& 0xFFFF) < sum := by
  rw [and_ffff, shr16] at *
  have : sum / 65536 ≠ 0 := by simpa using h
  omega

/-
    while sum >> 16 != 0 {
        sum = (sum >> 16) + (sum & 0xFFFF);
    }
-/
def finLoop (sum : Nat) : Nat :=
  if h : sum >>> 16 != 0 then
    finLoop ((sum >>> 16) + (sum &&& 0xFFFF))
  else
    sum
termination_by sum
decreasing_by exact finStep_lt sum h

/-- `const fn finalize_checksum(mut sum: u32) -> u16`: the loop, then `!sum as u16`
(`!` on `u32` is `0xFFFF_FFFF - sum`, `as u16` keeps the low 16 bits). -/
def finalize (sum : Nat) : Nat :=
  (0xFFFFFFFF - finLoop sum) % 65536

/-
fn checksum(data: &[u8], ignore_word: usize) -> u16 {
    if data.is_empty() { return 0; }
    let sum = sum_be_words(data, ignore_word);
    finalize_checksum(sum)
}
-/
def checksum (data : List UInt8) (ignoreWord : Nat) : R Nat :=
  if data.isEmpty then .ok 0 else do
    let sum ← sumBeWords data ignoreWord
    .ok (finalize sum)

/-
fn ipv4_word_sum(ip: Ipv4Addr) -> u32 {
    let octets = ip.octets();
    (((u32::from(octets[0])) << 8) | u32::from(octets[1]))
        + (((u32::from(octets[2])) << 8) | u32::from(octets[3]))
}
-/
def ipv4WordSum : List UInt8 → R Nat
  | [o0, o1, o2, o3] =>
    addU32 ((o0.toNat <<< 8) ||| o1.toNat) ((o2.toNat <<< 8) ||| o3.toNat)
  | _ => .panic  -- not an `Ipv4Addr` (unreachable from `handle`)

/-- `Ipv6Addr::segments()`: eight big-endian 16-bit groups -/
def segments : List UInt8 → List Nat
  | a :: b :: rest => be16n a b :: segments rest
  | _ => []

/-- `Iterator::sum::<u32>()`: a fold of checked additions starting from 0 -/
def sumU32 (acc : Nat) : List Nat → R Nat
  | [] => .ok acc
  | x :: xs => do
    let acc ← addU32 acc x
    sumU32 acc xs

/-
fn ipv6_word_sum(ip: Ipv6Addr) -> u32 {
    ip.segments().iter().map(|x| u32::from(*x)).sum()
}
-/
def ipv6WordSum (ip : List UInt8) : R Nat :=
  if ip.length = 16 then sumU32 0 (segments ip) else .panic  -- not an `Ipv6Addr`

/-- `data.len() as u32` (truncating cast) -/
def lenAsU32 (data : List UInt8) : Nat := data.length % U32

/-
fn ipv4_checksum(data, ignore_word, source, destination, next_level_protocol) -> u16 {
    let mut sum = 0u32;
    sum += ipv4_word_sum(source);
    sum += ipv4_word_sum(destination);
    sum += u32::from(next_level_protocol.id());
    sum += data.len() as u32;
    sum += sum_be_words(data, ignore_word);
    finalize_checksum(sum)
}
-/
def ipv4Checksum (data : List UInt8) (ignoreWord : Nat) (source destination : List UInt8)
    (proto : UInt8) : R Nat := do
  let sum := 0
  let sum ← addU32 sum (← ipv4WordSum source)
  let sum ← addU32 sum (← ipv4WordSum destination)
  let sum ← addU32 sum proto.toNat
  let sum ← addU32 sum (lenAsU32 data)
  let sum ← addU32 sum (← sumBeWords data ignoreWord)
  .ok (finalize sum)

/-- `fn ipv6_checksum(..)`: the same statements with `ipv6_word_sum` -/
def ipv6Checksum (data : List UInt8) (ignoreWord : Nat) (source destination : List UInt8)
    (proto : UInt8) : R Nat := do
  let sum := 0
  let sum ← addU32 sum (← ipv6WordSum source)
  let sum ← addU32 sum (← ipv6WordSum destination)
  let sum ← addU32 sum proto.toNat
  let sum ← addU32 sum (lenAsU32 data)
  let sum ← addU32 sum (← sumBeWords data ignoreWord)
  .ok (finalize sum)

/-- `IpProtocol::id()` of the three protocols used -/
def protoIcmpV6 : UInt8 := 58
def protoUdp : UInt8 := 17
def protoTcp : UInt8 := 6

/-! the six public entry points -/

def ipv4_header_checksum (data : List UInt8) : R Nat := checksum data 5
def icmp_ipv4_checksum (data : List UInt8) : R Nat := checksum data 1
def icmp_ipv6_checksum (data src dst : List UInt8) : R Nat :=
  ipv6Checksum data 1 src dst protoIcmpV6
def udp_ipv4_checksum (data src dst : List UInt8) : R Nat :=
  ipv4Checksum data 3 src dst protoUdp
def tcp_ipv4_checksum (data src dst : List UInt8) : R Nat :=
  ipv4Checksum data 8 src dst protoTcp
def udp_ipv6_checksum (data src dst : List UInt8) : R Nat :=
  ipv6Checksum data 3 src dst protoUdp

/-! driver entry: `cksum <fn> <hexdata> <hexsrc> <hexdst>` (the word `cksum` already removed) -/

def showR : R Nat → String
  | .ok n => "ok " ++ toString n
  | .err _ => "err"
  | .panic => "panic"

def call (fn : String) (d s t : List UInt8) : Option (R Nat) :=
  let v4 := s.length == 4 && t.length == 4
  let v6 := s.length == 16 && t.length == 16
  let none' := s.isEmpty && t.isEmpty
  match fn with
  | "ipv4_header_checksum" => if none' then some (ipv4_header_checksum d) else none
  | "icmp_ipv4_checksum" => if none' then some (icmp_ipv4_checksum d) else none
  | "icmp_ipv6_checksum" => if v6 then some (icmp_ipv6_checksum d s t) else none
  | "udp_ipv4_checksum" => if v4 then some (udp_ipv4_checksum d s t) else none
  | "tcp_ipv4_checksum" => if v4 then some (tcp_ipv4_checksum d s t) else none
  | "udp_ipv6_checksum" => if v6 then some (udp_ipv6_checksum d s t) else none
  | _ => none

def handle (args : List String) : Option String :=
  match args with
  | [fn, hd, hs, ht] => do
    let d ← bytesOfHex hd
    let s ← bytesOfHex hs
    let t ← bytesOfHex ht
    let r ← call fn d s t
    some (showR r)
  | _ => none

end TV.Cksum
