/-
Small-step interleaving semantics of threads sharing the tracer `State` behind a readers–writer
lock (C20).  Thread programs are lists of lock-level instructions, executed cyclically (a reader
calls `snapshot()` again and again, the tracer thread calls `handler(round)` once per published
round, …); `Gen/Locks.lean` (translated from tracer.rs on every run) supplies the programs of
`handler`, `snapshot`, `clear` and `handle_error`.

`update_from_round` is deliberately NOT atomic here: `upd lo hi` applies the micro-steps
`lo … hi-1` of the current round one at a time, so that other threads can interleave wherever
the lock allows.  The shared state is the list of micro-steps `(round, index)` applied since the
last `store` (a `store` installs a fresh empty state, as `clear` does).
-/
namespace TV.Conc

inductive Instr
  | acqR                    -- `self.state.read()`   (guard creation)
  | acqW                    -- `self.state.write()`
  | rel                     -- guard dropped (end of statement for a temporary, end of block for a binding)
  | copyOut                 -- `.clone()` of the whole state through the guard
  | store                   -- `*guard = State::new(..)`
  | upd (lo hi : Nat)       -- micro-steps lo..hi-1 of `update_from_round(round)` for the current round
  | setErr                  -- `.set_error(..)`
  | localStep               -- thread-local work that does not touch the shared state
  deriving DecidableEq, Repr

inductive Hold | none | r | w
  deriving DecidableEq, Repr

structure Th where
  body : List Instr
  pc : Nat := 0
  micro : Nat := 0
  iter : Nat := 0          -- how many times the body has been completed (the tracer's round counter)
  hold : Hold := .none
  deriving Repr

abbrev Mem := List (Nat × Nat)

structure Sys where
  writer : Option Nat := none
  readers : List Nat := []
  mem : Mem := []
  ths : List Th
  obs : List Mem := []
  deriving Repr

/-- advance the program counter, wrapping around at the end of the body -/
def Th.next (t : Th) : Th :=
  if t.pc + 1 ≥ t.body.length then { t with pc := 0, micro := 0, iter := t.iter + 1 }
  else { t with pc := t.pc + 1, micro := 0 }

/-- one step of thread `i`; `none` when the thread is blocked (lock not available) or `i` is out
of range.  Nothing in the semantics forces accesses to happen under a lock: an ill-formed program
simply misbehaves. -/
def step (s : Sys) (i : Nat) : Option Sys :=
  match s.ths[i]? with
  | none => none
  | some t =>
    match t.body[t.pc]? with
    | none => none
    | some .acqR =>
      if s.writer = none then
        some { s with readers := i :: s.readers, ths := s.ths.set i { t.next with hold := .r } }
      else none
    | some .acqW =>
      if s.writer = none ∧ s.readers = [] then
        some { s with writer := some i, ths := s.ths.set i { t.next with hold := .w } }
      else none
    | some .rel =>
      match t.hold with
      | .r => some { s with readers := s.readers.erase i, ths := s.ths.set i { t.next with hold := .none } }
      | .w => some { s with writer := none, ths := s.ths.set i { t.next with hold := .none } }
      | .none => some { s with ths := s.ths.set i t.next }
    | some .copyOut => some { s with obs := s.obs ++ [s.mem], ths := s.ths.set i t.next }
    | some .store => some { s with mem := [], ths := s.ths.set i t.next }
    | some (.upd lo hi) =>
      if lo + t.micro < hi then
        let t' := { t with micro := t.micro + 1 }
        let t'' := if lo + t'.micro < hi then t' else t'.next
        some { s with mem := s.mem ++ [(t.iter, lo + t.micro)], ths := s.ths.set i t'' }
      else some { s with ths := s.ths.set i t.next }
    | some .setErr => some { s with ths := s.ths.set i t.next }
    | some .localStep => some { s with ths := s.ths.set i t.next }

/-- run a schedule (a list of thread indices); blocked choices are skipped -/
def runSched (s : Sys) : List Nat → Sys
  | [] => s
  | i :: is => runSched ((step s i).getD s) is

/-- micro-steps of one whole round -/
def roundSteps (m r : Nat) : Mem := (List.range m).map fun j => (r, j)

/-- `k` consecutive whole rounds starting with round `c` -/
def wholeRounds (m c : Nat) : Nat → Mem
  | 0 => []
  | k + 1 => wholeRounds m c k ++ roundSteps m (c + k)

/-- the property: a state equals a whole number of consecutive rounds applied to an empty state -/
def Whole (m : Nat) (mem : Mem) : Prop := ∃ c k, mem = wholeRounds m c k

/-- the canonical program shapes -/
def snapshotShape : List Instr := [.acqR, .copyOut, .rel]
def clearShape : List Instr := [.acqW, .store, .rel]
def errorShape : List Instr := [.acqW, .setErr, .rel]
def handlerShape (m : Nat) : List Instr := [.acqW, .upd 0 m, .rel]

end TV.Conc
