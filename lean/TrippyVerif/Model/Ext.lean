import TrippyVerif.Model.Basic
/-!
# Model of the ICMP multi-part extension code (property C14)

Mirrors, branch by branch,

* `trippy_packet::icmp_extension::extension_splitter::split`
* `trippy_packet::icmpv{4,6}::{time_exceeded,destination_unreachable}::*Packet::
   {split_payload_extension, payload, payload_raw, extension}`
* `ExtensionsPacket::{header, objects}` / `ExtensionObjectIter::next`
* `ExtensionObjectPacket::{get_length, get_class_num, get_class_subtype, payload}`
* `MplsLabelStackPacket::members` / `MplsLabelStackIter::next`
* `MplsLabelStackMemberPacket::{get_label, get_exp, get_bos, get_ttl}`
* `trippy_core::net::extension`: `Extensions::try_from(&[u8])`

Core Lean only (linked into the native driver).  Every loop is a total function: `members` is
structurally recursive, `objectsFrom` recurses on a strictly shorter list (the decrease is
proved, no `partial`).
-/
namespace TV.Ext
open TV

/-! ## data reported by the tracer (`trippy_core::probe::{Extension, MplsLabelStackMember, ..}`) -/

structure MplsMember where
  label : Nat
  exp   : Nat
  bos   : Nat
  ttl   : Nat
  deriving Repr, DecidableEq, Inhabited

inductive Extension where
  | unknown (classNum subType : Nat) (bytes : Buf)
  | mpls (members : List MplsMember)
  deriving Repr, DecidableEq, Inhabited

/-! ## `extension_splitter::split` -/

/-- `ICMP_ORIG_DATAGRAM_MIN_LENGTH` -/
abbrev origMin : Nat := 128
/-- `MIN_HEADER = ExtensionHeaderPacket::minimum_packet_size()` -/
abbrev minHeader : Nat := 4

/-- `split(length, icmp_payload)`.  None of the slice operations of the Rust function can go out
of range (`split_at(length)` is guarded by the first test, `split_at(128)` by `len > 128`,
`&payload[..length]` by `length ≤ 128 = payload.len()`), hence a pure pair. -/
def split (length : Nat) (p : Buf) : Buf × Option Buf :=
  if length > p.length then (p, none)
  else if p.length > origMin then
    if length > origMin then
      -- a 'compliant' ICMP extension longer than 128 octets: `split_at(length)`
      if (p.drop length).length ≥ minHeader then (p.take length, some (p.drop length))
      else (p, none)
    else if length > 0 then
      -- 'compliant', padded to at least 128 octets: trim the original datagram to `length`
      if (p.drop origMin).length ≥ minHeader then
        ((p.take origMin).take length, some (p.drop origMin))
      else (p, none)
    else
      -- 'non-compliant' extension, padded to 128 octets
      if (p.drop origMin).length ≥ minHeader then (p.take origMin, some (p.drop origMin))
      else (p, none)
  else (p, none)

/-! ## `split_payload_extension`, `payload`, `payload_raw`, `extension` -/

/-- `true`: `/repo` widens the length octet before multiplying
(`usize::from(self.get_length()) * 4`, repaired tree).  `false` selects the pre-repair `u8 * u8`
multiplication, kept for the old-code witness lemmas.  Used by the driver entry `handle` only; the
theorems name the setting explicitly. -/
def codeIsFixed : Bool := true

/-- words → octets: 32-bit words for ICMPv4, 64-bit words for ICMPv6 (`fam = true`) -/
def unitOf (fam : Bool) : Nat := if fam then 8 else 4

/-- `usize::from(self.get_length()) * 4` (v4) / `* 8` (v6) for `fixed = true` (the code today).
`fixed = false` is the pre-repair `usize::from(self.get_length() * 4)`: a `u8 * u8` multiplication
that overflows (panic in the dev profile) when the product exceeds 255. -/
def scaleLen (fixed : Bool) (fam : Bool) (l : UInt8) : R Nat :=
  if fixed then .ok (l.toNat * unitOf fam)
  else if l.toNat * unitOf fam > 255 then .panic
  else .ok (l.toNat * unitOf fam)

/-- `LENGTH_OFFSET`: 5 for ICMPv4, 4 for ICMPv6 -/
def lengthOffset (fam : Bool) : Nat := if fam then 4 else 5

/-- `*Packet::minimum_packet_size()` (the ICMP header) -/
abbrev icmpHeader : Nat := 8

/-- `payload_raw()`: `&buf[8..]` -/
def payloadRaw (icmp : Buf) : R Buf :=
  if icmp.length < icmpHeader then .panic else .ok (icmp.drop icmpHeader)

/-- `split_payload_extension()`; identical in the four packet types up to `fam`. -/
def splitPayloadExtensionWith (fixed : Bool) (fam : Bool) (icmp : Buf) : R (Buf × Option Buf) := do
  let l ← rd icmp (lengthOffset fam)
  let length ← scaleLen fixed fam l
  let body ← payloadRaw icmp
  pure (split length body)

/-- the pre-repair code (`u8` multiplication); kept for the old-code witness lemmas only -/
def splitPayloadExtension (fam : Bool) (icmp : Buf) : R (Buf × Option Buf) :=
  splitPayloadExtensionWith false fam icmp

/-- the code as it is today (widened multiplication) -/
def splitPayloadExtensionFixed (fam : Bool) (icmp : Buf) : R (Buf × Option Buf) :=
  splitPayloadExtensionWith true fam icmp

def payload (fixed fam : Bool) (icmp : Buf) : R Buf := do
  let r ← splitPayloadExtensionWith fixed fam icmp
  pure r.1

def extension (fixed fam : Bool) (icmp : Buf) : R (Option Buf) := do
  let r ← splitPayloadExtensionWith fixed fam icmp
  pure r.2

/-! ## `ExtensionObjectIter` -/

/-- `ExtensionObjectPacket::get_length` on a view of at least 2 octets (big-endian `u16`) -/
def be16At (obj : Buf) : Nat := (obj.getD 0 0).toNat * 256 + (obj.getD 1 0).toNat

/-- The iterator from a given offset; `rest = &buf[offset..]`.  Each item is the *whole rest* of
the buffer from the object start (not just `length` octets), as in the Rust code. -/
def objectsFrom (rest : Buf) : List Buf :=
  if rest.length < 4 then []                       -- `ExtensionObjectPacket::new_view` fails
  else if be16At rest < 4 ∨ be16At rest > rest.length then []   -- malformed: discard
  else rest :: objectsFrom (rest.drop (be16At rest))            -- `offset += length`
termination_by rest.length
decreasing_by
  simp only [List.length_drop]
  omega

/-- `ExtensionsPacket::objects().collect()`: the initial offset is 4 (`offset > len ⇒ None`
coincides with `drop` yielding the empty list). -/
def objects (ext : Buf) : List Buf := objectsFrom (ext.drop 4)

/-- `ExtensionObjectPacket::get_length` -/
def objLength (obj : Buf) : R Nat := do
  let a ← rd obj 0
  let b ← rd obj 1
  pure (a.toNat * 256 + b.toNat)

/-- `ExtensionObjectPacket::payload`:
`let end = usize::from(get_length()).clamp(4, buf.len()); &buf[4..end]`.
On a view of at least 4 octets (which `new_view` guarantees) this never panics; on a shorter
buffer `get_length` reads out of range or `clamp` asserts `min <= max`. -/
def objPayload (obj : Buf) : R Buf := do
  let len ← objLength obj
  if obj.length < 4 then .panic
  else pure ((obj.take (max 4 (min len obj.length))).drop 4)

/-! ## `MplsLabelStackIter` and the member getters -/

/-- `MplsLabelStackPacket::members().collect()`: stops after a member with S = 1 or when fewer
than 4 octets remain; each item is the rest of the buffer from the member start. -/
def members : Buf → List Buf
  | a :: b :: c :: d :: t =>
      (a :: b :: c :: d :: t) :: (if c.toNat % 2 = 1 then [] else members t)
  | _ => []

/-- label: the 20 top bits of octets 0..2 -/
def getLabel (m : Buf) : R Nat := do
  let a ← rd m 0
  let b ← rd m 1
  let c ← rd m 2
  pure ((a.toNat * 65536 + b.toNat * 256 + c.toNat) / 16)
/-- EXP / traffic class: bits 1..3 of octet 2 -/
def getExp (m : Buf) : R Nat := do
  let c ← rd m 2
  pure (c.toNat / 2 % 8)
/-- S (bottom of stack): bit 0 of octet 2 -/
def getBos (m : Buf) : R Nat := do
  let c ← rd m 2
  pure (c.toNat % 2)
/-- TTL: octet 3 -/
def getTtl (m : Buf) : R Nat := do
  let d ← rd m 3
  pure d.toNat

/-- `MplsLabelStackMember::from(MplsLabelStackMemberPacket)` -/
def memberOf (m : Buf) : R MplsMember := do
  let label ← getLabel m
  let exp ← getExp m
  let bos ← getBos m
  let ttl ← getTtl m
  pure ⟨label, exp, bos, ttl⟩

/-! ## `Extensions::try_from(&[u8])` -/

/-- `.map(f).collect()`: left to right; the first outcome that is not a normal return ends it -/
def mapR {α β : Type} (f : α → R β) : List α → R (List β)
  | [] => .ok []
  | x :: xs => do
      let y ← f x
      let ys ← mapR f xs
      pure (y :: ys)

/-- `ExtensionHeaderPacket::get_version`: `(buf[0] & 0xf0) >> 4` -/
def headerVersion (hdr : Buf) : R Nat := do
  let b ← rd hdr 0
  pure (b.toNat / 16)

/-- `MplsLabelStack::from(MplsLabelStackPacket)`:
`members().flat_map(MplsLabelStackMemberPacket::new_view).map(MplsLabelStackMember::from)` -/
def mplsOf (stack : Buf) : R (List MplsMember) :=
  mapR memberOf ((members stack).filter fun m => decide (4 ≤ m.length))

/-- the closure applied to every object view in `Extensions::try_from` -/
def objectOf (obj : Buf) : R Extension := do
  let c ← rd obj 2
  if c.toNat = 1 then
    let p ← objPayload obj
    -- `MplsLabelStackPacket::new_view(obj.payload()).map(MplsLabelStack::from).unwrap_or_default()`
    if p.length < 4 then pure (.mpls [])
    else
      let ms ← mplsOf p
      pure (.mpls ms)
  else
    let s ← rd obj 3
    let p ← objPayload obj
    pure (.unknown c.toNat s.toNat p)

/-- `Extensions::try_from(&[u8])` -/
def extensionsTryFrom (ext : Buf) : R (List Extension) :=
  if ext.length < 4 then .err .pktShort               -- `ExtensionsPacket::new_view(value)?`
  else do
    let v ← headerVersion (ext.take 4)                 -- `value.header()` = `&buf[..4]`
    if v ≠ 2 then pure []
    else
      -- `.objects().flat_map(ExtensionObjectPacket::new_view).map(..).collect()`
      mapR objectOf ((objects ext).filter fun o => decide (4 ≤ o.length))

/-! ## what the tracer takes from a Time Exceeded / Destination Unreachable message

`net/ipv4.rs`/`ipv6.rs`, `extract_probe_resp`: the octets handed to `Ipv4Packet::new_view` /
`Ipv6Packet::new_view` as the quoted original datagram, and the extension list.
`enabled = (icmp_extension_mode == Enabled)`; `te = true` for Time Exceeded. -/
def tracerExtract (fixed fam te enabled : Bool) (icmp : Buf) :
    R (Buf × Option (List Extension)) :=
  if te && !enabled then do
    let p ← payloadRaw icmp
    pure (p, none)
  else do
    let p ← payload fixed fam icmp
    if enabled then
      let e ← extension fixed fam icmp
      match e with
      | none => pure (p, none)
      | some eb =>
        let xs ← extensionsTryFrom eb
        pure (p, some xs)
    else pure (p, none)

/-! ## driver entry -/

def showMember (m : MplsMember) : String :=
  s!"{m.label}/{m.exp}/{m.bos}/{m.ttl}"

def showExtension : Extension → String
  | .unknown c s b => s!"U[{c}/{s}/{hexOrDash b}]"
  | .mpls ms => "M[" ++ ",".intercalate (ms.map showMember) ++ "]"

/-- canonical text of an extension list: `M[label/exp/bos/ttl,...];U[class/sub/hex];...`,
`-` for the empty list -/
def showExtensions (xs : List Extension) : String :=
  if xs.isEmpty then "-" else ";".intercalate (xs.map showExtension)

def showOpt : Option Buf → String
  | none => "none"
  | some b => hexOrDash b

/-- `te4|te6|du4|du6`: `*Packet::new_view(icmp)` then `payload()` and `extension()` -/
def handleIcmp (fam : Bool) (icmp : Buf) : String :=
  if icmp.length < icmpHeader then "err"
  else
    match payload codeIsFixed fam icmp, extension codeIsFixed fam icmp with
    | .ok p, .ok e => s!"payload {hexOrDash p} ext {showOpt e}"
    | .panic, _ => "panic"
    | _, .panic => "panic"
    | _, _ => "err"

/-- requests with the leading word `ext` stripped -/
def handle (args : List String) : Option String :=
  match args with
  | ["split", len, hp] =>
    match len.toNat?, bytesOfHex hp with
    | some n, some p =>
      let r := split n p
      some s!"{hexOrDash r.1} {showOpt r.2}"
    | _, _ => none
  | [kind, hb] =>
    match bytesOfHex hb with
    | none => none
    | some b =>
      if kind = "te4" ∨ kind = "du4" then some (handleIcmp false b)
      else if kind = "te6" ∨ kind = "du6" then some (handleIcmp true b)
      else if kind = "exts" then
        match extensionsTryFrom b with
        | .ok xs => some s!"ok {showExtensions xs}"
        | .err _ => some "err"
        | .panic => some "panic"
      else none
  | _ => none

end TV.Ext
