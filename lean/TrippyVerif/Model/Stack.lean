import TrippyVerif.Model.Channel
import TrippyVerif.Model.StateAgg
/-!
# The whole library stack: `Tracer::run` = `Channel` + `Strategy` + `State`

Hand-written model of the glue that joins the layers modelled separately elsewhere:

* `/repo/crates/trippy-core/src/tracer.rs` `TracerInner::run_internal`, `run_with`, `handler`,
  `handle_error`: connect the channel, run the strategy over it, fold every published round into
  the shared `State` (`update_from_round`), record a fatal error in the state (`set_error`);
* `/repo/crates/trippy-core/src/strategy.rs` `Strategy::run`, `send_request`, `do_send`,
  `recv_response` **as instantiated with the real `Channel`** as its `Network`: which `Error` of
  `Channel::send_probe` is a failed probe, which one re-issues, which one ends the run; the
  `Response` of `Channel::recv_probe` handed to `validate` / `StrategyResponse::from`.

`Stack.iter` is one iteration of the loop with the socket-level environment of that iteration
(`Env`: the I/O error armed for each `send_probe` call, the time that passes in `recv_probe`, what
the receive socket and the sockets of the outstanding TCP probes answer).  Everything below the
socket calls is the simulated `Socket` of the harness; everything above is modelled.

The refinement theorem (`Props/Stack.lean`, `iter_refines`) shows that a stack iteration *is* an
iteration of the abstract state machine `TV.Strat.iter` for the environment the channel produces,
so every strategy theorem (C01 C03 C06 C07 C08 C09) holds for the stack, and the aggregator
theorems hold for the `State` it feeds.

Tie to the code: harness component `stack` (real `Builder` → `Tracer` → `Channel<SimSocket>` →
`Strategy` → `State`), socket calls, published rounds, tracer state and the final hop table
compared after every iteration.
-/
namespace TV.Stack
open TV TV.Strat

/-- the socket-level environment of one loop iteration -/
structure Env where
  /-- the I/O error armed for the k-th `send_probe` call of the iteration (missing = none) -/
  injs : List Chan.Inject
  /-- the time that passes while `recv_probe` waits -/
  dt : Nat
  recv : Chan.Env
  deriving Repr

/-- the tracer: channel, tracing state, shared `State` (with its `error`) -/
structure St (F : Type) where
  chan : Chan.Chan
  ts : TS
  agg : Agg.State F
  error : Option Err := none

/-- what one iteration did -/
structure Out where
  /-- the log of `send_probe` calls with what each meant to the strategy -/
  sent : List (Probe × SendOutcome)
  /-- the socket calls of each `send_probe` call -/
  calls : List (List Wire.SockOp)
  /-- what `recv_probe` returned -/
  recv : Option Wire.WResp
  /-- the TCP probes whose sockets were polled -/
  polled : List Chan.TcpEntry
  published : Option Round
  deriving Repr

def headInj : List Chan.Inject → Chan.Inject × List Chan.Inject
  | [] => (none, [])
  | i :: is => (i, is)

/-- the result of the sending branch: channel, tracing state, call log, socket calls -/
abbrev SendRes := Chan.Chan × TS × List (Probe × SendOutcome) × List (List Wire.SockOp)

/-- `Strategy::do_send` over the channel for one `send_probe` call that is not re-issued:
`Ok` → nothing; `Err(ProbeFailed)` → `fail_probe`; any other `Err` is returned -/
def finishSend (ch : Chan.Chan) (s : TS) (p : Probe) (log : List (Probe × SendOutcome))
    (calls : List (List Wire.SockOp)) : Chan.SendOut → R SendRes
  | .panic => .panic
  | .ok ops => .ok (ch, s, log ++ [(p, .ok)], calls ++ [ops])
  | .err .probeFailed ops => do
    let s ← failProbe s
    .ok (ch, s, log ++ [(p, .probeFailed)], calls ++ [ops])
  | .err e _ => .err e

/-- the TCP `while let Err(err) = do_send(..)` loop over the channel; structural on the list of
armed errors (an `AddressInUse` can only come from an armed error, see `send_none_not_addrInUse`) -/
def tcpLoopS (c : Cfg) (ch : Chan.Chan) (s : TS) (p : Probe) (log : List (Probe × SendOutcome))
    (calls : List (List Wire.SockOp)) : List Chan.Inject → R SendRes
  | [] =>
    let (ch', out) := Chan.send ch p none
    finishSend ch' s p log calls out
  | inj :: rest =>
    let (ch', out) := Chan.send ch p inj
    match out with
    | .err .addrInUse ops => do
      let cap ← roundHasCapacity s
      if cap then do
        let (s, p') ← reissueProbe c s s.now
        tcpLoopS c ch' s p' (log ++ [(p, .addrInUse)]) (calls ++ [ops]) rest
      else .err .capacity
    | out => finishSend ch' s p log calls out

/-- the sending branch of `Strategy::send_request` over the channel -/
def doSendsS (c : Cfg) (ch : Chan.Chan) (s : TS) (injs : List Chan.Inject) : R SendRes :=
  match c.proto with
  | .icmp | .udp => do
    let (s, p) ← nextProbe c s s.now
    let (ch', out) := Chan.send ch p (headInj injs).1
    finishSend ch' s p [] [] out
  | .tcp => do
    let cap ← roundHasCapacity s
    if cap then do
      let (s, p) ← nextProbe c s s.now
      tcpLoopS c ch s p [] [] injs
    else .err .capacity

/-- `Strategy::send_request` over the channel -/
def sendRequestS (c : Cfg) (ch : Chan.Chan) (s : TS) (injs : List Chan.Inject) : R SendRes := do
  let g ← canSendR c s
  if g then doSendsS c ch s injs else .ok (ch, s, [], [])

/-- `network.recv_probe()?` as the strategy sees it; the receive time is the clock after the wait -/
def recvOutcome (now : Nat) : R (Option Wire.WResp) → R RecvOutcome
  | .ok none => .ok .none
  | .ok (some w) => .ok (.resp (w.toStrat now))
  | .err e => .err e
  | .panic => .panic

/-- one iteration of the loop of `Strategy::run` with the channel as its network and the
`Tracer`'s handler as its publisher -/
def iter {F : Type} [Agg.Num F] (c : Cfg) (st : St F) (e : Env) : R (St F × Out) := do
  let (ch, ts, sent, calls) ← sendRequestS c st.chan st.ts e.injs
  let ch := Chan.advance ch e.dt
  let rr := Chan.recv ch e.recv
  let ro ← recvOutcome ch.now rr.out
  let ts ← recvResponse c ts e.dt ro
  let (ts, pub) ← updateRound c ts
  let agg ← match pub with
    | none => (.ok st.agg : R (Agg.State F))
    | some r => st.agg.updateFromRound r
  let w := match rr.out with
    | .ok w => w
    | _ => none
  .ok ({ st with chan := rr.chan, ts := ts, agg := agg },
       { sent := sent, calls := calls, recv := w, polled := rr.polled, published := pub })

/-- `Tracer::clear`: the shared `State` is replaced by a fresh one made from the same limits
(`make_state_config(max_flows, max_samples)`); the tracing state and the channel are untouched -/
def clear {F : Type} [Agg.Num F] (acfg : Agg.Cfg) (st : St F) : St F :=
  { st with agg := Agg.State.new acfg, error := none }

/-- what `Builder::build` + `Tracer` hand to the layers (`make_channel_config`,
`make_strategy_config`, `make_state_config`) -/
structure TracerCfg where
  strat : Cfg
  conn : Chan.ConnCfg
  agg : Agg.Cfg

/-- result of a (finite prefix of a) run of `Tracer::run` -/
structure RunResult (F : Type) where
  state : Option (St F)
  connOps : List Chan.ConnOp
  outs : List Out
  /-- `some (ok ())`: `run` returned `Ok(())`; `some (err e)`: it returned `Err(e)` (and the state
  carries the error); `some panic`; `none`: the environment list ended first -/
  ended : Option (R Unit)

/-- `Strategy::run` over the channel: `while !state.finished(max_rounds)` -/
def loop {F : Type} [Agg.Num F] (c : Cfg) (st : St F) : List Env → St F × List Out × Option (R Unit)
  | [] => (st, [], if finished st.ts c.maxRounds then some (.ok ()) else none)
  | e :: es =>
    if finished st.ts c.maxRounds then (st, [], some (.ok ()))
    else match iter c st e with
      | .ok (st', o) =>
        let (s, outs, en) := loop c st' es
        (s, o :: outs, en)
      -- `run_with`: `.map_err(|err| self.handle_error(err))` → `state.set_error(Some(..))`
      | .err er => ({ st with error := some er }, [], some (.err er))
      | .panic => (st, [], some .panic)

/-- `Tracer::run` (after source-address discovery): connect, run, record a fatal error -/
def run {F : Type} [Agg.Num F] (k : TracerCfg) (t0 : Nat) (envs : List Env) : RunResult F :=
  match Chan.connect k.conn t0 with
  | .err e => { state := none, connOps := [], outs := [], ended := some (.err e) }
  | .panic => { state := none, connOps := [], outs := [], ended := some .panic }
  | .ok (ch, ops) =>
    let st : St F := { chan := ch, ts := init k.strat t0, agg := Agg.State.new k.agg }
    let (s, outs, en) := loop k.strat st envs
    { state := some s, connOps := ops, outs := outs, ended := en }

end TV.Stack
