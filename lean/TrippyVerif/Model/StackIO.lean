import TrippyVerif.Model.Stack
import TrippyVerif.Model.StrategyIO
/-
Line protocol for the whole-stack model (component `stack` of the driver; stateful).

  stack new <connect args (11): hexsrc hexdst size pattern priv tos i|u|t ext initialSeq readTimeoutNs tcpTimeoutNs>
            <strategy args (14): v6 target i|u|t traceId maxRounds|- first max grace inflight initial c|p|d portdir minRound maxRound>
            <maxSamples> <maxFlows> <t0Ns>
      -> ok <connops> | err <kind> | panic
  stack it <injs> <dtNs> <r|n|e> <dgram> <tcpenv>
      injs = - | <inject>,<inject>,…      (one per `send_probe` call; inject as for `chan send`, `-` = none)
      -> calls=<ops|ops|…> sent=[…] recv=<as `chan recv`> polled=[…] tcp=<list> pub=<round|none> st=<state> fin=<0|1>
       | err <kind> | panic | dead
  stack itq <as it>    -> calls=… pub=… | finished | err <kind> | panic | dead    (closed-loop run)
  stack clear          -> ok | dead       (`Tracer::clear`)
  stack dump
      -> <`agg dump`> error=<kind|->
-/
namespace TV.Stack
open TV TV.Strat

structure DSt where
  cur : Option (Cfg × St Float) := none
  acfg : Agg.Cfg := { maxSamples := 0, maxFlows := 0 }
  /-- the state kept for `dump` after the run has ended with an error -/
  last : Option (St Float) := none

def parseInjs (s : String) : Option (List Chan.Inject) :=
  if s = "-" then some [] else (s.splitOn ",").mapM Chan.parseInject

def showCalls (calls : List (List Wire.SockOp)) : String :=
  if calls.isEmpty then "-" else "|".intercalate (calls.map fun ops => Chan.showList Wire.showOp ops ";")

def showSent (l : List (Probe × SendOutcome)) : String :=
  String.intercalate ";" (l.map fun (p, oc) => showProbe p ++ "/" ++ showOutcome oc)

def handle (d : DSt) (args : List String) : DSt × String :=
  match args with
  | "new" :: rest =>
    if rest.length ≠ 28 then (d, "bad-op") else
    let t0s := rest.getD 27 ""
    match Chan.parseConn (rest.take 11 ++ [t0s]), Strat.parseCfg ((rest.drop 11).take 14 ++ [t0s]),
          (rest.getD 25 "").toNat?, (rest.getD 26 "").toNat? with
    | some (k, t0), some (c, _), some ms, some mf =>
      let r := run (F := Float) { strat := c, conn := k, agg := { maxSamples := ms, maxFlows := mf } } t0 []
      match r.ended, r.state with
      | some (.err e), _ => ({ cur := none, last := none }, "err " ++ Chan.showErr e)
      | some .panic, _ => ({ d with cur := none, last := none }, "panic")
      | _, some st => ({ cur := some (c, st), last := some st, acfg := { maxSamples := ms, maxFlows := mf } },
          "ok " ++ Chan.showList Chan.showConnOp r.connOps ";")
      | _, none => ({ d with cur := none, last := none }, "panic")
    | _, _, _, _ => (d, "bad-op")
  | ["it", injs, dt, rd, dg, envs] =>
    match parseInjs injs, dt.toNat?, Chan.parsePoll rd, Chan.parseDgram dg, Chan.parseEnvList envs with
    | some injs, some dt, some rd, some dg, some envs =>
      match d.cur with
      | none => (d, "dead")
      | some (c, st) =>
        match iter c st { injs := injs, dt := dt, recv := { readable := rd, dgram := dg, tcp := envs } } with
        | .ok (st', o) =>
          let pub := match o.published with | none => "none" | some r => showRound r
          ({ d with cur := some (c, st'), last := some st' },
           s!"calls={showCalls o.calls} sent=[{showSent o.sent}] recv={Wire.showRecv (.ok o.recv)} polled=[{Chan.showPolled o.polled}] tcp={Chan.showTcp st'.chan.tcp} pub={pub} st={showState c st'.ts}")
        | .err e => ({ d with cur := none, last := some { st with error := some e } }, "err " ++ Chan.showErr e)
        | .panic => ({ d with cur := none, last := none }, "panic")
    | _, _, _, _, _ => (d, "bad-op")
  | ["itq", injs, dt, rd, dg, envs] =>
    -- the closed-loop run: only what can be observed from outside (socket calls, published round)
    match parseInjs injs, dt.toNat?, Chan.parsePoll rd, Chan.parseDgram dg, Chan.parseEnvList envs with
    | some injs, some dt, some rd, some dg, some envs =>
      match d.cur with
      | none => (d, "dead")
      | some (c, st) =>
        if finished st.ts c.maxRounds then (d, "finished") else
        match iter c st { injs := injs, dt := dt, recv := { readable := rd, dgram := dg, tcp := envs } } with
        | .ok (st', o) =>
          let pub := match o.published with | none => "none" | some r => showRound r
          ({ d with cur := some (c, st'), last := some st' }, s!"calls={showCalls o.calls} pub={pub}")
        | .err e => ({ d with cur := none, last := some { st with error := some e } }, "err " ++ Chan.showErr e)
        | .panic => ({ d with cur := none, last := none }, "panic")
    | _, _, _, _, _ => (d, "bad-op")
  | ["clear"] =>
    -- `Tracer::clear` from another thread, between two iterations
    match d.cur, d.last with
    | some (c, st), _ => let st' := clear d.acfg st; ({ d with cur := some (c, st'), last := some st' }, "ok")
    | none, some st => ({ d with last := some (clear d.acfg st) }, "ok")
    | none, none => (d, "dead")
  | ["dump"] =>
    match d.last with
    | none => (d, "dead")
    | some st =>
      let e := match st.error with | none => "-" | some e => Chan.showErr e
      (d, Agg.showFull st.agg ++ " error=" ++ e)
  | _ => (d, "bad-op")

end TV.Stack
