import TrippyVerif.Model.StrategyIO
/-
Hand-written model of the trace-state aggregator:
  /repo/crates/trippy-core/src/state.rs   `State::{new, update_from_round, update_trace_flow}` and the
      getters, `Hop` (+ derived getters), `FlowState::{new, hops, is_target, is_in_round, target_hop,
      update_round, update_lowest_ttl}`, `state_updater::{StateUpdater::{apply, update_for_probe},
      is_forward_loss, nat_status}`
  /repo/crates/trippy-core/src/flows.rs   `FlowRegistry::{new, register, lookup}`,
      `Flow::{from_hops, check, merge}`, `FlowEntry`, `CheckStatus`
The input types are those of the strategy model (`TV.Strat.{Probe, Complete, Slot, Round}`), so the
rounds the strategy model publishes can be fed to this model unchanged.

Conventions
  * times/durations are `Nat` nanoseconds, addresses `Nat` ids, `Complete.ext` an opaque tag;
  * `panic` where the Rust indexes out of range: `usize::from(ttl) - 1` for `ttl = 0`,
    `hops[index]` for `index ≥ 254`, the slice `hops[lowest-1 .. highest]`, the `HashMap` index
    `self.state[&flow_id]` of the getters for an unknown flow id;
  * the `usize` counters, the `u64` flow id and the `Duration` sum cannot overflow in any feasible run
    (2^64 probes / 584 years) and are unbounded `Nat`s;
  * FLOATS.  The `f64` fields (`javg`, `jinta`, `mean`, `m2`) and the two `Duration`s derived from a
    float (`jitter`, `jmax`, via `Duration::from_secs_f64`) are computed over an abstract number
    type `F` with the operations of class `Num`, in exactly the operation order of the Rust code.
    The executable driver instantiates `F := Float` (IEEE binary64, bit-compatible with `f64` for
    `+ - * / abs sqrt`); the theorems instantiate `F := Rat` (exact arithmetic, in `Lemmas/`), or
    hold for every `F`.  IEEE ROUNDING IS NOT MODELLED by any theorem.
-/
namespace TV.Agg
open TV TV.Strat

/-- `trippy_core::constants::MAX_TTL` -/
def MAX_TTL : Nat := Consts.core_MAX_TTL

/-- the arithmetic the aggregator performs on `f64` -/
class Num (F : Type) extends Add F, Sub F, Mul F, Div F where
  /-- `n as f64` -/
  ofNat : Nat → F
  /-- `f64::abs` -/
  abs : F → F
  /-- `x.max(0.5)` -/
  maxHalf : F → F
  /-- `Duration::as_secs_f64() * 1000_f64` of a duration given in ns -/
  durMs : Nat → F
  /-- `Duration::from_secs_f64(x / 1000_f64)` in ns -/
  toDur : F → Nat

/-! ### `Float` instance (driver only) -/

/-- `Duration::as_secs_f64`: `secs as f64 + nanos as f64 / 1e9` -/
def floatSecs (ns : Nat) : Float :=
  Float.ofNat (ns / 1000000000) + Float.ofNat (ns % 1000000000) / 1000000000.0

/-- exact decomposition of a finite non-negative double: `x = m * 2^e` -/
def floatParts (x : Float) : Nat × Int :=
  let b : Nat := x.toBits.toNat
  let ex : Nat := (b / 2 ^ 52) % 2048
  let fr : Nat := b % 2 ^ 52
  if ex = 0 then (fr, -1074) else (fr + 2 ^ 52, (ex : Int) - 1075)

/-- round-half-even of `n / 2^k` -/
def rshiftRne (n k : Nat) : Nat :=
  let q := n / 2 ^ k
  let r := n % 2 ^ k
  if 2 * r > 2 ^ k then q + 1 else if 2 * r = 2 ^ k then q + q % 2 else q

/-- `Duration::from_secs_f64(x)` in ns for finite `x ≥ 0`: the exact value, rounded to the nearest
nanosecond, ties to even (library/core/src/time.rs `try_from_secs!`). -/
def floatToNs (x : Float) : Nat :=
  let (m, e) := floatParts x
  let n := m * 1000000000
  match e with
  | .ofNat k => n * 2 ^ k
  | .negSucc k => rshiftRne n (k + 1)

instance : Num Float where
  ofNat := Float.ofNat
  abs := Float.abs
  maxHalf x := if x < 0.5 then 0.5 else x
  durMs ns := floatSecs ns * 1000.0
  toDur x := floatToNs (x / 1000.0)

/-! ### flows (flows.rs) -/

inductive FlowEntry
  | unknown
  | known (a : Nat)
  deriving DecidableEq, Repr

/-- `Flow { entries }`; entry `i` belongs to ttl `i + 1` -/
abbrev Flow := List FlowEntry

inductive CheckStatus | matched | noMatch | matchMerge
  deriving DecidableEq, Repr

/-- `Flow::from_hops` -/
def Flow.fromHops (hops : List (Option Nat)) : Flow :=
  hops.map fun
    | some a => .known a
    | none => .unknown

/-- the `for (old, new) in zip` loop of `Flow::check`: `none` = early `NoMatch`, else `additions` -/
def Flow.checkLoop : Flow → Flow → Nat → Option Nat
  | o :: os, n :: ns, additions =>
    match o, n with
    | .known fst, .known snd => if fst ≠ snd then none else Flow.checkLoop os ns additions
    | .unknown, .known _ => Flow.checkLoop os ns (additions + 1)
    | _, _ => Flow.checkLoop os ns additions
  | _, _, additions => some additions

/-- `Flow::check` -/
def Flow.check (self flow : Flow) : CheckStatus :=
  match Flow.checkLoop self flow 0 with
  | none => .noMatch
  | some additions =>
    if flow.length > self.length ∨ additions > 0 then .matchMerge else .matched

/-- `Flow::merge` (`zip_longest`) -/
def Flow.merge : Flow → Flow → Flow
  | l :: ls, r :: rs =>
    (match l, r with
     | .unknown, .known _ => r
     | _, _ => l) :: Flow.merge ls rs
  | [], rs => rs
  | ls, [] => ls

/-- `FlowRegistry` -/
structure Registry where
  nextId : Nat
  flows : List (Flow × Nat)
  deriving DecidableEq, Repr

/-- `FlowRegistry::new` -/
def Registry.new : Registry := { nextId := 1, flows := [] }

/-- the loop of `FlowRegistry::lookup` -/
def Registry.lookupLoop : List (Flow × Nat) → Flow → List (Flow × Nat) × Option Nat
  | [], _ => ([], none)
  | (entry, id) :: rest, flow =>
    match entry.check flow with
    | .matched => ((entry, id) :: rest, some id)
    | .noMatch =>
      let (rest', r) := Registry.lookupLoop rest flow
      ((entry, id) :: rest', r)
    | .matchMerge => ((entry.merge flow, id) :: rest, some id)

/-- `FlowRegistry::lookup` -/
def Registry.lookup (self : Registry) (flow : Flow) : Registry × Option Nat :=
  let (fl, r) := Registry.lookupLoop self.flows flow
  ({ self with flows := fl }, r)

/-- `FlowRegistry::register` -/
def Registry.register (self : Registry) (flow : Flow) : Registry × Nat :=
  match self.lookup flow with
  | (self', some id) => (self', id)
  | (self', none) =>
    ({ nextId := self'.nextId + 1, flows := self'.flows ++ [(flow, self'.nextId)] }, self'.nextId)

/-! ### hops (state.rs) -/

inductive NatStatus | notApplicable | notDetected | detected
  deriving DecidableEq, Repr

/-- `Hop` -/
structure Hop (F : Type) where
  ttl : Nat
  /-- `IndexMap<IpAddr, usize>` in insertion order -/
  addrs : List (Nat × Nat)
  totalSent : Nat
  totalRecv : Nat
  totalFailed : Nat
  totalForwardLost : Nat
  totalBackwardLost : Nat
  totalTime : Nat
  last : Option Nat
  best : Option Nat
  worst : Option Nat
  jitter : Option Nat
  javg : F
  jmax : Option Nat
  jinta : F
  lastSrcPort : Nat
  lastDestPort : Nat
  lastSequence : Nat
  lastIcmp : Option IcmpKind
  lastNatStatus : NatStatus
  samples : List Nat
  tos : Option Nat
  extensions : Option Nat
  mean : F
  m2 : F

variable {F : Type} [Num F]

/-- `Hop::default` -/
def Hop.default : Hop F :=
  { ttl := 0, addrs := [], totalSent := 0, totalRecv := 0, totalFailed := 0, totalForwardLost := 0,
    totalBackwardLost := 0, totalTime := 0, last := none, best := none, worst := none, jitter := none,
    javg := Num.ofNat 0, jmax := none, jinta := Num.ofNat 0, lastSrcPort := 0, lastDestPort := 0,
    lastSequence := 0, lastIcmp := none, lastNatStatus := .notApplicable, samples := [], tos := none,
    extensions := none, mean := Num.ofNat 0, m2 := Num.ofNat 0 }

/-- `hop.samples.insert(0, dur); if hop.samples.len() > max_samples { hop.samples.pop(); }` -/
def pushSample (maxSamples : Nat) (samples : List Nat) (dur : Nat) : List Nat :=
  let s := dur :: samples
  if s.length > maxSamples then s.dropLast else s

/-- `*hop.addrs.entry(host).or_default() += 1` -/
def bumpAddr : List (Nat × Nat) → Nat → List (Nat × Nat)
  | [], host => [(host, 1)]
  | (k, n) :: rest, host => if k = host then (k, n + 1) :: rest else (k, n) :: bumpAddr rest host

/-- `nat_status` -/
def natStatus (expected actual : Nat) (prevHopChecksum : Option Nat) : NatStatus × Nat :=
  match prevHopChecksum with
  | some prev => if prev = actual then (.notDetected, prev) else (.detected, actual)
  | none => if expected = actual then (.notDetected, actual) else (.detected, actual)

/-- the predicate of the `skip_while` of `is_forward_loss` -/
def skipPred (awaitedTtl : Nat) : Slot → Bool
  | .awaited a => decide (a.ttl ≤ awaitedTtl)
  | .complete c => decide (c.probe.ttl ≤ awaitedTtl)
  | .failed f => decide (f.ttl ≤ awaitedTtl)
  | .notSent | .skipped => true

def isAwaitedOrSkipped : Slot → Bool
  | .awaited _ | .skipped => true
  | _ => false

/-- `is_forward_loss` -/
def isForwardLoss (probes : List Slot) (awaitedTtl : Nat) : Bool :=
  let remaining := probes.dropWhile (skipPred awaitedTtl)
  let isEmpty := remaining.isEmpty
  let allAwaited := remaining.all isAwaitedOrSkipped
  !isEmpty && allAwaited

/-- the `ProbeStatus::Complete` arm of `update_for_probe`, the part that concerns the hop itself
(everything except the NAT status, which needs the updater's `prev_hop_checksum`) -/
def Hop.complete (hop : Hop F) (maxSamples : Nat) (c : Complete) : Hop F :=
  let totalSent := hop.totalSent + 1
  let totalRecv := hop.totalRecv + 1
  -- `received.duration_since(sent).unwrap_or_default()`
  let dur := c.received - c.probe.sent
  let durMs : F := Num.durMs dur
  let totalTime := hop.totalTime + dur
  let lastMs : F := match hop.last with
    | some l => Num.durMs l
    | none => Num.ofNat 0
  let jitterMs : F := Num.abs (durMs - lastMs)
  let jitterDur := Num.toDur jitterMs
  let jitter := match hop.last with
    | some _ => some jitterDur
    | none => none
  let javg := hop.javg + (jitterMs - hop.javg) / Num.ofNat totalRecv
  let jinta := hop.jinta + (Num.maxHalf jitterMs - ((hop.jinta + Num.ofNat 8) / Num.ofNat 16))
  let jmax := match hop.jmax with
    | none => some jitterDur
    | some d => some (max d jitterDur)
  let samples := pushSample maxSamples hop.samples dur
  let best := match hop.best with
    | none => some dur
    | some d => some (min d dur)
  let worst := match hop.worst with
    | none => some dur
    | some d => some (max d dur)
  -- Welford: `let delta = dur_ms - hop.mean; hop.mean += delta / n; hop.m2 += delta * (dur_ms - hop.mean)`
  let delta := durMs - hop.mean
  let mean := hop.mean + delta / Num.ofNat totalRecv
  let m2 := hop.m2 + delta * (durMs - mean)
  { hop with
    ttl := c.probe.ttl, totalSent := totalSent, totalRecv := totalRecv, totalTime := totalTime,
    jitter := jitter, javg := javg, jinta := jinta, jmax := jmax, last := some dur,
    samples := samples, best := best, worst := worst, mean := mean, m2 := m2,
    addrs := bumpAddr hop.addrs c.host, extensions := c.ext,
    lastSrcPort := c.probe.srcPort, lastDestPort := c.probe.destPort, lastSequence := c.probe.seq,
    lastIcmp := some c.kind, tos := c.tos }

/-- which loss counter an awaited probe bumps -/
inductive Loss | none | forward | backward
  deriving DecidableEq, Repr

/-- the `ProbeStatus::Awaited` arm -/
def Hop.awaited (hop : Hop F) (maxSamples : Nat) (a : Probe) (loss : Loss) : Hop F :=
  { hop with
    totalSent := hop.totalSent + 1, ttl := a.ttl,
    samples := pushSample maxSamples hop.samples 0,
    lastSrcPort := a.srcPort, lastDestPort := a.destPort, lastSequence := a.seq,
    totalBackwardLost := if loss = .backward then hop.totalBackwardLost + 1 else hop.totalBackwardLost,
    totalForwardLost := if loss = .forward then hop.totalForwardLost + 1 else hop.totalForwardLost }

/-- the `ProbeStatus::Failed` arm -/
def Hop.failed (hop : Hop F) (maxSamples : Nat) (f : Probe) : Hop F :=
  { hop with
    totalSent := hop.totalSent + 1, totalFailed := hop.totalFailed + 1, ttl := f.ttl,
    samples := pushSample maxSamples hop.samples 0,
    lastSrcPort := f.srcPort, lastDestPort := f.destPort, lastSequence := f.seq }

/-! derived getters of `Hop` -/

/-- `loss_pct` (also `forward_loss_pct`, `backward_loss_pct` with the respective count) -/
def pct (lost sent : Nat) : F :=
  if sent > 0 then (Num.ofNat lost : F) / Num.ofNat sent * Num.ofNat 100 else Num.ofNat 0

def Hop.lossPct (h : Hop F) : F := pct (h.totalSent - h.totalRecv) h.totalSent
def Hop.forwardLossPct (h : Hop F) : F := pct h.totalForwardLost h.totalSent
def Hop.backwardLossPct (h : Hop F) : F := pct h.totalBackwardLost h.totalSent

/-- `avg_ms` -/
def Hop.avgMs (h : Hop F) : F :=
  if h.totalRecv > 0 then (Num.durMs h.totalTime : F) / Num.ofNat h.totalRecv else Num.ofNat 0

/-- `stddev_ms` (driver only: needs `sqrt`) -/
def Hop.stddevMs (h : Hop Float) : Float :=
  if h.totalRecv > 1 then (h.m2 / Float.ofNat (h.totalRecv - 1)).sqrt else 0.0

/-! ### per-flow state -/

/-- `FlowState` -/
structure FlowState (F : Type) where
  maxSamples : Nat
  lowestTtl : Nat
  highestTtl : Nat
  highestTtlForRound : Nat
  round : Option Nat
  roundCount : Nat
  hops : List (Hop F)

/-- `FlowState::new` -/
def FlowState.new (maxSamples : Nat) : FlowState F :=
  { maxSamples := maxSamples, lowestTtl := 0, highestTtl := 0, highestTtlForRound := 0,
    round := none, roundCount := 0, hops := List.replicate MAX_TTL Hop.default }

/-- `FlowState::hops`: `&self.hops[lowest - 1 .. highest]` -/
def FlowState.hopsR (s : FlowState F) : R (List (Hop F)) :=
  if s.lowestTtl = 0 ∨ s.highestTtl = 0 then .ok []
  else
    let start := s.lowestTtl - 1
    let end_ := s.highestTtl
    if start ≤ end_ ∧ end_ ≤ s.hops.length then .ok ((s.hops.take end_).drop start) else .panic

/-- `FlowState::is_target` -/
def FlowState.isTarget (s : FlowState F) (hop : Hop F) : Bool := decide (s.highestTtlForRound = hop.ttl)

/-- `FlowState::is_in_round` -/
def FlowState.isInRound (s : FlowState F) (hop : Hop F) : Bool := decide (hop.ttl ≤ s.highestTtlForRound)

def idx (l : List α) (i : Nat) : R α :=
  match l[i]? with
  | some x => .ok x
  | none => .panic

/-- `FlowState::target_hop` -/
def FlowState.targetHopR (s : FlowState F) : R (Hop F) :=
  if s.highestTtlForRound > 0 then idx s.hops (s.highestTtlForRound - 1) else idx s.hops 0

/-- `FlowState::update_round` -/
def FlowState.updateRound (s : FlowState F) (round : Nat) : FlowState F :=
  { s with round := match s.round with
      | none => some round
      | some r => some (max r round) }

/-- `FlowState::update_lowest_ttl` -/
def FlowState.updateLowestTtl (s : FlowState F) (ttl : Nat) : FlowState F :=
  if s.lowestTtl = 0 then { s with lowestTtl := ttl } else { s with lowestTtl := min s.lowestTtl ttl }

/-- `StateUpdater` -/
structure Updater (F : Type) where
  state : FlowState F
  prevHopChecksum : Option Nat
  forwardLoss : Bool

/-- `let index = usize::from(ttl.0) - 1; let hop = &mut state.hops[index]; …` -/
def FlowState.modifyHop (s : FlowState F) (ttl : Nat) (f : Hop F → Hop F) : R (FlowState F) :=
  if ttl = 0 then .panic
  else match s.hops[ttl - 1]? with
    | none => .panic
    | some hop => .ok { s with hops := s.hops.set (ttl - 1) (f hop) }

/-- `StateUpdater::update_for_probe`; `probes` = `self.round.probes` -/
def Updater.updateForProbe (u : Updater F) (probes : List Slot) (probe : Slot) : R (Updater F) :=
  match probe with
  | .complete c => do
    let state := (u.state.updateLowestTtl c.probe.ttl).updateRound c.probe.round
    match c.expCk, c.actCk with
    | some expected, some actual =>
      let (natStatus, checksum) := natStatus expected actual u.prevHopChecksum
      let state ← state.modifyHop c.probe.ttl fun hop =>
        { hop.complete state.maxSamples c with lastNatStatus := natStatus }
      .ok { u with state := state, prevHopChecksum := some checksum }
    | _, _ =>
      let state ← state.modifyHop c.probe.ttl fun hop => hop.complete state.maxSamples c
      .ok { u with state := state }
  | .awaited a => do
    let state := (u.state.updateLowestTtl a.ttl).updateRound a.round
    if u.forwardLoss then
      let state ← state.modifyHop a.ttl fun hop => hop.awaited state.maxSamples a .backward
      .ok { u with state := state }
    else if isForwardLoss probes a.ttl then
      let state ← state.modifyHop a.ttl fun hop => hop.awaited state.maxSamples a .forward
      .ok { u with state := state, forwardLoss := true }
    else
      let state ← state.modifyHop a.ttl fun hop => hop.awaited state.maxSamples a .none
      .ok { u with state := state }
  | .failed f => do
    let state := (u.state.updateLowestTtl f.ttl).updateRound f.round
    let state ← state.modifyHop f.ttl fun hop => hop.failed state.maxSamples f
    .ok { u with state := state }
  | .notSent | .skipped => .ok u

/-- the `for probe in self.round.probes` loop -/
def Updater.loop (probes : List Slot) : Updater F → List Slot → R (Updater F)
  | u, [] => .ok u
  | u, p :: ps => do
    let u ← u.updateForProbe probes p
    Updater.loop probes u ps

/-- `StateUpdater::new(state, round).apply()` = `FlowState::update_from_round` -/
def FlowState.applyRound (s : FlowState F) (round : Round) : R (FlowState F) := do
  let s := { s with
    roundCount := s.roundCount + 1,
    highestTtl := max s.highestTtl round.largestTtl,
    highestTtlForRound := round.largestTtl }
  let u ← Updater.loop round.probes { state := s, prevHopChecksum := none, forwardLoss := false }
    round.probes
  .ok u.state

/-! ### the whole state -/

/-- `StateConfig` -/
structure Cfg where
  maxSamples : Nat
  maxFlows : Nat
  deriving DecidableEq, Repr

/-- `State` (the `error` string is not modelled) -/
structure State (F : Type) where
  cfg : Cfg
  roundFlowId : Nat
  /-- `HashMap<FlowId, FlowState>` as an association list with distinct keys -/
  flows : List (Nat × FlowState F)
  registry : Registry

/-- `State::default_flow_id` -/
def defaultFlowId : Nat := 0

/-- `State::new` -/
def State.new (cfg : Cfg) : State F :=
  { cfg := cfg, roundFlowId := defaultFlowId,
    flows := [(defaultFlowId, FlowState.new cfg.maxSamples)], registry := Registry.new }

def lookupFlow : List (Nat × FlowState F) → Nat → Option (FlowState F)
  | [], _ => none
  | (k, v) :: rest, id => if k = id then some v else lookupFlow rest id

def setFlow : List (Nat × FlowState F) → Nat → FlowState F → List (Nat × FlowState F)
  | [], id, v => [(id, v)]
  | (k, w) :: rest, id, v => if k = id then (k, v) :: rest else (k, w) :: setFlow rest id v

/-- `State::update_trace_flow`: `entry(flow_id).or_insert_with(new)` then `update_from_round` -/
def State.updateTraceFlow (st : State F) (flowId : Nat) (round : Round) : R (State F) := do
  let flowTrace := match lookupFlow st.flows flowId with
    | some fs => fs
    | none => FlowState.new st.cfg.maxSamples
  let flowTrace ← flowTrace.applyRound round
  .ok { st with flows := setFlow st.flows flowId flowTrace }

/-- the `filter_map` of `update_from_round`: one position per probed hop (a probe that failed to send
is an unknown hop, like an unanswered one; skipped and unused slots are no probes) -/
def flowHop : Slot → Option (Option Nat)
  | .awaited _ => some none
  | .failed _ => some none
  | .complete c => some (some c.host)
  | _ => none

/-- the flow a round is registered under -/
def roundFlow (round : Round) : Flow :=
  Flow.fromHops ((round.probes.filterMap flowHop).take round.largestTtl)

/-- `State::update_from_round` -/
def State.updateFromRound (st : State F) (round : Round) : R (State F) := do
  let flow := roundFlow round
  let st ← st.updateTraceFlow defaultFlowId round
  let (registry, flowId) :=
    if st.registry.flows.length < st.cfg.maxFlows then
      let (reg, id) := st.registry.register flow
      (reg, some id)
    else
      st.registry.lookup flow
  let st := { st with registry := registry }
  match flowId with
  | some flowId =>
    let st := { st with roundFlowId := flowId }
    st.updateTraceFlow flowId round
  | none => .ok st

/-- `self.state[&flow_id]` -/
def State.flowR (st : State F) (flowId : Nat) : R (FlowState F) :=
  match lookupFlow st.flows flowId with
  | some fs => .ok fs
  | none => .panic

/-- `State::hops` -/
def State.hops (st : State F) : R (List (Hop F)) := do (← st.flowR defaultFlowId).hopsR
/-- `State::hops_for_flow` -/
def State.hopsForFlow (st : State F) (flowId : Nat) : R (List (Hop F)) := do (← st.flowR flowId).hopsR
/-- `State::is_target` -/
def State.isTarget (st : State F) (hop : Hop F) (flowId : Nat) : R Bool := do
  .ok ((← st.flowR flowId).isTarget hop)
/-- `State::is_in_round` -/
def State.isInRound (st : State F) (hop : Hop F) (flowId : Nat) : R Bool := do
  .ok ((← st.flowR flowId).isInRound hop)
/-- `State::target_hop` -/
def State.targetHop (st : State F) (flowId : Nat) : R (Hop F) := do (← st.flowR flowId).targetHopR
/-- `State::round` -/
def State.round (st : State F) (flowId : Nat) : R (Option Nat) := do .ok (← st.flowR flowId).round
/-- `State::round_count` -/
def State.roundCount (st : State F) (flowId : Nat) : R Nat := do .ok (← st.flowR flowId).roundCount
/-- `State::flows` -/
def State.flowsList (st : State F) : List (Flow × Nat) := st.registry.flows

/-- a history of rounds, from a given state -/
def State.run (st : State F) : List Round → R (State F)
  | [] => .ok st
  | r :: rs => do
    let st ← st.updateFromRound r
    State.run st rs

/-- a history of rounds applied to one flow's state -/
def FlowState.run (s : FlowState F) : List Round → R (FlowState F)
  | [] => .ok s
  | r :: rs => do
    let s ← s.applyRound r
    FlowState.run s rs

/-! ### driver line protocol (component `agg`, stateful)

  agg new <maxSamples> <maxFlows>                → ok
  agg round <largestTtl> <T|L> <slots|->         → brief dump (default flow + the round's flow,
                                                   the latter's hops only now and then)
      slots = `;`-separated, in the format of `TV.Strat.showSlot`
  agg dump                                       → full dump (every flow, whole registry)
  agg get <flow> <hops|target|round|count>       → the getter's value, or `panic`

Dump format (one line): flows separated by ` | `, inside a flow the header and the hops separated
by ` ; `, inside a hop space separated `name=value` tokens.  Float-valued tokens: `javg= jinta=
loss= floss= bloss= avg= sd=` (printed exactly, as `<decimal digits>e<exponent>`; the real `Hop` has
no getter for `mean`/`m2`, `sd=` is `stddev_ms()`); float-derived durations: `jitter= jmax=`.
-/

/-- number of trailing zero bits of `m` (at most `fuel`) -/
def trailingZeros (m : Nat) : Nat → Nat
  | 0 => 0
  | fuel + 1 => if m % 2 = 0 ∧ m ≠ 0 then 1 + trailingZeros (m / 2) fuel else 0

/-- exact decimal rendering of a double: `<digits>e<exp>` -/
def showFloat (x : Float) : String :=
  if x.isNaN then "nan" else if x.isInf then (if x < 0.0 then "-inf" else "inf") else
  let neg := decide (x.toBits.toNat ≥ 2 ^ 63)
  let (m, e) := floatParts (Float.ofBits (x.toBits &&& 0x7fffffffffffffff))
  let sign := if neg then "-" else ""
  if m = 0 then sign ++ "0e0" else
  match e with
  | .ofNat k => sign ++ toString (m * 2 ^ k) ++ "e0"
  | .negSucc k =>
    -- strip common factors of two first (shorter text, same value)
    let z := Nat.min (k + 1) (trailingZeros m 64)
    let m := m / 2 ^ z
    let k := k + 1 - z
    if k = 0 then sign ++ toString m ++ "e0" else sign ++ toString (m * 5 ^ k) ++ "e-" ++ toString k

def showNat? : Option Nat → String
  | none => "-"
  | some n => toString n

def showNatStatus : NatStatus → String
  | .notApplicable => "NA" | .notDetected => "ND" | .detected => "D"

def showList (xs : List String) : String := "[" ++ String.intercalate "," xs ++ "]"

def showSamples (full : Bool) (xs : List Nat) : String :=
  if full then showList (xs.map toString)
  else s!"{xs.length}/{xs.foldl (· + ·) 0}/{showNat? xs.head?}/{showNat? xs.getLast?}"

def b01 (b : Bool) : String := if b then "1" else "0"

def showHop (full : Bool) (fs : FlowState Float) (h : Hop Float) : String :=
  String.intercalate " " [
    s!"t={h.ttl}", s!"s={h.totalSent}", s!"r={h.totalRecv}", s!"f={h.totalFailed}",
    s!"fw={h.totalForwardLost}", s!"bw={h.totalBackwardLost}", s!"tt={h.totalTime}",
    s!"l={showNat? h.last}", s!"b={showNat? h.best}", s!"w={showNat? h.worst}",
    s!"jitter={showNat? h.jitter}", s!"jmax={showNat? h.jmax}",
    s!"javg={showFloat h.javg}", s!"jinta={showFloat h.jinta}",
    s!"loss={showFloat h.lossPct}", s!"floss={showFloat h.forwardLossPct}",
    s!"bloss={showFloat h.backwardLossPct}", s!"avg={showFloat h.avgMs}", s!"sd={showFloat h.stddevMs}",
    s!"sp={h.lastSrcPort}", s!"dp={h.lastDestPort}", s!"sq={h.lastSequence}",
    s!"k={match h.lastIcmp with | none => "-" | some k => showKind k}",
    s!"nat={showNatStatus h.lastNatStatus}", s!"tos={showNat? h.tos}", s!"ext={showNat? h.extensions}",
    s!"tg={b01 (fs.isTarget h)}", s!"ir={b01 (fs.isInRound h)}",
    s!"sm={showSamples full h.samples}",
    "ad=" ++ showList (h.addrs.map fun (a, n) => s!"{a}:{n}") ]

def showFlowEntry : FlowEntry → String
  | .unknown => "*"
  | .known a => toString a

def showRegEntry (e : Flow × Nat) : String := s!"{e.2}:" ++ showList (e.1.map showFlowEntry)

/-- one flow of the dump; `none` if a getter panics.
`mode`: 0 = header only, 1 = hops with abbreviated samples, 2 = everything -/
def showFlowState (mode : Nat) (st : State Float) (id : Nat) : Option String :=
  match st.flowR id, st.hopsForFlow id, st.targetHop id, st.round id, st.roundCount id with
  | .ok fs, .ok hops, .ok tgt, .ok round, .ok count =>
    some (String.intercalate " ; "
      (s!"flow {id} rounds={count} round={showNat? round} target={tgt.ttl}:{tgt.totalSent}:{tgt.totalRecv} nhops={hops.length}"
        :: (if mode = 0 then [] else hops.map (showHop (mode = 2) fs))))
  | _, _, _, _, _ => none

def joinFlows (parts : List (Option String)) (tail : List String) : String :=
  if parts.any Option.isNone then "panic"
  else String.intercalate " | " (parts.filterMap id ++ tail)

/-- answer to `round`: the default flow, and the round's own flow (its hops only when its round
count is ≤ 2 or a multiple of 8; `dump` shows everything) -/
def showBrief (st : State Float) : String :=
  let own := if st.roundFlowId = defaultFlowId then [] else
    let n := match st.roundCount st.roundFlowId with | .ok n => n | _ => 0
    [showFlowState (if n ≤ 2 ∨ n % 8 = 0 then 1 else 0) st st.roundFlowId]
  let reg := match st.registry.flows.find? (fun e => e.2 = st.roundFlowId) with
    | some e => showRegEntry e
    | none => "-"
  joinFlows (showFlowState 1 st defaultFlowId :: own)
    [s!"rfid={st.roundFlowId} nreg={st.registry.flows.length} reg={reg}"]

/-- answer to `dump` -/
def showFull (st : State Float) : String :=
  let ids := defaultFlowId :: st.registry.flows.map (·.2)
  joinFlows (ids.map (showFlowState 2 st))
    [s!"rfid={st.roundFlowId}",
     "reg=" ++ (if st.registry.flows.isEmpty then "-"
                else String.intercalate ";" (st.registry.flows.map showRegEntry))]

def parseKind (s : String) : Option IcmpKind :=
  if s = "na" then some .notApplicable
  else if s.startsWith "te" then (s.drop 2).toNat?.map .timeExceeded
  else if s.startsWith "er" then (s.drop 2).toNat?.map .echoReply
  else if s.startsWith "du" then (s.drop 2).toNat?.map .unreachable
  else none

def parseProbe : List String → Option Probe
  | [seq, ident, sp, dp, ttl, round, sent, flags] => do
    pure { seq := ← seq.toNat?, ident := ← ident.toNat?, srcPort := ← sp.toNat?, destPort := ← dp.toNat?,
           ttl := ← ttl.toNat?, round := ← round.toNat?, sent := ← sent.toNat?, flags := ← flags.toNat? }
  | _ => none

/-- inverse of `TV.Strat.showSlot` -/
def parseSlot (s : String) : Option Slot :=
  if s = "N" then some .notSent
  else if s = "S" then some .skipped
  else if s.length < 3 ∨ !s.endsWith ")" then none
  else
    let body := ((s.drop 2).dropEnd 1).toString.splitOn "/"
    if s.startsWith "F(" then (parseProbe body).map .failed
    else if s.startsWith "A(" then (parseProbe body).map .awaited
    else if s.startsWith "C(" then
      match body with
      | [seq, ident, sp, dp, ttl, round, sent, flags, host, received, kind, tos, exp, act, ext] => do
        let p ← parseProbe [seq, ident, sp, dp, ttl, round, sent, flags]
        pure (.complete { probe := p, host := ← host.toNat?, received := ← received.toNat?,
                          kind := ← parseKind kind, tos := ← optNat? tos, expCk := ← optNat? exp,
                          actCk := ← optNat? act, ext := ← optNat? ext })
      | _ => none
    else none

def parseSlots (s : String) : Option (List Slot) :=
  if s = "-" then some [] else (s.splitOn ";").mapM parseSlot

/-- driver state of the `agg` component; `none` = no state yet, or dead after a panic -/
structure DSt where
  st : Option (State Float) := none

def showR {α} (f : α → String) : R α → String
  | .ok a => f a
  | .err _ => "err"
  | .panic => "panic"

/-- one request of the `agg` component (leading word already stripped) -/
def handle (d : DSt) (args : List String) : DSt × String :=
  match args with
  | ["new", ms, mf] =>
    match ms.toNat?, mf.toNat? with
    | some ms, some mf => ({ st := some (State.new { maxSamples := ms, maxFlows := mf }) }, "ok")
    | _, _ => (d, "bad-op")
  | ["round", largest, reason, slots] =>
    match d.st, largest.toNat?, parseSlots slots with
    | some st, some largest, some probes =>
      let reason := if reason = "T" then Reason.targetFound else Reason.roundTimeLimitExceeded
      match st.updateFromRound { probes := probes, largestTtl := largest, reason := reason } with
      | .ok st' =>
        let out := showBrief st'
        -- a getter that panics leaves the state as it is (the harness ends the history)
        ({ st := some st' }, out)
      | _ => ({ st := none }, "panic")
    | none, some _, some _ => (d, "dead")
    | _, _, _ => (d, "bad-op")
  | ["dump"] =>
    match d.st with
    | some st => (d, showFull st)
    | none => (d, "dead")
  | ["get", flow, what] =>
    match d.st, flow.toNat? with
    | some st, some id =>
      let out := match what with
        | "hops" => showR (fun (hs : List (Hop Float)) => toString hs.length) (st.hopsForFlow id)
        | "target" => showR (fun (h : Hop Float) => s!"{h.ttl}:{h.totalSent}:{h.totalRecv}") (st.targetHop id)
        | "round" => showR showNat? (st.round id)
        | "count" => showR (fun (n : Nat) => toString n) (st.roundCount id)
        | _ => "bad-op"
      (d, out)
    | none, some _ => (d, "dead")
    | _, _ => (d, "bad-op")
  | _ => (d, "bad-op")

end TV.Agg
