import TrippyVerif.Model.Basic
import TrippyVerif.Gen.Consts
/-
Hand-written model of the tracing state machine:
  /repo/crates/trippy-core/src/strategy.rs   `Strategy::{run, send_request, do_send, recv_response,
      update_round, publish_trace, check_trace_id, validate}`, `StrategyResponse::from`,
      `ProtocolStrategyResponse::from`, and `mod state` (`TracerState`).
Tied to the code by the correspondence check (`tvh strategy`, real `Strategy` + `TracerState`
driven through a scripted `Network`), and by `Gen/Consts.lean` for the numeric constants.

Conventions: `u8`/`u16`/`usize` arithmetic that the code performs with overflow checks is
modelled with checked operations into `R` (`panic` on overflow); every `unimplemented!()`,
`unreachable!()`, failing `debug_assert!` and out-of-range index is `panic`.  Time is `Nat`
nanoseconds on a virtual clock `now` that advances only while waiting in `recv_probe`.
-/
namespace TV.Strat
open TV

def BUFFER_SIZE : Nat := Consts.state_BUFFER_SIZE
def MAX_SEQUENCE : Nat := Consts.state_MAX_SEQUENCE

inductive Proto | icmp | udp | tcp
  deriving DecidableEq, Repr
inductive MStrat | classic | paris | dublin
  deriving DecidableEq, Repr
inductive PortDir
  | none | fixedSrc (p : Nat) | fixedDest (p : Nat) | fixedBoth (s d : Nat)
  deriving DecidableEq, Repr

/-- `StrategyConfig` (addresses are abstract identifiers; only equality and family matter) -/
structure Cfg where
  v6 : Bool
  target : Nat
  proto : Proto
  traceId : Nat
  maxRounds : Option Nat
  firstTtl : Nat
  maxTtl : Nat
  grace : Nat
  maxInflight : Nat
  initialSeq : Nat
  strat : MStrat
  portDir : PortDir
  minRound : Nat
  maxRound : Nat
  deriving Repr

structure Probe where
  seq : Nat
  ident : Nat
  srcPort : Nat
  destPort : Nat
  ttl : Nat
  round : Nat
  sent : Nat
  flags : Nat
  deriving DecidableEq, Repr

inductive IcmpKind
  | timeExceeded (c : Nat) | echoReply (c : Nat) | unreachable (c : Nat) | notApplicable
  deriving DecidableEq, Repr

structure Complete where
  probe : Probe
  host : Nat
  received : Nat
  kind : IcmpKind
  tos : Option Nat
  expCk : Option Nat
  actCk : Option Nat
  ext : Option Nat
  deriving DecidableEq, Repr

inductive Slot
  | notSent | skipped | failed (p : Probe) | awaited (p : Probe) | complete (c : Complete)
  deriving DecidableEq, Repr

/-- `TracerState` plus the virtual clock -/
structure TS where
  buffer : List Slot
  sequence : Nat
  roundSeq : Nat
  ttl : Nat
  round : Nat
  roundStart : Nat
  targetFound : Bool
  maxRecvTtl : Option Nat
  targetTtl : Option Nat
  recvTime : Option Nat
  now : Nat
  deriving Repr

/-! checked machine arithmetic -/
def subU (a b : Nat) : R Nat := if b ≤ a then .ok (a - b) else .panic
def addU8 (a b : Nat) : R Nat := if a + b ≤ 255 then .ok (a + b) else .panic
def addU16 (a b : Nat) : R Nat := if a + b ≤ 65535 then .ok (a + b) else .panic

def init (c : Cfg) (t0 : Nat) : TS :=
  { buffer := List.replicate BUFFER_SIZE .notSent, sequence := c.initialSeq, roundSeq := c.initialSeq,
    ttl := c.firstTtl, round := 0, roundStart := t0, targetFound := false, maxRecvTtl := none,
    targetTtl := none, recvTime := none, now := t0 }

/-- `TracerState::probes` -/
def probes (s : TS) : R (List Slot) := do
  let n ← subU s.sequence s.roundSeq
  if n ≤ s.buffer.length then .ok (s.buffer.take n) else .panic

def inRound (s : TS) (q : Nat) : Bool := decide (s.roundSeq ≤ q) && decide (q - s.roundSeq < BUFFER_SIZE)

def roundHasCapacity (s : TS) : R Bool := do
  let n ← subU s.sequence s.roundSeq
  .ok (decide (n < BUFFER_SIZE))

def finished (s : TS) : Option Nat → Bool
  | none => false
  | some m => decide (s.round > m - 1)

def maxSequence (c : Cfg) : R Nat :=
  match c.strat, c.v6 with
  | .dublin, true => addU16 c.initialSeq BUFFER_SIZE
  | _, _ => .ok MAX_SEQUENCE

def roundPort (c : Cfg) (s : TS) : Nat := (c.initialSeq + s.round) % 65535

/-- `probe_data`: (src_port, dest_port, identifier, flags) -/
def probeData (c : Cfg) (s : TS) : R (Nat × Nat × Nat × Nat) :=
  match c.proto with
  | .icmp => .ok (0, 0, c.traceId, 0)
  | .udp =>
    match c.strat with
    | .classic =>
      match c.portDir with
      | .fixedSrc p => .ok (p, s.sequence, 0, 0)
      | .fixedDest p => .ok (s.sequence, p, 0, 0)
      | _ => .panic
    | .paris =>
      match c.portDir with
      | .fixedSrc p => .ok (p, roundPort c s, 0, 1)
      | .fixedDest p => .ok (roundPort c s, p, 0, 1)
      | .fixedBoth a b => .ok (a, b, 0, 1)
      | .none => .panic
    | .dublin =>
      match c.portDir with
      | .fixedSrc p => .ok (p, roundPort c s, s.sequence, 2)
      | .fixedDest p => .ok (roundPort c s, p, s.sequence, 2)
      | .fixedBoth a b => .ok (a, b, s.sequence, 2)
      | .none => .panic
  | .tcp =>
    match c.portDir with
    | .fixedSrc p => .ok (p, s.sequence, 0, 0)
    | .fixedDest p => .ok (s.sequence, p, 0, 0)
    | _ => .panic

def setSlot (s : TS) (i : Nat) (x : Slot) : R TS :=
  if i < s.buffer.length then .ok { s with buffer := s.buffer.set i x } else .panic

/-- `TracerState::next_probe` -/
def nextProbe (c : Cfg) (s : TS) (sent : Nat) : R (TS × Probe) := do
  let (sp, dp, id, fl) ← probeData c s
  let p : Probe := { seq := s.sequence, ident := id, srcPort := sp, destPort := dp, ttl := s.ttl,
                     round := s.round, sent := sent, flags := fl }
  let idx ← subU s.sequence s.roundSeq
  let s ← setSlot s idx (.awaited p)
  if ¬ (s.ttl < 255) then .panic else
  if ¬ (s.sequence < 65535) then .panic else
  .ok ({ s with ttl := s.ttl + 1, sequence := s.sequence + 1 }, p)

/-- `TracerState::reissue_probe` -/
def reissueProbe (c : Cfg) (s : TS) (sent : Nat) : R (TS × Probe) := do
  let idx ← subU s.sequence s.roundSeq
  let im1 ← subU idx 1
  let s ← setSlot s im1 .skipped
  let (sp, dp, id, fl) ← probeData c s
  let t ← subU s.ttl 1
  let p : Probe := { seq := s.sequence, ident := id, srcPort := sp, destPort := dp, ttl := t,
                     round := s.round, sent := sent, flags := fl }
  let s ← setSlot s idx (.awaited p)
  if ¬ (s.sequence < 65535) then .panic else
  .ok ({ s with sequence := s.sequence + 1 }, p)

/-- `TracerState::fail_probe` -/
def failProbe (s : TS) : R TS := do
  let idx ← subU s.sequence s.roundSeq
  let im1 ← subU idx 1
  match s.buffer[im1]? with
  | some (.awaited p) => setSlot s im1 (.failed p)
  | _ => .panic

/-! responses -/

inductive ProtoResp
  | icmp (identifier sequence : Nat) (tos : Option Nat)
  | udp (identifier destAddr srcPort destPort : Nat) (tos : Option Nat)
        (expected actual payloadLen : Nat) (hasMagic : Bool)
  | tcp (destAddr srcPort destPort : Nat) (tos : Option Nat)
  deriving DecidableEq, Repr

inductive RespKind
  | timeExceeded (c : Nat) | destUnreachable (c : Nat) | echoReply (c : Nat) | tcpReply | tcpRefused
  deriving DecidableEq, Repr

/-- `Response` (what `Network::recv_probe` returns) -/
structure Resp where
  kind : RespKind
  recv : Nat
  addr : Nat
  proto : ProtoResp
  ext : Option Nat
  deriving DecidableEq, Repr

/-- `StrategyResponse` -/
structure SResp where
  kind : IcmpKind
  traceId : Nat
  seq : Nat
  tos : Option Nat
  expCk : Option Nat
  actCk : Option Nat
  received : Nat
  addr : Nat
  isTarget : Bool
  ext : Option Nat
  deriving DecidableEq, Repr

def validatePorts (pd : PortDir) (src dst : Nat) : Bool :=
  match pd with
  | .fixedSrc s => decide (s = src)
  | .fixedDest d => decide (d = dst)
  | .fixedBoth s d => decide (s = src) && decide (d = dst)
  | .none => false

/-- `Strategy::validate` -/
def validate (c : Cfg) (r : Resp) : Bool :=
  match r.proto with
  | .icmp .. => true
  | .udp _ destAddr sp dp _ _ _ _ hasMagic =>
    let checkPorts := validatePorts c.portDir sp dp
    let checkDest := decide (c.target = destAddr)
    let checkMagic := match c.strat, c.v6 with
      | .dublin, true => hasMagic
      | _, _ => true
    checkDest && checkPorts && checkMagic
  | .tcp destAddr sp dp _ =>
    decide (c.target = destAddr) && validatePorts c.portDir sp dp

/-- `ProtocolStrategyResponse::from`: (trace_id, sequence, tos, expected, actual) -/
def protoStrategyResp (c : Cfg) : ProtoResp → Nat × Nat × Option Nat × Option Nat × Option Nat
  | .icmp id sq tos => (id, sq, tos, none, none)
  | .udp id _ sp dp tos exp act plen _ =>
    let sq := match c.strat, c.portDir, c.v6 with
      | .classic, .fixedDest _, _ => sp
      | .classic, _, _ => dp
      | .paris, _, _ => act
      | .dublin, _, false => id
      | .dublin, _, true => (c.initialSeq + plen) % 65536
    let (e, a) := match c.strat, c.v6 with
      | .dublin, false => (some exp, some act)
      | _, _ => (none, none)
    (0, sq, tos, e, a)
  | .tcp _ sp dp tos =>
    let sq := match c.portDir with
      | .fixedSrc _ => dp
      | _ => sp
    (0, sq, tos, none, none)

/-- `StrategyResponse::from` -/
def strategyResp (c : Cfg) (r : Resp) : SResp :=
  let (tid, sq, tos, e, a) := protoStrategyResp c r.proto
  match r.kind with
  | .timeExceeded code =>
    { kind := .timeExceeded code, traceId := tid, seq := sq, tos := tos, expCk := e, actCk := a,
      received := r.recv, addr := r.addr, isTarget := decide (r.addr = c.target), ext := r.ext }
  | .destUnreachable code =>
    { kind := .unreachable code, traceId := tid, seq := sq, tos := tos, expCk := e, actCk := a,
      received := r.recv, addr := r.addr, isTarget := decide (r.addr = c.target), ext := r.ext }
  | .echoReply code =>
    { kind := .echoReply code, traceId := tid, seq := sq, tos := tos, expCk := e, actCk := a,
      received := r.recv, addr := r.addr, isTarget := true, ext := none }
  | .tcpReply | .tcpRefused =>
    { kind := .notApplicable, traceId := tid, seq := sq, tos := tos, expCk := e, actCk := a,
      received := r.recv, addr := r.addr, isTarget := true, ext := none }

def checkTraceId (c : Cfg) (tid : Nat) : Bool := decide (c.traceId = tid) || decide (tid = 0)

/-- `trippy_tui::app::trace_identifier`: the identifier the CLI gives its `i`-th tracer
(`pid = process id % 65535`) -/
def cliTraceId (pid i : Nat) : Nat :=
  let id := (pid % 65535 + i % 65535) % 65535
  if id = 0 then 65535 else id

/-- the assignment before the repair (`pid + i as u16` with checked `u16` addition, the index
truncated to `u16` first) -/
def cliTraceIdOld (pid i : Nat) : R Nat :=
  if pid + i % 65536 < 65536 then .ok (pid + i % 65536) else .panic

/-- the `target_ttl` update of `complete_probe` -/
def newTargetTtl (s : TS) (isTarget : Bool) (ttl : Nat) : Option Nat :=
  if isTarget then
    (match s.targetTtl with
     | none => some ttl
     | some t => if ttl < t then some ttl else some t)
  else
    (match s.targetTtl with
     | some t => if ttl ≥ t then none else some t
     | none => none)

/-- the `max_received_ttl` update of `complete_probe` -/
def newMaxRecv (s : TS) (ttl : Nat) : Option Nat :=
  match s.maxRecvTtl with
  | none => some ttl
  | some m => some (max m ttl)

/-- `TracerState::complete_probe` -/
def completeProbe (s : TS) (r : SResp) : R TS := do
  let idx ← subU r.seq s.roundSeq
  match s.buffer[idx]? with
  | none => .panic
  | some (.awaited p) =>
    if p.round = s.round then
      let cp : Complete := { probe := p, host := r.addr, received := r.received, kind := r.kind,
                             tos := r.tos, expCk := r.expCk, actCk := r.actCk, ext := r.ext }
      let s' ← setSlot s idx (.complete cp)
      .ok { s' with targetTtl := newTargetTtl s r.isTarget p.ttl, maxRecvTtl := newMaxRecv s p.ttl,
                    recvTime := some r.received, targetFound := s.targetFound || r.isTarget }
    else .ok s
  | some _ => .ok s

/-- `TracerState::advance_round` -/
def advanceRound (c : Cfg) (s : TS) : R TS := do
  let ms ← maxSequence c
  let sq := if s.sequence ≥ ms then c.initialSeq else s.sequence
  .ok { s with sequence := sq, targetFound := false, roundSeq := sq, recvTime := none,
               roundStart := s.now, maxRecvTtl := none, round := s.round + 1, ttl := c.firstTtl }

/-! the loop -/

inductive SendOutcome | ok | probeFailed | addrInUse | fatal
  deriving DecidableEq, Repr
inductive RecvOutcome | none | resp (r : Resp) | fatal
  deriving DecidableEq, Repr
inductive Reason | targetFound | roundTimeLimitExceeded
  deriving DecidableEq, Repr

structure Round where
  probes : List Slot
  largestTtl : Nat
  reason : Reason
  deriving DecidableEq, Repr

/-- `Strategy::do_send` for one outcome of `Network::send_probe` -/
def doSend (s : TS) : SendOutcome → R (TS × Option Err)
  | .ok => .ok (s, none)
  | .probeFailed => do let s ← failProbe s; .ok (s, none)
  | .addrInUse => .ok (s, some .addrInUse)
  | .fatal => .ok (s, some .io)

def headOutcome : List SendOutcome → SendOutcome × List SendOutcome
  | [] => (.ok, [])
  | o :: os => (o, os)

/-- the TCP `while let Err(err) = do_send(..)` loop; structural on the outcome list -/
def tcpLoop (c : Cfg) (s : TS) (p : Probe) (log : List (Probe × SendOutcome)) :
    List SendOutcome → R (TS × List (Probe × SendOutcome))
  | [] => .ok (s, log ++ [(p, .ok)])
  | o :: os => do
    let (s, e) ← doSend s o
    let log := log ++ [(p, o)]
    match e with
    | none => .ok (s, log)
    | some .addrInUse =>
      let cap ← roundHasCapacity s
      if cap then do
        let (s, p') ← reissueProbe c s s.now
        tcpLoop c s p' log os
      else .err .capacity
    | some e => .err e

/-- the guard of `Strategy::send_request` (with the machine arithmetic it performs) -/
def canSendR (c : Cfg) (s : TS) : R Bool := do
  let fm1 ← subU c.firstTtl 1
  let can ← match s.targetTtl with
    | some t => (.ok (decide (s.ttl ≤ t)) : R Bool)
    | none => do
      let base := s.maxRecvTtl.getD fm1
      let d ← subU s.ttl base
      .ok (decide (d ≤ c.maxInflight))
  .ok (!s.targetFound && decide (s.ttl ≤ c.maxTtl) && can)

/-- the sending branch of `Strategy::send_request` -/
def doSends (c : Cfg) (s : TS) (sends : List SendOutcome) : R (TS × List (Probe × SendOutcome)) :=
  match c.proto with
  | .icmp | .udp => do
    let (s, p) ← nextProbe c s s.now
    let (o, _) := headOutcome sends
    let (s, e) ← doSend s o
    match e with
    | none => .ok (s, [(p, o)])
    | some e => .err e
  | .tcp => do
    let cap ← roundHasCapacity s
    if cap then do
      let (s, p) ← nextProbe c s s.now
      tcpLoop c s p [] sends
    else .err .capacity

/-- `Strategy::send_request`; returns the new state and the log of `send_probe` calls -/
def sendRequest (c : Cfg) (s : TS) (sends : List SendOutcome) :
    R (TS × List (Probe × SendOutcome)) := do
  let g ← canSendR c s
  if g then doSends c s sends else .ok (s, [])

/-- the wait inside `recv_probe` advances the virtual clock -/
def tick (s : TS) (dt : Nat) : TS := { s with now := s.now + dt }

/-- `Strategy::recv_response`; the wait inside `recv_probe` advances the clock by `dt` -/
def recvResponse (c : Cfg) (s : TS) (dt : Nat) : RecvOutcome → R TS
  | .fatal => .err .io
  | .none => .ok (tick s dt)
  | .resp r =>
    if validate c r then
      if checkTraceId c (strategyResp c r).traceId && inRound (tick s dt) (strategyResp c r).seq then
        completeProbe (tick s dt) (strategyResp c r)
      else .ok (tick s dt)
    else .ok (tick s dt)

def exceeds (start : Option Nat) (endT dur : Nat) : Bool :=
  match start with
  | none => false
  | some st => decide (endT - st > dur)

/-- `Strategy::publish_trace` -/
def publishTrace (s : TS) : R Round := do
  let largest ← match s.targetTtl with
    | some t => (.ok t : R Nat)
    | none =>
      match s.maxRecvTtl with
      | none => .ok 0
      | some m => do
        let maxSent ← subU s.ttl 1
        let m1 ← addU8 m 1
        .ok (min maxSent m1)
  let ps ← probes s
  .ok { probes := ps, largestTtl := largest,
        reason := if s.targetFound then .targetFound else .roundTimeLimitExceeded }

/-- the round-completion test of `Strategy::update_round` -/
def roundComplete (c : Cfg) (s : TS) : Bool :=
  let dur := s.now - s.roundStart
  let roundMin := decide (dur > c.minRound)
  let graceExceeded := exceeds s.recvTime s.now c.grace
  let roundMax := decide (dur > c.maxRound)
  (roundMin && graceExceeded && s.targetFound) || roundMax

/-- `Strategy::update_round` -/
def updateRound (c : Cfg) (s : TS) : R (TS × Option Round) :=
  if roundComplete c s then do
    let r ← publishTrace s
    let s ← advanceRound c s
    .ok (s, some r)
  else .ok (s, none)

/-- the environment of one loop iteration -/
structure IterEnv where
  sends : List SendOutcome
  dt : Nat
  recv : RecvOutcome
  deriving Repr

structure IterOut where
  sent : List (Probe × SendOutcome)
  published : Option Round
  deriving Repr

/-- one iteration of the loop of `Strategy::run` -/
def iter (c : Cfg) (s : TS) (e : IterEnv) : R (TS × IterOut) := do
  let (s, sent) ← sendRequest c s e.sends
  let s ← recvResponse c s e.dt e.recv
  let (s, pub) ← updateRound c s
  .ok (s, { sent := sent, published := pub })

/-- result of a (finite prefix of a) run -/
structure RunResult where
  state : TS
  outs : List IterOut
  /-- `some (ok ())` = `run` returned `Ok(())`; `some (err e)` = returned `Err`; `some panic`;
      `none` = environment exhausted while the loop is still running -/
  ended : Option (R Unit)

/-- `Strategy::run` over a finite list of iteration environments -/
def run (c : Cfg) (s : TS) : List IterEnv → RunResult
  | [] => { state := s, outs := [], ended := if finished s c.maxRounds then some (.ok ()) else none }
  | e :: es =>
    if finished s c.maxRounds then { state := s, outs := [], ended := some (.ok ()) }
    else match iter c s e with
      | .ok (s', o) =>
        let r := run c s' es
        { r with outs := o :: r.outs }
      | .err er => { state := s, outs := [], ended := some (.err er) }
      | .panic => { state := s, outs := [], ended := some .panic }

/-- what `Builder::build` accepts (the part that concerns the strategy) -/
def CfgOk (c : Cfg) : Prop :=
  1 ≤ c.firstTtl ∧ c.firstTtl ≤ Consts.core_MAX_TTL ∧ c.maxTtl ≤ Consts.core_MAX_TTL ∧
  c.initialSeq ≤ Consts.core_MAX_INITIAL_SEQUENCE ∧
  (match c.proto, c.portDir, c.strat with
   | .udp, .none, _ => False
   | .tcp, .none, _ => False
   | .udp, .fixedBoth _ _, .classic => False
   | .tcp, .fixedBoth _ _, _ => False
   | _, _, _ => True)

instance (c : Cfg) : Decidable (CfgOk c) := by
  unfold CfgOk
  cases c.proto <;> cases c.portDir <;> cases c.strat <;> simp <;> infer_instance

end TV.Strat
