import TrippyVerif.Model.Strategy
/-
Line protocol for the strategy model (component `st` of the driver).

  st cfg <v6> <target> <i|u|t> <traceId> <maxRounds|-> <first> <max> <grace> <inflight> <initial>
         <c|p|d> <n|s:P|d:P|b:S:D> <minRound> <maxRound> <t0>
  st it <sends|-> <dt> <recv>
     sends = comma separated o|f|a|x (ok, probe failed, address in use, fatal)
     recv  = n | x | r:<te|du|er|tr|tf>:<code>:<recv>:<addr>:<ext|->:<proto>
     proto = i:<id>:<seq>:<tos|-> | u:<id>:<dest>:<sp>:<dp>:<tos|->:<exp>:<act>:<plen>:<magic 0/1>
           | t:<dest>:<sp>:<dp>:<tos|->
-/
namespace TV.Strat

def optNat? (s : String) : Option (Option Nat) :=
  if s = "-" then some none else s.toNat?.map some

def parsePortDir (s : String) : Option PortDir :=
  match s.splitOn ":" with
  | ["n"] => some .none
  | ["s", p] => p.toNat?.map .fixedSrc
  | ["d", p] => p.toNat?.map .fixedDest
  | ["b", a, b] => do let a ← a.toNat?; let b ← b.toNat?; pure (.fixedBoth a b)
  | _ => none

def parseCfg (a : List String) : Option (Cfg × Nat) :=
  match a with
  | [v6, target, proto, tid, mr, first, max, grace, infl, initial, strat, pd, minR, maxR, t0] => do
    let v6 ← v6.toNat?
    let target ← target.toNat?
    let proto ← match proto with | "i" => some Proto.icmp | "u" => some .udp | "t" => some .tcp | _ => none
    let tid ← tid.toNat?
    let mr ← optNat? mr
    let first ← first.toNat?
    let max ← max.toNat?
    let grace ← grace.toNat?
    let infl ← infl.toNat?
    let initial ← initial.toNat?
    let strat ← match strat with | "c" => some MStrat.classic | "p" => some .paris | "d" => some .dublin | _ => none
    let pd ← parsePortDir pd
    let minR ← minR.toNat?
    let maxR ← maxR.toNat?
    let t0 ← t0.toNat?
    pure ({ v6 := v6 != 0, target := target, proto := proto, traceId := tid, maxRounds := mr,
            firstTtl := first, maxTtl := max, grace := grace, maxInflight := infl, initialSeq := initial,
            strat := strat, portDir := pd, minRound := minR, maxRound := maxR }, t0)
  | _ => none

def parseSends (s : String) : Option (List SendOutcome) :=
  if s = "-" then some [] else
  (s.splitOn ",").mapM fun x => match x with
    | "o" => some SendOutcome.ok | "f" => some .probeFailed | "a" => some .addrInUse
    | "x" => some .fatal | _ => none

def parseProto : List String → Option ProtoResp
  | ["i", id, sq, tos] => do
    pure (.icmp (← id.toNat?) (← sq.toNat?) (← optNat? tos))
  | ["u", id, dest, sp, dp, tos, exp, act, plen, magic] => do
    pure (.udp (← id.toNat?) (← dest.toNat?) (← sp.toNat?) (← dp.toNat?) (← optNat? tos)
      (← exp.toNat?) (← act.toNat?) (← plen.toNat?) ((← magic.toNat?) != 0))
  | ["t", dest, sp, dp, tos] => do
    pure (.tcp (← dest.toNat?) (← sp.toNat?) (← dp.toNat?) (← optNat? tos))
  | _ => none

def parseRecv (s : String) : Option RecvOutcome :=
  match s.splitOn ":" with
  | ["n"] => some .none
  | ["x"] => some .fatal
  | "r" :: kind :: code :: recv :: addr :: ext :: proto => do
    let code ← code.toNat?
    let kind ← match kind with
      | "te" => some (RespKind.timeExceeded code) | "du" => some (.destUnreachable code)
      | "er" => some (.echoReply code) | "tr" => some .tcpReply | "tf" => some .tcpRefused | _ => none
    let p ← parseProto proto
    pure (.resp { kind := kind, recv := (← recv.toNat?), addr := (← addr.toNat?), proto := p,
                  ext := (← optNat? ext) })
  | _ => none

def showOpt : Option Nat → String
  | none => "-"
  | some n => toString n

def showProbe (p : Probe) : String :=
  s!"{p.seq}/{p.ident}/{p.srcPort}/{p.destPort}/{p.ttl}/{p.round}/{p.sent}/{p.flags}"

def showKind : IcmpKind → String
  | .timeExceeded c => s!"te{c}" | .echoReply c => s!"er{c}" | .unreachable c => s!"du{c}"
  | .notApplicable => "na"

def showSlot : Slot → String
  | .notSent => "N"
  | .skipped => "S"
  | .failed p => s!"F({showProbe { p with flags := 0 }})"
  | .awaited p => s!"A({showProbe p})"
  | .complete c => s!"C({showProbe { c.probe with flags := 0 }}/{c.host}/{c.received}/{showKind c.kind}/{showOpt c.tos}/{showOpt c.expCk}/{showOpt c.actCk}/{showOpt c.ext})"

def showOutcome : SendOutcome → String
  | .ok => "o" | .probeFailed => "f" | .addrInUse => "a" | .fatal => "x"

def showRound (r : Round) : String :=
  let reason := match r.reason with | .targetFound => "T" | .roundTimeLimitExceeded => "L"
  s!"{reason}/{r.largestTtl}/[" ++ String.intercalate ";" (r.probes.map showSlot) ++ "]"

def showState (c : Cfg) (s : TS) : String :=
  s!"{s.sequence},{s.roundSeq},{s.ttl},{s.round},{s.roundStart},{if s.targetFound then 1 else 0},{showOpt s.maxRecvTtl},{showOpt s.targetTtl},{showOpt s.recvTime} fin={if finished s c.maxRounds then 1 else 0}"

def showErr : Err → String
  | .io => "io" | .addrInUse => "addrinuse" | .capacity => "capacity" | .probeFailed => "probefailed"
  | _ => "other"

/-- driver state for the `st` component: configuration, tracer state, still running? -/
structure DSt where
  cur : Option (Cfg × TS) := none

def stepLine (d : DSt) (args : List String) : DSt × String :=
  match args with
  | "cfg" :: rest =>
    match parseCfg rest with
    | some (c, t0) => ({ cur := some (c, init c t0) }, "ok")
    | none => (d, "bad-op")
  | ["it", sends, dt, recv] =>
    match d.cur, parseSends sends, dt.toNat?, parseRecv recv with
    | some (c, s), some sends, some dt, some recv =>
      match iter c s { sends := sends, dt := dt, recv := recv } with
      | .ok (s', o) =>
        let sent := String.intercalate ";" (o.sent.map fun (p, oc) => showProbe p ++ "/" ++ showOutcome oc)
        let pub := match o.published with | none => "none" | some r => showRound r
        ({ cur := some (c, s') }, s!"sent=[{sent}] pub={pub} st={showState c s'}")
      | .err e => ({ cur := none }, "err " ++ showErr e)
      | .panic => ({ cur := none }, "panic")
    | none, some _, some _, some _ => (d, "dead")
    | _, _, _, _ => (d, "bad-op")
  | _ => (d, "bad-op")

end TV.Strat
