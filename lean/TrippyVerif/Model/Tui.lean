import TrippyVerif.Model.Basic
/-!
# The index state of the terminal UI (C17)

Model of `crates/trippy-tui/src/frontend/tui_app.rs` (every method of `TuiApp`), of the
per-frame prologue and the key dispatch of `run_app` (`frontend.rs`) and of the index
expressions the render functions evaluate on a frame (`frontend/render/*.rs`).

Only *index state* is modelled: which hop / hop address / flow / trace / settings tab / settings
item is selected, the mode flags, and the configuration values that take part in index
arithmetic (`privacy_max_ttl`, `max_addrs`, `zoom_factor`, the column list).  The displayed data
(`selected_tracer_data : State`) and the live tracers are abstracted to their *shape*: which
flows exist, how many rounds each has seen, and per hop its `ttl` and `addr_count`.

`R.panic` stands for any Rust panic of the dev profile: arithmetic underflow, slice / `Vec` index
out of range, `HashMap` index with a missing key (`State::hops_for_flow` and friends), `unwrap`
on `None`, `Ord::clamp` with `min > max`, division by zero.

Every function takes the switch `fx : Bool`:
  * `fx = false` — the code as it stands in /repo,
  * `fx = true`  — the code after `/verif/tmp_patches/tui_selection.diff`.
`codeIsFixed` says which of the two the driver (`TuiIO.handle`) follows.
-/
namespace TV.Tui

/-- Is the patch `/verif/tmp_patches/tui_selection.diff` applied to /repo? -/
def codeIsFixed : Bool := true

/-! ## Data shape -/

/-- A `Hop`: its `ttl()` and `addr_count()` (`total_recv() > 0 ↔ addr_count() > 0`). -/
structure HopS where
  ttl : Nat
  addrs : Nat
  deriving Repr, DecidableEq, Inhabited

/-- One entry of `State::state : HashMap<FlowId, FlowState>`. -/
structure FlowS where
  id : Nat
  rounds : Nat
  hops : List HopS
  deriving Repr, DecidableEq, Inhabited

/-- The shape of a `State` (a snapshot or the state of a live tracer).  `flows` lists the keys of
the hash map: flow 0 (the combined flow) first, then the registry in registration order. -/
structure Shape where
  err : Bool
  maxFlows : Nat
  flows : List FlowS
  deriving Repr, DecidableEq, Inhabited

/-- `State::new`: only the default flow exists (also the result of `Tracer::clear`). -/
def Shape.cleared (maxFlows : Nat) : Shape :=
  { err := false, maxFlows := maxFlows, flows := [{ id := 0, rounds := 0, hops := [] }] }

def findFlow (s : Shape) (id : Nat) : Option FlowS := s.flows.find? (fun f => f.id == id)

/-- `State::flows()`: the registry (every flow but the combined one). -/
def registry (s : Shape) : List FlowS := s.flows.filter (fun f => f.id != 0)

/-- `self.state[&flow_id]`: indexing a `HashMap` panics when the key is absent. -/
def stateAt (s : Shape) (id : Nat) : R FlowS :=
  match findFlow s id with
  | some f => .ok f
  | none => .panic

/-- `State::hops_for_flow(flow_id)` -/
def hopsForFlow (s : Shape) (id : Nat) : R (List HopS) := do
  let f ← stateAt s id
  pure f.hops

/-- `State::round_count(flow_id)` -/
def roundCount (s : Shape) (id : Nat) : R Nat := do
  let f ← stateAt s id
  pure f.rounds

/-- `State::target_hop(flow_id)`, `is_target`, `is_in_round`: only the map access can panic (the
inner `hops[highest_ttl_for_round - 1]` is an index into the fixed 254-entry vector). -/
def touchFlow (s : Shape) (id : Nat) : R Unit := do
  let _ ← stateAt s id
  pure ()

/-! ## Application state -/

structure App where
  /-- `selected_tracer_data` -/
  snap : Shape
  /-- `trace_info.len()` -/
  nTraces : Nat
  /-- `table_state.selected()` -/
  selected : Option Nat := none
  selectedHopAddress : Nat := 0
  selectedFlow : Nat := 0
  flowCounts : List (Nat × Nat) := []
  traceSelected : Nat := 0
  settingsTabSelected : Nat := 0
  /-- `setting_table_state.selected()` -/
  settingSelected : Option Nat := none
  showHelp : Bool := false
  showSettings : Bool := false
  showHopDetails : Bool := false
  showFlows : Bool := false
  showChart : Bool := false
  showMap : Bool := false
  /-- `frozen_start.is_some()` -/
  frozen : Bool := false
  /-- `tui_config.privacy_max_ttl : Option<u8>` -/
  privacy : Option Nat := none
  /-- `tui_config.max_addrs : Option<u8>` -/
  maxAddrs : Option Nat := none
  zoom : Nat := 1
  /-- `tui_config.tui_columns`: column id (its letter) and `status == Shown` -/
  columns : List (Char × Bool) := []
  /-- item counts declared by `settings_tabs()` -/
  declared : List Nat := []
  /-- item counts `format_all_settings` renders (`verif_settings_item_counts`) -/
  actual : List Nat := []
  deriving Repr, DecidableEq, Inhabited

/-- The application together with the live tracers (`trace_info[i].data`). -/
structure Sys where
  app : App
  live : List Shape
  deriving Repr, DecidableEq, Inhabited

def SETTINGS_TAB_COLUMNS : Nat := 6
def MAX_ZOOM_FACTOR : Nat := 16
def settingsTabsLen : Nat := 7

/-! ## `TuiApp` methods -/

/-- `snapshot_trace_data`: `self.trace_info[self.trace_selected].data.snapshot()` -/
def snapshotTraceData (s : Sys) : R Sys :=
  match s.live[s.app.traceSelected]? with
  | some sh => .ok { s with app := { s.app with snap := sh } }
  | none => .panic

/-- `clear_trace_data`: `self.trace_info[self.trace_selected].data.clear()` -/
def clearTraceData (s : Sys) : R Sys :=
  match s.live[s.app.traceSelected]? with
  | some sh => .ok { s with live := s.live.set s.app.traceSelected (Shape.cleared sh.maxFlows) }
  | none => .panic

/-- `tracer_config`: `&self.trace_info[self.trace_selected]` -/
def tracerConfig (a : App) : R Unit :=
  if a.traceSelected < a.nTraces then .ok () else .panic

/-- `selected_hop`: `table_state.selected().map(|s| &hops_for_flow(selected_flow)[s])` -/
def selectedHop (a : App) : R (Option HopS) :=
  match a.selected with
  | none => .ok none
  | some i => do
    let hs ← hopsForFlow a.snap a.selectedFlow
    match hs[i]? with
    | some h => pure (some h)
    | none => .panic

/-- `selected_hop_or_target` -/
def selectedHopOrTarget (a : App) : R Unit :=
  match a.selected with
  | none => touchFlow a.snap a.selectedFlow
  | some i => do
    let hs ← hopsForFlow a.snap a.selectedFlow
    if i < hs.length then pure () else .panic

def addrCountAt (hs : List HopS) (sel : Option Nat) : Nat :=
  match sel with
  | none => 0
  | some i => match hs[i]? with
    | some h => h.addrs
    | none => 0

/-- the four fields `clamp_selected_hop` works on -/
structure SelSt where
  flow : Nat
  showFlows : Bool
  sel : Option Nat
  addr : Nat
  deriving Repr, DecidableEq, Inhabited

/-- patched `clamp_selected_hop`, step 1: a selected flow that is no longer part of the snapshot
falls back to the combined flow and leaves the flows view -/
def clampFlow (snap : Shape) (x : SelSt) : SelSt :=
  if x.flow != 0 && (findFlow snap x.flow).isNone then { x with flow := 0, showFlows := false, addr := 0 }
  else x

/-- step 2: an empty hop list clears the selection, a selection past the end moves to the last hop -/
def clampSel (hopCount : Nat) (x : SelSt) : SelSt :=
  match x.sel with
  | none => x
  | some sel =>
    if hopCount == 0 then { x with sel := none, addr := 0 }
    else if sel > hopCount - 1 then { x with sel := some (hopCount - 1), addr := 0 }
    else x

/-- step 3: the address index is reset when it does not refer to an address of the selected hop -/
def clampAddr (hs : List HopS) (x : SelSt) : SelSt :=
  if x.addr ≥ max 1 (addrCountAt hs x.sel) then { x with addr := 0 } else x

/-- The patched `clamp_selected_hop`. -/
def clampCore (snap : Shape) (x : SelSt) : R SelSt := do
  let x1 := clampFlow snap x
  let hs ← hopsForFlow snap x1.flow
  pure (clampAddr hs (clampSel hs.length x1))

/-- `clamp_selected_hop`.
Current code: `if selected > hop_count - 1` underflows when the selected flow has no hops (and
`hops_for_flow` panics when the selected flow is not part of the snapshot).
Patched code: `clampCore`. -/
def clampSelectedHop (fx : Bool) (a : App) : R App :=
  if fx then do
    let y ← clampCore a.snap ⟨a.selectedFlow, a.showFlows, a.selected, a.selectedHopAddress⟩
    pure { a with selectedFlow := y.flow, showFlows := y.showFlows, selected := y.sel, selectedHopAddress := y.addr }
  else do
    let hs ← hopsForFlow a.snap a.selectedFlow
    match a.selected with
    | none => pure a
    | some sel =>
      if hs.length == 0 then .panic
      else if sel > hs.length - 1 then pure { a with selected := some (hs.length - 1) }
      else pure a

/-- the order of `sorted_by(order_flows).rev()`: larger count first, ties by smaller flow id -/
def flowBefore (x y : Nat × Nat) : Bool := x.2 > y.2 || (x.2 == y.2 && x.1 ≤ y.1)

def insertFlow (x : Nat × Nat) : List (Nat × Nat) → List (Nat × Nat)
  | [] => [x]
  | y :: ys => if flowBefore x y then x :: y :: ys else y :: insertFlow x ys

def sortFlows : List (Nat × Nat) → List (Nat × Nat)
  | [] => []
  | x :: xs => insertFlow x (sortFlows xs)

def flowCountsOf (s : Shape) : List FlowS → R (List (Nat × Nat))
  | [] => .ok []
  | f :: fs => do
    let c ← roundCount s f.id
    let rest ← flowCountsOf s fs
    pure ((f.id, c) :: rest)

/-- `update_order_flow_counts` -/
def updateOrderFlowCounts (a : App) : R App := do
  let cs ← flowCountsOf a.snap (registry a.snap)
  pure { a with flowCounts := (sortFlows cs).take a.snap.maxFlows }

/-- `clear` -/
def clearSel (a : App) : App := { a with selected := none, selectedHopAddress := 0 }

/-- `next_hop` -/
def nextHop (a : App) : R App := do
  let hs ← hopsForFlow a.snap a.selectedFlow
  if hs.length == 0 then pure a
  else
    let maxIndex := hs.length - 1   -- `0.max(hop_count.saturating_sub(1))`
    let i := match a.selected with
      | some i => if i < maxIndex then i + 1 else i
      | none => 0
    pure { a with selected := some i, selectedHopAddress := 0 }

/-- `previous_hop` -/
def previousHop (a : App) : R App := do
  let hs ← hopsForFlow a.snap a.selectedFlow
  if hs.length == 0 then pure a
  else
    let i := match a.selected with
      | some i => if i > 0 then i - 1 else i
      | none => hs.length - 1
    pure { a with selected := some i, selectedHopAddress := 0 }

/-- `next_trace` -/
def nextTrace (a : App) : App :=
  if a.nTraces > 1 && a.traceSelected < a.nTraces - 1 then
    clearSel { a with traceSelected := a.traceSelected + 1 }
  else a

/-- `previous_trace` -/
def previousTrace (a : App) : App :=
  if a.nTraces > 1 && a.traceSelected > 0 then
    clearSel { a with traceSelected := a.traceSelected - 1 }
  else a

/-- `next_hop_address`.  Current code: `hop.addr_count() - 1` underflows for a hop without
responses; patched code: `saturating_sub(1)`. -/
def nextHopAddress (fx : Bool) (a : App) : R App := do
  match ← selectedHop a with
  | none => pure a
  | some hop =>
    if !fx && hop.addrs == 0 then .panic
    else if a.selectedHopAddress < hop.addrs - 1 then
      pure { a with selectedHopAddress := a.selectedHopAddress + 1 }
    else pure a

/-- `previous_hop_address` -/
def previousHopAddress (a : App) : R App := do
  match ← selectedHop a with
  | none => pure a
  | some _ =>
    if a.selectedHopAddress > 0 then pure { a with selectedHopAddress := a.selectedHopAddress - 1 }
    else pure a

/-- `find_position(|(flow_id, _)| *flow_id == self.selected_flow)` -/
def findPos (id : Nat) : List (Nat × Nat) → Option Nat
  | [] => none
  | x :: xs => if x.1 == id then some 0 else (findPos id xs).map (· + 1)

/-- `next_flow` (patched code re-validates the hop selection against the new flow) -/
def nextFlow (fx : Bool) (a : App) : R App :=
  if a.showFlows then
    match findPos a.selectedFlow a.flowCounts with
    | none => .panic                                    -- `.unwrap()`
    | some cur =>
      if cur < a.flowCounts.length - 1 then
        match a.flowCounts[cur + 1]? with
        | some x =>
          let a' := { a with selectedFlow := x.1 }
          if fx then clampSelectedHop true a' else .ok a'
        | none => .panic
      else .ok a
  else .ok a

/-- `previous_flow` -/
def previousFlow (fx : Bool) (a : App) : R App :=
  if a.showFlows then
    match findPos a.selectedFlow a.flowCounts with
    | none => .panic
    | some cur =>
      if cur > 0 then
        match a.flowCounts[cur - 1]? with
        | some x =>
          let a' := { a with selectedFlow := x.1 }
          if fx then clampSelectedHop true a' else .ok a'
        | none => .panic
      else .ok a
  else .ok a

/-- `next_settings_tab` (`settings_tabs().len() - 1 = 6`) -/
def nextSettingsTab (a : App) : App :=
  { a with
    settingsTabSelected := if a.settingsTabSelected < settingsTabsLen - 1 then a.settingsTabSelected + 1
                           else a.settingsTabSelected
    settingSelected := some 0 }

/-- `previous_settings_tab` -/
def previousSettingsTab (a : App) : App :=
  { a with
    settingsTabSelected := if a.settingsTabSelected > 0 then a.settingsTabSelected - 1 else a.settingsTabSelected
    settingSelected := some 0 }

/-- `get_settings_items_count`: `settings_tabs()[tab].1` is an array index -/
def getSettingsItemsCount (a : App) : R Nat :=
  if a.settingsTabSelected == SETTINGS_TAB_COLUMNS then .ok a.columns.length
  else match a.declared[a.settingsTabSelected]? with
    | some n => .ok n
    | none => .panic

/-- `next_settings_item` -/
def nextSettingsItem (a : App) : R App := do
  let count ← getSettingsItemsCount a
  let maxIndex := count - 1
  let i := match a.settingSelected with
    | some i => if i < maxIndex then i + 1 else i
    | none => 0
  pure { a with settingSelected := some i }

/-- `previous_settings_item` -/
def previousSettingsItem (a : App) : R App := do
  let count ← getSettingsItemsCount a
  let i := match a.settingSelected with
    | some i => if i > 0 then i - 1 else i
    | none => count - 1
  pure { a with settingSelected := some i }

/-- `Columns::toggle(index)`: `self.0[index]` -/
def columnsToggle (cs : List (Char × Bool)) (i : Nat) : R (List (Char × Bool)) :=
  match cs[i]? with
  | some (c, shown) => .ok (cs.set i (c, !shown))
  | none => .panic

def swapAdj {α : Type} : List α → Nat → List α
  | a :: b :: t, 0 => b :: a :: t
  | a :: t, n + 1 => a :: swapAdj t n
  | l, _ => l

/-- `Columns::move_down(index)`: `if index < len { let x = remove(index); insert(index + 1, x) }`;
`Vec::insert` panics when `index + 1 > len - 1`. -/
def columnsMoveDown (cs : List (Char × Bool)) (i : Nat) : R (List (Char × Bool)) :=
  if i < cs.length then
    if i + 1 < cs.length then .ok (swapAdj cs i) else .panic
  else .ok cs

/-- `Columns::move_up(index)`: `if index > 0 { let x = remove(index); insert(index - 1, x) }`;
`Vec::remove` panics when `index ≥ len`. -/
def columnsMoveUp (cs : List (Char × Bool)) (i : Nat) : R (List (Char × Bool)) :=
  if i > 0 then
    if i < cs.length then .ok (swapAdj cs (i - 1)) else .panic
  else .ok cs

/-- `toggle_column_visibility` -/
def toggleColumnVisibility (a : App) : R App :=
  if a.settingsTabSelected == SETTINGS_TAB_COLUMNS then
    match a.settingSelected with
    | some sel => do
      let cs ← columnsToggle a.columns sel
      pure { a with columns := cs }
    | none => .ok a
  else .ok a

/-- `move_column_down` (`count - 1` on `usize`) -/
def moveColumnDown (a : App) : R App :=
  if a.settingsTabSelected == SETTINGS_TAB_COLUMNS then
    match a.settingSelected with
    | some sel =>
      if a.columns.length == 0 then .panic
      else if sel < a.columns.length - 1 then do
        let cs ← columnsMoveDown a.columns sel
        pure { a with columns := cs, settingSelected := some (sel + 1) }
      else .ok a
    | none => .ok a
  else .ok a

/-- `move_column_up` -/
def moveColumnUp (a : App) : R App :=
  if a.settingsTabSelected == SETTINGS_TAB_COLUMNS then
    match a.settingSelected with
    | some sel =>
      if sel > 0 then do
        let cs ← columnsMoveUp a.columns sel
        pure { a with columns := cs, settingSelected := some (sel - 1) }
      else .ok a
    | none => .ok a
  else .ok a

def toggleHelp (a : App) : App := { a with showHelp := !a.showHelp }
def toggleSettings (a : App) : App := { a with showSettings := !a.showSettings }

/-- `show_settings_columns(column_index)` -/
def showSettingsColumns (a : App) (i : Nat) : App :=
  if a.settingsTabSelected != i then
    { a with showSettings := true, settingsTabSelected := i, settingSelected := some 0 }
  else { a with showSettings := true }

/-- `toggle_hop_details` -/
def toggleHopDetails (a : App) : App :=
  { a with maxAddrs := if a.showHopDetails then none else some 1, showHopDetails := !a.showHopDetails }

def toggleFreeze (a : App) : App := { a with frozen := !a.frozen }
def toggleChart (a : App) : App := { a with showChart := !a.showChart, showMap := false }
def toggleMap (a : App) : App := { a with showMap := !a.showMap, showChart := false }

/-- `toggle_flows` (patched code re-validates the hop selection against the new flow) -/
def toggleFlows (fx : Bool) (a : App) : R App :=
  if a.nTraces == 1 && a.snap.maxFlows > 1 then
    if a.showFlows then
      let a' := { a with selectedFlow := 0, showFlows := false, selectedHopAddress := 0 }
      if fx then clampSelectedHop true a' else .ok a'
    else if (registry a.snap).length > 0 then
      let a' := { a with selectedFlow := 1, showFlows := true, selectedHopAddress := 0 }
      if fx then clampSelectedHop true a' else .ok a'
    else .ok a
  else .ok a

/-- `expand_privacy` (`privacy_max_ttl + 1` on `u8`) -/
def expandPrivacy (a : App) : R App := do
  let hs ← hopsForFlow a.snap a.selectedFlow
  match a.privacy with
  | some p =>
    if p < hs.length then
      if p + 1 ≤ 255 then pure { a with privacy := some (p + 1) } else .panic
    else pure a
  | none => pure { a with privacy := some 0 }

/-- `contract_privacy` -/
def contractPrivacy (a : App) : App :=
  match a.privacy with
  | some p => if p > 0 then { a with privacy := some (p - 1) } else { a with privacy := none }
  | none => a

def listMax : List Nat → Option Nat
  | [] => none
  | x :: xs => match listMax xs with
    | none => some x
    | some m => some (max x m)

/-- `max_hosts`: `.map(|h| h.addrs().count()).max().and_then(|i| u8::try_from(i).ok())`;
patched code additionally drops a maximum of 0 (`max_addrs` is never `Some(0)`, cf. the
configuration layer which maps `--tui-max-addrs 0` to `None`). -/
def maxHosts (fx : Bool) (a : App) : R (Option Nat) := do
  let hs ← hopsForFlow a.snap a.selectedFlow
  match listMax (hs.map (·.addrs)) with
  | none => pure none
  | some m => pure (if m > 255 then none else if fx && m == 0 then none else some m)

/-- Rust's `Option` order: `None < Some _` -/
def optLt : Option Nat → Option Nat → Bool
  | none, some _ => true
  | some a, some b => a < b
  | _, none => false

/-- `expand_hosts` -/
def expandHosts (fx : Bool) (a : App) : R App :=
  match a.maxAddrs with
  | none => .ok { a with maxAddrs := some 1 }
  | some i => do
    let m ← maxHosts fx a
    if optLt (some i) m then
      if i + 1 ≤ 255 then pure { a with maxAddrs := some (i + 1) } else .panic
    else pure a

/-- `contract_hosts` -/
def contractHosts (a : App) : App :=
  match a.maxAddrs with
  | some i => if i > 1 then { a with maxAddrs := some (i - 1) } else { a with maxAddrs := none }
  | none => a

def zoomIn (a : App) : App := if a.zoom < MAX_ZOOM_FACTOR then { a with zoom := a.zoom + 1 } else a
def zoomOut (a : App) : App := if a.zoom > 1 then { a with zoom := a.zoom - 1 } else a

/-- `expand_hosts_max` -/
def expandHostsMax (fx : Bool) (a : App) : R App := do
  let m ← maxHosts fx a
  pure { a with maxAddrs := m }

def contractHostsMin (a : App) : App := { a with maxAddrs := some 1 }

/-! ## `run_app` -/

/-- the per-frame prologue: `snapshot_trace_data; clamp_selected_hop; update_order_flow_counts`
unless frozen -/
def prologue (fx : Bool) (s : Sys) : R Sys :=
  if s.app.frozen then .ok s
  else do
    let s1 ← snapshotTraceData s
    let a2 ← clampSelectedHop fx s1.app
    let a3 ← updateOrderFlowCounts a2
    pure { s1 with app := a3 }

/-- Rust's `privacy_max_ttl >= Some(ttl)` -/
def hiddenBy (p : Option Nat) (ttl : Nat) : Bool :=
  match p with
  | none => false
  | some n => ttl ≤ n

/-- `render_table_row` for every hop of the selected flow: `app.selected_hop()`, `is_in_round`,
`is_target`, and in `render_hostname` the `hop.addr_count().clamp(1, max_addr)` of a responding,
non-hidden hop that is not drawn in detail mode (`Ord::clamp` asserts `min <= max`). -/
def tableRows (a : App) (hs : List HopS) : R Unit :=
  if hs.isEmpty then .ok ()
  else do
    let sel ← selectedHop a
    touchFlow a.snap a.selectedFlow
    let detailed (h : HopS) : Bool :=
      a.showHopDetails && (match sel with | some sh => sh.ttl == h.ttl | none => false)
    if a.maxAddrs == some 0 &&
        hs.any (fun h => h.addrs > 0 && !hiddenBy a.privacy h.ttl && !detailed h) then .panic
    else pure ()

/-- The index expressions evaluated while drawing one frame (`render::app::render`), in drawing
order: header, (tabs | flows), body (bsod | splash | chart | map | table), footer (history,
histogram), info bar, settings dialog. -/
def frameIndexUses (a : App) : R Unit := do
  -- header: `tracer_config()` (source / destination), `hops_for_flow(selected_flow)` (hop count, status)
  tracerConfig a
  let hs ← hopsForFlow a.snap a.selectedFlow
  -- body
  if a.snap.err then pure ()
  else do
    let hs0 ← hopsForFlow a.snap 0              -- `tracer_data().hops().is_empty()`
    if hs0.isEmpty then pure ()
    else if a.showChart then do
      selectedHopOrTarget a
      if a.zoom == 0 then .panic else pure ()  -- `max_samples() / zoom_factor`
    else if a.showMap then selectedHopOrTarget a
    else tableRows a hs
  -- footer: history and histogram of `selected_hop_or_target()`
  selectedHopOrTarget a
  -- settings dialog: `format_all_settings(app)[app.settings_tab_selected]`
  if a.showSettings then
    if a.settingsTabSelected < settingsTabsLen then pure () else .panic
  else pure ()

/-- One frame of `run_app` (`verif_frame`): prologue, then draw. -/
def frame (fx : Bool) (s : Sys) : R Sys := do
  let s1 ← prologue fx s
  frameIndexUses s1.app
  pure s1

/-- One constructor per key binding (`Bindings`), plus the hard-wired ctrl-c. -/
inductive Cmd where
  | toggleHelp | toggleHelpAlt | toggleSettings
  | toggleSettingsTui | toggleSettingsTrace | toggleSettingsDns | toggleSettingsGeoip
  | toggleSettingsBindings | toggleSettingsTheme | toggleSettingsColumns
  | previousHop | nextHop | previousTrace | nextTrace | previousHopAddress | nextHopAddress
  | addressModeIp | addressModeHost | addressModeBoth
  | toggleFreeze | toggleChart | toggleMap | toggleFlows
  | expandPrivacy | contractPrivacy | expandHosts | contractHosts | expandHostsMax | contractHostsMin
  | chartZoomIn | chartZoomOut | clearTraceData | clearDnsCache | clearSelection
  | toggleAsInfo | toggleHopDetails | quit | quitPreserveScreen | ctrlC
  deriving Repr, DecidableEq, Inhabited

def Cmd.settingsTab? : Cmd → Option Nat
  | .toggleSettingsTui => some 0 | .toggleSettingsTrace => some 1 | .toggleSettingsDns => some 2
  | .toggleSettingsGeoip => some 3 | .toggleSettingsBindings => some 4
  | .toggleSettingsTheme => some 5 | .toggleSettingsColumns => some 6
  | _ => none

def onApp (s : Sys) (r : R App) : R (Sys × Nat) := do
  let a ← r
  pure ({ s with app := a }, 0)

/-- The key dispatch of `run_app` (the `if` chain, with the default bindings every command has its
own key, so the chain order only matters through the three modes).  The `Nat` is the exit
action: 0 = keep running, 1 = quit, 2 = quit preserving the screen. -/
def dispatch (fx : Bool) (c : Cmd) (s : Sys) : R (Sys × Nat) :=
  let a := s.app
  if a.showHelp then
    match c with
    | .toggleHelp | .toggleHelpAlt | .clearSelection | .quit => onApp s (.ok (toggleHelp a))
    | .toggleSettings => onApp s (.ok (toggleSettings (toggleHelp a)))
    | c => match c.settingsTab? with
      | some i => onApp s (.ok (showSettingsColumns (toggleHelp a) i))
      | none => .ok (s, 0)
  else if a.showSettings then
    match c with
    | .toggleSettings | .clearSelection | .quit => onApp s (.ok (toggleSettings a))
    | .previousTrace => onApp s (.ok (previousSettingsTab a))
    | .nextTrace => onApp s (.ok (nextSettingsTab a))
    | .nextHop => onApp s (nextSettingsItem a)
    | .previousHop => onApp s (previousSettingsItem a)
    | .toggleChart => onApp s (toggleColumnVisibility a)
    | .nextHopAddress => onApp s (moveColumnDown a)
    | .previousHopAddress => onApp s (moveColumnUp a)
    | c => match c.settingsTab? with
      | some i => onApp s (.ok (showSettingsColumns a i))
      | none => .ok (s, 0)
  else
    match c with
    | .toggleHelp | .toggleHelpAlt => onApp s (.ok (toggleHelp a))
    | .toggleSettings => onApp s (.ok (toggleSettings a))
    | .nextHop => onApp s (nextHop a)
    | .previousHop => onApp s (previousHop a)
    | .previousTrace => if a.showFlows then onApp s (previousFlow fx a) else onApp s (.ok (previousTrace a))
    | .nextTrace => if a.showFlows then onApp s (nextFlow fx a) else onApp s (.ok (nextTrace a))
    | .nextHopAddress => onApp s (nextHopAddress fx a)
    | .previousHopAddress => onApp s (previousHopAddress a)
    | .addressModeIp | .addressModeHost | .addressModeBoth => .ok (s, 0)
    | .toggleFreeze => onApp s (.ok (toggleFreeze a))
    | .toggleChart => onApp s (.ok (toggleChart a))
    | .toggleMap => onApp s (.ok (toggleMap a))
    | .toggleFlows => onApp s (toggleFlows fx a)
    | .expandPrivacy => onApp s (expandPrivacy a)
    | .contractPrivacy => onApp s (.ok (contractPrivacy a))
    | .contractHostsMin => onApp s (.ok (contractHostsMin a))
    | .expandHostsMax => onApp s (expandHostsMax fx a)
    | .contractHosts => onApp s (.ok (contractHosts a))
    | .expandHosts => onApp s (expandHosts fx a)
    | .chartZoomIn => onApp s (.ok (zoomIn a))
    | .chartZoomOut => onApp s (.ok (zoomOut a))
    | .clearTraceData => do                         -- `app.clear(); app.clear_trace_data()`
      let s' ← clearTraceData { s with app := clearSel a }
      pure (s', 0)
    | .clearDnsCache => .ok (s, 0)
    | .clearSelection => onApp s (.ok (clearSel a))
    | .toggleAsInfo => .ok (s, 0)                   -- no index state involved
    | .toggleHopDetails => onApp s (.ok (toggleHopDetails a))
    | .quit | .ctrlC => .ok (s, 1)
    | .quitPreserveScreen => .ok (s, 2)
    | c => match c.settingsTab? with
      | some i => onApp s (.ok (showSettingsColumns a i))
      | none => .ok (s, 0)

/-! ## Operations -/

/-- What can happen between two observations: the tracer thread replaces the state of live
tracer `k` (a round was aggregated, the trace was cleared, an error was recorded), the user
presses a key, a frame is drawn. -/
inductive Op where
  | data (k : Nat) (sh : Shape)
  | key (c : Cmd)
  | frame
  deriving Repr, DecidableEq

def step (fx : Bool) (s : Sys) : Op → R Sys
  | .data k sh => .ok { s with live := s.live.set k sh }
  | .key c => do
    let (s', _) ← dispatch fx c s
    pure s'
  | .frame => frame fx s

def steps (fx : Bool) (s : Sys) : List Op → R Sys
  | [] => .ok s
  | op :: ops => do
    let s' ← step fx s op
    steps fx s' ops

/-- `TuiApp::new` over `n` fresh tracers; `snap = State::default()`. -/
def initSys (n : Nat) (defaultMaxFlows : Nat) (live : List Shape) (privacy maxAddrs : Option Nat)
    (columns : List (Char × Bool)) (declared actual : List Nat) : Sys :=
  { app := { snap := Shape.cleared defaultMaxFlows, nTraces := n, privacy := privacy, maxAddrs := maxAddrs,
             columns := columns, declared := declared, actual := actual },
    live := live }

end TV.Tui
