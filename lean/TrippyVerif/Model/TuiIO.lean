import TrippyVerif.Model.Tui
/-!
# Line protocol for the TUI index-state model (component `tui` of the driver)

`handle : DSt → List String → DSt × String` is stateful; the leading word `tui` is stripped by
the caller.  Requests (one per line, blank separated):

    new <ntraces> <privacy|-> <maxaddrs|-> <declared> <actual> <columns> <shape>
        a fresh `TuiApp::new` over `ntraces` tracers.  `declared` / `actual` are the seven
        comma-separated item counts of `settings_tabs()` / of `format_all_settings`;
        `shape` is the shape of the initial `selected_tracer_data` (`State::default()`).
    data <trace> <shape>
        the state of live tracer `<trace>` now has this shape (sent after every real update);
        answers `bad-shape` (and applies the update) if the shape violates `Shape.wfB`.
    key <command>
        one command of the binding table: the field names of `Bindings`, plus `ctrl_c`.
    frame <w> <h>
        one frame (prologue + draw).  The terminal size takes no part in any index expression.

    shape   = e<0|1>,m<max_flows>,<flow>;<flow>…      flow 0 first, then the registry in order
    flow    = <id>:<round_count>:<hops>                hops = `-` or <ttl>/<addr_count>,…
    columns = (<letter><+|->)*                         `+` shown, `-` hidden, in list order

Answer: `panic`, or the canonical index state

    sel=<n|-> addr=<n> flow=<n> trace=<n> tab=<n> item=<n|-> help=<b> set=<b> det=<b> fl=<b>
    chart=<b> map=<b> frz=<b> priv=<n|-> ma=<n|-> zoom=<n> fc=<id:count,…|-> cols=<columns>
    snap=<shape> q=<0|1|2>

(`q` = exit action of the last key: 0 none, 1 quit, 2 quit preserving the screen.)  After a
`panic` every request but `new` answers `dead`.  Malformed requests answer `bad-op`.
The driver follows `TV.Tui.codeIsFixed`.
-/
namespace TV.Tui

structure DSt where
  sys : Option Sys := none
  deriving Inhabited

def optNat? (s : String) : Option (Option Nat) :=
  if s = "-" then some none else s.toNat?.map some

def parseHop (s : String) : Option HopS :=
  match s.splitOn "/" with
  | [t, a] => do pure { ttl := (← t.toNat?), addrs := (← a.toNat?) }
  | _ => none

def parseFlow (s : String) : Option FlowS :=
  match s.splitOn ":" with
  | [id, r, hs] => do
    let hops ← if hs = "-" then some [] else (hs.splitOn ",").mapM parseHop
    pure { id := (← id.toNat?), rounds := (← r.toNat?), hops := hops }
  | _ => none

def parseShape (s : String) : Option Shape :=
  match s.splitOn "," with
  | e :: m :: rest => do
    let err ← match e with | "e0" => some false | "e1" => some true | _ => none
    let mf ← if m.startsWith "m" then (m.drop 1).toNat? else none
    let flows ← ((",".intercalate rest).splitOn ";").mapM parseFlow
    pure { err := err, maxFlows := mf, flows := flows }
  | _ => none

def parseCsv (s : String) : Option (List Nat) := (s.splitOn ",").mapM (·.toNat?)

def parseColumns : List Char → Option (List (Char × Bool))
  | [] => some []
  | c :: '+' :: rest => (parseColumns rest).map ((c, true) :: ·)
  | c :: '-' :: rest => (parseColumns rest).map ((c, false) :: ·)
  | _ => none

def parseCmd : String → Option Cmd
  | "toggle_help" => some .toggleHelp | "toggle_help_alt" => some .toggleHelpAlt
  | "toggle_settings" => some .toggleSettings | "toggle_settings_tui" => some .toggleSettingsTui
  | "toggle_settings_trace" => some .toggleSettingsTrace | "toggle_settings_dns" => some .toggleSettingsDns
  | "toggle_settings_geoip" => some .toggleSettingsGeoip
  | "toggle_settings_bindings" => some .toggleSettingsBindings
  | "toggle_settings_theme" => some .toggleSettingsTheme
  | "toggle_settings_columns" => some .toggleSettingsColumns
  | "previous_hop" => some .previousHop | "next_hop" => some .nextHop
  | "previous_trace" => some .previousTrace | "next_trace" => some .nextTrace
  | "previous_hop_address" => some .previousHopAddress | "next_hop_address" => some .nextHopAddress
  | "address_mode_ip" => some .addressModeIp | "address_mode_host" => some .addressModeHost
  | "address_mode_both" => some .addressModeBoth | "toggle_freeze" => some .toggleFreeze
  | "toggle_chart" => some .toggleChart | "toggle_map" => some .toggleMap
  | "toggle_flows" => some .toggleFlows | "expand_privacy" => some .expandPrivacy
  | "contract_privacy" => some .contractPrivacy | "expand_hosts" => some .expandHosts
  | "contract_hosts" => some .contractHosts | "expand_hosts_max" => some .expandHostsMax
  | "contract_hosts_min" => some .contractHostsMin | "chart_zoom_in" => some .chartZoomIn
  | "chart_zoom_out" => some .chartZoomOut | "clear_trace_data" => some .clearTraceData
  | "clear_dns_cache" => some .clearDnsCache | "clear_selection" => some .clearSelection
  | "toggle_as_info" => some .toggleAsInfo | "toggle_hop_details" => some .toggleHopDetails
  | "quit" => some .quit | "quit_preserve_screen" => some .quitPreserveScreen
  | "ctrl_c" => some .ctrlC
  | _ => none

def showOpt : Option Nat → String
  | none => "-"
  | some n => toString n

def showB (b : Bool) : String := if b then "1" else "0"

def showShape (s : Shape) : String :=
  let fl := s.flows.map fun f =>
    let hs := if f.hops.isEmpty then "-" else ",".intercalate (f.hops.map fun h => s!"{h.ttl}/{h.addrs}")
    s!"{f.id}:{f.rounds}:{hs}"
  s!"e{showB s.err},m{s.maxFlows},{";".intercalate fl}"

def showColumns (cs : List (Char × Bool)) : String :=
  String.ofList (cs.flatMap fun (c, b) => [c, if b then '+' else '-'])

def showApp (a : App) (q : Nat) : String :=
  let fc := if a.flowCounts.isEmpty then "-" else ",".intercalate (a.flowCounts.map fun (i, c) => s!"{i}:{c}")
  s!"sel={showOpt a.selected} addr={a.selectedHopAddress} flow={a.selectedFlow} trace={a.traceSelected} " ++
  s!"tab={a.settingsTabSelected} item={showOpt a.settingSelected} help={showB a.showHelp} set={showB a.showSettings} " ++
  s!"det={showB a.showHopDetails} fl={showB a.showFlows} chart={showB a.showChart} map={showB a.showMap} " ++
  s!"frz={showB a.frozen} priv={showOpt a.privacy} ma={showOpt a.maxAddrs} zoom={a.zoom} fc={fc} " ++
  s!"cols={showColumns a.columns} snap={showShape a.snap} q={q}"

/-- the executable form of the well-formedness assumption on shapes (`Props/C17`: `Shape.WF`) -/
def Shape.wfB (s : Shape) : Bool :=
  (findFlow s 0).isSome &&
  s.flows.all (fun f => f.hops.length ≤ 254) &&
  (registry s).length ≤ s.maxFlows &&
  ((registry s).isEmpty || (findFlow s 1).isSome)

/-- the protocol over either version of the code -/
def handleWith (fx : Bool) (st : DSt) (args : List String) : DSt × String :=
  match args with
  | ["new", n, p, ma, decl, act, cols, shape] =>
    match n.toNat?, optNat? p, optNat? ma, parseCsv decl, parseCsv act, parseColumns cols.toList, parseShape shape with
    | some n, some p, some ma, some decl, some act, some cols, some sh =>
      let sys : Sys :=
        { app := { snap := sh, nTraces := n, privacy := p, maxAddrs := ma, columns := cols,
                   declared := decl, actual := act },
          live := List.replicate n (Shape.cleared sh.maxFlows) }
      ({ sys := some sys }, showApp sys.app 0)
    | _, _, _, _, _, _, _ => (st, "bad-op")
  | cmd :: rest =>
    match st.sys with
    | none => (st, if cmd == "data" || cmd == "key" || cmd == "frame" then "dead" else "bad-op")
    | some sys =>
      match cmd, rest with
      | "data", [k, shape] =>
        match k.toNat?, parseShape shape with
        | some k, some sh =>
          match step fx sys (.data k sh) with
          | .ok s' => ({ sys := some s' }, if sh.wfB then showApp s'.app 0 else "bad-shape")
          | _ => ({ sys := none }, "panic")
        | _, _ => (st, "bad-op")
      | "key", [c] =>
        match parseCmd c with
        | some c =>
          match dispatch fx c sys with
          | .ok (s', q) => ({ sys := some s' }, showApp s'.app q)
          | _ => ({ sys := none }, "panic")
        | none => (st, "bad-op")
      | "frame", [_, _] =>
        match step fx sys .frame with
        | .ok s' => ({ sys := some s' }, showApp s'.app 0)
        | _ => ({ sys := none }, "panic")
      | _, _ => (st, "bad-op")
  | [] => (st, "bad-op")

/-- The driver entry: follows `codeIsFixed`. -/
def handle (st : DSt) (args : List String) : DSt × String := handleWith codeIsFixed st args

end TV.Tui
