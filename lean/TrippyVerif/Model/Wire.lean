import TrippyVerif.Model.Basic
import TrippyVerif.Model.Checksum
import TrippyVerif.Model.Ext
import TrippyVerif.Model.Strategy
import TrippyVerif.Gen.Consts
/-!
# The wire layer (properties C11, C02, C04 receive half, C13 Paris half, C19 wire half)

Hand-written model of

* `/repo/crates/trippy-core/src/net/ipv4.rs` (lines 1-546) and `net/ipv6.rs` (1-483):
  `dispatch_icmp_probe`, `dispatch_udp_probe{,_raw,_non_raw}`, `dispatch_tcp_probe`,
  `recv_icmp_probe`, `recv_tcp_socket`, `extract_probe_resp`, `extract_probe_proto_resp`,
  `make_echo_request_icmp_packet`, `make_udp_packet`, `make_ipv4_packet`, `calc_udp_checksum`,
  `extract_echo_request`, `extract_udp_packet`, `extract_tcp_packet`,
  `udp_payload_has_magic_prefix`;
* `net/common.rs` (`ErrorMapper`) as used by the eight dispatch paths (`errorMap`);
* the slice accessors of `trippy-packet` these functions go through
  (`Ipv4Packet::{payload, get_options_raw}`, `Ipv6Packet::payload`, `UdpPacket::payload`,
  `TcpPacket::{payload, get_options_raw}`, `EchoRequestPacket::payload`).

Conventions
* Linux: `platform::Ipv4ByteOrder::Network`, `adjust_length` is the identity.
* `IP_HDRINCL`: the IPv4 header checksum is left 0 by the code (the kernel fills it in).
* addresses are octet lists (4 / 16 octets); `u16` values are the `Nat` they denote, serialised
  as `hi n = n / 256`, `lo n = n % 256`; a 16-bit field read is `a * 256 + b`.
* every `buf.read(off)` / `get_bytes(off)` of a packet view is `rd` (out of range = `panic`), every
  Rust slice `&b[i..j]` is guarded by the explicit range test that makes it panic, every
  `*::new_view` is the explicit length test returning `err pktShort`.
* only successful socket calls are sequenced (`dispatch`); what an error returned by a socket call
  turns into is the finite table `errorMap`.
* `SystemTime::now()` is not modelled: the receive time is supplied by the caller of `toStrat`.

## Driver requests (`handle`, leading word `wire` already removed)

    cfg   = <4|6> <hexsrc> <hexdst> <packetSize> <pattern> <priv 0|1> <tos> <i|u|t> <ext 0|1> <initialSeq>
    probe = <sequence> <identifier> <srcPort> <destPort> <ttl> <flags>

    send <cfg> <probe>                    -> ok <op>;<op>;...  | err <kind> | panic
         op = new:<udp4|udp6>:<raw 0|1> | new:<tcp4|tcp6> | bind:<hexaddr>:<port> | ttl:<n> | tos:<n>
            | hops:<n> | send:<hexbytes>:<hexaddr>:<port> | conn:<hexaddr>:<port>
    recv <cfg> <hexsrc|-> <hexbytes>      -> ok none | ok <resp> | err <kind> | panic
         (<hexsrc>: the address returned by `recv_from`, `-` = `None`; ignored for IPv4)
         resp  = <kind> <hexaddr> <proto> <exts>
         kind  = te:<code> | du:<code> | er:<code> | tr | tf
         proto = i:<id>:<seq>:<tos|-> | u:<id>:<dest>:<sp>:<dp>:<tos|->:<exp>:<act>:<plen>:<magic 0|1>
               | t:<dest>:<sp>:<dp>:<tos|->            (<dest> = the address as a decimal number)
         exts  = none | some:<`TV.Ext.showExtensions`>
    tcp <cfg> <srcPort> <destPort> <conn:<hexpeer|->|refused|unreach:<hexaddr>|other>
                                          -> as `recv`
    cksum <cfg> <srcPort> <destPort> <payloadLen>   -> ok <n> | panic     (`calc_udp_checksum`, IPv4)
    slice <accessor> <hexbuf>             -> ok <hex> | panic
         accessor = ipv4Payload | ipv4OptionsRaw | ipv6Payload | udpPayload | tcpPayload
                  | tcpOptionsRaw | echoPayload
    errmap <path> <call> <errkind>        -> ok | probe-failed | addr-in-use | fatal | not-called
         path = icmp4 | udpraw4 | udp4 | tcp4 | icmp6 | udpraw6 | udp6 | tcp6
         call = new | bind | ttl | tos | hops | send | conn
         errkind = in-progress | host-unreachable | net-unreachable | addr-in-use
                 | addr-not-available | invalid-input | other
    kinds: pkt-short | invalid-packet-size | missing-addr | io | other
-/
namespace TV.Wire
open TV

/-! ## configuration (`Ipv4` / `Ipv6` of `net/ipv4.rs`, `net/ipv6.rs`) -/

structure ChanCfg where
  v6 : Bool
  /-- `src_addr.octets()` -/
  src : Buf
  /-- `dest_addr.octets()` -/
  dst : Buf
  packetSize : Nat
  pattern : UInt8
  /-- `PrivilegeMode::Privileged` -/
  privileged : Bool
  /-- used by IPv4 only -/
  tos : UInt8
  proto : Strat.Proto
  /-- `IcmpExtensionParseMode::Enabled` -/
  extEnabled : Bool
  /-- used by IPv6 only -/
  initialSeq : Nat
  deriving Repr

/-! ## octets -/

/-- high / low octet of a `u16` (`to_be_bytes`) -/
def hi (n : Nat) : UInt8 := UInt8.ofNat (n / 256)
def lo (n : Nat) : UInt8 := UInt8.ofNat (n % 256)
/-- `u16::from_be_bytes([a, b])` -/
def beN (a b : UInt8) : Nat := a.toNat * 256 + b.toNat

/-- `u16::from_be_bytes(buf.get_bytes(off))` -/
def rd16 (b : Buf) (off : Nat) : R Nat := do
  let x ← rd b off
  let y ← rd b (off + 1)
  pure (beN x y)

/-- `&buf[off..off + n]` (an address field read with `get_bytes::<N>`) -/
def rdSlice (b : Buf) (off n : Nat) : R Buf :=
  if off + n ≤ b.length then .ok ((b.drop off).take n) else .panic

/-! ## socket calls -/

inductive SockKind
  /-- `S::new_udp_send_socket_ipv4(raw)` -/
  | udp4 (raw : Bool)
  /-- `S::new_udp_send_socket_ipv6(raw)` -/
  | udp6 (raw : Bool)
  /-- `S::new_stream_socket_ipv4()` -/
  | stream4
  /-- `S::new_stream_socket_ipv6()` -/
  | stream6
  deriving DecidableEq, Repr

/-- one call of the `Socket` trait -/
inductive SockOp
  | newSocket (k : SockKind)
  | bind (addr : Buf) (port : Nat)
  | setTtl (n : Nat)
  | setTos (n : Nat)
  /-- `set_unicast_hops_v6` -/
  | setHops (n : Nat)
  | sendTo (bytes : Buf) (addr : Buf) (port : Nat)
  | connect (addr : Buf) (port : Nat)
  deriving DecidableEq, Repr

/-! ## sizes -/

def MAX_PACKET_SIZE : Nat := Consts.channel_MAX_PACKET_SIZE
/-- `Ipv4Packet::minimum_packet_size()` -/
abbrev ip4Hdr : Nat := 20
/-- `Ipv6Packet::minimum_packet_size()` -/
abbrev ip6Hdr : Nat := 40
/-- `UdpPacket` / `IcmpPacket` / `EchoRequestPacket::minimum_packet_size()` -/
abbrev l4Hdr : Nat := 8
/-- `TcpPacket::minimum_packet_size()` -/
abbrev tcpHdr : Nat := 20

def ipHdr (c : ChanCfg) : Nat := if c.v6 then ip6Hdr else ip4Hdr
def minIcmp (c : ChanCfg) : Nat :=
  if c.v6 then Consts.net6_MIN_PACKET_SIZE_ICMP else Consts.net4_MIN_PACKET_SIZE_ICMP
def minUdp (c : ChanCfg) : Nat :=
  if c.v6 then Consts.net6_MIN_PACKET_SIZE_UDP else Consts.net4_MIN_PACKET_SIZE_UDP
def maxIcmpBuf (c : ChanCfg) : Nat :=
  if c.v6 then Consts.net6_MAX_ICMP_PACKET_BUF else Consts.net4_MAX_ICMP_PACKET_BUF
def maxIcmpPayload (c : ChanCfg) : Nat :=
  if c.v6 then Consts.net6_MAX_ICMP_PAYLOAD_BUF else Consts.net4_MAX_ICMP_PAYLOAD_BUF
def maxUdpBuf (c : ChanCfg) : Nat :=
  if c.v6 then Consts.net6_MAX_UDP_PACKET_BUF else Consts.net4_MAX_UDP_PACKET_BUF
def maxUdpPayload (c : ChanCfg) : Nat :=
  if c.v6 then Consts.net6_MAX_UDP_PAYLOAD_BUF else Consts.net4_MAX_UDP_PAYLOAD_BUF

/-- `Flags::PARIS_CHECKSUM` (bit 0) -/
def isParis (flags : Nat) : Bool := flags % 2 == 1
/-- `Flags::DUBLIN_IPV6_PAYLOAD_LENGTH` (bit 1) -/
def isDublin (flags : Nat) : Bool := flags / 2 % 2 == 1

/-! ## packet construction -/

/-- `make_echo_request_icmp_packet` (both families): `&mut icmp_buf[..8 + payload_size]`,
`&payload_buf[..payload_size]`, the setters, then the checksum over the packet (the checksum
function skips word 1, which is still zero anyway). -/
def makeEchoRequest (c : ChanCfg) (ident seq payloadSize : Nat) : R Buf :=
  if l4Hdr + payloadSize > maxIcmpBuf c then .panic
  else if payloadSize > maxIcmpPayload c then .panic
  else
    let body := hi ident :: lo ident :: hi seq :: lo seq :: List.replicate payloadSize c.pattern
    if c.v6 then do
      let ck ← Cksum.icmp_ipv6_checksum (128 :: 0 :: 0 :: 0 :: body) c.src c.dst
      pure (128 :: 0 :: hi ck :: lo ck :: body)
    else do
      let ck ← Cksum.icmp_ipv4_checksum (8 :: 0 :: 0 :: 0 :: body)
      pure (8 :: 0 :: hi ck :: lo ck :: body)

/-- `make_udp_packet` (both families): returns the checksum and the packet.
IPv6 (`ipv6.rs`): `match udp_ipv6_checksum(..) { 0 => 0xFFFF, c => c }` — a computed checksum of
zero is transmitted as all ones (RFC 8200 §8.1).  IPv4 stores the computed value as it is. -/
def makeUdp (c : ChanCfg) (srcPort destPort : Nat) (payload : Buf) : R (Nat × Buf) :=
  let size := l4Hdr + payload.length
  if size > maxUdpBuf c then .panic      -- `&mut udp_buf[..udp_packet_size]`
  else
    let hdr0 := hi srcPort :: lo srcPort :: hi destPort :: lo destPort :: hi size :: lo size ::
      0 :: 0 :: payload
    do
      let ck ← if c.v6 then do
                 let ck ← Cksum.udp_ipv6_checksum hdr0 c.src c.dst
                 pure (if ck = 0 then 0xFFFF else ck)
               else Cksum.udp_ipv4_checksum hdr0 c.src c.dst
      pure (ck, hi srcPort :: lo srcPort :: hi destPort :: lo destPort :: hi size :: lo size ::
        hi ck :: lo ck :: payload)

/-- the Paris swap (`dispatch_udp_probe_raw`): the payload is the two sequence octets; after
`make_udp_packet` the checksum field receives the payload and the payload the checksum. -/
def makeUdpParis (c : ChanCfg) (srcPort destPort seq : Nat) : R Buf := do
  let (ck, _) ← makeUdp c srcPort destPort [hi seq, lo seq]
  let size := l4Hdr + 2
  pure [hi srcPort, lo srcPort, hi destPort, lo destPort, hi size, lo size,
        hi seq, lo seq, hi ck, lo ck]

/-- `make_ipv4_packet`: version 4, IHL 5, total length, TTL, protocol, addresses, TOS, payload,
identification, DF.  Header checksum 0 (kernel). -/
def makeIpv4 (c : ChanCfg) (proto : UInt8) (ttl ident : Nat) (payload : Buf) : R Buf :=
  let total := ip4Hdr + payload.length
  if total > MAX_PACKET_SIZE then .panic       -- `&mut ipv4_buf[..ipv4_total_length]`
  else
    .ok ([0x45, c.tos, hi total, lo total, hi ident, lo ident,
          hi Consts.net4_DONT_FRAGMENT, lo Consts.net4_DONT_FRAGMENT,
          UInt8.ofNat ttl, proto, 0, 0] ++ c.src ++ c.dst ++ payload)

def protoIcmp : UInt8 := 1
def protoIcmpV6 : UInt8 := 58
def protoUdp : UInt8 := 17
def protoTcp : UInt8 := 6

/-! ## dispatch -/

/-- `dispatch_icmp_probe` -/
def dispatchIcmp (c : ChanCfg) (p : Strat.Probe) : R (List SockOp) :=
  if ¬ (minIcmp c ≤ c.packetSize ∧ c.packetSize ≤ MAX_PACKET_SIZE) then .err .invalidPacketSize
  else do
    let echo ← makeEchoRequest c p.ident p.seq (c.packetSize - l4Hdr - ipHdr c)
    if c.v6 then
      pure [.setHops p.ttl, .sendTo echo c.dst 0]
    else do
      let ip ← makeIpv4 c protoIcmp p.ttl 0 echo
      pure [.sendTo ip c.dst 0]

/-- `dispatch_udp_probe_raw` -/
def dispatchUdpRaw (c : ChanCfg) (p : Strat.Probe) (payload : Buf) : R (List SockOp) := do
  let udp ←
    if isParis p.flags then makeUdpParis c p.srcPort p.destPort p.seq
    else if c.v6 && isDublin p.flags then do
      -- `probe.sequence.0 - self.initial_sequence.0` (u16, checked)
      let plen ← Strat.subU p.seq c.initialSeq
      -- `&dublin_payload[..usize::from(payload_len) + MAGIC.len()]`
      if plen + Consts.net6_MAGIC.length > maxUdpPayload c then .panic
      else do
        let r ← makeUdp c p.srcPort p.destPort (Consts.net6_MAGIC ++ List.replicate plen c.pattern)
        pure r.2
    else do
      let r ← makeUdp c p.srcPort p.destPort payload
      pure r.2
  if c.v6 then
    pure [.setHops p.ttl, .sendTo udp c.dst 0]
  else do
    let ip ← makeIpv4 c protoUdp p.ttl p.ident udp
    pure [.sendTo ip c.dst p.destPort]

/-- `dispatch_udp_probe_non_raw` -/
def dispatchUdpNonRaw (c : ChanCfg) (p : Strat.Probe) (payload : Buf) : List SockOp :=
  if c.v6 then
    [.newSocket (.udp6 false), .bind c.src p.srcPort, .setHops p.ttl, .sendTo payload c.dst p.destPort]
  else
    [.newSocket (.udp4 false), .bind c.src p.srcPort, .setTtl p.ttl, .setTos c.tos.toNat,
     .sendTo payload c.dst p.destPort]

/-- `dispatch_udp_probe` -/
def dispatchUdp (c : ChanCfg) (p : Strat.Probe) : R (List SockOp) :=
  if ¬ (minUdp c ≤ c.packetSize ∧ c.packetSize ≤ MAX_PACKET_SIZE) then .err .invalidPacketSize
  else
    let payloadSize := c.packetSize - l4Hdr - ipHdr c
    if payloadSize > maxUdpPayload c then .panic     -- `[pattern; MAX_UDP_PAYLOAD_BUF][0..payload_size]`
    else
      let payload := List.replicate payloadSize c.pattern
      if c.privileged then dispatchUdpRaw c p payload
      else .ok (dispatchUdpNonRaw c p payload)

/-- `dispatch_tcp_probe` -/
def dispatchTcp (c : ChanCfg) (p : Strat.Probe) : List SockOp :=
  if c.v6 then
    [.newSocket .stream6, .bind c.src p.srcPort, .setHops p.ttl, .connect c.dst p.destPort]
  else
    [.newSocket .stream4, .bind c.src p.srcPort, .setTtl p.ttl, .setTos c.tos.toNat,
     .connect c.dst p.destPort]

/-- `Channel::send_probe` → `Ipv4::dispatch_*` / `Ipv6::dispatch_*`: the socket calls made when
every call succeeds -/
def dispatch (c : ChanCfg) (p : Strat.Probe) : R (List SockOp) :=
  match c.proto with
  | .icmp => dispatchIcmp c p
  | .udp => dispatchUdp c p
  | .tcp => .ok (dispatchTcp c p)

/-- `Ipv4::calc_udp_checksum` (also evaluated for `v6 = true`, where the code has no such
function; `handle` only offers it for IPv4) -/
def calcUdpChecksum (c : ChanCfg) (srcPort destPort payloadSize : Nat) : R Nat := do
  let size := min payloadSize (maxUdpPayload c)
  let r ← makeUdp c srcPort destPort (List.replicate size c.pattern)
  pure r.1

/-! ## error mapping (`ErrorMapper` as applied in the eight dispatch paths) -/

/-- `error::ErrorKind` of the `io::Error` a socket call returned, as far as the mapping
distinguishes -/
inductive IoKind
  | inProgress | hostUnreachable | netUnreachable | addrInUse | addrNotAvailable | invalidInput
  | other
  deriving DecidableEq, Repr

inductive Path
  | icmp4 | udpRaw4 | udp4 | tcp4 | icmp6 | udpRaw6 | udp6 | tcp6
  deriving DecidableEq, Repr

inductive Call
  | new | bind | ttl | tos | hops | send | conn
  deriving DecidableEq, Repr

inductive Mapped
  /-- `ErrorMapper::in_progress`: treated as success, the path continues -/
  | ok
  /-- `Error::ProbeFailed` -/
  | probeFailed
  /-- `Error::AddressInUse` -/
  | addrInUse
  /-- `Error::IoError` (ends the trace) -/
  | fatal
  /-- the path does not make this call -/
  | notCalled
  deriving DecidableEq, Repr

/-- `bind` in the IPv4 paths: `in_progress`, `addr_in_use`, `probe_failed(AddrNotAvailable)` -/
def mapBind4 : IoKind → Mapped
  | .inProgress => .ok
  | .addrInUse => .addrInUse
  | .addrNotAvailable => .probeFailed
  | _ => .fatal

/-- `bind` / `connect` in the IPv6 paths: `in_progress`, `addr_in_use` -/
def mapBind6 : IoKind → Mapped
  | .inProgress => .ok
  | .addrInUse => .addrInUse
  | _ => .fatal

/-- which socket call of which path maps which error kind to what -/
def errorMap (p : Path) (call : Call) (e : IoKind) : Mapped :=
  match p, call with
  | .icmp4, .send =>
    (match e with
     | .hostUnreachable | .netUnreachable | .invalidInput => .probeFailed
     | _ => .fatal)
  | .icmp4, _ => .notCalled
  | .udpRaw4, .send =>
    (match e with
     | .hostUnreachable | .netUnreachable => .probeFailed
     | _ => .fatal)
  | .udpRaw4, _ => .notCalled
  | .udp4, .new | .udp4, .ttl | .udp4, .tos | .udp4, .send => .fatal
  | .udp4, .bind => mapBind4 e
  | .udp4, _ => .notCalled
  | .tcp4, .new | .tcp4, .ttl | .tcp4, .tos => .fatal
  | .tcp4, .bind => mapBind4 e
  | .tcp4, .conn =>
    (match e with
     | .inProgress => .ok
     | .addrInUse => .addrInUse
     | .netUnreachable => .probeFailed
     | _ => .fatal)
  | .tcp4, _ => .notCalled
  | .icmp6, .hops | .icmp6, .send => .fatal
  | .icmp6, _ => .notCalled
  | .udpRaw6, .hops | .udpRaw6, .send => .fatal
  | .udpRaw6, _ => .notCalled
  | .udp6, .new | .udp6, .hops | .udp6, .send => .fatal
  | .udp6, .bind => mapBind6 e
  | .udp6, _ => .notCalled
  | .tcp6, .new | .tcp6, .hops => .fatal
  | .tcp6, .bind | .tcp6, .conn => mapBind6 e
  | .tcp6, _ => .notCalled

/-! ## slice accessors of the packet views -/

/-- `ipv4_options_length`: `(ihl as usize * 4).saturating_sub(20)` -/
def ipv4OptionsLength (b : Buf) : R Nat := do
  let v ← rd b 0
  pure (v.toNat % 16 * 4 - ip4Hdr)

/-- `Ipv4Packet::payload`: `&buf[min(20 + options_length, len)..]` -/
def ipv4Payload (b : Buf) : R Buf := do
  let ol ← ipv4OptionsLength b
  let start := min (ip4Hdr + ol) b.length
  pure (b.drop start)

/-- `Ipv4Packet::get_options_raw`: `&buf[20..min(20 + options_length, len)]` -/
def ipv4OptionsRaw (b : Buf) : R Buf := do
  let ol ← ipv4OptionsLength b
  let e := min (ip4Hdr + ol) b.length
  if e < ip4Hdr then .panic else pure ((b.take e).drop ip4Hdr)

/-- `Ipv6Packet::payload`: `[]` if `len ≤ 40`, else `&buf[40..min(40 + payload_length, len)]` -/
def ipv6Payload (b : Buf) : R Buf := do
  let pl ← rd16 b 4
  let e := min (ip6Hdr + pl) b.length
  if b.length ≤ ip6Hdr then pure [] else pure ((b.take e).drop ip6Hdr)

/-- `UdpPacket::payload`: `&buf[8..]` -/
def udpPayload (b : Buf) : R Buf :=
  if b.length < l4Hdr then .panic else .ok (b.drop l4Hdr)

/-- `EchoRequestPacket::payload` (both families): `&buf[8..]` -/
def echoPayload (b : Buf) : R Buf :=
  if b.length < l4Hdr then .panic else .ok (b.drop l4Hdr)

/-- `TcpPacket::tcp_options_length`: `if data_offset > 5 { data_offset * 4 - 20 } else { 0 }` -/
def tcpOptionsLength (b : Buf) : R Nat := do
  let v ← rd b 12
  let off := v.toNat / 16
  pure (if off > 5 then off * 4 - tcpHdr else 0)

/-- `TcpPacket::get_options_raw`: `&buf[20..min(20 + options_length, len)]` -/
def tcpOptionsRaw (b : Buf) : R Buf := do
  let ol ← tcpOptionsLength b
  let e := min (tcpHdr + ol) b.length
  if e < tcpHdr then .panic else pure ((b.take e).drop tcpHdr)

/-- `TcpPacket::payload`: `[]` if `len ≤ 20 + options_length`, else `&buf[20 + options_length..]` -/
def tcpPayload (b : Buf) : R Buf := do
  let ol ← tcpOptionsLength b
  let start := tcpHdr + ol
  if b.length ≤ start then pure [] else pure (b.drop start)

/-! ## receive -/

/-- the address as a number: its octets are the big-endian base-256 digits -/
def addrNat (a : Buf) : Nat := a.foldl (fun acc x => acc * 256 + x.toNat) 0

/-- `Response` of `probe.rs`, with the extensions in full; the receive time is added by
`toStrat` -/
structure WResp where
  /-- `TimeExceeded(_, code, _)`, `DestinationUnreachable(_, code, _)`, `EchoReply(_, code)`,
  `TcpReply`, `TcpRefused` -/
  kind : Strat.RespKind
  /-- `ResponseData::addr` -/
  addr : Buf
  /-- `ResponseData::proto_resp` -/
  proto : Strat.ProtoResp
  exts : Option (List Ext.Extension)
  deriving Repr, DecidableEq

/-- the abstract `Response` the state machine consumes -/
def WResp.toStrat (r : WResp) (recvTime : Nat) : Strat.Resp :=
  { kind := r.kind, recv := recvTime, addr := addrNat r.addr, proto := r.proto,
    ext := r.exts.map List.length }

/-- `extract_echo_request`: `EchoRequestPacket::new_view(ip.payload())`, identifier, sequence -/
def extractEchoRequest (l4 : Buf) : R (Nat × Nat) :=
  if l4.length < l4Hdr then .err .pktShort
  else do
    let id ← rd16 l4 4
    let sq ← rd16 l4 6
    pure (id, sq)

/-- `extract_udp_packet`: ports, checksum, `get_length().saturating_sub(8)` -/
def extractUdp (l4 : Buf) : R (Nat × Nat × Nat × Nat) :=
  if l4.length < l4Hdr then .err .pktShort
  else do
    let sp ← rd16 l4 0
    let dp ← rd16 l4 2
    let len ← rd16 l4 4
    let ck ← rd16 l4 6
    pure (sp, dp, ck, len - l4Hdr)

/-- IPv4 `extract_tcp_packet`: a quotation shorter than a TCP header is copied into a zeroed
20-octet buffer first -/
def extractTcp4 (l4 : Buf) : R (Nat × Nat) :=
  let buf := if l4.length < tcpHdr then l4 ++ List.replicate (tcpHdr - l4.length) 0 else l4
  if buf.length < tcpHdr then .err .pktShort       -- `TcpPacket::new_view` (never taken)
  else do
    let sp ← rd16 buf 0
    let dp ← rd16 buf 2
    pure (sp, dp)

/-- IPv6 `extract_tcp_packet`: `TcpPacket::new_view(ipv6.payload())?` -/
def extractTcp6 (l4 : Buf) : R (Nat × Nat) :=
  if l4.length < tcpHdr then .err .pktShort
  else do
    let sp ← rd16 l4 0
    let dp ← rd16 l4 2
    pure (sp, dp)

/-- `udp_payload_has_magic_prefix`: `UdpPacket::new_view(..)?.payload().starts_with(MAGIC)` -/
def udpHasMagic (l4 : Buf) : R Bool :=
  if l4.length < l4Hdr then .err .pktShort
  else do
    let p ← udpPayload l4
    pure (Consts.net6_MAGIC.isPrefixOf p)

/-- IPv4 `extract_probe_proto_resp` on a view of at least 20 octets -/
def protoResp4 (c : ChanCfg) (ip : Buf) : R (Option Strat.ProtoResp) := do
  let pr ← rd ip 9
  match c.proto with
  | .icmp =>
    if pr = protoIcmp then do
      let l4 ← ipv4Payload ip
      let (id, sq) ← extractEchoRequest l4
      let tos ← rd ip 1
      pure (some (.icmp id sq (some tos.toNat)))
    else pure none
  | .udp =>
    if pr = protoUdp then do
      let l4 ← ipv4Payload ip
      let (sp, dp, actual, plen) ← extractUdp l4
      let ident ← rd16 ip 4
      let expected ← calcUdpChecksum c sp dp plen
      let dest ← rdSlice ip 16 4
      let tos ← rd ip 1
      pure (some (.udp ident (addrNat dest) sp dp (some tos.toNat) expected actual plen false))
    else pure none
  | .tcp =>
    if pr = protoTcp then do
      let l4 ← ipv4Payload ip
      let (sp, dp) ← extractTcp4 l4
      let dest ← rdSlice ip 16 4
      let tos ← rd ip 1
      pure (some (.tcp (addrNat dest) sp dp (some tos.toNat)))
    else pure none

/-- `Ipv6Packet::get_traffic_class` -/
def trafficClass (ip : Buf) : R Nat := do
  let b0 ← rd ip 0
  let b1 ← rd ip 1
  pure (b0.toNat % 16 * 16 + b1.toNat / 16)

/-- IPv6 `extract_probe_proto_resp` on a view of at least 40 octets -/
def protoResp6 (c : ChanCfg) (ip : Buf) : R (Option Strat.ProtoResp) := do
  let nh ← rd ip 6
  match c.proto with
  | .icmp =>
    if nh = protoIcmpV6 then do
      let l4 ← ipv6Payload ip
      let (id, sq) ← extractEchoRequest l4
      let tc ← trafficClass ip
      pure (some (.icmp id sq (some tc)))
    else pure none
  | .udp =>
    if nh = protoUdp then do
      let l4 ← ipv6Payload ip
      let (sp, dp, actual, ulen) ← extractUdp l4
      let l4' ← ipv6Payload ip
      let magic ← udpHasMagic l4'
      let plen := if magic then ulen - Consts.net6_MAGIC.length else ulen
      let dest ← rdSlice ip 24 16
      let tc ← trafficClass ip
      pure (some (.udp 0 (addrNat dest) sp dp (some tc) actual actual plen magic))
    else pure none
  | .tcp =>
    if nh = protoTcp then do
      let l4 ← ipv6Payload ip
      let (sp, dp) ← extractTcp6 l4
      let dest ← rdSlice ip 24 16
      let tc ← trafficClass ip
      pure (some (.tcp (addrNat dest) sp dp (some tc)))
    else pure none

def protoResp (c : ChanCfg) (ip : Buf) : R (Option Strat.ProtoResp) :=
  if ip.length < ipHdr c then .err .pktShort      -- `Ipv4Packet` / `Ipv6Packet::new_view`
  else if c.v6 then protoResp6 c ip else protoResp4 c ip

/-- ICMP type numbers (`IcmpType::from(u8)`) -/
def tyTimeExceeded (v6 : Bool) : UInt8 := if v6 then 3 else 11
def tyDestUnreachable (v6 : Bool) : UInt8 := if v6 then 1 else 3
def tyEchoReply (v6 : Bool) : UInt8 := if v6 then 129 else 0

/-- `extract_probe_resp` (both families) on the ICMP message (a view of at least 8 octets) and the
responder address -/
def extractProbeResp (c : ChanCfg) (icmp : Buf) (src : Buf) : R (Option WResp) := do
  let ty ← rd icmp 0
  let code ← rd icmp 1
  if ty = tyTimeExceeded c.v6 then
    if code.toNat = 0 then do
      -- `TimeExceededPacket::new_view(icmp_v4.packet())?` cannot fail (same length test)
      let (quoted, exts) ← Ext.tracerExtract Ext.codeIsFixed c.v6 true c.extEnabled icmp
      let pr ← protoResp c quoted
      pure (pr.map fun p => { kind := .timeExceeded code.toNat, addr := src, proto := p, exts := exts })
    else pure none
  else if ty = tyDestUnreachable c.v6 then do
    let (quoted, exts) ← Ext.tracerExtract Ext.codeIsFixed c.v6 false c.extEnabled icmp
    let pr ← protoResp c quoted
    pure (pr.map fun p => { kind := .destUnreachable code.toNat, addr := src, proto := p, exts := exts })
  else if ty = tyEchoReply c.v6 then
    match c.proto with
    | .icmp => do
      let id ← rd16 icmp 4
      let sq ← rd16 icmp 6
      pure (some { kind := .echoReply code.toNat, addr := src, proto := .icmp id sq none,
                   exts := none })
    | _ => pure none
  else pure none

/-- IPv4 `recv_icmp_probe` after a successful `read`: `bytes` starts at the outer IPv4 header -/
def recvIcmp4 (c : ChanCfg) (bytes : Buf) : R (Option WResp) :=
  if bytes.length < ip4Hdr then .err .pktShort          -- `Ipv4Packet::new_view(&buf[..n])?`
  else do
    let src ← rdSlice bytes 12 4                        -- `ipv4.get_source()`
    let icmp ← ipv4Payload bytes
    if icmp.length < l4Hdr then .err .pktShort          -- `IcmpPacket::new_view(ipv4.payload())?`
    else extractProbeResp c icmp src

/-- IPv6 `recv_icmp_probe` after a successful `recv_from`: `bytes` starts at the ICMPv6 header;
`srcAddr` is the address the socket reported: `[]` = `None` (`Error::MissingAddr`), 4 octets = a
`SocketAddr::V4` (the `panic!()` arm; an `AF_INET6` socket never reports one), otherwise the
IPv6 address. -/
def recvIcmp6 (c : ChanCfg) (bytes : Buf) (srcAddr : Buf) : R (Option WResp) :=
  if bytes.length < l4Hdr then .err .pktShort           -- `IcmpPacket::new_view(&buf[..n])?`
  else if srcAddr.isEmpty then .err .missingAddr
  else if srcAddr.length = 4 then .panic
  else extractProbeResp c bytes srcAddr

/-- `recv_icmp_probe` for one datagram delivered by the receive socket -/
def recvIcmp (c : ChanCfg) (bytes : Buf) (srcAddr : Buf) : R (Option WResp) :=
  if c.v6 then recvIcmp6 c bytes srcAddr else recvIcmp4 c bytes

/-- what `take_error` / `peer_addr` / `icmp_error_info` report for a writable TCP socket -/
inductive TcpSock
  /-- `take_error() = None`; `peer_addr()` -/
  | connected (peer : Option Buf)
  /-- `SocketError::ConnectionRefused` -/
  | refused
  /-- `SocketError::HostUnreachable`; `icmp_error_info()` -/
  | hostUnreachable (errAddr : Buf)
  /-- `SocketError::Other` -/
  | other
  deriving Repr

/-- `recv_tcp_socket` (both families) -/
def recvTcp (c : ChanCfg) (srcPort destPort : Nat) : TcpSock → R (Option WResp)
  | .connected none => .err .missingAddr
  | .connected (some peer) =>
    .ok (some { kind := .tcpReply, addr := peer,
                proto := .tcp (addrNat c.dst) srcPort destPort none, exts := none })
  | .refused =>
    .ok (some { kind := .tcpRefused, addr := c.dst,
                proto := .tcp (addrNat c.dst) srcPort destPort none, exts := none })
  | .hostUnreachable a =>
    .ok (some { kind := .timeExceeded 1, addr := a,
                proto := .tcp (addrNat c.dst) srcPort destPort none, exts := none })
  | .other => .ok none

/-! ## driver entry -/

def showOp : SockOp → String
  | .newSocket (.udp4 raw) => s!"new:udp4:{if raw then 1 else 0}"
  | .newSocket (.udp6 raw) => s!"new:udp6:{if raw then 1 else 0}"
  | .newSocket .stream4 => "new:tcp4"
  | .newSocket .stream6 => "new:tcp6"
  | .bind a p => s!"bind:{hexOrDash a}:{p}"
  | .setTtl n => s!"ttl:{n}"
  | .setTos n => s!"tos:{n}"
  | .setHops n => s!"hops:{n}"
  | .sendTo b a p => s!"send:{hexOrDash b}:{hexOrDash a}:{p}"
  | .connect a p => s!"conn:{hexOrDash a}:{p}"

def showErr : Err → String
  | .pktShort => "pkt-short"
  | .invalidPacketSize => "invalid-packet-size"
  | .missingAddr => "missing-addr"
  | .io => "io"
  | _ => "other"

def showOptNat : Option Nat → String
  | none => "-"
  | some n => toString n

def showProto : Strat.ProtoResp → String
  | .icmp id sq tos => s!"i:{id}:{sq}:{showOptNat tos}"
  | .udp id dest sp dp tos exp act plen magic =>
    s!"u:{id}:{dest}:{sp}:{dp}:{showOptNat tos}:{exp}:{act}:{plen}:{if magic then 1 else 0}"
  | .tcp dest sp dp tos => s!"t:{dest}:{sp}:{dp}:{showOptNat tos}"

def showKind : Strat.RespKind → String
  | .timeExceeded c => s!"te:{c}"
  | .destUnreachable c => s!"du:{c}"
  | .echoReply c => s!"er:{c}"
  | .tcpReply => "tr"
  | .tcpRefused => "tf"

def showExts : Option (List Ext.Extension) → String
  | none => "none"
  | some xs => "some:" ++ Ext.showExtensions xs

def showResp (r : WResp) : String :=
  s!"{showKind r.kind} {hexOrDash r.addr} {showProto r.proto} {showExts r.exts}"

def showRecv : R (Option WResp) → String
  | .ok none => "ok none"
  | .ok (some r) => "ok " ++ showResp r
  | .err e => "err " ++ showErr e
  | .panic => "panic"

def showSend : R (List SockOp) → String
  | .ok ops => "ok " ++ ";".intercalate (ops.map showOp)
  | .err e => "err " ++ showErr e
  | .panic => "panic"

def showSlice : R Buf → String
  | .ok b => "ok " ++ hexOrDash b
  | .err e => "err " ++ showErr e
  | .panic => "panic"

def natBelow (s : String) (bound : Nat) : Option Nat :=
  match s.toNat? with
  | some n => if n < bound then some n else none
  | none => none

def parseBool (s : String) : Option Bool :=
  if s = "1" then some true else if s = "0" then some false else none

/-- the ten configuration tokens -/
def parseCfg : List String → Option ChanCfg
  | [fam, hs, hd, size, pat, priv, tos, proto, ext, initial] => do
    let v6 ← if fam = "6" then some true else if fam = "4" then some false else none
    let src ← bytesOfHex hs
    let dst ← bytesOfHex hd
    let alen := if v6 then 16 else 4
    if src.length ≠ alen ∨ dst.length ≠ alen then none
    let size ← natBelow size 65536
    let pat ← natBelow pat 256
    let priv ← parseBool priv
    let tos ← natBelow tos 256
    let proto ← match proto with
      | "i" => some Strat.Proto.icmp | "u" => some .udp | "t" => some .tcp | _ => none
    let ext ← parseBool ext
    let initial ← natBelow initial 65536
    pure { v6 := v6, src := src, dst := dst, packetSize := size, pattern := UInt8.ofNat pat,
           privileged := priv, tos := UInt8.ofNat tos, proto := proto, extEnabled := ext,
           initialSeq := initial }
  | _ => none

/-- the six probe tokens -/
def parseProbe : List String → Option Strat.Probe
  | [sq, id, sp, dp, ttl, fl] => do
    pure { seq := (← natBelow sq 65536), ident := (← natBelow id 65536),
           srcPort := (← natBelow sp 65536), destPort := (← natBelow dp 65536),
           ttl := (← natBelow ttl 256), round := 0, sent := 0, flags := (← natBelow fl 4) }
  | _ => none

def parseTcpSock (s : String) : Option TcpSock :=
  match s.splitOn ":" with
  | ["conn", "-"] => some (.connected none)
  | ["conn", h] => (bytesOfHex h).map fun a => .connected (some a)
  | ["refused"] => some .refused
  | ["unreach", h] => (bytesOfHex h).map .hostUnreachable
  | ["other"] => some .other
  | _ => none

def parsePath : String → Option Path
  | "icmp4" => some .icmp4 | "udpraw4" => some .udpRaw4 | "udp4" => some .udp4 | "tcp4" => some .tcp4
  | "icmp6" => some .icmp6 | "udpraw6" => some .udpRaw6 | "udp6" => some .udp6 | "tcp6" => some .tcp6
  | _ => none

def parseCall : String → Option Call
  | "new" => some .new | "bind" => some .bind | "ttl" => some .ttl | "tos" => some .tos
  | "hops" => some .hops | "send" => some .send | "conn" => some .conn | _ => none

def parseIoKind : String → Option IoKind
  | "in-progress" => some .inProgress | "host-unreachable" => some .hostUnreachable
  | "net-unreachable" => some .netUnreachable | "addr-in-use" => some .addrInUse
  | "addr-not-available" => some .addrNotAvailable | "invalid-input" => some .invalidInput
  | "other" => some .other | _ => none

def showMapped : Mapped → String
  | .ok => "ok" | .probeFailed => "probe-failed" | .addrInUse => "addr-in-use" | .fatal => "fatal"
  | .notCalled => "not-called"

def sliceFn : String → Option (Buf → R Buf)
  | "ipv4Payload" => some ipv4Payload
  | "ipv4OptionsRaw" => some ipv4OptionsRaw
  | "ipv6Payload" => some ipv6Payload
  | "udpPayload" => some udpPayload
  | "tcpPayload" => some tcpPayload
  | "tcpOptionsRaw" => some tcpOptionsRaw
  | "echoPayload" => some echoPayload
  -- `get_options_raw_mut` computes the same range as `get_options_raw`
  | "ipv4OptionsRawMut" => some ipv4OptionsRaw
  -- `payload()` of the echo views and `payload_raw()` of the error views: `&buf[8..]`
  | "echoReply4Payload" | "echoRequest6Payload" | "echoReply6Payload" => some echoPayload
  | "te4PayloadRaw" | "du4PayloadRaw" | "te6PayloadRaw" | "du6PayloadRaw" => some echoPayload
  | _ => none

/-- requests with the leading word `wire` stripped -/
def handle (args : List String) : Option String :=
  match args with
  | "send" :: rest =>
    if rest.length ≠ 16 then none else do
      let c ← parseCfg (rest.take 10)
      let p ← parseProbe (rest.drop 10)
      some (showSend (dispatch c p))
  | "recv" :: rest =>
    if rest.length ≠ 12 then none else do
      let c ← parseCfg (rest.take 10)
      match rest.drop 10 with
      | [hs, hb] => do
        let s ← bytesOfHex hs
        let b ← bytesOfHex hb
        some (showRecv (recvIcmp c b s))
      | _ => none
  | "tcp" :: rest =>
    if rest.length ≠ 13 then none else do
      let c ← parseCfg (rest.take 10)
      match rest.drop 10 with
      | [sp, dp, st] => do
        let sp ← natBelow sp 65536
        let dp ← natBelow dp 65536
        let st ← parseTcpSock st
        some (showRecv (recvTcp c sp dp st))
      | _ => none
  | "cksum" :: rest =>
    if rest.length ≠ 13 then none else do
      let c ← parseCfg (rest.take 10)
      if c.v6 then none
      match rest.drop 10 with
      | [sp, dp, pl] => do
        let sp ← natBelow sp 65536
        let dp ← natBelow dp 65536
        let pl ← natBelow pl 65536
        match calcUdpChecksum c sp dp pl with
        | .ok n => some s!"ok {n}"
        | .err e => some ("err " ++ showErr e)
        | .panic => some "panic"
      | _ => none
  | ["slice", fn, hb] => do
    let f ← sliceFn fn
    let b ← bytesOfHex hb
    some (showSlice (f b))
  | ["errmap", p, call, e] => do
    let p ← parsePath p
    let call ← parseCall call
    let e ← parseIoKind e
    some (showMapped (errorMap p call e))
  | _ => none

end TV.Wire
