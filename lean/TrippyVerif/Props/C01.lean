import TrippyVerif.Lemmas.StrategyHist
/-!
# C01 — every reported probe outcome matches what the network actually did (strategy layer)

The *ghost history* of the round in progress records what really happened: every `send_probe`
call with its outcome (`sent`), and every genuine response the network handed over (`accepted`,
in order of arrival).  `expectedSlot` says how a probe must be reported given that history:
`Complete` with the data of the *first* genuine response to it (responder, receive time, kind,
TOS, checksums, extensions; the round-trip time is receive − send), otherwise `Awaited`; `Failed`
if sending failed; `Skipped` if it was re-issued after address-in-use.

`C01_strategy`: at every publication, the published round has exactly one entry per `send_probe`
call of that round, in order, and each entry is the one the history dictates — none invented,
none dropped, none counted twice.  The wire half (bytes of a genuine response decode to that
response: C02), the aggregation half (hop totals are the sums of these outcomes: C05) and the
end-to-end simulation are separate obligations of C01.
-/
namespace TV.Props.C01
open TV TV.Strat

/-- the ghost history after one iteration (given the state `s1` after the send step) -/
def ghostStep (c : Cfg) (s1 : TS) (g : Ghost) (e : IterEnv) (o : IterOut) : Ghost :=
  let acc := match e.recv with
    | .resp r => (match genuine c s1 r with
        | some p => [(p, strategyResp c r)]
        | none => [])
    | _ => []
  let g' : Ghost := { sent := g.sent ++ o.sent, accepted := g.accepted ++ acc }
  if o.published.isSome then {} else g'

/-- **C01 (strategy layer).** -/
theorem C01_strategy {c : Cfg} (hc : CfgOk c) {s s' : TS} (hs : Reach c s) {g : Ghost} (hg : GInv c s g)
    {e : IterEnv} {o : IterOut} (h : iter c s e = .ok (s', o)) :
    ∃ s1, sendRequest c s e.sends = .ok (s1, o.sent) ∧
      GInv c s' (ghostStep c s1 g e o) ∧
      (∀ r, o.published = some r →
        let acc := g.accepted ++ (match e.recv with
          | .resp rs => (match genuine c s1 rs with
              | some p => [(p, strategyResp c rs)]
              | none => [])
          | _ => [])
        r.probes = (g.sent ++ o.sent).map (expectedSlot acc)) := by
  obtain ⟨s1, s2, h1, h2, h3⟩ := iter_decomp h
  have hi := reach_inv hc hs
  have hi1 := ((sendRequest_spec hc hi e.sends).2 s1 o.sent h1).1
  have hg1 := ginv_send hc hi hg e.sends o.sent h1
  refine ⟨s1, h1, ?_⟩
  -- the receive step
  have hrecv : ∃ acc, (acc = match e.recv with
        | .resp rs => (match genuine c s1 rs with
            | some p => [(p, strategyResp c rs)]
            | none => [])
        | _ => []) ∧ Inv c s2 ∧
      GInv c s2 { sent := g.sent ++ o.sent, accepted := g.accepted ++ acc } := by
    cases hrv : e.recv with
    | none =>
      rw [hrv] at h2; simp [recvResponse] at h2; subst h2
      exact ⟨[], rfl, inv_tick hi1 _, by simpa using ginv_tick hg1 _⟩
    | fatal => rw [hrv] at h2; simp [recvResponse] at h2
    | resp r =>
      rw [hrv, recvResponse_spec hi1] at h2
      cases hgen : genuine c s1 r with
      | none =>
        simp [hgen] at h2; subst h2
        exact ⟨[], by simp [hgen], inv_tick hi1 _, by simpa using ginv_tick hg1 _⟩
      | some p =>
        simp [hgen] at h2; subst h2
        have hans : answered (tick s1 e.dt) (strategyResp c r).seq = some p := by
          unfold genuine at hgen
          split at hgen
          · rw [answered_tick]; exact hgen
          · cases hgen
        refine ⟨[(p, strategyResp c r)], by simp [hgen], inv_afterComplete (inv_tick hi1 _) _ hans, ?_⟩
        exact (ginv_accept (inv_tick hi1 _) (ginv_tick hg1 _) _ p hans).1
  obtain ⟨acc, hacc, hi2, hg2⟩ := hrecv
  obtain ⟨hu1, hu2⟩ := updateRound_spec hc hi2
  by_cases hrc : roundComplete c s2 = true
  · obtain ⟨r, hr, hu⟩ := hu2 hrc
    rw [hu] at h3; simp at h3; obtain ⟨e1, e2⟩ := h3
    subst e1
    obtain ⟨r', hr', hprobes⟩ := published_probes hc hi2 hg2
    rw [hr] at hr'; cases hr'
    refine ⟨?_, ?_⟩
    · simp only [ghostStep, ← e2, Option.isSome_some, if_true]
      have hadv := inv_afterAdvance hc hi2
      exact ⟨by simp [afterAdvance, TS.count], by intro k hk; simp at hk, by intro k hk; simp at hk,
        by simp, by simp⟩
    · intro r0 hr0
      rw [← e2] at hr0; cases hr0
      simp only []
      rw [← hacc]; exact hprobes
  · have hu := hu1 (by simpa using hrc)
    rw [hu] at h3; simp at h3; obtain ⟨e1, e2⟩ := h3
    subst e1
    refine ⟨?_, fun r0 hr0 => by rw [← e2] at hr0; cases hr0⟩
    simp only [ghostStep, ← e2, Option.isSome_none, Bool.false_eq_true, if_false]
    rw [← hacc]; exact hg2

/-- the empty history fits the initial state -/
theorem ginv_init (c : Cfg) (t0 : Nat) : GInv c (init c t0) {} :=
  ⟨by simp [init, TS.count], by intro k hk; simp at hk, by intro k hk; simp at hk, by simp, by simp⟩

/-- a reported `Complete` entry carries the data of a genuine response that was really accepted
for that very probe in this round, and its send time is the probe's; an `Awaited` entry means the
probe was put on the wire and no genuine response arrived -/
theorem complete_means_answered (acc : List (Probe × SResp)) (x : Probe × SendOutcome) (cp : Complete)
    (h : expectedSlot acc x = .complete cp) :
    x.2 = .ok ∧ ∃ a ∈ acc, a.1.seq = x.1.seq ∧ cp = mkComplete a.1 a.2 := by
  obtain ⟨p, o⟩ := x
  cases o with
  | ok =>
    simp only [expectedSlot] at h
    cases hf : acc.find? (fun a => a.1.seq = p.seq) with
    | none => simp [hf] at h
    | some a =>
      simp [hf] at h
      have hm := List.mem_of_find?_eq_some hf
      have hp := List.find?_some hf
      exact ⟨rfl, a, hm, by simpa using hp, h.symm⟩
  | probeFailed => simp [expectedSlot, slotOf] at h
  | addrInUse => simp [expectedSlot, slotOf] at h
  | fatal => simp [expectedSlot, slotOf] at h

theorem awaited_means_unanswered (acc : List (Probe × SResp)) (x : Probe × SendOutcome) (p : Probe)
    (hx : x.2 ≠ .fatal) (h : expectedSlot acc x = .awaited p) :
    x = (p, .ok) ∧ ∀ a ∈ acc, a.1.seq ≠ p.seq := by
  obtain ⟨q, o⟩ := x
  cases o with
  | ok =>
    simp only [expectedSlot] at h
    cases hf : acc.find? (fun a => a.1.seq = q.seq) with
    | none =>
      simp [hf] at h; subst h
      refine ⟨rfl, fun a ha hs => ?_⟩
      have := List.find?_eq_none.mp hf a ha
      simp at this; exact this hs
    | some a => simp [hf] at h
  | probeFailed => simp [expectedSlot, slotOf] at h
  | addrInUse => simp [expectedSlot, slotOf] at h
  | fatal => exact absurd rfl hx

end TV.Props.C01

#print axioms TV.Props.C01.C01_strategy
#print axioms TV.Props.C01.ginv_init
#print axioms TV.Props.C01.complete_means_answered
#print axioms TV.Props.C01.awaited_means_unanswered
