import TrippyVerif.Lemmas.Wire
import TrippyVerif.Props.C11
/-!
# C02 — a probe's identity survives the wire: encode, quote, decode, match

"For every supported configuration and every probe the tracer can emit, if a router or the target
returns that probe quoted in any standards-conforming ICMP Time Exceeded, Destination Unreachable
or Echo Reply (any quotation length the ICMP standards allow - from IP header plus 8 octets upward
for IPv4, as much of the datagram as fits for IPv6 - with or without RFC 4884 extensions, and with
the in-transit changes routers make to TTL, header checksum and TOS) or answers the TCP handshake,
the tracer recognises it as the response to exactly that probe.  A quotation of a datagram this
tracer did not send (other destination, other ports, other protocol, missing Dublin marker) is
never accepted."

* code model: `TV.Wire.dispatch` / `TV.Wire.recvIcmp` / `TV.Wire.recvTcp` (`Model/Wire.lean`),
  `TV.Strat.validate` / `strategyResp` / `checkTraceId` (`Model/Strategy.lean`); network model:
  `TV.Quote` (`Spec/Quote.lean`): `wireDatagram` (what is on the wire; kernel-built headers are a
  modelled assumption with free octets `KernelFill`), `quote4` / `quote6` (header with TOS / total
  length / TTL / checksum resp. traffic class / hop limit rewritten + 8 + `n` octets, any `n`),
  `icmpMessage` (plain, RFC 4884 compliant, RFC 4884 legacy; any extension structure of ≥ 4 octets),
  `deliver` (any outer IPv4 header octets, any responder).
* **positive half, all cells** (symbolic in sequence, TTL, TOS, size, pattern, addresses, ports,
  quotation length, message embedding, extension parse mode, responder):
  `icmp_v4`, `udp_v4` (classic/Paris/Dublin × every port direction), `udp_v4_unprivileged`
  (classic), `tcp_v4`, `icmp_v6`, `udp_v6`, `udp_v6_unprivileged`, `tcp_v6`, `echo_reply` (both
  families), `tcp_handshake` (both families).  Each concludes
  `∃ r, recvIcmp … = ok (some r) ∧ r.addr = responder ∧ r.kind = … ∧ Accepted s (r.toStrat t) p.seq`,
  `Accepted` = `validate` ∧ trace-id check ∧ the recovered sequence is the probe's.
  The probe is any probe `emitted` by `Strat.probeData` (C11 `sequence_location`) with machine-
  valued fields (`ProbeOk`).
* side conditions that are *needed* (each stated where it applies):
  Dublin/IPv6: the sequence is inside the strategy's window and the quotation reaches the six
  marker octets (`6 ≤ n`); TCP/IPv6: the quotation contains the 20-octet TCP header (`12 ≤ n`) —
  `Ipv6::extract_tcp_packet` does not pad as the IPv4 code does.  A conforming ICMPv6 error quotes
  the whole probe (≤ 1024 octets fit the minimum MTU), so both hold for conforming routers.
  RFC 4884 bodies: `BodyOk` (extension structure ≥ 4 octets, length attribute fits its octet).
* **negative half**: `foreign_v4`, `foreign_v6` (other protocol ⇒ `ok none`; other destination or
  other fixed port ⇒ `validate = false`), `no_marker_v6`.
* message-level theorems `recv_error_v4` / `recv_error_v6`: what *any* quotation of *any* IPv4 /
  IPv6 datagram is parsed to — the single place where the receive path is unfolded.
* nothing is partial.  Not modelled: outer IPv4 options on the received ICMP message (IHL 5
  assumed in `deliver`; C04 covers arbitrary IHL for robustness), quoted IPv4 options and IPv6
  extension headers (the tracer sends none).
-/
namespace TV.Props.C02
open TV TV.Wire TV.Ext TV.Quote TV.Rfc4884 TV.Props.C11
attribute [local simp] ip4Hdr ip6Hdr l4Hdr tcpHdr

/-! ## message level: any quotation, any embedding, any parse mode -/

/-- **IPv4, message level.**  A Time Exceeded (code 0) or Destination Unreachable message —
plain, RFC 4884 compliant or legacy, extensions parsed or not — whose quotation is any
`quote4` of a datagram sent to the target is answered with the parser's verdict on the quoted
header and the first eight octets; the responder is the outer source address. -/
theorem recv_error_v4 (c : ChanCfg) (hc : c.AddrOk) (hv : c.v6 = false) (te : Bool)
    (o : Outer4) (h : IcmpHdr) (responder src : Buf) (hr : responder.length = 4) (b : Body)
    (qsrc qdst : Buf) (hqs : qsrc.length = 4) (hqd : qdst.length = 4)
    (d : Buf) (i0 i1 pr a0 a1 a2 a3 a4 a5 a6 a7 : UInt8)
    (hd : IsDatagram4 qsrc qdst d i0 i1 pr a0 a1 a2 a3 a4 a5 a6 a7) (m : Mut4) (n : Nat)
    (hb : BodyOk false (quote4 m d n) b)
    (hty : h.type = if te then tyTimeExceeded false else tyDestUnreachable false)
    (hcode : te = true → h.code = 0) :
    ∃ exts, recvIcmp c (deliver c o responder (icmpMessage false h b (quote4 m d n))) src =
      mkResp (if te then .timeExceeded 0 else .destUnreachable h.code.toNat) responder exts <$>
        parse4 c m.tos i0 i1 pr qdst a0 a1 a2 a3 a4 a5 a6 a7 := by
  obtain ⟨f0, f1, s0, s1, s2, s3, d0, d1, d2, d3, hdst, hq, hql⟩ :=
    quote4_take qsrc qdst hqs hqd d i0 i1 pr a0 a1 a2 a3 a4 a5 a6 a7 hd m n
  obtain ⟨rest, hm, hrl⟩ := icmpMessage_head false h b (quote4 m d n)
  rw [← hv] at hb hty
  obtain ⟨q', exts, hx, hp, hl⟩ := extractProbeResp_error c te h b (quote4 m d n) responder hb 28
    (by omega) hql hty hcode
  rw [hv] at hx
  refine ⟨exts, ?_⟩
  rw [recvIcmp_deliver c hc o responder _ src (by simp [hv, hr]) (by rw [hm]; simp; omega)
    (by simp [hv]), hx]
  rw [eq_append_of_take (hp.trans hq), protoResp_q4 c hc hv, hdst]
  rfl


/-- **IPv6, message level.**  `j` further octets of the payload (beyond the first eight) are
quoted and end up in front of the parser. -/
theorem recv_error_v6 (c : ChanCfg) (hc : c.AddrOk) (hv : c.v6 = true) (te : Bool)
    (o : Outer4) (h : IcmpHdr) (responder : Buf) (hr : responder.length = 16) (b : Body)
    (qsrc qdst : Buf) (hqs : qsrc.length = 16) (hqd : qdst.length = 16)
    (d : Buf) (nh a0 a1 a2 a3 a4 a5 a6 a7 : UInt8) (rest : Buf)
    (hd : IsDatagram6 qsrc qdst d nh a0 a1 a2 a3 a4 a5 a6 a7 rest) (m : Mut6) (n j : Nat)
    (hj : j ≤ n ∧ j ≤ rest.length ∧ 48 + j ≤ 128)
    (hb : BodyOk c.v6 (quote6 m d n) b)
    (hty : h.type = if te then tyTimeExceeded c.v6 else tyDestUnreachable c.v6)
    (hcode : te = true → h.code = 0) :
    ∃ exts t6, recvIcmp c (deliver c o responder (icmpMessage c.v6 h b (quote6 m d n))) responder =
        mkResp (if te then .timeExceeded 0 else .destUnreachable h.code.toNat) responder exts <$>
          parse6 c m.tc.toNat nh qdst a0 a1 a2 a3 a4 a5 a6 a7 t6 ∧
      t6.take j = rest.take j ∧ j ≤ t6.length := by
  have h16 : qsrc.length = 16 ∧ qdst.length = 16 := ⟨hqs, hqd⟩
  obtain ⟨b0, b1, b2, b3, p0, p1, hl, rfl, hpl⟩ := hd
  -- the rewritten header
  generalize hHd : ([UInt8.ofNat (96 + m.tc.toNat / 16),
    UInt8.ofNat (m.tc.toNat % 16 * 16 + b1.toNat % 16), b2, b3, p0, p1, nh, m.hops] ++ qsrc ++ qdst : Buf) = H
  have hH : H.length = 40 := by subst hHd; simp [h16.1, h16.2]
  have hg4 : H.getD 4 0 = p0 ∧ H.getD 5 0 = p1 ∧ H.getD 6 0 = nh ∧
      H.getD 0 0 = UInt8.ofNat (96 + m.tc.toNat / 16) ∧
      H.getD 1 0 = UInt8.ofNat (m.tc.toNat % 16 * 16 + b1.toNat % 16) := by
    subst hHd; simp
  have hdrop : H.drop 24 = qdst := by
    subst hHd
    rw [List.drop_append_of_le_length (by simp [h16.1]), List.drop_of_length_le (by simp [h16.1])]
    rfl
  have hQ : quote6 m ([b0, b1, b2, b3, p0, p1, nh, hl] ++ qsrc ++ qdst ++
      (a0 :: a1 :: a2 :: a3 :: a4 :: a5 :: a6 :: a7 :: rest)) n =
      H ++ (a0 :: a1 :: a2 :: a3 :: a4 :: a5 :: a6 :: a7 :: rest.take n) := by
    obtain ⟨x0, x1, x2, x3, x4, x5, x6, x7, x8, x9, x10, x11, x12, x13, x14, x15, hs⟩ := len16 _ h16.1
    obtain ⟨y0, y1, y2, y3, y4, y5, y6, y7, y8, y9, y10, y11, y12, y13, y14, y15, hdd⟩ := len16 _ h16.2
    subst hHd
    rw [hs, hdd]
    simp [quote6, mutHdr6]
  rw [hQ] at hb ⊢
  have hQl : 48 + j ≤ (H ++ (a0 :: a1 :: a2 :: a3 :: a4 :: a5 :: a6 :: a7 :: rest.take n)).length := by
    simp [hH]; omega
  obtain ⟨rest', hm, hrl⟩ := icmpMessage_head c.v6 h b
    (H ++ (a0 :: a1 :: a2 :: a3 :: a4 :: a5 :: a6 :: a7 :: rest.take n))
  obtain ⟨q', exts, hx, hp, hl'⟩ := extractProbeResp_error c te h b _ responder hb (48 + j)
    (by omega) hQl hty hcode
  -- shape of the octets in front of the parser
  have hq48 : q'.take 48 = H ++ [a0, a1, a2, a3, a4, a5, a6, a7] := by
    have := congrArg (List.take 48) hp
    rw [List.take_take, List.take_take, show min 48 (48 + j) = 48 by omega] at this
    rw [this, show (H ++ (a0 :: a1 :: a2 :: a3 :: a4 :: a5 :: a6 :: a7 :: rest.take n)) =
      (H ++ [a0, a1, a2, a3, a4, a5, a6, a7]) ++ rest.take n by simp,
      List.take_append_of_le_length (by simp [hH]), List.take_of_length_le (by simp [hH])]
  have htail : (q'.drop 48).take j = rest.take j := by
    have : (q'.drop 48).take j = ((q'.take (48 + j))).drop 48 := by
      rw [List.drop_take]; congr 1; omega
    rw [this, hp, show (H ++ (a0 :: a1 :: a2 :: a3 :: a4 :: a5 :: a6 :: a7 :: rest.take n)) =
      (H ++ [a0, a1, a2, a3, a4, a5, a6, a7]) ++ rest.take n by simp, List.drop_take,
      List.drop_append_of_le_length (by simp [hH]), List.drop_of_length_le (by simp [hH]),
      List.nil_append, List.take_take]
    congr 1; omega
  have hq' : q' = H ++ a0 :: a1 :: a2 :: a3 :: a4 :: a5 :: a6 :: a7 :: q'.drop 48 := by
    have := eq_append_of_take hq48
    simpa using this
  have hpl8 : 8 ≤ beN (H.getD 4 0) (H.getD 5 0) := by rw [hg4.1, hg4.2.1, hpl]; omega
  refine ⟨exts, tail6 H (q'.drop 48), ?_, ?_, ?_⟩
  · rw [recvIcmp_deliver c hc o responder _ responder (by simp [hv, hr]) (by rw [hm]; simp; omega)
      (fun _ => rfl), hx]
    congr 1
    rw [hq', protoResp_H6 c hv H hH _ _ _ _ _ _ _ _ _ hpl8]
    simp only [hg4.2.2.1, hg4.2.2.2.1, hg4.2.2.2.2, tc_roundtrip, hdrop]
    rw [← hq']
    rfl
  · unfold tail6
    rw [hg4.1, hg4.2.1, hpl, List.take_take, ← htail]
    congr 1
    simp only [List.length_drop]; omega
  · unfold tail6
    rw [hg4.1, hg4.2.1, hpl]
    simp only [List.length_take, List.length_drop]; omega


/-! ## strategy level -/

/-- the channel and the strategy are configured for the same trace -/
def Compat (c : ChanCfg) (s : Strat.Cfg) : Prop :=
  c.v6 = s.v6 ∧ c.proto = s.proto ∧ c.initialSeq = s.initialSeq ∧ addrNat c.dst = s.target

/-- the strategy takes the response for the probe with sequence `seq`: it passes
`Strategy::validate`, the trace-identifier check, and `StrategyResponse::from` recovers `seq` -/
def Accepted (s : Strat.Cfg) (r : Strat.Resp) (seq : Nat) : Prop :=
  Strat.validate s r = true ∧
  Strat.checkTraceId s (Strat.strategyResp s r).traceId = true ∧
  (Strat.strategyResp s r).seq = seq

theorem strategyResp_fields (s : Strat.Cfg) (r : Strat.Resp) :
    (Strat.strategyResp s r).traceId = (Strat.protoStrategyResp s r.proto).1 ∧
    (Strat.strategyResp s r).seq = (Strat.protoStrategyResp s r.proto).2.1 := by
  unfold Strat.strategyResp
  cases r.kind <;> simp

/-- ICMP: identifier = trace identifier, sequence = the probe's -/
theorem accepted_icmp (s : Strat.Cfg) (kind : Strat.RespKind) (t addr : Nat) (tos : Option Nat)
    (ext : Option Nat) (seq : Nat) :
    Accepted s { kind := kind, recv := t, addr := addr, proto := .icmp s.traceId seq tos, ext := ext }
      seq := by
  refine ⟨rfl, ?_, ?_⟩
  · rw [(strategyResp_fields s _).1]; simp [Strat.protoStrategyResp, Strat.checkTraceId]
  · rw [(strategyResp_fields s _).2]; simp [Strat.protoStrategyResp]

/-- UDP: the quoted destination is the target, the quoted ports are the probe's, and the
strategy's carrier holds the sequence -/
theorem accepted_udp (s : Strat.Cfg) (ts : Strat.TS) (ttl : Nat) (p : Strat.Probe)
    (hem : emitted s ts ttl = .ok p) (hproto : s.proto = .udp)
    (kind : Strat.RespKind) (t addr ident : Nat) (tos : Option Nat) (exp act plen : Nat)
    (magic : Bool) (ext : Option Nat)
    (hparis : s.strat = .paris → act = p.seq)
    (hdub4 : s.strat = .dublin → s.v6 = false → ident = p.seq)
    (hdub6 : s.strat = .dublin → s.v6 = true → magic = true ∧ (s.initialSeq + plen) % 65536 = p.seq) :
    Accepted s { kind := kind, recv := t, addr := addr,
                 proto := .udp ident s.target p.srcPort p.destPort tos exp act plen magic,
                 ext := ext } p.seq := by
  have hloc := sequence_location s ts ttl p hem
  obtain ⟨_, _, hcell⟩ := hloc
  rw [hproto] at hcell
  unfold Accepted
  rw [(strategyResp_fields s _).1, (strategyResp_fields s _).2]
  cases hs : s.strat <;> cases hd : s.portDir <;> simp only [hs, hd] at hcell hparis hdub4 hdub6 <;>
    cases hv : s.v6 <;>
    simp_all [Strat.validate, Strat.validatePorts, Strat.protoStrategyResp, Strat.checkTraceId]

/-- TCP: the quoted destination is the target, the quoted ports are the probe's -/
theorem accepted_tcp (s : Strat.Cfg) (ts : Strat.TS) (ttl : Nat) (p : Strat.Probe)
    (hem : emitted s ts ttl = .ok p) (hproto : s.proto = .tcp)
    (kind : Strat.RespKind) (t addr : Nat) (tos : Option Nat) (ext : Option Nat) :
    Accepted s { kind := kind, recv := t, addr := addr,
                 proto := .tcp s.target p.srcPort p.destPort tos, ext := ext } p.seq := by
  have hloc := sequence_location s ts ttl p hem
  obtain ⟨_, _, hcell⟩ := hloc
  rw [hproto] at hcell
  unfold Accepted
  rw [(strategyResp_fields s _).1, (strategyResp_fields s _).2]
  cases hs : s.strat <;> cases hd : s.portDir <;> simp only [hs, hd] at hcell <;>
    simp_all [Strat.validate, Strat.validatePorts, Strat.protoStrategyResp, Strat.checkTraceId]


/-! ## the datagram on the wire, cell by cell (IPv4) -/

theorem isDatagram4_ip4Bytes (c : ChanCfg) (pr : UInt8) (ttl ident : Nat)
    (a0 a1 a2 a3 a4 a5 a6 a7 : UInt8) (rest : Buf) :
    IsDatagram4 c.src c.dst (ip4Bytes c pr ttl ident (a0 :: a1 :: a2 :: a3 :: a4 :: a5 :: a6 :: a7 :: rest))
      (hi ident) (lo ident) pr a0 a1 a2 a3 a4 a5 a6 a7 :=
  ⟨_, _, _, _, _, _, _, _, rest, rfl⟩

/-- the ICMP probe on the wire (IPv4): identification 0, protocol 1, Echo Request with the
probe's identifier and sequence -/
theorem wire_icmp4 (c : ChanCfg) (hc : c.AddrOk) (hv : c.v6 = false) (hp : c.proto = .icmp)
    (hsz : SizeOk c) (p : Strat.Probe) (k : KernelFill) :
    ∃ d ck, wireDatagram c k p = some d ∧
      IsDatagram4 c.src c.dst d (hi 0) (lo 0) 1 8 0 (hi ck) (lo ck) (hi p.ident) (lo p.ident)
        (hi p.seq) (lo p.seq) := by
  obtain ⟨ck, _, hd⟩ := dispatch_icmp_eq c hc hp hsz p
  refine ⟨ip4Bytes c protoIcmp p.ttl 0 (echoPkt c ck p.ident p.seq (c.packetSize - l4Hdr - ipHdr c)),
    ck, ?_, ?_⟩
  · simp only [wireDatagram, hd, hv, Bool.false_eq_true, if_false, wireOfOps]
  · simp only [echoPkt, hv, Bool.false_eq_true, if_false]
    exact isDatagram4_ip4Bytes c protoIcmp p.ttl 0 _ _ _ _ _ _ _ _ _


/-- the raw UDP probe on the wire (IPv4): identification = the probe's identifier, protocol 17,
ports, and the checksum field `x0 x1` -/
theorem wire_udp4 (c : ChanCfg) (hc : c.AddrOk) (hv : c.v6 = false) (hp : c.proto = .udp)
    (hpriv : c.privileged = true) (hsz : SizeOk c) (p : Strat.Probe) (hpr : ProbeOk p)
    (k : KernelFill) :
    ∃ d l0 l1 x0 x1, wireDatagram c k p = some d ∧
      IsDatagram4 c.src c.dst d (hi p.ident) (lo p.ident) 17 (hi p.srcPort) (lo p.srcPort)
        (hi p.destPort) (lo p.destPort) l0 l1 x0 x1 ∧
      (isParis p.flags = true → beN x0 x1 = p.seq) ∧
      (isParis p.flags = false →
        calcUdpChecksum c p.srcPort p.destPort (beN l0 l1 - 8) = .ok (beN x0 x1)) := by
  obtain ⟨udp, hshape, hd⟩ := dispatch_udp_raw_eq c hc hp hpriv hsz p hpr
    (by intro _ h; rw [hv] at h; cases h)
  obtain ⟨l0, l1, x0, x1, rest, rfl, hlen, _, hpa, _, hck⟩ := hshape
  refine ⟨ip4Bytes c protoUdp p.ttl p.ident (hi p.srcPort :: lo p.srcPort :: hi p.destPort ::
    lo p.destPort :: l0 :: l1 :: x0 :: x1 :: rest), l0, l1, x0, x1, ?_, ?_, hpa, ?_⟩
  · simp only [wireDatagram, hd, hv, Bool.false_eq_true, if_false, wireOfOps]
  · exact isDatagram4_ip4Bytes c protoUdp p.ttl p.ident _ _ _ _ _ _ _ _ _
  · intro h
    have := hck h hv
    rw [hlen]; simpa using this

/-- the unprivileged UDP probe on the wire (IPv4): kernel-built headers around the payload -/
theorem wire_udp4_unprivileged (c : ChanCfg) (hv : c.v6 = false) (hp : c.proto = .udp)
    (hpriv : c.privileged = false) (hsz : SizeOk c) (p : Strat.Probe) (k : KernelFill) :
    ∃ d l0 l1, wireDatagram c k p = some d ∧
      IsDatagram4 c.src c.dst d k.id0 k.id1 17 (hi p.srcPort) (lo p.srcPort)
        (hi p.destPort) (lo p.destPort) l0 l1 k.uc0 k.uc1 := by
  have hd := udp_unprivileged c hp hpriv (by simpa [SizeOk] using hsz) p
  simp only [hv, Bool.false_eq_true, if_false] at hd
  refine ⟨kernelIp4 k c.tos.toNat p.ttl protoUdp c.src c.dst
      (8 + (List.replicate (c.packetSize - 28) c.pattern).length) ++
      kernelUdp k p.srcPort p.destPort (List.replicate (c.packetSize - 28) c.pattern),
    hi (8 + (List.replicate (c.packetSize - 28) c.pattern).length),
    lo (8 + (List.replicate (c.packetSize - 28) c.pattern).length), ?_, ?_⟩
  · simp only [wireDatagram, hd, wireOfOps]
  · exact ⟨_, _, _, _, _, _, _, _, List.replicate (c.packetSize - 28) c.pattern,
      by
        simp [kernelIp4, kernelUdp, protoUdp]; exact ⟨rfl, rfl, rfl, rfl, rfl, rfl, rfl, rfl⟩⟩

/-- the TCP SYN on the wire (IPv4); the segment has at least its 20-octet header -/
theorem wire_tcp4 (c : ChanCfg) (hv : c.v6 = false) (hp : c.proto = .tcp) (p : Strat.Probe)
    (k : KernelFill) (t0 t1 t2 t3 : UInt8) (trest : Buf) (hk : k.tcpRest = t0 :: t1 :: t2 :: t3 :: trest) :
    ∃ d, wireDatagram c k p = some d ∧
      IsDatagram4 c.src c.dst d k.id0 k.id1 6 (hi p.srcPort) (lo p.srcPort)
        (hi p.destPort) (lo p.destPort) t0 t1 t2 t3 := by
  have hd := tcp c hp p
  simp only [hv, Bool.false_eq_true, if_false] at hd
  refine ⟨kernelIp4 k c.tos.toNat p.ttl protoTcp c.src c.dst (4 + k.tcpRest.length) ++
      kernelTcp k p.srcPort p.destPort, ?_, ?_⟩
  · simp only [wireDatagram, hd, wireOfOps]
  · exact ⟨_, _, _, _, _, _, _, _, trest, by
        simp [kernelIp4, kernelTcp, protoTcp, hk]; exact ⟨rfl, rfl, rfl, rfl, rfl, rfl, rfl, rfl⟩⟩

/-! ## IPv4: every cell -/

/-- an ICMP error message as a conforming router builds it: Time Exceeded with code 0 ("TTL
exceeded in transit") or Destination Unreachable with any code; any checksum / unused octets; the
quotation embedded plainly or per RFC 4884 -/
structure ErrMsg (v6 : Bool) where
  te : Bool
  h : IcmpHdr
  b : Body
  hty : h.type = if te then tyTimeExceeded v6 else tyDestUnreachable v6
  hcode : te = true → h.code = 0

/-- the response kind the tracer must report for it -/
def ErrMsg.kind {v6 : Bool} (e : ErrMsg v6) : Strat.RespKind :=
  if e.te then .timeExceeded 0 else .destUnreachable e.h.code.toNat

theorem wire_unique {c : ChanCfg} {k : KernelFill} {p : Strat.Probe} {d d' : Buf}
    (h : wireDatagram c k p = some d) (h' : wireDatagram c k p = some d') : d = d' := by
  rw [h] at h'; injection h'

/-- **ICMP / IPv4.**  Any quotation (`quote4`: rewritten TOS / total length / TTL / checksum, IP
header + 8 + `n` octets) of the Echo Request the tracer sent, in a Time Exceeded or Destination
Unreachable message of any embedding, from any responder, is decoded to a response from that
responder which the strategy accepts for exactly the probe's sequence. -/
theorem icmp_v4 (c : ChanCfg) (s : Strat.Cfg) (hcs : Compat c s) (hc : c.AddrOk) (hv : c.v6 = false)
    (hp : c.proto = .icmp) (hsz : SizeOk c) (ts : Strat.TS) (ttl : Nat) (p : Strat.Probe)
    (hem : emitted s ts ttl = .ok p) (hpr : ProbeOk p) (k : KernelFill) (d : Buf)
    (hd : wireDatagram c k p = some d) (e : ErrMsg false) (o : Outer4) (responder src : Buf)
    (hr : responder.length = 4) (m : Mut4) (n : Nat) (hb : BodyOk false (quote4 m d n) e.b)
    (t : Nat) :
    ∃ r, recvIcmp c (deliver c o responder (icmpMessage false e.h e.b (quote4 m d n))) src =
        .ok (some r) ∧
      r.addr = responder ∧ r.kind = e.kind ∧ Accepted s (r.toStrat t) p.seq := by
  obtain ⟨d', ck, hd', hD⟩ := wire_icmp4 c hc hv hp hsz p k
  have := wire_unique hd hd'; subst this
  have h4 := addr4 c hc hv
  obtain ⟨exts, hx⟩ := recv_error_v4 c hc hv e.te o e.h responder src hr e.b c.src c.dst h4.1 h4.2
    d _ _ _ _ _ _ _ _ _ _ _ hD m n hb e.hty e.hcode
  obtain ⟨hsq, hid, _, _, _⟩ := hpr
  have hloc := (sequence_location s ts ttl p hem).2.2
  rw [← hcs.2.1, hp] at hloc
  simp only at hloc
  rw [hx]
  simp only [parse4, hp, if_true, hi_lo _ hid, hi_lo _ hsq, R.map_ok, mkResp, Option.map_some]
  refine ⟨_, rfl, rfl, rfl, ?_⟩
  simp only [WResp.toStrat, hloc.1]
  exact accepted_icmp s _ _ _ _ _ _


/-- which flags and identifier the UDP cells carry -/
theorem emitted_udp_facts (s : Strat.Cfg) (ts : Strat.TS) (ttl : Nat) (p : Strat.Probe)
    (hem : emitted s ts ttl = .ok p) (hproto : s.proto = .udp) :
    (s.strat = .paris → isParis p.flags = true) ∧
    (s.strat = .dublin → p.ident = p.seq ∧ isParis p.flags = false ∧ isDublin p.flags = true) ∧
    (s.strat = .classic → isParis p.flags = false ∧ isDublin p.flags = false) := by
  have hloc := (sequence_location s ts ttl p hem).2.2
  rw [hproto] at hloc
  cases hs : s.strat <;> cases hd : s.portDir <;> simp only [hs, hd] at hloc <;> simp_all

/-- **UDP / IPv4 / raw socket** (classic, Paris, Dublin; every port direction).  As `icmp_v4`. -/
theorem udp_v4 (c : ChanCfg) (s : Strat.Cfg) (hcs : Compat c s) (hc : c.AddrOk) (hv : c.v6 = false)
    (hp : c.proto = .udp) (hpriv : c.privileged = true) (hsz : SizeOk c) (ts : Strat.TS)
    (ttl : Nat) (p : Strat.Probe)
    (hem : emitted s ts ttl = .ok p) (hpr : ProbeOk p) (k : KernelFill) (d : Buf)
    (hd : wireDatagram c k p = some d) (e : ErrMsg false) (o : Outer4) (responder src : Buf)
    (hr : responder.length = 4) (m : Mut4) (n : Nat) (hb : BodyOk false (quote4 m d n) e.b)
    (t : Nat) :
    ∃ r, recvIcmp c (deliver c o responder (icmpMessage false e.h e.b (quote4 m d n))) src =
        .ok (some r) ∧
      r.addr = responder ∧ r.kind = e.kind ∧ Accepted s (r.toStrat t) p.seq := by
  obtain ⟨d', l0, l1, x0, x1, hd', hD, hpa, _⟩ := wire_udp4 c hc hv hp hpriv hsz p hpr k
  have := wire_unique hd hd'; subst this
  have h4 := addr4 c hc hv
  obtain ⟨exts, hx⟩ := recv_error_v4 c hc hv e.te o e.h responder src hr e.b c.src c.dst h4.1 h4.2
    d _ _ _ _ _ _ _ _ _ _ _ hD m n hb e.hty e.hcode
  obtain ⟨hsq, hid, hsp, hdp, _⟩ := hpr
  have hproto : s.proto = .udp := by rw [← hcs.2.1, hp]
  obtain ⟨fparis, fdublin, _⟩ := emitted_udp_facts s ts ttl p hem hproto
  obtain ⟨ex, _, hex⟩ := calcUdpChecksum_ok c hc p.srcPort p.destPort (beN l0 l1 - 8)
  rw [hx]
  simp only [parse4, hp, if_true, hi_lo _ hid, hi_lo _ hsp, hi_lo _ hdp, hex, R.map_ok, mkResp,
    Option.map_some]
  refine ⟨_, rfl, rfl, rfl, ?_⟩
  simp only [WResp.toStrat, hcs.2.2.2]
  apply accepted_udp s ts ttl p hem hproto
  · intro h; exact hpa (fparis h)
  · intro h _; exact (fdublin h).1
  · intro _ h; rw [← hcs.1, hv] at h; cases h

/-- **UDP / IPv4 / unprivileged** (classic; the kernel builds the IP and UDP headers): the
sequence travels in the variable port. -/
theorem udp_v4_unprivileged (c : ChanCfg) (s : Strat.Cfg) (hcs : Compat c s) (hc : c.AddrOk)
    (hv : c.v6 = false) (hp : c.proto = .udp) (hpriv : c.privileged = false) (hsz : SizeOk c)
    (hcl : s.strat = .classic) (ts : Strat.TS) (ttl : Nat) (p : Strat.Probe)
    (hem : emitted s ts ttl = .ok p) (hpr : ProbeOk p) (k : KernelFill) (d : Buf)
    (hd : wireDatagram c k p = some d) (e : ErrMsg false) (o : Outer4) (responder src : Buf)
    (hr : responder.length = 4) (m : Mut4) (n : Nat) (hb : BodyOk false (quote4 m d n) e.b)
    (t : Nat) :
    ∃ r, recvIcmp c (deliver c o responder (icmpMessage false e.h e.b (quote4 m d n))) src =
        .ok (some r) ∧
      r.addr = responder ∧ r.kind = e.kind ∧ Accepted s (r.toStrat t) p.seq := by
  obtain ⟨d', l0, l1, hd', hD⟩ := wire_udp4_unprivileged c hv hp hpriv hsz p k
  have := wire_unique hd hd'; subst this
  have h4 := addr4 c hc hv
  obtain ⟨exts, hx⟩ := recv_error_v4 c hc hv e.te o e.h responder src hr e.b c.src c.dst h4.1 h4.2
    d _ _ _ _ _ _ _ _ _ _ _ hD m n hb e.hty e.hcode
  obtain ⟨hsq, hid, hsp, hdp, _⟩ := hpr
  have hproto : s.proto = .udp := by rw [← hcs.2.1, hp]
  obtain ⟨ex, _, hex⟩ := calcUdpChecksum_ok c hc p.srcPort p.destPort (beN l0 l1 - 8)
  rw [hx]
  simp only [parse4, hp, if_true, hi_lo _ hsp, hi_lo _ hdp, hex, R.map_ok, mkResp,
    Option.map_some]
  refine ⟨_, rfl, rfl, rfl, ?_⟩
  simp only [WResp.toStrat, hcs.2.2.2]
  apply accepted_udp s ts ttl p hem hproto
  · intro h; rw [hcl] at h; cases h
  · intro h; rw [hcl] at h; cases h
  · intro h; rw [hcl] at h; cases h

/-- **TCP / IPv4**: a quotation of the SYN the kernel sent for the probe. -/
theorem tcp_v4 (c : ChanCfg) (s : Strat.Cfg) (hcs : Compat c s) (hc : c.AddrOk)
    (hv : c.v6 = false) (hp : c.proto = .tcp) (ts : Strat.TS) (ttl : Nat) (p : Strat.Probe)
    (hem : emitted s ts ttl = .ok p) (hpr : ProbeOk p) (k : KernelFill)
    (hk : 16 ≤ k.tcpRest.length) (d : Buf)
    (hd : wireDatagram c k p = some d) (e : ErrMsg false) (o : Outer4) (responder src : Buf)
    (hr : responder.length = 4) (m : Mut4) (n : Nat) (hb : BodyOk false (quote4 m d n) e.b)
    (t : Nat) :
    ∃ r, recvIcmp c (deliver c o responder (icmpMessage false e.h e.b (quote4 m d n))) src =
        .ok (some r) ∧
      r.addr = responder ∧ r.kind = e.kind ∧ Accepted s (r.toStrat t) p.seq := by
  obtain ⟨t0, t1, t2, t3, trest, hk'⟩ : ∃ t0 t1 t2 t3 trest, k.tcpRest = t0 :: t1 :: t2 :: t3 :: trest := by
    match h : k.tcpRest, hk with
    | t0 :: t1 :: t2 :: t3 :: trest, _ => exact ⟨t0, t1, t2, t3, trest, rfl⟩
  obtain ⟨d', hd', hD⟩ := wire_tcp4 c hv hp p k t0 t1 t2 t3 trest hk'
  have := wire_unique hd hd'; subst this
  have h4 := addr4 c hc hv
  obtain ⟨exts, hx⟩ := recv_error_v4 c hc hv e.te o e.h responder src hr e.b c.src c.dst h4.1 h4.2
    d _ _ _ _ _ _ _ _ _ _ _ hD m n hb e.hty e.hcode
  obtain ⟨hsq, hid, hsp, hdp, _⟩ := hpr
  have hproto : s.proto = .tcp := by rw [← hcs.2.1, hp]
  rw [hx]
  simp only [parse4, hp, if_true, hi_lo _ hsp, hi_lo _ hdp, R.map_ok, mkResp, Option.map_some]
  refine ⟨_, rfl, rfl, rfl, ?_⟩
  simp only [WResp.toStrat, hcs.2.2.2]
  exact accepted_tcp s ts ttl p hem hproto _ _ _ _ _

/-! ## IPv6: every cell -/

theorem addr6 (c : ChanCfg) (hc : c.AddrOk) (hv : c.v6 = true) :
    c.src.length = 16 ∧ c.dst.length = 16 := by simpa [ChanCfg.AddrOk, hv] using hc

theorem isDatagram6_kernel (c : ChanCfg) (k : KernelFill) (hops : Nat) (nh : UInt8)
    (a0 a1 a2 a3 a4 a5 a6 a7 : UInt8) (rest : Buf) (l4len : Nat) (hl : l4len = 8 + rest.length)
    (hl' : 8 + rest.length < 65536) :
    IsDatagram6 c.src c.dst
      (kernelIp6 k hops nh c.src c.dst l4len ++
        (a0 :: a1 :: a2 :: a3 :: a4 :: a5 :: a6 :: a7 :: rest))
      nh a0 a1 a2 a3 a4 a5 a6 a7 rest := by
  refine ⟨_, _, _, _, _, _, _, rfl, ?_⟩
  rw [hl]; exact hi_lo _ hl'

/-- the ICMP probe on the wire (IPv6) -/
theorem wire_icmp6 (c : ChanCfg) (hc : c.AddrOk) (hv : c.v6 = true) (hp : c.proto = .icmp)
    (hsz : SizeOk c) (p : Strat.Probe) (k : KernelFill) :
    ∃ d ck rest, wireDatagram c k p = some d ∧
      IsDatagram6 c.src c.dst d 58 128 0 (hi ck) (lo ck) (hi p.ident) (lo p.ident)
        (hi p.seq) (lo p.seq) rest := by
  obtain ⟨ck, _, hd⟩ := dispatch_icmp_eq c hc hp hsz p
  have hn : c.packetSize - l4Hdr - ipHdr c ≤ 1024 := by
    have := hsz.2; omega
  refine ⟨_, ck, List.replicate (c.packetSize - l4Hdr - ipHdr c) c.pattern, ?_,
    isDatagram6_kernel c k p.ttl 58 128 0 (hi ck) (lo ck) (hi p.ident) (lo p.ident) (hi p.seq)
      (lo p.seq) _
      (128 :: 0 :: hi ck :: lo ck :: hi p.ident :: lo p.ident :: hi p.seq :: lo p.seq ::
        List.replicate (c.packetSize - l4Hdr - ipHdr c) c.pattern).length
      (by simp only [List.length_cons]; omega)
      (by simp only [List.length_replicate]; omega)⟩
  simp only [wireDatagram, hd, hv, if_true, wireOfOps, hp, echoPkt, protoIcmpV6]

/-- the raw UDP probe on the wire (IPv6) -/
theorem wire_udp6 (c : ChanCfg) (hc : c.AddrOk) (hv : c.v6 = true) (hp : c.proto = .udp)
    (hpriv : c.privileged = true) (hsz : SizeOk c) (p : Strat.Probe) (hpr : ProbeOk p)
    (hwin : isParis p.flags = false → isDublin p.flags = true →
      c.initialSeq ≤ p.seq ∧ p.seq - c.initialSeq ≤ 970) (k : KernelFill) :
    ∃ d l0 l1 x0 x1 rest, wireDatagram c k p = some d ∧
      IsDatagram6 c.src c.dst d 17 (hi p.srcPort) (lo p.srcPort) (hi p.destPort) (lo p.destPort)
        l0 l1 x0 x1 rest ∧
      beN l0 l1 = 8 + rest.length ∧
      (isParis p.flags = true → beN x0 x1 = p.seq) ∧
      (isParis p.flags = false → isDublin p.flags = true →
        rest = Consts.net6_MAGIC ++ List.replicate (p.seq - c.initialSeq) c.pattern) := by
  obtain ⟨udp, hshape, hd⟩ := dispatch_udp_raw_eq c hc hp hpriv hsz p hpr
    (fun h1 _ h3 => hwin h1 h3)
  obtain ⟨l0, l1, x0, x1, rest, rfl, hlen, hfit, hpa, hdub, _⟩ := hshape
  refine ⟨_, l0, l1, x0, x1, rest, ?_,
    isDatagram6_kernel c k p.ttl 17 _ _ _ _ l0 l1 x0 x1 rest
      (hi p.srcPort :: lo p.srcPort :: hi p.destPort :: lo p.destPort :: l0 :: l1 :: x0 :: x1 ::
        rest).length
      (by simp only [List.length_cons]; omega) (by omega), hlen, hpa,
    fun h1 h2 => hdub h1 hv h2⟩
  simp only [wireDatagram, hd, hv, if_true, wireOfOps, hp, protoUdp]

/-- the unprivileged UDP probe on the wire (IPv6) -/
theorem wire_udp6_unprivileged (c : ChanCfg) (hv : c.v6 = true) (hp : c.proto = .udp)
    (hpriv : c.privileged = false) (hsz : SizeOk c) (p : Strat.Probe) (k : KernelFill) :
    ∃ d l0 l1 rest, wireDatagram c k p = some d ∧
      IsDatagram6 c.src c.dst d 17 (hi p.srcPort) (lo p.srcPort) (hi p.destPort) (lo p.destPort)
        l0 l1 k.uc0 k.uc1 rest := by
  have hd := udp_unprivileged c hp hpriv (by simpa [SizeOk] using hsz) p
  simp only [hv, if_true] at hd
  have hn : c.packetSize - 48 ≤ 1024 := by have := hsz.2; omega
  refine ⟨_, _, _, List.replicate (c.packetSize - 48) c.pattern, ?_,
    isDatagram6_kernel c k p.ttl 17 (hi p.srcPort) (lo p.srcPort) (hi p.destPort) (lo p.destPort)
      (hi (8 + (List.replicate (c.packetSize - 48) c.pattern).length))
      (lo (8 + (List.replicate (c.packetSize - 48) c.pattern).length)) k.uc0 k.uc1 _ _ rfl
      (by simp only [List.length_replicate]; omega)⟩
  simp only [wireDatagram, hd, wireOfOps, kernelUdp, protoUdp, List.cons_append, List.nil_append]

/-- the TCP SYN on the wire (IPv6) -/
theorem wire_tcp6 (c : ChanCfg) (hv : c.v6 = true) (hp : c.proto = .tcp) (p : Strat.Probe)
    (k : KernelFill) (t0 t1 t2 t3 : UInt8) (trest : Buf)
    (hk : k.tcpRest = t0 :: t1 :: t2 :: t3 :: trest) (hl : trest.length < 60000) :
    ∃ d, wireDatagram c k p = some d ∧
      IsDatagram6 c.src c.dst d 6 (hi p.srcPort) (lo p.srcPort) (hi p.destPort) (lo p.destPort)
        t0 t1 t2 t3 trest := by
  have hd := tcp c hp p
  simp only [hv, if_true] at hd
  refine ⟨_, ?_, isDatagram6_kernel c k p.ttl 6 (hi p.srcPort) (lo p.srcPort) (hi p.destPort)
    (lo p.destPort) t0 t1 t2 t3 trest (4 + k.tcpRest.length)
    (by rw [hk]; simp only [List.length_cons]; omega) (by omega)⟩
  simp only [wireDatagram, hd, wireOfOps, kernelTcp, protoTcp, List.cons_append, List.nil_append]
  rw [hk]

theorem isPrefixOf_of_take (m t : Buf) (h : t.take m.length = m) : m.isPrefixOf t = true := by
  rw [List.isPrefixOf_iff_prefix, List.prefix_iff_eq_take]; exact h.symm

/-- **ICMP / IPv6.**  Any quotation (`quote6`: rewritten traffic class / hop limit, IPv6 header +
8 + `n` octets) of the Echo Request, in any Time Exceeded / Destination Unreachable message. -/
theorem icmp_v6 (c : ChanCfg) (s : Strat.Cfg) (hcs : Compat c s) (hc : c.AddrOk) (hv : c.v6 = true)
    (hp : c.proto = .icmp) (hsz : SizeOk c) (ts : Strat.TS) (ttl : Nat) (p : Strat.Probe)
    (hem : emitted s ts ttl = .ok p) (hpr : ProbeOk p) (k : KernelFill) (d : Buf)
    (hd : wireDatagram c k p = some d) (e : ErrMsg c.v6) (o : Outer4) (responder : Buf)
    (hr : responder.length = 16) (m : Mut6) (n : Nat) (hb : BodyOk c.v6 (quote6 m d n) e.b)
    (t : Nat) :
    ∃ r, recvIcmp c (deliver c o responder (icmpMessage c.v6 e.h e.b (quote6 m d n))) responder =
        .ok (some r) ∧
      r.addr = responder ∧ r.kind = e.kind ∧ Accepted s (r.toStrat t) p.seq := by
  obtain ⟨d', ck, rest, hd', hD⟩ := wire_icmp6 c hc hv hp hsz p k
  have := wire_unique hd hd'; subst this
  have h6 := addr6 c hc hv
  obtain ⟨exts, t6, hx, _, _⟩ := recv_error_v6 c hc hv e.te o e.h responder hr e.b c.src c.dst
    h6.1 h6.2 d _ _ _ _ _ _ _ _ _ rest hD m n 0 (by omega) hb e.hty e.hcode
  obtain ⟨hsq, hid, _, _, _⟩ := hpr
  have hloc := (sequence_location s ts ttl p hem).2.2
  rw [← hcs.2.1, hp] at hloc
  simp only at hloc
  rw [hx]
  simp only [parse6, hp, if_true, hi_lo _ hid, hi_lo _ hsq, R.map_ok, mkResp, Option.map_some]
  refine ⟨_, rfl, rfl, rfl, ?_⟩
  simp only [WResp.toStrat, hloc.1]
  exact accepted_icmp s _ _ _ _ _ _

/-- **UDP / IPv6 / raw socket** (classic, Paris, Dublin).  For Dublin the quotation must reach
the six marker octets (`6 ≤ n`; a conforming ICMPv6 error quotes the whole probe) and the sequence
lies in the strategy's window. -/
theorem udp_v6 (c : ChanCfg) (s : Strat.Cfg) (hcs : Compat c s) (hc : c.AddrOk) (hv : c.v6 = true)
    (hp : c.proto = .udp) (hpriv : c.privileged = true) (hsz : SizeOk c) (ts : Strat.TS)
    (ttl : Nat) (p : Strat.Probe)
    (hem : emitted s ts ttl = .ok p) (hpr : ProbeOk p)
    (hwin : s.strat = .dublin → c.initialSeq ≤ p.seq ∧ p.seq - c.initialSeq ≤ 970)
    (k : KernelFill) (d : Buf)
    (hd : wireDatagram c k p = some d) (e : ErrMsg c.v6) (o : Outer4) (responder : Buf)
    (hr : responder.length = 16) (m : Mut6) (n : Nat) (hn : s.strat = .dublin → 6 ≤ n)
    (hb : BodyOk c.v6 (quote6 m d n) e.b) (t : Nat) :
    ∃ r, recvIcmp c (deliver c o responder (icmpMessage c.v6 e.h e.b (quote6 m d n))) responder =
        .ok (some r) ∧
      r.addr = responder ∧ r.kind = e.kind ∧ Accepted s (r.toStrat t) p.seq := by
  have hproto : s.proto = .udp := by rw [← hcs.2.1, hp]
  obtain ⟨fparis, fdublin, fclassic⟩ := emitted_udp_facts s ts ttl p hem hproto
  have hwin' : isParis p.flags = false → isDublin p.flags = true →
      c.initialSeq ≤ p.seq ∧ p.seq - c.initialSeq ≤ 970 := by
    intro h1 h2
    cases hs : s.strat
    · have := (fclassic hs).2; rw [h2] at this; cases this
    · have := fparis hs; rw [h1] at this; cases this
    · exact hwin hs
  obtain ⟨d', l0, l1, x0, x1, rest, hd', hD, hlen, hpa, hdub⟩ :=
    wire_udp6 c hc hv hp hpriv hsz p hpr hwin' k
  have := wire_unique hd hd'; subst this
  have h6 := addr6 c hc hv
  obtain ⟨hsq, hid, hsp, hdp, _⟩ := hpr
  by_cases hs : s.strat = .dublin
  · -- Dublin: the marker is in front of the parser
    obtain ⟨hident, hf1, hf2⟩ := fdublin hs
    have hrest := hdub hf1 hf2
    obtain ⟨hw1, hw2⟩ := hwin hs
    have hml : Consts.net6_MAGIC.length = 6 := by decide
    have hrl : rest.length = 6 + (p.seq - c.initialSeq) := by rw [hrest]; simp [hml]
    obtain ⟨exts, t6, hx, ht6, _⟩ := recv_error_v6 c hc hv e.te o e.h responder hr e.b c.src c.dst
      h6.1 h6.2 d _ _ _ _ _ _ _ _ _ rest hD m n 6 ⟨hn hs, by omega, by omega⟩ hb e.hty e.hcode
    have hmagic : Consts.net6_MAGIC.isPrefixOf t6 = true := by
      apply isPrefixOf_of_take
      rw [hml, ht6, hrest, List.take_append_of_le_length (by rw [hml]; omega),
        List.take_of_length_le (by rw [hml]; omega)]
    rw [hx]
    simp only [parse6, hp, if_true, hi_lo _ hsp, hi_lo _ hdp, hmagic, R.map_ok, mkResp,
      Option.map_some]
    refine ⟨_, rfl, rfl, rfl, ?_⟩
    simp only [WResp.toStrat, hcs.2.2.2]
    apply accepted_udp s ts ttl p hem hproto
    · intro h; rw [hs] at h; cases h
    · intro _ h; rw [← hcs.1, hv] at h; cases h
    · intro _ _
      refine ⟨rfl, ?_⟩
      rw [← hcs.2.2.1, hlen, hrl]
      have : c.initialSeq + (8 + (6 + (p.seq - c.initialSeq)) - 8 - 6) = p.seq := by omega
      rw [this]; omega
  · obtain ⟨exts, t6, hx, _, _⟩ := recv_error_v6 c hc hv e.te o e.h responder hr e.b c.src c.dst
      h6.1 h6.2 d _ _ _ _ _ _ _ _ _ rest hD m n 0 (by omega) hb e.hty e.hcode
    rw [hx]
    simp only [parse6, hp, if_true, hi_lo _ hsp, hi_lo _ hdp, R.map_ok, mkResp, Option.map_some]
    refine ⟨_, rfl, rfl, rfl, ?_⟩
    simp only [WResp.toStrat, hcs.2.2.2]
    apply accepted_udp s ts ttl p hem hproto
    · intro h; exact hpa (fparis h)
    · intro h; exact absurd h hs
    · intro h; exact absurd h hs

/-- **UDP / IPv6 / unprivileged** (classic). -/
theorem udp_v6_unprivileged (c : ChanCfg) (s : Strat.Cfg) (hcs : Compat c s) (hc : c.AddrOk)
    (hv : c.v6 = true) (hp : c.proto = .udp) (hpriv : c.privileged = false) (hsz : SizeOk c)
    (hcl : s.strat = .classic) (ts : Strat.TS) (ttl : Nat) (p : Strat.Probe)
    (hem : emitted s ts ttl = .ok p) (hpr : ProbeOk p) (k : KernelFill) (d : Buf)
    (hd : wireDatagram c k p = some d) (e : ErrMsg c.v6) (o : Outer4) (responder : Buf)
    (hr : responder.length = 16) (m : Mut6) (n : Nat) (hb : BodyOk c.v6 (quote6 m d n) e.b)
    (t : Nat) :
    ∃ r, recvIcmp c (deliver c o responder (icmpMessage c.v6 e.h e.b (quote6 m d n))) responder =
        .ok (some r) ∧
      r.addr = responder ∧ r.kind = e.kind ∧ Accepted s (r.toStrat t) p.seq := by
  obtain ⟨d', l0, l1, rest, hd', hD⟩ := wire_udp6_unprivileged c hv hp hpriv hsz p k
  have := wire_unique hd hd'; subst this
  have h6 := addr6 c hc hv
  obtain ⟨exts, t6, hx, _, _⟩ := recv_error_v6 c hc hv e.te o e.h responder hr e.b c.src c.dst
    h6.1 h6.2 d _ _ _ _ _ _ _ _ _ rest hD m n 0 (by omega) hb e.hty e.hcode
  obtain ⟨hsq, hid, hsp, hdp, _⟩ := hpr
  have hproto : s.proto = .udp := by rw [← hcs.2.1, hp]
  rw [hx]
  simp only [parse6, hp, if_true, hi_lo _ hsp, hi_lo _ hdp, R.map_ok, mkResp, Option.map_some]
  refine ⟨_, rfl, rfl, rfl, ?_⟩
  simp only [WResp.toStrat, hcs.2.2.2]
  apply accepted_udp s ts ttl p hem hproto
  · intro h; rw [hcl] at h; cases h
  · intro h; rw [hcl] at h; cases h
  · intro h; rw [hcl] at h; cases h

/-- **TCP / IPv6**: the quotation must contain the 20-octet TCP header (`12 ≤ n`;
`Ipv6::extract_tcp_packet` does not pad a short quotation as the IPv4 code does — a conforming
ICMPv6 error quotes the whole SYN). -/
theorem tcp_v6 (c : ChanCfg) (s : Strat.Cfg) (hcs : Compat c s) (hc : c.AddrOk)
    (hv : c.v6 = true) (hp : c.proto = .tcp) (ts : Strat.TS) (ttl : Nat) (p : Strat.Probe)
    (hem : emitted s ts ttl = .ok p) (hpr : ProbeOk p) (k : KernelFill)
    (hk : 16 ≤ k.tcpRest.length ∧ k.tcpRest.length ≤ 60) (d : Buf)
    (hd : wireDatagram c k p = some d) (e : ErrMsg c.v6) (o : Outer4) (responder : Buf)
    (hr : responder.length = 16) (m : Mut6) (n : Nat) (hn : 12 ≤ n)
    (hb : BodyOk c.v6 (quote6 m d n) e.b) (t : Nat) :
    ∃ r, recvIcmp c (deliver c o responder (icmpMessage c.v6 e.h e.b (quote6 m d n))) responder =
        .ok (some r) ∧
      r.addr = responder ∧ r.kind = e.kind ∧ Accepted s (r.toStrat t) p.seq := by
  obtain ⟨t0, t1, t2, t3, trest, hk'⟩ : ∃ t0 t1 t2 t3 trest, k.tcpRest = t0 :: t1 :: t2 :: t3 :: trest := by
    match h : k.tcpRest, hk.1 with
    | t0 :: t1 :: t2 :: t3 :: trest, _ => exact ⟨t0, t1, t2, t3, trest, rfl⟩
  have htl : 12 ≤ trest.length ∧ trest.length < 60000 := by
    have := hk; rw [hk'] at this; simp only [List.length_cons] at this; omega
  obtain ⟨d', hd', hD⟩ := wire_tcp6 c hv hp p k t0 t1 t2 t3 trest hk' htl.2
  have := wire_unique hd hd'; subst this
  have h6 := addr6 c hc hv
  obtain ⟨exts, t6, hx, _, ht6⟩ := recv_error_v6 c hc hv e.te o e.h responder hr e.b c.src c.dst
    h6.1 h6.2 d _ _ _ _ _ _ _ _ _ trest hD m n 12 ⟨hn, htl.1, by omega⟩ hb e.hty e.hcode
  obtain ⟨hsq, hid, hsp, hdp, _⟩ := hpr
  have hproto : s.proto = .tcp := by rw [← hcs.2.1, hp]
  rw [hx]
  simp only [parse6, hp, if_true, if_neg (show ¬ t6.length < 12 by omega), hi_lo _ hsp, hi_lo _ hdp,
    R.map_ok, mkResp, Option.map_some]
  refine ⟨_, rfl, rfl, rfl, ?_⟩
  simp only [WResp.toStrat, hcs.2.2.2]
  exact accepted_tcp s ts ttl p hem hproto _ _ _ _ _

/-! ## the target's own answers: Echo Reply, TCP handshake -/

/-- **Echo Reply** (both families): the target echoes identifier, sequence and data of the Echo
Request; any checksum, any responder. -/
theorem echo_reply (c : ChanCfg) (s : Strat.Cfg) (hcs : Compat c s) (hc : c.AddrOk)
    (hp : c.proto = .icmp) (ts : Strat.TS) (ttl : Nat) (p : Strat.Probe)
    (hem : emitted s ts ttl = .ok p) (hpr : ProbeOk p) (ck n : Nat) (o : Outer4) (ck0 ck1 : UInt8)
    (responder src : Buf) (hr : responder.length = if c.v6 then 16 else 4)
    (hsrc : c.v6 = true → src = responder) (t : Nat) :
    ∃ r, recvIcmp c (echoReply c o ck0 ck1 responder (echoPkt c ck p.ident p.seq n)) src =
        .ok (some r) ∧
      r.addr = responder ∧ r.kind = .echoReply 0 ∧ Accepted s (r.toStrat t) p.seq := by
  obtain ⟨hsq, hid, _, _, _⟩ := hpr
  have hloc := (sequence_location s ts ttl p hem).2.2
  rw [← hcs.2.1, hp] at hloc
  simp only at hloc
  have hmsg : [tyEchoReply c.v6, 0, ck0, ck1] ++ (echoPkt c ck p.ident p.seq n).drop 4 =
      tyEchoReply c.v6 :: 0 :: ck0 :: ck1 :: hi p.ident :: lo p.ident :: hi p.seq :: lo p.seq ::
        List.replicate n c.pattern := by
    simp [echoPkt]
  unfold echoReply
  rw [hmsg, recvIcmp_deliver c hc o responder _ src hr (by simp only [List.length_cons]; omega) hsrc]
  have hne : tyEchoReply c.v6 ≠ tyTimeExceeded c.v6 ∧ tyEchoReply c.v6 ≠ tyDestUnreachable c.v6 := by
    unfold tyEchoReply tyTimeExceeded tyDestUnreachable; cases c.v6 <;> decide
  refine ⟨{ kind := .echoReply 0, addr := responder, proto := .icmp p.ident p.seq none, exts := none },
    ?_, rfl, rfl, ?_⟩
  · unfold extractProbeResp
    simp [rd, rd16, hne.1, hne.2, hp, hi_lo _ hid, hi_lo _ hsq]
  · simp only [WResp.toStrat, hloc.1]
    exact accepted_icmp s _ _ _ _ _ _

/-- **TCP handshake**: whatever the connection attempt of a probe's socket ends in — connected,
refused, or an ICMP error reported by the socket — the response carries the probe's ports and is
accepted for the probe's sequence. -/
theorem tcp_handshake (c : ChanCfg) (s : Strat.Cfg) (hcs : Compat c s) (hp : c.proto = .tcp)
    (ts : Strat.TS) (ttl : Nat) (p : Strat.Probe) (hem : emitted s ts ttl = .ok p)
    (sock : TcpSock) (hsock : sock ≠ .connected none ∧ sock ≠ .other) (t : Nat) :
    ∃ r, recvTcp c p.srcPort p.destPort sock = .ok (some r) ∧ Accepted s (r.toStrat t) p.seq ∧
      (r.kind = match sock with
        | .connected _ => .tcpReply | .refused => .tcpRefused | _ => .timeExceeded 1) := by
  have hproto : s.proto = .tcp := by rw [← hcs.2.1, hp]
  cases sock with
  | connected peer =>
    cases peer with
    | none => exact absurd rfl hsock.1
    | some a =>
      refine ⟨_, rfl, ?_, rfl⟩
      simp only [WResp.toStrat, hcs.2.2.2]
      exact accepted_tcp s ts ttl p hem hproto _ _ _ _ _
  | refused =>
    refine ⟨_, rfl, ?_, rfl⟩
    simp only [WResp.toStrat, hcs.2.2.2]
    exact accepted_tcp s ts ttl p hem hproto _ _ _ _ _
  | hostUnreachable a =>
    refine ⟨_, rfl, ?_, rfl⟩
    simp only [WResp.toStrat, hcs.2.2.2]
    exact accepted_tcp s ts ttl p hem hproto _ _ _ _ _
  | other => exact absurd rfl hsock.2

/-! ## negative half: quotations of datagrams this tracer did not send -/

theorem foldl_addr_inj : ∀ (l1 l2 : Buf), l1.length = l2.length → ∀ a1 a2 : Nat,
    l1.foldl (fun acc x => acc * 256 + x.toNat) a1 = l2.foldl (fun acc x => acc * 256 + x.toNat) a2 →
    a1 = a2 ∧ l1 = l2 := by
  intro l1
  induction l1 with
  | nil =>
    intro l2 hl a1 a2 h
    cases l2 with
    | nil => exact ⟨h, rfl⟩
    | cons y ys => simp at hl
  | cons x xs ih =>
    intro l2 hl a1 a2 h
    cases l2 with
    | nil => simp at hl
    | cons y ys =>
      simp only [List.length_cons, Nat.add_right_cancel_iff] at hl
      simp only [List.foldl_cons] at h
      obtain ⟨h1, h2⟩ := ih ys hl _ _ h
      have hx := UInt8.toNat_lt x
      have hy := UInt8.toNat_lt y
      have hxy : x.toNat = y.toNat := by omega
      refine ⟨by omega, ?_⟩
      rw [h2, UInt8.toNat_inj.mp hxy]

/-- addresses of the same family are told apart by their number -/
theorem addrNat_inj (a b : Buf) (hl : a.length = b.length) (h : addrNat a = addrNat b) : a = b :=
  (foldl_addr_inj a b hl 0 0 h).2

/-- the IP protocol number of the configured protocol -/
def protoNum (c : ChanCfg) : UInt8 :=
  match c.proto with
  | .icmp => if c.v6 then 58 else 1
  | .udp => 17
  | .tcp => 6

/-- what makes a quoted UDP / TCP datagram foreign: another destination or another fixed port -/
def Foreign (c : ChanCfg) (s : Strat.Cfg) (qdst : Buf) (sp dp : Nat) : Prop :=
  qdst ≠ c.dst ∨ Strat.validatePorts s.portDir sp dp = false

/-- **IPv4, negative.**  A quotation of *any* IPv4 datagram (any addresses, identification,
protocol, first eight octets), in any message: if its protocol is not the configured one the
tracer ignores it; if it is UDP / TCP to another destination or with another fixed port, the
response (if any) fails `Strategy::validate`. -/
theorem foreign_v4 (c : ChanCfg) (s : Strat.Cfg) (hcs : Compat c s) (hc : c.AddrOk)
    (hv : c.v6 = false) (e : ErrMsg false) (o : Outer4) (responder src : Buf)
    (hr : responder.length = 4) (qsrc qdst : Buf) (hqs : qsrc.length = 4) (hqd : qdst.length = 4)
    (d : Buf) (i0 i1 pr a0 a1 a2 a3 a4 a5 a6 a7 : UInt8)
    (hD : IsDatagram4 qsrc qdst d i0 i1 pr a0 a1 a2 a3 a4 a5 a6 a7) (m : Mut4) (n : Nat)
    (hb : BodyOk false (quote4 m d n) e.b) :
    (pr ≠ protoNum c →
      recvIcmp c (deliver c o responder (icmpMessage false e.h e.b (quote4 m d n))) src = .ok none) ∧
    (c.proto ≠ .icmp → Foreign c s qdst (beN a0 a1) (beN a2 a3) →
      ∀ r, recvIcmp c (deliver c o responder (icmpMessage false e.h e.b (quote4 m d n))) src =
        .ok (some r) → ∀ t, Strat.validate s (r.toStrat t) = false) := by
  obtain ⟨exts, hx⟩ := recv_error_v4 c hc hv e.te o e.h responder src hr e.b qsrc qdst hqs hqd
    d _ _ _ _ _ _ _ _ _ _ _ hD m n hb e.hty e.hcode
  have h4 := addr4 c hc hv
  have hdest : qdst ≠ c.dst → (decide (s.target = addrNat qdst)) = false := by
    intro hne
    rw [← hcs.2.2.2]
    simp only [decide_eq_false_iff_not]
    intro h
    exact hne (addrNat_inj _ _ (by rw [hqd, h4.2]) h.symm)
  obtain ⟨ex, _, hex⟩ := calcUdpChecksum_ok c hc (beN a0 a1) (beN a2 a3) (beN a4 a5 - 8)
  constructor
  · intro hpr
    rw [hx]
    unfold protoNum at hpr
    cases hp : c.proto <;> simp only [hp, hv, Bool.false_eq_true, if_false] at hpr <;>
      simp [parse4, hp, hpr, mkResp]
  · intro hni hf r hr' t
    rw [hx] at hr'
    cases hp : c.proto with
    | icmp => exact absurd hp hni
    | udp =>
      simp only [parse4, hp, hex] at hr'
      by_cases h17 : pr = 17
      · simp only [h17, if_true, R.map_ok, mkResp, Option.map_some] at hr'
        injection hr' with hr'; injection hr' with hr'; subst hr'
        rcases hf with hf | hf
        · simp [WResp.toStrat, Strat.validate, hdest hf]
        · simp [WResp.toStrat, Strat.validate, hf]
      · simp [h17, mkResp] at hr'
    | tcp =>
      simp only [parse4, hp] at hr'
      by_cases h6 : pr = 6
      · simp only [h6, if_true, R.map_ok, mkResp, Option.map_some] at hr'
        injection hr' with hr'; injection hr' with hr'; subst hr'
        rcases hf with hf | hf
        · simp [WResp.toStrat, Strat.validate, hdest hf]
        · simp [WResp.toStrat, Strat.validate, hf]
      · simp [h6, mkResp] at hr'

/-- **IPv6, negative.**  As `foreign_v4` for quotations of any IPv6 datagram. -/
theorem foreign_v6 (c : ChanCfg) (s : Strat.Cfg) (hcs : Compat c s) (hc : c.AddrOk)
    (hv : c.v6 = true) (e : ErrMsg c.v6) (o : Outer4) (responder : Buf)
    (hr : responder.length = 16) (qsrc qdst : Buf) (hqs : qsrc.length = 16) (hqd : qdst.length = 16)
    (d : Buf) (nh a0 a1 a2 a3 a4 a5 a6 a7 : UInt8) (rest : Buf)
    (hD : IsDatagram6 qsrc qdst d nh a0 a1 a2 a3 a4 a5 a6 a7 rest) (m : Mut6) (n : Nat)
    (hb : BodyOk c.v6 (quote6 m d n) e.b) :
    (nh ≠ protoNum c →
      recvIcmp c (deliver c o responder (icmpMessage c.v6 e.h e.b (quote6 m d n))) responder =
        .ok none) ∧
    (c.proto ≠ .icmp → Foreign c s qdst (beN a0 a1) (beN a2 a3) →
      ∀ r, recvIcmp c (deliver c o responder (icmpMessage c.v6 e.h e.b (quote6 m d n))) responder =
        .ok (some r) → ∀ t, Strat.validate s (r.toStrat t) = false) := by
  obtain ⟨exts, t6, hx, _, _⟩ := recv_error_v6 c hc hv e.te o e.h responder hr e.b qsrc qdst
    hqs hqd d _ _ _ _ _ _ _ _ _ rest hD m n 0 (by omega) hb e.hty e.hcode
  have h6 := addr6 c hc hv
  have hdest : qdst ≠ c.dst → (decide (s.target = addrNat qdst)) = false := by
    intro hne
    rw [← hcs.2.2.2]
    simp only [decide_eq_false_iff_not]
    intro h
    exact hne (addrNat_inj _ _ (by rw [hqd, h6.2]) h.symm)
  constructor
  · intro hpr
    rw [hx]
    unfold protoNum at hpr
    cases hp : c.proto <;> simp only [hp, hv, if_true] at hpr <;>
      simp [parse6, hp, hpr, mkResp]
  · intro hni hf r hr' t
    rw [hx] at hr'
    cases hp : c.proto with
    | icmp => exact absurd hp hni
    | udp =>
      simp only [parse6, hp] at hr'
      by_cases h17 : nh = 17
      · simp only [h17, if_true, R.map_ok, mkResp, Option.map_some] at hr'
        injection hr' with hr'; injection hr' with hr'; subst hr'
        rcases hf with hf | hf
        · simp [WResp.toStrat, Strat.validate, hdest hf]
        · simp [WResp.toStrat, Strat.validate, hf]
      · simp [h17, mkResp] at hr'
    | tcp =>
      simp only [parse6, hp] at hr'
      by_cases h6' : nh = 6
      · by_cases hl : t6.length < 12
        · simp [h6', hl] at hr'
        · simp only [h6', if_true, if_neg hl, R.map_ok, mkResp, Option.map_some] at hr'
          injection hr' with hr'; injection hr' with hr'; subst hr'
          rcases hf with hf | hf
          · simp [WResp.toStrat, Strat.validate, hdest hf]
          · simp [WResp.toStrat, Strat.validate, hf]
      · simp [h6', mkResp] at hr'

/-- **Dublin / IPv6, negative.**  A quoted UDP datagram whose payload does not start with the
marker `"trippy"` (six payload octets quoted) is rejected by `Strategy::validate`, even if
addresses and ports match. -/
theorem no_marker_v6 (c : ChanCfg) (s : Strat.Cfg) (hcs : Compat c s) (hc : c.AddrOk)
    (hv : c.v6 = true) (hp : c.proto = .udp) (hst : s.strat = .dublin) (e : ErrMsg c.v6)
    (o : Outer4) (responder : Buf)
    (hr : responder.length = 16) (qsrc qdst : Buf) (hqs : qsrc.length = 16) (hqd : qdst.length = 16)
    (d : Buf) (nh a0 a1 a2 a3 a4 a5 a6 a7 : UInt8) (rest : Buf)
    (hD : IsDatagram6 qsrc qdst d nh a0 a1 a2 a3 a4 a5 a6 a7 rest) (m : Mut6) (n : Nat)
    (hn : 6 ≤ n ∧ 6 ≤ rest.length) (hno : rest.take 6 ≠ Consts.net6_MAGIC)
    (hb : BodyOk c.v6 (quote6 m d n) e.b) :
    ∀ r, recvIcmp c (deliver c o responder (icmpMessage c.v6 e.h e.b (quote6 m d n))) responder =
      .ok (some r) → ∀ t, Strat.validate s (r.toStrat t) = false := by
  obtain ⟨exts, t6, hx, ht6, _⟩ := recv_error_v6 c hc hv e.te o e.h responder hr e.b qsrc qdst
    hqs hqd d _ _ _ _ _ _ _ _ _ rest hD m n 6 ⟨hn.1, hn.2, by omega⟩ hb e.hty e.hcode
  have hml : Consts.net6_MAGIC.length = 6 := by decide
  have hmagic : Consts.net6_MAGIC.isPrefixOf t6 = false := by
    cases h : Consts.net6_MAGIC.isPrefixOf t6 with
    | false => rfl
    | true =>
      rw [List.isPrefixOf_iff_prefix, List.prefix_iff_eq_take, hml, ht6] at h
      exact absurd h.symm hno
  intro r hr' t
  rw [hx] at hr'
  simp only [parse6, hp, hmagic] at hr'
  by_cases h17 : nh = 17
  · simp only [h17, if_true, R.map_ok, mkResp, Option.map_some] at hr'
    injection hr' with hr'; injection hr' with hr'; subst hr'
    have hv6 : s.v6 = true := by rw [← hcs.1, hv]
    simp [WResp.toStrat, Strat.validate, hst, hv6]
  · simp [h17, mkResp] at hr'

/-! ## the hypotheses are satisfiable -/

/-- 10.0.0.1 → 10.0.0.7, UDP/Dublin, fixed source port 5000 -/
def sampleS : Strat.Cfg :=
  { v6 := false, target := 167772167, proto := .udp, traceId := 0, maxRounds := none,
    firstTtl := 1, maxTtl := 64, grace := 0, maxInflight := 24, initialSeq := 33434,
    strat := .dublin, portDir := .fixedSrc 5000, minRound := 0, maxRound := 0 }

def sampleTS : Strat.TS :=
  { buffer := [], sequence := 33500, roundSeq := 33434, ttl := 7, round := 0, roundStart := 0,
    targetFound := false, maxRecvTtl := none, targetTtl := none, recvTime := none, now := 0 }

def sampleK : KernelFill :=
  { id0 := 1, id1 := 2, f0 := 0x40, f1 := 0, hc0 := 0, hc1 := 0, tcHi := 0, v1 := 0, v2 := 0,
    v3 := 0, uc0 := 0, uc1 := 0, tcpRest := List.replicate 16 0 }

/-- Time Exceeded, code 0, legacy RFC 4884 body with an empty extension structure -/
def sampleE : ErrMsg false :=
  { te := true, h := { type := 11, code := 0, ck0 := 0, ck1 := 0, r0 := 0, r1 := 0, r2 := 0 },
    b := .rfc4884 .legacy [0x20, 0, 0, 0], hty := rfl, hcode := fun _ => rfl }

/-- every hypothesis of `udp_v4` holds for the sample: configuration, emitted probe, a datagram
on the wire, a message -/
example : Compat C11.sampleCfg sampleS ∧ C11.sampleCfg.AddrOk ∧ C11.sampleCfg.v6 = false ∧
    C11.sampleCfg.proto = .udp ∧ C11.sampleCfg.privileged = true ∧ SizeOk C11.sampleCfg ∧
    emitted sampleS sampleTS 7 = .ok C11.sampleProbe ∧ ProbeOk C11.sampleProbe ∧
    (∃ d, wireDatagram C11.sampleCfg sampleK C11.sampleProbe = some d ∧
      ∀ m n, BodyOk false (quote4 m d n) sampleE.b) := by
  have hc : C11.sampleCfg.AddrOk := by decide
  have hpr : ProbeOk C11.sampleProbe := by simp [ProbeOk, C11.sampleProbe]
  have hsz : SizeOk C11.sampleCfg := by unfold SizeOk; decide
  refine ⟨⟨rfl, rfl, rfl, by decide⟩, hc, rfl, rfl, rfl, hsz, by decide, hpr, ?_⟩
  obtain ⟨d, _, _, _, _, hd, _⟩ := wire_udp4 C11.sampleCfg hc rfl rfl rfl hsz
    C11.sampleProbe hpr sampleK
  exact ⟨d, hd, fun m n => ⟨by decide, by simp [lengthAttr]⟩⟩

/-- a foreign quotation: same ports, destination 10.0.0.8 instead of 10.0.0.7 -/
example : Foreign C11.sampleCfg sampleS [10, 0, 0, 8] 5000 33434 := .inl (by decide)

/-- a TCP socket state for `tcp_handshake` -/
example : (TcpSock.refused ≠ .connected none ∧ TcpSock.refused ≠ .other) := by
  constructor <;> intro h <;> cases h

end TV.Props.C02

#print axioms TV.Props.C02.recv_error_v4
#print axioms TV.Props.C02.recv_error_v6
#print axioms TV.Props.C02.icmp_v4
#print axioms TV.Props.C02.udp_v4
#print axioms TV.Props.C02.udp_v4_unprivileged
#print axioms TV.Props.C02.tcp_v4
#print axioms TV.Props.C02.icmp_v6
#print axioms TV.Props.C02.udp_v6
#print axioms TV.Props.C02.udp_v6_unprivileged
#print axioms TV.Props.C02.tcp_v6
#print axioms TV.Props.C02.echo_reply
#print axioms TV.Props.C02.tcp_handshake
#print axioms TV.Props.C02.foreign_v4
#print axioms TV.Props.C02.foreign_v6
#print axioms TV.Props.C02.no_marker_v6
#print axioms TV.Props.C02.accepted_icmp
#print axioms TV.Props.C02.accepted_udp
#print axioms TV.Props.C02.accepted_tcp
