import TrippyVerif.Lemmas.Strategy
/-!
# C03 — only genuine current-round responses can complete a probe

`genuine c s r` (Lemmas/Strategy.lean) is the specification: `r` passes the tuple validation,
carries our trace identifier (or 0), and the sequence number recovered from it names a probe
*of the round in progress* that is *still awaiting* its first response.

All statements are for every builder-accepted configuration, every reachable state (any
environment, any number of rounds, sequence wrap-around included) and every response value.
-/
namespace TV.Props.C03
open TV TV.Strat

/-- (1) a non-genuine response changes nothing but the clock: every slot, `target_found`,
`target_ttl`, `max_received_ttl`, `received_time`, sequence bookkeeping are identical. -/
theorem non_genuine_unchanged {c : Cfg} (hc : CfgOk c) {s : TS} (hs : Reach c s) (dt : Nat) (r : Resp)
    (hng : genuine c s r = none) : recvResponse c s dt (.resp r) = .ok (tick s dt) := by
  rw [recvResponse_spec (reach_inv hc hs), hng]

/-- and a response has exactly the effect of "no response" on the whole iteration -/
theorem non_genuine_iter {c : Cfg} (hc : CfgOk c) {s : TS} (hs : Reach c s) (sends : List SendOutcome)
    (dt : Nat) (r : Resp)
    (hng : ∀ s1 lg, sendRequest c s sends = .ok (s1, lg) → genuine c s1 r = none) :
    iter c s { sends := sends, dt := dt, recv := .resp r } = iter c s { sends := sends, dt := dt, recv := .none } := by
  have hi := reach_inv hc hs
  unfold iter
  cases hsr : sendRequest c s sends with
  | panic => rfl
  | err e => rfl
  | ok v =>
    obtain ⟨s1, lg⟩ := v
    have hi1 := ((sendRequest_spec hc hi sends).2 s1 lg hsr).1
    simp only [R.bind_ok]
    rw [recvResponse_spec hi1, hng s1 lg hsr]
    rfl

/-- what "genuine" guarantees: the answered probe was allocated in this round (its sequence
number lies in `[round_sequence, sequence)`), carries this round's id, is still awaited, and the
response passed validation and the trace-id check -/
theorem genuine_sound {c : Cfg} (hc : CfgOk c) {s : TS} (hs : Reach c s) {r : Resp} {p : Probe}
    (hg : genuine c s r = some p) :
    validate c r = true ∧ checkTraceId c (strategyResp c r).traceId = true ∧
    p.seq = (strategyResp c r).seq ∧ s.roundSeq ≤ p.seq ∧ p.seq < s.sequence ∧ p.round = s.round ∧
    s.buffer[p.seq - s.roundSeq]? = some (.awaited p) := by
  unfold genuine at hg
  split at hg
  · rename_i hcond
    simp only [Bool.and_eq_true] at hcond
    obtain ⟨a, b, c1, d, _, _, g⟩ := answered_props (reach_inv hc hs) hg
    exact ⟨hcond.1.1, hcond.1.2, c1, by omega, by omega, d, by rw [c1]; exact g⟩
  · cases hg

/-- duplicates: once a response has been accepted, the same response is no longer genuine -/
theorem duplicate_rejected {c : Cfg} (hc : CfgOk c) {s : TS} (hs : Reach c s) (dt : Nat) {r : Resp}
    {p : Probe} (hg : genuine c s r = some p) :
    genuine c (afterComplete (tick s dt) (strategyResp c r) p) r = none := by
  obtain ⟨_, _, hseq, hge, _, _, hsl⟩ := genuine_sound hc hs hg
  have hlen : p.seq - s.roundSeq < s.buffer.length :=
    (List.getElem?_eq_some_iff.mp hsl).1
  unfold genuine
  split
  · unfold answered
    simp only [afterComplete, tick, ← hseq, hge, if_true]
    rw [List.getElem?_set_self hlen]
  · rfl

/-- never-sent sequence numbers (at or beyond the next one to allocate) are never genuine -/
theorem never_sent_rejected {c : Cfg} (hc : CfgOk c) {s : TS} (hs : Reach c s) (r : Resp)
    (h : s.sequence ≤ (strategyResp c r).seq) : genuine c s r = none := by
  cases hg : genuine c s r with
  | none => rfl
  | some p =>
    obtain ⟨_, _, e, _, lt, _⟩ := genuine_sound hc hs hg
    omega

/-- sequence numbers below the round's first one (previous rounds) are never genuine -/
theorem earlier_sequence_rejected {c : Cfg} (hc : CfgOk c) {s : TS} (hs : Reach c s) (r : Resp)
    (h : (strategyResp c r).seq < s.roundSeq) : genuine c s r = none := by
  cases hg : genuine c s r with
  | none => rfl
  | some p =>
    obtain ⟨_, _, e, ge, _, _⟩ := genuine_sound hc hs hg
    omega

/-- a probe left in the buffer by an earlier round is never completed -/
theorem stale_probe_rejected {c : Cfg} (hc : CfgOk c) {s : TS} (hs : Reach c s) (r : Resp) (p : Probe)
    (hg : genuine c s r = some p) : ¬ p.round < s.round := by
  obtain ⟨_, _, _, _, _, e, _⟩ := genuine_sound hc hs hg
  omega

/-- another tracer instance: a different non-zero trace identifier is never genuine -/
theorem foreign_trace_id_rejected (c : Cfg) (s : TS) (r : Resp)
    (h1 : (strategyResp c r).traceId ≠ c.traceId) (h0 : (strategyResp c r).traceId ≠ 0) :
    genuine c s r = none := by
  unfold genuine
  have : checkTraceId c (strategyResp c r).traceId = false := by
    simp [checkTraceId]; exact ⟨fun e => h1 e.symm, h0⟩
  simp [this]

/-- another target or other fixed ports: rejected by validation -/
theorem invalid_tuple_rejected (c : Cfg) (s : TS) (r : Resp) (h : validate c r = false) :
    genuine c s r = none := by
  unfold genuine; simp [h]

/-- UDP/TCP responses quoting a datagram for another destination fail validation -/
theorem other_target_invalid (c : Cfg) (r : Resp) (id dest sp dp : Nat) (tos : Option Nat)
    (e a pl : Nat) (m : Bool) (hp : r.proto = .udp id dest sp dp tos e a pl m) (hd : dest ≠ c.target) :
    validate c r = false := by
  unfold validate; rw [hp]; simp; intro h; exact absurd h.symm hd

/-- run-level: replacing every non-genuine response of an environment by "no response"
(keeping the clock) does not change the run: published rounds, final state and result agree.
This is the "each tracer's results are those it would have obtained alone" statement for the
responses that belong to other tracers. -/
def dejunk (c : Cfg) : TS → List IterEnv → List IterEnv
  | _, [] => []
  | s, e :: es =>
    let e' : IterEnv := match e.recv, sendRequest c s e.sends with
      | .resp r, .ok (s1, _) => if (genuine c s1 r).isNone then { e with recv := .none } else e
      | _, _ => e
    match iter c s e with
    | .ok (s', _) => e' :: dejunk c s' es
    | _ => e' :: es

theorem iter_dejunk {c : Cfg} (hc : CfgOk c) {s : TS} (hs : Reach c s) (e : IterEnv) :
    iter c s (match e.recv, sendRequest c s e.sends with
      | .resp r, .ok (s1, _) => if (genuine c s1 r).isNone then { e with recv := .none } else e
      | _, _ => e) = iter c s e := by
  cases hr : e.recv with
  | none => simp
  | fatal => simp
  | resp r =>
    cases hsr : sendRequest c s e.sends with
    | panic => simp
    | err er => simp
    | ok v =>
      obtain ⟨s1, lg⟩ := v
      simp only
      by_cases hg : (genuine c s1 r).isNone = true
      · simp only [hg, if_true]
        have := non_genuine_iter hc hs e.sends e.dt r (by
          intro s1' lg' h'; rw [hsr] at h'; cases h'; simpa using hg)
        have he : e = { sends := e.sends, dt := e.dt, recv := .resp r } := by
          cases e; simp_all
        rw [he]; exact this.symm
      · simp [hg]

theorem run_dejunk {c : Cfg} (hc : CfgOk c) : ∀ (es : List IterEnv) {s : TS}, Reach c s →
    run c s (dejunk c s es) = run c s es := by
  intro es
  induction es with
  | nil => intro s _; rfl
  | cons e es ih =>
    intro s hs
    have hit := iter_dejunk hc hs e
    simp only [dejunk]
    cases hi : iter c s e with
    | ok v =>
      obtain ⟨s', o⟩ := v
      simp only [run]
      rw [hit, hi]
      split
      · rfl
      · simp only []
        rw [ih (Reach.step e o hs hi)]
    | err er => simp only [run]; rw [hit, hi]
    | panic => simp only [run]; rw [hit, hi]

/-! non-vacuity: a reachable state with an outstanding probe, a genuine and a junk response -/
def cfgEx : Cfg :=
  { v6 := false, target := 7, proto := .icmp, traceId := 1234, maxRounds := none, firstTtl := 1,
    maxTtl := 30, grace := 100, maxInflight := 24, initialSeq := 33434, strat := .classic,
    portDir := .none, minRound := 1000, maxRound := 1000 }
theorem cfgEx_ok : CfgOk cfgEx := by
  simp [CfgOk, cfgEx, Consts.core_MAX_TTL, Consts.core_MAX_INITIAL_SEQUENCE]
def respEx (seq : Nat) : Resp :=
  { kind := .timeExceeded 0, recv := 5, addr := 1001, proto := .icmp 1234 seq none, ext := none }
example : ((iter cfgEx (init cfgEx 0) { sends := [], dt := 5, recv := .none }).bind fun s' =>
    .ok ((genuine cfgEx s'.1 (respEx 33434)).isSome && (genuine cfgEx s'.1 (respEx 33435)).isNone))
    = (.ok true : R Bool) := by decide +kernel

/-! ### the identifiers the CLI assigns (`pid + i`) -/

/-- never zero (zero is the wildcard every tracer accepts) and a `u16` -/
theorem cli_trace_id_range (pid i : Nat) : 1 ≤ cliTraceId pid i ∧ cliTraceId pid i ≤ 65535 := by
  unfold cliTraceId
  simp only []
  split <;> omega

/-- distinct tracers of one invocation get distinct identifiers (up to 65535 targets) -/
theorem cli_trace_id_distinct (pid i j : Nat) (hi : i < 65535) (hj : j < 65535) (hij : i ≠ j) :
    cliTraceId pid i ≠ cliTraceId pid j := by
  unfold cliTraceId
  simp only []
  split <;> split <;> omega

/-- the usual case is still `pid + i` -/
theorem cli_trace_id_usual (pid i : Nat) (h0 : 0 < pid + i) (h : pid + i < 65535) :
    cliTraceId pid i = pid + i := by
  unfold cliTraceId
  simp only []
  have h1 : pid % 65535 = pid := Nat.mod_eq_of_lt (by omega)
  have h2 : i % 65535 = i := Nat.mod_eq_of_lt (by omega)
  rw [h1, h2, Nat.mod_eq_of_lt h]
  split <;> omega

/-- **Tracers started together do not hear each other (ICMP).**  Two tracers of one invocation
(identifiers `cliTraceId pid i`, `cliTraceId pid j`, `i ≠ j`): whatever tracer `j` receives in
answer to a probe of tracer `i` (it carries `i`'s identifier) is not genuine for `j` — hence, by
`non_genuine_unchanged` / `run_dejunk`, changes nothing in `j`'s trace. -/
theorem sibling_response_rejected (c : Cfg) (s : TS) (r : Resp) (pid i j : Nat)
    (hi : i < 65535) (hj : j < 65535) (hij : i ≠ j) (hc : c.traceId = cliTraceId pid j)
    (hr : (strategyResp c r).traceId = cliTraceId pid i) : genuine c s r = none := by
  apply foreign_trace_id_rejected
  · rw [hr, hc]; exact cli_trace_id_distinct pid i j hi hj hij
  · rw [hr]; have := (cli_trace_id_range pid i).1; omega

/-- the assignment before the repair: process id ≡ 0 (mod 65535) gave the wildcard identifier 0 to
the first tracer — every sibling then accepts its responses — and `pid + i` overflowed -/
theorem old_assignment_wildcard : cliTraceIdOld 0 0 = .ok 0 ∧ checkTraceId { cfgEx with traceId := 1 } 0 = true := by
  decide
theorem old_assignment_overflow : cliTraceIdOld 65534 2 = .panic := by decide

end TV.Props.C03

#print axioms TV.Props.C03.non_genuine_unchanged
#print axioms TV.Props.C03.non_genuine_iter
#print axioms TV.Props.C03.genuine_sound
#print axioms TV.Props.C03.duplicate_rejected
#print axioms TV.Props.C03.never_sent_rejected
#print axioms TV.Props.C03.earlier_sequence_rejected
#print axioms TV.Props.C03.stale_probe_rejected
#print axioms TV.Props.C03.foreign_trace_id_rejected
#print axioms TV.Props.C03.invalid_tuple_rejected
#print axioms TV.Props.C03.other_target_invalid
#print axioms TV.Props.C03.run_dejunk
#print axioms TV.Props.C03.cli_trace_id_range
#print axioms TV.Props.C03.cli_trace_id_distinct
#print axioms TV.Props.C03.cli_trace_id_usual
#print axioms TV.Props.C03.sibling_response_rejected
#print axioms TV.Props.C03.old_assignment_wildcard
#print axioms TV.Props.C03.old_assignment_overflow
