import TrippyVerif.Lemmas.Wire
/-!
# C04 (receive half) — no inbound packet, however malformed, can crash the tracer

"Whatever bytes arrive on the receive socket - truncated, oversized, with inconsistent length
fields, hostile nested headers or extension objects - the receive path returns (a response,
nothing, or an error value) without panicking, overflowing or looping, in every configuration.
The same holds for every accessor of every packet view over an arbitrary buffer of at least the
minimum header size."

Model: `TV.Wire.recvIcmp` (`recv_icmp_probe` → `extract_probe_resp` → `extract_probe_proto_resp` →
`extract_echo_request` / `extract_udp_packet` / `extract_tcp_packet` /
`udp_payload_has_magic_prefix`, with the RFC 4884 split and `Extensions::try_from` of
`TV.Ext`, repaired code `Ext.codeIsFixed`), `TV.Wire.recvTcp`, and the slice accessors
`TV.Wire.{ipv4Payload, ipv4OptionsRaw, ipv6Payload, udpPayload, tcpPayload, tcpOptionsRaw,
echoPayload}`.  Every other accessor of every view (the fixed-offset getters/setters) is covered
by the generated C12 theorems; the extension views by C14.

* no bound on the number of bytes is needed (the model has none; the code reads at most
  `MAX_PACKET_SIZE` octets from the socket).
* `c.AddrOk`: the configured source/target are 4 (IPv4) resp. 16 (IPv6) octets — true of every
  `Ipv4Addr` / `Ipv6Addr`; needed because the checksum model treats a wrong-size address as a
  type error.
* IPv6: `ipv6.rs:204` contains `SocketAddr::V4(_) => panic!()` for the address returned by
  `recv_from`.  An `AF_INET6` socket never reports an `AF_INET` peer, so this is a statement about
  the kernel, not about the bytes: the hypothesis `src.length ≠ 4` (`[]` = no address, which is the
  error value `MissingAddr`).  `recv_v6_v4_sockaddr_panics` shows the hypothesis is necessary.
* "without looping": every function of the model is a total Lean function — structural recursion
  or well-founded recursion with a proved decrease (`Ext.objectsFrom`); this file and the model
  files compile without `partial`.
-/
namespace TV.Props.C04
open TV TV.Wire

/-- **C04, receive path.**  For every configuration (protocol, family, extension mode, privilege,
size, pattern, …) and every octet string delivered by the receive socket, `recv_icmp_probe`
returns a response, nothing, or an error value — never a panic. -/
theorem recv_never_panics (c : ChanCfg) (hc : c.AddrOk) (bytes src : Buf)
    (hsrc : c.v6 = true → src.length ≠ 4) : recvIcmp c bytes src ≠ .panic := by
  unfold recvIcmp
  split
  · rename_i hv; exact recvIcmp6_ne_panic c hc bytes src (hsrc hv)
  · exact recvIcmp4_ne_panic c hc bytes

/-- IPv4: no side condition on the reported address (it is not used) -/
theorem recv_never_panics_v4 (c : ChanCfg) (hc : c.AddrOk) (hv : c.v6 = false) (bytes src : Buf) :
    recvIcmp c bytes src ≠ .panic :=
  recv_never_panics c hc bytes src (by simp [hv])

/-- the outcome is one of the three the property allows -/
theorem recv_outcome (c : ChanCfg) (hc : c.AddrOk) (bytes src : Buf)
    (hsrc : c.v6 = true → src.length ≠ 4) :
    (∃ r, recvIcmp c bytes src = .ok (some r)) ∨ recvIcmp c bytes src = .ok none ∨
    (∃ e, recvIcmp c bytes src = .err e) := by
  have := recv_never_panics c hc bytes src hsrc
  cases h : recvIcmp c bytes src with
  | ok o => cases o with
    | none => exact .inr (.inl rfl)
    | some r => exact .inl ⟨r, rfl⟩
  | err e => exact .inr (.inr ⟨e, rfl⟩)
  | panic => exact absurd h this

/-- the `panic!()` arm of `ipv6.rs` is real: were the socket to report an IPv4 peer for a message
of at least 8 octets, the code would panic (so `hsrc` cannot be dropped) -/
theorem recv_v6_v4_sockaddr_panics (c : ChanCfg) (hv : c.v6 = true) (bytes : Buf)
    (h : 8 ≤ bytes.length) (a0 a1 a2 a3 : UInt8) :
    recvIcmp c bytes [a0, a1, a2, a3] = .panic := by
  have : ¬ bytes.length < 8 := by omega
  simp [recvIcmp, hv, recvIcmp6, this]

/-- the stages below the socket never panic either, on any input -/
theorem stages_never_panic (c : ChanCfg) (hc : c.AddrOk) (b src : Buf) :
    protoResp c b ≠ .panic ∧
    (8 ≤ b.length → extractProbeResp c b src ≠ .panic) ∧
    extractEchoRequest b ≠ .panic ∧ extractUdp b ≠ .panic ∧ extractTcp4 b ≠ .panic ∧
    extractTcp6 b ≠ .panic ∧ udpHasMagic b ≠ .panic ∧
    (∀ sp dp plen, calcUdpChecksum c sp dp plen ≠ .panic) :=
  ⟨protoResp_ne_panic c hc b, extractProbeResp_ne_panic c hc b src, extractEchoRequest_ne_panic b,
   extractUdp_ne_panic b, extractTcp4_ne_panic b, extractTcp6_ne_panic b, udpHasMagic_ne_panic b,
   fun sp dp plen => by obtain ⟨ck, _, h⟩ := calcUdpChecksum_ok c hc sp dp plen; simp [h]⟩

/-- `recv_tcp_socket` is a finite case distinction -/
theorem recvTcp_never_panics (c : ChanCfg) (sp dp : Nat) (s : TcpSock) :
    recvTcp c sp dp s ≠ .panic := by
  cases s with
  | connected p => cases p <;> simp [recvTcp]
  | refused => simp [recvTcp]
  | hostUnreachable a => simp [recvTcp]
  | other => simp [recvTcp]

/-- **C04, slice accessors.**  Every slice accessor used on the receive path is total on a view
of at least the minimum header size, whatever the header-length / data-offset / payload-length
octets say, and returns a part of the buffer. -/
theorem slice_accessors_total (b : Buf) :
    (20 ≤ b.length → ∃ r, ipv4Payload b = .ok r ∧ r <:+ b) ∧
    (20 ≤ b.length → ∃ r, ipv4OptionsRaw b = .ok r ∧ r <:+: b) ∧
    (40 ≤ b.length → ∃ r, ipv6Payload b = .ok r ∧ r <:+: b) ∧
    (8 ≤ b.length → ∃ r, udpPayload b = .ok r ∧ r <:+ b) ∧
    (8 ≤ b.length → ∃ r, echoPayload b = .ok r ∧ r <:+ b) ∧
    (20 ≤ b.length → tcpPayload b ≠ .panic) ∧
    (20 ≤ b.length → tcpOptionsRaw b ≠ .panic) := by
  refine ⟨?_, ?_, ?_, ?_, ?_, tcpPayload_ne_panic b, tcpOptionsRaw_ne_panic b⟩
  · intro h; exact ⟨_, ipv4Payload_ok b (by omega), List.drop_suffix _ _⟩
  · intro h
    exact ⟨_, ipv4OptionsRaw_ok b h, (List.drop_suffix _ _).isInfix.trans (List.take_prefix _ _).isInfix⟩
  · intro h
    refine ⟨_, ipv6Payload_ok b (by omega), ?_⟩
    split
    · exact ⟨[], b, by simp⟩
    · exact (List.drop_suffix _ _).isInfix.trans (List.take_prefix _ _).isInfix
  · intro h; exact ⟨_, udpPayload_ok b h, List.drop_suffix _ _⟩
  · intro h; exact ⟨_, echoPayload_ok b h, List.drop_suffix _ _⟩

/-- F1 (repaired): `Ipv4Packet::payload` with a header length beyond the buffer returns the empty
slice instead of slicing out of range: IHL 15 on a 20-octet buffer. -/
theorem ipv4Payload_ihl_beyond_buffer :
    ipv4Payload (0x4f :: List.replicate 19 0) = .ok [] := by
  rw [ipv4Payload_ok _ (by simp)]; decide

/-! ### the hypotheses are satisfiable -/

/-- a concrete configuration and a hostile datagram: outer IHL 15, Time Exceeded, length attribute
255, nested IHL 15 — answered with an error value -/
def sampleCfg : ChanCfg :=
  { v6 := false, src := [10, 0, 0, 1], dst := [10, 0, 0, 7], packetSize := 84, pattern := 0,
    privileged := true, tos := 0, proto := .udp, extEnabled := true, initialSeq := 33434 }

example : sampleCfg.AddrOk := by decide

example : recvIcmp sampleCfg
    ([0x45, 0, 0, 36, 0, 0, 0, 0, 64, 1, 0, 0, 10, 0, 0, 9, 10, 0, 0, 1] ++
     [11, 0, 0, 0, 0, 255, 0, 0] ++ [0x4f, 0, 0, 0, 0, 0, 0, 0]) [] = .err .pktShort := by
  decide

example : recvIcmp { sampleCfg with v6 := true, src := List.replicate 16 1, dst := List.replicate 16 2 }
    [3, 0, 0, 0, 255, 0, 0, 0] [] = .err .missingAddr := by decide

end TV.Props.C04

#print axioms TV.Props.C04.recv_never_panics
#print axioms TV.Props.C04.recv_never_panics_v4
#print axioms TV.Props.C04.recv_outcome
#print axioms TV.Props.C04.recv_v6_v4_sockaddr_panics
#print axioms TV.Props.C04.stages_never_panic
#print axioms TV.Props.C04.recvTcp_never_panics
#print axioms TV.Props.C04.slice_accessors_total
#print axioms TV.Props.C04.ipv4Payload_ihl_beyond_buffer
