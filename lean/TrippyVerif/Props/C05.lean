import TrippyVerif.Lemmas.Welford
import TrippyVerif.Props.C10
/-
C05 — "Per-hop statistics equal an independent re-aggregation of the rounds"

After any sequence of published rounds, each hop's sent, received and failed counts, loss
percentage, forward/backward loss counts, last/best/worst/average round-trip time, standard
deviation, jitter figures, per-address response counts, last-probe details and bounded
newest-first sample history equal what a straightforward recomputation from those rounds yields.
In particular received+failed ≤ sent, address counts sum to received, best ≤ average ≤ worst,
0 ≤ loss ≤ 100, forward+backward loss ≤ sent−received−failed, and the history never exceeds the
configured sample limit.

Model : `TV.Agg.{FlowState.run, State.run, Hop}` (Model/StateAgg.lean)
Spec  : `TV.Reagg.{outcomes, reagg, jitterSpec, jmaxSpec}` (Spec/Reagg.lean) – direct definitions
        (counts, sums, minima, last elements, prefix of the reversed list) on the flattened
        outcomes of the hop; loss / NAT classification defined positionally per round.

Levels
  * exact (integer) fields: proved for every number type `F`, every history of `RoundWF` rounds of
    any length, every sample limit (0 included);
  * `jitter`, `jmax`: proved for number types that convert durations exactly (`ExactDur`, holds for
    ℚ); for `f64` the two `Duration::from_secs_f64` results are compared by the harness (±2 ns);
  * `mean`, `m2` (variance / standard deviation), `javg` (and the derived average / loss
    percentages): proved over ℚ to be the two-pass quantities (arithmetic mean, sum of squared
    deviations, mean jitter); IEEE ROUNDING IS NOT MODELLED (partial), `sqrt` is not modelled:
    the statement about the standard deviation is `stddev_ms² = m2/(n−1) = sample variance`.
-/
namespace TV.Props.C05
open TV TV.Strat TV.Agg TV.Reagg

variable {F : Type} [Num F]

/-- Refinement, flow level: after any history of well-formed rounds the aggregation has not
panicked and the hop at every ttl `t ∈ [1,254]` holds exactly the re-aggregated statistics of the
outcomes of ttl `t` (all nineteen exact fields at once: `Stats` / `statsOf`). -/
theorem refinement (ms : Nat) (hist : List Round) (hwf : ∀ r ∈ hist, RoundWF r) :
    ∃ fs, FlowState.run (FlowState.new (F := F) ms) hist = .ok fs ∧
      ∀ t, 1 ≤ t → t ≤ 254 →
        ∃ h, fs.hops[t - 1]? = some h ∧ statsOf h = reagg ms (outcomes t hist) := by
  obtain ⟨fs, h1, _, _, _, _, _, _, h8⟩ := run_new (F := F) ms hist hwf
  exact ⟨fs, h1, fun t a b => ⟨_, h8 t a b, stats_fold ms _⟩⟩

/-- Refinement, state level: the same for the default flow of `State` (every other flow is the
fold of the rounds attributed to it – C15 – so `refinement` applies to it with that sub-history). -/
theorem refinement_default_flow (cfg : Agg.Cfg) (hist : List Round) (hwf : ∀ r ∈ hist, RoundWF r) :
    ∃ st fs, State.run (State.new (F := F) cfg) hist = .ok st ∧ lookupFlow st.flows 0 = some fs ∧
      ∀ t, 1 ≤ t → t ≤ 254 →
        ∃ h, fs.hops[t - 1]? = some h ∧ statsOf h = reagg cfg.maxSamples (outcomes t hist) := by
  obtain ⟨st, fs, h1, h2, h3⟩ := C10.default_flow (F := F) cfg hist hwf
  obtain ⟨fs', k1, k2⟩ := refinement (F := F) cfg.maxSamples hist hwf
  rw [h2] at k1; cases k1
  exact ⟨st, fs, h1, h3, k2⟩

/-- the refinement spelled out field by field -/
theorem refinement_fields (ms : Nat) (hist : List Round) (hwf : ∀ r ∈ hist, RoundWF r) :
    ∃ fs, FlowState.run (FlowState.new (F := F) ms) hist = .ok fs ∧
      ∀ t, 1 ≤ t → t ≤ 254 → ∃ h, fs.hops[t - 1]? = some h ∧
        let os := outcomes t hist
        h.totalSent = os.length ∧ h.totalRecv = (rtts os).length ∧
        h.totalFailed = os.countP Outcome.isFailed ∧
        h.totalForwardLost = os.countP (Outcome.hasLoss .forward) ∧
        h.totalBackwardLost = os.countP (Outcome.hasLoss .backward) ∧
        h.totalTime = (rtts os).sum ∧ h.last = (rtts os).getLast? ∧
        h.best = (rtts os).min? ∧ h.worst = (rtts os).max? ∧
        h.samples = (os.reverse.map Outcome.sample).take ms ∧
        h.addrs = addrCounts (hosts os) ∧
        h.lastSequence = (os.getLast?.map fun o => o.probe.seq).getD 0 ∧
        h.lastSrcPort = (os.getLast?.map fun o => o.probe.srcPort).getD 0 ∧
        h.lastDestPort = (os.getLast?.map fun o => o.probe.destPort).getD 0 ∧
        h.lastIcmp = (completes os).getLast?.map (·.kind) ∧
        h.tos = (completes os).getLast?.bind (·.tos) ∧
        h.extensions = (completes os).getLast?.bind (·.ext) ∧
        h.lastNatStatus = ((os.filterMap Outcome.nat).getLast?).getD .notApplicable := by
  obtain ⟨fs, h1, h2⟩ := refinement (F := F) ms hist hwf
  refine ⟨fs, h1, fun t a b => ?_⟩
  obtain ⟨h, k1, k2⟩ := h2 t a b
  refine ⟨h, k1, ?_⟩
  simp only [statsOf, reagg, Stats.mk.injEq] at k2
  obtain ⟨_, i2, i3, i4, i5, i6, i7, i8, i9, i10, i11, i12, i13, i14, i15, i16, i17, i18, i19⟩ := k2
  exact ⟨i2, i3, i4, i5, i6, i7, i8, i9, i10, i11, i12, i15, i13, i14, i16, i18, i19, i17⟩

/-- Jitter: for a number type that converts durations exactly (ℚ), the current jitter is
`|d_n − d_{n−1}|` (absent until there are two responses) and the worst jitter is the maximum of
the series `d₀, |d₁ − d₀|, …`. -/
theorem refinement_jitter [ExactDur F] (ms : Nat) (hist : List Round) (hwf : ∀ r ∈ hist, RoundWF r) :
    ∃ fs, FlowState.run (FlowState.new (F := F) ms) hist = .ok fs ∧
      ∀ t, 1 ≤ t → t ≤ 254 →
        ∃ h, fs.hops[t - 1]? = some h ∧ h.jitter = jitterSpec (outcomes t hist) ∧
          h.jmax = jmaxSpec (outcomes t hist) := by
  obtain ⟨fs, h1, _, _, _, _, _, _, h8⟩ := run_new (F := F) ms hist hwf
  exact ⟨fs, h1, fun t a b => ⟨_, h8 t a b, jitter_fold ms _⟩⟩

/-- … in particular over the rationals -/
theorem refinement_jitter_rat (ms : Nat) (hist : List Round) (hwf : ∀ r ∈ hist, RoundWF r) :
    ∃ fs, FlowState.run (FlowState.new (F := Rat) ms) hist = .ok fs ∧
      ∀ t, 1 ≤ t → t ≤ 254 →
        ∃ h, fs.hops[t - 1]? = some h ∧ h.jitter = jitterSpec (outcomes t hist) ∧
          h.jmax = jmaxSpec (outcomes t hist) := refinement_jitter ms hist hwf

/-! ### conservation laws (of the re-aggregation, hence of every hop) -/

/-- the laws, for the statistics of any list of outcomes -/
theorem reagg_laws (ms : Nat) (os : List Outcome) :
    let s := reagg ms os
    s.recv + s.failed ≤ s.sent ∧
    s.recv ≤ s.sent ∧
    ((s.addrs.map (·.2)).sum = s.recv) ∧
    s.forwardLost + s.backwardLost ≤ s.sent - s.recv - s.failed ∧
    s.samples.length ≤ ms ∧
    (∀ b w, s.best = some b → s.worst = some w →
      b ≤ w ∧ b * s.recv ≤ s.totalTime ∧ s.totalTime ≤ w * s.recv) ∧
    (s.recv = 0 ↔ s.best = none) ∧ (s.recv = 0 ↔ s.worst = none) ∧ (s.recv = 0 ↔ s.last = none) := by
  have hc := counts_le os
  simp only [reagg]
  refine ⟨by omega, by omega, ?_, by omega, ?_, ?_, ?_, ?_, ?_⟩
  · rw [addrCounts_sum, hosts_length]
  · simp only [List.length_take]; omega
  · intro b w hb hw; exact best_worst _ b w hb hw
  · rw [List.min?_eq_none_iff, List.length_eq_zero_iff]
  · rw [List.max?_eq_none_iff, List.length_eq_zero_iff]
  · rw [List.getLast?_eq_none_iff, List.length_eq_zero_iff]

/-- Conservation: every hop, after every history. -/
theorem conservation (ms : Nat) (hist : List Round) (hwf : ∀ r ∈ hist, RoundWF r) :
    ∃ fs, FlowState.run (FlowState.new (F := F) ms) hist = .ok fs ∧
      ∀ t, 1 ≤ t → t ≤ 254 → ∃ h, fs.hops[t - 1]? = some h ∧
        h.totalRecv + h.totalFailed ≤ h.totalSent ∧
        h.totalRecv ≤ h.totalSent ∧
        (h.addrs.map (·.2)).sum = h.totalRecv ∧
        h.totalForwardLost + h.totalBackwardLost ≤ h.totalSent - h.totalRecv - h.totalFailed ∧
        h.samples.length ≤ ms ∧
        (∀ b w, h.best = some b → h.worst = some w →
          b ≤ w ∧ b * h.totalRecv ≤ h.totalTime ∧ h.totalTime ≤ w * h.totalRecv) := by
  obtain ⟨fs, h1, h2⟩ := refinement (F := F) ms hist hwf
  refine ⟨fs, h1, fun t a b => ?_⟩
  obtain ⟨h, k1, k2⟩ := h2 t a b
  obtain ⟨l1, l2, l3, l4, l5, l6, _⟩ := reagg_laws ms (outcomes t hist)
  rw [← k2] at l1 l2 l3 l4 l5 l6
  exact ⟨h, k1, l1, l2, l3, l4, l5, l6⟩

/-- `0 ≤ loss ≤ 100` and `best ≤ avg ≤ worst` for the derived getters, over ℚ (they are functions of
the exact fields; in `f64` the same holds up to rounding, checked by the harness oracle). -/
theorem derived_ranges (h : Hop Rat) (hrs : h.totalRecv ≤ h.totalSent) :
    0 ≤ h.lossPct ∧ h.lossPct ≤ 100 ∧
    (∀ b w, h.totalRecv ≠ 0 → b * h.totalRecv ≤ h.totalTime → h.totalTime ≤ w * h.totalRecv →
      (Num.durMs b : Rat) ≤ h.avgMs ∧ h.avgMs ≤ (Num.durMs w : Rat)) :=
  derived_ranges_rat h hrs

/-! ### the float fields over the exact rationals (IEEE rounding not modelled) -/

/-- `mean` (running mean `mean += (x − mean)/n`) is the arithmetic mean of the round-trip times in
ms, hence `avg_ms`'s exact counterpart -/
theorem mean_two_pass (ms : Nat) (hist : List Round) (t : Nat) (h : rtts (outcomes t hist) ≠ []) :
    ((outcomes t hist).foldl (hopStep (F := Rat) ms) Hop.default).mean =
      (msOf (rtts (outcomes t hist))).sum / (rtts (outcomes t hist)).length :=
  mean_is_arithmetic_mean ms _ h

/-- `javg` (`javg += (j − javg)/n`) is the arithmetic mean of the jitter series in ms -/
theorem javg_two_pass (ms : Nat) (hist : List Round) (t : Nat) (h : rtts (outcomes t hist) ≠ []) :
    ((outcomes t hist).foldl (hopStep (F := Rat) ms) Hop.default).javg =
      (msOf (jitters (rtts (outcomes t hist)))).sum / (rtts (outcomes t hist)).length :=
  javg_is_mean_jitter ms _ h

/-- Welford's update `M2 += (x − mean_old)(x − mean_new)` does compute the two-pass quantities:
`n · mean = Σ xᵢ` and `M2 = Σ (xᵢ − mean)²` -/
theorem welford_is_two_pass (xs : List Rat) :
    ((xs.length : Nat) : Rat) * (xs.foldl welfordStep (0, 0, 0)).2.1 = xs.sum ∧
    (xs.foldl welfordStep (0, 0, 0)).2.2 =
      (xs.map fun x => (x - (xs.foldl welfordStep (0, 0, 0)).2.1) * (x - (xs.foldl welfordStep (0, 0, 0)).2.1)).sum :=
  (welford_two_pass xs).2

/-- `m2` (Welford: `delta = x − mean; mean += delta/n; m2 += delta·(x − mean)`) is the sum of squared
deviations of the round-trip times (ms) from their arithmetic mean: over ℚ, for the hop at any ttl
after any history, `n · mean = Σ dᵢ` and `m2 = Σ (dᵢ − mean)²`. -/
theorem welford_m2_two_pass (ms : Nat) (hist : List Round) (t : Nat) :
    let os := outcomes t hist
    let h := os.foldl (hopStep (F := Rat) ms) Hop.default
    ((rtts os).length : Rat) * h.mean = (msOf (rtts os)).sum ∧
    h.m2 = ((msOf (rtts os)).map fun x => (x - h.mean) * (x - h.mean)).sum :=
  m2_is_squared_deviation_sum ms (outcomes t hist)

/-- … hence the quantity under the square root of `stddev_ms` (`m2 / (total_recv − 1)`, taken when
`total_recv > 1`) is the sample variance `Σ (dᵢ − d̄)² / (n − 1)` with `d̄ = Σ dᵢ / n`. -/
theorem variance_two_pass (ms : Nat) (hist : List Round) (t : Nat)
    (hn : 1 < (rtts (outcomes t hist)).length) :
    let os := outcomes t hist
    let h := os.foldl (hopStep (F := Rat) ms) Hop.default
    let dbar := (msOf (rtts os)).sum / ((rtts os).length : Rat)
    h.totalRecv = (rtts os).length ∧
    h.m2 / ((h.totalRecv - 1 : Nat) : Rat) =
      ((msOf (rtts os)).map fun x => (x - dbar) * (x - dbar)).sum / (((rtts os).length - 1 : Nat) : Rat) := by
  intro os h dbar
  have hne : rtts os ≠ [] := by intro h'; simp [os, h'] at hn
  have hmean : h.mean = dbar := mean_is_arithmetic_mean ms os hne
  have hrecv : h.totalRecv = (rtts os).length := by
    have := congrArg Stats.recv (stats_fold (F := Rat) ms os); simpa [statsOf, reagg] using this
  refine ⟨hrecv, ?_⟩
  rw [(m2_is_squared_deviation_sum ms os).2, hrecv]
  show ((msOf (rtts os)).map fun x => (x - h.mean) * (x - h.mean)).sum / _ = _
  rw [hmean]

/-
Historical note: before the repair of state.rs:637-638 the code updated `m2` with the *new* mean in
both factors (`m2 += (x − mean_new)²`); on the series 1 ms, 3 ms that gives `m2 = 1`, `stddev_ms = 1`
where the sum of squared deviations is 2 (√2).  The model then mirrored that recurrence and only a
partial statement could be proved; the harness oracle kind `c05-stddev` reported it.
-/

/-! ### non-vacuity -/

def pr (ttl round seq : Nat) : Probe :=
  { seq := seq, ident := 1, srcPort := 5000, destPort := 33434, ttl := ttl, round := round,
    sent := 1000000 * round, flags := 0 }
def cp (ttl round seq host rtt : Nat) : Slot :=
  .complete { probe := pr ttl round seq, host := host, received := 1000000 * round + rtt,
              kind := .timeExceeded 0, tos := some 4, expCk := none, actCk := none, ext := none }
/-- three rounds from first ttl 2: ECMP at ttl 2, loss behind ttl 3 in round 1 (forward loss at 3,
backward loss at 4), a failed probe and a skipped slot in round 2 -/
def exHist : List Round :=
  [ { probes := [cp 2 0 100 20 1000, cp 3 0 101 30 3000, cp 4 0 102 7 9000], largestTtl := 4, reason := .targetFound },
    { probes := [cp 2 1 103 21 5000, .awaited (pr 3 1 104), .awaited (pr 4 1 105)], largestTtl := 3,
      reason := .roundTimeLimitExceeded },
    { probes := [cp 2 2 106 20 2000, .skipped, .failed (pr 3 2 107), cp 4 2 108 7 4000], largestTtl := 4,
      reason := .targetFound } ]

example : ∀ r ∈ exHist, RoundWF r := by decide
example : (reagg 2 (outcomes 2 exHist)).sent = 3 ∧ (reagg 2 (outcomes 2 exHist)).recv = 3 ∧
    (reagg 2 (outcomes 2 exHist)).addrs = [(20, 2), (21, 1)] ∧
    (reagg 2 (outcomes 2 exHist)).samples = [2000, 5000] ∧
    (reagg 2 (outcomes 2 exHist)).best = some 1000 ∧ (reagg 2 (outcomes 2 exHist)).worst = some 5000 := by decide
example : (reagg 0 (outcomes 3 exHist)).forwardLost = 1 ∧ (reagg 0 (outcomes 4 exHist)).backwardLost = 1 ∧
    (reagg 0 (outcomes 3 exHist)).failed = 1 ∧ (reagg 0 (outcomes 3 exHist)).samples = [] := by decide
example : jitterSpec (outcomes 2 exHist) = some 3000 ∧ jmaxSpec (outcomes 2 exHist) = some 4000 := by decide

end TV.Props.C05

#print axioms TV.Props.C05.refinement
#print axioms TV.Props.C05.refinement_default_flow
#print axioms TV.Props.C05.refinement_fields
#print axioms TV.Props.C05.refinement_jitter
#print axioms TV.Props.C05.refinement_jitter_rat
#print axioms TV.Props.C05.reagg_laws
#print axioms TV.Props.C05.conservation
#print axioms TV.Props.C05.derived_ranges
#print axioms TV.Props.C05.mean_two_pass
#print axioms TV.Props.C05.javg_two_pass
#print axioms TV.Props.C05.welford_is_two_pass
#print axioms TV.Props.C05.welford_m2_two_pass
#print axioms TV.Props.C05.variance_two_pass
