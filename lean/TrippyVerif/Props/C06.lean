import TrippyVerif.Lemmas.StrategyHist
/-!
# C06 — probe scheduling discipline: TTL order, limits and in-flight window

For every builder-accepted configuration (`CfgOk`: 1 ≤ first-ttl ≤ 254, max-ttl ≤ 254, …), every
reachable state (any environment: arrival orders, timings, send failures, any number of rounds)
and every loop iteration.
-/
namespace TV.Props.C06
open TV TV.Strat

/-- Whenever an iteration hands probes to `send_probe`: the target has not answered in this
round, the TTL is the state's next TTL and does not exceed max-ttl, does not exceed the target's
distance when that is known, and otherwise lies at most max-inflight beyond the farthest hop that
has answered in this round (beyond first-ttl − 1 if none has).  All probes of the iteration (a
TCP probe re-issued after address-in-use) carry that same TTL and the current round id. -/
theorem send_discipline {c : Cfg} (hc : CfgOk c) {s s' : TS} (hs : Reach c s) {e : IterEnv} {o : IterOut}
    (h : iter c s e = .ok (s', o)) (hne : o.sent ≠ []) :
    s.targetFound = false ∧ c.firstTtl ≤ s.ttl ∧ s.ttl ≤ c.maxTtl ∧
    (∀ t, s.targetTtl = some t → s.ttl ≤ t) ∧
    (s.targetTtl = none → s.ttl - s.maxRecvTtl.getD (c.firstTtl - 1) ≤ c.maxInflight) ∧
    (∀ x ∈ o.sent, x.1.ttl = s.ttl ∧ x.1.round = s.round) := by
  obtain ⟨s1, s2, h1, _, _⟩ := iter_decomp h
  have hi := reach_inv hc hs
  obtain ⟨hcs, hso⟩ := ((sendRequest_spec hc hi e.sends).2 s1 o.sent h1).2.2 hne
  simp only [canSend, Bool.and_eq_true, Bool.not_eq_true', decide_eq_true_eq] at hcs
  refine ⟨hcs.1.1, hi.ttl_ge, hcs.1.2, ?_, ?_, fun x hx => ⟨(hso.each x hx).1, (hso.each x hx).2.1⟩⟩
  · intro t ht; have := hcs.2; simp [ht] at this; exact this
  · intro ht; have := hcs.2; simp [ht] at this; omega

/-- TTLs advance by exactly one per sending iteration, never otherwise; a new round restarts at
first-ttl.  Hence within a round the TTLs sent are first-ttl, first-ttl+1, … without gaps or
repeats. -/
theorem ttl_progression {c : Cfg} (hc : CfgOk c) {s s' : TS} (hs : Reach c s) {e : IterEnv} {o : IterOut}
    (h : iter c s e = .ok (s', o)) :
    (o.published = none → s'.round = s.round ∧ s'.ttl = if o.sent = [] then s.ttl else s.ttl + 1) ∧
    (o.published ≠ none → s'.round = s.round + 1 ∧ s'.ttl = c.firstTtl) := by
  obtain ⟨s1, s2, h1, h2, h3⟩ := iter_decomp h
  have hi := reach_inv hc hs
  obtain ⟨hi1, hnil, hcons⟩ := (sendRequest_spec hc hi e.sends).2 s1 o.sent h1
  obtain ⟨_, _, ht2, hr2, _, _⟩ := recv_fields hi1 h2
  have hi2 := (recvResponse_inv hi1 e.dt e.recv).2 s2 h2
  have h1ttl : s1.ttl = (if o.sent = [] then s.ttl else s.ttl + 1) ∧ s1.round = s.round := by
    by_cases hn : o.sent = []
    · obtain ⟨rfl, _⟩ := hnil hn; simp [hn]
    · obtain ⟨_, hso⟩ := hcons hn; simp [hn, hso.ttl, hso.same.2.1]
  obtain ⟨hu1, hu2⟩ := updateRound_spec hc hi2
  by_cases hrc : roundComplete c s2 = true
  · obtain ⟨r, _, hu⟩ := hu2 hrc
    rw [hu] at h3; simp at h3; obtain ⟨e1, e2⟩ := h3
    subst e1
    refine ⟨fun hp => (by rw [hp] at e2; cases e2), fun _ => ⟨by simp [afterAdvance]; omega, by simp [afterAdvance]⟩⟩
  · have hu := hu1 (by simpa using hrc)
    rw [hu] at h3; simp at h3; obtain ⟨e1, e2⟩ := h3
    subst e1
    exact ⟨fun _ => ⟨by omega, by omega⟩, fun hp => absurd e2.symm hp⟩

/-- a round starts with TTL first-ttl: nothing has been allocated ⇒ the next TTL is first-ttl -/
theorem round_starts_at_first_ttl {c : Cfg} (hc : CfgOk c) {s : TS} (hs : Reach c s)
    (h0 : s.sequence = s.roundSeq) : s.ttl = c.firstTtl := by
  have hi := reach_inv hc hs
  have h1 := hi.count_ge; have h2 := hi.ttl_ge
  simp [TS.count, h0] at h1; omega

/-- the beginning of a round: nothing allocated, nothing received, target not yet found -/
structure RoundStart (c : Cfg) (s : TS) : Prop where
  inv : Inv c s
  ttl : s.ttl = c.firstTtl
  notFound : s.targetFound = false
  noRecv : s.maxRecvTtl = none

theorem roundStart_init {c : Cfg} (hc : CfgOk c) (t0 : Nat) : RoundStart c (init c t0) :=
  ⟨inv_init hc t0, rfl, rfl, rfl⟩

/-- every published round is followed by a round-start state -/
theorem roundStart_after_publish {c : Cfg} (hc : CfgOk c) {s s' : TS} (hs : Reach c s) {e : IterEnv}
    {o : IterOut} (h : iter c s e = .ok (s', o)) (hp : o.published ≠ none) : RoundStart c s' := by
  obtain ⟨s1, s2, h1, h2, h3⟩ := iter_decomp h
  have hi := reach_inv hc hs
  have hi1 := ((sendRequest_spec hc hi e.sends).2 s1 o.sent h1).1
  have hi2 := (recvResponse_inv hi1 e.dt e.recv).2 s2 h2
  obtain ⟨hu1, hu2⟩ := updateRound_spec hc hi2
  by_cases hrc : roundComplete c s2 = true
  · obtain ⟨r, _, hu⟩ := hu2 hrc
    rw [hu] at h3; simp at h3; obtain ⟨e1, _⟩ := h3
    subst e1
    exact ⟨inv_afterAdvance hc hi2, rfl, rfl, rfl⟩
  · have hu := hu1 (by simpa using hrc)
    rw [hu] at h3; simp at h3; exact absurd h3.2.symm hp

/-- **Liveness.** The first iteration of every round hands the first-ttl probe to `send_probe`
(or ends the run with a send error) — for every first-ttl ≤ max-ttl and max-inflight ≥ 1. -/
theorem first_probe_sent {c : Cfg} (hc : CfgOk c) {s : TS} (hr : RoundStart c s)
    (hfm : c.firstTtl ≤ c.maxTtl) (hinf : 1 ≤ c.maxInflight) (sends : List SendOutcome) :
    match sendRequest c s sends with
    | .ok (_, lg) => lg ≠ [] ∧ ∀ x ∈ lg, x.1.ttl = c.firstTtl
    | .err _ => True
    | .panic => False := by
  have hcan : canSend c s = true := by
    have hf := hc.first_ge
    simp only [canSend, hr.notFound, hr.ttl, hr.noRecv, Bool.not_false, Bool.true_and,
      Bool.and_eq_true, decide_eq_true_eq]
    refine ⟨hfm, ?_⟩
    cases ht : s.targetTtl with
    | none => simp; omega
    | some t => simp; exact (hr.inv.tgt t ht).1
  obtain ⟨hnp, hsp⟩ := sendRequest_spec hc hr.inv sends
  cases hsr : sendRequest c s sends with
  | panic => exact absurd hsr hnp
  | err e => trivial
  | ok v =>
    obtain ⟨s1, lg⟩ := v
    obtain ⟨_, hnil, hcons⟩ := hsp s1 lg hsr
    have hne : lg ≠ [] := by
      intro e; have := (hnil e).2; rw [hcan] at this; cases this
    exact ⟨hne, fun x hx => by rw [((hcons hne).2.each x hx).1, hr.ttl]⟩

/-- `target_found` is raised exactly by a genuine response from the target, within the round -/
theorem target_found_iff {c : Cfg} (hc : CfgOk c) {s : TS} (hs : Reach c s) (dt : Nat) (r : Resp) (s2 : TS)
    (h : recvResponse c s dt (.resp r) = .ok s2) :
    s2.targetFound = (s.targetFound || ((genuine c s r).isSome && (strategyResp c r).isTarget)) := by
  rw [recvResponse_spec (reach_inv hc hs)] at h
  cases hg : genuine c s r with
  | none => simp [hg] at h; subst h; simp [tick]
  | some p => simp [hg] at h; subst h; simp [afterComplete, tick]

/-! ### the whole TTL trace of a round -/

/-- reachable states together with the log of `send_probe` calls of the round in progress -/
inductive ReachLog (c : Cfg) : TS → List (Probe × SendOutcome) → Prop
  | init (t0 : Nat) : ReachLog c (init c t0) []
  | step {s s' : TS} {log : List (Probe × SendOutcome)} (e : IterEnv) (o : IterOut) :
      ReachLog c s log → iter c s e = .ok (s', o) →
      ReachLog c s' (if o.published.isSome then [] else log ++ o.sent)

theorem ReachLog.reach {c : Cfg} {s : TS} {log} (h : ReachLog c s log) : Reach c s := by
  induction h with
  | init t0 => exact .init t0
  | step e o _ hit ih => exact .step e o ih hit

/-- one iteration extends a well-formed TTL trace by exactly one fresh TTL (or by nothing) -/
theorem trace_step {c : Cfg} (hc : CfgOk c) {s s' : TS} (hs : Reach c s) {e : IterEnv} {o : IterOut}
    (h : iter c s e = .ok (s', o)) (log : List (Probe × SendOutcome))
    (hl : ttlsFrom c.firstTtl log = some s.ttl) :
    ttlsFrom c.firstTtl (log ++ o.sent) = some (if o.sent = [] then s.ttl else s.ttl + 1) := by
  obtain ⟨s1, s2, h1, _, _⟩ := iter_decomp h
  have hi := reach_inv hc hs
  obtain ⟨_, _, hcons⟩ := (sendRequest_spec hc hi e.sends).2 s1 o.sent h1
  rw [ttlsFrom_append, hl]
  by_cases hn : o.sent = []
  · simp [hn, ttlsFrom]
  · obtain ⟨_, hso⟩ := hcons hn
    simp only [Option.bind_some, hn, if_false]
    exact ttlsFrom_iteration s.ttl o.sent (sendRequest_shape c s e.sends s1 o.sent h1 hn)
      (fun x hx => (hso.each x hx).1)

/-- **TTL order of a whole round.**  In every reachable state the `send_probe` calls of the round in
progress carry the TTLs first-ttl, first-ttl+1, … in order, without gaps or repeats, except that
the call following an address-in-use outcome repeats the TTL (the re-issued probe); and the next
TTL to be used is the state's. -/
theorem round_ttl_trace {c : Cfg} (hc : CfgOk c) {s : TS} {log : List (Probe × SendOutcome)}
    (h : ReachLog c s log) : ttlsFrom c.firstTtl log = some s.ttl := by
  induction h with
  | init t0 => simp [ttlsFrom, init]
  | @step s s' log e o hr hit ih =>
    have hstep := trace_step hc hr.reach hit log ih
    obtain ⟨hp1, hp2⟩ := ttl_progression hc hr.reach hit
    cases hpub : o.published with
    | none =>
      simp only [Option.isSome_none, Bool.false_eq_true, if_false]
      rw [hstep, (hp1 hpub).2]
    | some r =>
      simp only [Option.isSome_some, if_true]
      rw [(hp2 (by simp [hpub])).2]; rfl

/-- the complete log of every published round is such a trace, and it holds exactly one entry per
entry of the published round -/
theorem published_round_ttl_trace {c : Cfg} (hc : CfgOk c) {s s' : TS} {log : List (Probe × SendOutcome)}
    (hr : ReachLog c s log) {e : IterEnv} {o : IterOut} (hit : iter c s e = .ok (s', o)) :
    ∃ t, ttlsFrom c.firstTtl (log ++ o.sent) = some t ∧ t ≤ 255 := by
  have hstep := trace_step hc hr.reach hit log (round_ttl_trace hc hr)
  refine ⟨_, hstep, ?_⟩
  have hi := reach_inv hc hr.reach
  obtain ⟨s1, s2, h1, _, _⟩ := iter_decomp hit
  obtain ⟨_, hnil, hcons⟩ := (sendRequest_spec hc hi e.sends).2 s1 o.sent h1
  by_cases hn : o.sent = []
  · simp only [hn, if_true]; have := hi.ttl_le; omega
  · simp only [hn, if_false]
    have hcs := (hcons hn).1
    simp only [canSend, Bool.and_eq_true, Bool.not_eq_true', decide_eq_true_eq] at hcs
    have := hc.max_le
    omega

/-- what the trace predicate means, spelled out on an example: TTLs 1, 2, 2 (re-issue), 3 -/
example : ttlsFrom 1 [(⟨0, 0, 0, 0, 1, 0, 0, 0⟩, .ok), (⟨1, 0, 0, 0, 2, 0, 0, 0⟩, .addrInUse), (⟨2, 0, 0, 0, 2, 0, 0, 0⟩, .ok),
    (⟨3, 0, 0, 0, 3, 0, 0, 0⟩, .probeFailed)] = some 4 := by decide
/-- a gap and a repeat are both rejected -/
example : ttlsFrom 1 [(⟨0, 0, 0, 0, 1, 0, 0, 0⟩, .ok), (⟨1, 0, 0, 0, 3, 0, 0, 0⟩, .ok)] = none := by decide
example : ttlsFrom 1 [(⟨0, 0, 0, 0, 1, 0, 0, 0⟩, .ok), (⟨1, 0, 0, 0, 1, 0, 0, 0⟩, .ok)] = none := by decide

end TV.Props.C06

#print axioms TV.Props.C06.send_discipline
#print axioms TV.Props.C06.ttl_progression
#print axioms TV.Props.C06.round_starts_at_first_ttl
#print axioms TV.Props.C06.roundStart_after_publish
#print axioms TV.Props.C06.first_probe_sent
#print axioms TV.Props.C06.target_found_iff
#print axioms TV.Props.C06.round_ttl_trace
#print axioms TV.Props.C06.published_round_ttl_trace
