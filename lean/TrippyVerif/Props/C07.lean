import TrippyVerif.Lemmas.Strategy
/-!
# C07 — sequence numbers stay unique, in range and inside the round buffer

For every builder-accepted configuration (initial sequence 0..=64511, both maximum-sequence
regimes), every environment (any per-round probe and re-issue counts), unboundedly many rounds.
The constants `BUFFER_SIZE`, `MAX_SEQUENCE`, `MAX_INITIAL_SEQUENCE` come from `Gen/Consts.lean`,
regenerated from the source on every run.
-/
namespace TV.Props.C07
open TV TV.Strat

/-- (a) the sequence numbers handed out in an iteration are consecutive, starting at the state's
next sequence number; none reaches 65535 -/
theorem consecutive {c : Cfg} (hc : CfgOk c) {s s' : TS} (hs : Reach c s) {e : IterEnv} {o : IterOut}
    (h : iter c s e = .ok (s', o)) :
    o.sent.map (fun x => x.1.seq) = List.range' s.sequence o.sent.length ∧
    ∀ x ∈ o.sent, x.1.seq < 65535 := by
  obtain ⟨s1, s2, h1, _, _⟩ := iter_decomp h
  have hi := reach_inv hc hs
  obtain ⟨hi1, hnil, hcons⟩ := (sendRequest_spec hc hi e.sends).2 s1 o.sent h1
  by_cases hn : o.sent = []
  · simp [hn]
  · obtain ⟨_, hso⟩ := hcons hn
    refine ⟨hso.seqs, fun x hx => ?_⟩
    have hmem : x.1.seq ∈ o.sent.map (fun x => x.1.seq) := List.mem_map_of_mem hx
    rw [hso.seqs, List.mem_range'_1] at hmem
    have h1s := hi1.seq_eq; have h2 := hi1.rs_lt; have h3 := maxSeqN_le hc; have h4 := hi1.count_le
    have := hso.seq
    simp [BUFFER_SIZE_eq] at h4; omega

/-- (a, b) in every reachable state: the round has allocated `sequence − round_sequence ≤ 512`
consecutive numbers, `initial ≤ round_sequence < max_sequence ≤ 65023`, `sequence ≤ 65534` -/
theorem window {c : Cfg} (hc : CfgOk c) {s : TS} (hs : Reach c s) :
    s.roundSeq ≤ s.sequence ∧ s.sequence - s.roundSeq ≤ 512 ∧ c.initialSeq ≤ s.roundSeq ∧
    s.roundSeq < maxSeqN c ∧ maxSeqN c ≤ 65023 ∧ s.sequence ≤ 65534 := by
  have hi := reach_inv hc hs
  have h1 := hi.seq_eq; have h2 := hi.rs_lt; have h3 := maxSeqN_le hc; have h4 := hi.count_le
  simp [BUFFER_SIZE_eq, TS.count] at h4
  exact ⟨hi.seq_ge, by omega, hi.rs_ge, h2, h3, by unfold TS.count at h1; omega⟩

/-- every probe recorded in the buffer for the current round sits at index `sequence −
round_sequence` of the buffer (so indices are `< 512`) -/
theorem slot_index {c : Cfg} (hc : CfgOk c) {s : TS} (hs : Reach c s) (k : Nat) (sl : Slot) (p : Probe)
    (h1 : s.buffer[k]? = some sl) (h2 : sl.probe? = some p) (h3 : p.round = s.round) :
    k < 512 ∧ p.seq = s.roundSeq + k ∧ p.seq < s.sequence := by
  have hi := reach_inv hc hs
  obtain ⟨a, b, _, _⟩ := (hi.slots k sl p h1 h2).2 h3
  have := hi.count_le; have := hi.seq_eq
  simp [BUFFER_SIZE_eq] at *; omega

/-- (c) across a round boundary sequence numbers only move forward or restart at the initial
sequence -/
theorem round_boundary {c : Cfg} (hc : CfgOk c) {s s' : TS} (hs : Reach c s) {e : IterEnv} {o : IterOut}
    (h : iter c s e = .ok (s', o)) (hp : o.published ≠ none) :
    s'.sequence = s'.roundSeq ∧
    (s'.roundSeq = s.sequence + o.sent.length ∨ s'.roundSeq = c.initialSeq) := by
  obtain ⟨s1, s2, h1, h2, h3⟩ := iter_decomp h
  have hi := reach_inv hc hs
  obtain ⟨hi1, hnil, hcons⟩ := (sendRequest_spec hc hi e.sends).2 s1 o.sent h1
  obtain ⟨hq2, _⟩ := recv_fields hi1 h2
  have hi2 := (recvResponse_inv hi1 e.dt e.recv).2 s2 h2
  have hseq1 : s1.sequence = s.sequence + o.sent.length := by
    by_cases hn : o.sent = []
    · obtain ⟨rfl, _⟩ := hnil hn; simp [hn]
    · exact (hcons hn).2.seq
  obtain ⟨hu1, hu2⟩ := updateRound_spec hc hi2
  by_cases hrc : roundComplete c s2 = true
  · obtain ⟨r, _, hu⟩ := hu2 hrc
    rw [hu] at h3; simp at h3; obtain ⟨e1, _⟩ := h3
    subst e1
    refine ⟨by simp [afterAdvance], ?_⟩
    simp only [afterAdvance]
    split
    · exact Or.inr rfl
    · exact Or.inl (by omega)
  · have hu := hu1 (by simpa using hrc)
    rw [hu] at h3; simp at h3; exact absurd h3.2.symm hp

/-- (d) exhausting a round's sequence budget never indexes outside the buffer: no loop iteration
panics (array index, `u8`/`u16` overflow, `debug_assert!`, `unimplemented!`), in any environment -/
theorem no_panic {c : Cfg} (hc : CfgOk c) {s : TS} (hs : Reach c s) (e : IterEnv) :
    iter c s e ≠ .panic := (iter_inv hc (reach_inv hc hs) e).1

/-- … and for ICMP and UDP the budget cannot even be exhausted -/
theorem non_tcp_count {c : Cfg} (hc : CfgOk c) {s : TS} (hs : Reach c s) (hp : c.proto ≠ .tcp) :
    s.sequence - s.roundSeq = s.ttl - c.firstTtl ∧ s.sequence - s.roundSeq ≤ 254 := by
  have hi := reach_inv hc hs
  have h1 := hi.count_ttl hp; have h2 := hi.ttl_le; have h3 := hc.first_ge
  unfold TS.count at h1
  exact ⟨h1, by omega⟩

/-- (e) Dublin/IPv6: the payload length derived from the sequence (`sequence − initial` octets
plus the 6-octet marker) always fits the 976-octet UDP payload buffer -/
theorem dublin_ipv6_payload_fits {c : Cfg} (hc : CfgOk c) {s s' : TS} (hs : Reach c s) {e : IterEnv}
    {o : IterOut} (h : iter c s e = .ok (s', o)) (hd : c.strat = .dublin) (h6 : c.v6 = true)
    (hu : c.proto = .udp) :
    ∀ x ∈ o.sent, c.initialSeq ≤ x.1.seq ∧
      x.1.seq - c.initialSeq + Consts.net6_MAGIC.length ≤ Consts.net6_MAX_UDP_PAYLOAD_BUF := by
  intro x hx
  obtain ⟨s1, s2, h1, _, _⟩ := iter_decomp h
  have hi := reach_inv hc hs
  obtain ⟨hi1, hnil, hcons⟩ := (sendRequest_spec hc hi e.sends).2 s1 o.sent h1
  have hn : o.sent ≠ [] := List.ne_nil_of_mem hx
  obtain ⟨_, hso⟩ := hcons hn
  have hmem : x.1.seq ∈ o.sent.map (fun x => x.1.seq) := List.mem_map_of_mem hx
  rw [hso.seqs, List.mem_range'_1] at hmem
  have hcnt := hi1.count_ttl (by simp [hu])
  have h1s := hi1.seq_eq; have h2 := hi1.rs_lt; have h4 := hi1.ttl_le; have h5 := hc.first_ge
  have h6' := hi.rs_ge; have h7 := hi.seq_ge
  have hms : maxSeqN c = c.initialSeq + 512 := by simp [maxSeqN, hd, h6, BUFFER_SIZE_eq]
  have := hso.seq
  simp only [Consts.net6_MAGIC, Consts.net6_MAX_UDP_PAYLOAD_BUF, List.length_cons, List.length_nil]
  omega

/-- (f) **separation** — the sequence numbers of consecutive rounds are disjoint whenever the two
rounds together use at most 512 sequence numbers (always the case for ICMP and UDP, which use
at most 254 per round): the new round's window `[round_sequence', round_sequence' + m)` does not
meet the previous round's `[round_sequence, sequence)`. -/
theorem separation {c : Cfg} (hc : CfgOk c) {s : TS} (hi : Inv c s) (m : Nat)
    (hm : s.count + m ≤ 512) (q : Nat) (hq1 : s.roundSeq ≤ q) (hq2 : q < s.sequence) :
    ¬ ((afterAdvance c s).roundSeq ≤ q ∧ q < (afterAdvance c s).roundSeq + m) := by
  have h1 := hi.seq_eq; have h2 := hi.rs_ge; have hle := hc.init_le
  simp only [afterAdvance]
  split
  · rename_i hge
    have : maxSeqN c = c.initialSeq + 512 ∨ maxSeqN c = 65023 := by
      unfold maxSeqN; split <;> simp [BUFFER_SIZE_eq, MAX_SEQUENCE_eq]
    rcases this with h | h <;> omega
  · omega

/-- the residual corner (cannot be repaired without changing `MAX_INITIAL_SEQUENCE`, which the
repository's own `test_invalid_initial_sequence` pins): with initial sequence 64511 a round that
used all 512 numbers is followed by a round that reuses them (only TCP can use 512). -/
def cfgW : Cfg :=
  { v6 := false, target := 7, proto := .tcp, traceId := 0, maxRounds := none, firstTtl := 1,
    maxTtl := 30, grace := 100, maxInflight := 24, initialSeq := 64511, strat := .classic,
    portDir := .fixedSrc 5000, minRound := 1000, maxRound := 1000 }

theorem separation_residual_witness :
    ∃ s : TS, s.roundSeq = 64511 ∧ s.sequence = 65023 ∧ (afterAdvance cfgW s).roundSeq = 64511 :=
  ⟨{ init cfgW 0 with sequence := 65023 }, rfl, rfl, by decide⟩

/-- and a response can only be accepted for a sequence number allocated in the current round,
so with disjoint windows a response to the previous round's probe is never accepted -/
theorem accepted_is_current {c : Cfg} (hc : CfgOk c) {s : TS} (hs : Reach c s) {r : Resp} {p : Probe}
    (hg : genuine c s r = some p) : s.roundSeq ≤ p.seq ∧ p.seq < s.sequence ∧ p.round = s.round := by
  unfold genuine at hg
  split at hg
  · obtain ⟨a, b, c1, d, _, _, _⟩ := answered_props (reach_inv hc hs) hg
    exact ⟨by omega, by omega, d⟩
  · cases hg

end TV.Props.C07

#print axioms TV.Props.C07.consecutive
#print axioms TV.Props.C07.window
#print axioms TV.Props.C07.slot_index
#print axioms TV.Props.C07.round_boundary
#print axioms TV.Props.C07.no_panic
#print axioms TV.Props.C07.non_tcp_count
#print axioms TV.Props.C07.dublin_ipv6_payload_fits
#print axioms TV.Props.C07.separation
#print axioms TV.Props.C07.separation_residual_witness
#print axioms TV.Props.C07.accepted_is_current
