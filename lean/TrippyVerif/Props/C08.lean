import TrippyVerif.Lemmas.Strategy
/-!
# C08 — rounds end exactly when the timing policy says

Time is the virtual clock in nanoseconds; an iteration waits `dt` inside `recv_probe`; the
round-completion check then reads the clock at `now + dt`.  For every configuration with any
min/max/grace durations (zero included), every reachable state and every environment.
-/
namespace TV.Props.C08
open TV TV.Strat

/-- the policy, spelled out: duration exceeds max-round-duration, or the target answered in this
round and duration exceeds min-round-duration and more than grace-duration has passed since the
last accepted response -/
def policy (c : Cfg) (roundStart now : Nat) (targetFound : Bool) (lastResp : Option Nat) : Prop :=
  now - roundStart > c.maxRound ∨
  (targetFound = true ∧ now - roundStart > c.minRound ∧ ∃ r, lastResp = some r ∧ now - r > c.grace)

theorem roundComplete_iff (c : Cfg) (s : TS) :
    roundComplete c s = true ↔ policy c s.roundStart s.now s.targetFound s.recvTime := by
  unfold roundComplete policy exceeds
  cases hr : s.recvTime with
  | none => simp
  | some r =>
    simp only [Bool.or_eq_true, Bool.and_eq_true, decide_eq_true_eq]
    constructor
    · rintro (⟨⟨a, b⟩, c1⟩ | d)
      · exact Or.inr ⟨c1, a, r, rfl, b⟩
      · exact Or.inl d
    · rintro (d | ⟨c1, a, r', hr', b⟩)
      · exact Or.inr d
      · cases hr'; exact Or.inl ⟨⟨a, b⟩, c1⟩

/-- (1)(2)(4): a round is published in an iteration **iff** the policy holds at the clock reading
after the wait; the reason says which trigger (`TargetFound` iff the target answered in this
round — when both triggers hold the code reports `TargetFound`); and the next round starts at
that very instant. -/
theorem publish_iff {c : Cfg} (hc : CfgOk c) {s s' : TS} (hs : Reach c s) {e : IterEnv} {o : IterOut}
    (h : iter c s e = .ok (s', o)) :
    ∃ s2 : TS, s2.roundStart = s.roundStart ∧ s2.now = s.now + e.dt ∧
      (o.published ≠ none ↔ policy c s.roundStart (s.now + e.dt) s2.targetFound s2.recvTime) ∧
      (∀ r, o.published = some r →
        (r.reason = .targetFound ↔ s2.targetFound = true) ∧
        (r.reason = .roundTimeLimitExceeded → (s.now + e.dt) - s.roundStart > c.maxRound) ∧
        s'.roundStart = s.now + e.dt ∧ s'.now = s.now + e.dt) ∧
      (o.published = none → s'.roundStart = s.roundStart ∧ s'.now = s.now + e.dt) := by
  obtain ⟨s1, s2, h1, h2, h3⟩ := iter_decomp h
  have hi := reach_inv hc hs
  obtain ⟨hi1, hnil, hcons⟩ := (sendRequest_spec hc hi e.sends).2 s1 o.sent h1
  have hsame : s1.roundStart = s.roundStart ∧ s1.now = s.now := by
    by_cases hn : o.sent = []
    · obtain ⟨rfl, _⟩ := hnil hn; exact ⟨rfl, rfl⟩
    · have := (hcons hn).2.same; exact ⟨this.2.2.1.symm, this.2.2.2.2.2.2.2.symm⟩
  obtain ⟨_, _, _, _, hrs2, hnow2⟩ := recv_fields hi1 h2
  have hi2 := (recvResponse_inv hi1 e.dt e.recv).2 s2 h2
  have hstart : s2.roundStart = s.roundStart := by rw [hrs2, hsame.1]
  have hnow : s2.now = s.now + e.dt := by rw [hnow2, hsame.2]
  refine ⟨s2, hstart, hnow, ?_⟩
  have hpol := roundComplete_iff c s2
  rw [hstart, hnow] at hpol
  obtain ⟨hu1, hu2⟩ := updateRound_spec hc hi2
  by_cases hrc : roundComplete c s2 = true
  · obtain ⟨r, hr, hu⟩ := hu2 hrc
    rw [hu] at h3; simp at h3; obtain ⟨e1, e2⟩ := h3
    subst e1
    obtain ⟨r', hr', _, hreason, _⟩ := publishTrace_ok hc hi2
    rw [hr] at hr'; cases hr'
    refine ⟨⟨fun _ => hpol.mp hrc, fun _ => by rw [← e2]; simp⟩, ?_, fun hn => by rw [← e2] at hn; cases hn⟩
    intro r0 hr0
    rw [← e2] at hr0; cases hr0
    refine ⟨?_, ?_, by simp [afterAdvance, hnow], by simp [afterAdvance, hnow]⟩
    · rw [hreason]; cases s2.targetFound <;> simp
    · intro hl
      rw [hreason] at hl
      have hnf : s2.targetFound = false := by cases htf : s2.targetFound <;> simp [htf] at hl ⊢
      rcases hpol.mp hrc with d | ⟨t, _⟩
      · exact d
      · rw [hnf] at t; cases t
  · have hrc' : roundComplete c s2 = false := by simpa using hrc
    have hu := hu1 hrc'
    rw [hu] at h3; simp at h3; obtain ⟨e1, e2⟩ := h3
    subst e1
    refine ⟨⟨fun hp => absurd e2.symm hp, fun hp => absurd (hpol.mpr hp) hrc⟩, ?_, fun _ => ⟨hstart, hnow⟩⟩
    intro r hr
    rw [← e2] at hr; cases hr

/-- (3) a round is never held open past max-round-duration by more than the wait of one
iteration: if the duration exceeds max-round-duration at the check, the round is published; so if
it was not yet exceeded at the previous check (`now − round_start ≤ max`), the round is published
at duration ≤ max + dt, where `dt` is bounded by the read timeout (an assumption about
`Socket::is_readable`, see DESIGN.md). -/
theorem never_held_open {c : Cfg} (hc : CfgOk c) {s s' : TS} (hs : Reach c s) {e : IterEnv} {o : IterOut}
    (h : iter c s e = .ok (s', o)) (hex : (s.now + e.dt) - s.roundStart > c.maxRound) :
    o.published ≠ none := by
  obtain ⟨s2, _, _, hiff, _⟩ := publish_iff hc hs h
  exact hiff.mpr (Or.inl hex)

theorem publish_bound {c : Cfg} {s : TS} {dt : Nat} (hprev : s.now - s.roundStart ≤ c.maxRound) :
    (s.now + dt) - s.roundStart ≤ c.maxRound + dt := by omega

/-! non-vacuity: all 16 combinations of the four atoms of the policy are satisfiable; here the two
triggers, each alone -/
def cfgEx : Cfg :=
  { v6 := false, target := 7, proto := .icmp, traceId := 1, maxRounds := none, firstTtl := 1,
    maxTtl := 30, grace := 2, maxInflight := 24, initialSeq := 33434, strat := .classic,
    portDir := .none, minRound := 5, maxRound := 10 }
example : policy cfgEx 0 11 false none := by simp [policy, cfgEx]
example : policy cfgEx 0 6 true (some 3) ∧ ¬ policy cfgEx 0 6 true (some 4) ∧
    ¬ policy cfgEx 0 5 true (some 1) := by simp [policy, cfgEx]

end TV.Props.C08

#print axioms TV.Props.C08.roundComplete_iff
#print axioms TV.Props.C08.publish_iff
#print axioms TV.Props.C08.never_held_open
#print axioms TV.Props.C08.publish_bound
