import TrippyVerif.Lemmas.Strategy
/-!
# C09 — termination, round count and failure semantics

`run c s es` is `Strategy::run` over a finite list of iteration environments (send outcomes,
wait, receive outcome per iteration).  All theorems hold for every builder-accepted
configuration and every environment.
-/
namespace TV.Props.C09
open TV TV.Strat

/-- number of rounds published by a list of iteration outputs -/
def publishedCount (outs : List IterOut) : Nat := (outs.filter fun o => o.published.isSome).length

/-- one iteration: the round id advances by one exactly when a round is published -/
theorem round_step {c : Cfg} (hc : CfgOk c) {s s' : TS} (hs : Reach c s) {e : IterEnv} {o : IterOut}
    (h : iter c s e = .ok (s', o)) : s'.round = s.round + (if o.published.isSome then 1 else 0) := by
  obtain ⟨s1, s2, h1, h2, h3⟩ := iter_decomp h
  have hi := reach_inv hc hs
  obtain ⟨hi1, hnil, hcons⟩ := (sendRequest_spec hc hi e.sends).2 s1 o.sent h1
  have hr1 : s1.round = s.round := by
    by_cases hn : o.sent = []
    · obtain ⟨rfl, _⟩ := hnil hn; rfl
    · exact (hcons hn).2.same.2.1.symm
  obtain ⟨_, _, _, hr2, _, _⟩ := recv_fields hi1 h2
  have hi2 := (recvResponse_inv hi1 e.dt e.recv).2 s2 h2
  obtain ⟨hu1, hu2⟩ := updateRound_spec hc hi2
  by_cases hrc : roundComplete c s2 = true
  · obtain ⟨r, _, hu⟩ := hu2 hrc
    rw [hu] at h3; simp at h3; obtain ⟨e1, e2⟩ := h3
    subst e1; rw [← e2]; simp [afterAdvance]; omega
  · have hu := hu1 (by simpa using hrc)
    rw [hu] at h3; simp at h3; obtain ⟨e1, e2⟩ := h3
    subst e1; rw [← e2]; simp; omega

/-- the published rounds carry the ids `round, round+1, …` in order: every probe recorded in a
published round that belongs to it carries the id the state had when it was allocated; the k-th
published round of a run is round `k` (counting from the state's round) -/
theorem run_round_count {c : Cfg} (hc : CfgOk c) : ∀ (es : List IterEnv) {s : TS}, Reach c s →
    (run c s es).state.round = s.round + publishedCount (run c s es).outs ∧ Reach c (run c s es).state := by
  intro es
  induction es with
  | nil => intro s hs; simp [run, publishedCount]; exact hs
  | cons e es ih =>
    intro s hs
    simp only [run]
    split
    · simp [publishedCount]; exact hs
    · cases hi : iter c s e with
      | ok v =>
        obtain ⟨s', o⟩ := v
        have hs' := Reach.step e o hs hi
        obtain ⟨ih1, ih2⟩ := ih hs'
        have hstep := round_step hc hs hi
        simp only
        refine ⟨?_, ih2⟩
        rw [ih1, hstep]
        simp only [publishedCount, List.filter_cons]
        cases o.published <;> simp <;> omega
      | err er => simp [publishedCount]; exact hs
      | panic => simp [publishedCount]; exact hs

/-- With a round limit `n` the run returns success only after exactly `n` rounds have been
published (ids 0 … n−1), whatever the network returned or withheld; it never publishes more. -/
theorem exactly_n_rounds {c : Cfg} (hc : CfgOk c) (n : Nat) (hn : 1 ≤ n) (hm : c.maxRounds = some n)
    (t0 : Nat) (es : List IterEnv) :
    publishedCount (run c (init c t0) es).outs ≤ n ∧
    ((run c (init c t0) es).ended = some (.ok ()) → publishedCount (run c (init c t0) es).outs = n) := by
  have hcount := fun es => (run_round_count hc es (Reach.init (c := c) t0)).1
  have hle : ∀ (es : List IterEnv) {s : TS}, Reach c s → s.round ≤ n →
      (run c s es).state.round ≤ n ∧ ((run c s es).ended = some (.ok ()) → (run c s es).state.round = n) := by
    intro es
    induction es with
    | nil =>
      intro s _ hr
      simp only [run, finished, hm]
      refine ⟨hr, fun h => ?_⟩
      split at h
      · rename_i hf; simp at hf; omega
      · cases h
    | cons e es ih =>
      intro s hs hr
      simp only [run, finished, hm]
      split
      · rename_i hf; simp at hf; exact ⟨hr, fun _ => by show s.round = n; omega⟩
      · rename_i hf
        simp at hf
        cases hi : iter c s e with
        | ok v =>
          obtain ⟨s', o⟩ := v
          have hstep := round_step hc hs hi
          have hr' : s'.round ≤ n := by rw [hstep]; split <;> omega
          exact ih (Reach.step e o hs hi) hr'
        | err er => exact ⟨hr, fun h => by cases h⟩
        | panic => exact ⟨hr, fun h => by cases h⟩
  have h0 : (init c t0).round ≤ n := by simp [init]
  obtain ⟨a, b⟩ := hle es (Reach.init t0) h0
  have hc' := hcount es
  have h00 : (init c t0).round = 0 := rfl
  rw [h00] at hc'
  exact ⟨by omega, fun h => by have := b h; omega⟩

/-- the run never panics, in any environment -/
theorem run_never_panics {c : Cfg} (hc : CfgOk c) : ∀ (es : List IterEnv) {s : TS}, Reach c s →
    (run c s es).ended ≠ some .panic := by
  intro es
  induction es with
  | nil => intro s _; simp only [run]; split <;> simp
  | cons e es ih =>
    intro s hs
    simp only [run]
    split
    · simp
    · cases hi : iter c s e with
      | ok v => obtain ⟨s', o⟩ := v; exact ih (Reach.step e o hs hi)
      | err er => simp
      | panic => exact absurd hi (iter_inv hc (reach_inv hc hs) e).1

/-- a fatal receive outcome ends the iteration with that error -/
theorem fatal_recv_ends_run {c : Cfg} (hc : CfgOk c) {s : TS} (hs : Reach c s) (sends : List SendOutcome)
    (dt : Nat) : (∃ e, iter c s { sends := sends, dt := dt, recv := .fatal } = .err e) := by
  have hi := reach_inv hc hs
  obtain ⟨hnp, _⟩ := sendRequest_spec hc hi sends
  unfold iter
  cases hsr : sendRequest c s sends with
  | panic => exact absurd hsr hnp
  | err e => exact ⟨e, rfl⟩
  | ok v => exact ⟨.io, by simp [recvResponse]⟩

/-- a fatal send outcome on the first attempt ends the iteration with an I/O error (ICMP/UDP) -/
theorem fatal_send_ends_run {c : Cfg} (hc : CfgOk c) {s : TS} (hs : Reach c s) (hp : c.proto ≠ .tcp)
    (hcan : canSend c s = true) (rest : List SendOutcome) (dt : Nat) (rv : RecvOutcome) :
    iter c s { sends := .fatal :: rest, dt := dt, recv := rv } = .err .io := by
  have hi := reach_inv hc hs
  have h254 : s.ttl ≤ 254 := by
    have := hc.max_le
    simp only [canSend, Bool.and_eq_true, decide_eq_true_eq] at hcan; omega
  have hcnt : s.count < BUFFER_SIZE := by
    have := hi.count_ttl hp; simp [BUFFER_SIZE_eq]; omega
  obtain ⟨p, hnp, _⟩ := nextProbe_spec hc hi hcnt h254 s.now
  unfold iter sendRequest
  simp only [canSendR_eq hc hi, R.bind_ok, hcan, if_true]
  unfold doSends
  cases hpr : c.proto with
  | tcp => exact absurd hpr hp
  | icmp => simp [hnp, headOutcome, doSend]
  | udp => simp [hnp, headOutcome, doSend]

/-- a transient send failure (ICMP/UDP) marks exactly the just-allocated probe as failed — the
state is the one after a successful send except that this one slot is `Failed` — and tracing
continues (the iteration does not fail because of it) -/
theorem transient_failure_marks_probe {c : Cfg} (hc : CfgOk c) {s : TS} (hs : Reach c s) (hp : c.proto ≠ .tcp)
    (hcan : canSend c s = true) (rest : List SendOutcome) :
    ∃ p, sendRequest c s (.ok :: rest) = .ok (afterNext s p, [(p, .ok)]) ∧
         sendRequest c s (.probeFailed :: rest) = .ok (afterFail (afterNext s p) p, [(p, .probeFailed)]) ∧
         (afterFail (afterNext s p) p).buffer = (afterNext s p).buffer.set s.count (.failed p) := by
  have hi := reach_inv hc hs
  have h254 : s.ttl ≤ 254 := by
    have := hc.max_le
    simp only [canSend, Bool.and_eq_true, decide_eq_true_eq] at hcan; omega
  have hcnt : s.count < BUFFER_SIZE := by
    have := hi.count_ttl hp; simp [BUFFER_SIZE_eq]; omega
  obtain ⟨p, hnp, hs1, ht1, hr1, _⟩ := nextProbe_spec hc hi hcnt h254 s.now
  have ha := alloc_afterNext hi hcnt h254 p hs1 ht1 hr1
  refine ⟨p, ?_, ?_, ?_⟩
  · unfold sendRequest doSends
    simp only [canSendR_eq hc hi, R.bind_ok, hcan, if_true]
    cases hpr : c.proto with
    | tcp => exact absurd hpr hp
    | icmp => simp [hnp, headOutcome, doSend]
    | udp => simp [hnp, headOutcome, doSend]
  · unfold sendRequest doSends
    simp only [canSendR_eq hc hi, R.bind_ok, hcan, if_true]
    cases hpr : c.proto with
    | tcp => exact absurd hpr hp
    | icmp => simp [hnp, headOutcome, doSend, failProbe_spec ha]
    | udp => simp [hnp, headOutcome, doSend, failProbe_spec ha]
  · have hge := hi.seq_ge
    have hcn : (afterNext s p).count - 1 = s.count := by simp [afterNext, TS.count]; omega
    simp only [afterFail, hcn]

/-- address-in-use for TCP re-issues the probe under the next sequence number with the same TTL
and reports the abandoned slot as skipped -/
theorem addr_in_use_reissues {c : Cfg} (hc : CfgOk c) {s : TS} {p0 : Probe} (ha : Alloc c s p0)
    (hcap : s.count < BUFFER_SIZE) (t : Nat) :
    ∃ p, reissueProbe c s t = .ok (afterReissue s p, p) ∧ p.seq = s.sequence ∧ p.ttl + 1 = s.ttl ∧
      (afterReissue s p).buffer[s.count - 1]? = some .skipped ∧
      (afterReissue s p).buffer[s.count]? = some (.awaited p) := by
  obtain ⟨p, h1, h2, h3, _, _⟩ := reissueProbe_spec hc ha hcap t
  have hl : s.count < s.buffer.length := by rw [ha.inv.len]; exact hcap
  have hc1 := ha.cnt
  refine ⟨p, h1, h2, h3, ?_, ?_⟩
  · simp only [afterReissue]
    rw [List.getElem?_set_ne (by omega), List.getElem?_set_self (by omega)]
  · simp only [afterReissue]
    rw [List.getElem?_set_self (by simp; omega)]

end TV.Props.C09

#print axioms TV.Props.C09.round_step
#print axioms TV.Props.C09.run_round_count
#print axioms TV.Props.C09.exactly_n_rounds
#print axioms TV.Props.C09.run_never_panics
#print axioms TV.Props.C09.fatal_recv_ends_run
#print axioms TV.Props.C09.fatal_send_ends_run
#print axioms TV.Props.C09.transient_failure_marks_probe
#print axioms TV.Props.C09.addr_in_use_reissues
