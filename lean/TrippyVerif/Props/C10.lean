import TrippyVerif.Props.C15
/-
C10 (aggregator half) — "The hop table covers exactly the probed path and ends at the target"

Whatever rounds have been published, the hop list is a gap-free ascending run of TTLs starting at
the lowest TTL ever probed and ending at the greatest path length any round reported, each probed
hop carrying its own TTL, and the designated target hop is the one at the latest round's path
length. … when nothing answers it is zero and the list is empty.  Querying the table never fails,
including with first-ttl greater than one or before any response has arrived.

Model : `TV.Agg.State.{hops, hopsForFlow, targetHop, isTarget, isInRound}`, `FlowState.{hopsR,
        targetHopR}` (Model/StateAgg.lean)
Spec  : `TV.Reagg.{RoundWF, lowestTtl, highestTtl, latestTtl, windowTtls, outcomes, reagg}`

`RoundWF` is stated, not hidden: it is what `publish_trace` emits (strategy half of C10) and it is
exactly what the aggregator needs – the witnesses at the end show that each clause is necessary.
All statements hold for every number type `F`.
-/
namespace TV.Props.C10
open TV TV.Strat TV.Agg TV.Reagg

variable {F : Type} [Num F]

/-- the default flow of the state after a history is the flow-level fold of that history -/
theorem default_flow (cfg : Agg.Cfg) (hist : List Round) (hwf : ∀ r ∈ hist, RoundWF r) :
    ∃ st fs, State.run (State.new (F := F) cfg) hist = .ok st ∧
      FlowState.run (FlowState.new cfg.maxSamples) hist = .ok fs ∧ lookupFlow st.flows 0 = some fs := by
  obtain ⟨st, h1, ⟨fs, h2, h3, _⟩, _⟩ := C15.flow_states_are_folds (F := F) cfg hist hwf
  exact ⟨st, fs, h1, h2, h3⟩

/-- (1) Querying never fails: after any history of well-formed rounds (the empty history = a fresh
state, first ttl > 1, nothing answered … included) `hops`, `target_hop`, `is_target`, `is_in_round`,
`round`, `round_count` return normally for the default flow. -/
theorem getters_never_panic (cfg : Agg.Cfg) (hist : List Round) (hwf : ∀ r ∈ hist, RoundWF r) :
    ∃ st, State.run (State.new (F := F) cfg) hist = .ok st ∧
      (∃ hs, st.hops = .ok hs) ∧ (∃ hs, st.hopsForFlow 0 = .ok hs) ∧ (∃ h, st.targetHop 0 = .ok h) ∧
      (∀ hop, ∃ b, st.isTarget hop 0 = .ok b) ∧ (∀ hop, ∃ b, st.isInRound hop 0 = .ok b) ∧
      (∃ r, st.round 0 = .ok r) ∧ st.roundCount 0 = .ok hist.length := by
  obtain ⟨st, fs, h1, h2, h3⟩ := default_flow (F := F) cfg hist hwf
  obtain ⟨fs', hs, tgt, w1, w2, w3, _⟩ := window_ok (F := F) cfg.maxSamples hist hwf
  obtain ⟨_, k1, _, _, k4, _⟩ := run_new (F := F) cfg.maxSamples hist hwf
  rw [h2] at w1 k1; cases w1; cases k1
  refine ⟨st, h1, ⟨hs, ?_⟩, ⟨hs, ?_⟩, ⟨tgt, ?_⟩, fun hop => ⟨fs.isTarget hop, ?_⟩,
    fun hop => ⟨fs.isInRound hop, ?_⟩, ⟨fs.round, ?_⟩, ?_⟩ <;>
    simp [State.hops, State.hopsForFlow, State.targetHop, State.isTarget, State.isInRound, State.round,
      State.roundCount, State.flowR, defaultFlowId, h3, w2, w3, k4]

/-- … and for every flow that exists (any registered flow id): its state is the fold of well-formed
rounds (C15), so the same getters return normally. -/
theorem flow_getters_never_panic (cfg : Agg.Cfg) (hist : List Round) (hwf : ∀ r ∈ hist, RoundWF r) :
    ∃ st, State.run (State.new (F := F) cfg) hist = .ok st ∧
      ∀ id fs, lookupFlow st.flows id = some fs →
        (∃ hs, st.hopsForFlow id = .ok hs) ∧ (∃ h, st.targetHop id = .ok h) ∧
        (∀ hop, ∃ b, st.isTarget hop id = .ok b) ∧ (∀ hop, ∃ b, st.isInRound hop id = .ok b) := by
  obtain ⟨st, h1, ⟨fs₀, a1, a2, _⟩, hrest, _⟩ := C15.flow_states_are_folds (F := F) cfg hist hwf
  refine ⟨st, h1, ?_⟩
  intro id fs hfs
  -- every stored flow state is a run of well-formed rounds from a fresh state
  have hrun : ∃ rs : List Round, (∀ r ∈ rs, RoundWF r) ∧ FlowState.run (FlowState.new cfg.maxSamples) rs = .ok fs := by
    by_cases hid : id = 0
    · subst hid; rw [a2] at hfs; cases hfs; exact ⟨hist, hwf, a1⟩
    · obtain ⟨k1, k2⟩ := hrest id hid
      by_cases hrs : roundsFor id hist (attributions cfg.maxFlows Registry.new hist) = []
      · rw [k1 hrs] at hfs; cases hfs
      · obtain ⟨fs', r1, r2, _⟩ := k2 hrs
        rw [r2] at hfs; cases hfs
        refine ⟨_, ?_, r1⟩
        intro r hr
        have hsub : ∀ (rs : List Round) as, roundsFor id rs as ⊆ rs := by
          intro rs
          induction rs with
          | nil => intro as; cases as <;> simp [roundsFor]
          | cons r rs ih =>
            intro as
            cases as with
            | nil => simp [roundsFor]
            | cons a as =>
              simp only [roundsFor]
              split
              · exact List.cons_subset_cons _ (ih as)
              · exact List.subset_cons_of_subset _ (ih as)
        exact hwf r (hsub _ _ hr)
  obtain ⟨rs, hrs, hrun⟩ := hrun
  obtain ⟨fs', hs, tgt, w1, w2, w3, _⟩ := window_ok (F := F) cfg.maxSamples rs hrs
  rw [hrun] at w1; cases w1
  refine ⟨⟨hs, ?_⟩, ⟨tgt, ?_⟩, fun hop => ⟨fs.isTarget hop, ?_⟩, fun hop => ⟨fs.isInRound hop, ?_⟩⟩ <;>
    simp [State.hopsForFlow, State.targetHop, State.isTarget, State.isInRound, State.flowR, hfs, w2, w3]

/-- (2) The hop list is exactly the window: as many hops as `windowTtls hist` has ttls (the gap-free
run `lowest probed ttl … greatest path length`), the `k`-th hop being the hop of the `k`-th ttl `t`
of the window: its statistics are the re-aggregation of the outcomes of ttl `t` (C05), and if ttl
`t` was ever probed it carries `ttl = t`. -/
theorem hops_is_window (cfg : Agg.Cfg) (hist : List Round) (hwf : ∀ r ∈ hist, RoundWF r) :
    ∃ st hs, State.run (State.new (F := F) cfg) hist = .ok st ∧ st.hops = .ok hs ∧
      hs.length = (windowTtls hist).length ∧
      ∀ (k t : Nat), (windowTtls hist)[k]? = some t →
        t = lowestTtl hist + k ∧ 1 ≤ t ∧ t ≤ highestTtl hist ∧ t ≤ 254 ∧
        ∃ h, hs[k]? = some h ∧ statsOf h = reagg cfg.maxSamples (outcomes t hist) ∧
          (outcomes t hist ≠ [] → h.ttl = t) ∧ (outcomes t hist = [] → h.ttl = 0) := by
  obtain ⟨st, fs, h1, h2, h3⟩ := default_flow (F := F) cfg hist hwf
  obtain ⟨fs', hs, tgt, w1, w2, w3, w4, w5, _⟩ := window_ok (F := F) cfg.maxSamples hist hwf
  rw [h2] at w1; cases w1
  refine ⟨st, hs, h1, by simp [State.hops, State.flowR, defaultFlowId, h3, w2], w4, ?_⟩
  intro k t hk
  obtain ⟨b1, b2, b3⟩ := w5 k t hk
  have hst := stats_fold (F := F) cfg.maxSamples (outcomes t hist)
  have hpos : t = lowestTtl hist + k ∧ t ≤ highestTtl hist := by
    unfold windowTtls at hk
    split at hk
    · simp at hk
    · obtain ⟨hlt, hk⟩ := List.getElem?_eq_some_iff.1 hk
      rw [List.getElem_range'] at hk
      simp only [List.length_range'] at hlt
      omega
  refine ⟨hpos.1, b1, hpos.2, b2, _, b3, hst, ?_, ?_⟩
  · intro hne
    have := congrArg Stats.ttl hst
    simp only [statsOf] at this
    rw [this]
    exact reagg_ttl _ t _ (outcomes_ttl t hist) hne
  · intro he
    have := congrArg Stats.ttl hst
    simp only [statsOf] at this
    rw [this, he]; rfl

/-- the window is empty exactly when nothing was probed or no round reported a path length;
otherwise it is the run `lowest, lowest + 1, …, highest` with `lowest ≤ highest ≤ 254` -/
theorem window_shape (hist : List Round) (hwf : ∀ r ∈ hist, RoundWF r) :
    (lowestTtl hist = 0 ∨ highestTtl hist = 0 → windowTtls hist = []) ∧
    (highestTtl hist ≠ 0 → lowestTtl hist ≠ 0 ∧ lowestTtl hist ≤ highestTtl hist ∧ highestTtl hist ≤ 254 ∧
      windowTtls hist = List.range' (lowestTtl hist) (highestTtl hist + 1 - lowestTtl hist)) := by
  refine ⟨fun h => by simp [windowTtls, h], fun h => ?_⟩
  obtain ⟨a, b, c⟩ := lowest_le_highest hist hwf h
  exact ⟨a, b, c, by simp [windowTtls, a, h]⟩

/-- when nothing ever answers (every round reports path length 0) the hop list is empty -/
theorem silent_path_empty (cfg : Agg.Cfg) (hist : List Round) (hwf : ∀ r ∈ hist, RoundWF r)
    (hsilent : ∀ r ∈ hist, r.largestTtl = 0) :
    ∃ st, State.run (State.new (F := F) cfg) hist = .ok st ∧ st.hops = .ok [] := by
  obtain ⟨st, hs, h1, h2, h3, _⟩ := hops_is_window (F := F) cfg hist hwf
  have : highestTtl hist = 0 := by
    unfold highestTtl
    cases hm : (hist.map (·.largestTtl)).max? with
    | none => rfl
    | some L =>
      obtain ⟨r, hr, hrl⟩ := List.mem_map.1 (List.max?_eq_some_iff.1 hm).1
      simp [← hrl, hsilent r hr]
  rw [(window_shape hist hwf).1 (.inr this)] at h3
  have : hs = [] := List.length_eq_zero_iff.1 h3
  exact ⟨st, h1, by rw [h2, this]⟩

/-- (3) The designated target hop is the hop at the latest round's path length `L` (when `L ≠ 0`; it
lies inside the window), `is_target` / `is_in_round` compare a hop's ttl with `L`. -/
theorem target_is_latest (cfg : Agg.Cfg) (hist : List Round) (hwf : ∀ r ∈ hist, RoundWF r) :
    ∃ st tgt, State.run (State.new (F := F) cfg) hist = .ok st ∧ st.targetHop 0 = .ok tgt ∧
      (∀ hop, st.isTarget hop 0 = .ok (decide (latestTtl hist = hop.ttl))) ∧
      (∀ hop, st.isInRound hop 0 = .ok (decide (hop.ttl ≤ latestTtl hist))) ∧
      (latestTtl hist ≠ 0 →
        statsOf tgt = reagg cfg.maxSamples (outcomes (latestTtl hist) hist) ∧
        lowestTtl hist ≤ latestTtl hist ∧ latestTtl hist ≤ highestTtl hist ∧
        ∃ hs, st.hops = .ok hs ∧ hs[latestTtl hist - lowestTtl hist]? = some tgt) := by
  obtain ⟨st, fs, h1, h2, h3⟩ := default_flow (F := F) cfg hist hwf
  obtain ⟨fs', hs, tgt, w1, w2, w3, w4, w5, w6, w7⟩ := window_ok (F := F) cfg.maxSamples hist hwf
  rw [h2] at w1; cases w1
  refine ⟨st, tgt, h1, by simp [State.targetHop, State.flowR, h3, w3], ?_, ?_, ?_⟩
  · intro hop; simp [State.isTarget, State.flowR, h3, FlowState.isTarget, w7]
  · intro hop; simp [State.isInRound, State.flowR, h3, FlowState.isInRound, w7]
  · intro hL
    simp only [hL, if_false] at w6
    -- the latest path length lies in the window
    have hmem : ∃ r, hist.getLast? = some r ∧ r.largestTtl = latestTtl hist := by
      unfold latestTtl at hL ⊢
      cases hl : hist.getLast? with
      | none => simp [hl] at hL
      | some r => exact ⟨r, rfl, by simp⟩
    obtain ⟨r, hr, hrl⟩ := hmem
    have hrm : r ∈ hist := List.mem_of_getLast? hr
    have hhi : latestTtl hist ≤ highestTtl hist := by
      unfold highestTtl
      cases hm : (hist.map (·.largestTtl)).max? with
      | none => rw [List.max?_eq_none_iff] at hm; simp at hm; subst hm; simp at hrm
      | some L =>
        have := (List.max?_eq_some_iff.1 hm).2 r.largestTtl (List.mem_map_of_mem hrm)
        simp; omega
    have hhi0 : highestTtl hist ≠ 0 := by omega
    obtain ⟨hlo0, _, _⟩ := lowest_le_highest hist hwf hhi0
    have hlo : lowestTtl hist ≤ latestTtl hist := by
      obtain ⟨hb, _, hl⟩ := hwf r hrm
      rcases hl with hl | ⟨hf, _⟩
      · omega
      · unfold firstTtlLe at hf
        cases hh : (ttls r.probes).head? with
        | none => simp [hh] at hf
        | some f =>
          simp only [hh] at hf
          have hfm : f ∈ probedTtls hist := List.mem_flatMap.2 ⟨r, hrm, List.mem_of_head? hh⟩
          unfold lowestTtl
          cases hmin : (probedTtls hist).min? with
          | none => rw [List.min?_eq_none_iff] at hmin; simp [hmin] at hfm
          | some m =>
            have := (List.min?_eq_some_iff.1 hmin).2 f hfm
            simp; omega
    refine ⟨by rw [w6]; exact stats_fold _ _, hlo, hhi, hs, by simp [State.hops, State.flowR, defaultFlowId, h3, w2], ?_⟩
    have hk : (windowTtls hist)[latestTtl hist - lowestTtl hist]? = some (latestTtl hist) := by
      simp only [windowTtls, hlo0, hhi0, or_self, if_false]
      rw [List.getElem?_range' (by omega)]
      congr 1; omega
    rw [(w5 _ _ hk).2.2, w6]

/-! ### the guard is necessary: witnesses of the panics outside `RoundWF` -/

def pr (ttl : Nat) : Probe :=
  { seq := 33000, ident := 1, srcPort := 5000, destPort := 33434, ttl := ttl, round := 0, sent := 0, flags := 0 }

/-- a probe with ttl 0 panics (`usize::from(ttl) - 1`) -/
theorem ttl_zero_panics (ms : Nat) :
    (FlowState.new (F := F) ms).applyRound { probes := [.awaited (pr 0)], largestTtl := 0, reason := .roundTimeLimitExceeded }
      = .panic := by
  simp [FlowState.applyRound, Updater.loop, Updater.updateForProbe, pr, modifyHop_zero, isForwardLoss]

/-- a probe with ttl 255 panics (`hops[254]` of 254 hops) -/
theorem ttl_255_panics (ms : Nat) :
    (FlowState.new (F := F) ms).applyRound { probes := [.failed (pr 255)], largestTtl := 0, reason := .roundTimeLimitExceeded }
      = .panic := by
  have hbig : ∀ (fs : FlowState F) f, fs.hops.length = 254 → fs.modifyHop 255 f = .panic :=
    fun fs f h => modifyHop_big fs 255 f (by omega)
  simp only [FlowState.applyRound, Updater.loop, Updater.updateForProbe, pr, bind, R.bind]
  rw [hbig _ _ (by simp [new_len])]

omit [Num F] in
/-- a path length below the lowest probed ttl makes `hops()` panic (slice `[lowest-1 .. highest]`),
and so does a path length of 255 (slice end beyond the 254 hops) -/
theorem bad_window_panics (fs : FlowState F) (hlen : fs.hops.length = 254) :
    (fs.lowestTtl = 5 → fs.highestTtl = 3 → fs.hopsR = .panic) ∧
    (fs.lowestTtl = 1 → fs.highestTtl = 255 → fs.hopsR = .panic) := by
  constructor <;> intro h1 h2 <;> simp [FlowState.hopsR, h1, h2, hlen]

/-- the getters index the flow map: an unknown flow id panics -/
theorem unknown_flow_panics (cfg : Agg.Cfg) :
    (State.new (F := F) cfg).hopsForFlow 1 = .panic ∧ (State.new (F := F) cfg).targetHop 1 = .panic := by
  simp [State.hopsForFlow, State.targetHop, State.flowR, State.new, lookupFlow, defaultFlowId]

/-! ### non-vacuity -/

def cp (ttl round host : Nat) : Slot :=
  .complete { probe := { pr ttl with round := round }, host := host, received := 900 + ttl,
              kind := .timeExceeded 0, tos := none, expCk := none, actCk := none, ext := none }
/-- first ttl 4; the path grows from 5 to 7 and the target stops answering in the last round -/
def exHist : List Round :=
  [ { probes := [cp 4 0 10, cp 5 0 7], largestTtl := 5, reason := .targetFound },
    { probes := [cp 4 1 10, .awaited { pr 5 with round := 1 }, cp 6 1 12, cp 7 1 7], largestTtl := 7, reason := .targetFound },
    { probes := [.awaited { pr 4 with round := 2 }, .skipped, .awaited { pr 5 with round := 2 }], largestTtl := 0,
      reason := .roundTimeLimitExceeded } ]

example : ∀ r ∈ exHist, RoundWF r := by decide
example : windowTtls exHist = [4, 5, 6, 7] := by decide
example : latestTtl exHist = 0 ∧ highestTtl exHist = 7 ∧ lowestTtl exHist = 4 := by decide
-- the fresh state and a history in which nothing ever answered: empty window
example : windowTtls [] = [] := by decide
example : windowTtls [exHist[2]] = [] := by decide
-- the malformed rounds of the witnesses are indeed outside `RoundWF`
example : ¬ RoundWF { probes := [.awaited (pr 0)], largestTtl := 0, reason := .roundTimeLimitExceeded } := by decide
example : ¬ RoundWF { probes := [.failed (pr 255)], largestTtl := 0, reason := .roundTimeLimitExceeded } := by decide
example : ¬ RoundWF { probes := [.awaited (pr 5)], largestTtl := 3, reason := .roundTimeLimitExceeded } := by decide
example : ¬ RoundWF { probes := [.awaited (pr 1)], largestTtl := 255, reason := .roundTimeLimitExceeded } := by decide

end TV.Props.C10

#print axioms TV.Props.C10.default_flow
#print axioms TV.Props.C10.getters_never_panic
#print axioms TV.Props.C10.flow_getters_never_panic
#print axioms TV.Props.C10.hops_is_window
#print axioms TV.Props.C10.window_shape
#print axioms TV.Props.C10.silent_path_empty
#print axioms TV.Props.C10.target_is_latest
#print axioms TV.Props.C10.ttl_zero_panics
#print axioms TV.Props.C10.ttl_255_panics
#print axioms TV.Props.C10.bad_window_panics
#print axioms TV.Props.C10.unknown_flow_panics
