import TrippyVerif.Props.C01
import TrippyVerif.Props.C06
/-!
# C10, "when the path is stable and the target answers, that length equals the target's true distance"

The aggregator theorems of C10 take the path length each round reports as given.  This file proves
where that length comes from, for a **stable path**: a network in which the probe with time-to-live
`t` is answered by the target exactly when `t ≥ d` (`d` = the target's true distance) and by a
router otherwise — whatever else happens (loss, junk, duplicates, late answers, re-issued probes,
any order of arrival).

* `target_ttl_ge`: the remembered target distance is never below `d`;
* `exact_answer_establishes`: as soon as the answer to a probe with `ttl = d` is accepted, the
  remembered distance is `d` …
* `established_stays`: … and stays `d` for ever (it survives the rounds);
* `stable_path_length`: every round published from then on — in particular the round in which the
  target answered the `ttl = d` probe — reports the path length `d`.

(What a *route change* does to the remembered distance is the `≥`-reset in `newTargetTtl`; it is
outside the hypothesis here and covered by the scripted route changes of the correspondence run.)
-/
namespace TV.Props.C10Strat
open TV TV.Strat

/-- the environment of one iteration on a stable path with the target at distance `d`:
a genuine response comes from the target iff the probe it answers has `ttl ≥ d` -/
def StableEnv (c : Cfg) (d : Nat) (s1 : TS) (e : IterEnv) : Prop :=
  ∀ r p, e.recv = .resp r → genuine c s1 r = some p → (strategyResp c r).isTarget = decide (d ≤ p.ttl)

theorem newTargetTtl_congr {a b : TS} (h : a.targetTtl = b.targetTtl) (t : Bool) (n : Nat) :
    newTargetTtl a t n = newTargetTtl b t n := by
  simp [newTargetTtl, h]

/-- the update of the remembered distance on a stable path keeps it at or above `d` … -/
theorem ntt_ge (s : TS) (d ttl t : Nat) (hinv : ∀ t0, s.targetTtl = some t0 → d ≤ t0)
    (h : newTargetTtl s (decide (d ≤ ttl)) ttl = some t) : d ≤ t := by
  unfold newTargetTtl at h
  cases hcur : s.targetTtl with
  | none =>
    by_cases hd : d ≤ ttl
    · simp [hd, hcur] at h; omega
    · simp [hd, hcur] at h
  | some t0 =>
    have := hinv t0 hcur
    by_cases hd : d ≤ ttl
    · simp only [hd, decide_true, if_true, hcur] at h
      split at h <;> simp at h <;> omega
    · simp only [hd, decide_false, hcur] at h
      simp only [Bool.false_eq_true, if_false] at h
      split at h
      · simp at h
      · simp at h; omega

/-- … the target's answer to the `ttl = d` probe sets it to `d` … -/
theorem ntt_exact (s : TS) (d : Nat) (hinv : ∀ t0, s.targetTtl = some t0 → d ≤ t0) :
    newTargetTtl s (decide (d ≤ d)) d = some d := by
  unfold newTargetTtl
  simp only [Nat.le_refl, decide_true, if_true]
  cases hcur : s.targetTtl with
  | none => rfl
  | some t0 =>
    have := hinv t0 hcur
    simp only
    split
    · rfl
    · congr 1; omega

/-- … and once it is `d` no stable-path response changes it -/
theorem ntt_stays (s : TS) (d ttl : Nat) (hd : s.targetTtl = some d) :
    newTargetTtl s (decide (d ≤ ttl)) ttl = some d := by
  unfold newTargetTtl
  by_cases hle : d ≤ ttl
  · simp only [hle, decide_true, if_true, hd]
    split
    · congr 1; omega
    · rfl
  · simp only [hle, decide_false, hd, Bool.false_eq_true, if_false]
    try (split <;> first | omega | rfl)

/-- **What one iteration does to the remembered target distance**, and what a round published by
that iteration reports. -/
theorem iter_targetTtl {c : Cfg} (hc : CfgOk c) {s s' : TS} (hs : Reach c s) {e : IterEnv} {o : IterOut}
    (h : iter c s e = .ok (s', o)) :
    ∃ s1, sendRequest c s e.sends = .ok (s1, o.sent) ∧
      s'.targetTtl = (match e.recv with
        | .resp r => (match genuine c s1 r with
            | some p => newTargetTtl s (strategyResp c r).isTarget p.ttl
            | none => s.targetTtl)
        | _ => s.targetTtl) ∧
      (∀ r t, o.published = some r → s'.targetTtl = some t → r.largestTtl = t) := by
  obtain ⟨s1, s2, h1, h2, h3⟩ := iter_decomp h
  have hi := reach_inv hc hs
  obtain ⟨hi1, hnil, hcons⟩ := (sendRequest_spec hc hi e.sends).2 s1 o.sent h1
  have ht1 : s1.targetTtl = s.targetTtl := by
    by_cases hn : o.sent = []
    · obtain ⟨rfl, _⟩ := hnil hn; rfl
    · exact (hcons hn).2.same.2.2.2.2.2.1.symm
  refine ⟨s1, h1, ?_⟩
  -- the receive step
  have hi2 : Inv c s2 := (recvResponse_inv hi1 e.dt e.recv).2 s2 h2
  have ht2 : s2.targetTtl = (match e.recv with
        | .resp r => (match genuine c s1 r with
            | some p => newTargetTtl s (strategyResp c r).isTarget p.ttl
            | none => s.targetTtl)
        | _ => s.targetTtl) := by
    cases hrv : e.recv with
    | none => rw [hrv] at h2; simp [recvResponse] at h2; subst h2; simpa [tick] using ht1
    | fatal => rw [hrv] at h2; simp [recvResponse] at h2
    | resp r =>
      rw [hrv, recvResponse_spec hi1] at h2
      dsimp only
      cases hg : genuine c s1 r with
      | none => simp [hg] at h2; subst h2; simpa [tick] using ht1
      | some p =>
        simp [hg] at h2; subst h2
        simp only [afterComplete]
        exact newTargetTtl_congr (a := tick s1 e.dt) (b := s) (by simpa [tick] using ht1) _ _
  -- the round step keeps the remembered distance; a published round reports it
  obtain ⟨hu1, hu2⟩ := updateRound_spec hc hi2
  by_cases hrc : roundComplete c s2 = true
  · obtain ⟨r0, hp0, hu⟩ := hu2 hrc
    rw [hu] at h3
    simp only [R.ok.injEq, Prod.mk.injEq] at h3
    obtain ⟨rfl, hpub⟩ := h3
    have hk : (afterAdvance c s2).targetTtl = s2.targetTtl := rfl
    refine ⟨by rw [hk]; exact ht2, fun r t hr ht => ?_⟩
    rw [← hpub] at hr
    simp only [Option.some.injEq] at hr
    subst hr
    obtain ⟨r1, hp1, _, _, hl⟩ := publishTrace_ok hc hi2
    rw [hp0] at hp1
    simp only [R.ok.injEq] at hp1
    subst hp1
    rw [hk] at ht
    rw [hl, ht]
  · have hu := hu1 (by simpa using hrc)
    rw [hu] at h3
    simp only [R.ok.injEq, Prod.mk.injEq] at h3
    obtain ⟨rfl, hpub⟩ := h3
    exact ⟨ht2, fun r t hr _ => by rw [← hpub] at hr; simp at hr⟩

/-- states reachable on a stable path with the target at distance `d` -/
inductive ReachS (c : Cfg) (d : Nat) : TS → Prop
  | init (t0 : Nat) : ReachS c d (init c t0)
  | step {s s' s1 : TS} (e : IterEnv) (o : IterOut) : ReachS c d s → iter c s e = .ok (s', o) →
      sendRequest c s e.sends = .ok (s1, o.sent) → StableEnv c d s1 e → ReachS c d s'

theorem ReachS.reach {c : Cfg} {d : Nat} {s : TS} (h : ReachS c d s) : Reach c s := by
  induction h with
  | init t0 => exact .init t0
  | step e o _ hit _ _ ih => exact .step e o ih hit

/-- the remembered distance after one stable-path iteration, in terms of the one before -/
theorem step_targetTtl {c : Cfg} (hc : CfgOk c) {d : Nat} {s s' s1 : TS} (hs : Reach c s) {e : IterEnv}
    {o : IterOut} (h : iter c s e = .ok (s', o)) (h1 : sendRequest c s e.sends = .ok (s1, o.sent))
    (hst : StableEnv c d s1 e) :
    s'.targetTtl = s.targetTtl ∨
    ∃ r p, e.recv = .resp r ∧ genuine c s1 r = some p ∧
      s'.targetTtl = newTargetTtl s (decide (d ≤ p.ttl)) p.ttl := by
  obtain ⟨s1', h1', ht, _⟩ := iter_targetTtl hc hs h
  rw [h1] at h1'
  simp only [R.ok.injEq, Prod.mk.injEq, and_true] at h1'
  subst h1'
  cases hrv : e.recv with
  | none => left; simpa [hrv] using ht
  | fatal => left; simpa [hrv] using ht
  | resp r =>
    cases hg : genuine c s1 r with
    | none => left; simpa [hrv, hg] using ht
    | some p =>
      right
      refine ⟨r, p, rfl, hg, ?_⟩
      rw [ht]; simp only [hrv, hg]
      rw [hst r p hrv hg]

/-- on a stable path the remembered target distance is never below the true distance -/
theorem target_ttl_ge {c : Cfg} (hc : CfgOk c) {d : Nat} {s : TS} (h : ReachS c d s) :
    ∀ t, s.targetTtl = some t → d ≤ t := by
  induction h with
  | init t0 => intro t ht; simp [init] at ht
  | step e o hr hit h1 hst ih =>
    intro t ht
    rcases step_targetTtl hc hr.reach hit h1 hst with heq | ⟨r, p, _, _, heq⟩
    · exact ih t (heq ▸ ht)
    · rw [heq] at ht
      exact ntt_ge _ d p.ttl t ih ht

/-- accepting the answer to a probe with `ttl = d` establishes the true distance -/
theorem exact_answer_establishes {c : Cfg} (hc : CfgOk c) {d : Nat} {s s' s1 : TS} (hr : ReachS c d s)
    {e : IterEnv} {o : IterOut} (h : iter c s e = .ok (s', o))
    (h1 : sendRequest c s e.sends = .ok (s1, o.sent)) (hst : StableEnv c d s1 e)
    (r : Resp) (p : Probe) (hrv : e.recv = .resp r) (hg : genuine c s1 r = some p) (hp : p.ttl = d) :
    s'.targetTtl = some d := by
  obtain ⟨s1', h1', ht, _⟩ := iter_targetTtl hc hr.reach h
  rw [h1] at h1'
  simp only [R.ok.injEq, Prod.mk.injEq, and_true] at h1'
  subst h1'
  rw [ht]; simp only [hrv, hg]
  rw [hst r p hrv hg, hp]
  exact ntt_exact s d (target_ttl_ge hc hr)

/-- once established, the true distance stays (also across rounds) -/
theorem established_stays {c : Cfg} (hc : CfgOk c) {d : Nat} {s s' s1 : TS} (hr : ReachS c d s)
    (hd : s.targetTtl = some d) {e : IterEnv} {o : IterOut} (h : iter c s e = .ok (s', o))
    (h1 : sendRequest c s e.sends = .ok (s1, o.sent)) (hst : StableEnv c d s1 e) :
    s'.targetTtl = some d := by
  rcases step_targetTtl hc hr.reach h h1 hst with heq | ⟨r, p, _, _, heq⟩
  · rw [heq, hd]
  · rw [heq]; exact ntt_stays s d p.ttl hd

/-- **C10 (strategy half).**  On a stable path, every round published in or after the iteration in
    which the answer to the `ttl = d` probe was accepted reports the path length `d`. -/
theorem stable_path_length {c : Cfg} (hc : CfgOk c) {d : Nat} {s s' s1 : TS} (hr : ReachS c d s)
    {e : IterEnv} {o : IterOut} (h : iter c s e = .ok (s', o))
    (h1 : sendRequest c s e.sends = .ok (s1, o.sent)) (hst : StableEnv c d s1 e)
    (hest : s.targetTtl = some d ∨
      ∃ r p, e.recv = .resp r ∧ genuine c s1 r = some p ∧ p.ttl = d)
    (rd : Round) (hpub : o.published = some rd) : rd.largestTtl = d := by
  have hd' : s'.targetTtl = some d := by
    rcases hest with hd | ⟨r, p, hrv, hg, hp⟩
    · exact established_stays hc hr hd h h1 hst
    · exact exact_answer_establishes hc hr h h1 hst r p hrv hg hp
  obtain ⟨_, _, _, hl⟩ := iter_targetTtl hc hr.reach h
  exact hl rd d hpub hd'


/-- **C06 on a stable path: never above the target's distance once it is established.**  After the
    answer to the `ttl = d` probe has been accepted, no probe with a larger TTL is handed to
    `send_probe` again — in this round or any later one. -/
theorem stable_path_no_probe_beyond {c : Cfg} (hc : CfgOk c) {d : Nat} {s s' : TS} (hr : ReachS c d s)
    (hest : s.targetTtl = some d) {e : IterEnv} {o : IterOut} (h : iter c s e = .ok (s', o)) :
    ∀ x ∈ o.sent, x.1.ttl ≤ d := by
  intro x hx
  have hne : o.sent ≠ [] := by intro hn; simp [hn] at hx
  obtain ⟨_, _, _, htt, _, hall⟩ := C06.send_discipline hc hr.reach h hne
  rw [(hall x hx).1]
  exact htt d hest

/-! ## a path that changes

The remembered distance must not survive a route change that moves the target further away: an answer that is *not* from
the target, from a hop at or beyond the remembered distance, forgets it (so the next probes go further again); an answer
from below the remembered distance keeps it; the target answering nearer than remembered lowers it. -/

/-- a router answering at or beyond the remembered distance: the distance is forgotten — exactly then -/
theorem router_at_or_beyond_forgets (s : TS) (t ttl : Nat) (ht : s.targetTtl = some t) :
    newTargetTtl s false ttl = none ↔ t ≤ ttl := by
  unfold newTargetTtl
  simp only [Bool.false_eq_true, if_false, ht, ge_iff_le]
  by_cases h : t ≤ ttl <;> simp [h]

/-- a router answering below the remembered distance keeps it -/
theorem router_below_keeps (s : TS) (t ttl : Nat) (ht : s.targetTtl = some t) (h : ttl < t) :
    newTargetTtl s false ttl = some t := by
  unfold newTargetTtl
  simp only [Bool.false_eq_true, if_false, ht, ge_iff_le]
  have : ¬ t ≤ ttl := by omega
  simp [this]

/-- the target answering: the remembered distance becomes the smaller of the two (a nearer target is followed at once) -/
theorem target_answer_takes_min (s : TS) (ttl : Nat) :
    newTargetTtl s true ttl = some (match s.targetTtl with | none => ttl | some t => min ttl t) := by
  unfold newTargetTtl
  cases h : s.targetTtl with
  | none => simp
  | some t =>
    simp only [if_true]
    by_cases hlt : ttl < t
    · simp [hlt, Nat.min_eq_left (Nat.le_of_lt hlt)]
    · simp [hlt, Nat.min_eq_right (Nat.le_of_not_lt hlt)]

/-- nothing is remembered ⇒ a router's answer leaves it so -/
theorem router_without_memory (s : TS) (ttl : Nat) (hn : s.targetTtl = none) : newTargetTtl s false ttl = none := by
  unfold newTargetTtl; simp [hn]

#print axioms router_at_or_beyond_forgets
#print axioms router_below_keeps
#print axioms target_answer_takes_min
#print axioms router_without_memory
#print axioms iter_targetTtl
#print axioms stable_path_no_probe_beyond
#print axioms target_ttl_ge
#print axioms exact_answer_establishes
#print axioms established_stays
#print axioms stable_path_length
end TV.Props.C10Strat
