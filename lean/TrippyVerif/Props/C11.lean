import TrippyVerif.Lemmas.Wire
/-!
# C11 — every probe put on the wire is well-formed and as configured
# (with the Paris half of C13 and the wire half of C19)

"Each probe handed to the send socket decodes, with an independent RFC decoder, to a datagram
addressed to the target with the probe's TTL/hop-limit, the configured type-of-service and
don't-fragment set (IPv4), consistent length fields and valid ICMP/UDP checksums.  It carries the
probe's sequence in the field the strategy prescribes (ICMP sequence, UDP port, UDP checksum for
Paris, IP identification or payload length for Dublin) and the trace identifier for ICMP; for ICMP
and classic/Dublin-IPv4 UDP the datagram's total size equals the configured packet size and its
payload is the configured pattern."

* model of the code: `TV.Wire.dispatch` (`Model/Wire.lean`); decoders: `TV.Decode`
  (`Spec/Decode.lean`, RFC 791 / 768 / 792 / 4443); checksum validity: `TV.Rfc1071.verifies`
  over the RFC pseudo header (`pseudoHdr`) and the transport octets, via the C13 theorems.
* quantifiers: every configuration with well-sized addresses (`c.AddrOk`), every packet size in
  the accepted range, every TOS and pattern octet, every probe whose fields are machine values
  (`ProbeOk`: 16-bit sequence / identifier / ports, 8-bit TTL).  `emitted` ties the probe to
  `Strat.probeData`, i.e. to each protocol × strategy × port-direction cell.
* where the kernel builds the IP header (IPv6 always; unprivileged UDP; TCP) the theorem states the
  exact socket calls: hop limit / TTL / TOS options, bind and destination addresses and ports and
  the octets handed to `send_to`.
* UDP over IPv6 is decoded with `decodeUDP6`, which rejects a zero checksum field (RFC 8200
  §8.1); the code maps a computed 0x0000 to 0xFFFF (`makeUdp`, `makeUdp_nonzero6`,
  `verifies_allones`).  Over IPv4 a computed 0x0000 is sent as 0 ("no checksum", RFC 768) and
  `decodeUDP` accepts it.
* nothing is partial, with one *stated* residual: with the Paris strategy the checksum *field* is
  the sequence number by design, so over IPv6 the datagram for sequence 0 is invalid
  (`udp_v6_paris` has the hypothesis `p.seq ≠ 0`; `udp_v6_paris_sequence_zero` shows it is
  necessary).  The datagram still sums to 0xFFFF (`verifies`).
-/
namespace TV.Props.C11
open TV TV.Wire TV.Rfc1071 TV.Decode

-- `ProbeOk p` (`Lemmas/Wire.lean`): the probe's fields are machine values (`u16` / `u8`):
-- `p.seq < 65536 ∧ p.ident < 65536 ∧ p.srcPort < 65536 ∧ p.destPort < 65536 ∧ p.ttl ≤ 255`

/-- the IPv4 header every raw IPv4 probe must decode to -/
def ip4Expected (c : ChanCfg) (total ident ttl proto : Nat) : IPv4Hdr :=
  { version := 4, ihl := 5, tos := c.tos.toNat, totalLength := total, ident := ident,
    reserved := false, df := true, mf := false, fragOffset := 0, ttl := ttl, proto := proto,
    headerChecksum := 0, src := c.src, dst := c.dst, options := [] }

theorem addr4 (c : ChanCfg) (hc : c.AddrOk) (hv : c.v6 = false) :
    c.src.length = 4 ∧ c.dst.length = 4 := by simpa [ChanCfg.AddrOk, hv] using hc

/-! ## ICMP -/

/-- **ICMP / IPv4.**  One `send_to` of an IPv4 datagram of exactly `packetSize` octets to the
target: header as configured (TOS, DF, no fragmentation, TTL, protocol 1, total length = buffer
length, identification 0), Echo Request with the trace identifier, the sequence, the pattern
payload and a valid checksum. -/
theorem icmp_v4 (c : ChanCfg) (hc : c.AddrOk) (hv : c.v6 = false) (hp : c.proto = .icmp)
    (hsz : 28 ≤ c.packetSize ∧ c.packetSize ≤ 1024) (p : Strat.Probe) (hpr : ProbeOk p) :
    ∃ bytes ck, dispatch c p = .ok [.sendTo bytes c.dst 0] ∧ bytes.length = c.packetSize ∧
      decodeIPv4 bytes = some (ip4Expected c c.packetSize 0 p.ttl 1,
         echoPkt c ck p.ident p.seq (c.packetSize - 28)) ∧
      decodeIcmpEcho (echoPkt c ck p.ident p.seq (c.packetSize - 28)) =
        some { type := 8, code := 0, checksum := ck, ident := p.ident, seq := p.seq,
               data := List.replicate (c.packetSize - 28) c.pattern } ∧
      verifies (echoPkt c ck p.ident p.seq (c.packetSize - 28)) := by
  obtain ⟨h1, h2, h3, h4, h5⟩ := hpr
  have hn : c.packetSize - 28 ≤ maxIcmpPayload c := by
    simp only [maxIcmpPayload, hv]; simp [Consts.net4_MAX_ICMP_PAYLOAD_BUF]; omega
  obtain ⟨ck, hck, he, hver⟩ := makeEchoRequest_spec c hc p.ident p.seq (c.packetSize - 28) hn
  have hs4 := addr4 c hc hv
  have hel := echoPkt_length c ck p.ident p.seq (c.packetSize - 28)
  obtain ⟨bytes, hb, hbl, hdec⟩ := makeIpv4_decode c hs4.1 hs4.2 protoIcmp p.ttl 0
    (echoPkt c ck p.ident p.seq (c.packetSize - 28)) (by omega) h5 (by omega)
  refine ⟨bytes, ck, ?_, by omega, ?_, ?_, ?_⟩
  · have hcond : ¬ ¬ (minIcmp c ≤ c.packetSize ∧ c.packetSize ≤ MAX_PACKET_SIZE) := by
      simp [minIcmp, hv, Consts.net4_MIN_PACKET_SIZE_ICMP, MAX_PACKET_SIZE,
        Consts.channel_MAX_PACKET_SIZE]; omega
    have hsub : c.packetSize - l4Hdr - ipHdr c = c.packetSize - 28 := by
      simp only [ipHdr, hv, l4Hdr, ip4Hdr, Bool.false_eq_true, if_false]; omega
    simp only [dispatch, hp, dispatchIcmp, if_neg hcond, hsub, he, R.bind_ok, hv, hb]
    rfl
  · rw [hdec]; simp [hel, protoIcmp, ip4Expected]; omega
  · rw [decodeIcmpEcho_echoPkt c ck _ _ _ (by omega) h2 h1]; simp [hv]
  · simpa [hv] using hver

/-- **ICMP / IPv6.**  `set_unicast_hops_v6(ttl)` then one `send_to` of the ICMPv6 Echo Request to
the target; with the 40-octet IPv6 header the kernel adds the datagram has `packetSize` octets;
the checksum is valid over the RFC 8200 pseudo header. -/
theorem icmp_v6 (c : ChanCfg) (hc : c.AddrOk) (hv : c.v6 = true) (hp : c.proto = .icmp)
    (hsz : 48 ≤ c.packetSize ∧ c.packetSize ≤ 1024) (p : Strat.Probe) (hpr : ProbeOk p) :
    ∃ ck, dispatch c p =
        .ok [.setHops p.ttl, .sendTo (echoPkt c ck p.ident p.seq (c.packetSize - 48)) c.dst 0] ∧
      (echoPkt c ck p.ident p.seq (c.packetSize - 48)).length + 40 = c.packetSize ∧
      decodeIcmpEcho (echoPkt c ck p.ident p.seq (c.packetSize - 48)) =
        some { type := 128, code := 0, checksum := ck, ident := p.ident, seq := p.seq,
               data := List.replicate (c.packetSize - 48) c.pattern } ∧
      verifies (pseudoHdr c 58 (8 + (c.packetSize - 48)) ++
        echoPkt c ck p.ident p.seq (c.packetSize - 48)) := by
  obtain ⟨h1, h2, h3, h4, h5⟩ := hpr
  have hn : c.packetSize - 48 ≤ maxIcmpPayload c := by
    simp only [maxIcmpPayload, hv]; simp [Consts.net6_MAX_ICMP_PAYLOAD_BUF]; omega
  obtain ⟨ck, hck, he, hver⟩ := makeEchoRequest_spec c hc p.ident p.seq (c.packetSize - 48) hn
  have hel := echoPkt_length c ck p.ident p.seq (c.packetSize - 48)
  refine ⟨ck, ?_, by omega, ?_, ?_⟩
  · have hcond : ¬ ¬ (minIcmp c ≤ c.packetSize ∧ c.packetSize ≤ MAX_PACKET_SIZE) := by
      simp [minIcmp, hv, Consts.net6_MIN_PACKET_SIZE_ICMP, MAX_PACKET_SIZE,
        Consts.channel_MAX_PACKET_SIZE]; omega
    have hsub : c.packetSize - l4Hdr - ipHdr c = c.packetSize - 48 := by
      simp only [ipHdr, hv, l4Hdr, ip6Hdr, if_true]; omega
    simp only [dispatch, hp, dispatchIcmp, if_neg hcond, hsub, he, R.bind_ok, hv, if_true]
    rfl
  · rw [decodeIcmpEcho_echoPkt c ck _ _ _ (by omega) h2 h1]; simp [hv]
  · simpa [hv] using hver

/-! ## UDP -/

theorem udp_cond4 (c : ChanCfg) (hv : c.v6 = false) (hsz : 28 ≤ c.packetSize ∧ c.packetSize ≤ 1024) :
    ¬ ¬ (minUdp c ≤ c.packetSize ∧ c.packetSize ≤ MAX_PACKET_SIZE) ∧
    c.packetSize - l4Hdr - ipHdr c = c.packetSize - 28 ∧
    ¬ (c.packetSize - 28 > maxUdpPayload c) ∧ 8 + (c.packetSize - 28) ≤ maxUdpBuf c := by
  refine ⟨?_, ?_, ?_, ?_⟩
  · simp [minUdp, hv, Consts.net4_MIN_PACKET_SIZE_UDP, MAX_PACKET_SIZE,
      Consts.channel_MAX_PACKET_SIZE]; omega
  · simp only [ipHdr, hv, l4Hdr, ip4Hdr, Bool.false_eq_true, if_false]; omega
  · simp only [maxUdpPayload, hv]; simp [Consts.net4_MAX_UDP_PAYLOAD_BUF]; omega
  · simp only [maxUdpBuf, hv]; simp [Consts.net4_MAX_UDP_PACKET_BUF]; omega

theorem udp_cond6 (c : ChanCfg) (hv : c.v6 = true) (hsz : 48 ≤ c.packetSize ∧ c.packetSize ≤ 1024) :
    ¬ ¬ (minUdp c ≤ c.packetSize ∧ c.packetSize ≤ MAX_PACKET_SIZE) ∧
    c.packetSize - l4Hdr - ipHdr c = c.packetSize - 48 ∧
    ¬ (c.packetSize - 48 > maxUdpPayload c) ∧ 8 + (c.packetSize - 48) ≤ maxUdpBuf c := by
  refine ⟨?_, ?_, ?_, ?_⟩
  · simp [minUdp, hv, Consts.net6_MIN_PACKET_SIZE_UDP, MAX_PACKET_SIZE,
      Consts.channel_MAX_PACKET_SIZE]; omega
  · simp only [ipHdr, hv, l4Hdr, ip6Hdr, if_true]; omega
  · simp only [maxUdpPayload, hv]; simp [Consts.net6_MAX_UDP_PAYLOAD_BUF]; omega
  · simp only [maxUdpBuf, hv]; simp [Consts.net6_MAX_UDP_PACKET_BUF]; omega

/-- **UDP / IPv4 / raw socket, classic and Dublin** (no Paris flag).  One `send_to` of an IPv4
datagram of exactly `packetSize` octets: header as configured with the probe's identifier as IP
identification (the Dublin sequence carrier), UDP header with the probe's ports, length = 8 +
payload, pattern payload and a valid checksum over the RFC 768 pseudo header. -/
theorem udp_v4_raw (c : ChanCfg) (hc : c.AddrOk) (hv : c.v6 = false) (hp : c.proto = .udp)
    (hpriv : c.privileged = true) (hsz : 28 ≤ c.packetSize ∧ c.packetSize ≤ 1024)
    (p : Strat.Probe) (hpr : ProbeOk p) (hfl : isParis p.flags = false) :
    ∃ bytes ck, dispatch c p = .ok [.sendTo bytes c.dst p.destPort] ∧
      bytes.length = c.packetSize ∧
      decodeIPv4 bytes = some (ip4Expected c c.packetSize p.ident p.ttl 17,
        udpPkt p.srcPort p.destPort ck (List.replicate (c.packetSize - 28) c.pattern)) ∧
      decodeUDP (udpPkt p.srcPort p.destPort ck (List.replicate (c.packetSize - 28) c.pattern)) =
        some ({ srcPort := p.srcPort, dstPort := p.destPort, length := 8 + (c.packetSize - 28),
                checksum := ck }, List.replicate (c.packetSize - 28) c.pattern) ∧
      verifies (pseudoHdr c 17 (8 + (c.packetSize - 28)) ++
        udpPkt p.srcPort p.destPort ck (List.replicate (c.packetSize - 28) c.pattern)) ∧
      calcUdpChecksum c p.srcPort p.destPort (c.packetSize - 28) = .ok ck := by
  obtain ⟨h1, h2, h3, h4, h5⟩ := hpr
  obtain ⟨hcond, hsub, hpl, hbuf⟩ := udp_cond4 c hv hsz
  obtain ⟨ck, hck, hm, hver⟩ := makeUdp_spec c hc p.srcPort p.destPort
    (List.replicate (c.packetSize - 28) c.pattern) (by simpa using hbuf)
  have hs4 := addr4 c hc hv
  have hul := udpPkt_length p.srcPort p.destPort ck (List.replicate (c.packetSize - 28) c.pattern)
  simp only [List.length_replicate] at hul hver
  obtain ⟨bytes, hb, hbl, hdec⟩ := makeIpv4_decode c hs4.1 hs4.2 protoUdp p.ttl p.ident
    (udpPkt p.srcPort p.destPort ck (List.replicate (c.packetSize - 28) c.pattern))
    (by omega) h5 h2
  refine ⟨bytes, ck, ?_, by omega, ?_, ?_, hver, ?_⟩
  · simp only [dispatch, hp, dispatchUdp, if_neg hcond, hsub, if_neg hpl, hpriv, if_true,
      dispatchUdpRaw, hfl, hv, Bool.false_and, Bool.false_eq_true, if_false, hm, R.pure_eq, R.bind_ok, hb]
  · rw [hdec]; simp [hul, protoUdp, ip4Expected]; omega
  · rw [decodeUDP_udpPkt _ _ _ _ h3 h4 (by omega) (by simp; omega)]; simp
  · have : min (c.packetSize - 28) (maxUdpPayload c) = c.packetSize - 28 := by omega
    simp [calcUdpChecksum, this, hm]

/-- **C19, wire half.**  For an unmodified Dublin/IPv4 quotation the expected checksum
(`calc_udp_checksum` on the quoted ports and payload length) is the checksum that was dispatched:
`make_udp_packet` and `calc_udp_checksum` agree for every port pair, payload length and pattern. -/
theorem expected_checksum_matches_dispatch (c : ChanCfg) (hc : c.AddrOk) (sp dp n : Nat)
    (hn : n ≤ maxUdpPayload c) :
    ∃ ck, makeUdp c sp dp (List.replicate n c.pattern) =
        .ok (ck, udpPkt sp dp ck (List.replicate n c.pattern)) ∧
      calcUdpChecksum c sp dp n = .ok ck := by
  have := maxUdpPayload_le c
  obtain ⟨ck, _, hm, _⟩ := makeUdp_spec c hc sp dp (List.replicate n c.pattern) (by simp; omega)
  refine ⟨ck, hm, ?_⟩
  have : min n (maxUdpPayload c) = n := by omega
  simp [calcUdpChecksum, this, hm]

/-- **C13, Paris half.**  For every sequence number (and ports, addresses, family) the Paris
datagram has the sequence in its checksum field, the checksum `make_udp_packet` computed in its
two payload octets, and still verifies over the pseudo header. -/
theorem paris_checksum_is_sequence_and_verifies (c : ChanCfg) (hc : c.AddrOk) (sp dp seq : Nat)
    (h1 : sp < 65536) (h2 : dp < 65536) (h3 : seq < 65536) :
    ∃ ck, ck ≤ 0xFFFF ∧ makeUdpParis c sp dp seq = .ok (parisPkt sp dp seq ck) ∧
      decodeUDP (parisPkt sp dp seq ck) =
        some ({ srcPort := sp, dstPort := dp, length := 10, checksum := seq }, [hi ck, lo ck]) ∧
      verifies (pseudoHdr c 17 10 ++ parisPkt sp dp seq ck) := by
  obtain ⟨ck, hck, hm, _, hver⟩ := makeUdpParis_spec c hc sp dp seq
  refine ⟨ck, hck, hm, ?_, hver⟩
  exact decodeUDP_udpPkt sp dp seq [hi ck, lo ck] h1 h2 h3 (by simp)

/-- **UDP / IPv4 / raw socket, Paris.**  The datagram is 30 octets whatever the configured size. -/
theorem udp_v4_paris (c : ChanCfg) (hc : c.AddrOk) (hv : c.v6 = false) (hp : c.proto = .udp)
    (hpriv : c.privileged = true) (hsz : 28 ≤ c.packetSize ∧ c.packetSize ≤ 1024)
    (p : Strat.Probe) (hpr : ProbeOk p) (hfl : isParis p.flags = true) :
    ∃ bytes ck, dispatch c p = .ok [.sendTo bytes c.dst p.destPort] ∧ bytes.length = 30 ∧
      decodeIPv4 bytes = some (ip4Expected c 30 p.ident p.ttl 17,
        parisPkt p.srcPort p.destPort p.seq ck) ∧
      decodeUDP (parisPkt p.srcPort p.destPort p.seq ck) =
        some ({ srcPort := p.srcPort, dstPort := p.destPort, length := 10, checksum := p.seq },
              [hi ck, lo ck]) ∧
      verifies (pseudoHdr c 17 10 ++ parisPkt p.srcPort p.destPort p.seq ck) := by
  obtain ⟨h1, h2, h3, h4, h5⟩ := hpr
  obtain ⟨hcond, hsub, hpl, hbuf⟩ := udp_cond4 c hv hsz
  obtain ⟨ck, hck, hm, hdu, hver⟩ :=
    paris_checksum_is_sequence_and_verifies c hc p.srcPort p.destPort p.seq h3 h4 h1
  have hs4 := addr4 c hc hv
  obtain ⟨bytes, hb, hbl, hdec⟩ := makeIpv4_decode c hs4.1 hs4.2 protoUdp p.ttl p.ident
    (parisPkt p.srcPort p.destPort p.seq ck) (by simp [parisPkt]) h5 h2
  refine ⟨bytes, ck, ?_, by simpa [parisPkt] using hbl, ?_, hdu, hver⟩
  · simp only [dispatch, hp, dispatchUdp, if_neg hcond, hsub, if_neg hpl, hpriv, if_true,
      dispatchUdpRaw, hfl, hv, Bool.false_eq_true, if_false, hm, R.pure_eq, R.bind_ok, hb]
  · rw [hdec]; simp [parisPkt, protoUdp, ip4Expected]

/-- **UDP / IPv6 / raw socket, classic** (neither flag).  Hop limit option, then the UDP datagram
to the target (port 0 in the socket address: the port is in the UDP header). -/
theorem udp_v6_raw (c : ChanCfg) (hc : c.AddrOk) (hv : c.v6 = true) (hp : c.proto = .udp)
    (hpriv : c.privileged = true) (hsz : 48 ≤ c.packetSize ∧ c.packetSize ≤ 1024)
    (p : Strat.Probe) (hpr : ProbeOk p) (hfl : isParis p.flags = false)
    (hfd : isDublin p.flags = false) :
    ∃ ck, dispatch c p = .ok [.setHops p.ttl,
        .sendTo (udpPkt p.srcPort p.destPort ck (List.replicate (c.packetSize - 48) c.pattern)) c.dst 0] ∧
      (udpPkt p.srcPort p.destPort ck (List.replicate (c.packetSize - 48) c.pattern)).length + 40 =
        c.packetSize ∧
      decodeUDP6 (udpPkt p.srcPort p.destPort ck (List.replicate (c.packetSize - 48) c.pattern)) =
        some ({ srcPort := p.srcPort, dstPort := p.destPort, length := 8 + (c.packetSize - 48),
                checksum := ck }, List.replicate (c.packetSize - 48) c.pattern) ∧
      verifies (pseudoHdr c 17 (8 + (c.packetSize - 48)) ++
        udpPkt p.srcPort p.destPort ck (List.replicate (c.packetSize - 48) c.pattern)) := by
  obtain ⟨h1, h2, h3, h4, h5⟩ := hpr
  obtain ⟨hcond, hsub, hpl, hbuf⟩ := udp_cond6 c hv hsz
  obtain ⟨ck, hck, hm, hver⟩ := makeUdp_spec c hc p.srcPort p.destPort
    (List.replicate (c.packetSize - 48) c.pattern) (by simpa using hbuf)
  have hul := udpPkt_length p.srcPort p.destPort ck (List.replicate (c.packetSize - 48) c.pattern)
  simp only [List.length_replicate] at hul hver
  refine ⟨ck, ?_, by omega, ?_, hver⟩
  · simp only [dispatch, hp, dispatchUdp, if_neg hcond, hsub, if_neg hpl, hpriv, if_true,
      dispatchUdpRaw, hfl, hfd, hv, Bool.and_false, Bool.false_eq_true, if_false, hm, R.pure_eq, R.bind_ok]
  · have hnz := makeUdp_nonzero6 c hv _ _ _ _ _ hm
    unfold decodeUDP6
    rw [decodeUDP_udpPkt _ _ _ _ h3 h4 (by omega) (by simp; omega)]; simp [hnz]

/-- **UDP / IPv6 / raw socket, Dublin.**  The payload is the magic prefix followed by
`sequence − initial_sequence` pattern octets: the sequence is `initial + (payload length − 6)`.
(`hwin`: the sequence lies in the window the strategy uses, `initial ≤ seq ≤ initial + 970`;
the state machine keeps it within `initial + 512`.) -/
theorem udp_v6_dublin (c : ChanCfg) (hc : c.AddrOk) (hv : c.v6 = true) (hp : c.proto = .udp)
    (hpriv : c.privileged = true) (hsz : 48 ≤ c.packetSize ∧ c.packetSize ≤ 1024)
    (p : Strat.Probe) (hpr : ProbeOk p) (hfl : isParis p.flags = false)
    (hfd : isDublin p.flags = true) (hwin : c.initialSeq ≤ p.seq ∧ p.seq - c.initialSeq ≤ 970) :
    ∃ ck payload, dispatch c p = .ok [.setHops p.ttl,
        .sendTo (udpPkt p.srcPort p.destPort ck payload) c.dst 0] ∧
      payload = Consts.net6_MAGIC ++ List.replicate (p.seq - c.initialSeq) c.pattern ∧
      c.initialSeq + (payload.length - 6) = p.seq ∧
      decodeUDP6 (udpPkt p.srcPort p.destPort ck payload) =
        some ({ srcPort := p.srcPort, dstPort := p.destPort, length := 8 + payload.length,
                checksum := ck }, payload) ∧
      verifies (pseudoHdr c 17 (8 + payload.length) ++ udpPkt p.srcPort p.destPort ck payload) := by
  obtain ⟨h1, h2, h3, h4, h5⟩ := hpr
  obtain ⟨hcond, hsub, hpl, hbuf⟩ := udp_cond6 c hv hsz
  have hml : Consts.net6_MAGIC.length = 6 := by decide
  have hplen : (Consts.net6_MAGIC ++ List.replicate (p.seq - c.initialSeq) c.pattern).length =
      6 + (p.seq - c.initialSeq) := by simp [hml]
  have hmb : maxUdpBuf c = 984 ∧ maxUdpPayload c = 976 := by
    simp [maxUdpBuf, maxUdpPayload, hv, Consts.net6_MAX_UDP_PACKET_BUF,
      Consts.net6_MAX_UDP_PAYLOAD_BUF]
  obtain ⟨ck, hck, hm, hver⟩ := makeUdp_spec c hc p.srcPort p.destPort
    (Consts.net6_MAGIC ++ List.replicate (p.seq - c.initialSeq) c.pattern) (by rw [hplen]; omega)
  refine ⟨ck, _, ?_, rfl, by rw [hplen]; omega, ?_, hver⟩
  · have hsub' : Strat.subU p.seq c.initialSeq = .ok (p.seq - c.initialSeq) := by
      simp [Strat.subU, hwin.1]
    have hfit : ¬ (p.seq - c.initialSeq + Consts.net6_MAGIC.length > maxUdpPayload c) := by
      rw [hml, hmb.2]; omega
    simp only [dispatch, hp, dispatchUdp, if_neg hcond, hsub, if_neg hpl, hpriv, if_true,
      dispatchUdpRaw, hfl, hfd, hv, Bool.and_true, Bool.false_eq_true, if_false, hsub',
      R.pure_eq, R.bind_ok, if_neg hfit, hm]
  · have hnz := makeUdp_nonzero6 c hv _ _ _ _ _ hm
    unfold decodeUDP6
    rw [decodeUDP_udpPkt _ _ _ _ h3 h4 (by omega) (by rw [hplen]; omega)]; simp [hnz]

/-- **UDP / IPv6 / raw socket, Paris.**  The checksum field *is* the sequence number, so the
datagram is a valid UDP/IPv6 datagram (RFC 8200 §8.1: checksum ≠ 0) exactly when the sequence is
not 0: hypothesis `hseq0`.  Sequence 0 is reachable only with `--initial-sequence 0` (first probe
of a round); `udp_v6_paris_sequence_zero` shows the hypothesis cannot be dropped. -/
theorem udp_v6_paris (c : ChanCfg) (hc : c.AddrOk) (hv : c.v6 = true) (hp : c.proto = .udp)
    (hpriv : c.privileged = true) (hsz : 48 ≤ c.packetSize ∧ c.packetSize ≤ 1024)
    (p : Strat.Probe) (hpr : ProbeOk p) (hfl : isParis p.flags = true) (hseq0 : p.seq ≠ 0) :
    ∃ ck, dispatch c p = .ok [.setHops p.ttl,
        .sendTo (parisPkt p.srcPort p.destPort p.seq ck) c.dst 0] ∧
      decodeUDP6 (parisPkt p.srcPort p.destPort p.seq ck) =
        some ({ srcPort := p.srcPort, dstPort := p.destPort, length := 10, checksum := p.seq },
              [hi ck, lo ck]) ∧
      verifies (pseudoHdr c 17 10 ++ parisPkt p.srcPort p.destPort p.seq ck) := by
  obtain ⟨h1, h2, h3, h4, h5⟩ := hpr
  obtain ⟨hcond, hsub, hpl, hbuf⟩ := udp_cond6 c hv hsz
  obtain ⟨ck, hck, hm, hdu, hver⟩ :=
    paris_checksum_is_sequence_and_verifies c hc p.srcPort p.destPort p.seq h3 h4 h1
  refine ⟨ck, ?_, ?_, hver⟩
  · simp only [dispatch, hp, dispatchUdp, if_neg hcond, hsub, if_neg hpl, hpriv, if_true,
      dispatchUdpRaw, hfl, hv, hm, R.pure_eq, R.bind_ok, if_true]
  · unfold decodeUDP6; rw [hdu]; simp [hseq0]

/-- **Known residual (Paris / IPv6 / sequence 0).**  With the Paris strategy the UDP checksum
field carries the sequence number by design; for sequence 0 the model — like the code — puts
0x0000 in the checksum field of a UDP/IPv6 datagram, which RFC 8200 §8.1 declares invalid
(`decodeUDP6 = none`), for every configuration, port pair and TTL.  Hence `hseq0` in
`udp_v6_paris` is necessary. -/
theorem udp_v6_paris_sequence_zero (c : ChanCfg) (hc : c.AddrOk) (hv : c.v6 = true)
    (hp : c.proto = .udp) (hpriv : c.privileged = true)
    (hsz : 48 ≤ c.packetSize ∧ c.packetSize ≤ 1024)
    (p : Strat.Probe) (hpr : ProbeOk p) (hfl : isParis p.flags = true) (hseq0 : p.seq = 0) :
    ∃ ck, dispatch c p = .ok [.setHops p.ttl,
        .sendTo (parisPkt p.srcPort p.destPort 0 ck) c.dst 0] ∧
      (parisPkt p.srcPort p.destPort 0 ck).drop 6 = [0, 0, hi ck, lo ck] ∧
      decodeUDP6 (parisPkt p.srcPort p.destPort 0 ck) = none := by
  obtain ⟨h1, h2, h3, h4, h5⟩ := hpr
  obtain ⟨hcond, hsub, hpl, hbuf⟩ := udp_cond6 c hv hsz
  obtain ⟨ck, hck, hm, hdu, hver⟩ :=
    paris_checksum_is_sequence_and_verifies c hc p.srcPort p.destPort p.seq h3 h4 h1
  rw [hseq0] at hm hdu
  refine ⟨ck, ?_, ?_, ?_⟩
  · simp only [dispatch, hp, dispatchUdp, if_neg hcond, hsub, if_neg hpl, hpriv, if_true,
      dispatchUdpRaw, hfl, hv, hseq0, hm, R.pure_eq, R.bind_ok, if_true]
  · simp [parisPkt, hi, lo]
  · unfold decodeUDP6; rw [hdu]; simp

/-- concrete witness of the same: fd00::1 → fd00::7, ports 5000 → 33434, sequence 0 -/
theorem udp_v6_paris_sequence_zero_witness :
    ∃ ck, makeUdpParis
        { v6 := true, src := [0xfd, 0, 0, 0, 0, 0, 0, 0, 0, 0, 0, 0, 0, 0, 0, 1],
          dst := [0xfd, 0, 0, 0, 0, 0, 0, 0, 0, 0, 0, 0, 0, 0, 0, 7], packetSize := 84,
          pattern := 0, privileged := true, tos := 0, proto := .udp, extEnabled := false,
          initialSeq := 0 } 5000 33434 0 =
        .ok [0x13, 0x88, 0x82, 0x9a, 0, 10, 0, 0, hi ck, lo ck] ∧
      decodeUDP6 [0x13, 0x88, 0x82, 0x9a, 0, 10, 0, 0, hi ck, lo ck] = none := by
  obtain ⟨ck, _, hm, _, _⟩ := makeUdpParis_spec
    { v6 := true, src := [0xfd, 0, 0, 0, 0, 0, 0, 0, 0, 0, 0, 0, 0, 0, 0, 1],
      dst := [0xfd, 0, 0, 0, 0, 0, 0, 0, 0, 0, 0, 0, 0, 0, 0, 7], packetSize := 84,
      pattern := 0, privileged := true, tos := 0, proto := .udp, extEnabled := false,
      initialSeq := 0 } (by decide) 5000 33434 0
  refine ⟨ck, ?_, ?_⟩
  · rw [hm]; simp [parisPkt, hi, lo]
  · simp [decodeUDP6, decodeUDP, u16]

/-- **UDP, unprivileged** (both families): a fresh datagram socket bound to the source address and
the probe's source port, TTL / hop limit and (IPv4) TOS set from the probe and the configuration,
and the pattern payload of `packetSize − headers` octets sent to the target and the probe's
destination port.  The kernel builds the IP and UDP headers. -/
theorem udp_unprivileged (c : ChanCfg) (hp : c.proto = .udp) (hpriv : c.privileged = false)
    (hsz : (if c.v6 then 48 else 28) ≤ c.packetSize ∧ c.packetSize ≤ 1024) (p : Strat.Probe) :
    dispatch c p = .ok
      (if c.v6 then
        [.newSocket (.udp6 false), .bind c.src p.srcPort, .setHops p.ttl,
         .sendTo (List.replicate (c.packetSize - 48) c.pattern) c.dst p.destPort]
       else
        [.newSocket (.udp4 false), .bind c.src p.srcPort, .setTtl p.ttl, .setTos c.tos.toNat,
         .sendTo (List.replicate (c.packetSize - 28) c.pattern) c.dst p.destPort]) := by
  cases hv : c.v6
  · simp only [hv, Bool.false_eq_true, if_false] at hsz
    obtain ⟨hcond, hsub, hpl, _⟩ := udp_cond4 c hv hsz
    simp only [dispatch, hp, dispatchUdp, if_neg hcond, hsub, if_neg hpl, hpriv, Bool.false_eq_true,
      if_false, dispatchUdpNonRaw, hv]
  · simp only [hv, if_true] at hsz
    obtain ⟨hcond, hsub, hpl, _⟩ := udp_cond6 c hv hsz
    simp only [dispatch, hp, dispatchUdp, if_neg hcond, hsub, if_neg hpl, hpriv, Bool.false_eq_true,
      if_false, dispatchUdpNonRaw, hv, if_true]

/-! ## TCP -/

/-- **TCP** (both families): a fresh stream socket bound to the source address and source port,
TTL / hop limit (and IPv4 TOS) set, then `connect` to the target and the destination port. -/
theorem tcp (c : ChanCfg) (hp : c.proto = .tcp) (p : Strat.Probe) :
    dispatch c p = .ok
      (if c.v6 then
        [.newSocket .stream6, .bind c.src p.srcPort, .setHops p.ttl, .connect c.dst p.destPort]
       else
        [.newSocket .stream4, .bind c.src p.srcPort, .setTtl p.ttl, .setTos c.tos.toNat,
         .connect c.dst p.destPort]) := by
  simp only [dispatch, hp, dispatchTcp]

/-! ## sizes outside the accepted range -/

/-- a packet size below the minimum (28 / 48) or above 1024 is refused with
`Error::InvalidPacketSize` for ICMP and UDP — nothing is sent, nothing panics -/
theorem size_out_of_range (c : ChanCfg) (hp : c.proto ≠ .tcp) (p : Strat.Probe)
    (hsz : c.packetSize < (if c.v6 then 48 else 28) ∨ 1024 < c.packetSize) :
    dispatch c p = .err .invalidPacketSize := by
  have hcond : ¬ (minIcmp c ≤ c.packetSize ∧ c.packetSize ≤ MAX_PACKET_SIZE) ∧
      ¬ (minUdp c ≤ c.packetSize ∧ c.packetSize ≤ MAX_PACKET_SIZE) := by
    cases hv : c.v6 <;>
      simp [hv, minIcmp, minUdp, MAX_PACKET_SIZE, Consts.channel_MAX_PACKET_SIZE,
        Consts.net4_MIN_PACKET_SIZE_ICMP, Consts.net4_MIN_PACKET_SIZE_UDP,
        Consts.net6_MIN_PACKET_SIZE_ICMP, Consts.net6_MIN_PACKET_SIZE_UDP] at hsz ⊢ <;> omega
  cases hpr : c.proto with
  | icmp => simp only [dispatch, hpr, dispatchIcmp, if_pos hcond.1]
  | udp => simp only [dispatch, hpr, dispatchUdp, if_pos hcond.2]
  | tcp => exact absurd hpr hp

/-- in the accepted range nothing is refused and, for probes the strategy can emit, nothing
panics: every case above returns `ok`.  (Outside the Dublin/IPv6 window the `u16` subtraction
`sequence - initial_sequence` or the payload slice would panic: `dublin_v6_outside_window`.) -/
theorem dublin_v6_outside_window (c : ChanCfg) (hv : c.v6 = true)
    (hp : c.proto = .udp) (hpriv : c.privileged = true)
    (hsz : 48 ≤ c.packetSize ∧ c.packetSize ≤ 1024) (p : Strat.Probe)
    (hfl : isParis p.flags = false) (hfd : isDublin p.flags = true)
    (hout : p.seq < c.initialSeq ∨ p.seq - c.initialSeq > 970) :
    dispatch c p = .panic := by
  obtain ⟨hcond, hsub, hpl, hbuf⟩ := udp_cond6 c hv hsz
  have hmb : maxUdpPayload c = 976 := by
    simp [maxUdpPayload, hv, Consts.net6_MAX_UDP_PAYLOAD_BUF]
  have hml : Consts.net6_MAGIC.length = 6 := by decide
  simp only [dispatch, hp, dispatchUdp, if_neg hcond, hsub, if_neg hpl, hpriv, if_true,
    dispatchUdpRaw, hfl, hfd, hv, Bool.and_true, Bool.false_eq_true, if_false]
  by_cases h : c.initialSeq ≤ p.seq
  · have h2 : p.seq - c.initialSeq + Consts.net6_MAGIC.length > maxUdpPayload c := by
      rw [hml, hmb]; omega
    simp [Strat.subU, h, h2]
  · simp [Strat.subU, h]

/-! ## the sequence is where the strategy prescribes -/

/-- the configuration of the channel and of the strategy describe the same trace -/
def Compat (c : ChanCfg) (s : Strat.Cfg) : Prop :=
  c.v6 = s.v6 ∧ c.proto = s.proto ∧ c.initialSeq = s.initialSeq

/-- the probe `TracerState::next_probe` emits in state `ts` -/
def emitted (s : Strat.Cfg) (ts : Strat.TS) (ttl : Nat) : R Strat.Probe := do
  let (sp, dp, id, fl) ← Strat.probeData s ts
  pure { seq := ts.sequence, ident := id, srcPort := sp, destPort := dp, ttl := ttl,
         round := ts.round, sent := ts.now, flags := fl }

/-- **Where the sequence travels** — for every cell of `probe_data` (protocol × strategy × port
direction) the emitted probe has: ICMP: identifier = trace id, no flags (sequence in the ICMP
sequence field by `icmp_v4` / `icmp_v6`); UDP classic / TCP: the variable port = sequence;
Paris: the Paris flag (checksum field = sequence by `udp_v4_paris` / `udp_v6_paris`); Dublin:
identifier = sequence (IP identification by `udp_v4_raw`) and the Dublin flag, no Paris flag
(payload length by `udp_v6_dublin`). -/
theorem sequence_location (s : Strat.Cfg) (ts : Strat.TS) (ttl : Nat) (p : Strat.Probe)
    (h : emitted s ts ttl = .ok p) :
    p.seq = ts.sequence ∧ p.ttl = ttl ∧
    (match s.proto, s.strat, s.portDir with
     | .icmp, _, _ => p.ident = s.traceId ∧ isParis p.flags = false ∧ isDublin p.flags = false
     | .udp, .classic, .fixedSrc sp => p.srcPort = sp ∧ p.destPort = p.seq ∧
         isParis p.flags = false ∧ isDublin p.flags = false
     | .udp, .classic, .fixedDest dp => p.destPort = dp ∧ p.srcPort = p.seq ∧
         isParis p.flags = false ∧ isDublin p.flags = false
     | .udp, .paris, .fixedSrc sp => p.srcPort = sp ∧ isParis p.flags = true
     | .udp, .paris, .fixedDest dp => p.destPort = dp ∧ isParis p.flags = true
     | .udp, .paris, .fixedBoth sp dp => p.srcPort = sp ∧ p.destPort = dp ∧ isParis p.flags = true
     | .udp, .dublin, .fixedSrc sp => p.srcPort = sp ∧ p.ident = p.seq ∧
         isParis p.flags = false ∧ isDublin p.flags = true
     | .udp, .dublin, .fixedDest dp => p.destPort = dp ∧ p.ident = p.seq ∧
         isParis p.flags = false ∧ isDublin p.flags = true
     | .udp, .dublin, .fixedBoth sp dp => p.srcPort = sp ∧ p.destPort = dp ∧ p.ident = p.seq ∧
         isParis p.flags = false ∧ isDublin p.flags = true
     | .tcp, _, .fixedSrc sp => p.srcPort = sp ∧ p.destPort = p.seq
     | .tcp, _, .fixedDest dp => p.destPort = dp ∧ p.srcPort = p.seq
     | _, _, _ => False) := by
  unfold emitted Strat.probeData at h
  cases hp : s.proto <;> cases hs : s.strat <;> cases hd : s.portDir <;>
    simp only [hp, hs, hd, R.bind_ok, R.bind_panic, R.pure_eq] at h <;>
    cases h <;> simp [isParis, isDublin]

/-- the emitted probe's fields are machine values when the configuration's are -/
theorem emitted_probeOk (s : Strat.Cfg) (ts : Strat.TS) (ttl : Nat) (p : Strat.Probe)
    (h : emitted s ts ttl = .ok p) (hseq : ts.sequence < 65536) (httl : ttl ≤ 255)
    (hid : s.traceId < 65536)
    (hpd : match s.portDir with
      | .fixedSrc a => a < 65536 | .fixedDest a => a < 65536
      | .fixedBoth a b => a < 65536 ∧ b < 65536 | .none => True) : ProbeOk p := by
  have hrp : Strat.roundPort s ts < 65536 := by unfold Strat.roundPort; omega
  unfold emitted Strat.probeData at h
  cases hp : s.proto <;> cases hs : s.strat <;> cases hd : s.portDir <;>
    simp only [hp, hs, hd, R.bind_ok, R.bind_panic, R.pure_eq] at h hpd <;>
    cases h <;> (simp only [ProbeOk]; omega)

/-! ## the hypotheses are satisfiable -/

/-- 10.0.0.1 → 10.0.0.7, UDP, 84 octets, pattern 0x55, TOS 0x28 -/
def sampleCfg : ChanCfg :=
  { v6 := false, src := [10, 0, 0, 1], dst := [10, 0, 0, 7], packetSize := 84, pattern := 0x55,
    privileged := true, tos := 0x28, proto := .udp, extEnabled := false, initialSeq := 33434 }

/-- a Dublin probe (identifier = sequence) -/
def sampleProbe : Strat.Probe :=
  { seq := 33500, ident := 33500, srcPort := 5000, destPort := 33434, ttl := 7, round := 0,
    sent := 0, flags := 2 }

example : sampleCfg.AddrOk ∧ sampleCfg.v6 = false ∧ sampleCfg.proto = .udp ∧
    sampleCfg.privileged = true ∧ (28 ≤ sampleCfg.packetSize ∧ sampleCfg.packetSize ≤ 1024) ∧
    ProbeOk sampleProbe ∧ isParis sampleProbe.flags = false := by
  refine ⟨by decide, rfl, rfl, rfl, by decide, by simp [ProbeOk, sampleProbe], by decide⟩

example : ProbeOk { sampleProbe with flags := 1 } ∧ isParis 1 = true := by
  refine ⟨by simp [ProbeOk, sampleProbe], by decide⟩

/-- a strategy configuration whose emitted probe is the sample probe (Dublin, fixed source port) -/
example : emitted
    { v6 := false, target := 167772167, proto := .udp, traceId := 0, maxRounds := none,
      firstTtl := 1, maxTtl := 64, grace := 0, maxInflight := 24, initialSeq := 33434,
      strat := .dublin, portDir := .fixedSrc 5000, minRound := 0, maxRound := 0 }
    { buffer := [], sequence := 33500, roundSeq := 33434, ttl := 7, round := 0, roundStart := 0,
      targetFound := false, maxRecvTtl := none, targetTtl := none, recvTime := none, now := 0 }
    7 = .ok sampleProbe := by
  decide

end TV.Props.C11

#print axioms TV.Props.C11.icmp_v4
#print axioms TV.Props.C11.icmp_v6
#print axioms TV.Props.C11.udp_v4_raw
#print axioms TV.Props.C11.expected_checksum_matches_dispatch
#print axioms TV.Props.C11.paris_checksum_is_sequence_and_verifies
#print axioms TV.Props.C11.udp_v4_paris
#print axioms TV.Props.C11.udp_v6_raw
#print axioms TV.Props.C11.udp_v6_dublin
#print axioms TV.Props.C11.udp_v6_paris
#print axioms TV.Props.C11.udp_v6_paris_sequence_zero
#print axioms TV.Props.C11.udp_v6_paris_sequence_zero_witness
#print axioms TV.Props.C11.udp_unprivileged
#print axioms TV.Props.C11.tcp
#print axioms TV.Props.C11.size_out_of_range
#print axioms TV.Props.C11.dublin_v6_outside_window
#print axioms TV.Props.C11.sequence_location
#print axioms TV.Props.C11.emitted_probeOk
