import TrippyVerif.Gen.C12Field
/-!
# C12 — packet field accessors are exact, independent and RFC-positioned

The per-field theorems live in `Gen/C12/F_*.lean`.  Their *statements* are generated from the
hand-written RFC table `spec/rfc_fields.json`, never from the code; the *definitions* they talk
about (`TV.Pkt.<file>.<Type>.get_*/set_*`) are regenerated from `/repo`'s source on every run.
For every field `f = (k, n, sh, w)` of every view type with minimum size `m`:

* `get_f_spec : m ≤ b.length → get_f b = ok (decode (getField b k n sh w))`     (RFC position)
* `set_f_spec : m ≤ b.length → set_f b v = ok (setField b k n sh w (encode v))` (RFC store)
* `f_laws     : m ≤ b.length → ∃ b', set_f b v = ok b' ∧ b'.length = b.length ∧
                 get_f b' = ok (v truncated to w bits) ∧
                 ∀ bit j outside the field, bitAt b' j = bitAt b j`
* `new_iff / new_view_iff : constructor accepts ⇔ m ≤ length`, `minSize_rfc : minSize = m`
* `id_from_u8 : (E.from_u8 x).id = x` for the octet-backed enums.

This file states the generic facts those are instances of, and checks non-vacuity.
-/
namespace TV.Props.C12
open TV TV.Spec

/-- read-back: what was stored is what is read, truncated to the field width (`v : BitVec w`) -/
theorem readback (b : Buf) (k n sh w : Nat) (v : BitVec w) (hlen : k + n ≤ b.length)
    (hw : sh + w ≤ 8 * n) : getField (setField b k n sh w v) k n sh w = v :=
  getField_setField b k n sh w v hlen hw

/-- frame: every bit of the buffer outside the field's RFC bit range is untouched -/
theorem frame (b : Buf) (k n sh w : Nat) (v : BitVec w) (j : Nat) (hlen : k + n ≤ b.length)
    (hw : sh + w ≤ 8 * n) (hj : j < 8 * (k + n) - sh - w ∨ 8 * (k + n) - sh ≤ j) :
    bitAt (setField b k n sh w v) j = bitAt b j :=
  bitAt_setField_outside b k n sh w v j hlen hw hj

/-- independence: another field of the same word keeps its value -/
theorem independent (b : Buf) (k n sh w sh' w' : Nat) (v : BitVec w) (hlen : k + n ≤ b.length)
    (hd : sh' + w' ≤ sh ∨ sh + w ≤ sh') :
    getField (setField b k n sh w v) k n sh' w' = getField b k n sh' w' :=
  getField_setField_disjoint b k n sh w sh' w' v hlen hd

/-- `getField` really is "big-endian word, shifted and masked": its value as a number -/
theorem getField_toNat (b : Buf) (k n sh w : Nat) :
    (getField b k n sh w).toNat = ((wordBV b k n).toNat >>> sh) % 2 ^ w := by
  simp [getField, BitVec.extractLsb'_toNat]

/-! non-vacuity: the hypotheses are met by concrete non-trivial buffers, and the instances say
what one expects on them -/
example : (Pkt.ipv4.Ipv4Packet.get_version [0x45, 0, 0, 20, 0, 0, 0x40, 0, 64, 1, 0, 0, 10, 0, 0, 1, 10, 0, 0, 2])
    = .ok 4 := by decide
example : (Pkt.ipv6.Ipv6Packet.set_flow_label (List.replicate 40 0xff) 0x00F00000 >>=
    Pkt.ipv6.Ipv6Packet.get_traffic_class) = .ok 0xff := by decide
example : ∃ b v, 20 ≤ b.length ∧ Pkt.ipv4.Ipv4Packet.set_dscp b v ≠ .ok b :=
  ⟨List.replicate 20 0, 5, by decide, by decide⟩

end TV.Props.C12

#print axioms TV.Spec.getField_setField
#print axioms TV.Spec.bitAt_setField_outside
#print axioms TV.Spec.getField_setField_disjoint
#print axioms TV.Spec.length_setField
#print axioms TV.Spec.octet_setField_outside
