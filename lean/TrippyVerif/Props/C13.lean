import TrippyVerif.Lemmas.Checksum
/-
C13 (codec half) — Internet checksums.

"For every payload length and content and every address pair, the ICMP, UDP and TCP checksums
the codec computes are the RFC 1071 one's-complement checksum over the (pseudo-header and) data
with the checksum field taken as zero, so that the datagram with the checksum inserted sums to
0xFFFF."

Model : `TV.Cksum.*`   (Model/Checksum.lean, line-by-line from trippy-packet/src/checksum.rs)
Spec  : `TV.Rfc1071.*` (Spec/Rfc1071.lean)

Address arguments are octet lists; `src.length = 4` / `= 16` says "is an `Ipv4Addr` / `Ipv6Addr`".
The bound `d.length ≤ 65535` is the largest upper-layer length an IP datagram can carry (and the
largest the 16-bit length field of the IPv4 pseudo header can express).
-/
namespace TV.C13
open TV TV.Cksum TV.Rfc1071

/-! ## (1) end-around carry; the `finalize_checksum` loop is the spec fold -/

theorem fold16_le (n : Nat) : fold16 n ≤ 65535 := Cksum.fold16_le n

theorem fold16_eq_zero_iff (n : Nat) : fold16 n = 0 ↔ n = 0 := Cksum.fold16_eq_zero n

theorem fold16_mod (n : Nat) : fold16 n % 65535 = n % 65535 := Cksum.fold16_mod n

/-- the closed form `fold16` *is* the end-around-carry recursion of RFC 1071 §4.1
("fold 32-bit sum to 16 bits"): fixed on 16-bit values, and adding the carry-out back in does
not change it. -/
theorem fold16_end_around_carry (n : Nat) :
    (n < 65536 → fold16 n = n) ∧ fold16 (n / 65536 + n % 65536) = fold16 n :=
  ⟨Cksum.fold16_small, Cksum.fold16_carry n⟩

/-- one iteration of the `while` loop stays inside `u32` (it strictly decreases `sum`; this is
also the termination measure accepted for `finLoop`). -/
theorem finalize_loop_no_overflow (sum : Nat) (hs : sum < 2 ^ 32)
    (hc : (sum >>> 16 != 0) = true) : (sum >>> 16) + (sum &&& 0xFFFF) < 2 ^ 32 :=
  Nat.lt_trans (finStep_lt sum hc) hs

/-- model loop = spec fold -/
theorem finalize_eq_fold16 (n : Nat) (_hn : n < 2 ^ 32) : finalize n = 0xFFFF - fold16 n :=
  Cksum.finalize_eq n

/-! ## (2) `sum_be_words` = word sum of the data with the ignored field cleared -/

theorem sumBeWords_eq_wordSum (d : List UInt8) (iw : Nat) (h : d.length ≤ 65535) :
    sumBeWords d iw = .ok (wordSum (zeroField iw d)) := Cksum.sumBeWords_ok d iw h

/-- sharper: without any length bound the only other outcome is the accumulator overflow -/
theorem sumBeWords_exact (d : List UInt8) (iw : Nat) :
    sumBeWords d iw =
      if wordSum (zeroField iw d) < 2 ^ 32 then .ok (wordSum (zeroField iw d)) else .panic :=
  Cksum.sumBeWords_exact d iw

-- the skipped word coincides with the odd tail (5 octets, word 2 is the lone last octet)
example : sumBeWords [0x12, 0x34, 0x56, 0x78, 0x9a] 2 = .ok (0x1234 + 0x5678) := by
  rw [sumBeWords_eq_wordSum _ _ (by decide)]; decide
-- the skipped word is an inner one, the odd tail is counted
example : sumBeWords [0x12, 0x34, 0x56, 0x78, 0x9a] 1 = .ok (0x1234 + 0x9a00) := by
  rw [sumBeWords_eq_wordSum _ _ (by decide)]; decide

/-! ## (3) no accumulator overflow for `d.length ≤ 65535` -/

theorem no_overflow (d src4 dst4 src6 dst6 : List UInt8) (iw : Nat) (p : UInt8)
    (h : d.length ≤ 65535) (h4s : src4.length = 4) (h4d : dst4.length = 4)
    (h6s : src6.length = 16) (h6d : dst6.length = 16) :
    sumBeWords d iw ≠ .panic ∧ checksum d iw ≠ .panic ∧
    ipv4WordSum src4 ≠ .panic ∧ ipv6WordSum src6 ≠ .panic ∧
    ipv4Checksum d iw src4 dst4 p ≠ .panic ∧ ipv6Checksum d iw src6 dst6 p ≠ .panic ∧
    ipv4_header_checksum d ≠ .panic ∧ icmp_ipv4_checksum d ≠ .panic ∧
    icmp_ipv6_checksum d src6 dst6 ≠ .panic ∧ udp_ipv4_checksum d src4 dst4 ≠ .panic ∧
    tcp_ipv4_checksum d src4 dst4 ≠ .panic ∧ udp_ipv6_checksum d src6 dst6 ≠ .panic := by
  have hck : ∀ iw, checksum d iw ≠ .panic := by
    intro iw
    by_cases he : d = []
    · subst he; simp [checksum]
    · rw [checksum_eq iw he h]; simp
  refine ⟨?_, hck iw, ?_, ?_, ?_, ?_, hck 5, hck 1, ?_, ?_, ?_, ?_⟩
  · rw [sumBeWords_ok d iw h]; simp
  · rw [ipv4WordSum_eq h4s]; simp
  · rw [ipv6WordSum_eq h6s]; simp
  · rw [ipv4Checksum_eq iw p h4s h4d h]; simp
  · rw [ipv6Checksum_eq iw p h6s h6d h]; simp
  · unfold icmp_ipv6_checksum; rw [ipv6Checksum_eq _ _ h6s h6d h]; simp
  · unfold udp_ipv4_checksum; rw [ipv4Checksum_eq _ _ h4s h4d h]; simp
  · unfold tcp_ipv4_checksum; rw [ipv4Checksum_eq _ _ h4s h4d h]; simp
  · unfold udp_ipv6_checksum; rw [ipv6Checksum_eq _ _ h6s h6d h]; simp

/-! ## (4) each public function is the RFC 1071 checksum -/

theorem ipv4_header_checksum_rfc1071 (d : List UInt8) (hne : d ≠ []) (h : d.length ≤ 65535) :
    ipv4_header_checksum d = .ok (ocsum (zeroField 5 d)) := checksum_eq 5 hne h

theorem icmp_ipv4_checksum_rfc1071 (d : List UInt8) (hne : d ≠ []) (h : d.length ≤ 65535) :
    icmp_ipv4_checksum d = .ok (ocsum (zeroField 1 d)) := checksum_eq 1 hne h

/-- F13: on the empty input the two pseudo-header-less functions return 0, RFC 1071 gives
0xFFFF (pinned by the repository's own `test_empty_ipv4_checksum`). -/
theorem checksum_empty_deviation :
    ipv4_header_checksum [] = .ok 0 ∧ icmp_ipv4_checksum [] = .ok 0 ∧
    ocsum (zeroField 5 []) = 0xFFFF ∧ ocsum (zeroField 1 []) = 0xFFFF := by
  refine ⟨rfl, rfl, ?_, ?_⟩ <;> decide

theorem icmp_ipv6_checksum_rfc1071 (d src dst : List UInt8)
    (hs : src.length = 16) (hd : dst.length = 16) (h : d.length ≤ 65535) :
    icmp_ipv6_checksum d src dst = .ok (ocsum (pseudo6 src dst 58 d.length ++ zeroField 1 d)) :=
  ipv6Checksum_eq 1 58 hs hd h

theorem udp_ipv4_checksum_rfc1071 (d src dst : List UInt8)
    (hs : src.length = 4) (hd : dst.length = 4) (h : d.length ≤ 65535) :
    udp_ipv4_checksum d src dst = .ok (ocsum (pseudo4 src dst 17 d.length ++ zeroField 3 d)) :=
  ipv4Checksum_eq 3 17 hs hd h

theorem tcp_ipv4_checksum_rfc1071 (d src dst : List UInt8)
    (hs : src.length = 4) (hd : dst.length = 4) (h : d.length ≤ 65535) :
    tcp_ipv4_checksum d src dst = .ok (ocsum (pseudo4 src dst 6 d.length ++ zeroField 8 d)) :=
  ipv4Checksum_eq 8 6 hs hd h

theorem udp_ipv6_checksum_rfc1071 (d src dst : List UInt8)
    (hs : src.length = 16) (hd : dst.length = 16) (h : d.length ≤ 65535) :
    udp_ipv6_checksum d src dst = .ok (ocsum (pseudo6 src dst 17 d.length ++ zeroField 3 d)) :=
  ipv6Checksum_eq 3 17 hs hd h

/-! ### verification corollaries: the datagram with the checksum inserted sums to 0xFFFF

`verifies x` is `fold16 (wordSum x) = 0xFFFF`; `putField iw c d` stores `c` big-endian in octets
`2*iw`, `2*iw+1` of `d`; the hypothesis `2*iw+1 < d.length` says the field lies inside `d`. -/

theorem ipv4_header_checksum_verifies (d : List UInt8) (h : d.length ≤ 65535)
    (hf : 2 * 5 + 1 < d.length) :
    ∃ c, ipv4_header_checksum d = .ok c ∧ c ≤ 0xFFFF ∧ verifies (putField 5 c d) := by
  have hne : d ≠ [] := by intro e; subst e; simp at hf
  refine ⟨_, checksum_eq 5 hne h, by unfold ocsum; omega, ?_⟩
  simpa using verifies_putField [] d 5 rfl hf

theorem icmp_ipv4_checksum_verifies (d : List UInt8) (h : d.length ≤ 65535)
    (hf : 2 * 1 + 1 < d.length) :
    ∃ c, icmp_ipv4_checksum d = .ok c ∧ c ≤ 0xFFFF ∧ verifies (putField 1 c d) := by
  have hne : d ≠ [] := by intro e; subst e; simp at hf
  refine ⟨_, checksum_eq 1 hne h, by unfold ocsum; omega, ?_⟩
  simpa using verifies_putField [] d 1 rfl hf

theorem icmp_ipv6_checksum_verifies (d src dst : List UInt8)
    (hs : src.length = 16) (hd : dst.length = 16) (h : d.length ≤ 65535)
    (hf : 2 * 1 + 1 < d.length) :
    ∃ c, icmp_ipv6_checksum d src dst = .ok c ∧ c ≤ 0xFFFF ∧
      verifies (pseudo6 src dst 58 d.length ++ putField 1 c d) :=
  ⟨_, ipv6Checksum_eq 1 58 hs hd h, by unfold ocsum; omega,
    verifies_putField _ d 1 (pseudo6_length_even _ _ hs hd) hf⟩

theorem udp_ipv4_checksum_verifies (d src dst : List UInt8)
    (hs : src.length = 4) (hd : dst.length = 4) (h : d.length ≤ 65535)
    (hf : 2 * 3 + 1 < d.length) :
    ∃ c, udp_ipv4_checksum d src dst = .ok c ∧ c ≤ 0xFFFF ∧
      verifies (pseudo4 src dst 17 d.length ++ putField 3 c d) :=
  ⟨_, ipv4Checksum_eq 3 17 hs hd h, by unfold ocsum; omega,
    verifies_putField _ d 3 (pseudo4_length_even _ _ hs hd) hf⟩

theorem tcp_ipv4_checksum_verifies (d src dst : List UInt8)
    (hs : src.length = 4) (hd : dst.length = 4) (h : d.length ≤ 65535)
    (hf : 2 * 8 + 1 < d.length) :
    ∃ c, tcp_ipv4_checksum d src dst = .ok c ∧ c ≤ 0xFFFF ∧
      verifies (pseudo4 src dst 6 d.length ++ putField 8 c d) :=
  ⟨_, ipv4Checksum_eq 8 6 hs hd h, by unfold ocsum; omega,
    verifies_putField _ d 8 (pseudo4_length_even _ _ hs hd) hf⟩

theorem udp_ipv6_checksum_verifies (d src dst : List UInt8)
    (hs : src.length = 16) (hd : dst.length = 16) (h : d.length ≤ 65535)
    (hf : 2 * 3 + 1 < d.length) :
    ∃ c, udp_ipv6_checksum d src dst = .ok c ∧ c ≤ 0xFFFF ∧
      verifies (pseudo6 src dst 17 d.length ++ putField 3 c d) :=
  ⟨_, ipv6Checksum_eq 3 17 hs hd h, by unfold ocsum; omega,
    verifies_putField _ d 3 (pseudo6_length_even _ _ hs hd) hf⟩

/-! ### the hypotheses are satisfiable: the repository's own test vectors -/

-- `test_tcp_ipv4_checksum` (`Cksum.tcpVec`): 10.0.0.103 → 10.0.0.1, 20-octet SYN/ACK, expected 0x55cc

example : tcp_ipv4_checksum tcpVec [10, 0, 0, 103] [10, 0, 0, 1] = .ok 0x55cc := by
  rw [tcp_ipv4_checksum_rfc1071 _ _ _ rfl rfl (by decide)]; decide

example : 2 * 8 + 1 < tcpVec.length ∧ tcpVec.length ≤ 65535 := by decide

example : verifies (pseudo4 [10, 0, 0, 103] [10, 0, 0, 1] 6 tcpVec.length
    ++ putField 8 0x55cc tcpVec) := by unfold verifies; decide

-- `test_ipv4_header_checksum` (`Cksum.ipVec`), expected 0x1e3f

example : ipv4_header_checksum ipVec = .ok 0x1e3f := by
  rw [ipv4_header_checksum_rfc1071 _ (by decide) (by decide)]; decide

/-- `test_empty_ipv6_checksum`: fe80::811:3f6:7601:6c3f → fe80::1c8d:7d69:d0b6:8182, expected
10357 for UDP (empty data is covered by the pseudo-header theorems) -/
example : udp_ipv6_checksum []
    [0xfe, 0x80, 0, 0, 0, 0, 0, 0, 0x08, 0x11, 0x03, 0xf6, 0x76, 0x01, 0x6c, 0x3f]
    [0xfe, 0x80, 0, 0, 0, 0, 0, 0, 0x1c, 0x8d, 0x7d, 0x69, 0xd0, 0xb6, 0x81, 0x82]
      = .ok 10357 := by
  rw [udp_ipv6_checksum_rfc1071 _ _ _ rfl rfl (by decide)]; decide

/-- `test_odd_length`: one zero octet, expected 65535 -/
example : ipv4_header_checksum [0x00] = .ok 65535 := by
  rw [ipv4_header_checksum_rfc1071 _ (by decide) (by decide)]; decide

end TV.C13

#print axioms TV.C13.fold16_le
#print axioms TV.C13.fold16_eq_zero_iff
#print axioms TV.C13.fold16_mod
#print axioms TV.C13.fold16_end_around_carry
#print axioms TV.C13.finalize_loop_no_overflow
#print axioms TV.C13.finalize_eq_fold16
#print axioms TV.C13.sumBeWords_eq_wordSum
#print axioms TV.C13.sumBeWords_exact
#print axioms TV.C13.no_overflow
#print axioms TV.C13.ipv4_header_checksum_rfc1071
#print axioms TV.C13.icmp_ipv4_checksum_rfc1071
#print axioms TV.C13.checksum_empty_deviation
#print axioms TV.C13.icmp_ipv6_checksum_rfc1071
#print axioms TV.C13.udp_ipv4_checksum_rfc1071
#print axioms TV.C13.tcp_ipv4_checksum_rfc1071
#print axioms TV.C13.udp_ipv6_checksum_rfc1071
#print axioms TV.C13.ipv4_header_checksum_verifies
#print axioms TV.C13.icmp_ipv4_checksum_verifies
#print axioms TV.C13.icmp_ipv6_checksum_verifies
#print axioms TV.C13.udp_ipv4_checksum_verifies
#print axioms TV.C13.tcp_ipv4_checksum_verifies
#print axioms TV.C13.udp_ipv6_checksum_verifies
