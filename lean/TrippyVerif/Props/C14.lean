import TrippyVerif.Lemmas.Ext
/-!
# C14 — ICMP multi-part extensions (RFC 4884) and MPLS label stacks (RFC 4950)

"For any ICMP Time Exceeded or Destination Unreachable message built according to RFC 4884
(compliant length field, or the legacy 128-octet convention) carrying any sequence of extension
objects including MPLS label stacks (RFC 4950), the tracer recovers the original datagram unchanged
and reports exactly the objects, labels and EXP/S/TTL values that were encoded, in order.  For
malformed structures parsing stops without reading outside the message and iteration always
terminates; the quoted datagram and the extension never overlap and both lie within the received
message."

* model of the code: `TV.Ext` (`Model/Ext.lean`); the encoder it is checked against:
  `TV.Rfc4884` (`Spec/Rfc4884.lean`, written from the RFCs).
* the headline theorems are stated for `TV.Ext.codeIsFixed` (= `true`), the scaling the driver
  entry `TV.Ext.handle` uses: the repaired code `usize::from(get_length()) * 4` / `* 8`.
  `fixed := false` is the *pre-repair* code, where the `u8` multiplication overflowed for length
  attributes ≥ 64 (ICMPv4) / ≥ 32 (ICMPv6); the old-code lemmas `current_code_panic_iff`,
  `current_code_roundtrip`, `witness_v4_len64`, `witness_v6_len32` are about
  `splitPayloadExtensionWith false` explicitly and stay true whatever the switch says.
* nothing here is partial.  Label stacks of n ≥ 0 entries round-trip (an empty or too short stack
  is reported as a stack without members: `emptyStack_reported`, `class1_short_payload`); "other"
  objects have class ≠ 1, because class 1 with any C-Type is reported as a label stack
  (`class1_any_ctype`).  `tracerExtract` stops at the octets handed to `Ipv4Packet::new_view` /
  `Ipv6Packet::new_view`; what those do is C04/C12.
* termination: `TV.Ext.objectsFrom`, `TV.Ext.objects`, `TV.Ext.members`, `TV.Ext.mapR`,
  `TV.Ext.extensionsTryFrom` are total Lean functions (no `partial`, no fuel): that they are
  accepted *is* the termination proof of `ExtensionObjectIter` and `MplsLabelStackIter`; the
  iteration counts are bounded in `objects_count` / `members_count`.
-/
namespace TV.Props.C14
open TV TV.Ext TV.Rfc4884

/-! ## (a) round trip -/

/-- The RFC 4884 "original datagram" field is the original datagram (compliant mode: all of it,
then zero padding to ≥ 128 octets and a word boundary; legacy mode: its first 128 octets, zero
padded to exactly 128).  "Recovering the original datagram unchanged" means recovering this field:
its leading `orig.length` (resp. `min orig.length 128`) octets are the datagram. -/
theorem padOrig_recovers (fam : Bool) (mode : Mode) (orig : Buf) :
    (∃ k, padOrig fam mode orig =
      (match mode with | .compliant => orig | .legacy => orig.take 128) ++ List.replicate k 0) ∧
    (padOrig fam mode orig).length =
      (match mode with | .compliant => paddedLen fam orig.length | .legacy => 128) ∧
    128 ≤ paddedLen fam orig.length ∧ orig.length ≤ paddedLen fam orig.length ∧
    paddedLen fam orig.length % unit fam = 0 ∧ paddedLen fam orig.length < orig.length + 128 + unit fam := by
  refine ⟨?_, padOrig_length fam mode orig, (paddedLen_facts fam _).1, (paddedLen_facts fam _).2.1,
    ?_, ?_⟩
  · cases mode <;> exact ⟨_, rfl⟩
  · unfold paddedLen unit; cases fam <;> simp <;> omega
  · unfold paddedLen unit; cases fam <;> simp <;> omega

/-- **C14 (a), round trip.**  For ICMPv4 and ICMPv6 (`fam`), Time Exceeded and Destination
Unreachable (`te`, `h` = the other header octets), both RFC 4884 modes (`mode`), both extension
parse modes (`enabled`), every original datagram whose padded length fits the 8-bit length
attribute, every checksum value and every list of well-formed objects (any class ≠ 1 with any
C-Type and a payload of up to 65531 octets; label stacks of 0..16382 entries with S clear on all
but the last entry), for the code as the driver runs it (`codeIsFixed`):

* `payload()` is the original-datagram field, `extension()` is the extension structure, they
  partition the ICMP body (`payload_raw()`);
* `Extensions::try_from` reports exactly the encoded objects in order — class, C-Type and bytes
  of unknown objects, label/EXP/S/TTL of every label stack entry;
* the tracer (`extract_probe_resp`) obtains the original datagram in every parse mode
  (with extensions disabled a Time Exceeded message hands the whole body, which starts with it,
  to the IP parser). -/
theorem roundtrip (fam te enabled : Bool) (h : IcmpHdr) (mode : Mode) (orig : Buf)
    (ckHi ckLo : UInt8) (objs : List Obj) (hwf : ∀ o ∈ objs, o.wf)
    (hfit : lengthAttr fam mode orig ≤ 255) :
    let ext := encodeExt ckHi ckLo objs
    let icmp := buildIcmp fam h mode orig ext
    payload codeIsFixed fam icmp = .ok (padOrig fam mode orig) ∧
    extension codeIsFixed fam icmp = .ok (some ext) ∧
    payloadRaw icmp = .ok (padOrig fam mode orig ++ ext) ∧
    extensionsTryFrom ext = .ok (objs.map Obj.expected) ∧
    tracerExtract codeIsFixed fam te enabled icmp =
      (if te && !enabled then .ok (padOrig fam mode orig ++ ext, none)
       else if enabled then .ok (padOrig fam mode orig, some (objs.map Obj.expected))
       else .ok (padOrig fam mode orig, none)) := by
  intro ext icmp
  simp only [codeIsFixed]
  have hext : 4 ≤ ext.length := by simp [ext, encodeExt, extHeader]
  have hs := splitFixed_built fam h mode orig ext hext hfit
  refine ⟨?_, ?_, ?_, extensionsTryFrom_encode ckHi ckLo objs hwf,
    tracerExtract_built fam te enabled h mode orig ckHi ckLo objs hwf hfit⟩
  · unfold payload; rw [hs]; rfl
  · unfold extension; rw [hs]; rfl
  · rw [payloadRaw_ok _ (buildIcmp_length ..), buildIcmp_drop]

/-- the split alone does not care what the extension structure contains -/
theorem roundtrip_split (fam : Bool) (h : IcmpHdr) (mode : Mode) (orig ext : Buf)
    (hext : 4 ≤ ext.length) (hfit : lengthAttr fam mode orig ≤ 255) :
    splitPayloadExtensionWith codeIsFixed fam (buildIcmp fam h mode orig ext) =
      .ok (padOrig fam mode orig, some ext) :=
  splitFixed_built fam h mode orig ext hext hfit

/-- **Pre-repair code (`fixed := false`).**  With the `u8` multiplication the round trip held only
while the padded original datagram was shorter than 256 octets; beyond that the multiplication
panicked. -/
theorem current_code_roundtrip (fam : Bool) (h : IcmpHdr) (mode : Mode) (orig ext : Buf)
    (hext : 4 ≤ ext.length) (hfit : lengthAttr fam mode orig ≤ 255) :
    splitPayloadExtensionWith false fam (buildIcmp fam h mode orig ext) =
      if lengthAttr fam mode orig * unitOf fam > 255 then .panic
      else .ok (padOrig fam mode orig, some ext) :=
  splitCurrent_built fam h mode orig ext hext hfit

/-- a sender following RFC 4950 to the letter (S set exactly on the last entry) is covered,
for any number of entries -/
theorem bosExact_wf (ms : List MplsMember) (hlen : ms.length ≤ 16382)
    (hok : ∀ m ∈ ms, memberOk m) (hb : bosExact ms) : (Obj.mpls ms).wf :=
  ⟨hlen, hok, hb.1⟩

/-- **n = 0.**  A label stack object without entries is reported as a label stack without
members, in place, and every object before and after it is reported as encoded. -/
theorem emptyStack_reported (ckHi ckLo : UInt8) (objs rest : List Obj)
    (h : ∀ o ∈ objs, o.wf) (h' : ∀ o ∈ rest, o.wf) :
    extensionsTryFrom (encodeExt ckHi ckLo (objs ++ Obj.mpls [] :: rest)) =
      .ok (objs.map Obj.expected ++ Extension.mpls [] :: rest.map Obj.expected) := by
  have hw : ∀ o ∈ objs ++ Obj.mpls [] :: rest, o.wf := by
    intro o ho
    rcases List.mem_append.mp ho with ho | ho
    · exact h o ho
    · rcases List.mem_cons.mp ho with ho | ho
      · subst ho; simp [Obj.wf]
      · exact h' o ho
  rw [extensionsTryFrom_encode ckHi ckLo _ hw]
  simp [Obj.expected]

/-- concrete bytes: header `20 00 00 00`, object `00 04 01 01` -/
theorem witness_emptyStack :
    extensionsTryFrom [0x20, 0, 0, 0, 0, 4, 1, 1] = .ok [.mpls []] :=
  emptyStack_reported 0 0 [] [] (by simp) (by simp)

/-- a class-1 object with a payload of 1..3 octets (no room for an entry) likewise -/
theorem class1_short_payload (s : Nat) (p tail : Buf) (hp : p.length < 4) :
    objectOf (encodeObject 1 s p ++ tail) = .ok (.mpls []) :=
  objectOf_class1_short s p tail hp

/-- **C-Type is ignored for class 1 (deviation).**  Any class-1 object is reported as an MPLS
label stack, also when its C-Type is not 1 (RFC 4950 defines C-Type 1 only). -/
theorem class1_any_ctype (s : Nat) (ms : List MplsMember) (tail : Buf) (h : (Obj.mpls ms).wf) :
    objectOf (encodeObject 1 s (encodeStack ms) ++ tail) = .ok (.mpls ms) :=
  objectOf_class1 s ms tail h.1 h.2.1 h.2.2

/-! ## (b) arbitrary octets -/

/-- **C14 (b), `split`.**  For every length value and every ICMP body, `split` returns either the
whole body and no extension, or a partition `body = quoted ++ gap ++ extension`: the quoted
datagram is a prefix, the extension (at least 4 octets) a suffix, they do not overlap and lie
inside the body.  (`split` itself never panics: it is a pure function in the model because every
slice operation in the Rust function is guarded, see `Model/Ext.lean`.) -/
theorem split_inside (n : Nat) (body : Buf) :
    (split n body).1 <+: body ∧
    ∀ e, (split n body).2 = some e →
      e <:+ body ∧ 4 ≤ e.length ∧ (split n body).1.length + e.length ≤ body.length ∧
      ∃ gap, body = (split n body).1 ++ gap ++ e := by
  rcases split_cases n body with h | ⟨a, mid, e, h, hb, he⟩
  · rw [h]; exact ⟨List.prefix_refl _, by intro e h'; cases h'⟩
  · rw [h]
    refine ⟨⟨mid ++ e, by simp [hb]⟩, ?_⟩
    intro e' h'
    cases h'
    refine ⟨⟨a ++ mid, hb.symm⟩, he, ?_, mid, hb⟩
    have := congrArg List.length hb
    simp at this
    simp only
    omega

/-- **C14 (b), the packet accessors.**  For every received ICMP message of at least 8 octets
(which `*Packet::new_view` guarantees), `split_payload_extension` (as the driver runs it,
`codeIsFixed`) returns normally and its results lie inside the ICMP body without overlapping. -/
theorem accessors_inside (fam : Bool) (icmp : Buf) (h : 8 ≤ icmp.length) :
    ∃ p eo, splitPayloadExtensionWith codeIsFixed fam icmp = .ok (p, eo) ∧
      payload codeIsFixed fam icmp = .ok p ∧ extension codeIsFixed fam icmp = .ok eo ∧
      payloadRaw icmp = .ok (icmp.drop 8) ∧
      p <+: icmp.drop 8 ∧
      ∀ e, eo = some e → e <:+ icmp.drop 8 ∧ e <:+ icmp ∧ 4 ≤ e.length ∧
        p.length + e.length ≤ (icmp.drop 8).length := by
  simp only [codeIsFixed]
  have hs := splitWith_fixed fam icmp h
  have hin := split_inside ((lengthOctet fam icmp).toNat * unitOf fam) (icmp.drop 8)
  refine ⟨_, _, hs, ?_, ?_, payloadRaw_ok icmp h, hin.1, ?_⟩
  · unfold payload; rw [hs]; rfl
  · unfold extension; rw [hs]; rfl
  · intro e he
    have := hin.2 e he
    exact ⟨this.1, this.1.trans (List.drop_suffix _ _), this.2.1, this.2.2.1⟩

/-- **C14 (b), no panic.**  On any ICMP message of at least 8 octets nothing panics, in any parse
mode (the code as the driver runs it). -/
theorem fixed_code_no_panic (fam te enabled : Bool) (icmp : Buf) (h : 8 ≤ icmp.length) :
    splitPayloadExtensionWith codeIsFixed fam icmp ≠ .panic ∧
    tracerExtract codeIsFixed fam te enabled icmp ≠ .panic :=
  ⟨splitFixed_ne_panic fam icmp h, tracerExtract_ne_panic fam te enabled icmp h⟩

/-- **Pre-repair code (`fixed := false`), exact panic condition** (dev profile, overflow checks
on): `split_payload_extension`, hence `payload()` and `extension()`, panicked precisely when the
length attribute was ≥ 64 (ICMPv4) / ≥ 32 (ICMPv6), whatever the rest of the message. -/
theorem current_code_panic_iff (fam : Bool) (icmp : Buf) (h : 8 ≤ icmp.length) :
    splitPayloadExtensionWith false fam icmp = .panic ↔
      (lengthOctet fam icmp).toNat ≥ (if fam then 32 else 64) :=
  splitCurrent_panic_iff fam icmp h

/-- pre-repair code: ICMPv4 Time Exceeded, length attribute 64 (a 256-octet original datagram
field); the repaired code returns the (empty) body -/
theorem witness_v4_len64 :
    splitPayloadExtensionWith false false [11, 0, 0, 0, 0, 64, 0, 0] = .panic ∧
    splitPayloadExtensionWith true false [11, 0, 0, 0, 0, 64, 0, 0] = .ok ([], none) := by
  constructor
  · rw [current_code_panic_iff false _ (by simp)]; simp [lengthOctet, lengthOffset]
  · rw [splitWith_fixed false _ (by simp)]; simp [split]

/-- pre-repair code: ICMPv6 Time Exceeded, length attribute 32 -/
theorem witness_v6_len32 :
    splitPayloadExtensionWith false true [3, 0, 0, 0, 32, 0, 0, 0] = .panic ∧
    splitPayloadExtensionWith true true [3, 0, 0, 0, 32, 0, 0, 0] = .ok ([], none) := by
  constructor
  · rw [current_code_panic_iff true _ (by simp)]; simp [lengthOctet, lengthOffset]
  · rw [splitWith_fixed true _ (by simp)]; simp [split]

/-- **C14 (b), objects.**  For every extension buffer, every object view the iterator yields is a
suffix of the buffer of at least 4 octets whose declared length is between 4 and the octets
available, so that `payload()` is exactly the declared `[4..length]` (the clamp is inactive) and
lies inside the buffer. -/
theorem objects_inside (ext o : Buf) (h : o ∈ objects ext) :
    o <:+ ext ∧ 4 ≤ o.length ∧ 4 ≤ be16At o ∧ be16At o ≤ o.length ∧
    objPayload o = .ok ((o.take (be16At o)).drop 4) ∧ (o.take (be16At o)).drop 4 <:+: ext := by
  have hm := objects_mem ext o h
  refine ⟨hm.1, hm.2.1, hm.2.2.1, hm.2.2.2, ?_, ?_⟩
  · rw [objPayload_ok o hm.2.1]
    have : max 4 (min (be16At o) o.length) = be16At o := by
      have h2 := hm.2.2.1
      have h3 := hm.2.2.2
      omega
    rw [this]
  · exact ((List.drop_suffix _ _).isInfix.trans (List.take_prefix _ _).isInfix).trans hm.1.isInfix

/-- **`ExtensionObjectPacket::payload()` is total** on every view of at least 4 octets (which
`new_view` guarantees), whatever the declared length: the slice end is clamped to `[4, len]`, the
result is inside the view.  (Before the repair `[0,3,0,0]` and `[0,8,0,0]` panicked.) -/
theorem objPayload_total (o : Buf) (h : 4 ≤ o.length) :
    objPayload o = .ok ((o.take (max 4 (min (be16At o) o.length))).drop 4) ∧
    (o.take (max 4 (min (be16At o) o.length))).drop 4 <:+: o ∧
    objPayload [0, 3, 0, 0] = .ok [] ∧ objPayload [0, 8, 0, 0] = .ok [] := by
  refine ⟨objPayload_ok o h,
    (List.drop_suffix _ _).isInfix.trans (List.take_prefix _ _).isInfix, ?_, ?_⟩
  · rw [objPayload_cons4]; simp
  · rw [objPayload_cons4]; simp

/-- the object iterator yields at most `(len - 4) / 4` items -/
theorem objects_count (ext : Buf) : 4 * (objects ext).length ≤ ext.length - 4 := by
  have := objectsFrom_length (ext.drop 4)
  simpa [objects] using this

/-- **C14 (b), label stack entries.**  Every member view is a suffix of the stack of at least 4
octets (all four getters read in range), and there are at most `len / 4` of them. -/
theorem members_inside (stack m : Buf) (h : m ∈ members stack) :
    m <:+ stack ∧ 4 ≤ m.length ∧ ∃ x, memberOf m = .ok x := by
  have hm := members_mem stack m h
  refine ⟨hm.1, hm.2, ?_⟩
  obtain ⟨a, b, c, d, t, rfl⟩ := exists_cons4 m hm.2
  exact ⟨_, memberOf_cons4 a b c d t⟩

theorem members_count (stack : Buf) : 4 * (members stack).length ≤ stack.length :=
  members_length stack

/-- **C14 (b), `Extensions::try_from` is total and fails only on a missing header.**  On any
octets it never panics; it returns `Err(InsufficientPacketBuffer)` exactly when there are fewer
than 4 octets; otherwise it returns `Ok` with at most `(len - 4) / 4` extensions, and nothing for a
version ≠ 2. -/
theorem tryFrom_total (ext : Buf) :
    extensionsTryFrom ext ≠ .panic ∧
    (ext.length < 4 → extensionsTryFrom ext = .err .pktShort) ∧
    (4 ≤ ext.length → ∃ xs, extensionsTryFrom ext = .ok xs ∧ 4 * xs.length ≤ ext.length - 4) ∧
    ((∃ e, extensionsTryFrom ext = .err e) ↔ ext.length < 4) ∧
    (4 ≤ ext.length → (ext.getD 0 0).toNat / 16 ≠ 2 → extensionsTryFrom ext = .ok []) := by
  refine ⟨extensionsTryFrom_ne_panic ext, extensionsTryFrom_short ext, extensionsTryFrom_ok ext,
    ?_, extensionsTryFrom_version ext⟩
  constructor
  · rintro ⟨e, he⟩
    by_cases h : ext.length < 4
    · exact h
    · obtain ⟨xs, hxs, _⟩ := extensionsTryFrom_ok ext (by omega)
      rw [hxs] at he; cases he
  · intro h; exact ⟨_, extensionsTryFrom_short ext h⟩

/-! ## non-vacuity -/

-- `sampleObjs` (Lemmas/Ext.lean): the two-entry stack of `net/extension.rs`' unit test and an
-- unknown object of class 0x99
-- the hypotheses of `roundtrip` are satisfiable, for v4/v6 and compliant/legacy
example : lengthAttr false .compliant (List.replicate 28 7) ≤ 255 := by
  simp only [lengthAttr, paddedLen, unit, List.length_replicate]; decide
example : lengthAttr true .compliant (List.replicate 2040 7) ≤ 255 := by
  simp only [lengthAttr, paddedLen, unit, List.length_replicate]; decide
example : lengthAttr true .legacy (List.replicate 5000 7) ≤ 255 := by
  simp only [lengthAttr]; decide

example :
    extensionsTryFrom (encodeExt 0x96 0x53 sampleObjs) =
      .ok [.mpls [⟨27121, 4, 0, 1⟩, ⟨2, 4, 1, 255⟩], .unknown 0x99 1 [6, 0x9f, 0x18, 1]] :=
  (roundtrip false true true default .legacy [] 0x96 0x53 sampleObjs sampleObjs_wf
    (by simp [lengthAttr])).2.2.2.1

example (h : IcmpHdr) :
    payload codeIsFixed false (buildIcmp false h .compliant (List.replicate 28 7)
      (encodeExt 0 0 sampleObjs)) = .ok (List.replicate 28 7 ++ List.replicate 100 0) :=
  (roundtrip false true true h .compliant (List.replicate 28 7) 0 0 sampleObjs sampleObjs_wf
    (by simp [lengthAttr, paddedLen, unit])).1

-- a 253-octet original datagram (length attribute 64): panicked before the repair
example (h : IcmpHdr) :
    splitPayloadExtensionWith false false (buildIcmp false h .compliant (List.replicate 253 7)
      (encodeExt 0 0 [])) = .panic := by
  rw [current_code_roundtrip false h .compliant _ _ (by simp [encodeExt, extHeader])
    (by simp only [lengthAttr, paddedLen, unit, List.length_replicate]; decide)]
  simp only [lengthAttr, paddedLen, unit, unitOf, List.length_replicate]
  decide

-- ... and round-trips now (`roundtrip_split` applies: the length attribute fits)
example (h : IcmpHdr) :
    splitPayloadExtensionWith codeIsFixed false (buildIcmp false h .compliant (List.replicate 253 7)
      (encodeExt 0 0 [])) =
      .ok (padOrig false .compliant (List.replicate 253 7), some (encodeExt 0 0 [])) :=
  roundtrip_split false h .compliant _ _ (by simp [encodeExt, extHeader])
    (by simp only [lengthAttr, paddedLen, unit, List.length_replicate]; decide)

-- label stacks without entries are covered by `roundtrip`
example : (Obj.mpls []).wf := by simp [Obj.wf]

-- `split` does return extensions (the second disjunct of `split_cases` is inhabited)
example (a : Buf) (ha : a.length = 128) : split 0 (a ++ [0x20, 0, 0, 0]) = (a, some [0x20, 0, 0, 0]) :=
  split_legacy a _ ha (by simp)

end TV.Props.C14

#print axioms TV.Props.C14.padOrig_recovers
#print axioms TV.Props.C14.roundtrip
#print axioms TV.Props.C14.roundtrip_split
#print axioms TV.Props.C14.current_code_roundtrip
#print axioms TV.Props.C14.bosExact_wf
#print axioms TV.Props.C14.emptyStack_reported
#print axioms TV.Props.C14.witness_emptyStack
#print axioms TV.Props.C14.class1_short_payload
#print axioms TV.Props.C14.class1_any_ctype
#print axioms TV.Props.C14.split_inside
#print axioms TV.Props.C14.accessors_inside
#print axioms TV.Props.C14.current_code_panic_iff
#print axioms TV.Props.C14.witness_v4_len64
#print axioms TV.Props.C14.witness_v6_len32
#print axioms TV.Props.C14.fixed_code_no_panic
#print axioms TV.Props.C14.objects_inside
#print axioms TV.Props.C14.objects_count
#print axioms TV.Props.C14.members_inside
#print axioms TV.Props.C14.members_count
#print axioms TV.Props.C14.tryFrom_total
#print axioms TV.Props.C14.objPayload_total
