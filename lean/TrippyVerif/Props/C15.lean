import TrippyVerif.Lemmas.StateAgg
/-
C15 — "Flow identifiers are stable, consistent and bounded"

Each round is attributed to a flow whose recorded hop addresses agree, position by position, with
every address seen in that round; a flow identifier, once issued, always denotes a path that extends
(never contradicts or forgets) what was recorded under it before, and identifiers are issued densely
from 1.  The number of flows never exceeds the configured maximum – once it is reached no new flow
is created while rounds matching an existing flow are still attributed to it – the default flow
aggregates every round, and each flow's round count and hop statistics are those of exactly the
rounds attributed to it.

Model : `TV.Agg.State.{new, updateFromRound, run}`, `TV.Agg.Registry.*`, `TV.Agg.Flow.*`
        (Model/StateAgg.lean, line by line from trippy-core/src/state.rs and flows.rs)
Spec  : `Flow.le` (`old ⊑ new`), `Flow.agree`, `attributions`, `roundsFor` (Lemmas/StateAgg.lean),
        `RoundWF` (Spec/Reagg.lean)

All statements hold for every number type `F` (the float fields play no role).  A history is any
list of `RoundWF` rounds, of any length; `maxFlows` is arbitrary (0 included).
-/
namespace TV.Props.C15
open TV TV.Strat TV.Agg TV.Reagg

variable {F : Type} [Num F]

/-- the flow recorded for a round lists, position by position, what each probe of the round saw: the
responder of a completed probe, `unknown` for an awaited or failed one (skipped/unsent slots are no
probes and carry no position), cut at the round's path length -/
theorem roundFlow_records (r : Round) :
    roundFlow r = ((r.probes.filterMap flowHop).take r.largestTtl).map
      (fun | some a => FlowEntry.known a | none => FlowEntry.unknown) := rfl

/-- the responder a slot reports, if any -/
def hostOf : Slot → Option Nat
  | .complete c => some c.host
  | _ => none

/-- **Positions are probed hops.**  The flow of a round has exactly one entry per hop the round
probed, in probe order (strictly ascending TTLs for a well-formed round): the responder of a
completed probe, `unknown` for a probe that is still awaited *or could not be sent*.  Skipped and
unused slots are not probes and take no position.  (Before fix `eebeff3` a probe that failed to send
was left out and every later hop moved up one position: `flow_positions_before_fix`.) -/
theorem flow_positions_are_probed_hops (r : Round) :
    r.probes.filterMap flowHop = r.probes.filterMap (fun s => (slotTtl s).map fun _ => hostOf s) ∧
    (r.probes.filterMap flowHop).length = (ttls r.probes).length := by
  have h : ∀ s : Slot, flowHop s = (slotTtl s).map fun _ => hostOf s := by
    intro s; cases s <;> rfl
  have h1 : r.probes.filterMap flowHop = r.probes.filterMap (fun s => (slotTtl s).map fun _ => hostOf s) := by
    congr 1; funext s; exact h s
  refine ⟨h1, ?_⟩
  rw [h1]
  unfold ttls
  induction r.probes with
  | nil => rfl
  | cons s ps ih =>
    simp only [List.filterMap_cons]
    cases hs : slotTtl s <;> simp [hs, ih]

/-- the code before the fix: a failed probe had no position -/
def flowHopOld : Slot → Option (Option Nat)
  | .awaited _ => some none
  | .complete c => some (some c.host)
  | _ => none

/-- witness: on the path `[a, b, c]`, a round in which the ttl 2 probe failed to send was recorded as
`[a, c]` — `c` in the position of hop 2 — by the old code, and is `[a, ?, c]` now -/
theorem flow_positions_before_fix (p1 p2 p3 : Probe) (c1 c3 : Complete)
    (h1 : c1.host = 1) (h3 : c3.host = 3) :
    [Slot.complete c1, .failed p2, .complete c3].filterMap flowHopOld = [some 1, some 3] ∧
    [Slot.complete c1, .failed p2, .complete c3].filterMap flowHop = [some 1, none, some 3] := by
  constructor
  · simp only [List.filterMap_cons, List.filterMap_nil, flowHopOld, h1, h3]
  · simp only [List.filterMap_cons, List.filterMap_nil, flowHop, h1, h3]

/-- (1)+(2) After any history the run has not panicked, identifiers are `1, 2, …, n` in registration
order, the next identifier is `n + 1`, and `n ≤ maxFlows`. -/
theorem ids_dense_and_bounded (cfg : Agg.Cfg) (hist : List Round) (hwf : ∀ r ∈ hist, RoundWF r) :
    ∃ st, State.run (State.new (F := F) cfg) hist = .ok st ∧
      st.registry.flows.map (·.2) = List.range' 1 st.registry.flows.length ∧
      st.registry.nextId = st.registry.flows.length + 1 ∧
      st.registry.flows.length ≤ cfg.maxFlows := by
  obtain ⟨st, h1, h2, h3, _⟩ := state_run (F := F) hist hwf (State.new cfg) (new_inv cfg)
  exact ⟨st, h1, h2.reg.1, h2.reg.2, by have := h2.bound; rwa [h3] at this⟩

/-- (3) Stability: whatever was recorded under an identifier after a history `h₁` is still recorded
under the same identifier after any continuation `h₂`, and has only grown (`⊑`: every known address
stays the same known address, the length does not decrease); no flow disappears. -/
theorem stored_flows_only_grow (cfg : Agg.Cfg) (h₁ h₂ : List Round)
    (hwf₁ : ∀ r ∈ h₁, RoundWF r) (hwf₂ : ∀ r ∈ h₂, RoundWF r) :
    ∃ st₁ st₂, State.run (State.new (F := F) cfg) h₁ = .ok st₁ ∧
      State.run (State.new (F := F) cfg) (h₁ ++ h₂) = .ok st₂ ∧
      (∀ e id, (e, id) ∈ st₁.registry.flows → ∃ e', (e', id) ∈ st₂.registry.flows ∧ Flow.le e e') ∧
      st₁.registry.flows.length ≤ st₂.registry.flows.length := by
  obtain ⟨st₁, a1, a2, a3, _⟩ := state_run (F := F) h₁ hwf₁ (State.new cfg) (new_inv cfg)
  obtain ⟨st₂, b1, b2, b3, b4, _⟩ := state_run (F := F) h₂ hwf₂ st₁ a2
  obtain ⟨_, _, c3, c4, _⟩ := regRun_spec st₁.cfg.maxFlows h₂ st₁.registry a2.reg a2.bound
  refine ⟨st₁, st₂, a1, by rw [State.run_append, a1]; exact b1, ?_, ?_⟩
  · rw [b4]; exact c3
  · rw [b4]; exact c4

/-- `⊑` means what it should: nothing known is contradicted -/
theorem le_agrees {old new : Flow} (h : Flow.le old new) : Flow.agree new old := Flow.agree_of_le h

/-- (4) Consistency: when a round is attributed to identifier `id` (it becomes the round's flow id),
the flow stored under `id` afterwards contains the round's flow: at every position where the round
saw an address the stored flow has that very address. -/
theorem attributed_flow_contains_round (st : State F) (hinv : StateInv st) (r : Round) (hwf : RoundWF r)
    (id : Nat) (hid : (regStep st.cfg.maxFlows st.registry (roundFlow r)).2 = some id) :
    ∃ st', st.updateFromRound r = .ok st' ∧ st'.roundFlowId = id ∧ 1 ≤ id ∧
      ∃ e', (e', id) ∈ st'.registry.flows ∧ Flow.le (roundFlow r) e' ∧ Flow.agree e' (roundFlow r) := by
  obtain ⟨st', h1, _, _, h4, h5, _⟩ := step_ok st r hinv hwf
  obtain ⟨_, _, _, _, s5, _, _⟩ := regStep_spec st.cfg.maxFlows st.registry (roundFlow r) hinv.reg hinv.bound
  obtain ⟨k1, _, e', k3, k4⟩ := s5 id hid
  exact ⟨st', h1, by simp [h5, hid], k1, e', by rw [h4]; exact k3, k4, Flow.agree_of_le k4⟩

/-- every state reached from `State.new` satisfies the invariant the single-step statements assume -/
theorem reachable_inv (cfg : Agg.Cfg) (hist : List Round) (hwf : ∀ r ∈ hist, RoundWF r) :
    ∃ st, State.run (State.new (F := F) cfg) hist = .ok st ∧ StateInv st ∧ st.cfg = cfg := by
  obtain ⟨st, h1, h2, h3, _⟩ := state_run (F := F) hist hwf (State.new cfg) (new_inv cfg)
  exact ⟨st, h1, h2, h3⟩

/-- (5a) A round compatible with a stored flow is attributed to the *first* such flow – whether or
not the registry is full – no flow is created, and that flow's state (and the default flow's)
absorbs the round. -/
theorem matching_round_attributed (st : State F) (hinv : StateInv st) (r : Round) (hwf : RoundWF r)
    (pre post : List (Flow × Nat)) (e : Flow × Nat) (hsplit : st.registry.flows = pre ++ e :: post)
    (hpre : ∀ x ∈ pre, ¬ Flow.agree x.1 (roundFlow r)) (hag : Flow.agree e.1 (roundFlow r)) :
    ∃ st', st.updateFromRound r = .ok st' ∧ st'.roundFlowId = e.2 ∧
      st'.registry.flows.length = st.registry.flows.length ∧
      lookupFlow st'.flows e.2 = some ((flowOr st e.2).step r) ∧
      lookupFlow st'.flows 0 = some ((flowOr st 0).step r) ∧
      ∀ id, id ≠ 0 → id ≠ e.2 → lookupFlow st'.flows id = lookupFlow st.flows id := by
  obtain ⟨st', h1, _, _, h4, h5, h6⟩ := step_ok st r hinv hwf
  obtain ⟨_, _, _, _, _, s6, _⟩ := regStep_spec st.cfg.maxFlows st.registry (roundFlow r) hinv.reg hinv.bound
  obtain ⟨k1, k2⟩ := s6 pre e post hsplit hpre hag
  refine ⟨st', h1, by simp [h5, k1], by rw [h4]; exact k2, by simp [h6, k1], by simp [h6], ?_⟩
  intro id h0 hne
  rw [h6, k1]
  have : ¬ (id = 0 ∨ some e.2 = some id) := by
    intro h; rcases h with h | h
    · exact h0 h
    · exact hne (Option.some.inj h).symm
  rw [if_neg this]

/-- (5b) With a full registry and no compatible stored flow no flow is created: the registry and
the round flow id are unchanged and only the default flow is updated. -/
theorem full_registry_no_match (st : State F) (hinv : StateInv st) (r : Round) (hwf : RoundWF r)
    (hfull : ¬ st.registry.flows.length < st.cfg.maxFlows)
    (hno : ∀ x ∈ st.registry.flows, ¬ Flow.agree x.1 (roundFlow r)) :
    ∃ st', st.updateFromRound r = .ok st' ∧ st'.registry = st.registry ∧
      st'.roundFlowId = st.roundFlowId ∧
      lookupFlow st'.flows 0 = some ((flowOr st 0).step r) ∧
      ∀ id, id ≠ 0 → lookupFlow st'.flows id = lookupFlow st.flows id := by
  obtain ⟨st', h1, _, _, h4, h5, h6⟩ := step_ok st r hinv hwf
  obtain ⟨_, _, _, _, _, _, s7⟩ := regStep_spec st.cfg.maxFlows st.registry (roundFlow r) hinv.reg hinv.bound
  have := s7 hno
  simp only [hfull, if_false] at this
  refine ⟨st', h1, by rw [h4, this], by rw [h5, this]; rfl, by simp [h6], ?_⟩
  intro id h0
  rw [h6, this]
  simp [h0]

/-- (5c) While there is room, a round compatible with no stored flow creates the next identifier
and is stored under it. -/
theorem new_flow_when_room (st : State F) (hinv : StateInv st) (r : Round) (hwf : RoundWF r)
    (hroom : st.registry.flows.length < st.cfg.maxFlows)
    (hno : ∀ x ∈ st.registry.flows, ¬ Flow.agree x.1 (roundFlow r)) :
    ∃ st', st.updateFromRound r = .ok st' ∧ st'.roundFlowId = st.registry.flows.length + 1 ∧
      st'.registry.flows = st.registry.flows ++ [(roundFlow r, st.registry.flows.length + 1)] := by
  obtain ⟨st', h1, _, _, h4, h5, _⟩ := step_ok st r hinv hwf
  obtain ⟨_, _, _, _, _, _, s7⟩ := regStep_spec st.cfg.maxFlows st.registry (roundFlow r) hinv.reg hinv.bound
  have := s7 hno
  simp only [hroom, if_true] at this
  exact ⟨st', h1, by simp [h5, this.1], by rw [h4]; exact this.2⟩

/-- (6) After any history: the default flow's state is the aggregation of *every* round; the state of
any other flow is the aggregation of exactly the rounds attributed to it (absent if there are
none); its round count is the number of those rounds; all attributed identifiers are ≥ 1 and denote
registered flows; the round flow id is the latest attribution.  (`FlowState.run` is the model of
`FlowState::update_from_round` iterated – C05/C10 describe its result.) -/
theorem flow_states_are_folds (cfg : Agg.Cfg) (hist : List Round) (hwf : ∀ r ∈ hist, RoundWF r) :
    ∃ st, State.run (State.new (F := F) cfg) hist = .ok st ∧
      (∃ fs₀, FlowState.run (FlowState.new cfg.maxSamples) hist = .ok fs₀ ∧
        lookupFlow st.flows 0 = some fs₀ ∧ fs₀.roundCount = hist.length) ∧
      (∀ id, id ≠ 0 →
        let rs := roundsFor id hist (attributions cfg.maxFlows Registry.new hist)
        (rs = [] → lookupFlow st.flows id = none) ∧
        (rs ≠ [] → ∃ fs, FlowState.run (FlowState.new cfg.maxSamples) rs = .ok fs ∧
          lookupFlow st.flows id = some fs ∧ fs.roundCount = rs.length)) ∧
      (∀ a ∈ attributions cfg.maxFlows Registry.new hist, ∀ id, a = some id →
        1 ≤ id ∧ id ≤ st.registry.flows.length) ∧
      st.roundFlowId = (((attributions cfg.maxFlows Registry.new hist).filterMap id).getLast?).getD 0 := by
  obtain ⟨st, h1, h2, h3, h4, h5, h6⟩ := state_run (F := F) hist hwf (State.new cfg) (new_inv cfg)
  have hnew0 : lookupFlow (State.new (F := F) cfg).flows 0 = some (FlowState.new cfg.maxSamples) := by
    simp [State.new, lookupFlow, defaultFlowId]
  have hnew : ∀ id, id ≠ 0 → lookupFlow (State.new (F := F) cfg).flows id = none := by
    intro id h; simp [State.new, lookupFlow, defaultFlowId, Ne.symm h]
  have hfo : ∀ id, flowOr (State.new (F := F) cfg) id = FlowState.new cfg.maxSamples := by
    intro id
    by_cases h : id = 0
    · subst h; rw [flowOr, hnew0]; rfl
    · rw [flowOr, hnew id h]; rfl
  have hcount : ∀ (rs : List Round) (fs : FlowState F), (rs.foldl FlowState.step fs).roundCount = fs.roundCount + rs.length := by
    intro rs
    induction rs with
    | nil => intro fs; rfl
    | cons r rs ih => intro fs; rw [List.foldl_cons, ih, step_roundCount]; simp; omega
  have hsub : ∀ id (rs : List Round) as, roundsFor id rs as ⊆ rs := by
    intro id rs
    induction rs with
    | nil => intro as; cases as <;> simp [roundsFor]
    | cons r rs ih =>
      intro as
      cases as with
      | nil => simp [roundsFor]
      | cons a as =>
        simp only [roundsFor]
        split
        · exact List.cons_subset_cons _ (ih as)
        · exact List.subset_cons_of_subset _ (ih as)
  have hcfg : (State.new (F := F) cfg).cfg = cfg := rfl
  have hreg : (State.new (F := F) cfg).registry = Registry.new := rfl
  rw [hcfg, hreg] at h5 h6 h4
  refine ⟨st, h1, ?_, ?_, ?_, by rw [h5]; rfl⟩
  · have := h6 0
    rw [roundsFor_zero hist _ (attributions_length _ _ _), hfo, hnew0] at this
    refine ⟨hist.foldl FlowState.step (FlowState.new cfg.maxSamples), run_steps hist hwf _ (new_len _), ?_, ?_⟩
    · rw [this]; split
      · next h => subst h; rfl
      · rfl
    · rw [hcount]; simp [FlowState.new]
  · intro id hid rs
    have := h6 id
    rw [hfo, hnew id hid] at this
    refine ⟨fun h => by rw [this]; simp [rs] at h; simp [h], fun h => ?_⟩
    have hwf' : ∀ r ∈ rs, RoundWF r := fun r hr => hwf r (hsub id hist _ hr)
    refine ⟨rs.foldl FlowState.step (FlowState.new cfg.maxSamples), run_steps rs hwf' _ (new_len _), ?_, ?_⟩
    · rw [this]; simp only [rs] at h; simp [h, rs]
    · rw [hcount]; simp [FlowState.new]
  · obtain ⟨_, _, _, _, c5⟩ := regRun_spec cfg.maxFlows hist Registry.new RegInv_new (by simp [Registry.new])
    rw [h4]; exact c5

/-! ### non-vacuity: concrete histories -/

def pr (ttl round : Nat) : Probe :=
  { seq := 33000 + ttl, ident := 1, srcPort := 5000, destPort := 33434, ttl := ttl, round := round,
    sent := 1000 * round, flags := 0 }
def cp (ttl round host : Nat) : Slot :=
  .complete { probe := pr ttl round, host := host, received := 1000 * round + 700 + ttl,
              kind := .timeExceeded 0, tos := none, expCk := none, actCk := none, ext := none }
/-- three ECMP rounds over two paths, the second hop silent in the last one -/
def exHist : List Round :=
  [ { probes := [cp 1 0 10, cp 2 0 20, cp 3 0 7], largestTtl := 3, reason := .targetFound },
    { probes := [cp 1 1 10, cp 2 1 21, cp 3 1 7], largestTtl := 3, reason := .targetFound },
    { probes := [cp 1 2 10, .awaited (pr 2 2), cp 3 2 7], largestTtl := 3, reason := .targetFound } ]

example : ∀ r ∈ exHist, RoundWF r := by decide
-- the attributions: flows 1, 2, and the third round matches (and is merged into) flow 1
example : attributions 8 Registry.new exHist = [some 1, some 2, some 1] := by decide
-- with room for one flow only, the second round is not attributed, the third still is
example : attributions 1 Registry.new exHist = [some 1, none, some 1] := by decide
example : roundsFor 1 exHist (attributions 1 Registry.new exHist) = [exHist[0], exHist[2]] := by decide
example : (regRun 8 Registry.new exHist).flows =
    [([.known 10, .known 20, .known 7], 1), ([.known 10, .known 21, .known 7], 2)] := by decide

end TV.Props.C15

#print axioms TV.Props.C15.roundFlow_records
#print axioms TV.Props.C15.flow_positions_are_probed_hops
#print axioms TV.Props.C15.flow_positions_before_fix
#print axioms TV.Props.C15.ids_dense_and_bounded
#print axioms TV.Props.C15.stored_flows_only_grow
#print axioms TV.Props.C15.le_agrees
#print axioms TV.Props.C15.attributed_flow_contains_round
#print axioms TV.Props.C15.reachable_inv
#print axioms TV.Props.C15.matching_round_attributed
#print axioms TV.Props.C15.full_registry_no_match
#print axioms TV.Props.C15.new_flow_when_room
#print axioms TV.Props.C15.flow_states_are_folds
