import TrippyVerif.Props.C15
/-!
# C15 on a path that never changes: one flow

If every round of a history reports, position by position, only addresses of one fixed path `P`
(hop at position `i` ↦ `P i`) — whatever is silent, lost, failed to send, or beyond the reported
length in each round — then all rounds are attributed to a single flow: the registry never holds
more than one flow, its entries are addresses of `P`, and no second identifier is ever issued.

This is the theorem behind the stack oracle `c15-stack-stable-path-flows`, which found defect F22:
before fix `eebeff3` a probe that failed to send took no position (`C15.flow_positions_before_fix`),
so a round on the path `[a, b, c]` could report `c` at position 2 — the hypothesis `OnPath` fails for
that round, and a second flow appeared.  With positions = probed hops
(`C15.flow_positions_are_probed_hops`) the rounds of a stable path satisfy `OnPath`.
-/
namespace TV.Props.C15Stable
open TV TV.Strat TV.Agg TV.Reagg

/-- every known entry of `f` (positions counted from `k`) is the path's address at its position -/
def OnPathFrom (P : Nat → Nat) (k : Nat) (f : Flow) : Prop :=
  ∀ i a, f[i]? = some (FlowEntry.known a) → a = P (k + i)

abbrev OnPath (P : Nat → Nat) (f : Flow) : Prop := OnPathFrom P 0 f

theorem onPathFrom_cons (P : Nat → Nat) (k : Nat) (x : FlowEntry) (xs : Flow) :
    OnPathFrom P k (x :: xs) ↔ (∀ a, x = .known a → a = P k) ∧ OnPathFrom P (k + 1) xs := by
  constructor
  · intro h
    refine ⟨fun a ha => by simpa using h 0 a (by simp [ha]), fun i a hi => ?_⟩
    have := h (i + 1) a (by simpa using hi)
    rw [this]; congr 1; omega
  · intro ⟨h0, h⟩ i a hi
    cases i with
    | zero => simpa using h0 a (by simpa using hi)
    | succ i =>
      have := h i a (by simpa using hi)
      rw [this]; congr 1; omega

/-- two flows on the same path agree -/
theorem agree_of_onPath {P : Nat → Nat} {f g : Flow} (hf : OnPath P f) (hg : OnPath P g) : Flow.agree f g := by
  intro i a b ha hb
  rw [hf i a ha, hg i b hb]

/-- merging two flows of the path gives a flow of the path -/
theorem merge_onPathFrom (P : Nat → Nat) : ∀ (s f : Flow) (k : Nat),
    OnPathFrom P k s → OnPathFrom P k f → OnPathFrom P k (Flow.merge s f) := by
  intro s f
  fun_induction Flow.merge s f with
  | case1 l ls r rs ih =>
    intro k hs hf
    rw [onPathFrom_cons] at hs hf ⊢
    refine ⟨?_, ih (k + 1) hs.2 hf.2⟩
    intro a ha
    cases l <;> cases r <;> simp at ha <;> subst ha <;> first | exact hs.1 _ rfl | exact hf.1 _ rfl
  | case2 rs => intro k _ hf; exact hf
  | case3 ls _ => intro k hs _; exact hs

/-- the lookup loop keeps every stored flow on the path -/
theorem lookupLoop_onPath (P : Nat → Nat) (f : Flow) (hf : OnPath P f) : ∀ (fl : List (Flow × Nat)),
    (∀ x ∈ fl, OnPath P x.1) → ∀ x ∈ (Registry.lookupLoop fl f).1, OnPath P x.1 := by
  intro fl
  induction fl with
  | nil => intro _ x hx; simp [Registry.lookupLoop] at hx
  | cons e rest ih =>
    obtain ⟨entry, id⟩ := e
    intro h x hx
    simp only [Registry.lookupLoop] at hx
    cases hc : entry.check f with
    | matched => simp only [hc] at hx; exact h x hx
    | noMatch =>
      simp only [hc] at hx
      rcases List.mem_cons.1 hx with rfl | hx
      · exact h _ (by simp)
      · exact ih (fun y hy => h y (by simp [hy])) x hx
    | matchMerge =>
      simp only [hc] at hx
      rcases List.mem_cons.1 hx with rfl | hx
      · exact merge_onPathFrom P entry f 0 (h (entry, id) (by simp)) hf
      · exact h x (by simp [hx])

/-- the invariant of a registry fed by rounds of one path -/
def Stable (P : Nat → Nat) (reg : Registry) : Prop :=
  reg.flows.length ≤ 1 ∧ ∀ x ∈ reg.flows, OnPath P x.1

/-- one registry step with a flow of the path keeps the invariant -/
theorem regStep_stable (P : Nat → Nat) (maxFlows : Nat) (reg : Registry) (f : Flow)
    (hi : RegInv reg) (hb : reg.flows.length ≤ maxFlows) (hs : Stable P reg) (hf : OnPath P f) :
    Stable P (regStep maxFlows reg f).1 := by
  obtain ⟨hlen, hon⟩ := hs
  obtain ⟨_, _, _, _, _, s6, s7⟩ := regStep_spec maxFlows reg f hi hb
  -- entries stay on the path: the result's flows are the lookup loop's, possibly with `f` appended
  have hon' : ∀ x ∈ (regStep maxFlows reg f).1.flows, OnPath P x.1 := by
    have hl := lookupLoop_onPath P f hf reg.flows hon
    unfold regStep
    split
    · simp only [Registry.register, Registry.lookup]
      cases hr : (Registry.lookupLoop reg.flows f).2 with
      | some id =>
        intro x hx
        have : (Registry.lookupLoop reg.flows f) = ((Registry.lookupLoop reg.flows f).1, some id) := by
          rw [← hr]
        rw [this] at hx
        exact hl x (by simpa using hx)
      | none =>
        intro x hx
        have : (Registry.lookupLoop reg.flows f) = ((Registry.lookupLoop reg.flows f).1, none) := by
          rw [← hr]
        rw [this] at hx
        simp only [List.mem_append, List.mem_singleton] at hx
        rcases hx with hx | rfl
        · exact hl x hx
        · exact hf
    · intro x hx
      simp only [Registry.lookup] at hx
      exact hl x hx
  refine ⟨?_, hon'⟩
  -- at most one flow: a stored flow of the path agrees with `f`, so no new one is created
  cases hfl : reg.flows with
  | nil =>
    have hno : ∀ x ∈ reg.flows, ¬ Flow.agree x.1 f := by rw [hfl]; simp
    have := s7 hno
    rw [hfl] at this
    simp only [List.length_nil] at this
    split at this
    · rw [this.2]; simp
    · rw [this, hfl]; simp
  | cons e rest =>
    have hrest : rest = [] := by
      have h1 : (e :: rest).length ≤ 1 := hfl ▸ hlen
      exact List.eq_nil_of_length_eq_zero (by simpa using h1)
    subst hrest
    have hag : Flow.agree e.1 f := agree_of_onPath (hon e (by rw [hfl]; simp)) hf
    have := (s6 [] e [] (by rw [hfl]; rfl) (by simp) hag).2
    rw [this, hfl]; simp

/-- **C15, stable path.**  After any history of well-formed rounds whose flows lie on one path, the
registry holds at most one flow (identifier 1), and it lies on the path. -/
theorem stable_path_one_flow (P : Nat → Nat) (maxFlows : Nat) : ∀ (hist : List Round) (reg : Registry),
    RegInv reg → reg.flows.length ≤ maxFlows → Stable P reg →
    (∀ r ∈ hist, OnPath P (roundFlow r)) →
    Stable P (regRun maxFlows reg hist) := by
  intro hist
  induction hist with
  | nil => intro reg _ _ hs _; exact hs
  | cons r rs ih =>
    intro reg hi hb hs hr
    simp only [regRun]
    obtain ⟨s1, s2, _⟩ := regStep_spec maxFlows reg (roundFlow r) hi hb
    exact ih _ s1 s2 (regStep_stable P maxFlows reg (roundFlow r) hi hb hs (hr r (by simp)))
      (fun x hx => hr x (by simp [hx]))

/-- from a fresh state: the `State` after the history has at most one flow besides the default one -/
theorem fresh_state_one_flow {F : Type} [Num F] (P : Nat → Nat) (cfg : Agg.Cfg) (hist : List Round)
    (hwf : ∀ r ∈ hist, RoundWF r) (hon : ∀ r ∈ hist, OnPath P (roundFlow r)) :
    ∃ st, State.run (State.new (F := F) cfg) hist = .ok st ∧ st.registry.flows.length ≤ 1 := by
  obtain ⟨st, h1, _, _, h4, _⟩ := state_run (F := F) hist hwf (State.new cfg) (new_inv cfg)
  refine ⟨st, h1, ?_⟩
  rw [h4]
  exact (stable_path_one_flow P _ hist _ RegInv_new (by simp [Registry.new])
    ⟨by simp [State.new, Registry.new], by simp [State.new, Registry.new]⟩ hon).1

/-- non-vacuity: the round `[a, ?, c]` (the ttl 2 probe failed to send) lies on the path `a, b, c` with the
fixed code, while the flow `[a, c]` the old code recorded does not -/
example : OnPath (fun i => i + 1) [FlowEntry.known 1, .unknown, .known 3] ∧
    ¬ OnPath (fun i => i + 1) [FlowEntry.known 1, .known 3] := by
  constructor
  · intro i a h
    match i with
    | 0 => simp at h ⊢; omega
    | 1 => simp at h
    | 2 => simp at h ⊢; omega
    | i + 3 => simp at h
  · intro h
    have := h 1 3 (by simp)
    simp at this

#print axioms merge_onPathFrom
#print axioms regStep_stable
#print axioms stable_path_one_flow
#print axioms fresh_state_one_flow
end TV.Props.C15Stable
