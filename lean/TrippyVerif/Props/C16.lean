import TrippyVerif.Model.Builder
import TrippyVerif.Gen.CfgLayer
import TrippyVerif.Props.C09
/-!
# C16 — option precedence is CLI over file over default; accepted configurations can run

## Part A (precedence)

`TV.CfgGen.cfg_layer`, `cfg_layer_opt`, `cfg_layer_bool_flag` and the tables `rows`, `argsUses`,
`fileUses`, `derived`, `defaultConsts`, `sectionDefaults`, `helpDefaults` are GENERATED from
`/repo/crates/trippy-tui/src/config.rs` (+ `config/{cmd,file,constants}.rs`, core `config.rs`) by
`tools/rs2lean/cfglayer.py` on every run.  The theorems below are about those generated objects:

* the three layering functions return the command-line value if given, else the file value if given,
  else the default (`layer_*`, `layer_opt_*`, `flag_*`);
* every option of `build_config` is wired as `kind(args.<opt>, cfg_file_<section>.<opt>, DEFAULT)`
  with the CLI field and the file field of THE SAME option (rename map: the identity on option
  names, `source_address ↦ source_addr` etc. only for the local variable / result field), in the
  section and with the `DEFAULT_*` constant listed in the hand-written table `spec` below
  (`wiring_matches_spec`), that constant being the one whose doc comment says "The default value for
  `<opt>`" (`default_const_documents_option`);
* independence (syntactic): each option's CLI field and file field occur exactly once in the whole of
  `build_config` — inside that option's own layering call (`cli_input_used_once`,
  `file_input_used_once`, `file_reads_are_layered`), no two rows share an input or a result field;
* an absent `[section]` of the file (`unwrap_or_default()`) contributes `None` or the same `DEFAULT_*`
  constant (`absent_section_is_default`).

Derived values that are NOT plain layered options (pinned by `derived_values`, hand-modelled in
`Model/Builder.lean` where small): `protocol` (`--udp`, `--tcp`, `--icmp` override the layered option),
`addr_family` (`--ipv4`, `--ipv6` override), `multipath_strategy`, `dns_resolve_method`,
`icmp_extension_parse_mode`, `privilege_mode` (enum conversions of one layered option),
`port_direction` (protocol, source-port, target-port, multipath-strategy, pid), `max_rounds` (mode,
report-cycles), `tui_max_addrs` (`Some(0)` ↦ `None`), `tui_custom_columns`, `tui_timezone` (parsed),
`tui_theme`, `tui_bindings` (item-wise merge of CLI list and file section), `targets`, `verbose`
(CLI only).

## Part B (validity ⇒ runnable)

`TV.Builder.build` is the hand model of `Builder::build` (correspondence-checked against the real
builder over the full parameter product by `tvh config`).  `build_ok_iff`: the builder accepts
exactly `Strat.CfgOk` (the hypothesis of every strategy theorem) together with `SrcFamilyOk` (a given
source address is of the target's address family — the channel's `unreachable!()` otherwise;
`source_family_mismatch_rejected`); hence (`accepted_config_never_panics`, citing
`C09.run_never_panics`) a builder-accepted configuration never panics in any environment, and
(`cli_accepted_runs`) every configuration the command-line layer accepts is either rejected by the
builder with a configuration error before tracing starts (only `initial_sequence > 64511` and a
`--source-address` of the other family than the resolved target, neither of which the command-line
layer validates: `cli_initial_sequence_gap`, `cli_source_family_gap`) or runs without panicking.
-/
namespace TV.Props.C16
open TV TV.CfgGen

/-! ## A.1 the layering functions -/

theorem layer_cli {α : Type} (c : α) (f : Option α) (d : α) : cfg_layer (some c) f d = c := by
  cases f <;> rfl
theorem layer_file {α : Type} (f d : α) : cfg_layer none (some f) d = f := rfl
theorem layer_default {α : Type} (d : α) : cfg_layer none none d = d := rfl

/-- closed form: CLI, else file, else default -/
theorem layer_eq {α : Type} (c f : Option α) (d : α) : cfg_layer c f d = c.getD (f.getD d) := by
  cases c <;> cases f <;> rfl

theorem layer_opt_cli {α : Type} (c : α) (f : Option α) : cfg_layer_opt (some c) f = some c := by
  cases f <;> rfl
theorem layer_opt_file {α : Type} (f : α) : cfg_layer_opt none (some f) = some f := rfl
theorem layer_opt_default {α : Type} : cfg_layer_opt (none : Option α) none = none := rfl

theorem layer_opt_eq {α : Type} (c f : Option α) : cfg_layer_opt c f = c.orElse (fun _ => f) := by
  cases c <;> cases f <;> rfl

/-- a flag given on the command line wins -/
theorem flag_cli (f : Option Bool) (d : Bool) : cfg_layer_bool_flag true f d = true := rfl
theorem flag_file (f d : Bool) : cfg_layer_bool_flag false (some f) d = f := rfl
theorem flag_default (d : Bool) : cfg_layer_bool_flag false none d = d := rfl

/-- a command-line flag can only be given (`true`) or absent (`false`): it is the layering function of
the option `if flag then some true else none` -/
theorem flag_eq (c : Bool) (f : Option Bool) (d : Bool) :
    cfg_layer_bool_flag c f d = cfg_layer (if c then some true else none) f d := by
  cases c <;> cases f <;> rfl

/-- the result depends on nothing but the option's own three inputs (the functions are pure: this is
the semantic half of "independently of all other options"; the syntactic half is A.3) -/
theorem layer_congr {α : Type} {c c' f f' : Option α} {d d' : α} (hc : c = c') (hf : f = f') (hd : d = d') :
    cfg_layer c f d = cfg_layer c' f' d' := by subst hc hf hd; rfl

/-! ## A.2 the wiring table against the hand-written specification -/

/-- hand-written: option (its name on the command line, in the file and in the documentation, with
`-` written `_`), kind of layering, section of the configuration file, documented default constant
("" = no default: the option stays unset) -/
structure Spec where
  opt : String
  kind : String
  sect : String
  dflt : String
  deriving DecidableEq, Repr

def L := "cfg_layer"
def O := "cfg_layer_opt"
def F := "cfg_layer_bool_flag"

def spec : List Spec := [
  ⟨"mode", L, "trippy", "constants::DEFAULT_MODE"⟩,
  ⟨"unprivileged", F, "trippy", "defaults::DEFAULT_PRIVILEGE_MODE"⟩,
  ⟨"dns_resolve_all", F, "dns", "constants::DEFAULT_DNS_RESOLVE_ALL"⟩,
  ⟨"log_format", L, "trippy", "constants::DEFAULT_LOG_FORMAT"⟩,
  ⟨"log_filter", L, "trippy", "constants::DEFAULT_LOG_FILTER"⟩,
  ⟨"log_span_events", L, "trippy", "constants::DEFAULT_LOG_SPAN_EVENTS"⟩,
  ⟨"protocol", L, "strategy", "defaults::DEFAULT_STRATEGY_PROTOCOL"⟩,
  ⟨"addr_family", L, "strategy", "constants::DEFAULT_ADDR_FAMILY"⟩,
  ⟨"target_port", O, "strategy", ""⟩,
  ⟨"source_port", O, "strategy", ""⟩,
  ⟨"source_address", O, "strategy", ""⟩,
  ⟨"interface", O, "strategy", ""⟩,
  ⟨"min_round_duration", L, "strategy", "defaults::DEFAULT_STRATEGY_MIN_ROUND_DURATION"⟩,
  ⟨"max_round_duration", L, "strategy", "defaults::DEFAULT_STRATEGY_MAX_ROUND_DURATION"⟩,
  ⟨"initial_sequence", L, "strategy", "defaults::DEFAULT_STRATEGY_INITIAL_SEQUENCE"⟩,
  ⟨"multipath_strategy", L, "strategy", "defaults::DEFAULT_STRATEGY_MULTIPATH"⟩,
  ⟨"grace_duration", L, "strategy", "defaults::DEFAULT_STRATEGY_GRACE_DURATION"⟩,
  ⟨"max_inflight", L, "strategy", "defaults::DEFAULT_STRATEGY_MAX_INFLIGHT"⟩,
  ⟨"first_ttl", L, "strategy", "defaults::DEFAULT_STRATEGY_FIRST_TTL"⟩,
  ⟨"max_ttl", L, "strategy", "defaults::DEFAULT_STRATEGY_MAX_TTL"⟩,
  ⟨"packet_size", L, "strategy", "defaults::DEFAULT_STRATEGY_PACKET_SIZE"⟩,
  ⟨"payload_pattern", L, "strategy", "defaults::DEFAULT_STRATEGY_PAYLOAD_PATTERN"⟩,
  ⟨"tos", L, "strategy", "defaults::DEFAULT_STRATEGY_TOS"⟩,
  ⟨"icmp_extensions", F, "strategy", "defaults::DEFAULT_ICMP_EXTENSION_PARSE_MODE"⟩,
  ⟨"read_timeout", L, "strategy", "defaults::DEFAULT_STRATEGY_READ_TIMEOUT"⟩,
  ⟨"max_samples", L, "strategy", "defaults::DEFAULT_MAX_SAMPLES"⟩,
  ⟨"max_flows", L, "strategy", "defaults::DEFAULT_MAX_FLOWS"⟩,
  ⟨"tui_preserve_screen", F, "tui", "constants::DEFAULT_TUI_PRESERVE_SCREEN"⟩,
  ⟨"tui_refresh_rate", L, "tui", "constants::DEFAULT_TUI_REFRESH_RATE"⟩,
  ⟨"tui_privacy_max_ttl", O, "tui", ""⟩,
  ⟨"tui_address_mode", L, "tui", "constants::DEFAULT_TUI_ADDRESS_MODE"⟩,
  ⟨"tui_as_mode", L, "tui", "constants::DEFAULT_TUI_AS_MODE"⟩,
  ⟨"tui_custom_columns", L, "tui", "constants::DEFAULT_CUSTOM_COLUMNS"⟩,
  ⟨"tui_icmp_extension_mode", L, "tui", "constants::DEFAULT_TUI_ICMP_EXTENSION_MODE"⟩,
  ⟨"tui_geoip_mode", L, "tui", "constants::DEFAULT_TUI_GEOIP_MODE"⟩,
  ⟨"tui_max_addrs", O, "tui", ""⟩,
  ⟨"dns_resolve_method", L, "dns", "constants::DEFAULT_DNS_RESOLVE_METHOD"⟩,
  ⟨"tui_locale", O, "tui", ""⟩,
  ⟨"tui_timezone", O, "tui", ""⟩,
  ⟨"dns_lookup_as_info", F, "dns", "constants::DEFAULT_DNS_LOOKUP_AS_INFO"⟩,
  ⟨"dns_timeout", L, "dns", "constants::DEFAULT_DNS_TIMEOUT"⟩,
  ⟨"dns_ttl", L, "dns", "constants::DEFAULT_DNS_TTL"⟩,
  ⟨"report_cycles", L, "report", "constants::DEFAULT_REPORT_CYCLES"⟩,
  ⟨"geoip_mmdb_file", O, "tui", ""⟩]

/-- the rename map between the three names of one option: command-line field of `Args`, field of the
configuration-file section, and (where the value is moved unchanged) the field of `TrippyConfig`.
The first two coincide for every option; the third differs only for `source_address`. -/
def fileFieldOf (opt : String) : String := opt
def resultFieldOf (opt : String) : String := if opt = "source_address" then "source_addr" else opt

/-- every row reads `args.<opt>` and `cfg_file_<section>.<opt>` of the same option, with the layering
function, section and default constant of the specification, in the order of the specification -/
theorem wiring_matches_spec :
    rows.map (fun r => (r.cli, r.kind, r.sect, r.file, r.defaultConst)) =
    spec.map (fun s => (s.opt, s.kind, s.sect, fileFieldOf s.opt, s.dflt)) := by decide

/-- in particular: CLI field and file field of every row denote the same option -/
theorem cli_and_file_same_option : ∀ r ∈ rows, r.file = fileFieldOf r.cli := by decide

/-- an option has a default exactly when it is not an `_opt` option -/
theorem default_iff_not_opt : ∀ r ∈ rows, (r.defaultConst = "" ↔ r.kind = O) := by decide

/-- the default named by a row is the constant documented (in its doc comment, in the code base) as
"The default value for `<that option>`" -/
theorem default_const_documents_option :
    ∀ r ∈ rows, r.defaultConst = "" ∨
      (r.defaultConst, r.cli) ∈ defaultConsts.map (fun c => (c.1, c.2.1)) := by decide

/-- each documented constant documents one option -/
theorem default_consts_nodup : (defaultConsts.map (·.1)).Nodup := by decide

/-- a layered variable that is moved unchanged into the result goes to the field of its own option -/
theorem direct_move_same_option : ∀ r ∈ rows, r.field = "" ∨ r.field = resultFieldOf r.cli := by decide

/-! ## A.3 independence (syntactic) -/

theorem options_distinct : (rows.map (·.cli)).Nodup := by decide
theorem file_inputs_distinct : (rows.map (fun r => (r.sect, r.file))).Nodup := by decide
theorem variables_distinct : (rows.map (·.var)).Nodup := by decide

/-- `args.<opt>` occurs exactly once in `build_config`: as the first argument of its own row -/
theorem cli_input_used_once : ∀ r ∈ rows, (r.cli, 1) ∈ argsUses := by decide

/-- `cfg_file_<section>.<opt>` occurs exactly once in `build_config`: in its own row -/
theorem file_input_used_once : ∀ r ∈ rows, (r.sect, r.file, 1) ∈ fileUses := by decide

theorem args_uses_nodup : (argsUses.map (·.1)).Nodup := by decide
theorem file_uses_nodup : (fileUses.map (fun u => (u.1, u.2.1))).Nodup := by decide

/-- every read of a configuration-file field in `build_config` is the file input of a row: the file
never bypasses the layering -/
theorem file_reads_are_layered :
    ∀ u ∈ fileUses, (u.1, u.2.1) ∈ rows.map (fun r => (r.sect, r.file)) := by decide

/-- the command-line fields read outside the layering rows (no file counterpart, except the protocol
and address-family shortcuts which override the layered option, and the theme/binding lists which
are merged item-wise with their file sections) -/
theorem non_layered_cli_fields :
    (argsUses.map (·.1)).filter (fun a => !(rows.map (·.cli)).contains a) =
      ["icmp", "ipv4", "ipv6", "targets", "tcp", "tui_key_bindings", "tui_theme_colors", "udp", "verbose"] := by
  decide

/-- the fields of the result that are not an unchanged layered value, with everything they depend on -/
theorem derived_values : derived =
    [("targets", ["args.targets"]),
     ("protocol", ["args.icmp", "args.tcp", "args.udp", "row:protocol"]),
     ("addr_family", ["args.ipv4", "args.ipv6", "row:addr_family", "row:multipath_strategy"]),
     ("multipath_strategy", ["row:multipath_strategy"]),
     ("icmp_extension_parse_mode", ["row:icmp_extensions"]),
     ("port_direction", ["args.icmp", "args.tcp", "args.udp", "param:pid", "row:multipath_strategy",
                         "row:protocol", "row:source_port", "row:target_port"]),
     ("dns_resolve_method", ["row:dns_resolve_method"]),
     ("tui_custom_columns", ["row:tui_custom_columns"]),
     ("tui_max_addrs", ["row:tui_max_addrs"]),
     ("tui_timezone", ["row:tui_timezone"]),
     ("tui_theme", ["args.tui_theme_colors", "section:theme_colors"]),
     ("tui_bindings", ["args.tui_key_bindings", "section:bindings"]),
     ("privilege_mode", ["row:unprivileged"]),
     ("max_rounds", ["row:mode", "row:report_cycles"]),
     ("verbose", ["args.verbose"])] := by decide

/-- every field of the result is written once: by a direct move or as a derived value -/
theorem result_fields_distinct :
    (((rows.map (·.field)).filter (· ≠ "")) ++ derived.map (·.1)).Nodup ∧
    (((rows.map (·.field)).filter (· ≠ "")) ++ derived.map (·.1)).length = 48 := by decide

/-- every layered option reaches the result: directly, or through a derived value -/
theorem every_option_reaches_result :
    ∀ r ∈ rows, r.field ≠ "" ∨ ("row:" ++ r.cli) ∈ (derived.map (·.2)).flatten := by decide

/-- an absent `[section]` is replaced by `Config<Section>::default()`: every field of it that a row
reads is `None` or `Some(<the row's own DEFAULT constant>)`, except `tui-max-addrs` whose section
default `Some(DEFAULT_TUI_MAX_ADDRS)` = `Some(0)` is mapped back to `None` by the derived value -/
theorem absent_section_is_default :
    ∀ r ∈ rows, (r.sect, r.file, "") ∈ sectionDefaults ∨ (r.sect, r.file, r.defaultConst) ∈ sectionDefaults ∨
      (r.cli = "tui_max_addrs" ∧ (r.sect, r.file, "constants::DEFAULT_TUI_MAX_ADDRS") ∈ sectionDefaults) := by
  decide

/-- the `[default: ..]` text of the command-line help agrees with the value of the constant for every
layered option except `--tui-geoip-mode` (help: `short`, constant: `GeoIpMode::Off`) — a finding -/
theorem help_text_defaults :
    (helpDefaults.filter (fun h => !h.2.2.2)).map (fun h => (h.1, h.2.1, h.2.2.1)) =
      [("tui_geoip_mode", "short", "off")] := by decide

/-! ## A.4 the derived values -/

open TV.Builder TV.Strat in
/-- no shortcut flag: the protocol is the layered `protocol` option -/
theorem protocol_no_flag (a : Cli) (h1 : a.udp = false) (h2 : a.tcp = false) (h3 : a.icmp = false) :
    protocol a = a.protocolOpt := by
  unfold protocol; rw [h1, h2, h3]; cases a.protocolOpt <;> rfl

open TV.Builder TV.Strat in
/-- exactly one shortcut flag (clap rejects combinations: `conflicts_with`): it decides the protocol -/
theorem protocol_flag (a : Cli) :
    (a.udp = true → a.tcp = false → a.icmp = false → protocol a = .udp) ∧
    (a.udp = false → a.tcp = true → a.icmp = false → protocol a = .tcp) ∧
    (a.udp = false → a.tcp = false → a.icmp = true → protocol a = .icmp) := by
  refine ⟨?_, ?_, ?_⟩ <;> intro h1 h2 h3 <;> unfold protocol <;> rw [h1, h2, h3] <;> cases a.protocolOpt <;> rfl

open TV.Builder in
theorem addrFamily_no_flag (o : AddrFamily) : addrFamily false false o = o := rfl
open TV.Builder in
theorem addrFamily_flags (o : AddrFamily) :
    addrFamily true false o = .ipv4 ∧ addrFamily false true o = .ipv6 := ⟨rfl, rfl⟩

open TV.Builder in
/-- `privilege_mode` is the layered `unprivileged` flag -/
theorem privilegeMode_eq (c : Bool) (f : Option Bool) (d : Bool) :
    privilegeMode c f d = cfg_layer_bool_flag c f d := by
  unfold privilegeMode; cases cfg_layer_bool_flag c f d <;> rfl

open TV.Builder in
/-- `max_rounds` is a function of the effective `mode` and `report_cycles` only -/
theorem maxRounds_eq (m : ModeKind) (n : Nat) :
    maxRounds m n = (match m with | .interactive => none | .report => some n) := by cases m <;> rfl

open TV.Builder in
theorem tuiMaxAddrs_eq (x : Option Nat) : tuiMaxAddrs x = x.filter (· > 0) := by
  cases x with
  | none => rfl
  | some n => by_cases h : n > 0 <;> simp [tuiMaxAddrs, Option.filter, h]

/-! ## B validity ⇒ runnable -/

section B
open TV.Builder TV.Strat

/-- the builder never panics -/
theorem build_never_panics (b : Params) : build b ≠ .panic := by
  unfold build; repeat' split
  all_goals simp

/-- the builder only fails with a configuration error -/
theorem build_err_is_badConfig (b : Params) (e : Err) (h : build b = .err e) : e = .badConfig := by
  unfold build at h; repeat' split at h
  all_goals first | (cases h; rfl) | cases h

theorem portDirRejected_iff (b : Params) :
    portDirRejected b = false ↔
      (match b.proto, b.portDir, b.strat with
       | .udp, .none, _ => False
       | .tcp, .none, _ => False
       | .udp, .fixedBoth _ _, .classic => False
       | .tcp, .fixedBoth _ _, _ => False
       | _, _, _ => True) := by
  unfold portDirRejected
  cases b.proto <;> cases b.portDir <;> cases b.strat <;> simp

/-- a source address, when given, is of the same address family as the target -/
def SrcFamilyOk (b : Params) : Prop := b.srcV6 = none ∨ b.srcV6 = some b.v6

instance (b : Params) : Decidable (SrcFamilyOk b) := by unfold SrcFamilyOk; infer_instance

theorem srcFamilyRejected_iff (b : Params) : srcFamilyRejected b = false ↔ SrcFamilyOk b := by
  unfold srcFamilyRejected SrcFamilyOk
  cases b.srcV6 with
  | none => simp
  | some s => cases s <;> cases b.v6 <;> simp

/-- the builder without the source-address check (the checks that concern the strategy) -/
theorem build_ok_iff_aux (b : Params) (c : Cfg) (hs : srcFamilyRejected b = false) :
    build b = .ok c ↔ (c = toCfg b ∧ CfgOk (toCfg b)) := by
  have hp := portDirRejected_iff b
  unfold build CfgOk
  simp only [toCfg, hs]
  cases hr : portDirRejected b with
  | true =>
    rw [hr] at hp
    simp only [if_true]
    constructor
    · intro h; cases h
    · rintro ⟨_, _, _, _, _, h5⟩
      exact absurd (hp.mpr h5) (by simp)
  | false =>
    rw [hr] at hp
    have hm := hp.mp rfl
    simp only [Bool.false_eq_true, if_false]
    constructor
    · intro h
      repeat' split at h
      all_goals first | (cases h; done) | skip
      cases h
      refine ⟨rfl, by omega, by omega, by omega, by omega, hm⟩
    · rintro ⟨rfl, h1, h2, h3, h4, _⟩
      rw [if_neg (by omega), if_neg (by omega), if_neg (by omega), if_neg (by omega)]

/-- `Builder::build` accepts exactly the configurations satisfying `Strat.CfgOk` whose source address
(if any) is of the target's address family -/
theorem build_ok_iff (b : Params) (c : Cfg) :
    build b = .ok c ↔ (c = toCfg b ∧ CfgOk (toCfg b) ∧ SrcFamilyOk b) := by
  cases hs : srcFamilyRejected b with
  | false =>
    rw [build_ok_iff_aux b c hs]
    have := (srcFamilyRejected_iff b).mp hs
    constructor
    · rintro ⟨h1, h2⟩; exact ⟨h1, h2, this⟩
    · rintro ⟨h1, h2, _⟩; exact ⟨h1, h2⟩
  | true =>
    have hn : ¬ SrcFamilyOk b := fun h => by rw [(srcFamilyRejected_iff b).mpr h] at hs; cases hs
    constructor
    · intro h
      unfold build at h
      rw [hs] at h
      split at h <;> cases h
    · rintro ⟨_, _, h⟩; exact absurd h hn

/-- soundness: what the builder accepts satisfies the hypothesis of all strategy theorems -/
theorem build_sound {b : Params} {c : Cfg} (h : build b = .ok c) : CfgOk c := by
  obtain ⟨rfl, hc, _⟩ := (build_ok_iff b c).mp h; exact hc

theorem toCfg_paramsOf (c : Cfg) : toCfg (paramsOf c) = c := rfl

/-- completeness: every `CfgOk` configuration is accepted by the builder (library users) -/
theorem build_complete {c : Cfg} (h : CfgOk c) : build (paramsOf c) = .ok c :=
  (build_ok_iff (paramsOf c) c).mpr ⟨(toCfg_paramsOf c).symm, by rw [toCfg_paramsOf]; exact h, .inl rfl⟩

/-- completeness for arbitrary builder parameters: `CfgOk` and a source address of the right family
(or none) are all the builder asks for -/
theorem build_complete' {b : Params} (h : CfgOk (toCfg b)) (hs : SrcFamilyOk b) : build b = .ok (toCfg b) :=
  (build_ok_iff b (toCfg b)).mpr ⟨rfl, h, hs⟩

/-- an unsupported combination is rejected up front with a configuration error -/
theorem build_rejects_iff (b : Params) : build b = .err .badConfig ↔ ¬ (CfgOk (toCfg b) ∧ SrcFamilyOk b) := by
  constructor
  · rintro h ⟨hc, hs⟩
    have := (build_ok_iff b (toCfg b)).mpr ⟨rfl, hc, hs⟩
    rw [h] at this; cases this
  · intro hn
    cases hb : build b with
    | ok c => exact absurd ((build_ok_iff b c).mp hb).2 hn
    | err e => rw [build_err_is_badConfig b e hb]
    | panic => exact absurd hb (build_never_panics b)

/-- a source address of the other address family than the target (for which `Channel::connect` runs
into `unreachable!()`) is rejected by the builder with a configuration error, whatever the rest -/
theorem source_family_mismatch_rejected (b : Params) (s : Bool) (h : b.srcV6 = some s) (hne : s ≠ b.v6) :
    build b = .err .badConfig := by
  rw [build_rejects_iff]
  rintro ⟨_, hs⟩
  unfold SrcFamilyOk at hs
  rw [h] at hs
  rcases hs with hs | hs
  · cases hs
  · exact hne (Option.some.inj hs)

/-- a configuration that passes the builder (library users: the builder alone) can execute rounds
against any network without panicking -/
theorem accepted_config_never_panics {b : Params} {c : Cfg} (h : build b = .ok c) (es : List IterEnv) (t0 : Nat) :
    (run c (init c t0) es).ended ≠ some .panic :=
  C09.run_never_panics (build_sound h) es (Reach.init t0)

/-- the unsupported combinations (the `unimplemented!()` branches of `probe_data`, the `ttl - 1`
underflow for `first_ttl = 0`) are all outside what the builder accepts: concretely -/
theorem unsupported_rejected (b : Params) :
    ((b.proto = .udp ∨ b.proto = .tcp) → b.portDir = .none → build b = .err .badConfig) ∧
    (b.proto = .tcp → (∃ s d, b.portDir = .fixedBoth s d) → build b = .err .badConfig) ∧
    (b.proto = .udp → b.strat = .classic → (∃ s d, b.portDir = .fixedBoth s d) → build b = .err .badConfig) ∧
    (b.firstTtl = 0 → build b = .err .badConfig) := by
  refine ⟨?_, ?_, ?_, ?_⟩
  · rintro (h | h) hp <;> simp [build, portDirRejected, h, hp]
  · rintro h ⟨s, d, hp⟩; simp [build, portDirRejected, h, hp]
  · rintro h hs ⟨s, d, hp⟩; simp [build, portDirRejected, h, hp, hs]
  · intro h
    unfold build
    split
    · rfl
    · split
      · rfl
      · simp [h]

/-! ### the command-line layer -/

theorem bind_unit_ok {β : Type} {x : R Unit} {f : Unit → R β} {y : β} (h : (x >>= f) = .ok y) :
    x = .ok () ∧ f () = .ok y := by
  cases x with
  | ok u => cases u; exact ⟨rfl, h⟩
  | err e => cases h
  | panic => cases h

theorem validateTtl_ok {f m : Nat} (h : validateTtl f m = .ok ()) :
    1 ≤ f ∧ f ≤ Consts.core_MAX_TTL ∧ 1 ≤ m ∧ m ≤ Consts.core_MAX_TTL ∧ f ≤ m := by
  unfold validateTtl at h
  repeat' split at h
  all_goals first | (cases h; done) | skip
  omega

theorem validateProtocolStrategy_ok {p : Proto} {s : MStrat} (h : validateProtocolStrategy p s = .ok ()) :
    p = .udp ∨ s = .classic := by
  cases p <;> cases s <;> first | (cases h; done) | simp

theorem portDirection_ok {a : Cli} {pd : PortDir} (h : portDirection a = .ok pd) :
    match protocol a, pd, a.strat with
    | .icmp, .none, _ => True
    | .icmp, _, _ => False
    | .udp, .none, _ => False
    | .tcp, .none, _ => False
    | .udp, .fixedBoth _ _, .classic => False
    | .tcp, .fixedBoth _ _, _ => False
    | _, _, _ => True := by
  unfold portDirection at h
  cases hp : protocol a <;> cases hs : a.sourcePort <;> cases ht : a.targetPort <;> cases hm : a.strat <;>
    rw [hp, hs, ht, hm] at h <;> simp only [] at h <;>
    first
    | (cases h; done)
    | (cases h; trivial)
    | (obtain ⟨_, h⟩ := bind_unit_ok h; cases h; trivial)

/-- what the command-line layer guarantees about the parameters it hands to the builder -/
theorem cliConfig_ok {a : Cli} {p : Params} (h : cliConfig a = .ok p) :
    p = toBuilder a ∧ 1 ≤ p.firstTtl ∧ p.firstTtl ≤ p.maxTtl ∧ p.maxTtl ≤ Consts.core_MAX_TTL ∧
    portDirRejected p = false := by
  unfold cliConfig at h
  cases hpd : portDirection a with
  | err e => rw [hpd] at h; cases h
  | panic => rw [hpd] at h; cases h
  | ok pd =>
    rw [hpd] at h
    simp only [R.bind_ok] at h
    obtain ⟨_, h⟩ := bind_unit_ok h
    obtain ⟨hps, h⟩ := bind_unit_ok h
    obtain ⟨httl, h⟩ := bind_unit_ok h
    obtain ⟨_, h⟩ := bind_unit_ok h
    obtain ⟨_, h⟩ := bind_unit_ok h
    cases h
    obtain ⟨t1, t2, t3, t4, t5⟩ := validateTtl_ok httl
    have hpd' := portDirection_ok hpd
    refine ⟨by simp [toBuilder, hpd], t1, t5, t4, ?_⟩
    rw [portDirRejected_iff]
    simp only
    cases hp : protocol a <;> cases pd <;> cases hm : a.strat <;> rw [hp, hm] at hpd' <;>
      first | trivial | exact hpd'.elim

/-- every configuration the command-line layer accepts is accepted by the builder, provided the
initial sequence is within the builder's bound and the `--source-address` (if any) is of the family
of the resolved target (neither of which the command-line layer checks) -/
theorem cli_accepted_builder_accepts {a : Cli} (h : cliAccepts a)
    (hseq : a.initialSeq ≤ Consts.core_MAX_INITIAL_SEQUENCE)
    (hsrc : a.srcV6 = none ∨ a.srcV6 = some a.v6) : ∃ c, build (toBuilder a) = .ok c := by
  obtain ⟨p, hp⟩ := h
  obtain ⟨rfl, h1, h2, h3, h4⟩ := cliConfig_ok hp
  refine ⟨toCfg (toBuilder a), ?_⟩
  have hs : (toBuilder a).initialSeq = a.initialSeq := rfl
  have hsf : srcFamilyRejected (toBuilder a) = false := (srcFamilyRejected_iff _).mpr hsrc
  unfold build
  rw [h4, hsf]
  simp only [Bool.false_eq_true, if_false]
  rw [if_neg (by omega), if_neg (by omega), if_neg (by omega), if_neg (by omega)]

/-- the gap: `--initial-sequence 65000` passes every command-line check and is then rejected by the
builder — still a configuration error before tracing starts, not a crash -/
def gapExample : Cli :=
  { udp := false, tcp := false, icmp := false, protocolOpt := .icmp, strat := .classic, unprivileged := false,
    sourcePort := none, targetPort := none, firstTtl := 1, maxTtl := 64, maxInflight := 24, packetSize := 84,
    family := .other, initialSeq := 65000, pid := 4242, v6 := false, target := 7, srcV6 := none, traceId := 4242,
    maxRounds := none, grace := 100000000, minRound := 1000000000, maxRound := 1000000000 }

theorem cli_initial_sequence_gap :
    cliAccepts gapExample ∧ build (toBuilder gapExample) = .err .badConfig := by
  refine ⟨⟨toBuilder gapExample, by decide⟩, by rfl⟩

/-- the second gap: `trip ::1 --source-address 127.0.0.1` passes every command-line check (the target
is only resolved afterwards) and is then rejected by the builder — again a configuration error before
tracing starts (before the repair of `Builder::build` this reached `unreachable!()` in
`Channel::connect`) -/
def srcGapExample : Cli := { gapExample with initialSeq := 33434, v6 := true, srcV6 := some false }

theorem cli_source_family_gap :
    cliAccepts srcGapExample ∧ build (toBuilder srcGapExample) = .err .badConfig := by
  refine ⟨⟨toBuilder srcGapExample, by decide⟩, by rfl⟩

/-- C16, command-line users: a configuration accepted by the command-line layer is either rejected
by the tracer builder with a configuration error (before any probe is sent) or runs against any
network without panicking -/
theorem cli_accepted_runs {a : Cli} (_h : cliAccepts a) :
    build (toBuilder a) = .err .badConfig ∨
    ∃ c, build (toBuilder a) = .ok c ∧ ∀ (es : List IterEnv) (t0 : Nat), (run c (init c t0) es).ended ≠ some .panic := by
  cases hb : build (toBuilder a) with
  | ok c => exact .inr ⟨c, rfl, fun es t0 => accepted_config_never_panics hb es t0⟩
  | err e => rw [build_err_is_badConfig _ e hb]; exact .inl rfl
  | panic => exact absurd hb (build_never_panics _)

/-- and the builder rejects a command-line-accepted configuration only for one of the two reasons the
command-line layer does not check -/
theorem cli_accepted_rejected_only_for {a : Cli} (h : cliAccepts a) (hb : build (toBuilder a) = .err .badConfig) :
    a.initialSeq > Consts.core_MAX_INITIAL_SEQUENCE ∨ ¬ (a.srcV6 = none ∨ a.srcV6 = some a.v6) := by
  by_cases hseq : a.initialSeq ≤ Consts.core_MAX_INITIAL_SEQUENCE
  · by_cases hsrc : a.srcV6 = none ∨ a.srcV6 = some a.v6
    · obtain ⟨c, hc⟩ := cli_accepted_builder_accepts h hseq hsrc
      rw [hb] at hc; cases hc
    · exact .inr hsrc
  · exact .inl (by omega)

/-- what the command-line layer rejects although the builder (and the strategy) would run it: it is
strictly stricter, e.g. ICMP with the paris strategy, `first_ttl > max_ttl`, `max_ttl = 0` -/
def icmpParis : Cfg :=
  { v6 := false, target := 7, proto := .icmp, traceId := 0, maxRounds := none, firstTtl := 1, maxTtl := 64,
    grace := 0, maxInflight := 24, initialSeq := 33434, strat := .paris, portDir := .none, minRound := 0,
    maxRound := 0 }

theorem cli_stricter_than_builder :
    ∃ b : Params, (∃ c, build b = .ok c) ∧ validateProtocolStrategy b.proto b.strat = .err .badConfig :=
  ⟨paramsOf icmpParis, ⟨icmpParis, build_complete ⟨by decide, by decide, by decide, by decide, trivial⟩⟩, by decide⟩

end B

end TV.Props.C16

/-- **C03 / C16, several targets.**  UDP and TCP probes carry no trace identifier, so tracers of one
invocation could not tell their answers apart: the command line accepts more than one target (or
`--dns-resolve-all`) only for ICMP, and only in the modes that can show several traces. -/
theorem TV.Props.C16.several_targets_only_for_icmp (mode : TV.Builder.OutMode) (proto : TV.Strat.Proto) (n : Nat) (all : Bool)
    (hs : n > 1 ∨ all = true) :
    TV.Builder.validateMulti mode proto n all = true ↔ proto = TV.Strat.Proto.icmp ∧ mode.singleTrace = false := by
  have hsev : (decide (n > 1) || all) = true := by
    rcases hs with h | h
    · simp [h]
    · simp [h]
  unfold TV.Builder.validateMulti
  cases hm : mode.singleTrace <;> cases proto <;> simp [hsev]

/-- a single target is accepted in every mode for every protocol -/
theorem TV.Props.C16.single_target_accepted (mode : TV.Builder.OutMode) (proto : TV.Strat.Proto) :
    TV.Builder.validateMulti mode proto 1 false = true := by
  unfold TV.Builder.validateMulti
  cases mode.singleTrace <;> cases proto <;> simp

/-- **C16, privileges.**  A configuration is accepted exactly when its privilege mode can work here: privileged
mode needs the privileges, unprivileged mode needs a platform with unprivileged ICMP sockets — an unsupported
combination is refused up front, whatever the other component says. -/
theorem TV.Props.C16.privilege_accepted_iff (unprivileged has needs : Bool) :
    TV.Builder.validatePrivilege unprivileged has needs = true ↔
      (unprivileged = false ∧ has = true) ∨ (unprivileged = true ∧ needs = false) := by
  cases unprivileged <;> cases has <;> cases needs <;> simp [TV.Builder.validatePrivilege]

/-- **C16, timing.**  The command line accepts a timing configuration exactly when every duration is inside its documented
range and the round's minimum does not exceed its maximum: read-timeout 10–100 ms, grace 10–1000 ms, refresh 50–1000 ms,
at least one report cycle. -/
theorem TV.Props.C16.timing_accepted_iff (t : TV.Builder.Timing) :
    TV.Builder.validateTiming t = true ↔
      (10000000 ≤ t.readTimeout ∧ t.readTimeout ≤ 100000000) ∧ t.minRound ≤ t.maxRound ∧
      (10000000 ≤ t.grace ∧ t.grace ≤ 1000000000) ∧ (50000000 ≤ t.refresh ∧ t.refresh ≤ 1000000000) ∧ 0 < t.reportCycles := by
  simp only [TV.Builder.validateTiming, TV.Consts.tuic_MIN_READ_TIMEOUT_MS, TV.Consts.tuic_MAX_READ_TIMEOUT_MS,
    TV.Consts.tuic_MIN_GRACE_DURATION_MS, TV.Consts.tuic_MAX_GRACE_DURATION_MS, TV.Consts.tuic_TUI_MIN_REFRESH_RATE_MS,
    TV.Consts.tuic_TUI_MAX_REFRESH_RATE_MS]
  by_cases h1 : t.readTimeout < 10000000 <;> by_cases h2 : t.readTimeout > 100000000 <;> by_cases h3 : t.minRound > t.maxRound <;>
    by_cases h4 : t.grace < 10000000 <;> by_cases h5 : t.grace > 1000000000 <;> by_cases h6 : t.refresh < 50000000 <;>
    by_cases h7 : t.refresh > 1000000000 <;> by_cases h8 : t.reportCycles = 0 <;>
    simp [h1, h2, h3, h4, h5, h6, h7, h8] <;> omega

/-- what an accepted timing configuration gives the tracing loop: the hypotheses the C08 theorems state about the round
durations (`min ≤ max`) and a positive grace period -/
theorem TV.Props.C16.accepted_timing_is_sane (t : TV.Builder.Timing) (h : TV.Builder.validateTiming t = true) :
    t.minRound ≤ t.maxRound ∧ 0 < t.grace ∧ 0 < t.readTimeout ∧ t.readTimeout ≤ t.grace * 10 := by
  have := (TV.Props.C16.timing_accepted_iff t).1 h
  omega

/-- the flows and dot reports are refused exactly for the classic strategy; every other mode takes every strategy -/
theorem TV.Props.C16.flow_modes_need_flows (mode : TV.Builder.OutMode) (s : TV.Strat.MStrat) :
    TV.Builder.validateFlows mode s = false ↔ (mode = .flows ∨ mode = .dot) ∧ s = .classic := by
  cases mode <;> cases s <;> simp [TV.Builder.validateFlows]

/-- **C16, the defaults are the documented ones** (the manual, `trippy-config-sample.toml`, the `Builder` documentation):
first-ttl 1, max-ttl 64, max-inflight 24, packet-size 84, payload-pattern 0, initial-sequence 33434, tos 0,
min- and max-round-duration 1 s, grace-duration 100 ms, read-timeout 10 ms, TCP connect timeout 1 s, 256 samples, 64 flows;
tui-refresh-rate 100 ms, dns-timeout 5 s, dns-ttl 300 s, 10 report cycles.  The constants are regenerated from
`trippy-core/src/config.rs` and `trippy-tui/src/config/constants.rs` on every run. -/
theorem TV.Props.C16.defaults_as_documented :
    TV.Consts.defaults_DEFAULT_STRATEGY_FIRST_TTL = 1 ∧ TV.Consts.defaults_DEFAULT_STRATEGY_MAX_TTL = 64 ∧
    TV.Consts.defaults_DEFAULT_STRATEGY_MAX_INFLIGHT = 24 ∧ TV.Consts.defaults_DEFAULT_STRATEGY_PACKET_SIZE = 84 ∧
    TV.Consts.defaults_DEFAULT_STRATEGY_PAYLOAD_PATTERN = 0 ∧ TV.Consts.defaults_DEFAULT_STRATEGY_INITIAL_SEQUENCE = 33434 ∧
    TV.Consts.defaults_DEFAULT_STRATEGY_TOS = 0 ∧
    TV.Consts.defaults_DEFAULT_STRATEGY_MIN_ROUND_DURATION = 1000000000 ∧ TV.Consts.defaults_DEFAULT_STRATEGY_MAX_ROUND_DURATION = 1000000000 ∧
    TV.Consts.defaults_DEFAULT_STRATEGY_GRACE_DURATION = 100000000 ∧ TV.Consts.defaults_DEFAULT_STRATEGY_READ_TIMEOUT = 10000000 ∧
    TV.Consts.defaults_DEFAULT_STRATEGY_TCP_CONNECT_TIMEOUT = 1000000000 ∧
    TV.Consts.defaults_DEFAULT_MAX_SAMPLES = 256 ∧ TV.Consts.defaults_DEFAULT_MAX_FLOWS = 64 ∧
    TV.Consts.tuic_DEFAULT_TUI_REFRESH_RATE = 100000000 ∧ TV.Consts.tuic_DEFAULT_DNS_TIMEOUT = 5000000000 ∧
    TV.Consts.tuic_DEFAULT_DNS_TTL = 300000000000 ∧ TV.Consts.tuic_DEFAULT_REPORT_CYCLES = 10 := by decide

/-- the default configuration is one the command line's own validators accept -/
theorem TV.Props.C16.default_timing_accepted :
    TV.Builder.validateTiming
      (TV.Builder.Timing.mk TV.Consts.defaults_DEFAULT_STRATEGY_READ_TIMEOUT TV.Consts.defaults_DEFAULT_STRATEGY_MIN_ROUND_DURATION
        TV.Consts.defaults_DEFAULT_STRATEGY_MAX_ROUND_DURATION TV.Consts.defaults_DEFAULT_STRATEGY_GRACE_DURATION
        TV.Consts.tuic_DEFAULT_TUI_REFRESH_RATE TV.Consts.tuic_DEFAULT_REPORT_CYCLES) = true := by decide

#print axioms TV.Props.C16.layer_cli
#print axioms TV.Props.C16.layer_file
#print axioms TV.Props.C16.layer_default
#print axioms TV.Props.C16.layer_eq
#print axioms TV.Props.C16.layer_opt_cli
#print axioms TV.Props.C16.layer_opt_file
#print axioms TV.Props.C16.layer_opt_default
#print axioms TV.Props.C16.layer_opt_eq
#print axioms TV.Props.C16.flag_cli
#print axioms TV.Props.C16.flag_file
#print axioms TV.Props.C16.flag_default
#print axioms TV.Props.C16.flag_eq
#print axioms TV.Props.C16.layer_congr
#print axioms TV.Props.C16.wiring_matches_spec
#print axioms TV.Props.C16.cli_and_file_same_option
#print axioms TV.Props.C16.default_iff_not_opt
#print axioms TV.Props.C16.default_const_documents_option
#print axioms TV.Props.C16.default_consts_nodup
#print axioms TV.Props.C16.direct_move_same_option
#print axioms TV.Props.C16.options_distinct
#print axioms TV.Props.C16.file_inputs_distinct
#print axioms TV.Props.C16.variables_distinct
#print axioms TV.Props.C16.cli_input_used_once
#print axioms TV.Props.C16.file_input_used_once
#print axioms TV.Props.C16.args_uses_nodup
#print axioms TV.Props.C16.file_uses_nodup
#print axioms TV.Props.C16.file_reads_are_layered
#print axioms TV.Props.C16.non_layered_cli_fields
#print axioms TV.Props.C16.derived_values
#print axioms TV.Props.C16.result_fields_distinct
#print axioms TV.Props.C16.every_option_reaches_result
#print axioms TV.Props.C16.absent_section_is_default
#print axioms TV.Props.C16.help_text_defaults
#print axioms TV.Props.C16.protocol_no_flag
#print axioms TV.Props.C16.protocol_flag
#print axioms TV.Props.C16.addrFamily_no_flag
#print axioms TV.Props.C16.addrFamily_flags
#print axioms TV.Props.C16.privilegeMode_eq
#print axioms TV.Props.C16.maxRounds_eq
#print axioms TV.Props.C16.tuiMaxAddrs_eq
#print axioms TV.Props.C16.build_never_panics
#print axioms TV.Props.C16.build_err_is_badConfig
#print axioms TV.Props.C16.build_ok_iff
#print axioms TV.Props.C16.build_sound
#print axioms TV.Props.C16.build_complete
#print axioms TV.Props.C16.build_complete'
#print axioms TV.Props.C16.source_family_mismatch_rejected
#print axioms TV.Props.C16.build_rejects_iff
#print axioms TV.Props.C16.accepted_config_never_panics
#print axioms TV.Props.C16.unsupported_rejected
#print axioms TV.Props.C16.cliConfig_ok
#print axioms TV.Props.C16.cli_accepted_builder_accepts
#print axioms TV.Props.C16.cli_initial_sequence_gap
#print axioms TV.Props.C16.cli_source_family_gap
#print axioms TV.Props.C16.cli_accepted_runs
#print axioms TV.Props.C16.cli_accepted_rejected_only_for
#print axioms TV.Props.C16.cli_stricter_than_builder
#print axioms TV.Props.C16.several_targets_only_for_icmp
#print axioms TV.Props.C16.single_target_accepted
#print axioms TV.Props.C16.privilege_accepted_iff
#print axioms TV.Props.C16.timing_accepted_iff
#print axioms TV.Props.C16.accepted_timing_is_sane
#print axioms TV.Props.C16.flow_modes_need_flows
#print axioms TV.Props.C16.defaults_as_documented
#print axioms TV.Props.C16.default_timing_accepted
