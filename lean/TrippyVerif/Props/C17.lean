import TrippyVerif.Model.TuiIO
/-!
# C17 — the terminal UI never crashes; selections always refer to existing entries

Model: `TrippyVerif/Model/Tui.lean` (every `TuiApp` method, the per-frame prologue, the key
dispatch of `run_app`, the index expressions of the render functions).  The harness `tvh tui`
compares that model with the real `TuiApp` after every operation.

Two versions of the code are modelled behind the parameter `fx` (`Tui.codeIsFixed` for the driver):

* `fx = false`, the code as it stands: C17 is **false**.  `current_panics_a … f` are concrete
  operation sequences on which a method panics, `current_invalid_g` one on which nothing panics but
  the selected hop address refers to nothing (`current_code_panics`,
  `current_code_invalid_selection`).
* `fx = true`, the code after `/verif/tmp_patches/tui_selection.diff`: `no_panic_and_valid` — for
  every initial configuration and every interleaving of data updates (any well-formed state of any
  live tracer, no monotonicity assumed), keys (every command of the binding table, in every mode)
  and frames, no modelled method panics and the invariant `Inv` — hence `Valid` — holds after
  every operation.

The proofs are by invariant: `inv_init`, `step_ok` (`Inv s → OpOK op → ∃ s', step true s op = ok s' ∧
Inv s'`), lifted to sequences in `steps_ok`.

Modelling assumptions (checked by the harness / driver on every run):
* `Shape.WF` (= `Shape.wfB`, which the driver evaluates on every `data` request): the combined flow 0
  exists, a flow has at most 254 hops (`MAX_TTL`), the registry holds at most `max_flows` flows, and
  a non-empty registry contains flow 1 (ids are handed out from 1);
* `CfgOK`: what `TuiApp::new` receives.
Not modelled: the drawing code of ratatui (layout, widgets).  The harness draws every frame for real
at sizes 1x1 … 300x100 under `catch_unwind`.
-/
namespace TV.Props.C17
open TV TV.Tui

/-! ## Well-formed shapes -/

def Shape.WF (s : Shape) : Prop :=
  (findFlow s 0).isSome = true ∧
  (∀ f ∈ s.flows, f.hops.length ≤ 254) ∧
  (registry s).length ≤ s.maxFlows ∧
  (registry s ≠ [] → (findFlow s 1).isSome = true)

theorem wfB_iff (s : Shape) : s.wfB = true ↔ Shape.WF s := by
  unfold Shape.wfB Shape.WF
  simp only [Bool.and_eq_true, Bool.or_eq_true, List.all_eq_true, decide_eq_true_eq, List.isEmpty_iff]
  constructor
  · rintro ⟨⟨⟨a, b⟩, c⟩, d⟩
    exact ⟨a, b, c, fun hne => d.resolve_left hne⟩
  · rintro ⟨a, b, c, d⟩
    refine ⟨⟨⟨a, b⟩, c⟩, ?_⟩
    by_cases h : registry s = []
    · exact Or.inl h
    · exact Or.inr (d h)

theorem wf_cleared (m : Nat) : Shape.WF (Shape.cleared m) := by
  refine ⟨rfl, ?_, ?_, ?_⟩
  · intro f hf
    simp [Shape.cleared] at hf
    subst hf; simp
  · simp [registry, Shape.cleared]
  · intro h; exact absurd rfl h

theorem findFlow_mem {s : Shape} {id : Nat} {f : FlowS} (h : findFlow s id = some f) :
    f ∈ s.flows ∧ f.id = id := by
  unfold findFlow at h
  refine ⟨List.mem_of_find?_eq_some h, ?_⟩
  have := List.find?_some h
  simpa using this

theorem findFlow_isSome_of_mem {s : Shape} {f : FlowS} (h : f ∈ s.flows) :
    (findFlow s f.id).isSome = true := by
  unfold findFlow
  rw [List.find?_isSome]
  exact ⟨f, h, by simp⟩

theorem hopsForFlow_of_present {s : Shape} {id : Nat} (h : (findFlow s id).isSome = true) :
    ∃ f, findFlow s id = some f ∧ hopsForFlow s id = .ok f.hops := by
  cases hf : findFlow s id with
  | none => rw [hf] at h; cases h
  | some f => exact ⟨f, rfl, by simp [hopsForFlow, stateAt, hf]⟩

theorem present_of_hopsForFlow {s : Shape} {id : Nat} {hs : List HopS} (h : hopsForFlow s id = .ok hs) :
    (findFlow s id).isSome = true := by
  unfold hopsForFlow stateAt at h
  cases hf : findFlow s id with
  | none => rw [hf] at h; cases h
  | some f => rfl

theorem hops_len {s : Shape} (w : Shape.WF s) {id : Nat} {hs : List HopS}
    (h : hopsForFlow s id = .ok hs) : hs.length ≤ 254 := by
  obtain ⟨f, hf, hh⟩ := hopsForFlow_of_present (present_of_hopsForFlow h)
  rw [hh] at h
  cases h
  exact w.2.1 f (findFlow_mem hf).1

theorem touchFlow_ok {s : Shape} {id : Nat} (h : (findFlow s id).isSome = true) : touchFlow s id = .ok () := by
  cases hf : findFlow s id with
  | none => rw [hf] at h; cases h
  | some f => simp [touchFlow, stateAt, hf]

theorem mem_registry {s : Shape} {f : FlowS} : f ∈ registry s ↔ f ∈ s.flows ∧ f.id ≠ 0 := by
  simp [registry, List.mem_filter]

/-! ## Flow ordering -/

theorem mem_insertFlow {x y : Nat × Nat} {l : List (Nat × Nat)} : y ∈ insertFlow x l ↔ y = x ∨ y ∈ l := by
  induction l with
  | nil => simp [insertFlow]
  | cons z zs ih =>
    unfold insertFlow
    split
    · simp
    · simp only [List.mem_cons, ih]
      constructor
      · rintro (h | h | h)
        · exact Or.inr (Or.inl h)
        · exact Or.inl h
        · exact Or.inr (Or.inr h)
      · rintro (h | h | h)
        · exact Or.inr (Or.inl h)
        · exact Or.inl h
        · exact Or.inr (Or.inr h)

theorem mem_sortFlows {y : Nat × Nat} {l : List (Nat × Nat)} : y ∈ sortFlows l ↔ y ∈ l := by
  induction l with
  | nil => simp [sortFlows]
  | cons z zs ih => simp [sortFlows, mem_insertFlow, ih]

theorem length_insertFlow (x : Nat × Nat) (l : List (Nat × Nat)) : (insertFlow x l).length = l.length + 1 := by
  induction l with
  | nil => simp [insertFlow]
  | cons z zs ih =>
    unfold insertFlow
    split <;> simp [ih]

theorem length_sortFlows (l : List (Nat × Nat)) : (sortFlows l).length = l.length := by
  induction l with
  | nil => simp [sortFlows]
  | cons z zs ih => simp [sortFlows, length_insertFlow, ih]

theorem findPos_isSome {id : Nat} {l : List (Nat × Nat)} : (findPos id l).isSome = true ↔ ∃ x ∈ l, x.1 = id := by
  induction l with
  | nil => simp [findPos]
  | cons z zs ih =>
    unfold findPos
    by_cases h : z.1 = id
    · simp [h]
    · simp only [beq_iff_eq, h, ↓reduceIte, Option.isSome_map, ih, List.mem_cons, exists_eq_or_imp, false_or]

theorem findPos_lt {id n : Nat} {l : List (Nat × Nat)} (h : findPos id l = some n) : n < l.length := by
  induction l generalizing n with
  | nil => simp [findPos] at h
  | cons z zs ih =>
    unfold findPos at h
    split at h
    · cases h; simp
    · cases hp : findPos id zs with
      | none => rw [hp] at h; simp at h
      | some m =>
        rw [hp] at h
        simp at h
        subst h
        have := ih hp
        simp; omega

theorem flowCountsOf_ok (s : Shape) : ∀ (l : List FlowS), (∀ f ∈ l, f ∈ s.flows) →
    ∃ cs, flowCountsOf s l = .ok cs ∧ cs.length = l.length ∧
      (∀ x ∈ cs, ∃ f ∈ l, x.1 = f.id) ∧ (∀ f ∈ l, ∃ x ∈ cs, x.1 = f.id)
  | [], _ => ⟨[], rfl, rfl, by simp, by simp⟩
  | f :: fs, h => by
    obtain ⟨cs, hcs, hl, h1, h2⟩ := flowCountsOf_ok s fs (fun g hg => h g (List.mem_cons_of_mem _ hg))
    have hp := findFlow_isSome_of_mem (h f (List.mem_cons_self ..))
    cases hf : findFlow s f.id with
    | none => rw [hf] at hp; cases hp
    | some g =>
      refine ⟨(f.id, g.rounds) :: cs, ?_, by simp [hl], ?_, ?_⟩
      · simp [flowCountsOf, roundCount, stateAt, hf, hcs]
      · intro x hx
        rcases List.mem_cons.mp hx with rfl | hx
        · exact ⟨f, List.mem_cons_self .., rfl⟩
        · obtain ⟨g', hg', e⟩ := h1 x hx
          exact ⟨g', List.mem_cons_of_mem _ hg', e⟩
      · intro g' hg'
        rcases List.mem_cons.mp hg' with rfl | hg'
        · exact ⟨_, List.mem_cons_self .., rfl⟩
        · obtain ⟨x, hx, e⟩ := h2 g' hg'
          exact ⟨x, List.mem_cons_of_mem _ hx, e⟩

theorem length_swapAdj {α : Type} : ∀ (l : List α) (n : Nat), (swapAdj l n).length = l.length
  | [], _ => by simp [swapAdj]
  | [a], 0 => by simp [swapAdj]
  | a :: b :: t, 0 => by simp [swapAdj]
  | a :: t, n + 1 => by simp [swapAdj, length_swapAdj t n]


/-! ## The invariant -/

def DataOK (snap : Shape) (live : List Shape) (n t : Nat) : Prop :=
  Shape.WF snap ∧ (∀ sh ∈ live, Shape.WF sh) ∧ live.length = n ∧ t < n

def SelOK (snap : Shape) (flow : Nat) (sel : Option Nat) (addr : Nat) : Prop :=
  ∃ hs, hopsForFlow snap flow = .ok hs ∧ (∀ i, sel = some i → i < hs.length) ∧
    addr < max 1 (addrCountAt hs sel)

def FlowsOK (snap : Shape) (fc : List (Nat × Nat)) (flow : Nat) (showFlows : Bool) : Prop :=
  (∀ x ∈ fc, x.1 ≠ 0 ∧ (findFlow snap x.1).isSome = true) ∧
  (∀ f ∈ registry snap, (findPos f.id fc).isSome = true) ∧
  (showFlows = true → flow ≠ 0)

/-- the number of items the code assumes for a settings tab (`get_settings_items_count`) -/
def itemCount (tab ncols : Nat) (declared : List Nat) : Nat :=
  if tab = 6 then ncols else declared[tab]?.getD 0

def SetOK (tab : Nat) (item : Option Nat) (ncols : Nat) (declared actual : List Nat) : Prop :=
  tab < 7 ∧ declared.length = 7 ∧ actual.length = 7 ∧
  (∀ t, t < 6 → 0 < declared[t]?.getD 0 ∧ declared[t]?.getD 0 ≤ actual[t]?.getD 0) ∧ 0 < ncols ∧
  (∀ i, item = some i → i < itemCount tab ncols declared)

def MiscOK (maxAddrs : Option Nat) (zoom : Nat) (privacy : Option Nat) : Prop :=
  maxAddrs ≠ some 0 ∧ 1 ≤ zoom ∧ (∀ p, privacy = some p → p ≤ 255)

/-- The invariant of the index state, relative to the displayed snapshot. -/
def Inv (s : Sys) : Prop :=
  DataOK s.app.snap s.live s.app.nTraces s.app.traceSelected ∧
  SelOK s.app.snap s.app.selectedFlow s.app.selected s.app.selectedHopAddress ∧
  FlowsOK s.app.snap s.app.flowCounts s.app.selectedFlow s.app.showFlows ∧
  SetOK s.app.settingsTabSelected s.app.settingSelected s.app.columns.length s.app.declared s.app.actual ∧
  MiscOK s.app.maxAddrs s.app.zoom s.app.privacy

/-- outcome of an `App`-level handler: it returns normally and the invariant still holds -/
def Good (l : List Shape) (r : R App) : Prop := ∃ a', r = .ok a' ∧ Inv ⟨a', l⟩

theorem selOK_clear {snap flow sel addr} (h : SelOK snap flow sel addr) : SelOK snap flow none 0 := by
  obtain ⟨hs, h1, _, _⟩ := h
  exact ⟨hs, h1, by simp, by simp [addrCountAt]⟩

theorem selOK_present {snap flow sel addr} (h : SelOK snap flow sel addr) : (findFlow snap flow).isSome = true := by
  obtain ⟨hs, h1, _, _⟩ := h
  exact present_of_hopsForFlow h1

/-- with the flows view open the selected flow is one of the entries of `flow_counts` -/
theorem flow_in_counts {snap fc flow sf sel addr} (hf : FlowsOK snap fc flow sf) (hs : SelOK snap flow sel addr)
    (h : sf = true) : (findPos flow fc).isSome = true := by
  have hp := selOK_present hs
  cases hfl : findFlow snap flow with
  | none => rw [hfl] at hp; cases hp
  | some f =>
    obtain ⟨hm, hid⟩ := findFlow_mem hfl
    have := hf.2.1 f (mem_registry.mpr ⟨hm, by rw [hid]; exact hf.2.2 h⟩)
    rwa [hid] at this

/-! ## The patched `clamp_selected_hop` -/

theorem clampSel_flow (n : Nat) (x : SelSt) : (clampSel n x).flow = x.flow ∧ (clampSel n x).showFlows = x.showFlows := by
  unfold clampSel
  cases x.sel with
  | none => exact ⟨rfl, rfl⟩
  | some s => simp only []; split <;> (try split) <;> exact ⟨rfl, rfl⟩

theorem clampSel_lt (n : Nat) (x : SelSt) (i : Nat) (h : (clampSel n x).sel = some i) : i < n := by
  unfold clampSel at h
  cases hs : x.sel with
  | none => rw [hs] at h; simp only [] at h; rw [hs] at h; cases h
  | some s =>
    rw [hs] at h; simp only [] at h
    split at h
    · cases h
    · rename_i hn
      have hn' : n ≠ 0 := by simpa using hn
      split at h
      · cases h; omega
      · rw [hs] at h; cases h; omega

theorem clampAddr_fields (hs : List HopS) (x : SelSt) :
    (clampAddr hs x).flow = x.flow ∧ (clampAddr hs x).showFlows = x.showFlows ∧ (clampAddr hs x).sel = x.sel := by
  unfold clampAddr; split <;> exact ⟨rfl, rfl, rfl⟩

theorem clampAddr_lt (hs : List HopS) (x : SelSt) :
    (clampAddr hs x).addr < max 1 (addrCountAt hs (clampAddr hs x).sel) := by
  rw [(clampAddr_fields hs x).2.2]
  unfold clampAddr
  split
  · exact Nat.lt_of_lt_of_le Nat.zero_lt_one (Nat.le_max_left ..)
  · rename_i h; exact Nat.lt_of_not_le h

theorem clampFlow_present {snap : Shape} (w : Shape.WF snap) (x : SelSt) :
    (findFlow snap (clampFlow snap x).flow).isSome = true := by
  unfold clampFlow
  split
  · exact w.1
  · rename_i hc
    simp only [Bool.and_eq_true, bne_iff_ne, ne_eq, Option.isNone_iff_eq_none, not_and] at hc
    by_cases h0 : x.flow = 0
    · rw [h0]; exact w.1
    · cases hf : findFlow snap x.flow with
      | none => exact absurd hf (hc h0)
      | some _ => rfl

theorem clampFlow_keep {snap : Shape} (x : SelSt) (hp : (findFlow snap x.flow).isSome = true) :
    clampFlow snap x = x := by
  unfold clampFlow
  cases hf : findFlow snap x.flow with
  | none => rw [hf] at hp; cases hp
  | some _ => simp

theorem clampFlow_show {snap : Shape} (x : SelSt) (h : (clampFlow snap x).showFlows = true) :
    clampFlow snap x = x := by
  unfold clampFlow at h ⊢
  split
  · rename_i hc; rw [if_pos hc] at h; cases h
  · rfl

theorem clampCore_spec {snap : Shape} (w : Shape.WF snap) (x : SelSt) :
    ∃ y, clampCore snap x = .ok y ∧ SelOK snap y.flow y.sel y.addr ∧
      ((findFlow snap x.flow).isSome = true → y.flow = x.flow ∧ y.showFlows = x.showFlows) ∧
      (y.showFlows = true → x.showFlows = true ∧ y.flow = x.flow) := by
  obtain ⟨f, hf, hh⟩ := hopsForFlow_of_present (clampFlow_present w x)
  have hfl := clampSel_flow f.hops.length (clampFlow snap x)
  have haf := clampAddr_fields f.hops (clampSel f.hops.length (clampFlow snap x))
  refine ⟨clampAddr f.hops (clampSel f.hops.length (clampFlow snap x)), ?_, ?_, ?_, ?_⟩
  · simp [clampCore, hh]
  · refine ⟨f.hops, ?_, ?_, clampAddr_lt _ _⟩
    · rw [haf.1, hfl.1]; exact hh
    · intro i hi
      rw [haf.2.2] at hi
      exact clampSel_lt _ _ i hi
  · intro hp
    rw [haf.1, haf.2.1, hfl.1, hfl.2, clampFlow_keep x hp]
    exact ⟨rfl, rfl⟩
  · intro ht
    rw [haf.2.1, hfl.2] at ht
    rw [haf.1, hfl.1, clampFlow_show x ht]
    rw [clampFlow_show x ht] at ht
    exact ⟨ht, rfl⟩

theorem clamp_good {a : App} {l : List Shape}
    (hd : DataOK a.snap l a.nTraces a.traceSelected)
    (hf : FlowsOK a.snap a.flowCounts a.selectedFlow a.showFlows)
    (hset : SetOK a.settingsTabSelected a.settingSelected a.columns.length a.declared a.actual)
    (hm : MiscOK a.maxAddrs a.zoom a.privacy) : Good l (clampSelectedHop true a) := by
  obtain ⟨y, hy, hsel, _, hsf⟩ := clampCore_spec hd.1 ⟨a.selectedFlow, a.showFlows, a.selected, a.selectedHopAddress⟩
  refine ⟨{ a with selectedFlow := y.flow, showFlows := y.showFlows, selected := y.sel, selectedHopAddress := y.addr },
    by simp [clampSelectedHop, hy], hd, hsel, ⟨hf.1, hf.2.1, ?_⟩, hset, hm⟩
  intro (ht : y.showFlows = true)
  obtain ⟨h1, h2⟩ := hsf ht
  show y.flow ≠ 0
  rw [h2]; exact hf.2.2 h1

/-! ## Every handler keeps the invariant (patched code) -/

theorem zero_lt_max1 (n : Nat) : 0 < max 1 n := Nat.lt_of_lt_of_le Nat.zero_lt_one (Nat.le_max_left ..)

section handlers
variable {a : App} {l : List Shape}

theorem good_ok {a' : App} (h : Inv ⟨a', l⟩) : Good l (.ok a') := ⟨a', rfl, h⟩

theorem Inv.parts (h : Inv ⟨a, l⟩) :
    DataOK a.snap l a.nTraces a.traceSelected ∧
    SelOK a.snap a.selectedFlow a.selected a.selectedHopAddress ∧
    FlowsOK a.snap a.flowCounts a.selectedFlow a.showFlows ∧
    SetOK a.settingsTabSelected a.settingSelected a.columns.length a.declared a.actual ∧
    MiscOK a.maxAddrs a.zoom a.privacy := h

theorem inv_clearSel (h : Inv ⟨a, l⟩) : Inv ⟨clearSel a, l⟩ :=
  ⟨h.1, selOK_clear h.2.1, h.2.2.1, h.2.2.2.1, h.2.2.2.2⟩

theorem good_nextHop (h : Inv ⟨a, l⟩) : Good l (nextHop a) := by
  obtain ⟨hd, ⟨hs, hh, hlt, had⟩, hf, hset, hm⟩ := h.parts
  unfold nextHop
  simp only [hh, R.bind_ok, R.pure_eq]
  split
  · exact ⟨a, rfl, hd, ⟨hs, hh, hlt, had⟩, hf, hset, hm⟩
  · rename_i hne
    have hne' : hs.length ≠ 0 := by simpa using hne
    refine ⟨_, rfl, hd, ⟨hs, hh, ?_, zero_lt_max1 _⟩, hf, hset, hm⟩
    intro i hi
    cases hsel : a.selected with
    | none => simp [hsel] at hi; omega
    | some j =>
      have := hlt j hsel
      simp only [hsel, Option.some.injEq] at hi
      split at hi <;> omega

theorem good_previousHop (h : Inv ⟨a, l⟩) : Good l (previousHop a) := by
  obtain ⟨hd, ⟨hs, hh, hlt, had⟩, hf, hset, hm⟩ := h.parts
  unfold previousHop
  simp only [hh, R.bind_ok, R.pure_eq]
  split
  · exact ⟨a, rfl, hd, ⟨hs, hh, hlt, had⟩, hf, hset, hm⟩
  · rename_i hne
    have hne' : hs.length ≠ 0 := by simpa using hne
    refine ⟨_, rfl, hd, ⟨hs, hh, ?_, zero_lt_max1 _⟩, hf, hset, hm⟩
    intro i hi
    cases hsel : a.selected with
    | none => simp [hsel] at hi; omega
    | some j =>
      have := hlt j hsel
      simp only [hsel, Option.some.injEq] at hi
      split at hi <;> omega

theorem inv_nextTrace (h : Inv ⟨a, l⟩) : Inv ⟨nextTrace a, l⟩ := by
  unfold nextTrace
  split
  · rename_i hc
    simp only [Bool.and_eq_true, decide_eq_true_eq] at hc
    obtain ⟨⟨w, lw, ll, _⟩, hsel, hf, hset, hm⟩ := h.parts
    exact ⟨⟨w, lw, ll, by show a.traceSelected + 1 < a.nTraces; omega⟩, selOK_clear hsel, hf, hset, hm⟩
  · exact h

theorem inv_previousTrace (h : Inv ⟨a, l⟩) : Inv ⟨previousTrace a, l⟩ := by
  unfold previousTrace
  split
  · rename_i hc
    simp only [Bool.and_eq_true, decide_eq_true_eq] at hc
    obtain ⟨⟨w, lw, ll, lt⟩, hsel, hf, hset, hm⟩ := h.parts
    exact ⟨⟨w, lw, ll, by show a.traceSelected - 1 < a.nTraces; omega⟩, selOK_clear hsel, hf, hset, hm⟩
  · exact h

theorem selectedHop_spec {snap flow sel addr} (h : SelOK snap flow sel addr) (a : App)
    (e1 : a.snap = snap) (e2 : a.selectedFlow = flow) (e3 : a.selected = sel) :
    ∃ hs, hopsForFlow snap flow = .ok hs ∧
      ((sel = none ∧ selectedHop a = .ok none) ∨
       (∃ i hop, sel = some i ∧ hs[i]? = some hop ∧ selectedHop a = .ok (some hop))) := by
  obtain ⟨hs, hh, hlt, _⟩ := h
  refine ⟨hs, hh, ?_⟩
  subst e1 e2 e3
  unfold selectedHop
  cases hsel : a.selected with
  | none => exact Or.inl ⟨rfl, rfl⟩
  | some i =>
    have hi := hlt i hsel
    refine Or.inr ⟨i, hs[i], rfl, List.getElem?_eq_getElem hi, ?_⟩
    simp [hh, List.getElem?_eq_getElem hi]

theorem good_nextHopAddress (h : Inv ⟨a, l⟩) : Good l (nextHopAddress true a) := by
  obtain ⟨hd, hsel, hf, hset, hm⟩ := h.parts
  obtain ⟨hs, hh, hcase⟩ := selectedHop_spec hsel a rfl rfl rfl
  unfold nextHopAddress
  rcases hcase with ⟨_, hn⟩ | ⟨i, hop, hi, hget, hsome⟩
  · simp only [hn, R.bind_ok, R.pure_eq]
    exact ⟨a, rfl, hd, hsel, hf, hset, hm⟩
  · simp only [hsome, R.bind_ok, R.pure_eq, Bool.not_true, Bool.false_and, Bool.false_eq_true, ↓reduceIte]
    split
    · rename_i hlt
      obtain ⟨hs', hh', hl', _⟩ := hsel
      rw [hh] at hh'; cases hh'
      refine ⟨_, rfl, hd, ⟨hs, hh, hl', ?_⟩, hf, hset, hm⟩
      show a.selectedHopAddress + 1 < max 1 (addrCountAt hs a.selected)
      rw [hi]; simp only [addrCountAt, hget]
      have : a.selectedHopAddress + 1 < hop.addrs := by omega
      exact Nat.lt_of_lt_of_le this (Nat.le_max_right ..)
    · exact ⟨a, rfl, hd, hsel, hf, hset, hm⟩

theorem good_previousHopAddress (h : Inv ⟨a, l⟩) : Good l (previousHopAddress a) := by
  obtain ⟨hd, hsel, hf, hset, hm⟩ := h.parts
  obtain ⟨hs, hh, hcase⟩ := selectedHop_spec hsel a rfl rfl rfl
  unfold previousHopAddress
  rcases hcase with ⟨_, hn⟩ | ⟨i, hop, hi, hget, hsome⟩
  · simp only [hn, R.bind_ok, R.pure_eq]
    exact ⟨a, rfl, hd, hsel, hf, hset, hm⟩
  · simp only [hsome, R.bind_ok, R.pure_eq]
    split
    · obtain ⟨hs', hh', hl', had'⟩ := hsel
      refine ⟨_, rfl, hd, ⟨hs', hh', hl', ?_⟩, hf, hset, hm⟩
      show a.selectedHopAddress - 1 < max 1 (addrCountAt hs' a.selected)
      omega
    · exact ⟨a, rfl, hd, hsel, hf, hset, hm⟩

theorem good_toggleFlows (h : Inv ⟨a, l⟩) : Good l (toggleFlows true a) := by
  obtain ⟨hd, hsel, hf, hset, hm⟩ := h.parts
  unfold toggleFlows
  split
  · split
    · simp only [↓reduceIte]
      exact clamp_good (a := { a with selectedFlow := 0, showFlows := false, selectedHopAddress := 0 }) hd
        ⟨hf.1, hf.2.1, fun h => by cases h⟩ hset hm
    · split
      · simp only [↓reduceIte]
        exact clamp_good (a := { a with selectedFlow := 1, showFlows := true, selectedHopAddress := 0 }) hd
          ⟨hf.1, hf.2.1, fun _ => Nat.one_ne_zero⟩ hset hm
      · exact ⟨a, rfl, hd, hsel, hf, hset, hm⟩
  · exact ⟨a, rfl, hd, hsel, hf, hset, hm⟩

theorem good_nextFlow (h : Inv ⟨a, l⟩) : Good l (nextFlow true a) := by
  obtain ⟨hd, hsel, hf, hset, hm⟩ := h.parts
  unfold nextFlow
  split
  · rename_i hshow
    have hpos := flow_in_counts hf hsel hshow
    cases hp : findPos a.selectedFlow a.flowCounts with
    | none => rw [hp] at hpos; cases hpos
    | some cur =>
      simp only []
      split
      · rename_i hlt
        have hlt' : cur + 1 < a.flowCounts.length := by omega
        rw [List.getElem?_eq_getElem hlt']
        simp only [↓reduceIte]
        have hx := hf.1 _ (List.getElem_mem hlt')
        exact clamp_good (a := { a with selectedFlow := (a.flowCounts[cur + 1]).1 }) hd
          ⟨hf.1, hf.2.1, fun _ => hx.1⟩ hset hm
      · exact ⟨a, rfl, hd, hsel, hf, hset, hm⟩
  · exact ⟨a, rfl, hd, hsel, hf, hset, hm⟩

theorem good_previousFlow (h : Inv ⟨a, l⟩) : Good l (previousFlow true a) := by
  obtain ⟨hd, hsel, hf, hset, hm⟩ := h.parts
  unfold previousFlow
  split
  · rename_i hshow
    have hpos := flow_in_counts hf hsel hshow
    cases hp : findPos a.selectedFlow a.flowCounts with
    | none => rw [hp] at hpos; cases hpos
    | some cur =>
      simp only []
      have hcur := findPos_lt hp
      split
      · rename_i hgt
        have hlt' : cur - 1 < a.flowCounts.length := by omega
        rw [List.getElem?_eq_getElem hlt']
        simp only [↓reduceIte]
        have hx := hf.1 _ (List.getElem_mem hlt')
        exact clamp_good (a := { a with selectedFlow := (a.flowCounts[cur - 1]).1 }) hd
          ⟨hf.1, hf.2.1, fun _ => hx.1⟩ hset hm
      · exact ⟨a, rfl, hd, hsel, hf, hset, hm⟩
  · exact ⟨a, rfl, hd, hsel, hf, hset, hm⟩

theorem good_expandPrivacy (h : Inv ⟨a, l⟩) : Good l (expandPrivacy a) := by
  obtain ⟨hd, hsel, hf, hset, hm⟩ := h.parts
  obtain ⟨hs, hh, hl, had⟩ := hsel
  have hlen := hops_len hd.1 hh
  unfold expandPrivacy
  simp only [hh, R.bind_ok, R.pure_eq]
  cases hp : a.privacy with
  | none =>
    refine ⟨_, rfl, hd, ⟨hs, hh, hl, had⟩, hf, hset, hm.1, hm.2.1, ?_⟩
    intro p hp'; cases hp'; omega
  | some p =>
    simp only []
    split
    · rename_i hlt
      rw [if_pos (by omega)]
      refine ⟨_, rfl, hd, ⟨hs, hh, hl, had⟩, hf, hset, hm.1, hm.2.1, ?_⟩
      intro q hq; cases hq; omega
    · exact ⟨a, rfl, hd, ⟨hs, hh, hl, had⟩, hf, hset, hm⟩

theorem inv_contractPrivacy (h : Inv ⟨a, l⟩) : Inv ⟨contractPrivacy a, l⟩ := by
  obtain ⟨hd, hsel, hf, hset, hm⟩ := h.parts
  unfold contractPrivacy
  cases hp : a.privacy with
  | none => exact ⟨hd, hsel, hf, hset, hm⟩
  | some p =>
    simp only []
    have := hm.2.2 p hp
    split
    · exact ⟨hd, hsel, hf, hset, hm.1, hm.2.1, fun q hq => by cases hq; omega⟩
    · exact ⟨hd, hsel, hf, hset, hm.1, hm.2.1, fun q hq => by cases hq⟩

theorem maxHosts_spec (hsel : SelOK a.snap a.selectedFlow a.selected a.selectedHopAddress) :
    ∃ m, maxHosts true a = .ok m ∧ ∀ k, m = some k → 0 < k ∧ k ≤ 255 := by
  obtain ⟨hs, hh, _, _⟩ := hsel
  unfold maxHosts
  simp only [hh, R.bind_ok, R.pure_eq]
  cases listMax (hs.map (·.addrs)) with
  | none => exact ⟨none, rfl, fun k hk => by cases hk⟩
  | some m =>
    simp only []
    refine ⟨_, rfl, ?_⟩
    intro k hk
    split at hk
    · cases hk
    · split at hk
      · cases hk
      · rename_i h1 h2
        cases hk
        simp only [Bool.true_and, beq_iff_eq] at h2
        omega

theorem good_expandHosts (h : Inv ⟨a, l⟩) : Good l (expandHosts true a) := by
  obtain ⟨hd, hsel, hf, hset, hm⟩ := h.parts
  unfold expandHosts
  cases hma : a.maxAddrs with
  | none => exact ⟨_, rfl, hd, hsel, hf, hset, by simp, hm.2.1, hm.2.2⟩
  | some i =>
    obtain ⟨m, hmx, hk⟩ := maxHosts_spec hsel
    simp only [hmx, R.bind_ok, R.pure_eq]
    split
    · rename_i hlt
      cases m with
      | none => simp [optLt] at hlt
      | some k =>
        have := hk k rfl
        simp only [optLt, decide_eq_true_eq] at hlt
        rw [if_pos (by omega)]
        exact ⟨_, rfl, hd, hsel, hf, hset, by simp, hm.2.1, hm.2.2⟩
    · refine ⟨a, rfl, hd, hsel, hf, hset, hm⟩

theorem good_expandHostsMax (h : Inv ⟨a, l⟩) : Good l (expandHostsMax true a) := by
  obtain ⟨hd, hsel, hf, hset, hm⟩ := h.parts
  obtain ⟨m, hmx, hk⟩ := maxHosts_spec hsel
  unfold expandHostsMax
  simp only [hmx, R.bind_ok, R.pure_eq]
  refine ⟨_, rfl, hd, hsel, hf, hset, ?_, hm.2.1, hm.2.2⟩
  intro h0
  have := (hk 0 h0).1
  omega

theorem inv_contractHosts (h : Inv ⟨a, l⟩) : Inv ⟨contractHosts a, l⟩ := by
  obtain ⟨hd, hsel, hf, hset, hm⟩ := h.parts
  unfold contractHosts
  cases hma : a.maxAddrs with
  | none => exact ⟨hd, hsel, hf, hset, hm⟩
  | some i =>
    simp only []
    split
    · exact ⟨hd, hsel, hf, hset, by simp; omega, hm.2.1, hm.2.2⟩
    · exact ⟨hd, hsel, hf, hset, by simp, hm.2.1, hm.2.2⟩

theorem inv_contractHostsMin (h : Inv ⟨a, l⟩) : Inv ⟨contractHostsMin a, l⟩ :=
  ⟨h.1, h.2.1, h.2.2.1, h.2.2.2.1, by simp [contractHostsMin], h.2.2.2.2.2.1, h.2.2.2.2.2.2⟩

theorem inv_toggleHopDetails (h : Inv ⟨a, l⟩) : Inv ⟨toggleHopDetails a, l⟩ := by
  refine ⟨h.1, h.2.1, h.2.2.1, h.2.2.2.1, ?_, h.2.2.2.2.2.1, h.2.2.2.2.2.2⟩
  simp only [toggleHopDetails]
  split <;> simp

theorem inv_zoomIn (h : Inv ⟨a, l⟩) : Inv ⟨zoomIn a, l⟩ := by
  unfold zoomIn
  split
  · exact ⟨h.1, h.2.1, h.2.2.1, h.2.2.2.1, h.2.2.2.2.1, by show 1 ≤ a.zoom + 1; omega, h.2.2.2.2.2.2⟩
  · exact h

theorem inv_zoomOut (h : Inv ⟨a, l⟩) : Inv ⟨zoomOut a, l⟩ := by
  unfold zoomOut
  split
  · rename_i hz
    exact ⟨h.1, h.2.1, h.2.2.1, h.2.2.2.1, h.2.2.2.2.1, by show 1 ≤ a.zoom - 1; omega, h.2.2.2.2.2.2⟩
  · exact h

theorem inv_toggleHelp (h : Inv ⟨a, l⟩) : Inv ⟨toggleHelp a, l⟩ := h.parts
theorem inv_toggleSettings (h : Inv ⟨a, l⟩) : Inv ⟨toggleSettings a, l⟩ := h.parts
theorem inv_toggleFreeze (h : Inv ⟨a, l⟩) : Inv ⟨toggleFreeze a, l⟩ := h.parts
theorem inv_toggleChart (h : Inv ⟨a, l⟩) : Inv ⟨toggleChart a, l⟩ := h.parts
theorem inv_toggleMap (h : Inv ⟨a, l⟩) : Inv ⟨toggleMap a, l⟩ := h.parts

/-! ### settings dialog -/

theorem itemCount_pos {tab ncols : Nat} {declared actual : List Nat} (ht : tab < 7)
    (hd : ∀ t, t < 6 → 0 < declared[t]?.getD 0 ∧ declared[t]?.getD 0 ≤ actual[t]?.getD 0) (hn : 0 < ncols) :
    0 < itemCount tab ncols declared := by
  unfold itemCount
  split
  · exact hn
  · exact (hd tab (by omega)).1

theorem setOK_tab0 {tab tab' ncols : Nat} {declared actual : List Nat} {item : Option Nat}
    (h : SetOK tab item ncols declared actual) (ht : tab' < 7) : SetOK tab' (some 0) ncols declared actual :=
  ⟨ht, h.2.1, h.2.2.1, h.2.2.2.1, h.2.2.2.2.1, fun i hi => by
    cases hi; exact itemCount_pos ht h.2.2.2.1 h.2.2.2.2.1⟩

theorem inv_nextSettingsTab (h : Inv ⟨a, l⟩) : Inv ⟨nextSettingsTab a, l⟩ := by
  obtain ⟨hd, hsel, hf, hset, hm⟩ := h.parts
  refine ⟨hd, hsel, hf, setOK_tab0 hset ?_, hm⟩
  show (if a.settingsTabSelected < settingsTabsLen - 1 then a.settingsTabSelected + 1 else a.settingsTabSelected) < 7
  have := hset.1
  by_cases hc : a.settingsTabSelected < settingsTabsLen - 1
  · rw [if_pos hc]; simp only [settingsTabsLen] at hc; omega
  · rw [if_neg hc]; exact this

theorem inv_previousSettingsTab (h : Inv ⟨a, l⟩) : Inv ⟨previousSettingsTab a, l⟩ := by
  obtain ⟨hd, hsel, hf, hset, hm⟩ := h.parts
  refine ⟨hd, hsel, hf, setOK_tab0 hset ?_, hm⟩
  show (if a.settingsTabSelected > 0 then a.settingsTabSelected - 1 else a.settingsTabSelected) < 7
  have := hset.1
  by_cases hc : a.settingsTabSelected > 0
  · rw [if_pos hc]; omega
  · rw [if_neg hc]; exact this

theorem inv_showSettingsColumns (h : Inv ⟨a, l⟩) (i : Nat) (hi : i < 7) : Inv ⟨showSettingsColumns a i, l⟩ := by
  obtain ⟨hd, hsel, hf, hset, hm⟩ := h.parts
  unfold showSettingsColumns
  split
  · exact ⟨hd, hsel, hf, setOK_tab0 hset hi, hm⟩
  · exact ⟨hd, hsel, hf, hset, hm⟩

theorem getSettingsItemsCount_spec
    (hset : SetOK a.settingsTabSelected a.settingSelected a.columns.length a.declared a.actual) :
    getSettingsItemsCount a = .ok (itemCount a.settingsTabSelected a.columns.length a.declared) := by
  unfold getSettingsItemsCount itemCount SETTINGS_TAB_COLUMNS
  by_cases h6 : a.settingsTabSelected = 6
  · simp [h6]
  · have hlt : a.settingsTabSelected < a.declared.length := by rw [hset.2.1]; exact hset.1
    simp [h6, List.getElem?_eq_getElem hlt]

theorem good_nextSettingsItem (h : Inv ⟨a, l⟩) : Good l (nextSettingsItem a) := by
  obtain ⟨hd, hsel, hf, hset, hm⟩ := h.parts
  have hpos := itemCount_pos (ncols := a.columns.length) hset.1 hset.2.2.2.1 hset.2.2.2.2.1
  unfold nextSettingsItem
  simp only [getSettingsItemsCount_spec hset, R.bind_ok, R.pure_eq]
  refine ⟨_, rfl, hd, hsel, hf, ⟨hset.1, hset.2.1, hset.2.2.1, hset.2.2.2.1, hset.2.2.2.2.1, ?_⟩, hm⟩
  intro i hi
  dsimp only at hi ⊢
  cases hs : a.settingSelected with
  | none => simp only [hs, Option.some.injEq] at hi; omega
  | some j =>
    have := hset.2.2.2.2.2 j hs
    simp only [hs, Option.some.injEq] at hi
    split at hi <;> omega

theorem good_previousSettingsItem (h : Inv ⟨a, l⟩) : Good l (previousSettingsItem a) := by
  obtain ⟨hd, hsel, hf, hset, hm⟩ := h.parts
  have hpos := itemCount_pos (ncols := a.columns.length) hset.1 hset.2.2.2.1 hset.2.2.2.2.1
  unfold previousSettingsItem
  simp only [getSettingsItemsCount_spec hset, R.bind_ok, R.pure_eq]
  refine ⟨_, rfl, hd, hsel, hf, ⟨hset.1, hset.2.1, hset.2.2.1, hset.2.2.2.1, hset.2.2.2.2.1, ?_⟩, hm⟩
  intro i hi
  dsimp only at hi ⊢
  cases hs : a.settingSelected with
  | none => simp only [hs, Option.some.injEq] at hi; omega
  | some j =>
    have := hset.2.2.2.2.2 j hs
    simp only [hs, Option.some.injEq] at hi
    split at hi <;> omega

theorem good_toggleColumnVisibility (h : Inv ⟨a, l⟩) : Good l (toggleColumnVisibility a) := by
  obtain ⟨hd, hsel, hf, hset, hm⟩ := h.parts
  unfold toggleColumnVisibility SETTINGS_TAB_COLUMNS
  split
  · rename_i h6
    have h6' : a.settingsTabSelected = 6 := by simpa using h6
    cases hs : a.settingSelected with
    | none => exact ⟨a, rfl, hd, hsel, hf, hset, hm⟩
    | some sel =>
      have hlt := hset.2.2.2.2.2 sel hs
      simp only [itemCount, h6', ↓reduceIte] at hlt
      simp only [columnsToggle, List.getElem?_eq_getElem hlt, R.bind_ok, R.pure_eq]
      refine ⟨_, rfl, hd, hsel, hf, ?_, hm⟩
      dsimp only
      rw [List.length_set, ← hs]; exact hset
  · exact ⟨a, rfl, hd, hsel, hf, hset, hm⟩

theorem good_moveColumnDown (h : Inv ⟨a, l⟩) : Good l (moveColumnDown a) := by
  obtain ⟨hd, hsel, hf, hset, hm⟩ := h.parts
  unfold moveColumnDown SETTINGS_TAB_COLUMNS
  split
  · rename_i h6
    have h6' : a.settingsTabSelected = 6 := by simpa using h6
    cases hs : a.settingSelected with
    | none => exact ⟨a, rfl, hd, hsel, hf, hset, hm⟩
    | some sel =>
      have hlt := hset.2.2.2.2.2 sel hs
      have hn := hset.2.2.2.2.1
      simp only [itemCount, h6', ↓reduceIte] at hlt
      simp only []
      have hne0 : ¬ ((a.columns.length == 0) = true) := by
        rw [beq_iff_eq]; omega
      rw [if_neg hne0]
      split
      · rename_i hlt2
        simp only [columnsMoveDown, hlt, ↓reduceIte, show sel + 1 < a.columns.length by omega, R.bind_ok, R.pure_eq]
        refine ⟨_, rfl, hd, hsel, hf, ?_, hm⟩
        dsimp only
        rw [length_swapAdj]
        exact ⟨hset.1, hset.2.1, hset.2.2.1, hset.2.2.2.1, hset.2.2.2.2.1, fun i hi => by
          cases hi; simp only [itemCount, h6', ↓reduceIte]; omega⟩
      · exact ⟨a, rfl, hd, hsel, hf, hset, hm⟩
  · exact ⟨a, rfl, hd, hsel, hf, hset, hm⟩

theorem good_moveColumnUp (h : Inv ⟨a, l⟩) : Good l (moveColumnUp a) := by
  obtain ⟨hd, hsel, hf, hset, hm⟩ := h.parts
  unfold moveColumnUp SETTINGS_TAB_COLUMNS
  split
  · rename_i h6
    have h6' : a.settingsTabSelected = 6 := by simpa using h6
    cases hs : a.settingSelected with
    | none => exact ⟨a, rfl, hd, hsel, hf, hset, hm⟩
    | some sel =>
      have hlt := hset.2.2.2.2.2 sel hs
      simp only [itemCount, h6', ↓reduceIte] at hlt
      simp only []
      split
      · rename_i hgt
        simp only [columnsMoveUp, hgt, hlt, ↓reduceIte, R.bind_ok, R.pure_eq]
        refine ⟨_, rfl, hd, hsel, hf, ?_, hm⟩
        dsimp only
        rw [length_swapAdj]
        exact ⟨hset.1, hset.2.1, hset.2.2.1, hset.2.2.2.1, hset.2.2.2.2.1, fun i hi => by
          cases hi; simp only [itemCount, h6', ↓reduceIte]; omega⟩
      · exact ⟨a, rfl, hd, hsel, hf, hset, hm⟩
  · exact ⟨a, rfl, hd, hsel, hf, hset, hm⟩

end handlers

/-! ## System level: data updates, prologue, frame, key dispatch -/

theorem inv_data {s : Sys} (h : Inv s) (k : Nat) (sh : Shape) (w : Shape.WF sh) :
    Inv { s with live := s.live.set k sh } := by
  obtain ⟨⟨ws, lw, ll, lt⟩, hsel, hf, hset, hm⟩ := h
  refine ⟨⟨ws, ?_, by simp only [List.length_set]; exact ll, lt⟩, hsel, hf, hset, hm⟩
  intro sh' hm'
  rcases List.mem_or_eq_of_mem_set hm' with h1 | h1
  · exact lw sh' h1
  · rw [h1]; exact w

theorem live_get {s : Sys} (h : Inv s) : ∃ sh, s.live[s.app.traceSelected]? = some sh ∧ Shape.WF sh := by
  obtain ⟨⟨_, lw, ll, lt⟩, _⟩ := h
  have hlt : s.app.traceSelected < s.live.length := by rw [ll]; exact lt
  exact ⟨_, List.getElem?_eq_getElem hlt, lw _ (List.getElem_mem hlt)⟩

theorem clearTraceData_ok {s : Sys} (h : Inv s) : ∃ s', clearTraceData s = .ok s' ∧ Inv s' := by
  obtain ⟨sh, hget, _⟩ := live_get h
  unfold clearTraceData
  rw [hget]
  exact ⟨_, rfl, inv_data h _ _ (wf_cleared _)⟩

theorem updateOrderFlowCounts_spec (a : App) (w : Shape.WF a.snap) :
    ∃ fc, updateOrderFlowCounts a = .ok { a with flowCounts := fc } ∧
      (∀ x ∈ fc, x.1 ≠ 0 ∧ (findFlow a.snap x.1).isSome = true) ∧
      (∀ f ∈ registry a.snap, (findPos f.id fc).isSome = true) := by
  obtain ⟨cs, hcs, hlen, h1, h2⟩ := flowCountsOf_ok a.snap (registry a.snap) (fun f hf => (mem_registry.mp hf).1)
  have htake : (sortFlows cs).take a.snap.maxFlows = sortFlows cs :=
    List.take_of_length_le (by rw [length_sortFlows, hlen]; exact w.2.2.1)
  refine ⟨sortFlows cs, by simp [updateOrderFlowCounts, hcs, htake], ?_, ?_⟩
  · intro x hx
    obtain ⟨f, hf, e⟩ := h1 x (mem_sortFlows.mp hx)
    obtain ⟨hm, hne⟩ := mem_registry.mp hf
    rw [e]; exact ⟨hne, findFlow_isSome_of_mem hm⟩
  · intro f hf
    obtain ⟨x, hx, e⟩ := h2 f hf
    exact findPos_isSome.mpr ⟨x, mem_sortFlows.mpr hx, e⟩

theorem prologue_ok {s : Sys} (h : Inv s) : ∃ s', prologue true s = .ok s' ∧ Inv s' := by
  unfold prologue
  split
  · exact ⟨s, rfl, h⟩
  · obtain ⟨sh, hget, wsh⟩ := live_get h
    obtain ⟨⟨_, lw, ll, lt⟩, _, hf, hset, hm⟩ := h
    obtain ⟨y, hy, hsel, _, hsf⟩ :=
      clampCore_spec wsh ⟨s.app.selectedFlow, s.app.showFlows, s.app.selected, s.app.selectedHopAddress⟩
    obtain ⟨fc, hfc, hfc1, hfc2⟩ := updateOrderFlowCounts_spec
      { s.app with snap := sh, selectedFlow := y.flow, showFlows := y.showFlows, selected := y.sel,
                   selectedHopAddress := y.addr } wsh
    refine ⟨{ s with app := { s.app with snap := sh, selectedFlow := y.flow, showFlows := y.showFlows,
                                          selected := y.sel, selectedHopAddress := y.addr, flowCounts := fc } },
      by simp [snapshotTraceData, hget, clampSelectedHop, hy, hfc], ⟨wsh, lw, ll, lt⟩, hsel,
      ⟨hfc1, hfc2, ?_⟩, hset, hm⟩
    intro (ht : y.showFlows = true)
    obtain ⟨h1, h2⟩ := hsf ht
    show y.flow ≠ 0
    rw [h2]; exact hf.2.2 h1

theorem selectedHopOrTarget_ok {a : App}
    (hsel : SelOK a.snap a.selectedFlow a.selected a.selectedHopAddress) : selectedHopOrTarget a = .ok () := by
  have hp := selOK_present hsel
  obtain ⟨hs, hh, hl, _⟩ := hsel
  unfold selectedHopOrTarget
  cases hs' : a.selected with
  | none => exact touchFlow_ok hp
  | some i => simp [hh, hl i hs']

theorem frameIndexUses_ok {s : Sys} (h : Inv s) : frameIndexUses s.app = .ok () := by
  obtain ⟨⟨ws, _, _, lt⟩, hsel, _, hset, hm⟩ := h
  have hsot := selectedHopOrTarget_ok hsel
  have hp := selOK_present hsel
  obtain ⟨hs, hh, hl, had⟩ := id hsel
  obtain ⟨f0, _, hh0⟩ := hopsForFlow_of_present ws.1
  have hz : (s.app.zoom == 0) = false := by
    have := hm.2.1
    cases hzz : s.app.zoom == 0 with
    | false => rfl
    | true => rw [beq_iff_eq] at hzz; omega
  have hma : (s.app.maxAddrs == some 0) = false := by
    cases hmm : s.app.maxAddrs == some 0 with
    | false => rfl
    | true => rw [beq_iff_eq] at hmm; exact absurd hmm hm.1
  have htab : tableRows s.app hs = .ok () := by
    unfold tableRows
    split
    · rfl
    · obtain ⟨hs2, hh2, hcase⟩ := selectedHop_spec hsel s.app rfl rfl rfl
      rcases hcase with ⟨_, hn⟩ | ⟨i, hop, _, _, hsome⟩
      · simp [hn, touchFlow_ok hp, hma]
      · simp [hsome, touchFlow_ok hp, hma]
  have hset' : s.app.settingsTabSelected < settingsTabsLen := hset.1
  unfold frameIndexUses
  simp only [tracerConfig, lt, ↓reduceIte, hh, hh0, hsot, hz, htab, hset', R.bind_ok, R.pure_eq]
  cases s.app.snap.err <;> cases f0.hops.isEmpty <;> cases s.app.showChart <;> cases s.app.showMap <;>
    cases s.app.showSettings <;> simp

theorem frame_ok {s : Sys} (h : Inv s) : ∃ s', frame true s = .ok s' ∧ Inv s' := by
  obtain ⟨s1, h1, hi1⟩ := prologue_ok h
  exact ⟨s1, by simp [frame, h1, frameIndexUses_ok hi1], hi1⟩

theorem onApp_ok {s : Sys} {r : R App} (h : Good s.live r) :
    ∃ s' q, onApp s r = .ok (s', q) ∧ Inv s' := by
  obtain ⟨a', hr, hi⟩ := h
  exact ⟨{ s with app := a' }, 0, by simp [onApp, hr], hi⟩

theorem settingsTab_lt {c : Cmd} {i : Nat} (h : c.settingsTab? = some i) : i < 7 := by
  cases c <;> simp [Cmd.settingsTab?] at h <;> omega

theorem dispatch_ok {s : Sys} (h : Inv s) (c : Cmd) : ∃ s' q, dispatch true c s = .ok (s', q) ∧ Inv s' := by
  have stay : ∃ s' q, (R.ok (s, 0) : R (Sys × Nat)) = .ok (s', q) ∧ Inv s' := ⟨s, 0, rfl, h⟩
  have hh : Inv ⟨s.app, s.live⟩ := h
  unfold dispatch
  simp only []
  split
  · -- help dialog
    cases c <;> first
      | exact onApp_ok (good_ok (inv_toggleHelp hh))
      | exact onApp_ok (good_ok (inv_toggleSettings (inv_toggleHelp hh)))
      | (simp only [Cmd.settingsTab?]; first
          | exact stay
          | exact onApp_ok (good_ok (inv_showSettingsColumns (inv_toggleHelp hh) _ (by decide))))
  · split
    · -- settings dialog
      cases c <;> first
        | exact onApp_ok (good_ok (inv_toggleSettings hh))
        | exact onApp_ok (good_ok (inv_previousSettingsTab hh))
        | exact onApp_ok (good_ok (inv_nextSettingsTab hh))
        | exact onApp_ok (good_nextSettingsItem hh)
        | exact onApp_ok (good_previousSettingsItem hh)
        | exact onApp_ok (good_toggleColumnVisibility hh)
        | exact onApp_ok (good_moveColumnDown hh)
        | exact onApp_ok (good_moveColumnUp hh)
        | (simp only [Cmd.settingsTab?]; first
            | exact stay
            | exact onApp_ok (good_ok (inv_showSettingsColumns hh _ (by decide))))
    · -- hop table
      cases c <;> first
        | exact stay
        | exact ⟨s, 1, rfl, h⟩
        | exact ⟨s, 2, rfl, h⟩
        | exact onApp_ok (good_ok (inv_toggleHelp hh))
        | exact onApp_ok (good_ok (inv_toggleSettings hh))
        | exact onApp_ok (good_nextHop hh)
        | exact onApp_ok (good_previousHop hh)
        | (simp only []; split
           · exact onApp_ok (good_previousFlow hh)
           · exact onApp_ok (good_ok (inv_previousTrace hh)))
        | (simp only []; split
           · exact onApp_ok (good_nextFlow hh)
           · exact onApp_ok (good_ok (inv_nextTrace hh)))
        | exact onApp_ok (good_nextHopAddress hh)
        | exact onApp_ok (good_previousHopAddress hh)
        | exact onApp_ok (good_ok (inv_toggleFreeze hh))
        | exact onApp_ok (good_ok (inv_toggleChart hh))
        | exact onApp_ok (good_ok (inv_toggleMap hh))
        | exact onApp_ok (good_toggleFlows hh)
        | exact onApp_ok (good_expandPrivacy hh)
        | exact onApp_ok (good_ok (inv_contractPrivacy hh))
        | exact onApp_ok (good_ok (inv_contractHostsMin hh))
        | exact onApp_ok (good_expandHostsMax hh)
        | exact onApp_ok (good_ok (inv_contractHosts hh))
        | exact onApp_ok (good_expandHosts hh)
        | exact onApp_ok (good_ok (inv_zoomIn hh))
        | exact onApp_ok (good_ok (inv_zoomOut hh))
        | exact onApp_ok (good_ok (inv_clearSel hh))
        | exact onApp_ok (good_ok (inv_toggleHopDetails hh))
        | (simp only [Cmd.settingsTab?]; first
            | exact stay
            | exact onApp_ok (good_ok (inv_showSettingsColumns hh _ (by decide))))
        | (obtain ⟨s', hs', hi'⟩ := clearTraceData_ok (s := { s with app := clearSel s.app }) (inv_clearSel hh)
           refine ⟨s', 0, ?_, hi'⟩
           simp [hs'])

/-! ## C17 for the patched code -/

/-- The operations C17 quantifies over: the tracer thread may replace the state of any live
tracer by *any* well-formed state (a superset of "a round was aggregated", "the trace was
cleared", "an error was recorded": no monotonicity is assumed), the user may press any key of
the binding table, a frame may be drawn (at any terminal size: the size takes no part in any
index expression). -/
def OpOK : Op → Prop
  | .data _ sh => Shape.WF sh
  | _ => True

theorem step_ok {s : Sys} (h : Inv s) {op : Op} (ho : OpOK op) : ∃ s', step true s op = .ok s' ∧ Inv s' := by
  cases op with
  | data k sh => exact ⟨_, rfl, inv_data h k sh ho⟩
  | key c =>
    obtain ⟨s', q, hd, hi⟩ := dispatch_ok h c
    exact ⟨s', by simp [step, hd], hi⟩
  | frame => exact frame_ok h

theorem steps_ok : ∀ (ops : List Op) {s : Sys}, Inv s → (∀ op ∈ ops, OpOK op) →
    ∃ s', steps true s ops = .ok s' ∧ Inv s'
  | [], s, h, _ => ⟨s, rfl, h⟩
  | op :: ops, s, h, ho => by
    obtain ⟨s1, h1, hi1⟩ := step_ok h (ho op (List.mem_cons_self ..))
    obtain ⟨s2, h2, hi2⟩ := steps_ok ops hi1 (fun o hm => ho o (List.mem_cons_of_mem _ hm))
    exact ⟨s2, by simp [steps, h1, h2], hi2⟩

/-- What `TuiApp::new` is given: at least one trace, the validated configuration
(`--tui-max-addrs 0` is mapped to `None` by the configuration layer, the privacy ttl is a `u8`),
at least one column, and `settings_tabs()` consistent with what `format_all_settings` renders
(the harness compares the two on every run). -/
structure CfgOK (n : Nat) (live : List Shape) (privacy maxAddrs : Option Nat)
    (columns : List (Char × Bool)) (declared actual : List Nat) : Prop where
  traces : 0 < n
  liveLen : live.length = n
  liveWF : ∀ sh ∈ live, Shape.WF sh
  privacy : ∀ p, privacy = some p → p ≤ 255
  maxAddrs : maxAddrs ≠ some 0
  columns : 0 < columns.length
  declLen : declared.length = 7
  actLen : actual.length = 7
  counts : ∀ t, t < 6 → 0 < declared[t]?.getD 0 ∧ declared[t]?.getD 0 ≤ actual[t]?.getD 0

theorem inv_init {n mf : Nat} {live : List Shape} {privacy maxAddrs : Option Nat}
    {columns : List (Char × Bool)} {declared actual : List Nat}
    (c : CfgOK n live privacy maxAddrs columns declared actual) :
    Inv (initSys n mf live privacy maxAddrs columns declared actual) := by
  refine ⟨⟨wf_cleared mf, c.liveWF, c.liveLen, c.traces⟩, ?_, ?_, ?_, ?_⟩
  · exact ⟨[], rfl, by simp [initSys], zero_lt_max1 _⟩
  · refine ⟨by simp [initSys], ?_, by simp [initSys]⟩
    intro f hf
    simp [initSys, registry, Shape.cleared] at hf
  · exact ⟨by simp [initSys], c.declLen, c.actLen, c.counts, c.columns, by simp [initSys]⟩
  · exact ⟨c.maxAddrs, by simp [initSys], c.privacy⟩

/-- the number of items `format_all_settings` renders for a tab -/
def renderedCount (a : App) : Nat :=
  if a.settingsTabSelected = 6 then a.columns.length else a.actual[a.settingsTabSelected]?.getD 0

/-- "The selected hop, hop address, flow, trace, settings tab and settings item always refer to
entries that exist in the data being displayed." -/
structure Valid (s : Sys) : Prop where
  flow : (findFlow s.app.snap s.app.selectedFlow).isSome = true
  hop : ∃ hs, hopsForFlow s.app.snap s.app.selectedFlow = .ok hs ∧
          (∀ i, s.app.selected = some i → i < hs.length) ∧
          s.app.selectedHopAddress < max 1 (addrCountAt hs s.app.selected)
  flowTab : s.app.showFlows = true → (findPos s.app.selectedFlow s.app.flowCounts).isSome = true
  trace : s.app.traceSelected < s.app.nTraces ∧ s.app.nTraces = s.live.length
  tab : s.app.settingsTabSelected < 7
  item : ∀ i, s.app.settingSelected = some i → i < renderedCount s.app

theorem valid_of_inv {s : Sys} (h : Inv s) : Valid s := by
  obtain ⟨⟨_, _, ll, lt⟩, hsel, hf, hset, _⟩ := h
  refine ⟨selOK_present hsel, hsel, fun hs => flow_in_counts hf hsel hs, ⟨lt, ll.symm⟩, hset.1, ?_⟩
  intro i hi
  have := hset.2.2.2.2.2 i hi
  unfold itemCount at this
  unfold renderedCount
  split
  · rename_i h6; rwa [if_pos h6] at this
  · rename_i h6
    rw [if_neg h6] at this
    exact Nat.lt_of_lt_of_le this (hset.2.2.2.1 _ (by have := hset.1; omega)).2

/-- **C17 (index state), patched code.**  From any initial configuration, for every interleaving
of data updates, keys and frames: no modelled method panics (every operation returns normally)
and every selection is valid after every operation — in particular at every frame.

Scope: the statement is about the index-state model of `Model/Tui.lean` (all `TuiApp` methods,
prologue, key dispatch, and the index expressions of the render functions).  The drawing code of
ratatui itself is not modelled; it is exercised by the harness (`tvh tui`) at terminal sizes
1x1 … 300x100. -/
theorem no_panic_and_valid {n mf : Nat} {live : List Shape} {privacy maxAddrs : Option Nat}
    {columns : List (Char × Bool)} {declared actual : List Nat}
    (c : CfgOK n live privacy maxAddrs columns declared actual)
    (ops : List Op) (ho : ∀ op ∈ ops, OpOK op) :
    ∀ pre suf, ops = pre ++ suf →
      ∃ s', steps true (initSys n mf live privacy maxAddrs columns declared actual) pre = .ok s' ∧
        Inv s' ∧ Valid s' := by
  intro pre suf e
  obtain ⟨s', h1, h2⟩ := steps_ok pre (inv_init (mf := mf) c)
    (fun o hm => ho o (by rw [e]; exact List.mem_append_left _ hm))
  exact ⟨s', h1, h2, valid_of_inv h2⟩

/-- no operation sequence ends in a panic (patched code) -/
theorem no_panic {n mf : Nat} {live : List Shape} {privacy maxAddrs : Option Nat}
    {columns : List (Char × Bool)} {declared actual : List Nat}
    (c : CfgOK n live privacy maxAddrs columns declared actual)
    (ops : List Op) (ho : ∀ op ∈ ops, OpOK op) :
    steps true (initSys n mf live privacy maxAddrs columns declared actual) ops ≠ .panic := by
  obtain ⟨s', h1, _⟩ := no_panic_and_valid (mf := mf) c ops ho ops [] (by simp)
  rw [h1]; intro h; cases h

/-- a frame drawn from a state satisfying the invariant completes and shows valid selections -/
theorem frame_valid {s : Sys} (h : Inv s) : ∃ s', frame true s = .ok s' ∧ Valid s' := by
  obtain ⟨s', h1, h2⟩ := frame_ok h
  exact ⟨s', h1, valid_of_inv h2⟩

/-- a key handled in a state satisfying the invariant completes and leaves valid selections -/
theorem key_valid {s : Sys} (h : Inv s) (c : Cmd) : ∃ s' q, dispatch true c s = .ok (s', q) ∧ Valid s' := by
  obtain ⟨s', q, h1, h2⟩ := dispatch_ok h c
  exact ⟨s', q, h1, valid_of_inv h2⟩

/-! ## C17 is false for the code as it stands (`fx = false`): concrete witnesses -/

def cols0 : List (Char × Bool) := List.replicate 27 ('x', true)
def decl0 : List Nat := [10, 18, 5, 1, 37, 33, 0]
def act0 : List Nat := [10, 18, 5, 1, 38, 33, 27]
/-- one trace, default configuration -/
def sys0 : Sys := initSys 1 64 [Shape.cleared 64] none none cols0 decl0 act0

theorem cfg0 : CfgOK 1 [Shape.cleared 64] none none cols0 decl0 act0 where
  traces := by decide
  liveLen := rfl
  liveWF := by intro sh h; simp at h; subst h; exact wf_cleared 64
  privacy := by intro p h; cases h
  maxAddrs := by intro h; cases h
  columns := by decide
  declLen := rfl
  actLen := rfl
  counts := by
    intro t ht
    have : t = 0 ∨ t = 1 ∨ t = 2 ∨ t = 3 ∨ t = 4 ∨ t = 5 := by omega
    rcases this with rfl | rfl | rfl | rfl | rfl | rfl <;> decide

def hop (ttl addrs : Nat) : HopS := ⟨ttl, addrs⟩
/-- three responding hops, one flow -/
def shA : Shape := ⟨false, 64, [⟨0, 1, [hop 1 1, hop 2 1, hop 3 1]⟩, ⟨1, 1, [hop 1 1, hop 2 1, hop 3 1]⟩]⟩
/-- hop 1 silent, hop 2 responding -/
def shC : Shape := ⟨false, 64, [⟨0, 1, [hop 1 0, hop 2 1]⟩, ⟨1, 1, [hop 1 0, hop 2 1]⟩]⟩
/-- two silent hops -/
def shD1 : Shape := ⟨false, 64, [⟨0, 1, [hop 1 0, hop 2 0]⟩, ⟨1, 1, [hop 1 0, hop 2 0]⟩]⟩
/-- … then hop 1 answers -/
def shD2 : Shape := ⟨false, 64, [⟨0, 2, [hop 1 1, hop 2 0]⟩, ⟨1, 2, [hop 1 1, hop 2 0]⟩]⟩
/-- flow 1 with four hops (two rounds), flow 2 with two hops (one round) -/
def shE : Shape := ⟨false, 64, [⟨0, 3, [hop 1 2, hop 2 2, hop 3 1, hop 4 1]⟩,
  ⟨1, 2, [hop 1 1, hop 2 1, hop 3 1, hop 4 1]⟩, ⟨2, 1, [hop 1 1, hop 2 1]⟩]⟩
/-- flow 1 with two hops, flow 2 with four -/
def shF : Shape := ⟨false, 64, [⟨0, 2, [hop 1 2, hop 2 2, hop 3 1, hop 4 1]⟩,
  ⟨1, 1, [hop 1 1, hop 2 1]⟩, ⟨2, 1, [hop 1 1, hop 2 1, hop 3 1, hop 4 1]⟩]⟩
/-- `max_flows = 1`: four hops, the last with three addresses -/
def shG1 : Shape := ⟨false, 1, [⟨0, 3, [hop 1 1, hop 2 1, hop 3 1, hop 4 3]⟩, ⟨1, 3, [hop 1 1, hop 2 1, hop 3 1, hop 4 3]⟩]⟩
def shG2 : Shape := ⟨false, 1, [⟨0, 1, [hop 1 1, hop 2 1]⟩, ⟨1, 1, [hop 1 1, hop 2 1]⟩]⟩

theorem witness_shapes_wf : Shape.WF shA ∧ Shape.WF shC ∧ Shape.WF shD1 ∧ Shape.WF shD2 ∧ Shape.WF shE ∧
    Shape.WF shF ∧ Shape.WF shG1 ∧ Shape.WF shG2 :=
  ⟨(wfB_iff _).mp (by decide), (wfB_iff _).mp (by decide), (wfB_iff _).mp (by decide), (wfB_iff _).mp (by decide),
   (wfB_iff _).mp (by decide), (wfB_iff _).mp (by decide), (wfB_iff _).mp (by decide), (wfB_iff _).mp (by decide)⟩

open Op Cmd in
/-- F11(a): flows shown, trace data cleared (ctrl-r) ⇒ `hops_for_flow(FlowId(1))`: no entry found for key -/
def opsA : List Op := [data 0 shA, frame, key toggleFlows, frame, key clearTraceData, frame]
open Op Cmd in
/-- F11(b): frozen, cleared, a hop of the stale snapshot selected, unfrozen ⇒ `hop_count - 1` underflows -/
def opsB : List Op := [data 0 shA, frame, key toggleFreeze, frame, key clearTraceData, frame, key nextHop, frame,
  key toggleFreeze, frame]
open Op Cmd in
/-- F11(c): `next_hop_address` on a selected hop without responses ⇒ `addr_count() - 1` underflows -/
def opsC : List Op := [data 0 shC, frame, key nextHop, frame, key nextHopAddress]
open Op Cmd in
/-- (d): `expand_hosts_max` while no hop has answered sets `max_addrs = Some(0)`; the next response
makes `render_hostname` evaluate `clamp(1, 0)` -/
def opsD : List Op := [data 0 shD1, frame, key expandHostsMax, frame, data 0 shD2, frame]
open Op Cmd in
/-- (e): frozen, switching to a shorter flow leaves the selected hop past its end ⇒ index out of bounds -/
def opsE : List Op := [data 0 shE, frame, key toggleFlows, frame, key previousHop, frame, key toggleFreeze, frame,
  key nextTrace, frame]
open Op Cmd in
/-- (f): frozen, opening the flows view with the selected hop past the end of flow 1 -/
def opsF : List Op := [data 0 shF, frame, key previousHop, frame, key toggleFreeze, frame, key toggleFlows, frame]
open Op Cmd in
/-- (g): no panic, but a hop address index that refers to nothing: frozen, cleared, last hop of the
stale snapshot and its third address selected, unfrozen over a shorter path -/
def opsG : List Op := [data 0 shG1, frame, key toggleFreeze, frame, key clearTraceData, frame, key previousHop, frame,
  key nextHopAddress, frame, key nextHopAddress, frame, data 0 shG2, key toggleFreeze, frame]

theorem current_panics_a : steps false sys0 opsA = .panic := by decide
theorem current_panics_b : steps false sys0 opsB = .panic := by decide
theorem current_panics_c : steps false sys0 opsC = .panic := by decide
theorem current_panics_d : steps false sys0 opsD = .panic := by decide
theorem current_panics_e : steps false sys0 opsE = .panic := by decide
theorem current_panics_f : steps false sys0 opsF = .panic := by decide

/-- the state the current code reaches on `opsG` -/
def sG : Sys := match steps false sys0 opsG with
  | .ok s => s
  | _ => sys0

theorem current_invalid_g : steps false sys0 opsG = .ok sG ∧
    sG.app.selected = some 1 ∧ sG.app.selectedHopAddress = 2 ∧
    hopsForFlow sG.app.snap sG.app.selectedFlow = .ok [hop 1 1, hop 2 1] :=
  ⟨by decide, by decide, by decide, by decide⟩

theorem witness_ops_ok : (∀ op ∈ opsA, OpOK op) ∧ (∀ op ∈ opsB, OpOK op) ∧ (∀ op ∈ opsC, OpOK op) ∧
    (∀ op ∈ opsD, OpOK op) ∧ (∀ op ∈ opsE, OpOK op) ∧ (∀ op ∈ opsF, OpOK op) ∧ (∀ op ∈ opsG, OpOK op) := by
  obtain ⟨a, c, d1, d2, e, f, g1, g2⟩ := witness_shapes_wf
  refine ⟨?_, ?_, ?_, ?_, ?_, ?_, ?_⟩
  · simp [opsA, OpOK, a]
  · simp [opsB, OpOK, a]
  · simp [opsC, OpOK, c]
  · simp [opsD, OpOK, d1, d2]
  · simp [opsE, OpOK, e]
  · simp [opsF, OpOK, f]
  · simp [opsG, OpOK, g1, g2]

/-- **C17 does not hold for the current code**: there are admissible operation sequences on which
a method panics. -/
theorem current_code_panics :
    ¬ (∀ ops : List Op, (∀ op ∈ ops, OpOK op) → steps false sys0 ops ≠ .panic) := by
  intro h
  exact h opsA witness_ops_ok.1 current_panics_a

/-- … and one on which nothing panics but a selection refers to nothing. -/
theorem current_code_invalid_selection :
    ¬ (∀ ops : List Op, (∀ op ∈ ops, OpOK op) → ∀ s', steps false sys0 ops = .ok s' → Valid s') := by
  intro h
  obtain ⟨hs, hsel, haddr, hhops⟩ := current_invalid_g
  obtain ⟨hs2, hh2, _, hlt⟩ := (h opsG witness_ops_ok.2.2.2.2.2.2 sG hs).hop
  rw [hhops] at hh2
  cases hh2
  rw [hsel, haddr] at hlt
  revert hlt
  decide

/-- the same sequences are harmless for the patched code -/
theorem patched_ok_on_witnesses :
    (∃ s, steps true sys0 opsA = .ok s ∧ Valid s) ∧ (∃ s, steps true sys0 opsB = .ok s ∧ Valid s) ∧
    (∃ s, steps true sys0 opsC = .ok s ∧ Valid s) ∧ (∃ s, steps true sys0 opsD = .ok s ∧ Valid s) ∧
    (∃ s, steps true sys0 opsE = .ok s ∧ Valid s) ∧ (∃ s, steps true sys0 opsF = .ok s ∧ Valid s) ∧
    (∃ s, steps true sys0 opsG = .ok s ∧ Valid s) := by
  have k : ∀ ops, (∀ op ∈ ops, OpOK op) → ∃ s, steps true sys0 ops = .ok s ∧ Valid s := by
    intro ops ho
    obtain ⟨s', h1, _, h3⟩ := no_panic_and_valid (mf := 64) cfg0 ops ho ops [] (by simp)
    exact ⟨s', h1, h3⟩
  obtain ⟨a, b, c, d, e, f, g⟩ := witness_ops_ok
  exact ⟨k _ a, k _ b, k _ c, k _ d, k _ e, k _ f, k _ g⟩

/-- once the integrator has applied the patch and flipped `Tui.codeIsFixed`, the model the driver
runs (`TuiIO.handle`) is the one the theorems are about -/
theorem no_panic_driver (hsw : codeIsFixed = true) {n mf : Nat} {live : List Shape} {privacy maxAddrs : Option Nat}
    {columns : List (Char × Bool)} {declared actual : List Nat}
    (c : CfgOK n live privacy maxAddrs columns declared actual)
    (ops : List Op) (ho : ∀ op ∈ ops, OpOK op) :
    steps codeIsFixed (initSys n mf live privacy maxAddrs columns declared actual) ops ≠ .panic := by
  rw [hsw]; exact no_panic c ops ho

end TV.Props.C17

#print axioms TV.Props.C17.no_panic_and_valid
#print axioms TV.Props.C17.no_panic
#print axioms TV.Props.C17.frame_valid
#print axioms TV.Props.C17.key_valid
#print axioms TV.Props.C17.current_code_panics
#print axioms TV.Props.C17.current_code_invalid_selection
#print axioms TV.Props.C17.patched_ok_on_witnesses
#print axioms TV.Props.C17.current_panics_b
#print axioms TV.Props.C17.current_panics_c
#print axioms TV.Props.C17.current_panics_d
#print axioms TV.Props.C17.current_panics_e
#print axioms TV.Props.C17.current_panics_f
#print axioms TV.Props.C17.current_panics_a
#print axioms TV.Props.C17.no_panic_driver
#print axioms TV.Props.C17.wfB_iff
