import TrippyVerif.Lemmas.StateAgg
/-
C19 (aggregator half) — "NAT is flagged at the first hop that sees a rewritten datagram"

Within each round a responding hop (with both checksums present) is reported NAT-detected exactly
when the UDP checksum of the datagram it quotes differs from that quoted by the previous responding
hop (or, for the first responding hop, from the expected checksum); all other responding hops report
not-detected; hops whose probes carry no checksums keep not-applicable.

Model : `TV.Agg.{FlowState.applyRound, natStatus, Updater.prevHopChecksum}` (Model/StateAgg.lean)
Spec  : `TV.Reagg.{ckPair, lastCk, natOf}` – positional: the reference checksum of a response is the
        checksum quoted by the last checksum-carrying response *before it in the round* (`lastCk`),
        else its own expected checksum.

"Responding hop" = a completed probe; the probes of a `RoundWF` round have strictly ascending
ttls, so "previous responding hop" = previous completed probe (with checksums) in probe order, and
each hop receives at most one outcome per round.  All statements hold for every number type `F`.
The wire half (which responses carry checksums, `expected` = the checksum as dispatched) is a
separate property.
-/
namespace TV.Props.C19
open TV TV.Strat TV.Agg TV.Reagg

variable {F : Type} [Num F]

/-- (1) The status set by a completed probe that carries both checksums: `Detected` iff the quoted
(actual) checksum differs from the reference – the checksum quoted by the previous
checksum-carrying response of the round, or the probe's own expected checksum if there is none –
else `NotDetected`.  Holds for every flow state and every well-formed round. -/
theorem status_of_response (fs : FlowState F) (r : Round) (hlen : fs.hops.length = 254) (hwf : RoundWF r)
    (pre post : List Slot) (c : Complete) (e a : Nat)
    (hsplit : r.probes = pre ++ Slot.complete c :: post) (he : c.expCk = some e) (ha : c.actCk = some a) :
    ∃ fs' hop, fs.applyRound r = .ok fs' ∧ fs'.hops[c.probe.ttl - 1]? = some hop ∧
      (hop.lastNatStatus = .detected ↔ a ≠ (lastCk pre).getD e) ∧
      (hop.lastNatStatus = .notDetected ↔ a = (lastCk pre).getD e) := by
  have htag : tagOf pre (Slot.complete c) post =
      some (c.probe.ttl, .complete c (some (if (lastCk pre).getD e = a then .notDetected else .detected))) := by
    simp [tagOf, natOf, he, ha]
  obtain ⟨fs', hop, h1, h2, h3⟩ := hop_after_round fs r hlen hwf pre post _ _ _ hsplit htag
  refine ⟨fs', _, h1, h3, ?_, ?_⟩ <;>
  · simp only [hopStep]
    by_cases h : (lastCk pre).getD e = a
    · simp [h]
    · simp [h]; exact fun h' => h h'.symm

/-- (2) A completed probe without (both) checksums leaves the hop's status unchanged – on a hop that
never saw checksums it stays `NotApplicable` – and so do awaited and failed probes. -/
theorem status_unchanged_without_checksums (fs : FlowState F) (r : Round) (hlen : fs.hops.length = 254)
    (hwf : RoundWF r) (pre post : List Slot) (s : Slot) (t : Nat) (hsplit : r.probes = pre ++ s :: post)
    (ht : slotTtl s = some t) (hnock : ckPair s = none) :
    ∃ fs' before after, fs.applyRound r = .ok fs' ∧ fs.hops[t - 1]? = some before ∧
      fs'.hops[t - 1]? = some after ∧ after.lastNatStatus = before.lastNatStatus := by
  cases s with
  | notSent => simp [slotTtl] at ht
  | skipped => simp [slotTtl] at ht
  | failed p =>
    simp only [slotTtl, Option.some.injEq] at ht; subst ht
    obtain ⟨fs', hop, h1, h2, h3⟩ := hop_after_round fs r hlen hwf pre post (Slot.failed p) p.ttl (Outcome.failed p) hsplit rfl
    exact ⟨fs', hop, _, h1, h2, h3, rfl⟩
  | awaited p =>
    simp only [slotTtl, Option.some.injEq] at ht; subst ht
    obtain ⟨fs', hop, h1, h2, h3⟩ := hop_after_round fs r hlen hwf pre post (Slot.awaited p) p.ttl
      (Outcome.awaited p (lossOf pre (Slot.awaited p) post)) hsplit rfl
    exact ⟨fs', hop, _, h1, h2, h3, rfl⟩
  | complete c =>
    simp only [slotTtl, Option.some.injEq] at ht; subst ht
    have hn : natOf pre c = none := by
      unfold natOf
      unfold ckPair at hnock
      cases he : c.expCk <;> cases ha : c.actCk <;> simp_all
    obtain ⟨fs', hop, h1, h2, h3⟩ := hop_after_round fs r hlen hwf pre post _ _ _ hsplit
      (show tagOf pre (Slot.complete c) post = some (c.probe.ttl, .complete c none) by simp [tagOf, hn])
    exact ⟨fs', hop, _, h1, h2, h3, rfl⟩

/-- on a fresh state such a hop reports `NotApplicable` -/
theorem fresh_hop_not_applicable (ms : Nat) (t : Nat) (h1 : 1 ≤ t) (h2 : t ≤ 254) :
    ∃ hop, (FlowState.new (F := F) ms).hops[t - 1]? = some hop ∧ hop.lastNatStatus = .notApplicable :=
  ⟨Hop.default, new_hops ms (t - 1) (by omega), rfl⟩

/-- (3) The checksum carried forward is the one quoted by the latest checksum-carrying response:
`nat_status` returns the previous checksum only when it equals the actual one. -/
theorem carried_checksum (expected actual : Nat) (prev : Option Nat) :
    (natStatus expected actual prev).2 = actual ∧
    ((natStatus expected actual prev).1 = .detected ↔ actual ≠ prev.getD expected) := by
  cases prev with
  | none => by_cases h : expected = actual <;> simp [natStatus, h]; exact fun h' => h h'.symm
  | some p => by_cases h : p = actual <;> simp [natStatus, h]; exact fun h' => h h'.symm

/-- (4) No rewriting ⇒ no detection: if every checksum-carrying response of the round quotes the
same value `v` and was expected to (`expected = actual = v`), every one of them is classified
`NotDetected`. -/
theorem no_rewrite_no_detection (probes : List Slot) (v : Nat)
    (hall : ∀ s ∈ probes, ∀ p, ckPair s = some p → p = (v, v))
    (pre post : List Slot) (c : Complete) (hsplit : probes = pre ++ Slot.complete c :: post)
    (hck : (ckPair (Slot.complete c)).isSome) :
    natOf pre c = some .notDetected := by
  obtain ⟨p, hp⟩ := Option.isSome_iff_exists.1 hck
  have hpv := hall _ (by simp [hsplit]) p hp
  subst hpv
  have hlast : (lastCk pre).getD v = v := by
    unfold lastCk
    cases hl : (pre.filterMap ckPair).getLast? with
    | none => rfl
    | some q =>
      obtain ⟨s, hs, hsq⟩ := List.mem_filterMap.1 (List.mem_of_getLast? hl)
      have := hall s (by simp [hsplit, hs]) q hsq
      simp [this]
  unfold ckPair at hp
  unfold natOf
  cases he : c.expCk <;> cases ha : c.actCk <;> simp_all

/-- (5) One rewriting device: if the checksum-carrying responses of `p₁` all have
`expected = actual = v` and those of `p₂` (the probes from the device on) all have `expected = v`,
`actual = w ≠ v`, then in the round `p₁ ++ p₂` exactly the first checksum-carrying response of `p₂`
is `Detected`: those of `p₁` are not, the first of `p₂` is, the later ones of `p₂` are not. -/
theorem single_rewrite_detected_once (p₁ p₂ : List Slot) (v w : Nat) (hvw : w ≠ v)
    (h₁ : ∀ s ∈ p₁, ∀ p, ckPair s = some p → p = (v, v))
    (h₂ : ∀ s ∈ p₂, ∀ p, ckPair s = some p → p = (v, w)) :
    -- before the device
    (∀ pre post c, p₁ = pre ++ Slot.complete c :: post → (ckPair (Slot.complete c)).isSome →
      natOf pre c = some .notDetected) ∧
    -- from the device on: `Detected` iff no checksum-carrying response of `p₂` precedes
    (∀ pre post c, p₂ = pre ++ Slot.complete c :: post → (ckPair (Slot.complete c)).isSome →
      natOf (p₁ ++ pre) c =
        some (if pre.filterMap ckPair = [] then .detected else .notDetected)) := by
  constructor
  · intro pre post c hs hck
    exact no_rewrite_no_detection p₁ v h₁ pre post c hs hck
  · intro pre post c hs hck
    obtain ⟨p, hp⟩ := Option.isSome_iff_exists.1 hck
    have hpv := h₂ _ (by simp [hs]) p hp
    subst hpv
    have hlast : (lastCk (p₁ ++ pre)).getD v = if pre.filterMap ckPair = [] then v else w := by
      unfold lastCk
      rw [List.filterMap_append, List.getLast?_append]
      cases hl : (pre.filterMap ckPair).getLast? with
      | none =>
        have hnil : pre.filterMap ckPair = [] := by simpa using hl
        simp only [hnil, if_true, Option.none_or]
        cases hl1 : (p₁.filterMap ckPair).getLast? with
        | none => rfl
        | some q =>
          obtain ⟨s, hs1, hsq⟩ := List.mem_filterMap.1 (List.mem_of_getLast? hl1)
          simp [h₁ s hs1 q hsq]
      | some q =>
        have hne : pre.filterMap ckPair ≠ [] := by intro h; simp [h] at hl
        obtain ⟨s, hs2, hsq⟩ := List.mem_filterMap.1 (List.mem_of_getLast? hl)
        have := h₂ s (by simp [hs, hs2]) q hsq
        simp [hne, this]
    have hea : c.expCk = some v ∧ c.actCk = some w := by
      unfold ckPair at hp
      cases he : c.expCk <;> cases ha : c.actCk <;> simp_all
    unfold natOf
    simp only [hea.1, hea.2, hlast]
    by_cases hn : pre.filterMap ckPair = []
    · simp [hn]; exact fun h => hvw h.symm
    · simp [hn]

/-! ### non-vacuity -/

def pr (ttl : Nat) : Probe :=
  { seq := 33000 + ttl, ident := 33000 + ttl, srcPort := 5000, destPort := 33434, ttl := ttl, round := 0,
    sent := 0, flags := 0 }
def cp (ttl host : Nat) (e a : Option Nat) : Slot :=
  .complete { probe := pr ttl, host := host, received := 700 + ttl, kind := .timeExceeded 0, tos := none,
              expCk := e, actCk := a, ext := none }
/-- a NAT device between ttl 2 and 3 (the hop at ttl 3 is silent): checksum 0x1234 becomes 0xbeef -/
def exRound : Round :=
  { probes := [cp 1 10 (some 0x1234) (some 0x1234), cp 2 20 (some 0x1234) (some 0x1234), .awaited (pr 3),
               cp 4 40 (some 0x1234) (some 0xbeef), cp 5 50 (some 0x1234) (some 0xbeef), cp 6 7 none none],
    largestTtl := 6, reason := .targetFound }

example : RoundWF exRound := by decide
-- the classification of the six probes: ND ND – D ND (no checksums)
example : (tagSlots [] exRound.probes).map (fun x => (x.1, x.2.nat)) =
    [(1, some .notDetected), (2, some .notDetected), (3, none), (4, some .detected), (5, some .notDetected),
     (6, none)] := by decide
-- the hypotheses of (5) for the split at the device
example : (∀ s ∈ exRound.probes.take 3, ∀ p, ckPair s = some p → p = (0x1234, 0x1234)) ∧
    (∀ s ∈ exRound.probes.drop 3, ∀ p, ckPair s = some p → p = (0x1234, 0xbeef)) := by decide

end TV.Props.C19

#print axioms TV.Props.C19.status_of_response
#print axioms TV.Props.C19.status_unchanged_without_checksums
#print axioms TV.Props.C19.fresh_hop_not_applicable
#print axioms TV.Props.C19.carried_checksum
#print axioms TV.Props.C19.no_rewrite_no_detection
#print axioms TV.Props.C19.single_rewrite_detected_once
