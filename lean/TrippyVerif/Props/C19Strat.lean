import TrippyVerif.Props.C01
import TrippyVerif.Props.C19
/-!
# C19, "every other configuration reports not-applicable": the strategy half

The aggregator derives a hop's NAT status from the two UDP checksums a completed probe carries
(`C19.status_of_response`), and leaves it alone when they are absent
(`C19.status_unchanged_without_checksums`; a fresh hop is `NotApplicable`: `fresh_hop_not_applicable`).
This file proves where checksums can come from at all: **only an IPv4 Dublin trace ever hands them
to the aggregator.**  For every other configuration (`strat ≠ Dublin` or IPv6), in every reachable
state and whatever the network sends, no entry of any published round carries a checksum pair — so
every hop of such a trace stays `NotApplicable` for ever.

The proof goes through the ghost history of C01: a published `Complete` entry is `mkComplete p sr`
for a response `sr = strategyResp c r` that was really accepted (`C01_strategy`), and
`strategyResp` fills the checksum fields for Dublin over IPv4 only.
-/
namespace TV.Props.C19Strat
open TV TV.Strat TV.Props.C01

/-- `StrategyResponse::from` forwards checksums for Dublin over IPv4 only -/
theorem strategyResp_no_checksums {c : Cfg} (h : c.strat ≠ .dublin ∨ c.v6 = true) (r : Resp) :
    (strategyResp c r).expCk = none ∧ (strategyResp c r).actCk = none := by
  have hp : (protoStrategyResp c r.proto).2.2.2.1 = none ∧ (protoStrategyResp c r.proto).2.2.2.2 = none := by
    cases hpr : r.proto with
    | icmp id sq tos => simp [protoStrategyResp]
    | tcp a sp dp tos => simp [protoStrategyResp]
    | udp id x sp dp tos exp act plen y =>
      simp only [protoStrategyResp]
      cases hs : c.strat <;> cases hv : c.v6 <;> simp_all
  unfold strategyResp
  rcases hq : protoStrategyResp c r.proto with ⟨tid, sq, tos, e, a⟩
  rw [hq] at hp
  simp only at hp
  obtain ⟨rfl, rfl⟩ := hp
  cases r.kind <;> simp

/-- … and for Dublin over IPv4 it forwards exactly the pair the response carries -/
theorem strategyResp_checksums_dublin_v4 {c : Cfg} (hs : c.strat = .dublin) (hv : c.v6 = false) (r : Resp)
    (id x sp dp : Nat) (tos : Option Nat) (exp act plen : Nat) (y : Bool)
    (hp : r.proto = .udp id x sp dp tos exp act plen y) :
    (strategyResp c r).expCk = some exp ∧ (strategyResp c r).actCk = some act := by
  unfold strategyResp
  simp only [hp, protoStrategyResp, hs, hv]
  cases r.kind <;> simp

/-- every accepted response of the ghost history is `strategyResp c r` for some response `r` -/
def FromNet (c : Cfg) (g : Ghost) : Prop := ∀ a ∈ g.accepted, ∃ r, a.2 = strategyResp c r

theorem fromNet_step {c : Cfg} {g : Ghost} (h : FromNet c g) (s1 : TS) (e : IterEnv) (o : IterOut) :
    FromNet c (ghostStep c s1 g e o) := by
  unfold ghostStep
  simp only
  split
  · intro a ha; simp at ha
  · intro a ha
    simp only [List.mem_append] at ha
    rcases ha with ha | ha
    · exact h a ha
    · cases hr : e.recv with
      | none => simp [hr] at ha
      | fatal => simp [hr] at ha
      | resp r =>
        simp only [hr] at ha
        cases hg : genuine c s1 r with
        | none => simp [hg] at ha
        | some p => simp [hg] at ha; subst ha; exact ⟨r, rfl⟩

/-- reachable states together with the ghost history of the round in progress -/
inductive ReachG (c : Cfg) : TS → Ghost → Prop
  | init (t0 : Nat) : ReachG c (init c t0) {}
  | step {s s' s1 : TS} {g : Ghost} (e : IterEnv) (o : IterOut) : ReachG c s g →
      iter c s e = .ok (s', o) → sendRequest c s e.sends = .ok (s1, o.sent) →
      ReachG c s' (ghostStep c s1 g e o)

theorem ReachG.reach {c : Cfg} {s : TS} {g : Ghost} (h : ReachG c s g) : Reach c s := by
  induction h with
  | init t0 => exact .init t0
  | step e o _ hit _ ih => exact .step e o ih hit

theorem ReachG.fromNet {c : Cfg} {s : TS} {g : Ghost} (h : ReachG c s g) : FromNet c g := by
  induction h with
  | init t0 => intro a ha; simp at ha
  | step e o _ _ _ ih => exact fromNet_step ih _ e o

theorem ReachG.ginv {c : Cfg} (hc : CfgOk c) {s : TS} {g : Ghost} (h : ReachG c s g) : GInv c s g := by
  induction h with
  | init t0 => exact ginv_init c t0
  | step e o hr hit hsend ih =>
    obtain ⟨s1', h1, hg, _⟩ := C01_strategy hc hr.reach ih hit
    rw [hsend] at h1
    simp only [R.ok.injEq, Prod.mk.injEq, and_true] at h1
    subst h1
    exact hg

/-- every reachable state has a ghost history -/
theorem reach_has_ghost {c : Cfg} (hc : CfgOk c) {s : TS} (h : Reach c s) : ∃ g, ReachG c s g := by
  induction h with
  | init t0 => exact ⟨{}, .init t0⟩
  | step e o hs hit ih =>
    obtain ⟨g, hg⟩ := ih
    obtain ⟨s1, h1, _, _⟩ := C01_strategy hc hs (hg.ginv hc) hit
    exact ⟨_, .step e o hg hit h1⟩

/-- **C19 (strategy half).**  Outside IPv4/Dublin no entry of a published round carries checksums:
    `ckPair slot = none` for every entry — the hypothesis under which
    `C19.status_unchanged_without_checksums` keeps every hop `NotApplicable`. -/
theorem published_round_without_checksums {c : Cfg} (hc : CfgOk c) (hna : c.strat ≠ .dublin ∨ c.v6 = true)
    {s s' : TS} (hs : Reach c s) {e : IterEnv} {o : IterOut} (h : iter c s e = .ok (s', o))
    (r : Round) (hr : o.published = some r) :
    ∀ sl ∈ r.probes, Reagg.ckPair sl = none := by
  obtain ⟨g, hg⟩ := reach_has_ghost hc hs
  obtain ⟨s1, h1, _, hpub⟩ := C01_strategy hc hs (hg.ginv hc) h
  have hfn := fromNet_step hg.fromNet s1 e o
  have hp := hpub r hr
  simp only at hp
  intro sl hsl
  rw [hp] at hsl
  obtain ⟨x, _, hx⟩ := List.mem_map.mp hsl
  cases sl with
  | complete cp =>
    obtain ⟨_, a, ha, _, hcp⟩ := complete_means_answered _ x cp hx
    -- `a` was accepted: either earlier in the round or in this iteration
    have hsr : ∃ rr, a.2 = strategyResp c rr := by
      simp only [List.mem_append] at ha
      rcases ha with ha | ha
      · exact hg.fromNet a ha
      · cases hrv : e.recv with
        | none => simp [hrv] at ha
        | fatal => simp [hrv] at ha
        | resp rs =>
          simp only [hrv] at ha
          cases hgen : genuine c s1 rs with
          | none => simp [hgen] at ha
          | some p => simp [hgen] at ha; subst ha; exact ⟨rs, rfl⟩
    obtain ⟨rr, hrr⟩ := hsr
    obtain ⟨he, hac⟩ := strategyResp_no_checksums hna rr
    subst hcp
    simp [Reagg.ckPair, mkComplete, hrr, he, hac]
  | notSent => rfl
  | skipped => rfl
  | failed p => rfl
  | awaited p => rfl

#print axioms strategyResp_no_checksums
#print axioms strategyResp_checksums_dublin_v4
#print axioms published_round_without_checksums
end TV.Props.C19Strat
