import TrippyVerif.Lemmas.Conc
import TrippyVerif.Gen.Locks
/-!
# C20 — snapshots are round-atomic while the tracer runs

Interleaving semantics: `Model/Conc.lean` (threads, a readers–writer lock, `update_from_round`
split into `m` micro-steps so that it is *not* atomic by itself).  The programs of `handler`,
`snapshot`, `clear` and `handle_error` are translated from tracer.rs on every run
(`Gen/Locks.lean`).  `parking_lot::RwLock` (mutual exclusion of writers with everyone) and the
memory model are assumed, not verified.
-/
namespace TV.Props.C20
open TV.Conc

/-- an initial system: any number of threads, thread `tr` runs the handler program, all others run
snapshot / clear / error programs; nothing applied yet -/
structure Initial (m tr : Nat) (s : Sys) : Prop where
  fresh : s.writer = none ∧ s.readers = [] ∧ s.mem = [] ∧ s.obs = []
  start : ∀ (i : Nat) (t : Th), s.ths[i]? = some t → t.pc = 0 ∧ t.micro = 0 ∧ t.iter = 0 ∧ t.hold = .none
  shapes : ∀ (i : Nat) (t : Th), s.ths[i]? = some t → i ≠ tr →
    t.body = snapshotShape ∨ t.body = clearShape ∨ t.body = errorShape
  tracer : ∃ T, s.ths[tr]? = some T ∧ T.body = handlerShape m

theorem inv_initial {m tr : Nat} {s : Sys} (h : Initial m tr s) : SysInv m tr s := by
  obtain ⟨hw, hr, hm, ho⟩ := h.fresh
  obtain ⟨T, hT, hTb⟩ := h.tracer
  have hne := shapes_ne m
  refine ⟨?_, ⟨T, hT, hTb, 0, Nat.zero_le _, Or.inl ⟨(h.start tr T hT).1, ?_⟩⟩, ?_, ?_, ?_, ?_⟩
  · intro i t hi
    obtain ⟨p, mi, _, hd⟩ := h.start i t hi
    have hshape : t.body = snapshotShape ∨ t.body = clearShape ∨ t.body = errorShape ∨ t.body = handlerShape m := by
      by_cases x : i = tr
      · subst x; rw [hi] at hT; cases hT; exact Or.inr (Or.inr (Or.inr hTb))
      · rcases h.shapes i t hi x with e | e | e
        · exact Or.inl e
        · exact Or.inr (Or.inl e)
        · exact Or.inr (Or.inr (Or.inl e))
    exact ⟨hshape, by omega, fun _ => hd, fun _ x => by omega, fun _ x => by omega, fun _ => mi,
      fun x _ => by omega, by simp [hd, hw], by simp [hd, hr]⟩
  · rw [hm, (h.start tr T hT).2.2.1]; rfl
  · intro i t hi x
    rcases h.shapes i t hi x with e | e | e
    · rw [e]; exact hne.2.2.1
    · rw [e]; exact hne.2.2.2.2.1
    · rw [e]; exact hne.2.2.2.2.2
  · intro i x; rw [hw] at x; cases x
  · rw [hr]; exact List.nodup_nil
  · intro o x; rw [ho] at x; cases x

theorem inv_runSched {m tr : Nat} : ∀ (sched : List Nat) {s : Sys}, SysInv m tr s →
    SysInv m tr (runSched s sched) := by
  intro sched
  induction sched with
  | nil => intro s h; exact h
  | cons i is ih =>
    intro s h
    simp only [runSched]
    cases hs : step s i with
    | none => simpa [hs] using ih h
    | some s' => simpa [hs] using ih (step_inv h i hs)

/-- **C20 (lock model).** In every interleaving (schedule) of the tracer thread's round
publication with any number of threads calling `snapshot()`, `clear()` and `handle_error`, every
snapshot ever taken equals a whole number of consecutive published rounds applied to an empty
state: never part of a round, never a mixture of data from before and after a clear. -/
theorem snapshots_round_atomic {m tr : Nat} {s : Sys} (h : Initial m tr s) (sched : List Nat) :
    ∀ o ∈ (runSched s sched).obs, Whole m o :=
  (inv_runSched sched (inv_initial h)).obs

/-- the programs translated from tracer.rs are the canonical shapes, for every `m` -/
theorem generated_programs_round_atomic (m : Nat) :
    Gen.handlerProg m = handlerShape m ∧ Gen.snapshotProg m = snapshotShape ∧
    Gen.clearProg m = clearShape ∧ Gen.handle_errorProg m = errorShape := ⟨rfl, rfl, rfl, rfl⟩

/-- the real system: one tracer thread and `k` further threads each running one of the translated
reader / clear / error programs -/
def realSystem (m : Nat) (others : List (List Instr)) : Sys :=
  { ths := { body := Gen.handlerProg m } :: others.map fun b => { body := b } }

theorem real_system_round_atomic (m : Nat) (others : List (List Instr))
    (ho : ∀ b ∈ others, b = Gen.snapshotProg m ∨ b = Gen.clearProg m ∨ b = Gen.handle_errorProg m)
    (sched : List Nat) : ∀ o ∈ (runSched (realSystem m others) sched).obs, Whole m o := by
  apply snapshots_round_atomic (tr := 0)
  refine ⟨⟨rfl, rfl, rfl, rfl⟩, ?_, ?_, ⟨_, rfl, rfl⟩⟩
  · intro i t hi
    cases i with
    | zero => simp [realSystem] at hi; subst hi; exact ⟨rfl, rfl, rfl, rfl⟩
    | succ j =>
      simp [realSystem] at hi
      obtain ⟨b, _, rfl⟩ := hi
      exact ⟨rfl, rfl, rfl, rfl⟩
  · intro i t hi hne
    cases i with
    | zero => exact absurd rfl hne
    | succ j =>
      simp [realSystem] at hi
      obtain ⟨b, hb, rfl⟩ := hi
      exact ho b (List.mem_of_getElem? hb)

/-! ## what goes wrong without the discipline (the semantics does exhibit torn snapshots) -/

/-- per-part locking: the round is applied in two write sections -/
def perPartHandler : List Instr := [.acqW, .upd 0 1, .rel, .acqW, .upd 1 2, .rel]

theorem not_whole_half : ¬ Whole 2 [(0, 0)] := by
  rintro ⟨c, k, h⟩
  cases k with
  | zero => simp [wholeRounds] at h
  | succ k =>
    have : ([(0, 0)] : Mem).length = (wholeRounds 2 c (k + 1)).length := by rw [h]
    have hl : ∀ k, (wholeRounds 2 c k).length = 2 * k := by
      intro k; induction k with
      | zero => rfl
      | succ k ih => simp [wholeRounds, roundSteps, ih]; omega
    rw [hl] at this; simp at this; omega

/-- a torn snapshot for per-part locking: tracer does its first section, a reader snapshots -/
theorem per_part_locking_tears :
    ∃ o ∈ (runSched { ths := [{ body := perPartHandler }, { body := snapshotShape }] }
      [0, 0, 0, 1, 1, 1]).obs, ¬ Whole 2 o :=
  ⟨[(0, 0)], by decide, not_whole_half⟩

/-- a handler that does not take the lock at all -/
theorem unlocked_update_tears :
    ∃ o ∈ (runSched { ths := [{ body := [.upd 0 2] }, { body := snapshotShape }] }
      [0, 1, 1, 1]).obs, ¬ Whole 2 o :=
  ⟨[(0, 0)], by decide, not_whole_half⟩

/-! non-vacuity: a concrete run of the real system with two readers and a clearer -/
example : (runSched (realSystem 3 [Gen.snapshotProg 3, Gen.clearProg 3, Gen.snapshotProg 3])
    [0,0,1,0,0,0, 1,1,1, 2,2,2, 0,0,3,0,0,0, 3,3,3, 0,0,0,0,0, 1,1,1]).obs =
    [[(0, 0), (0, 1), (0, 2)], [(1, 0), (1, 1), (1, 2)],
     [(1, 0), (1, 1), (1, 2), (2, 0), (2, 1), (2, 2)]] := by
  decide

end TV.Props.C20

#print axioms TV.Props.C20.snapshots_round_atomic
#print axioms TV.Props.C20.generated_programs_round_atomic
#print axioms TV.Props.C20.real_system_round_atomic
#print axioms TV.Props.C20.per_part_locking_tears
#print axioms TV.Props.C20.unlocked_update_tears
