import TrippyVerif.Lemmas.Channel
import TrippyVerif.Props.C04
import TrippyVerif.Props.C02
/-!
# The Channel layer (`net/channel.rs`) — what C11 / C04 / C02 / C09 need from it

Model: `TV.Chan` (`Model/Channel.lean`), on top of `TV.Wire`.  Correspondence with the real
`Channel<SimSocket>`: harness component `chan`.

* **send** — `send_is_wire_dispatch`: for a channel made by `connect` (`Inv`) `send_probe` makes
  exactly the socket calls of `TV.Wire.dispatch` for the channel's family configuration (so the
  C11 theorems, stated for `Wire.dispatch`, apply to everything that goes through the Channel), and
  for TCP appends the probe `(src port, dest port, now)` to the list; with 256 TCP probes
  outstanding it returns `Error::InsufficientCapacity`, makes no socket call and changes nothing
  (`send_capacity_error`).  `send_never_panics`: in every state, with or without socket errors,
  `send_probe` returns ok or an error value whenever the family's dispatch does not panic, which
  `wire_dispatch_never_panics` shows for every probe the strategy can emit.
* **capacity (defect repaired by /repo 43c3120)** — `old_send_capacity_panic`: before the repair
  (`sendOld`) the next TCP `send_probe` with 256 probes outstanding panicked (`ArrayVec::push`),
  after the socket calls had been made; `old_capacity_witness_257`, `old_capacity_witness_concrete`:
  257 sends without an intervening expiry, from a fresh channel — panic before, capacity error
  after; `loop_never_overflows`: in the strategy's send / wait / receive loop *no `send_probe`
  fails at all* if at every receive fewer than 256 sends lie within `tcp_connect_timeout`
  (`Sparse`): entries leave the list in `recv_tcp_sockets` alone.
* **receive** — `recv_is_wire_recv`: `recv_probe` returns what `Wire.recvIcmp` returns for the
  delivered datagram (cut to the 1024-octet buffer), or what `Wire.recvTcp` returns for the first
  writable socket among the young ones; `recv_never_panics` (C04 through the Channel) under the
  hypotheses of `C04.recv_never_panics`: addresses of the right size and no `AF_INET` peer on the
  IPv6 socket; `recv_prunes`, `recv_nontcp_unchanged`: afterwards every outstanding TCP probe is
  younger than the timeout and nothing was added or reordered; `recv_first_writable`: the first
  writable socket (in list order, failing polls count as not writable) is removed exactly once and
  its response carries its own ports and the target address.
* **connect** — `connect_size_guard` (packet size > 1024 ⇒ `InvalidPacketSize`, before any
  socket is made), `connect_ok`, `connect_family_mismatch_panics` (the `unreachable!()`; ruled out
  by `Builder::build`, which rejects a source and target of different families).
* observations proved here: a probe whose socket reports `SocketError::Other`, no peer address,
  or a failing `take_error` leaves the list without a response (`recv_lossy`): by design for
  `Other`; for the two error cases the error is returned and ends the trace.
-/
namespace TV.Props.Channel
open TV TV.Wire TV.Chan

/-- what `connect` establishes and `send` / `recv` preserve: a send socket exists exactly for
ICMP and UDP -/
def Inv (ch : Chan) : Prop := ch.hasSend = (ch.cfg.proto != .tcp)

/-! ## connect -/

/-- **C11 anchor (channel.rs:42-44).**  A packet size above 1024 is refused before any socket is
created. -/
theorem connect_size_guard (k : ConnCfg) (t : Nat) (h : k.packetSize > 1024) :
    connect k t = .err .invalidPacketSize := by
  have : k.packetSize > MAX_PACKET_SIZE := h
  simp [connect, this]

/-- `connect` with source and target of the same family: the send socket of the protocol (none
for TCP), the receive socket bound to the source address, an empty probe list. -/
theorem connect_ok (k : ConnCfg) (t : Nat) (h : k.packetSize ≤ 1024) (hf : isV6 k.src = isV6 k.dst) :
    ∃ ch, connect k t = .ok (ch,
        (match k.proto with
         | .icmp => [ConnOp.newIcmpSend (isV6 k.src) k.privileged]
         | .udp => [ConnOp.newUdpSend (isV6 k.src) k.privileged]
         | .tcp => []) ++ [ConnOp.newRecv (isV6 k.src) k.src k.privileged]) ∧
      Inv ch ∧ ch.tcp = [] ∧ ch.now = t ∧ ch.tcpTimeout = k.tcpTimeout ∧
      ch.cfg = { v6 := isV6 k.src, src := k.src, dst := k.dst, packetSize := k.packetSize,
                 pattern := k.pattern, privileged := k.privileged, tos := k.tos, proto := k.proto,
                 extEnabled := k.extEnabled, initialSeq := k.initialSeq } := by
  have h1 : ¬ k.packetSize > MAX_PACKET_SIZE := by
    show ¬ k.packetSize > 1024; omega
  have hne : (isV6 k.src != isV6 k.dst) = false := by simp [hf]
  refine ⟨{ cfg := { v6 := isV6 k.src, src := k.src, dst := k.dst, packetSize := k.packetSize,
                     pattern := k.pattern, privileged := k.privileged, tos := k.tos, proto := k.proto,
                     extEnabled := k.extEnabled, initialSeq := k.initialSeq },
            hasSend := k.proto != .tcp, readTimeout := k.readTimeout, tcpTimeout := k.tcpTimeout,
            tcp := [], now := t }, ?_, rfl, rfl, rfl, rfl, rfl⟩
  unfold connect
  rw [if_neg h1]
  simp only [hne, Bool.false_eq_true, if_false]
  rfl

/-- the `unreachable!()` of `connect`: source and target of different families.
`Builder::build` rejects such a configuration, so the tracer never gets here. -/
theorem connect_family_mismatch_panics (k : ConnCfg) (t : Nat) (h : k.packetSize ≤ 1024)
    (hf : isV6 k.src ≠ isV6 k.dst) : connect k t = .panic := by
  have h1 : ¬ k.packetSize > MAX_PACKET_SIZE := by
    show ¬ k.packetSize > 1024; omega
  simp [connect, h1, hf]

/-! ## send -/

/-- below the capacity the repaired `send_probe` is the old one -/
theorem send_eq_sendOld (ch : Chan) (p : Strat.Probe) (inj : Inject)
    (h : ch.cfg.proto = .tcp → ch.tcp.length < 256) : send ch p inj = sendOld ch p inj := by
  unfold send
  cases hp : ch.cfg.proto with
  | tcp =>
    have : ¬ ch.tcp.length ≥ MAX_TCP_PROBES := by
      have := h hp; show ¬ ch.tcp.length ≥ 256; omega
    simp [this]
  | icmp => rfl
  | udp => rfl

/-- **Capacity (repaired, /repo 43c3120).**  With 256 TCP probes outstanding `send_probe` returns
`Error::InsufficientCapacity` without making a single socket call and leaves the channel as it
was — for every probe, family and configuration. -/
theorem send_capacity_error (ch : Chan) (hp : ch.cfg.proto = .tcp) (p : Strat.Probe) (inj : Inject)
    (hfull : ch.tcp.length ≥ 256) : send ch p inj = (ch, .err .capacity []) := by
  have hl : ch.tcp.length ≥ MAX_TCP_PROBES := hfull
  simp [send, hp, hl]

/-- **send_probe = the family's dispatch.**  Without socket errors, on a channel made by `connect`:
with 256 TCP probes outstanding the outcome is the capacity error, no socket call, state unchanged;
otherwise `send_probe` makes exactly the socket calls of `Wire.dispatch` (to which the C11
theorems apply), returns its error if it has one, and for TCP records the probe. -/
theorem send_is_wire_dispatch (ch : Chan) (hinv : Inv ch) (p : Strat.Probe) :
    (send ch p none).2 =
      (if ch.cfg.proto = .tcp ∧ ch.tcp.length ≥ 256 then .err .capacity []
       else match Wire.dispatch ch.cfg p with
         | .ok ops => .ok ops
         | .err e => .err e []
         | .panic => .panic) ∧
    (send ch p none).1 =
      (if ch.cfg.proto = .tcp ∧ ch.tcp.length ≥ 256 then ch
       else match ch.cfg.proto, Wire.dispatch ch.cfg p with
         | .tcp, .ok _ => { ch with tcp := ch.tcp ++ [⟨p.srcPort, p.destPort, ch.now⟩] }
         | _, _ => ch) := by
  by_cases hfull : ch.cfg.proto = .tcp ∧ ch.tcp.length ≥ 256
  · rw [if_pos hfull, if_pos hfull, send_capacity_error ch hfull.1 p none hfull.2]
    exact ⟨rfl, rfl⟩
  · rw [if_neg hfull, if_neg hfull, send_eq_sendOld ch p none (fun h => Nat.lt_of_not_le (fun hc => hfull ⟨h, hc⟩))]
    unfold sendOld
    cases hp : ch.cfg.proto with
    | tcp =>
      have hl : ¬ ch.tcp.length ≥ MAX_TCP_PROBES := by
        intro h; exact hfull ⟨hp, h⟩
      cases hd : Wire.dispatch ch.cfg p with
      | ok ops => simp [runOps_none, hl]
      | err e => simp
      | panic => simp
    | icmp =>
      have hs : ch.hasSend = true := by rw [hinv, hp]; rfl
      cases hd : Wire.dispatch ch.cfg p with
      | ok ops => simp [hs, runOps_none]
      | err e => simp [hs]
      | panic => simp [hs]
    | udp =>
      have hs : ch.hasSend = true := by rw [hinv, hp]; rfl
      cases hd : Wire.dispatch ch.cfg p with
      | ok ops => simp [hs, runOps_none]
      | err e => simp [hs]
      | panic => simp [hs]

theorem sendOld_keeps (ch : Chan) (p : Strat.Probe) (inj : Inject) :
    (sendOld ch p inj).1.cfg = ch.cfg ∧ (sendOld ch p inj).1.now = ch.now ∧
    (sendOld ch p inj).1.tcpTimeout = ch.tcpTimeout ∧ (sendOld ch p inj).1.hasSend = ch.hasSend := by
  unfold sendOld
  cases ch.cfg.proto <;> simp only <;>
    (try split) <;> (try split) <;> (try split) <;> (try split) <;> simp

/-- `send_probe` keeps the configuration, the clock and the invariant -/
theorem send_keeps (ch : Chan) (p : Strat.Probe) (inj : Inject) :
    (send ch p inj).1.cfg = ch.cfg ∧ (send ch p inj).1.now = ch.now ∧
    (send ch p inj).1.tcpTimeout = ch.tcpTimeout ∧ (send ch p inj).1.hasSend = ch.hasSend := by
  unfold send
  cases ch.cfg.proto <;> simp only <;> (try split) <;>
    first | exact sendOld_keeps ch p inj | simp

/-- what a socket error during the dispatch leads to is an error value or success -/
theorem runOps_cases (path : Path) (inj : Inject) (ops : List SockOp) :
    ∃ done, runOps path inj ops = (done, none) ∨ ∃ e, runOps path inj ops = (done, some e) := by
  cases h : runOps path inj ops with
  | mk done o => cases o with
    | none => exact ⟨done, .inl rfl⟩
    | some e => exact ⟨done, .inr ⟨e, rfl⟩⟩

/-- **`send_probe` never panics** (C09 / C11 through the Channel): for every channel made by
`connect` (`Inv`), in every state — any number of outstanding TCP probes — with or without a
socket error striking any call, `send_probe` returns success or an error value whenever the
family's dispatch does not panic (`wire_dispatch_never_panics`: it does not for any probe the
strategy can emit). -/
theorem send_never_panics (ch : Chan) (hinv : Inv ch) (p : Strat.Probe) (inj : Inject)
    (hd : Wire.dispatch ch.cfg p ≠ .panic) : (send ch p inj).2 ≠ .panic := by
  by_cases hfull : ch.cfg.proto = .tcp ∧ ch.tcp.length ≥ 256
  · rw [send_capacity_error ch hfull.1 p inj hfull.2]; simp
  · rw [send_eq_sendOld ch p inj (fun h => Nat.lt_of_not_le (fun hc => hfull ⟨h, hc⟩))]
    unfold sendOld
    cases hp : ch.cfg.proto with
    | tcp =>
      have hl : ¬ ch.tcp.length ≥ MAX_TCP_PROBES := by
        intro h; exact hfull ⟨hp, h⟩
      cases hdd : Wire.dispatch ch.cfg p with
      | ok ops =>
        obtain ⟨done, h | ⟨e, h⟩⟩ := runOps_cases (pathOf ch.cfg) inj ops <;> simp [h, hl]
      | err e => simp
      | panic => exact absurd hdd hd
    | icmp =>
      have hs : ch.hasSend = true := by rw [hinv, hp]; rfl
      cases hdd : Wire.dispatch ch.cfg p with
      | ok ops =>
        obtain ⟨done, h | ⟨e, h⟩⟩ := runOps_cases (pathOf ch.cfg) inj ops <;> simp [h, hs]
      | err e => simp [hs]
      | panic => exact absurd hdd hd
    | udp =>
      have hs : ch.hasSend = true := by rw [hinv, hp]; rfl
      cases hdd : Wire.dispatch ch.cfg p with
      | ok ops =>
        obtain ⟨done, h | ⟨e, h⟩⟩ := runOps_cases (pathOf ch.cfg) inj ops <;> simp [h, hs]
      | err e => simp [hs]
      | panic => exact absurd hdd hd

/-- **The family's dispatch does not panic for any probe the strategy can emit**: addresses of the
family's size, machine-valued probe fields, and — the one condition on the sequence — for a
privileged Dublin/IPv6 UDP probe the sequence lies in the strategy's window
(`initial ≤ seq ≤ initial + 970`; the state machine keeps it within `initial + 512`).  A packet
size outside the accepted range is an error value. -/
theorem wire_dispatch_never_panics (c : ChanCfg) (hc : c.AddrOk) (p : Strat.Probe) (hpr : ProbeOk p)
    (hwin : c.proto = .udp → c.privileged = true → isParis p.flags = false → c.v6 = true →
      isDublin p.flags = true → c.initialSeq ≤ p.seq ∧ p.seq - c.initialSeq ≤ 970) :
    Wire.dispatch c p ≠ .panic := by
  cases hp : c.proto with
  | tcp => simp [Wire.dispatch, hp]
  | icmp =>
    by_cases hsz : SizeOk c
    · obtain ⟨ck, _, h⟩ := dispatch_icmp_eq c hc hp hsz p
      rw [h]; simp
    · rw [C11.size_out_of_range c (by rw [hp]; simp) p (by unfold SizeOk at hsz; omega)]; simp
  | udp =>
    by_cases hsz : SizeOk c
    · cases hpriv : c.privileged with
      | true =>
        obtain ⟨udp, _, h⟩ := dispatch_udp_raw_eq c hc hp hpriv hsz p hpr (hwin hp hpriv)
        rw [h]; simp
      | false =>
        rw [C11.udp_unprivileged c hp hpriv hsz p]; simp
    · rw [C11.size_out_of_range c (by rw [hp]; simp) p (by unfold SizeOk at hsz; omega)]; simp

/-! ### the defect before the repair (`sendOld`) -/

/-- **Capacity defect of the code before 43c3120 (channel.rs:144).**  With `MAX_TCP_PROBES` = 256
probes outstanding the next TCP `send_probe` panicked in `ArrayVec::push` — whatever the probe,
the family and the addresses — although the socket had been created, bound and connected. -/
theorem old_send_capacity_panic (ch : Chan) (hp : ch.cfg.proto = .tcp) (p : Strat.Probe)
    (hfull : ch.tcp.length ≥ 256) : (sendOld ch p none).2 = .panic := by
  have hl : ch.tcp.length ≥ MAX_TCP_PROBES := hfull
  simp [sendOld, hp, Wire.dispatch, runOps_none, hl]

/-- TCP sends in a row, no receive in between (old and repaired code agree below the capacity) -/
def sends (ch : Chan) : List Strat.Probe → Chan × List SendOut
  | [] => (ch, [])
  | p :: ps =>
    let r := send ch p none
    let rest := sends r.1 ps
    (rest.1, r.2 :: rest.2)

theorem sends_ok (ps : List Strat.Probe) : ∀ (ch : Chan), ch.cfg.proto = .tcp →
    ch.tcp.length + ps.length ≤ 256 →
    (sends ch ps).1.tcp.length = ch.tcp.length + ps.length ∧ (sends ch ps).1.cfg = ch.cfg ∧
    ∀ o ∈ (sends ch ps).2, ∃ ops, o = .ok ops := by
  induction ps with
  | nil => intro ch _ _; simp [sends]
  | cons p ps ih =>
    intro ch hp hl
    simp only [List.length_cons] at hl
    have hnot : ¬ ch.tcp.length ≥ MAX_TCP_PROBES := by show ¬ ch.tcp.length ≥ 256; omega
    have hs : send ch p none =
        ({ ch with tcp := ch.tcp ++ [⟨p.srcPort, p.destPort, ch.now⟩] }, .ok (dispatchTcp ch.cfg p)) := by
      simp [send, sendOld, hp, Wire.dispatch, runOps_none, hnot]
    obtain ⟨h1, h2, h3⟩ := ih { ch with tcp := ch.tcp ++ [⟨p.srcPort, p.destPort, ch.now⟩] } hp
      (by simp; omega)
    simp only [sends, hs]
    refine ⟨by rw [h1]; simp; omega, h2, ?_⟩
    intro o ho
    rcases List.mem_cons.mp ho with rfl | ho
    · exact ⟨_, rfl⟩
    · exact h3 o ho

/-- **Witness.**  From a fresh TCP channel (any configuration), 256 `send_probe` calls succeed and
leave 256 probes outstanding; the 257th panicked before the repair and returns the capacity error,
touching nothing, after it. -/
theorem old_capacity_witness_257 (k : ConnCfg) (t : Nat) (hsz : k.packetSize ≤ 1024)
    (hf : isV6 k.src = isV6 k.dst) (hp : k.proto = .tcp) (ps : List Strat.Probe)
    (hn : ps.length = 256) (p257 : Strat.Probe) :
    ∃ ch, connect k t = .ok ch ∧
      (∀ o ∈ (sends ch.1 ps).2, ∃ ops, o = .ok ops) ∧ (sends ch.1 ps).1.tcp.length = 256 ∧
      (sendOld (sends ch.1 ps).1 p257 none).2 = .panic ∧
      send (sends ch.1 ps).1 p257 none = ((sends ch.1 ps).1, .err .capacity []) := by
  obtain ⟨ch, hc, _, htcp, _, _, hcfg⟩ := connect_ok k t hsz hf
  have hproto : ch.cfg.proto = .tcp := by rw [hcfg]; exact hp
  obtain ⟨h1, h2, h3⟩ := sends_ok ps ch hproto (by rw [htcp, hn]; simp)
  refine ⟨_, hc, h3, by rw [h1, htcp, hn]; rfl, ?_, ?_⟩
  · exact old_send_capacity_panic _ (by rw [h2]; exact hproto) p257 (by rw [h1, htcp, hn]; simp)
  · exact send_capacity_error _ (by rw [h2]; exact hproto) p257 none (by rw [h1, htcp, hn]; simp)

/-- a concrete instance: 10.0.0.1 → 10.0.0.7, 10 s connect timeout, 257 identical SYN probes -/
theorem old_capacity_witness_concrete :
    let k : ConnCfg :=
      { src := [10, 0, 0, 1], dst := [10, 0, 0, 7], packetSize := 84, pattern := 0,
        privileged := true, tos := 0, proto := .tcp, extEnabled := false, initialSeq := 33434,
        readTimeout := 10000000, tcpTimeout := 10000000000 }
    let p : Strat.Probe :=
      { seq := 33434, ident := 0, srcPort := 5000, destPort := 33434, ttl := 1,
        round := 0, sent := 0, flags := 0 }
    ∃ ch, connect k 0 = .ok ch ∧
      (sendOld (sends ch.1 (List.replicate 256 p)).1 p none).2 = .panic ∧
      (send (sends ch.1 (List.replicate 256 p)).1 p none).2 = .err .capacity [] := by
  intro k p
  obtain ⟨ch, hc, _, _, hpanic, hnew⟩ := old_capacity_witness_257 k 0 (by decide) (by decide) rfl
    (List.replicate 256 p) (List.length_replicate ..) p
  exact ⟨ch, hc, hpanic, by rw [hnew]⟩

/-! ### the hypothesis that rules the defect out -/

/-- one iteration of the strategy's loop as the Channel sees it: `send_probe`, then time passes,
then `recv_probe` -/
structure Step where
  p : Strat.Probe
  dt : Nat
  env : Env

def loop (ch : Chan) : List Step → Chan × List SendOut
  | [] => (ch, [])
  | s :: ss =>
    let r := send ch s.p none
    let c2 := (recv (advance r.1 s.dt) s.env).chan
    let rest := loop c2 ss
    (rest.1, r.2 :: rest.2)

/-- **fewer than 256 sends per connect-timeout window**: `past` are the times of the sends so
far, `t` the present; at the receive of every iteration at most 255 sends (the present one
included) are younger than `timeout` -/
def Sparse (timeout : Nat) : List Step → List Nat → Nat → Prop
  | [], _, _ => True
  | s :: ss, past, t =>
    ((past ++ [t]).filter fun x => decide (t + s.dt - x < timeout)).length ≤ 255 ∧
    Sparse timeout ss (past ++ [t]) (t + s.dt)

theorem loop_ok (timeout : Nat) : ∀ (steps : List Step) (ch : Chan) (past : List Nat),
    ch.cfg.proto = .tcp → ch.tcpTimeout = timeout →
    (ch.tcp.map (·.start)).Sublist past → ch.tcp.length ≤ 255 →
    Sparse timeout steps past ch.now →
    ∀ o ∈ (loop ch steps).2, ∃ ops, o = .ok ops := by
  intro steps
  induction steps with
  | nil => intro ch past _ _ _ _ _ o ho; simp [loop] at ho
  | cons s ss ih =>
    intro ch past hp ht hsub hlen hsparse o ho
    obtain ⟨hcount, hrest⟩ := hsparse
    have hnot : ¬ ch.tcp.length ≥ MAX_TCP_PROBES := by show ¬ ch.tcp.length ≥ 256; omega
    have hs : send ch s.p none =
        ({ ch with tcp := ch.tcp ++ [⟨s.p.srcPort, s.p.destPort, ch.now⟩] },
          .ok (dispatchTcp ch.cfg s.p)) := by
      simp [send, sendOld, hp, Wire.dispatch, runOps_none, hnot]
    simp only [loop, hs] at ho
    rcases List.mem_cons.mp ho with rfl | ho
    · exact ⟨_, rfl⟩
    · -- the state after the receive
      let c1 : Chan := advance { ch with tcp := ch.tcp ++ [⟨s.p.srcPort, s.p.destPort, ch.now⟩] } s.dt
      have hc1p : c1.cfg.proto = .tcp := hp
      have hk := recv_keeps c1 s.env
      have hsub2 := recv_tcp_sublist c1 s.env
      have hyoung := recv_tcp_young c1 s.env hc1p
      have hstarts : ((recv c1 s.env).chan.tcp.map (·.start)).Sublist (past ++ [ch.now]) := by
        refine (hsub2.map (·.start)).trans ?_
        show ((ch.tcp ++ [(⟨s.p.srcPort, s.p.destPort, ch.now⟩ : TcpEntry)]).map (·.start)).Sublist _
        rw [List.map_append]
        exact List.Sublist.append hsub (List.Sublist.refl _)
      -- all survivors are young, so they are among the young sends
      have hlen2 : (recv c1 s.env).chan.tcp.length ≤ 255 := by
        have hfilter : ((recv c1 s.env).chan.tcp.map (·.start)).Sublist
            ((past ++ [ch.now]).filter fun x => decide (ch.now + s.dt - x < timeout)) := by
          have := hstarts.filter fun x => decide (ch.now + s.dt - x < timeout)
          rwa [List.filter_eq_self.mpr] at this
          intro x hx
          obtain ⟨e, he, rfl⟩ := List.mem_map.mp hx
          have := hyoung e he
          simp only [decide_eq_true_eq]
          show c1.now - e.start < timeout
          rw [← ht]; exact this
        have := hfilter.length_le
        rw [List.length_map] at this
        omega
      exact ih (recv c1 s.env).chan (past ++ [ch.now]) (by rw [hk.1]; exact hc1p)
        (by rw [hk.2.2.1]; exact ht) hstarts hlen2 (by rw [hk.2.1]; exact hrest) o ho

/-- **No overflow under the sparse-sends hypothesis.**  Starting from a fresh TCP channel, if at
every receive of the loop at most 255 sends lie within `tcp_connect_timeout`, every `send_probe`
succeeds: `ArrayVec::push` is never reached with a full vector.  (With the command-line defaults
`tcp_connect_timeout = min_round_duration`, at most `max_ttl ≤ 254` probes per round are sent,
which satisfies the hypothesis as long as rounds do not overlap within the timeout; the library API
lets the two be chosen independently, e.g. a 10 s timeout with 1 s rounds over 30 hops.) -/
theorem loop_never_overflows (k : ConnCfg) (t : Nat) (hsz : k.packetSize ≤ 1024)
    (hf : isV6 k.src = isV6 k.dst) (hp : k.proto = .tcp) (steps : List Step)
    (hs : Sparse k.tcpTimeout steps [] t) :
    ∃ ch, connect k t = .ok ch ∧ ∀ o ∈ (loop ch.1 steps).2, ∃ ops, o = .ok ops := by
  obtain ⟨ch, hc, _, htcp, hnow, hto, hcfg⟩ := connect_ok k t hsz hf
  refine ⟨_, hc, ?_⟩
  exact loop_ok k.tcpTimeout steps ch [] (by rw [hcfg]; exact hp) hto (by rw [htcp]; simp)
    (by rw [htcp]; simp) (by rw [hnow]; exact hs)

/-! ## receive -/

/-- **recv_probe = the family's receive.**  For ICMP and UDP: `is_readable` decides whether the
family's `recv_icmp_probe` runs on the delivered datagram (cut to the 1024-octet buffer).  For TCP:
the young probes are polled in order; with none writable the ICMP path runs; otherwise the first
writable socket is handed to `recv_tcp_socket`, and only if that yields nothing (`Other`) the ICMP
path runs. -/
theorem recv_is_wire_recv (ch : Chan) (env : Env) :
    (ch.cfg.proto ≠ .tcp → (recv ch env).out = recvIcmpPart ch env) ∧
    (∀ src bytes, env.readable = .yes → env.dgram = .data src bytes →
      recvIcmpPart ch env = Wire.recvIcmp ch.cfg (bytes.take 1024) src) ∧
    (env.readable = .no → recvIcmpPart ch env = .ok none) ∧
    (ch.cfg.proto = .tcp →
      match (firstWritable (kept ch env)).2.1 with
      | none => (recv ch env).out = recvIcmpPart ch env
      | some x =>
        (recv ch env).out =
          (match tcpOutcome ch.cfg x.1 x.2 with
           | .ok none => recvIcmpPart ch env
           | r => r)) := by
  refine ⟨?_, ?_, ?_, ?_⟩
  · intro hp; rw [recv_nontcp ch env hp]
  · intro src bytes h1 h2; simp [recvIcmpPart, h1, h2, MAX_PACKET_SIZE, Consts.channel_MAX_PACKET_SIZE]
  · intro h; simp [recvIcmpPart, h]
  · intro hp
    unfold recv
    simp only [hp]
    rw [show (List.filter (fun x => young ch.now ch.tcpTimeout x.1) (pairUp ch.tcp env.tcp)) =
      kept ch env from rfl]
    rcases firstWritable (kept ch env) with ⟨pre, o, post⟩
    cases o with
    | none => rfl
    | some x =>
      simp only
      cases tcpOutcome ch.cfg x.1 x.2 with
      | ok r => cases r <;> rfl
      | err e => rfl
      | panic => rfl

/-- the socket found writable is answered by `Wire.recvTcp` with the ports of its own probe -/
theorem tcpOutcome_is_wire (c : ChanCfg) (e : TcpEntry) :
    (∀ peer, tcpOutcome c e (.connected peer) = Wire.recvTcp c e.srcPort e.destPort (.connected peer)) ∧
    tcpOutcome c e .refused = Wire.recvTcp c e.srcPort e.destPort .refused ∧
    (∀ a, tcpOutcome c e (.unreach a) = Wire.recvTcp c e.srcPort e.destPort (.hostUnreachable a)) ∧
    tcpOutcome c e .other = .ok none ∧ tcpOutcome c e .takeErrorFails = .err .io :=
  ⟨fun _ => rfl, rfl, fun _ => rfl, rfl, rfl⟩

theorem recvIcmpPart_never_panics (ch : Chan) (hc : ch.cfg.AddrOk) (env : Env)
    (hsrc : ch.cfg.v6 = true → ∀ src bytes, env.dgram = .data src bytes → src.length ≠ 4) :
    recvIcmpPart ch env ≠ .panic := by
  unfold recvIcmpPart
  cases hr : env.readable <;> simp only
  · cases hd : env.dgram with
    | none => simp
    | readFails => simp
    | data src bytes =>
      exact C04.recv_never_panics ch.cfg hc _ src (fun hv => hsrc hv src bytes hd)
  · simp
  · simp

theorem tcpOutcome_never_panics (c : ChanCfg) (e : TcpEntry) (s : SockEnv) :
    tcpOutcome c e s ≠ .panic := by
  cases s with
  | connected peer => exact C04.recvTcp_never_panics c e.srcPort e.destPort (.connected peer)
  | refused => exact C04.recvTcp_never_panics c e.srcPort e.destPort .refused
  | unreach a => exact C04.recvTcp_never_panics c e.srcPort e.destPort (.hostUnreachable a)
  | other => exact C04.recvTcp_never_panics c e.srcPort e.destPort .other
  | takeErrorFails => simp [tcpOutcome]
  | notWritable => simp [tcpOutcome]
  | writableFails => simp [tcpOutcome]

/-- **C04 through the Channel.**  For every protocol, every state of the channel (any number of
outstanding TCP probes, any clock, also one that went backwards) and every scripted environment —
any poll answers, any datagram, any socket states — `recv_probe` returns a response, nothing or an
error value, never a panic.  Hypotheses as for `C04.recv_never_panics`: the configured addresses
have the size of their family, and the IPv6 receive socket does not report an `AF_INET` peer. -/
theorem recv_never_panics (ch : Chan) (hc : ch.cfg.AddrOk) (env : Env)
    (hsrc : ch.cfg.v6 = true → ∀ src bytes, env.dgram = .data src bytes → src.length ≠ 4) :
    (recv ch env).out ≠ .panic := by
  have hi := recvIcmpPart_never_panics ch hc env hsrc
  by_cases hp : ch.cfg.proto = .tcp
  · have h := (recv_is_wire_recv ch env).2.2.2 hp
    cases hfw : (firstWritable (kept ch env)).2.1 with
    | none => rw [hfw] at h; simp only at h; rw [h]; exact hi
    | some x =>
      rw [hfw] at h; simp only at h; rw [h]
      have ht := tcpOutcome_never_panics ch.cfg x.1 x.2
      cases hto : tcpOutcome ch.cfg x.1 x.2 with
      | ok r => cases r <;> simp [hi]
      | err e => simp
      | panic => exact absurd hto ht
  · rw [(recv_is_wire_recv ch env).1 hp]; exact hi

/-- **After every `recv_probe` each outstanding TCP probe is younger than the timeout**, nothing
was added, nothing reordered; configuration, clock and invariant are untouched. -/
theorem recv_prunes (ch : Chan) (env : Env) (hp : ch.cfg.proto = .tcp) :
    (∀ e ∈ (recv ch env).chan.tcp, ch.now - e.start < ch.tcpTimeout) ∧
    (recv ch env).chan.tcp.Sublist ch.tcp ∧
    (recv ch env).chan.cfg = ch.cfg ∧ (recv ch env).chan.now = ch.now :=
  ⟨recv_tcp_young ch env hp, recv_tcp_sublist ch env, (recv_keeps ch env).1, (recv_keeps ch env).2.1⟩

/-- for ICMP and UDP the (empty) list is not touched -/
theorem recv_nontcp_unchanged (ch : Chan) (env : Env) (hp : ch.cfg.proto ≠ .tcp) :
    (recv ch env).chan = ch := by rw [recv_nontcp ch env hp]

/-- **First writable socket wins; removed exactly once; answered with its own ports.**
`kept` = the young probes with their sockets' answers, in list order.  If none is writable
(`is_writable` false or failing) nothing is removed and all were polled.  Otherwise `kept` splits as
`pre ++ x :: post` with `pre` not writable and `x` the first writable: exactly `pre ++ [x]` were
polled, the new list is `pre ++ post` (so `x` is gone, everything else stays, in order), and if
`x`'s socket is connected (peer known), refused or reports an ICMP error, the response is a
`TcpReply` / `TcpRefused` / `TimeExceeded(1)` carrying the target address and `x`'s own source
and destination port. -/
theorem recv_first_writable (ch : Chan) (env : Env) (hp : ch.cfg.proto = .tcp) :
    match (firstWritable (kept ch env)).2.1 with
    | none =>
      (recv ch env).chan.tcp = (kept ch env).map (·.1) ∧
      (recv ch env).polled = (kept ch env).map (·.1) ∧
      ∀ y ∈ kept ch env, y.2.writable = false
    | some x =>
      ∃ pre post, kept ch env = pre ++ x :: post ∧ (∀ y ∈ pre, y.2.writable = false) ∧
        x.2.writable = true ∧
        (recv ch env).chan.tcp = (pre ++ post).map (·.1) ∧
        (recv ch env).polled = (pre ++ [x]).map (·.1) ∧
        (∀ r, (x.2 = .refused ∨ (∃ a, x.2 = .connected (some a)) ∨ (∃ a, x.2 = .unreach a)) →
          (recv ch env).out = .ok (some r) →
          r.proto = .tcp (addrNat ch.cfg.dst) x.1.srcPort x.1.destPort none) ∧
        ((x.2 = .refused ∨ (∃ a, x.2 = .connected (some a)) ∨ (∃ a, x.2 = .unreach a)) →
          ∃ r, (recv ch env).out = .ok (some r)) := by
  have hs := firstWritable_spec (kept ch env)
  have hc := recv_tcp_chan ch env hp
  have ho := (recv_is_wire_recv ch env).2.2.2 hp
  cases hfw : (firstWritable (kept ch env)).2.1 with
  | none =>
    rw [hfw] at hs hc; simp only at hs hc
    simp only
    refine ⟨?_, ?_, ?_⟩
    · rw [hc.1]; simp only; rw [hs.2.2, List.append_nil, ← hs.2.1]
    · rw [hc.2, List.append_nil, ← hs.2.1]
    · rw [hs.2.1]; exact hs.1
  | some x =>
    rw [hfw] at hs hc ho; simp only at hs hc ho
    simp only
    refine ⟨_, _, hs.2.2, hs.1, hs.2.1, by rw [hc.1], hc.2, ?_, ?_⟩
    · intro r hx hr
      rw [ho] at hr
      rcases hx with hx | ⟨a, hx⟩ | ⟨a, hx⟩ <;> rw [hx] at hr <;>
        simp only [tcpOutcome, Wire.recvTcp] at hr <;>
        (injection hr with hr; injection hr with hr; rw [← hr])
    · intro hx
      rw [ho]
      rcases hx with hx | ⟨a, hx⟩ | ⟨a, hx⟩ <;> rw [hx] <;>
        simp only [tcpOutcome, Wire.recvTcp] <;> exact ⟨_, rfl⟩

/-- **Probes that leave the list without a response.**  If the first writable socket reports
`SocketError::Other` the probe is dropped and the ICMP path is tried instead (by design: the
connect attempt failed for a reason that says nothing about the path); if `take_error` fails or the
connected socket has no peer address the probe is dropped and the error is returned (which ends
the trace). -/
theorem recv_lossy (ch : Chan) (env : Env) (hp : ch.cfg.proto = .tcp) (x : TcpEntry × SockEnv)
    (hfw : (firstWritable (kept ch env)).2.1 = some x) :
    (x.2 = .other → (recv ch env).out = recvIcmpPart ch env) ∧
    (x.2 = .takeErrorFails → (recv ch env).out = .err .io) ∧
    (x.2 = .connected none → (recv ch env).out = .err .missingAddr) := by
  have ho := (recv_is_wire_recv ch env).2.2.2 hp
  rw [hfw] at ho; simp only at ho
  refine ⟨?_, ?_, ?_⟩ <;> intro hx <;> rw [ho, hx] <;> simp [tcpOutcome, Wire.recvTcp]

/-- **Observation: a completed handshake can be dropped unreported.**  One socket is handed to
`recv_tcp_socket` per `recv_probe`, and `retain` runs before the poll: two probes sent at time 0
with a timeout of 100, both connected at time 99 — the first is reported; at the next call
(time 100) the second is pruned by age although its handshake completed in time, and nothing is
reported for it. -/
theorem late_completion_dropped :
    let c : ChanCfg :=
      { v6 := false, src := [10, 0, 0, 1], dst := [10, 0, 0, 7], packetSize := 84,
        pattern := 0, privileged := true, tos := 0, proto := .tcp, extEnabled := false,
        initialSeq := 33434 }
    let ch : Chan :=
      { cfg := c, hasSend := false, readTimeout := 10, tcpTimeout := 100,
        tcp := [⟨5000, 33434, 0⟩, ⟨5000, 33435, 0⟩], now := 99 }
    let both : Env :=
      { readable := .no, dgram := .none,
        tcp := [.connected (some [10, 0, 0, 7]), .connected (some [10, 0, 0, 7])] }
    let r1 := recv ch both
    let r2 := recv (advance r1.chan 1) { both with tcp := [.connected (some [10, 0, 0, 7])] }
    r1.out = .ok (some { kind := .tcpReply, addr := [10, 0, 0, 7],
                         proto := .tcp 167772167 5000 33434 none, exts := none }) ∧
    r1.chan.tcp = [⟨5000, 33435, 0⟩] ∧ r2.out = .ok none ∧ r2.chan.tcp = [] ∧ r2.polled = [] := by
  intro c ch both r1 r2
  decide

/-! ### the hypotheses are satisfiable -/

/-- a TCP channel with two outstanding probes: the first not writable, the second refused -/
def sampleChan : Chan :=
  { cfg :=
      { v6 := false, src := [10, 0, 0, 1], dst := [10, 0, 0, 7], packetSize := 84, pattern := 0,
        privileged := true, tos := 0, proto := .tcp, extEnabled := false, initialSeq := 33434 },
    hasSend := false, readTimeout := 10, tcpTimeout := 1000,
    tcp := [⟨5000, 33434, 0⟩, ⟨5000, 33435, 10⟩], now := 500 }

def sampleEnv : Env := { readable := .no, dgram := .none, tcp := [.notWritable, .refused] }

example : Inv sampleChan ∧ sampleChan.cfg.AddrOk ∧ sampleChan.cfg.proto = .tcp := by
  refine ⟨rfl, by decide, rfl⟩

example : (recv sampleChan sampleEnv).chan.tcp = [⟨5000, 33434, 0⟩] ∧
    (recv sampleChan sampleEnv).polled = [⟨5000, 33434, 0⟩, ⟨5000, 33435, 10⟩] := by
  decide

/-- `Sparse`: three sends 400 ns apart with a 1000 ns timeout -/
example : Sparse 1000
    [⟨{ seq := 1, ident := 0, srcPort := 1, destPort := 2, ttl := 1, round := 0, sent := 0, flags := 0 },
      400, sampleEnv⟩] [] 0 := by
  simp [Sparse]

end TV.Props.Channel

#print axioms TV.Props.Channel.connect_size_guard
#print axioms TV.Props.Channel.connect_ok
#print axioms TV.Props.Channel.connect_family_mismatch_panics
#print axioms TV.Props.Channel.send_is_wire_dispatch
#print axioms TV.Props.Channel.send_keeps
#print axioms TV.Props.Channel.send_capacity_error
#print axioms TV.Props.Channel.send_never_panics
#print axioms TV.Props.Channel.wire_dispatch_never_panics
#print axioms TV.Props.Channel.old_send_capacity_panic
#print axioms TV.Props.Channel.old_capacity_witness_257
#print axioms TV.Props.Channel.old_capacity_witness_concrete
#print axioms TV.Props.Channel.loop_never_overflows
#print axioms TV.Props.Channel.recv_is_wire_recv
#print axioms TV.Props.Channel.tcpOutcome_is_wire
#print axioms TV.Props.Channel.recv_never_panics
#print axioms TV.Props.Channel.recv_prunes
#print axioms TV.Props.Channel.recv_nontcp_unchanged
#print axioms TV.Props.Channel.recv_first_writable
#print axioms TV.Props.Channel.recv_lossy
#print axioms TV.Props.Channel.late_completion_dropped
