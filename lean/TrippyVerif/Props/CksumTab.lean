import TrippyVerif.Gen.CksumTab
import TrippyVerif.Gen.C12Field
import TrippyVerif.Model.Checksum
/-!
# C13 — the checksum entry points, as the source has them (translator tie)

`Gen/CksumTab.lean` is regenerated on every run from `trippy-packet/src/checksum.rs` (`wrappers`) and `lib.rs`
(`protoIds`).  Two things are proved over it:

* `entry_points_as_modelled`: every public checksum function of the source is, in the hand model
  (`Model/Checksum.lean`, which C13's RFC 1071 theorems are about), the core function of the same name at the
  ignore-word and protocol number the *source* says — so a changed ignore-word or protocol in the source breaks
  this theorem even before the correspondence check runs;
* `*_word_is_checksum_field`: the 16-bit word each entry point leaves out is the position of the checksum field
  that the (likewise regenerated) accessor `get_checksum` of that header reads — two translators, one fact.
-/
namespace TV.Props.CksumTab
open TV TV.Cksum TV.Spec TV.Gen.CksumTab

/-- `IpProtocol::id` of a variant, from the regenerated table -/
def protoId (v : String) : Option Nat := (protoIds.find? (·.1 == v)).map (·.2)

/-- the model's function for a row of the table: core function by name, at the row's word and protocol -/
def byRow (row : String × String × Nat × String) (d s t : List UInt8) : Option (R Nat) :=
  match row.2.1 with
  | "checksum" => if row.2.2.2 == "" then some (checksum d row.2.2.1) else none
  | "ipv4_checksum" => (protoId row.2.2.2).map fun p => ipv4Checksum d row.2.2.1 s t (UInt8.ofNat p)
  | "ipv6_checksum" => (protoId row.2.2.2).map fun p => ipv6Checksum d row.2.2.1 s t (UInt8.ofNat p)
  | _ => none

/-- the model's entry point of that name -/
def modelFn (name : String) (d s t : List UInt8) : Option (R Nat) :=
  match name with
  | "ipv4_header_checksum" => some (ipv4_header_checksum d)
  | "icmp_ipv4_checksum" => some (icmp_ipv4_checksum d)
  | "icmp_ipv6_checksum" => some (icmp_ipv6_checksum d s t)
  | "udp_ipv4_checksum" => some (udp_ipv4_checksum d s t)
  | "tcp_ipv4_checksum" => some (tcp_ipv4_checksum d s t)
  | "udp_ipv6_checksum" => some (udp_ipv6_checksum d s t)
  | _ => none

/-- every public checksum function of the source is modelled, at the source's ignore-word and protocol -/
theorem entry_points_as_modelled (d s t : List UInt8) :
    ∀ row ∈ wrappers, ∃ r, modelFn row.1 d s t = some r ∧ byRow row d s t = some r := by
  intro row h
  simp only [wrappers, List.mem_cons, List.not_mem_nil, or_false] at h
  rcases h with rfl | rfl | rfl | rfl | rfl | rfl <;> exact ⟨_, rfl, rfl⟩

/-- and the model has no entry point the source lacks -/
theorem entry_points_complete :
    wrappers.map (·.1) = ["ipv4_header_checksum", "icmp_ipv4_checksum", "icmp_ipv6_checksum",
      "udp_ipv4_checksum", "tcp_ipv4_checksum", "udp_ipv6_checksum"] := by decide

/-- the 16-bit word an entry point leaves out -/
def wordOf (name : String) : Option Nat := (wrappers.find? (·.1 == name)).map (·.2.2.1)

theorem ipv4_header_word_is_checksum_field (b : Buf) (h : 20 ≤ b.length) :
    ∃ w, wordOf "ipv4_header_checksum" = some w ∧
      TV.Pkt.ipv4.Ipv4Packet.get_checksum b = .ok (UInt16.ofBitVec ((getField b (2 * w) 2 0 16).setWidth 16)) :=
  ⟨5, by decide, TV.Pkt.ipv4.Ipv4Packet.get_checksum_spec b h⟩

theorem icmp_ipv4_word_is_checksum_field (b : Buf) (h : 8 ≤ b.length) :
    ∃ w, wordOf "icmp_ipv4_checksum" = some w ∧
      TV.Pkt.icmpv4.IcmpPacket.get_checksum b = .ok (UInt16.ofBitVec ((getField b (2 * w) 2 0 16).setWidth 16)) :=
  ⟨1, by decide, TV.Pkt.icmpv4.IcmpPacket.get_checksum_spec b h⟩

theorem icmp_ipv6_word_is_checksum_field (b : Buf) (h : 8 ≤ b.length) :
    ∃ w, wordOf "icmp_ipv6_checksum" = some w ∧
      TV.Pkt.icmpv6.IcmpPacket.get_checksum b = .ok (UInt16.ofBitVec ((getField b (2 * w) 2 0 16).setWidth 16)) :=
  ⟨1, by decide, TV.Pkt.icmpv6.IcmpPacket.get_checksum_spec b h⟩

theorem udp_word_is_checksum_field (b : Buf) (h : 8 ≤ b.length) :
    ∃ w, wordOf "udp_ipv4_checksum" = some w ∧ wordOf "udp_ipv6_checksum" = some w ∧
      TV.Pkt.udp.UdpPacket.get_checksum b = .ok (UInt16.ofBitVec ((getField b (2 * w) 2 0 16).setWidth 16)) :=
  ⟨3, by decide, by decide, TV.Pkt.udp.UdpPacket.get_checksum_spec b h⟩

theorem tcp_word_is_checksum_field (b : Buf) (h : 20 ≤ b.length) :
    ∃ w, wordOf "tcp_ipv4_checksum" = some w ∧
      TV.Pkt.tcp.TcpPacket.get_checksum b = .ok (UInt16.ofBitVec ((getField b (2 * w) 2 0 16).setWidth 16)) :=
  ⟨8, by decide, TV.Pkt.tcp.TcpPacket.get_checksum_spec b h⟩

/-- the protocol numbers are the IANA ones (RFC 790 / RFC 4443): ICMP 1, TCP 6, UDP 17, ICMPv6 58 -/
theorem protocol_numbers :
    protoId "Icmp" = some 1 ∧ protoId "Tcp" = some 6 ∧ protoId "Udp" = some 17 ∧ protoId "IcmpV6" = some 58 := by
  decide

#print axioms entry_points_as_modelled
#print axioms entry_points_complete
#print axioms ipv4_header_word_is_checksum_field
#print axioms icmp_ipv4_word_is_checksum_field
#print axioms icmp_ipv6_word_is_checksum_field
#print axioms udp_word_is_checksum_field
#print axioms tcp_word_is_checksum_field
#print axioms protocol_numbers
end TV.Props.CksumTab
