import TrippyVerif.Lemmas.Compose
import TrippyVerif.Props.C01
import TrippyVerif.Props.C06
import TrippyVerif.Props.C10
import TrippyVerif.Props.C05
import TrippyVerif.Props.C02
/-!
# Composition: strategy → aggregator

The aggregator theorems (C05, C10, C15, C19) hold for histories of *well-formed* rounds
(`Reagg.RoundWF`: probe TTLs in [1,254], strictly ascending in probe order, `largest_ttl` zero or
between the round's first TTL and 254).  This file proves that these are exactly the rounds the
tracing state machine publishes — for every builder-accepted configuration with
`first_ttl ≤ max_ttl` and `max_inflight ≥ 1` (what the CLI enforces), every environment (send
outcomes, waits, responses — genuine or not) and unboundedly many rounds — and composes the two
halves: whatever the network does, the state fed by a run of the tracer never panics on a query and
its hop window has the shape C10 states.
-/
namespace TV.Props.Compose
open TV TV.Strat TV.Reagg

/-- the invariant carried along a run: a ghost history fitting the state (C01), whose send log is a
gap-free TTL trace (C06) that is non-empty as soon as the round has run one iteration -/
structure WFI (c : Cfg) (s : TS) (g : Ghost) : Prop where
  ginv : GInv c s g
  trace : ttlsFrom c.firstTtl g.sent = some s.ttl
  start : g.sent = [] → C06.RoundStart c s
  moved : g.sent ≠ [] → c.firstTtl < s.ttl

theorem wfi_init {c : Cfg} (hc : CfgOk c) (t0 : Nat) : WFI c (init c t0) {} :=
  ⟨C01.ginv_init c t0, by simp [ttlsFrom, init], fun _ => C06.roundStart_init hc t0, fun h => absurd rfl h⟩

theorem range'_head (a n : Nat) (h : 0 < n) : (List.range' a n).head? = some a := by
  cases n with
  | zero => omega
  | succ k => simp [List.range'_succ]

/-- **One iteration.**  The invariant is kept, and a round published by the iteration is well-formed. -/
theorem wfi_step {c : Cfg} (hc : CfgOk c) (hfm : c.firstTtl ≤ c.maxTtl) (hinf : 1 ≤ c.maxInflight)
    {s s' : TS} (hs : Reach c s) {g : Ghost} (hw : WFI c s g) {e : IterEnv} {o : IterOut}
    (h : iter c s e = .ok (s', o)) :
    (∃ g', WFI c s' g') ∧ ∀ r, o.published = some r → RoundWF r := by
  have hi := reach_inv hc hs
  obtain ⟨s1, s2, acc, h1, h2, h3, hi1, hi2, hg2⟩ := iter_ghost hc hi hw.ginv h
  obtain ⟨_, hnil, hcons⟩ := (sendRequest_spec hc hi e.sends).2 s1 o.sent h1
  obtain ⟨_, _, ht2, _, _, _⟩ := recv_fields hi1 h2
  -- the TTL after the send step
  have h1ttl : s1.ttl = (if o.sent = [] then s.ttl else s.ttl + 1) := by
    by_cases hn : o.sent = []
    · obtain ⟨rfl, _⟩ := hnil hn; simp [hn]
    · obtain ⟨_, hso⟩ := hcons hn; simp [hn, hso.ttl]
  have htrace : ttlsFrom c.firstTtl (g.sent ++ o.sent) = some s2.ttl := by
    rw [C06.trace_step hc hs h g.sent hw.trace, ht2, h1ttl]
  -- after the first iteration of a round something has been handed to send_probe
  have hmoved : c.firstTtl < s2.ttl := by
    rw [ht2, h1ttl]
    by_cases hgs : g.sent = []
    · have hfirst := C06.first_probe_sent hc (hw.start hgs) hfm hinf e.sends
      rw [h1] at hfirst
      simp only [hfirst.1, if_false]
      have := hi.ttl_ge; omega
    · have := hw.moved hgs
      split <;> omega
  have hne : g.sent ++ o.sent ≠ [] := by
    intro he
    rw [he] at htrace; simp [ttlsFrom] at htrace; omega
  have hfresh := ttlsFrom_fresh _ _ _ htrace
  have hi2le := hi2.ttl_le
  have hf1 := hc.first_ge
  obtain ⟨hu1, hu2⟩ := updateRound_spec hc hi2
  by_cases hrc : roundComplete c s2 = true
  · obtain ⟨r, hr, hu⟩ := hu2 hrc
    rw [hu] at h3; simp at h3; obtain ⟨e1, e2⟩ := h3
    subst e1
    refine ⟨⟨{}, ?_, ?_, ?_, ?_⟩, ?_⟩
    · exact ⟨by simp [afterAdvance, TS.count], by intro k hk; simp at hk, by intro k hk; simp at hk,
        by simp, by simp⟩
    · simp [ttlsFrom, afterAdvance]
    · intro _; exact C06.roundStart_after_publish hc hs h (by rw [← e2]; simp)
    · intro hx; exact absurd rfl hx
    · intro r0 hr0
      rw [← e2] at hr0; cases hr0
      obtain ⟨r', hr', hprobes⟩ := published_probes hc hi2 hg2
      rw [hr] at hr'; cases hr'
      obtain ⟨rr, hrr, _, _, hlarge⟩ := publishTrace_ok hc hi2
      rw [hr] at hrr; cases hrr
      have httls : ttls r.probes = List.range' c.firstTtl (s2.ttl - c.firstTtl) := by
        rw [hprobes]
        have := ttls_published hg2
        simp only at this
        rw [this]; exact hfresh.2
      refine ⟨?_, ?_, ?_⟩
      · intro t ht
        rw [httls, List.mem_range'_1] at ht
        omega
      · rw [httls]; exact List.pairwise_lt_range'
      · have hhead : (ttls r.probes).head? = some c.firstTtl := by
          rw [httls]; exact range'_head _ _ (by omega)
        rw [hlarge]
        cases htg : s2.targetTtl with
        | some t =>
          right
          have := hi2.tgt t htg
          simp only [firstTtlLe, hhead]
          exact ⟨this.1, this.2⟩
        | none =>
          cases hm : s2.maxRecvTtl with
          | none => left; rfl
          | some m =>
            right
            have := hi2.maxrecv m hm
            simp only [firstTtlLe, hhead]
            refine ⟨?_, ?_⟩ <;> omega
  · have hu := hu1 (by simpa using hrc)
    rw [hu] at h3; simp at h3; obtain ⟨e1, e2⟩ := h3
    subst e1
    refine ⟨⟨_, hg2, htrace, fun hx => absurd hx hne, fun _ => hmoved⟩, ?_⟩
    intro r0 hr0; rw [← e2] at hr0; cases hr0

/-- in every reachable state the invariant holds for some history -/
theorem reach_wfi {c : Cfg} (hc : CfgOk c) (hfm : c.firstTtl ≤ c.maxTtl) (hinf : 1 ≤ c.maxInflight)
    {s : TS} (hs : Reach c s) : ∃ g, WFI c s g := by
  induction hs with
  | init t0 => exact ⟨{}, wfi_init hc t0⟩
  | step e o hr hit ih =>
    obtain ⟨g, hw⟩ := ih
    exact (wfi_step hc hfm hinf hr hw hit).1

/-- **Every published round is well-formed** — whatever the network does. -/
theorem published_round_wf {c : Cfg} (hc : CfgOk c) (hfm : c.firstTtl ≤ c.maxTtl) (hinf : 1 ≤ c.maxInflight)
    {s s' : TS} (hs : Reach c s) {e : IterEnv} {o : IterOut} (h : iter c s e = .ok (s', o))
    (r : Round) (hr : o.published = some r) : RoundWF r := by
  obtain ⟨g, hw⟩ := reach_wfi hc hfm hinf hs
  exact (wfi_step hc hfm hinf hs hw h).2 r hr

/-- the rounds published by a run, oldest first -/
def publishedRounds (outs : List IterOut) : List Round := outs.filterMap (·.published)

theorem run_rounds_wf {c : Cfg} (hc : CfgOk c) (hfm : c.firstTtl ≤ c.maxTtl) (hinf : 1 ≤ c.maxInflight) :
    ∀ (envs : List IterEnv) {s : TS}, Reach c s →
      ∀ r ∈ publishedRounds (run c s envs).outs, RoundWF r := by
  intro envs
  induction envs with
  | nil => intro s _ r hr; simp [run, publishedRounds] at hr
  | cons e es ih =>
    intro s hs r hr
    unfold run at hr
    split at hr
    · simp [publishedRounds] at hr
    · split at hr
      · rename_i s' o hit
        simp only [publishedRounds, List.filterMap_cons] at hr
        cases hp : o.published with
        | none =>
          rw [hp] at hr
          exact ih (Reach.step e o hs hit) r hr
        | some r0 =>
          rw [hp] at hr
          simp only [List.mem_cons] at hr
          rcases hr with rfl | hr
          · exact published_round_wf hc hfm hinf hs hit _ hp
          · exact ih (Reach.step e o hs hit) r hr
      · simp [publishedRounds] at hr
      · simp [publishedRounds] at hr

/-- **End to end (strategy ∘ aggregator), C10.**  For every configuration the builder and CLI accept,
every start time and every environment — any send outcomes, waits and responses, genuine or forged,
for any number of iterations — feeding the rounds the tracer publishes to a fresh aggregator state
never fails, and afterwards no query of the hop table panics. -/
theorem tracer_state_never_panics {F : Type} [Agg.Num F] {c : Cfg} (hc : CfgOk c) (hfm : c.firstTtl ≤ c.maxTtl)
    (hinf : 1 ≤ c.maxInflight) (t0 : Nat) (envs : List IterEnv) (acfg : Agg.Cfg) :
    let hist := publishedRounds (run c (init c t0) envs).outs
    ∃ st, Agg.State.run (Agg.State.new (F := F) acfg) hist = .ok st ∧
      (∃ hs, st.hops = .ok hs) ∧ (∃ hs, st.hopsForFlow 0 = .ok hs) ∧ (∃ h, st.targetHop 0 = .ok h) ∧
      (∀ hop, ∃ b, st.isTarget hop 0 = .ok b) ∧ (∀ hop, ∃ b, st.isInRound hop 0 = .ok b) ∧
      (∃ r, st.round 0 = .ok r) ∧ st.roundCount 0 = .ok hist.length := by
  intro hist
  exact C10.getters_never_panic (F := F) acfg hist (run_rounds_wf hc hfm hinf envs (Reach.init t0))

/-- **End to end (strategy ∘ aggregator), C05 / C01.**  Whatever the network does, after any run of
the tracer every hop of the default flow holds exactly the re-aggregation (counts, last / best /
worst / total, samples, per-address counts, loss classification …) of the outcomes the tracer
published for that TTL — and each of those outcomes is the one the history of sends and genuine
responses dictates (`C01_strategy`). -/
theorem tracer_hops_are_reaggregation {F : Type} [Agg.Num F] {c : Cfg} (hc : CfgOk c) (hfm : c.firstTtl ≤ c.maxTtl)
    (hinf : 1 ≤ c.maxInflight) (t0 : Nat) (envs : List IterEnv) (acfg : Agg.Cfg) :
    let hist := publishedRounds (run c (init c t0) envs).outs
    ∃ st fs, Agg.State.run (Agg.State.new (F := F) acfg) hist = .ok st ∧ Agg.lookupFlow st.flows 0 = some fs ∧
      ∀ t, 1 ≤ t → t ≤ 254 →
        ∃ h, fs.hops[t - 1]? = some h ∧ statsOf h = reagg acfg.maxSamples (outcomes t hist) := by
  intro hist
  exact C05.refinement_default_flow (F := F) acfg hist (run_rounds_wf hc hfm hinf envs (Reach.init t0))

end TV.Props.Compose

#print axioms TV.Props.Compose.published_round_wf
#print axioms TV.Props.Compose.run_rounds_wf
#print axioms TV.Props.Compose.tracer_state_never_panics
#print axioms TV.Props.Compose.tracer_hops_are_reaggregation

/-! ### wire ∘ strategy: an accepted response completes exactly the probe it answers -/
namespace TV.Props.Compose
open TV TV.Strat

/-- **The link between C02 and C01/C03.**  `C02.Accepted c r seq` is the conclusion of every C02
theorem (the response decoded from a conforming quotation of the bytes dispatched for probe `p`
validates, carries an accepted trace identifier and recovers `p`'s sequence).  If `p` is still
awaiting its first response in the round in progress, receiving such a response completes exactly
`p`'s slot with the response's data — responder, receive time, kind, TOS, checksums, extensions —
and nothing else in the buffer changes. -/
theorem accepted_response_completes {c : Cfg} (hc : CfgOk c) {s : TS} (hs : Reach c s) (r : Resp)
    (p : Probe) (hacc : Props.C02.Accepted c r p.seq) (haw : answered s p.seq = some p) (dt : Nat) :
    genuine c s r = some p ∧
    recvResponse c s dt (.resp r) = .ok (afterComplete (tick s dt) (strategyResp c r) p) ∧
    (afterComplete (tick s dt) (strategyResp c r) p).buffer[p.seq - s.roundSeq]? =
      some (.complete { probe := p, host := (strategyResp c r).addr,
                        received := (strategyResp c r).received, kind := (strategyResp c r).kind,
                        tos := (strategyResp c r).tos, expCk := (strategyResp c r).expCk,
                        actCk := (strategyResp c r).actCk, ext := (strategyResp c r).ext }) ∧
    ∀ k, k ≠ p.seq - s.roundSeq →
      (afterComplete (tick s dt) (strategyResp c r) p).buffer[k]? = s.buffer[k]? := by
  have hi := reach_inv hc hs
  obtain ⟨hv, ht, hseq⟩ := hacc
  -- the probe's slot lies in the round's window
  have hwin : inRound s p.seq = true := by
    unfold answered at haw
    split at haw
    · rename_i hge
      cases hb : s.buffer[p.seq - s.roundSeq]? with
      | none => simp [hb] at haw
      | some sl =>
        have hlt : p.seq - s.roundSeq < s.buffer.length := by
          rcases List.getElem?_eq_some_iff.mp hb with ⟨h, _⟩; exact h
        rw [hi.len] at hlt
        simp [inRound, hge, hlt]
    · cases haw
  have hgen : genuine c s r = some p := by
    unfold genuine
    rw [hseq, hv, ht, hwin]; simpa using haw
  have hlen : p.seq - s.roundSeq < s.buffer.length := by
    simp only [inRound, Bool.and_eq_true, decide_eq_true_eq] at hwin
    rw [hi.len]; exact hwin.2
  refine ⟨hgen, ?_, ?_, ?_⟩
  · rw [recvResponse_spec hi, hgen]
  · simp only [afterComplete, tick, hseq]
    rw [List.getElem?_set_self hlen]
  · intro k hk
    simp only [afterComplete, tick, hseq]
    rw [List.getElem?_set_ne (fun e => hk e.symm)]

end TV.Props.Compose

#print axioms TV.Props.Compose.accepted_response_completes
