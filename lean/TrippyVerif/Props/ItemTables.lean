import TrippyVerif.Gen.ItemTables
/-!
# C16 — the theme-colour and key-binding tables (translator tie)

Outside `build_config`'s `cfg_layer` calls two tables of options are layered by hand-written stanzas, one per item:
`TuiTheme::from((cli items, [theme-colors]))` and `TuiBindings::from((cli items, [bindings]))`.  The translator
`tools/rs2lean/itemtables.py` accepts a stanza only in the shape

    FIELD: *cli.get(&Item::V).or(file.F.as_ref()).unwrap_or(&Self::default().D)

— command line over file over default, which is `layer` below — and emits the row (FIELD, v, F, D).  Over the rows
regenerated on every run:

* `*_rows_aligned`: in every row the command-line item, the file field, the default and the result field are the
  *same* option (`v = F`, `D = FIELD`, and `F = FIELD` (bindings) / `F = FIELD ++ "_color"` (colours));
* `*_rows_complete`: the rows are exactly the item enum's variants, exactly the file section's fields and exactly the
  result structure's fields, each once — no item is dropped, none is layered twice (the deprecated `toggle-privacy`
  binding, which `build_config` rejects, is the one item that is not layered);
* `ui_rows_aligned`: what `make_tui_config` hands the user interface (`Theme::from`, `Bindings::from`) takes every field
  from the field of the same name;
* `layer_*`: the precedence law of the stanza shape.
-/
namespace TV.Props.ItemTables
open TV.Gen.ItemTables

/-- the stanza: `cli.or(file).unwrap_or(default)` -/
def layer {α : Type} (cli file : Option α) (default : α) : α := (cli.or file).getD default

theorem layer_cli {α : Type} (c : α) (file : Option α) (d : α) : layer (some c) file d = c := rfl
theorem layer_file {α : Type} (f : α) (d : α) : layer none (some f) d = f := rfl
theorem layer_default {α : Type} (d : α) : layer (none : Option α) none d = d := rfl

theorem theme_rows_aligned :
    ∀ r ∈ themeRows, r.2.1 = r.2.2.1 ∧ r.2.2.2 = r.1 ∧ r.2.2.1 = r.1 ++ "_color" := by decide

theorem binding_rows_aligned :
    ∀ r ∈ bindingRows, r.2.1 = r.2.2.1 ∧ r.2.2.2 = r.1 ∧ r.2.2.1 = r.1 := by decide

/-- the one item that is deliberately not layered: the deprecated `toggle-privacy` binding is rejected by
`build_config` with a hint when given (on the command line or in the file) -/
def notLayered : List String := ["deprecated_toggle_privacy"]

/-- `xs` and `ys` have the same members and `xs` has no duplicates -/
def SameSet (xs ys : List String) : Prop := xs.Nodup ∧ (∀ x ∈ xs, x ∈ ys) ∧ ∀ y ∈ ys, y ∈ xs
instance (xs ys : List String) : Decidable (SameSet xs ys) := by unfold SameSet; infer_instance

theorem theme_rows_complete :
    SameSet (themeRows.map (·.2.1)) themeItems ∧ SameSet (themeRows.map (·.2.2.1)) themeFileFields ∧
    SameSet (themeRows.map (·.1)) themeResultFields := by decide

theorem binding_rows_complete :
    SameSet (bindingRows.map (·.2.1) ++ notLayered) bindingItems ∧
    SameSet (bindingRows.map (·.2.2.1) ++ notLayered) bindingFileFields ∧
    SameSet (bindingRows.map (·.1)) bindingResultFields := by decide

/-- **the user interface gets every option under its own name**: `Theme::from(TuiTheme)` and
`Bindings::from(TuiBindings)` convert field `f` from field `f`, for exactly the fields of the configuration -/
theorem ui_rows_aligned :
    (∀ r ∈ themeUiRows, r.1 = r.2) ∧ SameSet (themeUiRows.map (·.1)) themeResultFields ∧
    (∀ r ∈ bindingUiRows, r.1 = r.2) ∧ SameSet (bindingUiRows.map (·.1)) bindingResultFields := by decide

/-- non-vacuity: the tables are not empty -/
theorem tables_nonempty : themeRows.length = themeItems.length ∧ 0 < themeRows.length ∧
    bindingRows.length + 1 = bindingItems.length ∧ 0 < bindingRows.length := by decide

#print axioms layer_cli
#print axioms layer_file
#print axioms layer_default
#print axioms theme_rows_aligned
#print axioms binding_rows_aligned
#print axioms theme_rows_complete
#print axioms binding_rows_complete
#print axioms ui_rows_aligned
#print axioms tables_nonempty
end TV.Props.ItemTables
