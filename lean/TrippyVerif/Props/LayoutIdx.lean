import TrippyVerif.Gen.LayoutIdx
/-!
# C17 — the frame's panels exist (translator tie)

Every render function that splits its area into chunks and then picks chunks by number: the numbers are below the
number of chunks — for the top-level frame (`render/app.rs`), whose layout depends on the number of traces and on the
flows panel, under every arm of the chain that draws, which is required to test the very conditions of the chain that
chose the layout (the translator `tools/rs2lean/layoutidx.py` refuses anything else).  `Gen/LayoutIdx.lean` is
regenerated from the source on every run.
-/
namespace TV.Props.LayoutIdx
open TV.Gen.LayoutIdx

theorem indices_within_layout : ∀ r ∈ layoutUses, r.2.2.2 < r.2.2.1 := by decide

theorem indices_within_chosen_layout : ∀ r ∈ layoutBranches, r.2.2.2 < r.2.2.1 := by decide

/-- non-vacuity: the top-level frame and the dialogs are among them -/
theorem layouts_found : 5 ≤ layoutUses.length ∧ 3 ≤ layoutBranches.length ∧
    (layoutBranches.map (·.1)).contains "app.rs::render" = true := by decide

#print axioms indices_within_layout
#print axioms indices_within_chosen_layout
#print axioms layouts_found
end TV.Props.LayoutIdx
