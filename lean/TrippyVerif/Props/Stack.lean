import TrippyVerif.Lemmas.Stack
import TrippyVerif.Props.Compose
import TrippyVerif.Props.Channel
/-!
# The whole stack (`Tracer::run` = Channel + Strategy + State): refinement and end-to-end theorems

`TV.Stack.iter` (`Model/Stack.lean`) is one iteration of the loop of `Strategy::run` with the real
`Channel` as its network and the `Tracer`'s `handler` as its publisher, over a *socket-level*
environment.  This file proves that it refines the abstract state machine of `Model/Strategy.lean`
— so every strategy-layer theorem (C01 C03 C06 C07 C08 C09) is a theorem about the stack — and
folds the layer theorems into statements that mention only socket-level facts:

* `iter_refines` / `loop_refines`: a stack iteration is `Strat.iter` for the environment the
  channel produced (`absEnv`); the tracing state of every stack run is `Strat.Reach`able.
* `stack_rounds_wf`, `stack_state_is_aggregation`: every round the stack publishes is well-formed
  and the `State` it maintains is the aggregation of exactly the published rounds (C05/C10 apply).
* `datagram_completes_probe` (C01 ∘ C02 ∘ Channel): if the bytes the receive socket delivers decode
  (`Wire.recvIcmp`) to a response that is `Accepted` for an awaited probe — which the C02 theorems
  show for every conforming quotation of the bytes dispatched for that probe — then after the
  iteration that probe's slot is `Complete` with the responder's address and the receive time.
* `error_recorded`: a run that ends with an error carries that error in its state
  (`State::error`), hops untouched (C09).
-/
namespace TV.Props.Stack
open TV TV.Strat TV.Stack

/-- the abstract environment of a stack iteration: the outcomes the channel produced, the wait, and
what `recv_probe` returned -/
def absRecv (ch : Chan.Chan) (e : Env) : R RecvOutcome :=
  recvOutcome (ch.now + e.dt) (Chan.recv (Chan.advance ch e.dt) e.recv).out

/-- **Refinement.**  A successful stack iteration is an iteration of the abstract state machine
for the outcomes the channel produced; the `State` is updated with the published round, if any,
and only then. -/
theorem iter_refines {F : Type} [Agg.Num F] {c : Cfg} {st st' : St F} {e : Env} {o : Out}
    (h : Stack.iter c st e = .ok (st', o)) :
    ∃ ro, Strat.iter c st.ts { sends := o.sent.map (·.2), dt := e.dt, recv := ro } =
        .ok (st'.ts, { sent := o.sent, published := o.published }) ∧
      (match o.published with
       | none => st'.agg = st.agg
       | some r => st.agg.updateFromRound r = .ok st'.agg) ∧
      st'.error = st.error := by
  unfold Stack.iter at h
  cases hs : sendRequestS c st.chan st.ts e.injs with
  | panic => simp [hs] at h
  | err er => simp [hs] at h
  | ok r =>
    obtain ⟨ch, ts, sent, calls⟩ := r
    have hsr := sendRequestS_ok hs
    simp only [hs, R.bind_ok] at h
    cases hro : recvOutcome (Chan.advance ch e.dt).now (Chan.recv (Chan.advance ch e.dt) e.recv).out with
    | panic => simp [hro] at h
    | err er => simp [hro] at h
    | ok ro =>
      simp only [hro, R.bind_ok] at h
      cases hrv : recvResponse c ts e.dt ro with
      | panic => simp [hrv] at h
      | err er => simp [hrv] at h
      | ok ts2 =>
        simp only [hrv, R.bind_ok] at h
        cases hu : updateRound c ts2 with
        | panic => simp [hu] at h
        | err er => simp [hu] at h
        | ok v =>
          obtain ⟨ts3, pub⟩ := v
          simp only [hu, R.bind_ok] at h
          refine ⟨ro, ?_⟩
          cases pub with
          | none =>
            simp only [R.bind_ok] at h
            cases h
            refine ⟨?_, rfl, rfl⟩
            simp only [Strat.iter] at hsr ⊢
            simp [hsr, hrv, hu]
          | some rd =>
            cases ha : st.agg.updateFromRound rd with
            | panic => simp [ha] at h
            | err er => simp [ha] at h
            | ok agg' =>
              simp only [ha, R.bind_ok] at h
              cases h
              refine ⟨?_, ha, rfl⟩
              simp only [Strat.iter] at hsr ⊢
              simp [hsr, hrv, hu]

/-- the rounds a list of stack iterations published, oldest first -/
def published (outs : List Out) : List Round := outs.filterMap (·.published)

/-- **Every state of a stack run is a state of the abstract machine**, and the `State` is the fold
of `update_from_round` over exactly the rounds published so far. -/
theorem loop_refines {F : Type} [Agg.Num F] {c : Cfg} : ∀ (envs : List Env) (st : St F),
    Reach c st.ts →
    Reach c (Stack.loop c st envs).1.ts ∧
    Agg.State.run st.agg (published (Stack.loop c st envs).2.1) = .ok (Stack.loop c st envs).1.agg := by
  intro envs
  induction envs with
  | nil => intro st hr; simp [Stack.loop, published, Agg.State.run, hr]
  | cons e es ih =>
    intro st hr
    unfold Stack.loop
    by_cases hf : finished st.ts c.maxRounds = true
    · simp [hf, published, Agg.State.run, hr]
    · simp only [hf, Bool.false_eq_true, if_false]
      cases hi : Stack.iter c st e with
      | panic => simp [published, Agg.State.run, hr]
      | err er => simp [published, Agg.State.run, hr]
      | ok v =>
        obtain ⟨st', o⟩ := v
        obtain ⟨ro, hit, hagg, _⟩ := iter_refines hi
        have hr' : Reach c st'.ts := Reach.step _ _ hr hit
        obtain ⟨h1, h2⟩ := ih st' hr'
        simp only
        refine ⟨h1, ?_⟩
        simp only [published, List.filterMap_cons]
        cases hp : o.published with
        | none =>
          rw [hp] at hagg; simp only at hagg
          rw [← hagg]; exact h2
        | some rd =>
          rw [hp] at hagg; simp only at hagg
          simp only [Agg.State.run, hagg, R.bind_ok]
          exact h2

/-- **Every round the stack publishes is well-formed** (what the aggregator theorems need) —
whatever the sockets do. -/
theorem loop_rounds_wf {F : Type} [Agg.Num F] {c : Cfg} (hc : CfgOk c) (hfm : c.firstTtl ≤ c.maxTtl)
    (hinf : 1 ≤ c.maxInflight) : ∀ (envs : List Env) (st : St F), Reach c st.ts →
    ∀ r ∈ published (Stack.loop c st envs).2.1, Reagg.RoundWF r := by
  intro envs
  induction envs with
  | nil => intro st _ r hr; simp [Stack.loop, published] at hr
  | cons e es ih =>
    intro st hreach r hr
    unfold Stack.loop at hr
    by_cases hf : finished st.ts c.maxRounds = true
    · simp [hf, published] at hr
    · simp only [hf, Bool.false_eq_true, if_false] at hr
      cases hi : Stack.iter c st e with
      | panic => simp [hi, published] at hr
      | err er => simp [hi, published] at hr
      | ok v =>
        obtain ⟨st', o⟩ := v
        obtain ⟨ro, hit, _, _⟩ := iter_refines hi
        simp only [hi, published, List.filterMap_cons] at hr
        cases hp : o.published with
        | none =>
          rw [hp] at hr
          exact ih st' (Reach.step _ _ hreach hit) r hr
        | some r0 =>
          rw [hp] at hr
          simp only [List.mem_cons] at hr
          rcases hr with rfl | hr
          · exact Compose.published_round_wf hc hfm hinf hreach hit _ hp
          · exact ih st' (Reach.step _ _ hreach hit) r hr

/-- a run that got past `connect` -/
theorem run_connected {F : Type} [Agg.Num F] (k : TracerCfg) (t0 : Nat) (envs : List Env)
    {ch : Chan.Chan} {ops : List Chan.ConnOp} (hcn : Chan.connect k.conn t0 = .ok (ch, ops)) :
    Stack.run (F := F) k t0 envs =
      (let l := Stack.loop (F := F) k.strat
          { chan := ch, ts := init k.strat t0, agg := Agg.State.new k.agg } envs
       { state := some l.1, connOps := ops, outs := l.2.1, ended := l.2.2 }) := by
  simp [Stack.run, hcn]

/-- **The `State` of the tracer is the aggregation of exactly the rounds it published** (C01 last
clause, C05, C10 for the whole stack): for every accepted configuration, every start time and
every socket-level environment — any I/O errors, waits, datagrams, TCP socket answers, for any
number of iterations — the state after the run is `State::new` folded over the published rounds,
all of which are well-formed; hence (C10) no query of the hop table panics and (C05) every hop of
the default flow equals the re-aggregation of the outcomes published for its TTL. -/
theorem stack_state_is_aggregation {F : Type} [Agg.Num F] (k : TracerCfg) (hc : CfgOk k.strat)
    (hfm : k.strat.firstTtl ≤ k.strat.maxTtl) (hinf : 1 ≤ k.strat.maxInflight) (t0 : Nat)
    (envs : List Env) (st : St F) (h : (Stack.run (F := F) k t0 envs).state = some st) :
    let hist := published (Stack.run (F := F) k t0 envs).outs
    Reach k.strat st.ts ∧
    (∀ r ∈ hist, Reagg.RoundWF r) ∧
    Agg.State.run (Agg.State.new (F := F) k.agg) hist = .ok st.agg ∧
    (∃ hs, st.agg.hops = .ok hs) ∧ (∃ hp, st.agg.targetHop 0 = .ok hp) ∧
    st.agg.roundCount 0 = .ok hist.length ∧
    (∃ fs, Agg.lookupFlow st.agg.flows 0 = some fs ∧
      ∀ t, 1 ≤ t → t ≤ 254 →
        ∃ hp, fs.hops[t - 1]? = some hp ∧
          Reagg.statsOf hp = Reagg.reagg k.agg.maxSamples (Reagg.outcomes t hist)) := by
  intro hist
  cases hcn : Chan.connect k.conn t0 with
  | panic => simp [Stack.run, hcn] at h
  | err e => simp [Stack.run, hcn] at h
  | ok v =>
    obtain ⟨ch, ops⟩ := v
    have hrun := run_connected (F := F) k t0 envs hcn
    rw [hrun] at h
    simp only [Option.some.injEq] at h
    have hist_eq : hist = published (Stack.loop k.strat
        ({ chan := ch, ts := init k.strat t0, agg := Agg.State.new k.agg } : St F) envs).2.1 := by
      show published (Stack.run (F := F) k t0 envs).outs = _
      rw [hrun]
    obtain ⟨hr, hagg⟩ := loop_refines (F := F) (c := k.strat) envs
      { chan := ch, ts := init k.strat t0, agg := Agg.State.new k.agg } (Reach.init t0)
    have hwf := loop_rounds_wf (F := F) hc hfm hinf envs
      { chan := ch, ts := init k.strat t0, agg := Agg.State.new k.agg } (Reach.init t0)
    rw [h] at hr hagg
    rw [← hist_eq] at hagg hwf
    simp only at hagg
    obtain ⟨st1, hrun1, hhops, _, htgt, _, _, _, hcount⟩ := C10.getters_never_panic (F := F) k.agg hist hwf
    rw [hagg] at hrun1; cases hrun1
    obtain ⟨st2, fs, hrun2, hfs, hall⟩ := C05.refinement_default_flow (F := F) k.agg hist hwf
    rw [hagg] at hrun2; cases hrun2
    exact ⟨hr, hwf, hagg, hhops, htgt, hcount, fs, hfs, hall⟩

/-- **A fatal error is recorded in the state** (C09): when the loop ends with an error value, the
state carries exactly that error (`State::set_error` through `handle_error`), the rounds folded
into it so far are untouched, and nothing is published afterwards. -/
theorem loop_error_recorded {F : Type} [Agg.Num F] {c : Cfg} : ∀ (envs : List Env) (st : St F) (er : Err),
    (Stack.loop c st envs).2.2 = some (.err er) → (Stack.loop c st envs).1.error = some er := by
  intro envs
  induction envs with
  | nil => intro st er h; simp only [Stack.loop] at h; split at h <;> simp at h
  | cons e es ih =>
    intro st er h
    unfold Stack.loop at h ⊢
    by_cases hf : finished st.ts c.maxRounds = true
    · simp [hf] at h
    · simp only [hf, Bool.false_eq_true, if_false] at h ⊢
      cases hi : Stack.iter c st e with
      | panic => simp [hi] at h
      | err er' => simp [hi] at h ⊢; exact h
      | ok v =>
        obtain ⟨st', o⟩ := v
        simp only [hi] at h ⊢
        exact ih st' er h

/-- a run never loses an error it did not have: without an error ending, the error field stays as
it was (`None` for a fresh tracer) -/
theorem loop_no_error {F : Type} [Agg.Num F] {c : Cfg} : ∀ (envs : List Env) (st : St F),
    (∀ er, (Stack.loop c st envs).2.2 ≠ some (.err er)) → (Stack.loop c st envs).1.error = st.error := by
  intro envs
  induction envs with
  | nil => intro st _; simp [Stack.loop]
  | cons e es ih =>
    intro st h
    unfold Stack.loop at h ⊢
    by_cases hf : finished st.ts c.maxRounds = true
    · simp [hf]
    · simp only [hf, Bool.false_eq_true, if_false] at h ⊢
      cases hi : Stack.iter c st e with
      | panic => simp
      | err er' => simp [hi] at h
      | ok v =>
        obtain ⟨st', o⟩ := v
        simp only [hi] at h ⊢
        rw [ih st' h]
        exact (iter_refines hi).choose_spec.2.2

/-! ## C01 ∘ C02 ∘ Channel: a delivered datagram completes exactly the probe it answers -/

/-- how the tracer must report probe `p` once response `r` has been accepted for it -/
def completeOf (c : Cfg) (r : Resp) (p : Probe) : Complete :=
  { probe := p, host := r.addr, received := r.recv, kind := (strategyResp c r).kind,
    tos := (strategyResp c r).tos, expCk := (strategyResp c r).expCk,
    actCk := (strategyResp c r).actCk, ext := (strategyResp c r).ext }

theorem strategyResp_addr_recv (c : Cfg) (r : Resp) :
    (strategyResp c r).addr = r.addr ∧ (strategyResp c r).received = r.recv := by
  simp only [strategyResp]
  cases r.kind <;> simp

/-- **End to end, receive side (core).**  The tracer has run its send step (`hsend`) and
`recv_probe` returns the response `w` (`hrecv`), which is `Accepted` for the probe `p` still awaiting
its first answer.  Then the strategy completes exactly `p`'s slot with the responder's address
(`addrNat w.addr`), the receive time (the clock after the wait) and the response's kind, leaves every
other slot alone, and if this very iteration publishes the round, the published round reports `p`
complete with those data. -/
theorem response_completes_probe {F : Type} [Agg.Num F] {c : Cfg} (hc : CfgOk c) {st : St F}
    (hs : Reach c st.ts) {e : Env} {ch : Chan.Chan} {ts1 : TS} {sent : List (Probe × SendOutcome)}
    {calls : List (List Wire.SockOp)}
    (hsend : sendRequestS c st.chan st.ts e.injs = .ok (ch, ts1, sent, calls)) (w : Wire.WResp)
    (hrecv : (Chan.recv (Chan.advance ch e.dt) e.recv).out = .ok (some w)) (p : Probe)
    (hacc : C02.Accepted c (w.toStrat (st.chan.now + e.dt)) p.seq)
    (haw : answered ts1 p.seq = some p) :
    (w.toStrat (st.chan.now + e.dt)).addr = Wire.addrNat w.addr ∧
    (w.toStrat (st.chan.now + e.dt)).recv = st.chan.now + e.dt ∧
    ∃ ts2, recvResponse c ts1 e.dt (.resp (w.toStrat (st.chan.now + e.dt))) = .ok ts2 ∧
      ts2.buffer[p.seq - ts1.roundSeq]? =
        some (.complete (completeOf c (w.toStrat (st.chan.now + e.dt)) p)) ∧
      (∀ k, k ≠ p.seq - ts1.roundSeq → ts2.buffer[k]? = ts1.buffer[k]?) ∧
      ∀ (st' : St F) (o : Out), Stack.iter c st e = .ok (st', o) →
        o.recv = some w ∧ o.sent = sent ∧
        ∀ r, o.published = some r →
          r.probes[p.seq - ts1.roundSeq]? =
            some (.complete (completeOf c (w.toStrat (st.chan.now + e.dt)) p)) := by
  generalize hresp : w.toStrat (st.chan.now + e.dt) = resp at hacc ⊢
  have hsame := sendRequestS_chan hsend
  simp only [SameChan] at hsame
  have hi := reach_inv hc hs
  have hsr := sendRequestS_ok hsend
  simp only at hsr
  have hi1 : Inv c ts1 := ((sendRequest_spec hc hi _).2 _ _ hsr).1
  refine ⟨by rw [← hresp]; rfl, by rw [← hresp]; rfl, ?_⟩
  -- the strategy's receive step: the response is genuine for `p`
  obtain ⟨hge, hltseq, _, hround, _, _, hslotp⟩ := answered_props hi1 haw
  have hlen : p.seq - ts1.roundSeq < ts1.buffer.length := by
    rcases List.getElem?_eq_some_iff.mp hslotp with ⟨h, _⟩; exact h
  have hwin : inRound ts1 p.seq = true := by
    have := hi1.len; simp [inRound, hge]; omega
  obtain ⟨hv, ht, hseq⟩ := hacc
  have hgen : genuine c ts1 resp = some p := by
    unfold genuine
    rw [hseq, hv, ht, hwin]; simpa using haw
  obtain ⟨haddr, hrecvt⟩ := strategyResp_addr_recv c resp
  have hans : answered (tick ts1 e.dt) (strategyResp c resp).seq = some p := by
    rw [answered_tick, hseq]; exact haw
  have hi2 : Inv c (afterComplete (tick ts1 e.dt) (strategyResp c resp) p) :=
    inv_afterComplete (inv_tick hi1 _) _ hans
  have hrr : recvResponse c ts1 e.dt (.resp resp) =
      .ok (afterComplete (tick ts1 e.dt) (strategyResp c resp) p) := by
    rw [recvResponse_spec hi1, hgen]
  have hslot : (afterComplete (tick ts1 e.dt) (strategyResp c resp) p).buffer[p.seq - ts1.roundSeq]? =
      some (.complete (completeOf c resp p)) := by
    simp only [afterComplete, tick, hseq, completeOf, haddr, hrecvt]
    rw [List.getElem?_set_self hlen]
  refine ⟨_, hrr, hslot, ?_, ?_⟩
  · intro k hk
    simp only [afterComplete, tick, hseq]
    rw [List.getElem?_set_ne (fun h => hk h.symm)]
  · intro st' o hit
    unfold Stack.iter at hit
    have hnow : (Chan.advance ch e.dt).now = st.chan.now + e.dt := by simp [Chan.advance, hsame.2.1]
    simp only [hsend, R.bind_ok, hrecv, recvOutcome, hnow, hresp, hrr] at hit
    obtain ⟨hu1, hu2⟩ := updateRound_spec hc hi2
    by_cases hrc : roundComplete c (afterComplete (tick ts1 e.dt) (strategyResp c resp) p) = true
    · obtain ⟨r, hr, hu⟩ := hu2 hrc
      simp only [hu, R.bind_ok] at hit
      cases ha : st.agg.updateFromRound r with
      | panic => simp [ha] at hit
      | err er => simp [ha] at hit
      | ok agg' =>
        simp only [ha, R.bind_ok] at hit
        cases hit
        refine ⟨rfl, rfl, ?_⟩
        intro r0 hr0
        cases hr0
        obtain ⟨r', hr', hprobes, _⟩ := publishTrace_ok hc hi2
        rw [hr] at hr'; cases hr'
        rw [hprobes, List.getElem?_take]
        have hk := (hi2.slots _ _ p hslot (by simp [Slot.probe?, completeOf])).2
          (by simpa [afterComplete, tick] using hround)
        rw [if_pos hk.1]; exact hslot
    · have hu := hu1 (by simpa using hrc)
      simp only [hu, R.bind_ok] at hit
      cases hit
      exact ⟨rfl, rfl, fun r0 hr0 => by cases hr0⟩

/-- **End to end, receive side, ICMP path.**  For an ICMP or UDP trace: the receive socket is
readable and delivers `bytes` which the family's receive code decodes to a response `w` that is
`Accepted` for the probe `p` — the conclusion of every C02 theorem for a conforming quotation of the
bytes dispatched for `p`.  Then `recv_probe` returns `w` and `response_completes_probe` applies. -/
theorem datagram_completes_probe {F : Type} [Agg.Num F] {c : Cfg} (hc : CfgOk c) {st : St F}
    (hs : Reach c st.ts) {e : Env} {ch : Chan.Chan} {ts1 : TS} {sent : List (Probe × SendOutcome)}
    {calls : List (List Wire.SockOp)}
    (hsend : sendRequestS c st.chan st.ts e.injs = .ok (ch, ts1, sent, calls))
    (hp : st.chan.cfg.proto ≠ .tcp) (hrd : e.recv.readable = .yes) (src bytes : Buf)
    (hdg : e.recv.dgram = .data src bytes) (w : Wire.WResp)
    (hw : Wire.recvIcmp st.chan.cfg (bytes.take 1024) src = .ok (some w)) (p : Probe)
    (hacc : C02.Accepted c (w.toStrat (st.chan.now + e.dt)) p.seq)
    (haw : answered ts1 p.seq = some p) :
    (Chan.recv (Chan.advance ch e.dt) e.recv).out = .ok (some w) ∧
    (w.toStrat (st.chan.now + e.dt)).addr = Wire.addrNat w.addr ∧
    (w.toStrat (st.chan.now + e.dt)).recv = st.chan.now + e.dt ∧
    ∃ ts2, recvResponse c ts1 e.dt (.resp (w.toStrat (st.chan.now + e.dt))) = .ok ts2 ∧
      ts2.buffer[p.seq - ts1.roundSeq]? =
        some (.complete (completeOf c (w.toStrat (st.chan.now + e.dt)) p)) ∧
      (∀ k, k ≠ p.seq - ts1.roundSeq → ts2.buffer[k]? = ts1.buffer[k]?) ∧
      ∀ (st' : St F) (o : Out), Stack.iter c st e = .ok (st', o) →
        o.recv = some w ∧ o.sent = sent ∧
        ∀ r, o.published = some r →
          r.probes[p.seq - ts1.roundSeq]? =
            some (.complete (completeOf c (w.toStrat (st.chan.now + e.dt)) p)) := by
  have hsame := sendRequestS_chan hsend
  simp only [SameChan] at hsame
  have hrecv : (Chan.recv (Chan.advance ch e.dt) e.recv).out = .ok (some w) := by
    have hcfg : (Chan.advance ch e.dt).cfg = st.chan.cfg := by simp [Chan.advance, hsame.1]
    have h1 := (Channel.recv_is_wire_recv (Chan.advance ch e.dt) e.recv).1 (by rw [hcfg]; exact hp)
    have h2 := (Channel.recv_is_wire_recv (Chan.advance ch e.dt) e.recv).2.1 src bytes hrd hdg
    rw [h1, h2, hcfg]; exact hw
  exact ⟨hrecv, response_completes_probe (F := F) hc hs hsend w hrecv p hacc haw⟩

/-- **End to end, receive side, TCP handshake.**  For a TCP trace: among the outstanding probes
that are still young, the first whose socket is writable is `x`, the socket of probe `p` (same
ports), and it reports connected (peer known), refused, or an ICMP error.  Then `recv_probe` answers
with a response accepted for exactly `p` (`C02.tcp_handshake`), and `p`'s slot is completed with the
target's address (or the reporting router's) and the clock after the wait. -/
theorem handshake_completes_probe {F : Type} [Agg.Num F] {c : Cfg} (hc : CfgOk c) {st : St F}
    (hs : Reach c st.ts) {e : Env} {ch : Chan.Chan} {ts1 : TS} {sent : List (Probe × SendOutcome)}
    {calls : List (List Wire.SockOp)}
    (hsend : sendRequestS c st.chan st.ts e.injs = .ok (ch, ts1, sent, calls))
    (hcs : C02.Compat st.chan.cfg c) (hp : st.chan.cfg.proto = .tcp)
    (ts0 : TS) (ttl : Nat) (p : Probe) (hem : C11.emitted c ts0 ttl = .ok p)
    (haw : answered ts1 p.seq = some p) (x : Chan.TcpEntry × Chan.SockEnv)
    (hfw : (Chan.firstWritable (Chan.kept (Chan.advance ch e.dt) e.recv)).2.1 = some x)
    (hports : x.1.srcPort = p.srcPort ∧ x.1.destPort = p.destPort)
    (hsock : x.2 = .refused ∨ (∃ a, x.2 = .connected (some a)) ∨ (∃ a, x.2 = .unreach a)) :
    ∃ w, (Chan.recv (Chan.advance ch e.dt) e.recv).out = .ok (some w) ∧
      ∃ ts2, recvResponse c ts1 e.dt (.resp (w.toStrat (st.chan.now + e.dt))) = .ok ts2 ∧
        ts2.buffer[p.seq - ts1.roundSeq]? =
          some (.complete (completeOf c (w.toStrat (st.chan.now + e.dt)) p)) ∧
        (∀ k, k ≠ p.seq - ts1.roundSeq → ts2.buffer[k]? = ts1.buffer[k]?) ∧
        ∀ (st' : St F) (o : Out), Stack.iter c st e = .ok (st', o) →
          ∀ r, o.published = some r →
            r.probes[p.seq - ts1.roundSeq]? =
              some (.complete (completeOf c (w.toStrat (st.chan.now + e.dt)) p)) := by
  have hsame := sendRequestS_chan hsend
  simp only [SameChan] at hsame
  have hcfg : (Chan.advance ch e.dt).cfg = st.chan.cfg := by simp [Chan.advance, hsame.1]
  have ho := (Channel.recv_is_wire_recv (Chan.advance ch e.dt) e.recv).2.2.2 (by rw [hcfg]; exact hp)
  rw [hfw] at ho; simp only at ho
  -- what the socket says, as `Wire.recvTcp` sees it
  obtain ⟨sock, hsk, hto⟩ : ∃ sock : Wire.TcpSock, (sock ≠ .connected none ∧ sock ≠ .other) ∧
      Chan.tcpOutcome (Chan.advance ch e.dt).cfg x.1 x.2 = Wire.recvTcp st.chan.cfg p.srcPort p.destPort sock := by
    rcases hsock with h | ⟨a, h⟩ | ⟨a, h⟩
    · exact ⟨.refused, ⟨by simp, by simp⟩, by rw [h, hcfg, ← hports.1, ← hports.2]; rfl⟩
    · exact ⟨.connected (some a), ⟨by simp, by simp⟩, by rw [h, hcfg, ← hports.1, ← hports.2]; rfl⟩
    · exact ⟨.hostUnreachable a, ⟨by simp, by simp⟩, by rw [h, hcfg, ← hports.1, ← hports.2]; rfl⟩
  obtain ⟨w, hw, hacc, _⟩ := C02.tcp_handshake st.chan.cfg c hcs hp ts0 ttl p hem sock hsk (st.chan.now + e.dt)
  have hrecv : (Chan.recv (Chan.advance ch e.dt) e.recv).out = .ok (some w) := by
    rw [ho, hto, hw]
  obtain ⟨_, _, ts2, h1, h2, h3, h4⟩ := response_completes_probe (F := F) hc hs hsend w hrecv p hacc haw
  exact ⟨w, hrecv, ts2, h1, h2, h3, fun st' o hit r hr => (h4 st' o hit).2.2 r hr⟩

/-- **ICMP over IPv4, socket to published round** (`datagram_completes_probe` ∘ `C02.icmp_v4`): a
router or the target returns the Echo Request the tracer dispatched for probe `p` — quoted
(`quote4`: TOS / total length / TTL / header checksum rewritten, IP header + 8 + `n` octets, any
`n`) in a Time Exceeded or Destination Unreachable message of any embedding (plain, RFC 4884
compliant or legacy, any extension structure), from any responder, in a datagram that fits the
receive buffer.  Then `p` — and only `p` — is reported complete, with that responder as its host
and the clock after the wait as its receive time. -/
theorem icmp_v4_end_to_end {F : Type} [Agg.Num F] {c : Cfg} (hc : CfgOk c) {st : St F}
    (hs : Reach c st.ts) {e : Env} {ch : Chan.Chan} {ts1 : TS} {sent : List (Probe × SendOutcome)}
    {calls : List (List Wire.SockOp)}
    (hsend : sendRequestS c st.chan st.ts e.injs = .ok (ch, ts1, sent, calls))
    (hcs : C02.Compat st.chan.cfg c) (haddr : st.chan.cfg.AddrOk) (hv : st.chan.cfg.v6 = false)
    (hp : st.chan.cfg.proto = .icmp) (hsz : Wire.SizeOk st.chan.cfg)
    (ts0 : TS) (ttl : Nat) (p : Probe) (hem : C11.emitted c ts0 ttl = .ok p) (hpr : Wire.ProbeOk p)
    (haw : answered ts1 p.seq = some p)
    (k : Quote.KernelFill) (d : Buf) (hd : Quote.wireDatagram st.chan.cfg k p = some d)
    (m : C02.ErrMsg false) (o : Quote.Outer4) (responder src : Buf) (hr : responder.length = 4)
    (mu : Quote.Mut4) (n : Nat) (hb : Wire.BodyOk false (Quote.quote4 mu d n) m.b)
    (hfit : (Quote.deliver st.chan.cfg o responder
        (Quote.icmpMessage false m.h m.b (Quote.quote4 mu d n))).length ≤ 1024)
    (hrd : e.recv.readable = .yes)
    (hdg : e.recv.dgram = .data src (Quote.deliver st.chan.cfg o responder
        (Quote.icmpMessage false m.h m.b (Quote.quote4 mu d n)))) :
    ∃ resp : Resp, resp.addr = Wire.addrNat responder ∧ resp.recv = st.chan.now + e.dt ∧
      resp.kind = m.kind ∧
      ∃ ts2, recvResponse c ts1 e.dt (.resp resp) = .ok ts2 ∧
        ts2.buffer[p.seq - ts1.roundSeq]? = some (.complete (completeOf c resp p)) ∧
        (∀ j, j ≠ p.seq - ts1.roundSeq → ts2.buffer[j]? = ts1.buffer[j]?) ∧
        ∀ (st' : St F) (out : Out), Stack.iter c st e = .ok (st', out) →
          ∀ r, out.published = some r →
            r.probes[p.seq - ts1.roundSeq]? = some (.complete (completeOf c resp p)) := by
  obtain ⟨w, hw, hwa, hwk, hacc⟩ := C02.icmp_v4 st.chan.cfg c hcs haddr hv hp hsz ts0 ttl p hem hpr k d hd
    m o responder src hr mu n hb (st.chan.now + e.dt)
  have htake : ∀ (b : Buf), b.length ≤ 1024 → b.take 1024 = b := fun b hb => List.take_of_length_le hb
  have hw' : Wire.recvIcmp st.chan.cfg ((Quote.deliver st.chan.cfg o responder
      (Quote.icmpMessage false m.h m.b (Quote.quote4 mu d n))).take 1024) src = .ok (some w) := by
    rw [htake _ hfit]; exact hw
  obtain ⟨_, ha, hrt, ts2, h1, h2, h3, h4⟩ := datagram_completes_probe (F := F) hc hs hsend
    (by rw [hp]; simp) hrd src _ hdg w hw' p hacc haw
  refine ⟨w.toStrat (st.chan.now + e.dt), by rw [ha, hwa], hrt, by simpa [Wire.WResp.toStrat] using hwk,
    ts2, h1, h2, h3, fun st' out hit r hr => (h4 st' out hit).2.2 r hr⟩

/-- **Socket to published round, every cell.**  `hC02` is verbatim the conclusion of *every* positive
C02 theorem (`icmp_v4`, `udp_v4`, `udp_v4_unprivileged`, `tcp_v4`, `icmp_v6`, `udp_v6`,
`udp_v6_unprivileged`, `tcp_v6`, `echo_reply`) for the datagram `bytes` the receive socket delivers:
it decodes to a response from `responder` of kind `kind`, accepted for probe `p`.  Then — for an
ICMP or UDP trace, `p` awaiting its answer, the datagram fitting the receive buffer — `p` and only
`p` is reported complete with that responder, kind and the clock after the wait, in the tracer state
and in the round if this iteration publishes it. -/
theorem socket_to_round {F : Type} [Agg.Num F] {c : Cfg} (hc : CfgOk c) {st : St F}
    (hs : Reach c st.ts) {e : Env} {ch : Chan.Chan} {ts1 : TS} {sent : List (Probe × SendOutcome)}
    {calls : List (List Wire.SockOp)}
    (hsend : sendRequestS c st.chan st.ts e.injs = .ok (ch, ts1, sent, calls))
    (hp : st.chan.cfg.proto ≠ .tcp) (p : Probe) (haw : answered ts1 p.seq = some p)
    (src bytes responder : Buf) (kind : RespKind) (hfit : bytes.length ≤ 1024)
    (hrd : e.recv.readable = .yes) (hdg : e.recv.dgram = .data src bytes)
    (hC02 : ∃ w, Wire.recvIcmp st.chan.cfg bytes src = .ok (some w) ∧ w.addr = responder ∧ w.kind = kind ∧
      C02.Accepted c (w.toStrat (st.chan.now + e.dt)) p.seq) :
    ∃ resp : Resp, resp.addr = Wire.addrNat responder ∧ resp.recv = st.chan.now + e.dt ∧ resp.kind = kind ∧
      ∃ ts2, recvResponse c ts1 e.dt (.resp resp) = .ok ts2 ∧
        ts2.buffer[p.seq - ts1.roundSeq]? = some (.complete (completeOf c resp p)) ∧
        (∀ j, j ≠ p.seq - ts1.roundSeq → ts2.buffer[j]? = ts1.buffer[j]?) ∧
        ∀ (st' : St F) (out : Out), Stack.iter c st e = .ok (st', out) →
          ∀ r, out.published = some r →
            r.probes[p.seq - ts1.roundSeq]? = some (.complete (completeOf c resp p)) := by
  obtain ⟨w, hw, hwa, hwk, hacc⟩ := hC02
  have hw' : Wire.recvIcmp st.chan.cfg (bytes.take 1024) src = .ok (some w) := by
    rw [List.take_of_length_le hfit]; exact hw
  obtain ⟨_, ha, hrt, ts2, h1, h2, h3, h4⟩ := datagram_completes_probe (F := F) hc hs hsend
    hp hrd src _ hdg w hw' p hacc haw
  exact ⟨w.toStrat (st.chan.now + e.dt), by rw [ha, hwa], hrt, by simpa [Wire.WResp.toStrat] using hwk,
    ts2, h1, h2, h3, fun st' out hit r hr => (h4 st' out hit).2.2 r hr⟩

/-- **UDP over IPv4 (classic, Paris, Dublin; every port direction), socket to published round**
(`socket_to_round` ∘ `C02.udp_v4`). -/
theorem udp_v4_end_to_end {F : Type} [Agg.Num F] {c : Cfg} (hc : CfgOk c) {st : St F}
    (hs : Reach c st.ts) {e : Env} {ch : Chan.Chan} {ts1 : TS} {sent : List (Probe × SendOutcome)}
    {calls : List (List Wire.SockOp)}
    (hsend : sendRequestS c st.chan st.ts e.injs = .ok (ch, ts1, sent, calls))
    (hcs : C02.Compat st.chan.cfg c) (haddr : st.chan.cfg.AddrOk) (hv : st.chan.cfg.v6 = false)
    (hp : st.chan.cfg.proto = .udp) (hpriv : st.chan.cfg.privileged = true) (hsz : Wire.SizeOk st.chan.cfg)
    (ts0 : TS) (ttl : Nat) (p : Probe) (hem : C11.emitted c ts0 ttl = .ok p) (hpr : Wire.ProbeOk p)
    (haw : answered ts1 p.seq = some p)
    (k : Quote.KernelFill) (d : Buf) (hd : Quote.wireDatagram st.chan.cfg k p = some d)
    (m : C02.ErrMsg false) (o : Quote.Outer4) (responder src : Buf) (hr : responder.length = 4)
    (mu : Quote.Mut4) (n : Nat) (hb : Wire.BodyOk false (Quote.quote4 mu d n) m.b)
    (hfit : (Quote.deliver st.chan.cfg o responder
        (Quote.icmpMessage false m.h m.b (Quote.quote4 mu d n))).length ≤ 1024)
    (hrd : e.recv.readable = .yes)
    (hdg : e.recv.dgram = .data src (Quote.deliver st.chan.cfg o responder
        (Quote.icmpMessage false m.h m.b (Quote.quote4 mu d n)))) :
    ∃ resp : Resp, resp.addr = Wire.addrNat responder ∧ resp.recv = st.chan.now + e.dt ∧ resp.kind = m.kind ∧
      ∃ ts2, recvResponse c ts1 e.dt (.resp resp) = .ok ts2 ∧
        ts2.buffer[p.seq - ts1.roundSeq]? = some (.complete (completeOf c resp p)) ∧
        (∀ j, j ≠ p.seq - ts1.roundSeq → ts2.buffer[j]? = ts1.buffer[j]?) ∧
        ∀ (st' : St F) (out : Out), Stack.iter c st e = .ok (st', out) →
          ∀ r, out.published = some r →
            r.probes[p.seq - ts1.roundSeq]? = some (.complete (completeOf c resp p)) :=
  socket_to_round (F := F) hc hs hsend (by rw [hp]; simp) p haw src _ responder m.kind hfit hrd hdg
    (C02.udp_v4 st.chan.cfg c hcs haddr hv hp hpriv hsz ts0 ttl p hem hpr k d hd m o responder src hr mu n hb
      (st.chan.now + e.dt))

/-- **ICMP over IPv6, socket to published round** (`socket_to_round` ∘ `C02.icmp_v6`). -/
theorem icmp_v6_end_to_end {F : Type} [Agg.Num F] {c : Cfg} (hc : CfgOk c) {st : St F}
    (hs : Reach c st.ts) {e : Env} {ch : Chan.Chan} {ts1 : TS} {sent : List (Probe × SendOutcome)}
    {calls : List (List Wire.SockOp)}
    (hsend : sendRequestS c st.chan st.ts e.injs = .ok (ch, ts1, sent, calls))
    (hcs : C02.Compat st.chan.cfg c) (haddr : st.chan.cfg.AddrOk) (hv : st.chan.cfg.v6 = true)
    (hp : st.chan.cfg.proto = .icmp) (hsz : Wire.SizeOk st.chan.cfg)
    (ts0 : TS) (ttl : Nat) (p : Probe) (hem : C11.emitted c ts0 ttl = .ok p) (hpr : Wire.ProbeOk p)
    (haw : answered ts1 p.seq = some p)
    (k : Quote.KernelFill) (d : Buf) (hd : Quote.wireDatagram st.chan.cfg k p = some d)
    (m : C02.ErrMsg st.chan.cfg.v6) (o : Quote.Outer4) (responder : Buf) (hr : responder.length = 16)
    (mu : Quote.Mut6) (n : Nat) (hb : Wire.BodyOk st.chan.cfg.v6 (Quote.quote6 mu d n) m.b)
    (hfit : (Quote.deliver st.chan.cfg o responder
        (Quote.icmpMessage st.chan.cfg.v6 m.h m.b (Quote.quote6 mu d n))).length ≤ 1024)
    (hrd : e.recv.readable = .yes)
    (hdg : e.recv.dgram = .data responder (Quote.deliver st.chan.cfg o responder
        (Quote.icmpMessage st.chan.cfg.v6 m.h m.b (Quote.quote6 mu d n)))) :
    ∃ resp : Resp, resp.addr = Wire.addrNat responder ∧ resp.recv = st.chan.now + e.dt ∧ resp.kind = m.kind ∧
      ∃ ts2, recvResponse c ts1 e.dt (.resp resp) = .ok ts2 ∧
        ts2.buffer[p.seq - ts1.roundSeq]? = some (.complete (completeOf c resp p)) ∧
        (∀ j, j ≠ p.seq - ts1.roundSeq → ts2.buffer[j]? = ts1.buffer[j]?) ∧
        ∀ (st' : St F) (out : Out), Stack.iter c st e = .ok (st', out) →
          ∀ r, out.published = some r →
            r.probes[p.seq - ts1.roundSeq]? = some (.complete (completeOf c resp p)) :=
  socket_to_round (F := F) hc hs hsend (by rw [hp]; simp) p haw responder _ responder m.kind hfit hrd hdg
    (C02.icmp_v6 st.chan.cfg c hcs haddr hv hp hsz ts0 ttl p hem hpr k d hd m o responder hr mu n hb
      (st.chan.now + e.dt))

/-- **Echo Reply from the target (both families), socket to published round**
(`socket_to_round` ∘ `C02.echo_reply`). -/
theorem echo_reply_end_to_end {F : Type} [Agg.Num F] {c : Cfg} (hc : CfgOk c) {st : St F}
    (hs : Reach c st.ts) {e : Env} {ch : Chan.Chan} {ts1 : TS} {sent : List (Probe × SendOutcome)}
    {calls : List (List Wire.SockOp)}
    (hsend : sendRequestS c st.chan st.ts e.injs = .ok (ch, ts1, sent, calls))
    (hcs : C02.Compat st.chan.cfg c) (haddr : st.chan.cfg.AddrOk) (hp : st.chan.cfg.proto = .icmp)
    (ts0 : TS) (ttl : Nat) (p : Probe) (hem : C11.emitted c ts0 ttl = .ok p) (hpr : Wire.ProbeOk p)
    (haw : answered ts1 p.seq = some p) (ck n : Nat) (o : Quote.Outer4) (ck0 ck1 : UInt8)
    (responder src : Buf) (hr : responder.length = if st.chan.cfg.v6 then 16 else 4)
    (hsrc : st.chan.cfg.v6 = true → src = responder)
    (hfit : (Quote.echoReply st.chan.cfg o ck0 ck1 responder (Wire.echoPkt st.chan.cfg ck p.ident p.seq n)).length ≤ 1024)
    (hrd : e.recv.readable = .yes)
    (hdg : e.recv.dgram = .data src
      (Quote.echoReply st.chan.cfg o ck0 ck1 responder (Wire.echoPkt st.chan.cfg ck p.ident p.seq n))) :
    ∃ resp : Resp, resp.addr = Wire.addrNat responder ∧ resp.recv = st.chan.now + e.dt ∧
      resp.kind = .echoReply 0 ∧
      ∃ ts2, recvResponse c ts1 e.dt (.resp resp) = .ok ts2 ∧
        ts2.buffer[p.seq - ts1.roundSeq]? = some (.complete (completeOf c resp p)) ∧
        (∀ j, j ≠ p.seq - ts1.roundSeq → ts2.buffer[j]? = ts1.buffer[j]?) ∧
        ∀ (st' : St F) (out : Out), Stack.iter c st e = .ok (st', out) →
          ∀ r, out.published = some r →
            r.probes[p.seq - ts1.roundSeq]? = some (.complete (completeOf c resp p)) :=
  socket_to_round (F := F) hc hs hsend (by rw [hp]; simp) p haw src _ responder (.echoReply 0) hfit hrd hdg
    (C02.echo_reply st.chan.cfg c hcs haddr hp ts0 ttl p hem hpr ck n o ck0 ck1 responder src hr hsrc
      (st.chan.now + e.dt))

/-! ## the whole stack never panics (C04 ∘ C09 ∘ C16) -/

theorem bind_ok_inv {α β : Type} {x : R α} {f : α → R β} {b : β} (h : (x >>= f) = .ok b) :
    ∃ a, x = .ok a ∧ f a = .ok b := by
  cases x with
  | ok a => exact ⟨a, rfl, h⟩
  | err e => cases h
  | panic => cases h

/-- the machine-valued part of a builder-made configuration: `TraceId(u16)`, `Port(u16)` -/
def CfgMach (c : Cfg) : Prop :=
  c.traceId < 65536 ∧
  (match c.portDir with
   | .fixedSrc a => a < 65536
   | .fixedDest a => a < 65536
   | .fixedBoth a b => a < 65536 ∧ b < 65536
   | .none => True)

/-- what `send_never_panics` needs of a probe handed to the channel `cc` -/
def GoodProbe (cc : Wire.ChanCfg) (p : Probe) : Prop :=
  Wire.ProbeOk p ∧
  (cc.proto = .udp → cc.privileged = true → Wire.isParis p.flags = false → cc.v6 = true →
    Wire.isDublin p.flags = true → cc.initialSeq ≤ p.seq ∧ p.seq - cc.initialSeq ≤ 970)

/-- the fields `probe_data` fills in are machine values, and the Dublin flag is set only by the
Dublin strategy of a UDP trace -/
theorem probeData_mach {c : Cfg} (hm : CfgMach c) {s : TS} (hseq : s.sequence < 65536)
    {sp dp id fl : Nat} (h : probeData c s = .ok (sp, dp, id, fl)) :
    sp < 65536 ∧ dp < 65536 ∧ id < 65536 ∧
    (Wire.isDublin fl = true → c.proto = .udp ∧ c.strat = .dublin) := by
  have hrp : roundPort c s < 65536 := by unfold roundPort; omega
  obtain ⟨hid, hpd⟩ := hm
  unfold probeData at h
  cases hp : c.proto <;> cases hs : c.strat <;> cases hd : c.portDir <;>
    simp only [hp, hs, hd] at h hpd <;> cases h <;>
    simp [Wire.isDublin] <;> omega

/-- a probe allocated by `next_probe` in an invariant state is good for the channel -/
theorem nextProbe_good {c : Cfg} (hc : CfgOk c) (hm : CfgMach c) {cc : Wire.ChanCfg}
    (hcs : C02.Compat cc c) {s s' : TS} (hi : Inv c s) (hcap : s.count < BUFFER_SIZE) {t : Nat} {p : Probe}
    (h : nextProbe c s t = .ok (s', p)) : GoodProbe cc p := by
  have hseq := hi.seq_lt hc hcap
  unfold nextProbe at h
  cases hd : probeData c s with
  | panic => simp [hd] at h
  | err e => simp [hd] at h
  | ok d =>
    obtain ⟨sp, dp, id, fl⟩ := d
    obtain ⟨h1, h2, h3, h4⟩ := probeData_mach hm (by omega) hd
    simp only [hd, R.bind_ok] at h
    cases hsu : subU s.sequence s.roundSeq with
    | panic => simp [hsu] at h
    | err e => simp [hsu] at h
    | ok idx =>
      simp only [hsu, R.bind_ok] at h
      obtain ⟨s1, hss, h⟩ := bind_ok_inv h
      (
        have hs1 : s1.ttl = s.ttl ∧ s1.sequence = s.sequence := by
          unfold setSlot at hss; split at hss <;> cases hss; exact ⟨rfl, rfl⟩
        split at h
        · cases h
        · split at h
          · cases h
          · cases h
            have httl := hi.ttl_le
            refine ⟨⟨by simp; omega, h3, h1, h2, ?_⟩, ?_⟩
            · rename_i hlt _; simp at hlt; simp; omega
            · intro hpu _ _ hv6 hdub
              simp only at hdub
              obtain ⟨_, hstrat⟩ := h4 hdub
              simp only
              have hrs := hi.rs_ge
              have hrl := hi.rs_lt
              have hse := hi.seq_eq
              have hnt : c.proto ≠ .tcp := by rw [← hcs.2.1, hpu]; simp
              have hct := hi.count_ttl hnt
              have hv : c.v6 = true := by rw [← hcs.1]; exact hv6
              have hms : maxSeqN c = c.initialSeq + 512 := by
                simp [maxSeqN, hstrat, hv, BUFFER_SIZE_eq]
              rw [hcs.2.2.1]
              omega)

/-- a probe re-issued by `reissue_probe` (TCP only) is good for the channel -/
theorem reissueProbe_good {c : Cfg} (hc : CfgOk c) (hm : CfgMach c) {cc : Wire.ChanCfg}
    (hcs : C02.Compat cc c) (htcp : c.proto = .tcp) {s s' : TS} {p0 : Probe} (ha : Alloc c s p0)
    (hcap : s.count < BUFFER_SIZE) {t : Nat} {p : Probe}
    (h : reissueProbe c s t = .ok (s', p)) : GoodProbe cc p := by
  have hi := ha.inv
  have hseq := hi.seq_lt hc hcap
  obtain ⟨p', hre, hps, hpt, _, _⟩ := reissueProbe_spec hc ha hcap t
  rw [hre] at h; cases h
  -- the fields come from `probe_data` in a state with the same sequence and round
  have hfields : p.srcPort < 65536 ∧ p.destPort < 65536 ∧ p.ident < 65536 := by
    unfold reissueProbe at hre
    cases hsu : subU s.sequence s.roundSeq with
    | panic => simp [hsu] at hre
    | err e => simp [hsu] at hre
    | ok idx =>
      simp only [hsu, R.bind_ok] at hre
      cases hs1 : subU idx 1 with
      | panic => simp [hs1] at hre
      | err e => simp [hs1] at hre
      | ok im1 =>
        simp only [hs1, R.bind_ok] at hre
        cases hss : setSlot s im1 .skipped with
        | panic => simp [hss] at hre
        | err e => simp [hss] at hre
        | ok s1 =>
          simp only [hss, R.bind_ok] at hre
          have hs1e : s1.sequence = s.sequence ∧ s1.round = s.round ∧ s1.ttl = s.ttl := by
            unfold setSlot at hss; split at hss <;> cases hss; exact ⟨rfl, rfl, rfl⟩
          cases hd : probeData c s1 with
          | panic => simp [hd] at hre
          | err e => simp [hd] at hre
          | ok d =>
            obtain ⟨sp, dp, id, fl⟩ := d
            obtain ⟨h1, h2, h3, _⟩ := probeData_mach hm (by rw [hs1e.1]; omega) hd
            simp only [hd, R.bind_ok] at hre
            cases hst : subU s1.ttl 1 with
            | panic => simp [hst] at hre
            | err e => simp [hst] at hre
            | ok tt =>
              simp only [hst, R.bind_ok] at hre
              obtain ⟨s2, hss2, hre⟩ := bind_ok_inv hre
              (
                split at hre
                · cases hre
                · simp only [R.ok.injEq, Prod.mk.injEq] at hre
                  obtain ⟨_, hpe⟩ := hre
                  rw [← hpe]; exact ⟨h1, h2, h3⟩)
  have httl := hi.ttl_le
  refine ⟨⟨by omega, hfields.2.2, hfields.1, hfields.2.1, by omega⟩, ?_⟩
  intro hpu; rw [hcs.2.1, htcp] at hpu; cases hpu

/-- what the channel of a running tracer satisfies and `send_probe` / `recv_probe` preserve -/
structure ChanGood (c : Cfg) (ch : Chan.Chan) : Prop where
  inv : Channel.Inv ch
  compat : C02.Compat ch.cfg c
  addr : ch.cfg.AddrOk

theorem ChanGood.same {c : Cfg} {a b : Chan.Chan} (h : ChanGood c a) (hs : SameChan a b) : ChanGood c b :=
  ⟨by unfold Channel.Inv at *; rw [hs.2.2.2, hs.1]; exact h.inv, by rw [hs.1]; exact h.compat,
   by rw [hs.1]; exact h.addr⟩

theorem send_good_no_panic {c : Cfg} {ch : Chan.Chan} (hg : ChanGood c ch) {p : Probe}
    (hp : GoodProbe ch.cfg p) (inj : Chan.Inject) : (Chan.send ch p inj).2 ≠ .panic :=
  Channel.send_never_panics ch hg.inv p inj (Channel.wire_dispatch_never_panics ch.cfg hg.addr p hp.1 hp.2)

theorem finishSend_no_panic {c : Cfg} {ch : Chan.Chan} {s : TS} {p : Probe} (ha : Alloc c s p)
    (log : List (Probe × SendOutcome)) (calls : List (List Wire.SockOp)) {out : Chan.SendOut}
    (ho : out ≠ .panic) : finishSend ch s p log calls out ≠ .panic := by
  cases out with
  | panic => exact absurd rfl ho
  | ok ops => simp [finishSend]
  | err e ops => cases e <;> simp [finishSend, failProbe_spec ha]

/-- the TCP loop over the channel never panics -/
theorem tcpLoopS_no_panic {c : Cfg} (hc : CfgOk c) (hm : CfgMach c) (htcp : c.proto = .tcp) :
    ∀ (injs : List Chan.Inject) (ch : Chan.Chan) (s : TS) (p : Probe) (log : List (Probe × SendOutcome))
      (calls : List (List Wire.SockOp)), ChanGood c ch → Alloc c s p → GoodProbe ch.cfg p →
      tcpLoopS c ch s p log calls injs ≠ .panic := by
  intro injs
  induction injs with
  | nil =>
    intro ch s p log calls hg ha hp
    simp only [tcpLoopS]
    exact finishSend_no_panic ha log calls (send_good_no_panic hg hp none)
  | cons inj rest ih =>
    intro ch s p log calls hg ha hp
    simp only [tcpLoopS]
    have hnp := send_good_no_panic hg hp inj
    have hsc := sameChan_send ch p inj
    cases hout : (Chan.send ch p inj).2 with
    | panic => exact absurd hout hnp
    | ok ops => exact finishSend_no_panic ha log calls (by simp)
    | err e ops =>
      by_cases hea : e = .addrInUse
      · subst hea
        simp only [roundHasCapacity_eq ha.inv, R.bind_ok]
        by_cases hcap : s.count < BUFFER_SIZE
        · obtain ⟨p', hre, hs', ht', hr', _⟩ := reissueProbe_spec hc ha hcap s.now
          simp only [hcap, decide_true, if_true, hre, R.bind_ok]
          have hg' := hg.same hsc
          refine ih _ _ p' _ _ hg' (alloc_afterReissue ha hcap htcp p' hs' ht' hr') ?_
          rw [hsc.1]
          exact reissueProbe_good hc hm hg.compat htcp ha hcap hre
        · simp [hcap]
      · have : finishSend (Chan.send ch p inj).1 s p log calls (.err e ops) ≠ .panic :=
          finishSend_no_panic ha log calls (by simp)
        cases e <;> first | exact absurd rfl hea | exact this

/-- **The send step of the stack never panics**: in every reachable state, with a channel made by
`connect` for the same trace, whatever errors strike the socket calls. -/
theorem sendRequestS_no_panic {c : Cfg} (hc : CfgOk c) (hm : CfgMach c) {ch : Chan.Chan}
    (hg : ChanGood c ch) {s : TS} (hi : Inv c s) (injs : List Chan.Inject) :
    sendRequestS c ch s injs ≠ .panic := by
  unfold sendRequestS
  simp only [canSendR_eq hc hi, R.bind_ok]
  by_cases hcs : canSend c s = true
  · rw [if_pos hcs]
    have hg' := hcs
    simp only [canSend, Bool.and_eq_true, Bool.not_eq_true', decide_eq_true_eq] at hg'
    obtain ⟨⟨_, hmax⟩, _⟩ := hg'
    have h254 : s.ttl ≤ 254 := by have := hc.max_le; omega
    unfold doSendsS
    cases hp : c.proto with
    | tcp =>
      simp only [roundHasCapacity_eq hi, R.bind_ok]
      by_cases hcap : s.count < BUFFER_SIZE
      · obtain ⟨p, hnp, hs1, ht1, hr1, _⟩ := nextProbe_spec hc hi hcap h254 s.now
        simp only [hcap, decide_true, if_true, hnp, R.bind_ok]
        exact tcpLoopS_no_panic hc hm hp injs ch _ p [] [] hg
          (alloc_afterNext hi hcap h254 p hs1 ht1 hr1) (nextProbe_good hc hm hg.compat hi hcap hnp)
      · simp [hcap]
    | icmp =>
      have hcap : s.count < BUFFER_SIZE := by
        have := hi.count_ttl (by rw [hp]; simp); have := hc.first_ge; simp [BUFFER_SIZE_eq]; omega
      obtain ⟨p, hnp, hs1, ht1, hr1, _⟩ := nextProbe_spec hc hi hcap h254 s.now
      simp only [hnp, R.bind_ok]
      exact finishSend_no_panic (alloc_afterNext hi hcap h254 p hs1 ht1 hr1) [] []
        (send_good_no_panic hg (nextProbe_good hc hm hg.compat hi hcap hnp) _)
    | udp =>
      have hcap : s.count < BUFFER_SIZE := by
        have := hi.count_ttl (by rw [hp]; simp); have := hc.first_ge; simp [BUFFER_SIZE_eq]; omega
      obtain ⟨p, hnp, hs1, ht1, hr1, _⟩ := nextProbe_spec hc hi hcap h254 s.now
      simp only [hnp, R.bind_ok]
      exact finishSend_no_panic (alloc_afterNext hi hcap h254 p hs1 ht1 hr1) [] []
        (send_good_no_panic hg (nextProbe_good hc hm hg.compat hi hcap hnp) _)
  · simp [hcs]

/-- the `State` of a running tracer: `State::new` folded over well-formed rounds -/
def AggOk {F : Type} [Agg.Num F] (agg : Agg.State F) : Prop :=
  ∃ (acfg : Agg.Cfg) (hist : List Round), (∀ r ∈ hist, Reagg.RoundWF r) ∧
    Agg.State.run (Agg.State.new (F := F) acfg) hist = .ok agg

/-- folding one more well-formed round into such a state succeeds -/
theorem aggOk_step {F : Type} [Agg.Num F] {agg : Agg.State F} (h : AggOk agg) {r : Round}
    (hr : Reagg.RoundWF r) : ∃ agg', agg.updateFromRound r = .ok agg' ∧ AggOk agg' := by
  obtain ⟨acfg, hist, hwf, hrun⟩ := h
  have hwf' : ∀ x ∈ hist ++ [r], Reagg.RoundWF x := by
    intro x hx
    rcases List.mem_append.mp hx with hx | hx
    · exact hwf x hx
    · simp at hx; subst hx; exact hr
  obtain ⟨st, hst, _⟩ := C10.getters_never_panic (F := F) acfg (hist ++ [r]) hwf'
  rw [Agg.State.run_append, hrun] at hst
  simp only [R.bind_ok, Agg.State.run] at hst
  cases hu : agg.updateFromRound r with
  | panic => simp [hu] at hst
  | err e => simp [hu] at hst
  | ok agg' => exact ⟨agg', rfl, acfg, hist ++ [r], hwf', by rw [Agg.State.run_append, hrun]; simp [Agg.State.run, hu]⟩

/-- the invariant of a running tracer -/
structure Good {F : Type} [Agg.Num F] (c : Cfg) (st : St F) : Prop where
  reach : Reach c st.ts
  chan : ChanGood c st.chan
  agg : AggOk st.agg

/-- the receive socket of an IPv6 tracer does not report an `AF_INET` peer (what the kernel
guarantees; `C04.recv_v6_v4_sockaddr_panics` is the witness that the hypothesis is needed) -/
def EnvOk (cc : Wire.ChanCfg) (e : Env) : Prop :=
  cc.v6 = true → ∀ src bytes, e.recv.dgram = .data src bytes → src.length ≠ 4

/-- **One iteration of the whole stack never panics, and keeps the invariant** — for every
configuration the builder accepts (`CfgOk`, machine-valued identifiers and ports, `first_ttl ≤
max_ttl`, `max_inflight ≥ 1`), every reachable state and every socket-level environment: any I/O
error at any socket call of any `send_probe`, any wait, any bytes on the receive socket (truncated,
oversized, hostile), any answers of the outstanding TCP sockets. -/
theorem iter_never_panics {F : Type} [Agg.Num F] {c : Cfg} (hc : CfgOk c) (hm : CfgMach c)
    (hfm : c.firstTtl ≤ c.maxTtl) (hinf : 1 ≤ c.maxInflight) {st : St F} (hg : Good c st) (e : Env)
    (he : EnvOk st.chan.cfg e) :
    Stack.iter c st e ≠ .panic ∧
    ∀ st' o, Stack.iter c st e = .ok (st', o) → Good c st' ∧ st'.chan.cfg = st.chan.cfg := by
  have hi := reach_inv hc hg.reach
  have hsp := sendRequestS_no_panic hc hm hg.chan hi e.injs
  unfold Stack.iter
  cases hs : sendRequestS c st.chan st.ts e.injs with
  | panic => exact absurd hs hsp
  | err er => exact ⟨by simp, fun _ _ h => by simp at h⟩
  | ok r =>
    obtain ⟨ch, ts1, sent, calls⟩ := r
    have hsame := sendRequestS_chan hs
    have hsr := sendRequestS_ok hs
    simp only at hsr hsame
    have hgc : ChanGood c (Chan.advance ch e.dt) :=
      (hg.chan.same hsame).same ⟨rfl, rfl, rfl, rfl⟩ |> fun h => ⟨h.inv, h.compat, h.addr⟩
    have hcfg : (Chan.advance ch e.dt).cfg = st.chan.cfg := by simp [Chan.advance, hsame.1]
    have hrnp := Channel.recv_never_panics (Chan.advance ch e.dt) hgc.addr e.recv (by rw [hcfg]; exact he)
    simp only [R.bind_ok]
    -- the abstract iteration for the same outcomes never panics
    cases hro : recvOutcome (Chan.advance ch e.dt).now (Chan.recv (Chan.advance ch e.dt) e.recv).out with
    | panic =>
      exfalso
      cases hout : (Chan.recv (Chan.advance ch e.dt) e.recv).out with
      | panic => exact hrnp hout
      | err er => rw [hout] at hro; simp [recvOutcome] at hro
      | ok w => rw [hout] at hro; cases w <;> simp [recvOutcome] at hro
    | err er => exact ⟨by simp, fun _ _ h => by simp at h⟩
    | ok ro =>
      simp only [R.bind_ok]
      obtain ⟨hnp, hinv⟩ := iter_inv hc hi { sends := sent.map (·.2), dt := e.dt, recv := ro }
      unfold Strat.iter at hnp hinv
      simp only [hsr, R.bind_ok] at hnp hinv
      cases hrv : recvResponse c ts1 e.dt ro with
      | panic => simp [hrv] at hnp
      | err er => exact ⟨by simp, fun _ _ h => by simp at h⟩
      | ok ts2 =>
        simp only [hrv, R.bind_ok] at hnp hinv ⊢
        cases hu : updateRound c ts2 with
        | panic => simp [hu] at hnp
        | err er => exact ⟨by simp, fun _ _ h => by simp at h⟩
        | ok v =>
          obtain ⟨ts3, pub⟩ := v
          simp only [hu, R.bind_ok] at hnp hinv ⊢
          have hit : Strat.iter c st.ts { sends := sent.map (·.2), dt := e.dt, recv := ro } =
              .ok (ts3, { sent := sent, published := pub }) := by
            unfold Strat.iter; simp [hsr, hrv, hu]
          have hreach' : Reach c ts3 := Reach.step _ _ hg.reach hit
          have hrg : ChanGood c (Chan.recv (Chan.advance ch e.dt) e.recv).chan := by
            have hk := Chan.recv_keeps (Chan.advance ch e.dt) e.recv
            exact ⟨by unfold Channel.Inv at *; rw [hk.2.2.2.1, hk.1]; exact hgc.inv, by rw [hk.1]; exact hgc.compat,
              by rw [hk.1]; exact hgc.addr⟩
          have hcfg' : (Chan.recv (Chan.advance ch e.dt) e.recv).chan.cfg = st.chan.cfg := by
            rw [(Chan.recv_keeps (Chan.advance ch e.dt) e.recv).1]; exact hcfg
          cases pub with
          | none =>
            simp only [R.bind_ok]
            refine ⟨by simp, fun st' o h => ?_⟩
            cases h
            exact ⟨⟨hreach', hrg, hg.agg⟩, hcfg'⟩
          | some rd =>
            have hwf := Compose.published_round_wf hc hfm hinf hg.reach hit rd rfl
            obtain ⟨agg', hagg, hok'⟩ := aggOk_step hg.agg hwf
            simp only [hagg, R.bind_ok]
            refine ⟨by simp, fun st' o h => ?_⟩
            cases h
            exact ⟨⟨hreach', hrg, hok'⟩, hcfg'⟩

/-- **`Tracer::run` never panics** (C04 ∘ C09 ∘ C16 for the whole stack): for every configuration the
builder accepts and every socket-level environment list, of any length, the run — connect, the
loop, the handler — ends with `Ok(())`, with an error *value* (recorded in the state), or is still
running when the environment list ends; it never ends in a panic. -/
theorem loop_never_panics {F : Type} [Agg.Num F] {c : Cfg} (hc : CfgOk c) (hm : CfgMach c)
    (hfm : c.firstTtl ≤ c.maxTtl) (hinf : 1 ≤ c.maxInflight) : ∀ (envs : List Env) (st : St F),
    Good c st → (∀ e ∈ envs, EnvOk st.chan.cfg e) → (Stack.loop c st envs).2.2 ≠ some .panic := by
  intro envs
  induction envs with
  | nil => intro st _ _; simp only [Stack.loop]; split <;> simp
  | cons e es ih =>
    intro st hg he
    unfold Stack.loop
    by_cases hf : finished st.ts c.maxRounds = true
    · simp [hf]
    · simp only [hf, Bool.false_eq_true, if_false]
      obtain ⟨hnp, hgood⟩ := iter_never_panics hc hm hfm hinf hg e (he e (by simp))
      cases hi : Stack.iter c st e with
      | panic => exact absurd hi hnp
      | err er => simp
      | ok v =>
        obtain ⟨st', o⟩ := v
        simp only
        obtain ⟨hg', hcfg⟩ := hgood st' o hi
        exact ih st' hg' (fun e' he' => by rw [hcfg]; exact he e' (by simp [he']))

/-- what `Builder::build` guarantees about the configuration it splits between the layers
(`make_channel_config`, `make_strategy_config`): the strategy's share is accepted (`CfgOk`, `u16`
identifiers and ports, `first_ttl ≤ max_ttl`, `max_inflight ≥ 1` as the CLI enforces), source and
target are addresses of one family, and both layers are configured for the same trace -/
structure TracerCfgOk (k : TracerCfg) : Prop where
  cfg : CfgOk k.strat
  mach : CfgMach k.strat
  ttls : k.strat.firstTtl ≤ k.strat.maxTtl
  inflight : 1 ≤ k.strat.maxInflight
  src_len : k.conn.src.length = 4 ∨ k.conn.src.length = 16
  dst_len : k.conn.dst.length = k.conn.src.length
  v6 : Chan.isV6 k.conn.src = k.strat.v6
  proto : k.conn.proto = k.strat.proto
  initial : k.conn.initialSeq = k.strat.initialSeq
  target : Wire.addrNat k.conn.dst = k.strat.target

/-- **`Tracer::run` never panics.**  For every configuration `Builder::build` accepts, every start
time and every list of socket-level environments (of any length; the IPv6 receive socket never
reporting an `AF_INET` peer), the run ends with `Ok(())`, ends with an error value, or is still
going when the list ends — never with a panic; a packet size above 1024 is an error value from
`connect`. -/
theorem run_never_panics {F : Type} [Agg.Num F] (k : TracerCfg) (hk : TracerCfgOk k) (t0 : Nat)
    (envs : List Env)
    (henv : ∀ e ∈ envs, Chan.isV6 k.conn.src = true → ∀ src bytes, e.recv.dgram = .data src bytes → src.length ≠ 4) :
    (Stack.run (F := F) k t0 envs).ended ≠ some .panic := by
  by_cases hsz : k.conn.packetSize ≤ 1024
  · have hf : Chan.isV6 k.conn.src = Chan.isV6 k.conn.dst := by simp [Chan.isV6, hk.dst_len]
    obtain ⟨ch, hcn, hinv, _, _, _, hcfg⟩ := Channel.connect_ok k.conn t0 hsz hf
    rw [run_connected (F := F) k t0 envs hcn]
    have haddr : ch.cfg.AddrOk := by
      rw [hcfg]; unfold Wire.ChanCfg.AddrOk
      simp only [Chan.isV6]
      rcases hk.src_len with h | h <;> simp [h, hk.dst_len]
    have hcompat : C02.Compat ch.cfg k.strat := by
      rw [hcfg]; exact ⟨hk.v6, hk.proto, hk.initial, hk.target⟩
    have hgood : Good (F := F) k.strat { chan := ch, ts := init k.strat t0, agg := Agg.State.new k.agg } :=
      ⟨Reach.init t0, ⟨hinv, hcompat, haddr⟩, k.agg, [], by simp, rfl⟩
    refine loop_never_panics (F := F) hk.cfg hk.mach hk.ttls hk.inflight envs _ hgood ?_
    intro e he hv
    simp only at hv
    rw [hcfg] at hv
    exact henv e he hv
  · have : k.conn.packetSize > 1024 := by omega
    simp [Stack.run, Channel.connect_size_guard k.conn t0 this]

/-- the hypotheses are satisfiable: 10.0.0.1 → 10.0.0.7, ICMP, 84 octets -/
def sampleTracerCfg : TracerCfg :=
  { strat := { v6 := false, target := 167772167, proto := .icmp, traceId := 4660, maxRounds := some 3,
               firstTtl := 1, maxTtl := 30, grace := 100, maxInflight := 24, initialSeq := 33434,
               strat := .classic, portDir := .none, minRound := 1000, maxRound := 1000 },
    conn := { src := [10, 0, 0, 1], dst := [10, 0, 0, 7], packetSize := 84, pattern := 0, privileged := true,
              tos := 0, proto := .icmp, extEnabled := true, initialSeq := 33434, readTimeout := 10, tcpTimeout := 1000 },
    agg := { maxSamples := 256, maxFlows := 64 } }

example : TracerCfgOk sampleTracerCfg :=
  ⟨by simp [CfgOk, sampleTracerCfg, Consts.core_MAX_TTL, Consts.core_MAX_INITIAL_SEQUENCE], by simp [CfgMach, sampleTracerCfg],
   by decide, by decide, .inl rfl, rfl, rfl, rfl, rfl, by decide⟩

end TV.Props.Stack

#print axioms TV.Props.Stack.iter_refines
#print axioms TV.Props.Stack.loop_refines
#print axioms TV.Props.Stack.loop_rounds_wf
#print axioms TV.Props.Stack.stack_state_is_aggregation
#print axioms TV.Props.Stack.loop_error_recorded
#print axioms TV.Props.Stack.loop_no_error
#print axioms TV.Props.Stack.response_completes_probe
#print axioms TV.Props.Stack.datagram_completes_probe
#print axioms TV.Props.Stack.handshake_completes_probe
#print axioms TV.Props.Stack.icmp_v4_end_to_end
#print axioms TV.Props.Stack.socket_to_round
#print axioms TV.Props.Stack.udp_v4_end_to_end
#print axioms TV.Props.Stack.icmp_v6_end_to_end
#print axioms TV.Props.Stack.echo_reply_end_to_end
#print axioms TV.Props.Stack.sendRequestS_no_panic
#print axioms TV.Props.Stack.iter_never_panics
#print axioms TV.Props.Stack.loop_never_panics
#print axioms TV.Props.Stack.run_never_panics

namespace TV.Props.Stack
open TV TV.Strat TV.Stack

/-- **`Tracer::clear` keeps the invariant**: the cleared state is a fresh aggregation (of no rounds),
the tracing state and the channel are as they were, and no error is recorded any more — so every
theorem above holds again for the run that continues after a clear. -/
theorem clear_good {F : Type} [Agg.Num F] {c : Cfg} (acfg : Agg.Cfg) {st : St F} (hg : Good c st) :
    Good c (Stack.clear acfg st) ∧ (Stack.clear acfg st).ts = st.ts ∧ (Stack.clear acfg st).chan = st.chan ∧
    (Stack.clear acfg st).error = none ∧ (Stack.clear acfg st).agg = Agg.State.new acfg :=
  ⟨⟨hg.reach, hg.chan, acfg, [], by simp, rfl⟩, rfl, rfl, rfl, rfl⟩

end TV.Props.Stack

#print axioms TV.Props.Stack.clear_good

/-! ## C03 for the whole stack: what does not answer a probe of the round in progress is noise -/
namespace TV.Props.Stack
open TV TV.Strat TV.Stack

/-- what of an iteration's result concerns the trace: tracing state, `State`, channel, the call log and
the published round (the response `recv_probe` happened to return is not part of it) -/
def Essence {F : Type} (x : R (St F × Out)) : R (TS × Agg.State F × Chan.Chan × List (Probe × SendOutcome) × Option Round) :=
  match x with
  | .ok (st', o) => .ok (st'.ts, st'.agg, st'.chan, o.sent, o.published)
  | .err e => .err e
  | .panic => .panic

/-- **A datagram that is not a genuine answer is noise (C03 for the stack).**  ICMP or UDP trace; the
receive socket delivers `bytes`, which the family's receive code decodes to a response `w` — or to
nothing — and `w` is not *genuine* for the state after the send step (it fails `validate`, carries a
foreign trace identifier, names a sequence outside the round's window, a slot that is not awaited, or
a probe of an earlier round: `C03.duplicate_rejected`, `never_sent_rejected`, `stale_probe_rejected`,
`foreign_trace_id_rejected`, `invalid_tuple_rejected`, `sibling_response_rejected`).  Then the iteration
ends exactly as if the socket had not been readable at all: same tracing state, same `State`, same
channel, same published round. -/
theorem nongenuine_datagram_is_noise {F : Type} [Agg.Num F] {c : Cfg} (hc : CfgOk c) {st : St F}
    (hs : Reach c st.ts) (e : Env) (hp : st.chan.cfg.proto ≠ .tcp)
    (hrd : e.recv.readable = .yes) (src bytes : Buf) (hdg : e.recv.dgram = .data src bytes)
    (w : Option Wire.WResp)
    (hw : Wire.recvIcmp st.chan.cfg (bytes.take 1024) src = .ok w)
    (hng : ∀ ch ts1 sent calls x, sendRequestS c st.chan st.ts e.injs = .ok (ch, ts1, sent, calls) →
      w = some x → genuine c ts1 (x.toStrat (st.chan.now + e.dt)) = none) :
    Essence (Stack.iter c st e) =
      Essence (Stack.iter c st { e with recv := { e.recv with readable := .no } }) := by
  have hi := reach_inv hc hs
  unfold Stack.iter
  cases hsend : sendRequestS c st.chan st.ts e.injs with
  | panic => rfl
  | err er => rfl
  | ok r =>
    obtain ⟨ch, ts1, sent, calls⟩ := r
    have hsame := sendRequestS_chan hsend
    simp only [SameChan] at hsame
    have hsr := sendRequestS_ok hsend
    simp only at hsr
    have hi1 : Inv c ts1 := ((sendRequest_spec hc hi _).2 _ _ hsr).1
    have hcfg : (Chan.advance ch e.dt).cfg = st.chan.cfg := by simp [Chan.advance, hsame.1]
    have hnt : (Chan.advance ch e.dt).cfg.proto ≠ .tcp := by rw [hcfg]; exact hp
    have hnow : (Chan.advance ch e.dt).now = st.chan.now + e.dt := by simp [Chan.advance, hsame.2.1]
    -- what `recv_probe` returns in the two environments
    have h1 : (Chan.recv (Chan.advance ch e.dt) e.recv).out = .ok w := by
      rw [(Channel.recv_is_wire_recv _ _).1 hnt, (Channel.recv_is_wire_recv _ _).2.1 src bytes hrd hdg, hcfg]
      exact hw
    have h2 : (Chan.recv (Chan.advance ch e.dt) { e.recv with readable := .no }).out = .ok none := by
      rw [(Channel.recv_is_wire_recv _ _).1 hnt, (Channel.recv_is_wire_recv _ _).2.2.1 rfl]
    have hc1 := Chan.recv_nontcp (Chan.advance ch e.dt) e.recv hnt
    have hc2 := Chan.recv_nontcp (Chan.advance ch e.dt) { e.recv with readable := .no } hnt
    have hchan : (Chan.recv (Chan.advance ch e.dt) e.recv).chan =
        (Chan.recv (Chan.advance ch e.dt) { e.recv with readable := .no }).chan := by rw [hc1, hc2]
    have hpol : (Chan.recv (Chan.advance ch e.dt) e.recv).polled =
        (Chan.recv (Chan.advance ch e.dt) { e.recv with readable := .no }).polled := by rw [hc1, hc2]
    simp only [R.bind_ok, h1, h2, hnow]
    cases w with
    | none => simp only [recvOutcome, R.bind_ok, hchan, hpol]
    | some x =>
      have hg := hng ch ts1 sent calls x hsend rfl
      simp only [recvOutcome, R.bind_ok]
      rw [recvResponse_spec hi1, hg]
      simp only [recvResponse, R.bind_ok]
      cases hu : updateRound c (tick ts1 e.dt) with
      | panic => rfl
      | err er => rfl
      | ok v =>
        obtain ⟨ts3, pub⟩ := v
        simp only [R.bind_ok]
        cases pub with
        | none => simp only [R.bind_ok, Essence, hchan]
        | some rd =>
          cases ha : st.agg.updateFromRound rd with
          | panic => simp only [ha, R.bind_panic, Essence]
          | err er => simp only [ha, R.bind_err, Essence]
          | ok agg' => simp only [ha, R.bind_ok, Essence, hchan]

end TV.Props.Stack

#print axioms TV.Props.Stack.nongenuine_datagram_is_noise

namespace TV.Props.Stack
open TV TV.Strat TV.Stack

/-- **A quotation of somebody else's datagram is noise** (`nongenuine_datagram_is_noise` ∘ `C02.foreign_v4`):
UDP trace over IPv4; a router's Time Exceeded / Destination Unreachable quoting *any* IPv4 datagram
that goes to another destination or carries another fixed port (a sibling tracer's probe, another
program's traffic).  Whatever the receive code makes of it, the iteration ends as if nothing had been
readable. -/
theorem foreign_quotation_is_noise {F : Type} [Agg.Num F] {c : Cfg} (hc : CfgOk c) {st : St F}
    (hs : Reach c st.ts) (e : Env) (hcs : C02.Compat st.chan.cfg c) (haddr : st.chan.cfg.AddrOk)
    (hv : st.chan.cfg.v6 = false) (hp : st.chan.cfg.proto = .udp)
    (m : C02.ErrMsg false) (o : Quote.Outer4) (responder src : Buf) (hr : responder.length = 4)
    (qsrc qdst : Buf) (hqs : qsrc.length = 4) (hqd : qdst.length = 4)
    (d : Buf) (i0 i1 pr a0 a1 a2 a3 a4 a5 a6 a7 : UInt8)
    (hD : Wire.IsDatagram4 qsrc qdst d i0 i1 pr a0 a1 a2 a3 a4 a5 a6 a7) (mu : Quote.Mut4) (n : Nat)
    (hb : Wire.BodyOk false (Quote.quote4 mu d n) m.b)
    (hforeign : C02.Foreign st.chan.cfg c qdst (Wire.beN a0 a1) (Wire.beN a2 a3))
    (hfit : (Quote.deliver st.chan.cfg o responder
        (Quote.icmpMessage false m.h m.b (Quote.quote4 mu d n))).length ≤ 1024)
    (hrd : e.recv.readable = .yes)
    (hdg : e.recv.dgram = .data src (Quote.deliver st.chan.cfg o responder
        (Quote.icmpMessage false m.h m.b (Quote.quote4 mu d n))))
    (w : Option Wire.WResp)
    (hw : Wire.recvIcmp st.chan.cfg (Quote.deliver st.chan.cfg o responder
        (Quote.icmpMessage false m.h m.b (Quote.quote4 mu d n))) src = .ok w) :
    Essence (Stack.iter c st e) =
      Essence (Stack.iter c st { e with recv := { e.recv with readable := .no } }) := by
  refine nongenuine_datagram_is_noise (F := F) hc hs e (by rw [hp]; simp) hrd src _ hdg w
    (by rw [List.take_of_length_le hfit]; exact hw) ?_
  intro ch ts1 sent calls x _ hx
  subst hx
  have hval := (C02.foreign_v4 st.chan.cfg c hcs haddr hv m o responder src hr qsrc qdst hqs hqd
    d i0 i1 pr a0 a1 a2 a3 a4 a5 a6 a7 hD mu n hb).2 (by rw [hp]; simp) hforeign x hw (st.chan.now + e.dt)
  unfold genuine
  simp [hval]

end TV.Props.Stack

#print axioms TV.Props.Stack.foreign_quotation_is_noise
