import TrippyVerif.Lemmas.Stack
import TrippyVerif.Props.Compose
import TrippyVerif.Props.Channel
/-!
# The whole stack (`Tracer::run` = Channel + Strategy + State): refinement and end-to-end theorems

`TV.Stack.iter` (`Model/Stack.lean`) is one iteration of the loop of `Strategy::run` with the real
`Channel` as its network and the `Tracer`'s `handler` as its publisher, over a *socket-level*
environment.  This file proves that it refines the abstract state machine of `Model/Strategy.lean`
— so every strategy-layer theorem (C01 C03 C06 C07 C08 C09) is a theorem about the stack — and
folds the layer theorems into statements that mention only socket-level facts:

* `iter_refines` / `loop_refines`: a stack iteration is `Strat.iter` for the environment the
  channel produced (`absEnv`); the tracing state of every stack run is `Strat.Reach`able.
* `stack_rounds_wf`, `stack_state_is_aggregation`: every round the stack publishes is well-formed
  and the `State` it maintains is the aggregation of exactly the published rounds (C05/C10 apply).
* `datagram_completes_probe` (C01 ∘ C02 ∘ Channel): if the bytes the receive socket delivers decode
  (`Wire.recvIcmp`) to a response that is `Accepted` for an awaited probe — which the C02 theorems
  show for every conforming quotation of the bytes dispatched for that probe — then after the
  iteration that probe's slot is `Complete` with the responder's address and the receive time.
* `error_recorded`: a run that ends with an error carries that error in its state
  (`State::error`), hops untouched (C09).
-/
namespace TV.Props.Stack
open TV TV.Strat TV.Stack

/-- the abstract environment of a stack iteration: the outcomes the channel produced, the wait, and
what `recv_probe` returned -/
def absRecv (ch : Chan.Chan) (e : Env) : R RecvOutcome :=
  recvOutcome (ch.now + e.dt) (Chan.recv (Chan.advance ch e.dt) e.recv).out

/-- **Refinement.**  A successful stack iteration is an iteration of the abstract state machine
for the outcomes the channel produced; the `State` is updated with the published round, if any,
and only then. -/
theorem iter_refines {F : Type} [Agg.Num F] {c : Cfg} {st st' : St F} {e : Env} {o : Out}
    (h : Stack.iter c st e = .ok (st', o)) :
    ∃ ro, Strat.iter c st.ts { sends := o.sent.map (·.2), dt := e.dt, recv := ro } =
        .ok (st'.ts, { sent := o.sent, published := o.published }) ∧
      (match o.published with
       | none => st'.agg = st.agg
       | some r => st.agg.updateFromRound r = .ok st'.agg) ∧
      st'.error = st.error := by
  unfold Stack.iter at h
  cases hs : sendRequestS c st.chan st.ts e.injs with
  | panic => simp [hs] at h
  | err er => simp [hs] at h
  | ok r =>
    obtain ⟨ch, ts, sent, calls⟩ := r
    have hsr := sendRequestS_ok hs
    simp only [hs, R.bind_ok] at h
    cases hro : recvOutcome (Chan.advance ch e.dt).now (Chan.recv (Chan.advance ch e.dt) e.recv).out with
    | panic => simp [hro] at h
    | err er => simp [hro] at h
    | ok ro =>
      simp only [hro, R.bind_ok] at h
      cases hrv : recvResponse c ts e.dt ro with
      | panic => simp [hrv] at h
      | err er => simp [hrv] at h
      | ok ts2 =>
        simp only [hrv, R.bind_ok] at h
        cases hu : updateRound c ts2 with
        | panic => simp [hu] at h
        | err er => simp [hu] at h
        | ok v =>
          obtain ⟨ts3, pub⟩ := v
          simp only [hu, R.bind_ok] at h
          refine ⟨ro, ?_⟩
          cases pub with
          | none =>
            simp only [R.bind_ok] at h
            cases h
            refine ⟨?_, rfl, rfl⟩
            simp only [Strat.iter] at hsr ⊢
            simp [hsr, hrv, hu]
          | some rd =>
            cases ha : st.agg.updateFromRound rd with
            | panic => simp [ha] at h
            | err er => simp [ha] at h
            | ok agg' =>
              simp only [ha, R.bind_ok] at h
              cases h
              refine ⟨?_, ha, rfl⟩
              simp only [Strat.iter] at hsr ⊢
              simp [hsr, hrv, hu]

/-- the rounds a list of stack iterations published, oldest first -/
def published (outs : List Out) : List Round := outs.filterMap (·.published)

/-- **Every state of a stack run is a state of the abstract machine**, and the `State` is the fold
of `update_from_round` over exactly the rounds published so far. -/
theorem loop_refines {F : Type} [Agg.Num F] {c : Cfg} : ∀ (envs : List Env) (st : St F),
    Reach c st.ts →
    Reach c (Stack.loop c st envs).1.ts ∧
    Agg.State.run st.agg (published (Stack.loop c st envs).2.1) = .ok (Stack.loop c st envs).1.agg := by
  intro envs
  induction envs with
  | nil => intro st hr; simp [Stack.loop, published, Agg.State.run, hr]
  | cons e es ih =>
    intro st hr
    unfold Stack.loop
    by_cases hf : finished st.ts c.maxRounds = true
    · simp [hf, published, Agg.State.run, hr]
    · simp only [hf, Bool.false_eq_true, if_false]
      cases hi : Stack.iter c st e with
      | panic => simp [published, Agg.State.run, hr]
      | err er => simp [published, Agg.State.run, hr]
      | ok v =>
        obtain ⟨st', o⟩ := v
        obtain ⟨ro, hit, hagg, _⟩ := iter_refines hi
        have hr' : Reach c st'.ts := Reach.step _ _ hr hit
        obtain ⟨h1, h2⟩ := ih st' hr'
        simp only
        refine ⟨h1, ?_⟩
        simp only [published, List.filterMap_cons]
        cases hp : o.published with
        | none =>
          rw [hp] at hagg; simp only at hagg
          rw [← hagg]; exact h2
        | some rd =>
          rw [hp] at hagg; simp only at hagg
          simp only [Agg.State.run, hagg, R.bind_ok]
          exact h2

/-- **Every round the stack publishes is well-formed** (what the aggregator theorems need) —
whatever the sockets do. -/
theorem loop_rounds_wf {F : Type} [Agg.Num F] {c : Cfg} (hc : CfgOk c) (hfm : c.firstTtl ≤ c.maxTtl)
    (hinf : 1 ≤ c.maxInflight) : ∀ (envs : List Env) (st : St F), Reach c st.ts →
    ∀ r ∈ published (Stack.loop c st envs).2.1, Reagg.RoundWF r := by
  intro envs
  induction envs with
  | nil => intro st _ r hr; simp [Stack.loop, published] at hr
  | cons e es ih =>
    intro st hreach r hr
    unfold Stack.loop at hr
    by_cases hf : finished st.ts c.maxRounds = true
    · simp [hf, published] at hr
    · simp only [hf, Bool.false_eq_true, if_false] at hr
      cases hi : Stack.iter c st e with
      | panic => simp [hi, published] at hr
      | err er => simp [hi, published] at hr
      | ok v =>
        obtain ⟨st', o⟩ := v
        obtain ⟨ro, hit, _, _⟩ := iter_refines hi
        simp only [hi, published, List.filterMap_cons] at hr
        cases hp : o.published with
        | none =>
          rw [hp] at hr
          exact ih st' (Reach.step _ _ hreach hit) r hr
        | some r0 =>
          rw [hp] at hr
          simp only [List.mem_cons] at hr
          rcases hr with rfl | hr
          · exact Compose.published_round_wf hc hfm hinf hreach hit _ hp
          · exact ih st' (Reach.step _ _ hreach hit) r hr

/-- a run that got past `connect` -/
theorem run_connected {F : Type} [Agg.Num F] (k : TracerCfg) (t0 : Nat) (envs : List Env)
    {ch : Chan.Chan} {ops : List Chan.ConnOp} (hcn : Chan.connect k.conn t0 = .ok (ch, ops)) :
    Stack.run (F := F) k t0 envs =
      (let l := Stack.loop (F := F) k.strat
          { chan := ch, ts := init k.strat t0, agg := Agg.State.new k.agg } envs
       { state := some l.1, connOps := ops, outs := l.2.1, ended := l.2.2 }) := by
  simp [Stack.run, hcn]

/-- **The `State` of the tracer is the aggregation of exactly the rounds it published** (C01 last
clause, C05, C10 for the whole stack): for every accepted configuration, every start time and
every socket-level environment — any I/O errors, waits, datagrams, TCP socket answers, for any
number of iterations — the state after the run is `State::new` folded over the published rounds,
all of which are well-formed; hence (C10) no query of the hop table panics and (C05) every hop of
the default flow equals the re-aggregation of the outcomes published for its TTL. -/
theorem stack_state_is_aggregation {F : Type} [Agg.Num F] (k : TracerCfg) (hc : CfgOk k.strat)
    (hfm : k.strat.firstTtl ≤ k.strat.maxTtl) (hinf : 1 ≤ k.strat.maxInflight) (t0 : Nat)
    (envs : List Env) (st : St F) (h : (Stack.run (F := F) k t0 envs).state = some st) :
    let hist := published (Stack.run (F := F) k t0 envs).outs
    Reach k.strat st.ts ∧
    (∀ r ∈ hist, Reagg.RoundWF r) ∧
    Agg.State.run (Agg.State.new (F := F) k.agg) hist = .ok st.agg ∧
    (∃ hs, st.agg.hops = .ok hs) ∧ (∃ hp, st.agg.targetHop 0 = .ok hp) ∧
    st.agg.roundCount 0 = .ok hist.length ∧
    (∃ fs, Agg.lookupFlow st.agg.flows 0 = some fs ∧
      ∀ t, 1 ≤ t → t ≤ 254 →
        ∃ hp, fs.hops[t - 1]? = some hp ∧
          Reagg.statsOf hp = Reagg.reagg k.agg.maxSamples (Reagg.outcomes t hist)) := by
  intro hist
  cases hcn : Chan.connect k.conn t0 with
  | panic => simp [Stack.run, hcn] at h
  | err e => simp [Stack.run, hcn] at h
  | ok v =>
    obtain ⟨ch, ops⟩ := v
    have hrun := run_connected (F := F) k t0 envs hcn
    rw [hrun] at h
    simp only [Option.some.injEq] at h
    have hist_eq : hist = published (Stack.loop k.strat
        ({ chan := ch, ts := init k.strat t0, agg := Agg.State.new k.agg } : St F) envs).2.1 := by
      show published (Stack.run (F := F) k t0 envs).outs = _
      rw [hrun]
    obtain ⟨hr, hagg⟩ := loop_refines (F := F) (c := k.strat) envs
      { chan := ch, ts := init k.strat t0, agg := Agg.State.new k.agg } (Reach.init t0)
    have hwf := loop_rounds_wf (F := F) hc hfm hinf envs
      { chan := ch, ts := init k.strat t0, agg := Agg.State.new k.agg } (Reach.init t0)
    rw [h] at hr hagg
    rw [← hist_eq] at hagg hwf
    simp only at hagg
    obtain ⟨st1, hrun1, hhops, _, htgt, _, _, _, hcount⟩ := C10.getters_never_panic (F := F) k.agg hist hwf
    rw [hagg] at hrun1; cases hrun1
    obtain ⟨st2, fs, hrun2, hfs, hall⟩ := C05.refinement_default_flow (F := F) k.agg hist hwf
    rw [hagg] at hrun2; cases hrun2
    exact ⟨hr, hwf, hagg, hhops, htgt, hcount, fs, hfs, hall⟩

/-- **A fatal error is recorded in the state** (C09): when the loop ends with an error value, the
state carries exactly that error (`State::set_error` through `handle_error`), the rounds folded
into it so far are untouched, and nothing is published afterwards. -/
theorem loop_error_recorded {F : Type} [Agg.Num F] {c : Cfg} : ∀ (envs : List Env) (st : St F) (er : Err),
    (Stack.loop c st envs).2.2 = some (.err er) → (Stack.loop c st envs).1.error = some er := by
  intro envs
  induction envs with
  | nil => intro st er h; simp only [Stack.loop] at h; split at h <;> simp at h
  | cons e es ih =>
    intro st er h
    unfold Stack.loop at h ⊢
    by_cases hf : finished st.ts c.maxRounds = true
    · simp [hf] at h
    · simp only [hf, Bool.false_eq_true, if_false] at h ⊢
      cases hi : Stack.iter c st e with
      | panic => simp [hi] at h
      | err er' => simp [hi] at h ⊢; exact h
      | ok v =>
        obtain ⟨st', o⟩ := v
        simp only [hi] at h ⊢
        exact ih st' er h

/-- a run never loses an error it did not have: without an error ending, the error field stays as
it was (`None` for a fresh tracer) -/
theorem loop_no_error {F : Type} [Agg.Num F] {c : Cfg} : ∀ (envs : List Env) (st : St F),
    (∀ er, (Stack.loop c st envs).2.2 ≠ some (.err er)) → (Stack.loop c st envs).1.error = st.error := by
  intro envs
  induction envs with
  | nil => intro st _; simp [Stack.loop]
  | cons e es ih =>
    intro st h
    unfold Stack.loop at h ⊢
    by_cases hf : finished st.ts c.maxRounds = true
    · simp [hf]
    · simp only [hf, Bool.false_eq_true, if_false] at h ⊢
      cases hi : Stack.iter c st e with
      | panic => simp
      | err er' => simp [hi] at h
      | ok v =>
        obtain ⟨st', o⟩ := v
        simp only [hi] at h ⊢
        rw [ih st' h]
        exact (iter_refines hi).choose_spec.2.2

/-! ## C01 ∘ C02 ∘ Channel: a delivered datagram completes exactly the probe it answers -/

/-- how the tracer must report probe `p` once response `r` has been accepted for it -/
def completeOf (c : Cfg) (r : Resp) (p : Probe) : Complete :=
  { probe := p, host := r.addr, received := r.recv, kind := (strategyResp c r).kind,
    tos := (strategyResp c r).tos, expCk := (strategyResp c r).expCk,
    actCk := (strategyResp c r).actCk, ext := (strategyResp c r).ext }

theorem strategyResp_addr_recv (c : Cfg) (r : Resp) :
    (strategyResp c r).addr = r.addr ∧ (strategyResp c r).received = r.recv := by
  simp only [strategyResp]
  cases r.kind <;> simp

/-- **End to end, receive side.**  The tracer has run its send step (`hsend`; ICMP or UDP).  The
receive socket is readable and delivers `bytes` which the family's receive code decodes to a
response `w` that is `Accepted` for the probe `p` — the conclusion of every C02 theorem for a
conforming quotation of the bytes dispatched for `p` — and `p` is still awaiting its first answer.
Then: `recv_probe` returns `w`; the strategy completes exactly `p`'s slot with the responder's
address (`addrNat w.addr`), the receive time (the clock after the wait) and the response's kind,
and leaves every other slot alone; and if this very iteration publishes the round, the published
round reports `p` complete with those data. -/
theorem datagram_completes_probe {F : Type} [Agg.Num F] {c : Cfg} (hc : CfgOk c) {st : St F}
    (hs : Reach c st.ts) {e : Env} {ch : Chan.Chan} {ts1 : TS} {sent : List (Probe × SendOutcome)}
    {calls : List (List Wire.SockOp)}
    (hsend : sendRequestS c st.chan st.ts e.injs = .ok (ch, ts1, sent, calls))
    (hp : st.chan.cfg.proto ≠ .tcp) (hrd : e.recv.readable = .yes) (src bytes : Buf)
    (hdg : e.recv.dgram = .data src bytes) (w : Wire.WResp)
    (hw : Wire.recvIcmp st.chan.cfg (bytes.take 1024) src = .ok (some w)) (p : Probe)
    (hacc : C02.Accepted c (w.toStrat (st.chan.now + e.dt)) p.seq)
    (haw : answered ts1 p.seq = some p) :
    (Chan.recv (Chan.advance ch e.dt) e.recv).out = .ok (some w) ∧
    (w.toStrat (st.chan.now + e.dt)).addr = Wire.addrNat w.addr ∧
    (w.toStrat (st.chan.now + e.dt)).recv = st.chan.now + e.dt ∧
    ∃ ts2, recvResponse c ts1 e.dt (.resp (w.toStrat (st.chan.now + e.dt))) = .ok ts2 ∧
      ts2.buffer[p.seq - ts1.roundSeq]? =
        some (.complete (completeOf c (w.toStrat (st.chan.now + e.dt)) p)) ∧
      (∀ k, k ≠ p.seq - ts1.roundSeq → ts2.buffer[k]? = ts1.buffer[k]?) ∧
      ∀ (st' : St F) (o : Out), Stack.iter c st e = .ok (st', o) →
        o.recv = some w ∧ o.sent = sent ∧
        ∀ r, o.published = some r →
          r.probes[p.seq - ts1.roundSeq]? =
            some (.complete (completeOf c (w.toStrat (st.chan.now + e.dt)) p)) := by
  generalize hresp : w.toStrat (st.chan.now + e.dt) = resp at hacc ⊢
  have hsame := sendRequestS_chan hsend
  simp only [SameChan] at hsame
  have hi := reach_inv hc hs
  have hsr := sendRequestS_ok hsend
  simp only at hsr
  have hi1 : Inv c ts1 := ((sendRequest_spec hc hi _).2 _ _ hsr).1
  -- what `recv_probe` returns
  have hrecv : (Chan.recv (Chan.advance ch e.dt) e.recv).out = .ok (some w) := by
    have hcfg : (Chan.advance ch e.dt).cfg = st.chan.cfg := by simp [Chan.advance, hsame.1]
    have h1 := (Channel.recv_is_wire_recv (Chan.advance ch e.dt) e.recv).1 (by rw [hcfg]; exact hp)
    have h2 := (Channel.recv_is_wire_recv (Chan.advance ch e.dt) e.recv).2.1 src bytes hrd hdg
    rw [h1, h2, hcfg]; exact hw
  refine ⟨hrecv, by rw [← hresp]; rfl, by rw [← hresp]; rfl, ?_⟩
  -- the strategy's receive step: the response is genuine for `p`
  obtain ⟨hge, hltseq, _, hround, _, _, hslotp⟩ := answered_props hi1 haw
  have hlen : p.seq - ts1.roundSeq < ts1.buffer.length := by
    rcases List.getElem?_eq_some_iff.mp hslotp with ⟨h, _⟩; exact h
  have hwin : inRound ts1 p.seq = true := by
    have := hi1.len; simp [inRound, hge]; omega
  obtain ⟨hv, ht, hseq⟩ := hacc
  have hgen : genuine c ts1 resp = some p := by
    unfold genuine
    rw [hseq, hv, ht, hwin]; simpa using haw
  obtain ⟨haddr, hrecvt⟩ := strategyResp_addr_recv c resp
  have hans : answered (tick ts1 e.dt) (strategyResp c resp).seq = some p := by
    rw [answered_tick, hseq]; exact haw
  have hi2 : Inv c (afterComplete (tick ts1 e.dt) (strategyResp c resp) p) :=
    inv_afterComplete (inv_tick hi1 _) _ hans
  have hrr : recvResponse c ts1 e.dt (.resp resp) =
      .ok (afterComplete (tick ts1 e.dt) (strategyResp c resp) p) := by
    rw [recvResponse_spec hi1, hgen]
  have hslot : (afterComplete (tick ts1 e.dt) (strategyResp c resp) p).buffer[p.seq - ts1.roundSeq]? =
      some (.complete (completeOf c resp p)) := by
    simp only [afterComplete, tick, hseq, completeOf, haddr, hrecvt]
    rw [List.getElem?_set_self hlen]
  refine ⟨_, hrr, hslot, ?_, ?_⟩
  · intro k hk
    simp only [afterComplete, tick, hseq]
    rw [List.getElem?_set_ne (fun h => hk h.symm)]
  · intro st' o hit
    unfold Stack.iter at hit
    have hnow : (Chan.advance ch e.dt).now = st.chan.now + e.dt := by simp [Chan.advance, hsame.2.1]
    simp only [hsend, R.bind_ok, hrecv, recvOutcome, hnow, hresp, hrr] at hit
    obtain ⟨hu1, hu2⟩ := updateRound_spec hc hi2
    by_cases hrc : roundComplete c (afterComplete (tick ts1 e.dt) (strategyResp c resp) p) = true
    · obtain ⟨r, hr, hu⟩ := hu2 hrc
      simp only [hu, R.bind_ok] at hit
      cases ha : st.agg.updateFromRound r with
      | panic => simp [ha] at hit
      | err er => simp [ha] at hit
      | ok agg' =>
        simp only [ha, R.bind_ok] at hit
        cases hit
        refine ⟨rfl, rfl, ?_⟩
        intro r0 hr0
        cases hr0
        obtain ⟨r', hr', hprobes, _⟩ := publishTrace_ok hc hi2
        rw [hr] at hr'; cases hr'
        rw [hprobes, List.getElem?_take]
        have hk := (hi2.slots _ _ p hslot (by simp [Slot.probe?, completeOf])).2
          (by simpa [afterComplete, tick] using hround)
        rw [if_pos hk.1]; exact hslot
    · have hu := hu1 (by simpa using hrc)
      simp only [hu, R.bind_ok] at hit
      cases hit
      exact ⟨rfl, rfl, fun r0 hr0 => by cases hr0⟩

/-- **ICMP over IPv4, socket to published round** (`datagram_completes_probe` ∘ `C02.icmp_v4`): a
router or the target returns the Echo Request the tracer dispatched for probe `p` — quoted
(`quote4`: TOS / total length / TTL / header checksum rewritten, IP header + 8 + `n` octets, any
`n`) in a Time Exceeded or Destination Unreachable message of any embedding (plain, RFC 4884
compliant or legacy, any extension structure), from any responder, in a datagram that fits the
receive buffer.  Then `p` — and only `p` — is reported complete, with that responder as its host
and the clock after the wait as its receive time. -/
theorem icmp_v4_end_to_end {F : Type} [Agg.Num F] {c : Cfg} (hc : CfgOk c) {st : St F}
    (hs : Reach c st.ts) {e : Env} {ch : Chan.Chan} {ts1 : TS} {sent : List (Probe × SendOutcome)}
    {calls : List (List Wire.SockOp)}
    (hsend : sendRequestS c st.chan st.ts e.injs = .ok (ch, ts1, sent, calls))
    (hcs : C02.Compat st.chan.cfg c) (haddr : st.chan.cfg.AddrOk) (hv : st.chan.cfg.v6 = false)
    (hp : st.chan.cfg.proto = .icmp) (hsz : Wire.SizeOk st.chan.cfg)
    (ts0 : TS) (ttl : Nat) (p : Probe) (hem : C11.emitted c ts0 ttl = .ok p) (hpr : Wire.ProbeOk p)
    (haw : answered ts1 p.seq = some p)
    (k : Quote.KernelFill) (d : Buf) (hd : Quote.wireDatagram st.chan.cfg k p = some d)
    (m : C02.ErrMsg false) (o : Quote.Outer4) (responder src : Buf) (hr : responder.length = 4)
    (mu : Quote.Mut4) (n : Nat) (hb : Wire.BodyOk false (Quote.quote4 mu d n) m.b)
    (hfit : (Quote.deliver st.chan.cfg o responder
        (Quote.icmpMessage false m.h m.b (Quote.quote4 mu d n))).length ≤ 1024)
    (hrd : e.recv.readable = .yes)
    (hdg : e.recv.dgram = .data src (Quote.deliver st.chan.cfg o responder
        (Quote.icmpMessage false m.h m.b (Quote.quote4 mu d n)))) :
    ∃ resp : Resp, resp.addr = Wire.addrNat responder ∧ resp.recv = st.chan.now + e.dt ∧
      resp.kind = m.kind ∧
      ∃ ts2, recvResponse c ts1 e.dt (.resp resp) = .ok ts2 ∧
        ts2.buffer[p.seq - ts1.roundSeq]? = some (.complete (completeOf c resp p)) ∧
        (∀ j, j ≠ p.seq - ts1.roundSeq → ts2.buffer[j]? = ts1.buffer[j]?) ∧
        ∀ (st' : St F) (out : Out), Stack.iter c st e = .ok (st', out) →
          ∀ r, out.published = some r →
            r.probes[p.seq - ts1.roundSeq]? = some (.complete (completeOf c resp p)) := by
  obtain ⟨w, hw, hwa, hwk, hacc⟩ := C02.icmp_v4 st.chan.cfg c hcs haddr hv hp hsz ts0 ttl p hem hpr k d hd
    m o responder src hr mu n hb (st.chan.now + e.dt)
  have htake : ∀ (b : Buf), b.length ≤ 1024 → b.take 1024 = b := fun b hb => List.take_of_length_le hb
  have hw' : Wire.recvIcmp st.chan.cfg ((Quote.deliver st.chan.cfg o responder
      (Quote.icmpMessage false m.h m.b (Quote.quote4 mu d n))).take 1024) src = .ok (some w) := by
    rw [htake _ hfit]; exact hw
  obtain ⟨_, ha, hrt, ts2, h1, h2, h3, h4⟩ := datagram_completes_probe (F := F) hc hs hsend
    (by rw [hp]; simp) hrd src _ hdg w hw' p hacc haw
  refine ⟨w.toStrat (st.chan.now + e.dt), by rw [ha, hwa], hrt, by simpa [Wire.WResp.toStrat] using hwk,
    ts2, h1, h2, h3, fun st' out hit r hr => (h4 st' out hit).2.2 r hr⟩

end TV.Props.Stack

#print axioms TV.Props.Stack.iter_refines
#print axioms TV.Props.Stack.loop_refines
#print axioms TV.Props.Stack.loop_rounds_wf
#print axioms TV.Props.Stack.stack_state_is_aggregation
#print axioms TV.Props.Stack.loop_error_recorded
#print axioms TV.Props.Stack.loop_no_error
#print axioms TV.Props.Stack.datagram_completes_probe
#print axioms TV.Props.Stack.icmp_v4_end_to_end
