import TrippyVerif.Props.Stack
import TrippyVerif.Props.Termination
import TrippyVerif.Props.C19Strat
/-!
# C09 liveness for the whole stack

`Tracer::run` over the real `Channel` (model `TV.Stack`) **returns**: with a round limit `n`, in any
socket-level environment in which the clock advances in every iteration — whatever errors the socket
calls return, whatever bytes arrive or never arrive, whatever the outstanding TCP sockets answer —
after at most `n · (max_round_duration + 2)` iterations the loop has ended: with `Ok(())`, or earlier
with an error value (which `loop_error_recorded` shows in the `State`); never with a panic
(`loop_never_panics`), never still spinning.
-/
namespace TV.Props.StackLive
open TV TV.Strat TV.Stack TV.Props.Termination

theorem loop_returns_from {F : Type} [Agg.Num F] {c : Cfg} (hc : CfgOk c) (n : Nat) (hn : 1 ≤ n)
    (hm : c.maxRounds = some n) :
    ∀ (envs : List Env) (st : St F), Reach c st.ts → (∀ e ∈ envs, 1 ≤ e.dt) →
      (n - st.ts.round) * (c.maxRound + 2) ≤
        envs.length + min (st.ts.now - st.ts.roundStart) (c.maxRound + 1) →
      (Stack.loop c st envs).2.2 ≠ none := by
  intro envs
  induction envs with
  | nil =>
    intro st _ _ hb
    have hf := potential_zero hn hm (by simpa using hb)
    simp [Stack.loop, hf]
  | cons e es ih =>
    intro st hs hdt hb
    unfold Stack.loop
    by_cases hf : finished st.ts c.maxRounds = true
    · simp [hf]
    · simp only [hf, Bool.false_eq_true, if_false]
      have hlt : st.ts.round < n := by simp [finished, hm] at hf; omega
      cases hi : Stack.iter c st e with
      | panic => simp
      | err er => simp
      | ok v =>
        obtain ⟨st', o⟩ := v
        obtain ⟨ro, hit, _, _⟩ := Stack.iter_refines hi
        have hs' : Reach c st'.ts := .step _ _ hs hit
        have hstep := potential_step (L := es.length) hc hs hit (hdt e (by simp)) hlt
          (by simp only [List.length_cons] at hb; omega)
        have := ih st' hs' (fun e' he' => hdt e' (by simp [he'])) hstep
        simpa using this

/-- **`Tracer::run` returns.** -/
theorem run_returns {F : Type} [Agg.Num F] (k : TracerCfg) (hc : CfgOk k.strat) (n : Nat) (hn : 1 ≤ n)
    (hm : k.strat.maxRounds = some n) (t0 : Nat) (envs : List Env) (hdt : ∀ e ∈ envs, 1 ≤ e.dt)
    (hlen : n * (k.strat.maxRound + 2) ≤ envs.length) :
    (Stack.run (F := F) k t0 envs).ended ≠ none := by
  unfold Stack.run
  cases hcn : Chan.connect k.conn t0 with
  | panic => simp
  | err er => simp
  | ok v =>
    obtain ⟨ch, ops⟩ := v
    have := loop_returns_from (F := F) hc n hn hm envs
      { chan := ch, ts := init k.strat t0, agg := Agg.State.new k.agg } (.init t0) hdt
      (by simp [init]; omega)
    simpa using this


/-- the round counter of the stack's tracing state counts the rounds the loop has published -/
theorem loop_round_count {F : Type} [Agg.Num F] {c : Cfg} (hc : CfgOk c) :
    ∀ (envs : List Env) (st : St F), Reach c st.ts →
      (Stack.loop c st envs).1.ts.round = st.ts.round + (Props.Stack.published (Stack.loop c st envs).2.1).length := by
  intro envs
  induction envs with
  | nil => intro st _; simp [Stack.loop, Props.Stack.published]
  | cons e es ih =>
    intro st hs
    unfold Stack.loop
    by_cases hf : finished st.ts c.maxRounds = true
    · simp [hf, Props.Stack.published]
    · simp only [hf, Bool.false_eq_true, if_false]
      cases hi : Stack.iter c st e with
      | panic => simp [Props.Stack.published]
      | err er => simp [Props.Stack.published]
      | ok v =>
        obtain ⟨st', o⟩ := v
        obtain ⟨ro, hit, _, _⟩ := Stack.iter_refines hi
        have hs' : Reach c st'.ts := .step _ _ hs hit
        have hstep := C09.round_step hc hs hit
        have := ih st' hs'
        simp only [Props.Stack.published] at this ⊢
        cases hp : o.published with
        | none =>
          have h0 : st'.ts.round = st.ts.round := by simpa [hp] using hstep
          simp only [List.filterMap_cons, hp]
          rw [this, h0]
        | some r =>
          have h1 : st'.ts.round = st.ts.round + 1 := by simpa [hp] using hstep
          simp only [List.filterMap_cons, hp, List.length_cons]
          rw [this, h1, Nat.add_right_comm]; rfl

/-- **C09 for the whole stack: exactly n rounds.**  With a round limit `n` the loop of `Tracer::run`
    never publishes more than `n` rounds, and when it returns `Ok(())` it has published exactly `n`
    — whatever the sockets did. -/
theorem loop_exactly_n_rounds {F : Type} [Agg.Num F] {c : Cfg} (hc : CfgOk c) (n : Nat) (hn : 1 ≤ n)
    (hm : c.maxRounds = some n) :
    ∀ (envs : List Env) (st : St F), Reach c st.ts → st.ts.round ≤ n →
      (Stack.loop c st envs).1.ts.round ≤ n ∧
      ((Stack.loop c st envs).2.2 = some (.ok ()) → (Stack.loop c st envs).1.ts.round = n) := by
  intro envs
  induction envs with
  | nil =>
    intro st _ hle
    simp only [Stack.loop]
    refine ⟨hle, fun h => ?_⟩
    by_cases hf : finished st.ts c.maxRounds = true
    · simp [finished, hm] at hf; omega
    · simp [hf] at h
  | cons e es ih =>
    intro st hs hle
    unfold Stack.loop
    by_cases hf : finished st.ts c.maxRounds = true
    · simp only [hf, if_true]
      refine ⟨hle, fun _ => ?_⟩
      simp [finished, hm] at hf; omega
    · simp only [hf, Bool.false_eq_true, if_false]
      have hlt : st.ts.round < n := by simp [finished, hm] at hf; omega
      cases hi : Stack.iter c st e with
      | panic => exact ⟨hle, fun h => by simp at h⟩
      | err er => exact ⟨hle, fun h => by simp at h⟩
      | ok v =>
        obtain ⟨st', o⟩ := v
        obtain ⟨ro, hit, _, _⟩ := Stack.iter_refines hi
        have hs' : Reach c st'.ts := .step _ _ hs hit
        have hstep := C09.round_step hc hs hit
        have hle' : st'.ts.round ≤ n := by rw [hstep]; split <;> omega
        have := ih st' hs' hle'
        simpa using this

/-- from the start of `Tracer::run`: `Ok(())` ⇒ exactly `n` rounds were published and folded into the `State` -/
theorem run_exactly_n_rounds {F : Type} [Agg.Num F] (k : TracerCfg) (hc : CfgOk k.strat) (n : Nat) (hn : 1 ≤ n)
    (hm : k.strat.maxRounds = some n) (t0 : Nat) (envs : List Env) :
    (Props.Stack.published (Stack.run (F := F) k t0 envs).outs).length ≤ n ∧
    ((Stack.run (F := F) k t0 envs).ended = some (.ok ()) →
      (Props.Stack.published (Stack.run (F := F) k t0 envs).outs).length = n) := by
  unfold Stack.run
  cases hcn : Chan.connect k.conn t0 with
  | panic => simp [Props.Stack.published]
  | err er => simp [Props.Stack.published]
  | ok v =>
    obtain ⟨ch, ops⟩ := v
    let st0 : St F := { chan := ch, ts := init k.strat t0, agg := Agg.State.new k.agg }
    have h1 := loop_round_count (F := F) hc envs st0 (.init t0)
    have h2 := loop_exactly_n_rounds (F := F) hc n hn hm envs st0 (.init t0) (by simp [st0, init])
    have hr0 : st0.ts.round = 0 := by simp [st0, init]
    rw [hr0] at h1
    simp only [Nat.zero_add] at h1
    refine ⟨?_, fun h => ?_⟩
    · show (Props.Stack.published (Stack.loop k.strat st0 envs).2.1).length ≤ n
      rw [← h1]; exact h2.1
    · show (Props.Stack.published (Stack.loop k.strat st0 envs).2.1).length = n
      rw [← h1]; exact h2.2 h


/-- **C19 for the whole stack: every other configuration never sees checksums.**  Unless the trace is
    Dublin over IPv4, no entry of any round `Tracer::run` publishes — whatever arrives on the sockets —
    carries a UDP checksum pair; by `C19.status_unchanged_without_checksums` every hop of the `State`
    therefore keeps the `NotApplicable` it starts with (`C19.fresh_hop_not_applicable`). -/
theorem loop_rounds_without_checksums {F : Type} [Agg.Num F] {c : Cfg} (hc : CfgOk c)
    (hna : c.strat ≠ .dublin ∨ c.v6 = true) : ∀ (envs : List Env) (st : St F), Reach c st.ts →
    ∀ r ∈ Props.Stack.published (Stack.loop c st envs).2.1, ∀ sl ∈ r.probes, Reagg.ckPair sl = none := by
  intro envs
  induction envs with
  | nil => intro st _ r hr; simp [Stack.loop, Props.Stack.published] at hr
  | cons e es ih =>
    intro st hs r hr
    unfold Stack.loop at hr
    by_cases hf : finished st.ts c.maxRounds = true
    · simp [hf, Props.Stack.published] at hr
    · simp only [hf, Bool.false_eq_true, if_false] at hr
      cases hi : Stack.iter c st e with
      | panic => simp [hi, Props.Stack.published] at hr
      | err er => simp [hi, Props.Stack.published] at hr
      | ok v =>
        obtain ⟨st', o⟩ := v
        obtain ⟨ro, hit, _, _⟩ := Stack.iter_refines hi
        have hs' : Reach c st'.ts := .step _ _ hs hit
        simp only [hi, Props.Stack.published, List.filterMap_cons] at hr
        cases hp : o.published with
        | none =>
          simp only [hp] at hr
          exact ih st' hs' r (by simpa [Props.Stack.published] using hr)
        | some r0 =>
          simp only [hp, List.mem_cons] at hr
          rcases hr with rfl | hr
          · exact C19Strat.published_round_without_checksums hc hna hs hit r (by simpa using hp)
          · exact ih st' hs' r (by simpa [Props.Stack.published] using hr)

#print axioms loop_returns_from
#print axioms loop_rounds_without_checksums
#print axioms loop_round_count
#print axioms loop_exactly_n_rounds
#print axioms run_exactly_n_rounds
#print axioms run_returns
end TV.Props.StackLive
