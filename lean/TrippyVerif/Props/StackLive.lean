import TrippyVerif.Props.Stack
import TrippyVerif.Props.Termination
/-!
# C09 liveness for the whole stack

`Tracer::run` over the real `Channel` (model `TV.Stack`) **returns**: with a round limit `n`, in any
socket-level environment in which the clock advances in every iteration — whatever errors the socket
calls return, whatever bytes arrive or never arrive, whatever the outstanding TCP sockets answer —
after at most `n · (max_round_duration + 2)` iterations the loop has ended: with `Ok(())`, or earlier
with an error value (which `loop_error_recorded` shows in the `State`); never with a panic
(`loop_never_panics`), never still spinning.
-/
namespace TV.Props.StackLive
open TV TV.Strat TV.Stack TV.Props.Termination

theorem loop_returns_from {F : Type} [Agg.Num F] {c : Cfg} (hc : CfgOk c) (n : Nat) (hn : 1 ≤ n)
    (hm : c.maxRounds = some n) :
    ∀ (envs : List Env) (st : St F), Reach c st.ts → (∀ e ∈ envs, 1 ≤ e.dt) →
      (n - st.ts.round) * (c.maxRound + 2) ≤
        envs.length + min (st.ts.now - st.ts.roundStart) (c.maxRound + 1) →
      (Stack.loop c st envs).2.2 ≠ none := by
  intro envs
  induction envs with
  | nil =>
    intro st _ _ hb
    have hf := potential_zero hn hm (by simpa using hb)
    simp [Stack.loop, hf]
  | cons e es ih =>
    intro st hs hdt hb
    unfold Stack.loop
    by_cases hf : finished st.ts c.maxRounds = true
    · simp [hf]
    · simp only [hf, Bool.false_eq_true, if_false]
      have hlt : st.ts.round < n := by simp [finished, hm] at hf; omega
      cases hi : Stack.iter c st e with
      | panic => simp
      | err er => simp
      | ok v =>
        obtain ⟨st', o⟩ := v
        obtain ⟨ro, hit, _, _⟩ := Stack.iter_refines hi
        have hs' : Reach c st'.ts := .step _ _ hs hit
        have hstep := potential_step (L := es.length) hc hs hit (hdt e (by simp)) hlt
          (by simp only [List.length_cons] at hb; omega)
        have := ih st' hs' (fun e' he' => hdt e' (by simp [he'])) hstep
        simpa using this

/-- **`Tracer::run` returns.** -/
theorem run_returns {F : Type} [Agg.Num F] (k : TracerCfg) (hc : CfgOk k.strat) (n : Nat) (hn : 1 ≤ n)
    (hm : k.strat.maxRounds = some n) (t0 : Nat) (envs : List Env) (hdt : ∀ e ∈ envs, 1 ≤ e.dt)
    (hlen : n * (k.strat.maxRound + 2) ≤ envs.length) :
    (Stack.run (F := F) k t0 envs).ended ≠ none := by
  unfold Stack.run
  cases hcn : Chan.connect k.conn t0 with
  | panic => simp
  | err er => simp
  | ok v =>
    obtain ⟨ch, ops⟩ := v
    have := loop_returns_from (F := F) hc n hn hm envs
      { chan := ch, ts := init k.strat t0, agg := Agg.State.new k.agg } (.init t0) hdt
      (by simp [init]; omega)
    simpa using this

#print axioms loop_returns_from
#print axioms run_returns
end TV.Props.StackLive
