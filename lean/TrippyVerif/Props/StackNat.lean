import TrippyVerif.Props.StackLive
/-!
# C19 end to end: "every other configuration reports not-applicable"

For a trace that is not Dublin over IPv4, after **any** run of `Tracer::run` over the real `Channel`
(model `TV.Stack`) — whatever errors the socket calls returned, whatever bytes arrived, forged or
genuine — every hop of the hop table reports the NAT status `NotApplicable`.

Composition of: `StackLive.loop_rounds_without_checksums` (no published entry carries a checksum
pair; from `C19Strat` via the ghost history of C01), `Stack.stack_state_is_aggregation` (every hop
is the re-aggregation of its outcomes), and the positional definition of the status (`Reagg.natOf`).
-/
namespace TV.Props.StackNat
open TV TV.Strat TV.Stack TV.Reagg

/-- without checksum pairs no outcome of a round carries a NAT classification -/
theorem tagSlots_nat_none : ∀ (rest pre : List Slot), (∀ sl ∈ rest, ckPair sl = none) →
    ∀ x ∈ tagSlots pre rest, x.2.nat = none := by
  intro rest
  induction rest with
  | nil => intro pre _ x hx; simp [tagSlots] at hx
  | cons s post ih =>
    intro pre h x hx
    simp only [tagSlots, List.mem_append] at hx
    rcases hx with hx | hx
    · have hs := h s (by simp)
      cases s with
      | complete c =>
        simp only [tagOf, Option.toList, List.mem_singleton] at hx
        subst hx
        simp only [Outcome.nat, natOf]
        simp only [ckPair] at hs
        cases he : c.expCk <;> cases ha : c.actCk <;> simp_all
      | awaited p => simp only [tagOf, Option.toList, List.mem_singleton] at hx; subst hx; rfl
      | failed p => simp only [tagOf, Option.toList, List.mem_singleton] at hx; subst hx; rfl
      | notSent => simp [tagOf] at hx
      | skipped => simp [tagOf] at hx
    · exact ih (pre ++ [s]) (fun sl hsl => h sl (by simp [hsl])) x hx

theorem outcomes_nat_none (t : Nat) (hist : List Round)
    (h : ∀ r ∈ hist, ∀ sl ∈ r.probes, ckPair sl = none) :
    (outcomes t hist).filterMap Outcome.nat = [] := by
  rw [List.filterMap_eq_nil_iff]
  intro o ho
  simp only [outcomes, List.mem_flatMap] at ho
  obtain ⟨r, hr, ho⟩ := ho
  simp only [roundOutcomes, forTtl, List.mem_filterMap] at ho
  obtain ⟨x, hx, hxo⟩ := ho
  have := tagSlots_nat_none r.probes [] (h r hr) x hx
  split at hxo
  · simp only [Option.some.injEq] at hxo; subst hxo; exact this
  · simp at hxo

/-- **C19, not applicable.** -/
theorem stack_nat_not_applicable {F : Type} [Agg.Num F] (k : TracerCfg) (hc : CfgOk k.strat)
    (hfm : k.strat.firstTtl ≤ k.strat.maxTtl) (hinf : 1 ≤ k.strat.maxInflight)
    (hna : k.strat.strat ≠ .dublin ∨ k.strat.v6 = true) (t0 : Nat) (envs : List Env) (st : St F)
    (h : (Stack.run (F := F) k t0 envs).state = some st) :
    ∃ fs, Agg.lookupFlow st.agg.flows 0 = some fs ∧
      ∀ t, 1 ≤ t → t ≤ 254 → ∃ hp, fs.hops[t - 1]? = some hp ∧ hp.lastNatStatus = .notApplicable := by
  obtain ⟨_, _, _, _, _, _, fs, hfs, hhops⟩ := Props.Stack.stack_state_is_aggregation k hc hfm hinf t0 envs st h
  refine ⟨fs, hfs, fun t h1 h2 => ?_⟩
  obtain ⟨hp, hget, hstats⟩ := hhops t h1 h2
  refine ⟨hp, hget, ?_⟩
  have hnock : ∀ r ∈ Props.Stack.published (Stack.run (F := F) k t0 envs).outs, ∀ sl ∈ r.probes, ckPair sl = none := by
    unfold Stack.run
    cases hcn : Chan.connect k.conn t0 with
    | panic => intro r hr; simp [Props.Stack.published] at hr
    | err er => intro r hr; simp [Props.Stack.published] at hr
    | ok v =>
      obtain ⟨ch, ops⟩ := v
      exact StackLive.loop_rounds_without_checksums (F := F) hc hna envs
        { chan := ch, ts := init k.strat t0, agg := Agg.State.new k.agg } (.init t0)
  have hl : (statsOf hp).lastNatStatus = .notApplicable := by
    rw [hstats]
    simp only [reagg]
    rw [outcomes_nat_none t _ hnock]
    rfl
  simpa [statsOf] using hl

#print axioms tagSlots_nat_none
#print axioms outcomes_nat_none
#print axioms stack_nat_not_applicable
end TV.Props.StackNat
