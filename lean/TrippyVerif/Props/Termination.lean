import TrippyVerif.Props.C08
import TrippyVerif.Props.C09
/-!
# C09, liveness half: with a round limit the tracer returns

"With a round limit n the tracer publishes exactly n rounds, numbered 0..n-1 in order, and returns
success whatever responses the network returns or withholds."  `C09.exactly_n_rounds` is the safety
half (success only after exactly n rounds, never more).  This file proves that the run *does* return:

`terminates`: for an ICMP or UDP trace, in every environment in which the clock advances in every
iteration (by at least one nanosecond — the wait inside `recv_probe`) and no fatal socket error
occurs — whatever responses arrive or stay away, genuine or forged, and whichever probes fail
transiently — a run of `n · (max_round_duration + 2)` iterations has ended with `Ok(())`, hence
(`exactly_n_rounds`) after exactly `n` published rounds.  The bound is in iterations; in time it is
C08 `never_held_open`: each round is published at the first check after `max_round_duration`.

(For TCP the same holds as long as no address-in-use collision exhausts a round's 512 sequence
numbers, which ends the run with the capacity error instead — C07.)
-/
namespace TV.Props.Termination
open TV TV.Strat

/-- an iteration environment without fatal errors in which time passes -/
def Benign (e : IterEnv) : Prop :=
  (∀ o ∈ e.sends, o = .ok ∨ o = .probeFailed) ∧ e.recv ≠ .fatal ∧ 1 ≤ e.dt

/-- the send step cannot fail when no outcome is fatal or address-in-use (ICMP / UDP) -/
theorem sendRequest_benign {c : Cfg} (hc : CfgOk c) (hp : c.proto ≠ .tcp) {s : TS} (h : Inv c s)
    (sends : List SendOutcome) (hb : ∀ o ∈ sends, o = .ok ∨ o = .probeFailed) :
    ∃ v, sendRequest c s sends = .ok v := by
  have hml := hc.max_le
  have httl := h.ttl_ge
  unfold sendRequest
  simp only [canSendR_eq hc h, R.bind_ok]
  by_cases hg : canSend c s = true
  · have hg' := hg
    simp only [canSend, Bool.and_eq_true, Bool.not_eq_true', decide_eq_true_eq] at hg'
    obtain ⟨⟨hnf, hmax⟩, hwin⟩ := hg'
    rw [if_pos hg]
    unfold doSends
    have h254 : s.ttl ≤ 254 := by omega
    have hho : (headOutcome sends).1 = .ok ∨ (headOutcome sends).1 = .probeFailed := by
      cases sends with
      | nil => left; rfl
      | cons o os => exact hb o (by simp)
    have hcnt : s.count < BUFFER_SIZE := by
      have := h.count_ttl hp; simp [BUFFER_SIZE_eq]; omega
    obtain ⟨p, hnp, hs1, ht1, hr1, hn1⟩ := nextProbe_spec hc h hcnt h254 s.now
    have ha := alloc_afterNext h hcnt h254 p hs1 ht1 hr1
    cases hpr : c.proto with
    | tcp => exact absurd hpr hp
    | icmp =>
      simp only [hnp, R.bind_ok]
      rcases hho with ho | ho <;> rw [ho]
      · simp [doSend]
      · simp [doSend, failProbe_spec ha]
    | udp =>
      simp only [hnp, R.bind_ok]
      rcases hho with ho | ho <;> rw [ho]
      · simp [doSend]
      · simp [doSend, failProbe_spec ha]
  · simp [hg]

/-- an iteration in a benign environment neither fails nor panics -/
theorem iter_benign_ok {c : Cfg} (hc : CfgOk c) (hp : c.proto ≠ .tcp) {s : TS} (h : Inv c s)
    {e : IterEnv} (he : Benign e) : ∃ s' o, iter c s e = .ok (s', o) := by
  obtain ⟨⟨s1, lg⟩, hs⟩ := sendRequest_benign hc hp h e.sends he.1
  have hi1 := ((sendRequest_spec hc h e.sends).2 s1 lg hs).1
  obtain ⟨hnp2, hrr⟩ := recvResponse_inv hi1 e.dt e.recv
  unfold iter
  simp only [hs, R.bind_ok]
  cases hr : recvResponse c s1 e.dt e.recv with
  | panic => exact absurd hr hnp2
  | err er =>
    exfalso
    cases hv : e.recv with
    | fatal => exact he.2.1 hv
    | none => simp [hv, recvResponse] at hr
    | resp r =>
      rw [hv, recvResponse_spec hi1] at hr
      split at hr <;> simp at hr
  | ok s2 =>
    have hi2 := hrr s2 hr
    simp only [R.bind_ok]
    obtain ⟨hu1, hu2⟩ := updateRound_spec hc hi2
    by_cases hrc : roundComplete c s2 = true
    · obtain ⟨r, _, hu⟩ := hu2 hrc
      rw [hu]; exact ⟨_, _, rfl⟩
    · rw [hu1 (by simpa using hrc)]; exact ⟨_, _, rfl⟩

/-- the round's start never lies in the future -/
theorem roundStart_le_now {c : Cfg} (hc : CfgOk c) {s : TS} (hs : Reach c s) : s.roundStart ≤ s.now := by
  induction hs with
  | init t0 => simp [init]
  | step e o hs hit ih =>
    obtain ⟨s2, _, _, _, hpub, hnone⟩ := C08.publish_iff hc hs hit
    cases hp : o.published with
    | none => obtain ⟨h1, h2⟩ := hnone hp; omega
    | some r => obtain ⟨_, _, h1, h2⟩ := hpub r hp; omega

/-- the potential `(n − round)·(M+2) − min(now − round_start, M+1)` falls by at least one in every
    successful iteration in which time passes -/
theorem potential_step {c : Cfg} (hc : CfgOk c) {n : Nat} {s s' : TS} (hs : Reach c s) {e : IterEnv}
    {o : IterOut} (hit : iter c s e = .ok (s', o)) (hdt : 1 ≤ e.dt) (hlt : s.round < n) {L : Nat}
    (hb : (n - s.round) * (c.maxRound + 2) ≤ L + 1 + min (s.now - s.roundStart) (c.maxRound + 1)) :
    (n - s'.round) * (c.maxRound + 2) ≤ L + min (s'.now - s'.roundStart) (c.maxRound + 1) := by
  have hrs := C09.round_step hc hs hit
  obtain ⟨s2, _, _, _, hpub, hnone⟩ := C08.publish_iff hc hs hit
  have hle := roundStart_le_now hc hs
  cases hp' : o.published with
  | some r =>
    obtain ⟨_, _, h1, h2⟩ := hpub r hp'
    have hr' : s'.round = s.round + 1 := by simpa [hp'] using hrs
    have hsplit : (n - s.round) * (c.maxRound + 2) = (n - s'.round) * (c.maxRound + 2) + (c.maxRound + 2) := by
      have : n - s.round = (n - s'.round) + 1 := by omega
      rw [this, Nat.add_mul]; simp
    have : min (s.now - s.roundStart) (c.maxRound + 1) ≤ c.maxRound + 1 := Nat.min_le_right _ _
    omega
  | none =>
    obtain ⟨h1, h2⟩ := hnone hp'
    have hr' : s'.round = s.round := by simpa [hp'] using hrs
    have hnot : ¬ ((s.now + e.dt) - s.roundStart > c.maxRound) := fun hex =>
      C08.never_held_open hc hs hit hex hp'
    rw [hr', h1, h2]
    have : min (s.now - s.roundStart) (c.maxRound + 1) ≤ s.now - s.roundStart := Nat.min_le_left _ _
    have h3 : min (s.now + e.dt - s.roundStart) (c.maxRound + 1) = s.now + e.dt - s.roundStart := by
      apply Nat.min_eq_left; omega
    rw [h3]; omega

/-- potential zero means the round limit is reached -/
theorem potential_zero {c : Cfg} {n : Nat} (hn : 1 ≤ n) (hm : c.maxRounds = some n) {s : TS}
    (hb : (n - s.round) * (c.maxRound + 2) ≤ 0 + min (s.now - s.roundStart) (c.maxRound + 1)) :
    finished s c.maxRounds = true := by
  have hz : n - s.round = 0 := by
    rcases Nat.eq_zero_or_pos (n - s.round) with h | h
    · exact h
    · exfalso
      have : 1 * (c.maxRound + 2) ≤ (n - s.round) * (c.maxRound + 2) := Nat.mul_le_mul_right _ h
      have : min (s.now - s.roundStart) (c.maxRound + 1) ≤ c.maxRound + 1 := Nat.min_le_right _ _
      omega
  simp [finished, hm]; omega

/-- **C09, liveness for every protocol and every environment in which time passes**: `run` has
    *returned* — with `Ok(())`, or earlier with the error of a fatal iteration — within the bound;
    it cannot be kept in the loop by anything the network sends, withholds or refuses. -/
theorem returns_from {c : Cfg} (hc : CfgOk c) (n : Nat) (hn : 1 ≤ n) (hm : c.maxRounds = some n) :
    ∀ (envs : List IterEnv) (s : TS), Reach c s → (∀ e ∈ envs, 1 ≤ e.dt) →
      (n - s.round) * (c.maxRound + 2) ≤ envs.length + min (s.now - s.roundStart) (c.maxRound + 1) →
      (run c s envs).ended ≠ none := by
  intro envs
  induction envs with
  | nil =>
    intro s _ _ hb
    have hz : n - s.round = 0 := by
      rcases Nat.eq_zero_or_pos (n - s.round) with h | h
      · exact h
      · exfalso
        have : 1 * (c.maxRound + 2) ≤ (n - s.round) * (c.maxRound + 2) := Nat.mul_le_mul_right _ h
        simp at hb; omega
    have hf : finished s c.maxRounds = true := by simp [finished, hm]; omega
    simp [run, hf]
  | cons e es ih =>
    intro s hs hbn hb
    by_cases hf : finished s c.maxRounds = true
    · simp [run, hf]
    · have hlt : s.round < n := by simp [finished, hm] at hf; omega
      cases hit : iter c s e with
      | panic => simp [run, hf, hit]
      | err er => simp [run, hf, hit]
      | ok v =>
      obtain ⟨s', o⟩ := v
      have hs' : Reach c s' := .step e o hs hit
      have hrs := C09.round_step hc hs hit
      obtain ⟨s2, _, _, _, hpub, hnone⟩ := C08.publish_iff hc hs hit
      have hle := roundStart_le_now hc hs
      have hdt := hbn e (by simp)
      have hrec : (run c s' es).ended ≠ none := by
        apply ih s' hs' (fun e' he' => hbn e' (by simp [he']))
        cases hp' : o.published with
        | some r =>
          obtain ⟨_, _, h1, h2⟩ := hpub r hp'
          have hr' : s'.round = s.round + 1 := by simpa [hp'] using hrs
          have hsplit : (n - s.round) * (c.maxRound + 2) = (n - s'.round) * (c.maxRound + 2) + (c.maxRound + 2) := by
            have : n - s.round = (n - s'.round) + 1 := by omega
            rw [this, Nat.add_mul]; simp
          simp only [List.length_cons] at hb
          have : min (s.now - s.roundStart) (c.maxRound + 1) ≤ c.maxRound + 1 := Nat.min_le_right _ _
          omega
        | none =>
          obtain ⟨h1, h2⟩ := hnone hp'
          have hr' : s'.round = s.round := by simpa [hp'] using hrs
          have hnot : ¬ ((s.now + e.dt) - s.roundStart > c.maxRound) := fun hex =>
            C08.never_held_open hc hs hit hex hp'
          rw [hr', h1, h2]
          simp only [List.length_cons] at hb
          have : min (s.now - s.roundStart) (c.maxRound + 1) ≤ s.now - s.roundStart := Nat.min_le_left _ _
          have h3 : min (s.now + e.dt - s.roundStart) (c.maxRound + 1) = s.now + e.dt - s.roundStart := by
            apply Nat.min_eq_left; omega
          rw [h3]; omega
      simp only [run, hf, hit]
      simpa using hrec

/-- from the start: any protocol, any environment list of `n·(max_round+2)` iterations in which the
    clock advances: the run has returned (and not by a panic: `C09.run_never_panics`). -/
theorem returns {c : Cfg} (hc : CfgOk c) (n : Nat) (hn : 1 ≤ n) (hm : c.maxRounds = some n) (t0 : Nat)
    (envs : List IterEnv) (hdt : ∀ e ∈ envs, 1 ≤ e.dt) (hlen : n * (c.maxRound + 2) ≤ envs.length) :
    (run c (init c t0) envs).ended ≠ none := by
  apply returns_from hc n hn hm envs _ (.init t0) hdt
  simp [init]; omega

/-- **C09, liveness.**  With a round limit `n`, from any reachable state with `s.round ≤ n`, every
    benign environment list of at least `(n − s.round)·(max_round + 2)` iterations (less the progress
    already made in the current round) brings `run` to `Ok(())`. -/
theorem terminates_from {c : Cfg} (hc : CfgOk c) (hp : c.proto ≠ .tcp) (n : Nat) (hn : 1 ≤ n)
    (hm : c.maxRounds = some n) :
    ∀ (envs : List IterEnv) (s : TS), Reach c s → (∀ e ∈ envs, Benign e) →
      (n - s.round) * (c.maxRound + 2) ≤ envs.length + min (s.now - s.roundStart) (c.maxRound + 1) →
      (run c s envs).ended = some (.ok ()) := by
  intro envs
  induction envs with
  | nil =>
    intro s _ _ hb
    have hz : n - s.round = 0 := by
      rcases Nat.eq_zero_or_pos (n - s.round) with h | h
      · exact h
      · exfalso
        have : 1 * (c.maxRound + 2) ≤ (n - s.round) * (c.maxRound + 2) := Nat.mul_le_mul_right _ h
        simp at hb; omega
    have hf : finished s c.maxRounds = true := by simp [finished, hm]; omega
    simp [run, hf]
  | cons e es ih =>
    intro s hs hbn hb
    by_cases hf : finished s c.maxRounds = true
    · simp [run, hf]
    · have hlt : s.round < n := by simp [finished, hm] at hf; omega
      obtain ⟨s', o, hit⟩ := iter_benign_ok hc hp (reach_inv hc hs) (hbn e (by simp))
      have hs' : Reach c s' := .step e o hs hit
      have hrs := C09.round_step hc hs hit
      obtain ⟨s2, _, _, _, hpub, hnone⟩ := C08.publish_iff hc hs hit
      have hle := roundStart_le_now hc hs
      have hdt := (hbn e (by simp)).2.2
      have hrec : (run c s' es).ended = some (.ok ()) := by
        apply ih s' hs' (fun e' he' => hbn e' (by simp [he']))
        cases hp' : o.published with
        | some r =>
          obtain ⟨_, _, h1, h2⟩ := hpub r hp'
          have hr' : s'.round = s.round + 1 := by simpa [hp'] using hrs
          have hsplit : (n - s.round) * (c.maxRound + 2) = (n - s'.round) * (c.maxRound + 2) + (c.maxRound + 2) := by
            have : n - s.round = (n - s'.round) + 1 := by omega
            rw [this, Nat.add_mul]; simp
          simp only [List.length_cons] at hb
          have : min (s.now - s.roundStart) (c.maxRound + 1) ≤ c.maxRound + 1 := Nat.min_le_right _ _
          omega
        | none =>
          obtain ⟨h1, h2⟩ := hnone hp'
          have hr' : s'.round = s.round := by simpa [hp'] using hrs
          have hnot : ¬ ((s.now + e.dt) - s.roundStart > c.maxRound) := fun hex =>
            C08.never_held_open hc hs hit hex hp'
          rw [hr', h1, h2]
          simp only [List.length_cons] at hb
          have : min (s.now - s.roundStart) (c.maxRound + 1) ≤ s.now - s.roundStart := Nat.min_le_left _ _
          have h3 : min (s.now + e.dt - s.roundStart) (c.maxRound + 1) = s.now + e.dt - s.roundStart := by
            apply Nat.min_eq_left; omega
          rw [h3]; omega
      simp only [run, hf, hit]
      simpa using hrec

/-- **C09, liveness (from the start).**  ICMP / UDP, round limit `n ≥ 1`: whatever the network
    returns or withholds, after `n · (max_round + 2)` benign iterations `run` has returned `Ok(())`. -/
theorem terminates {c : Cfg} (hc : CfgOk c) (hp : c.proto ≠ .tcp) (n : Nat) (hn : 1 ≤ n)
    (hm : c.maxRounds = some n) (t0 : Nat) (envs : List IterEnv) (hb : ∀ e ∈ envs, Benign e)
    (hlen : n * (c.maxRound + 2) ≤ envs.length) :
    (run c (init c t0) envs).ended = some (.ok ()) := by
  apply terminates_from hc hp n hn hm envs _ (.init t0) hb
  simp [init]; omega

/-- … and then exactly `n` rounds were published (`exactly_n_rounds`; their numbering `0 .. n-1` is
    `C09.rounds_numbered`). -/
theorem terminates_with_n_rounds {c : Cfg} (hc : CfgOk c) (hp : c.proto ≠ .tcp) (n : Nat) (hn : 1 ≤ n)
    (hm : c.maxRounds = some n) (t0 : Nat) (envs : List IterEnv) (hb : ∀ e ∈ envs, Benign e)
    (hlen : n * (c.maxRound + 2) ≤ envs.length) :
    (run c (init c t0) envs).ended = some (.ok ()) ∧
    C09.publishedCount (run c (init c t0) envs).outs = n := by
  have h := terminates hc hp n hn hm t0 envs hb hlen
  exact ⟨h, (C09.exactly_n_rounds hc n hn hm t0 envs).2 h⟩

/-- the hypotheses are satisfiable: a silent network (no response ever), 1 ns per iteration -/
example : Benign { sends := [], dt := 1, recv := .none } := by simp [Benign]

#print axioms sendRequest_benign
#print axioms iter_benign_ok
#print axioms roundStart_le_now
#print axioms potential_step
#print axioms returns_from
#print axioms returns
#print axioms terminates_from
#print axioms terminates
#print axioms terminates_with_n_rounds
end TV.Props.Termination
