import TrippyVerif.Gen.TosTab
/-!
# The DSCP / ECN split of the type-of-service octet (translator tie; C17: the Dscp and Ecn columns never crash)

`TypeOfService::split` (trippy-core `types.rs`) is what `Hop::dscp()` / `Hop::ecn()` go through when the `K` / `M`
columns of the hop table are shown.  Its ECN match ends in `_ => unreachable!()`: that arm must really be unreachable for
every octet a hop can report.  `Gen/TosTab.lean` is regenerated from the source on every run.

* `ecn_match_total`: for every octet the masked value has a named arm — the `unreachable!()` arm is never taken;
* `fields_as_rfc`: DSCP is the upper six bits (`(tos & 0xfc) >> 2`), ECN the lower two (`tos & 0x03`) — RFC 2474 §3,
  RFC 3168 §5 — and together they are the whole octet;
* `dscp_names_as_registered`: the named code points are those of the IANA DSCP registry (pool 1 and LE, RFC 8622),
  each once, every other value is kept as a number;
* `ecn_names_as_rfc3168`: 00 Not-ECT, 01 ECT(1), 10 ECT(0), 11 CE.
-/
namespace TV.Props.TosTab
open TV.Gen.TosTab

/-- the outcome of the ECN match for an octet: the arm's name, or `none` if only the panicking rest arm is left -/
def ecnOf (tos : Nat) : Option String := (ecnArms.find? (·.1 == tos &&& ecnMask)).map (·.2)

/-- the DSCP of an octet: a registered name or the number itself -/
def dscpOf (tos : Nat) : Option String :=
  match dscpArms.find? (·.1 == (tos &&& dscpMask) >>> dscpShift) with
  | some a => some a.2
  | none => if dscpOther then some (toString ((tos &&& dscpMask) >>> dscpShift)) else none

theorem ecn_match_total : ∀ tos : Fin 256, (ecnOf tos.val).isSome = true := by decide +kernel

theorem dscp_match_total : ∀ tos : Fin 256, (dscpOf tos.val).isSome = true := by decide +kernel

theorem fields_as_rfc : dscpMask = 0xfc ∧ dscpShift = 2 ∧ ecnMask = 0x03 ∧
    ∀ tos : Fin 256, (((tos.val &&& dscpMask) >>> dscpShift) <<< 2) ||| (tos.val &&& ecnMask) = tos.val := by decide +kernel

/-- same members, `xs` without duplicates -/
def SameSet (xs ys : List (Nat × String)) : Prop := xs.Nodup ∧ (∀ x ∈ xs, x ∈ ys) ∧ ∀ y ∈ ys, y ∈ xs
instance (xs ys : List (Nat × String)) : Decidable (SameSet xs ys) := by unfold SameSet; infer_instance

/-- IANA "Differentiated Services Field Codepoints" (DF/CS0, CS1–CS7, AF11–AF43, EF, VOICE-ADMIT, LE) -/
def registry : List (Nat × String) :=
  [(0, "DF"), (8, "CS1"), (16, "CS2"), (24, "CS3"), (32, "CS4"), (40, "CS5"), (48, "CS6"), (56, "CS7"),
   (10, "AF11"), (12, "AF12"), (14, "AF13"), (18, "AF21"), (20, "AF22"), (22, "AF23"),
   (26, "AF31"), (28, "AF32"), (30, "AF33"), (34, "AF41"), (36, "AF42"), (38, "AF43"),
   (46, "EF"), (44, "VA"), (1, "LE")]

theorem dscp_names_as_registered : SameSet dscpArms registry ∧ (dscpArms.map (·.1)).Nodup ∧ dscpOther = true := by decide

theorem ecn_names_as_rfc3168 :
    SameSet ecnArms [(0, "NotECT"), (1, "ECT1"), (2, "ECT0"), (3, "CE")] ∧ ecnRestPanics = true := by decide

#print axioms ecn_match_total
#print axioms dscp_match_total
#print axioms fields_as_rfc
#print axioms dscp_names_as_registered
#print axioms ecn_names_as_rfc3168
end TV.Props.TosTab
