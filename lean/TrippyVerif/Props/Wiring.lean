import TrippyVerif.Gen.Wiring
/-!
# C16: from the configuration to the tracer

`build_config` (C16's wiring table) ends in a `TrippyConfig`; the tracer is then built by
`app::start_tracer` through the setters of trippy-core's `Builder`.  Both steps are translated into
tables on every run (`tools/rs2lean/wiring.py` → `Gen/Wiring.lean`); the theorems say that no option
is lost, swapped or stored under another name on that way:

* `setters_store_their_own_field`: every `Builder` setter stores (an expression of) its one parameter
  in the field that carries the setter's name;
* `start_tracer_wiring`: every call of the chain hands `cfg.<name>` to the setter `<name>`, with the
  documented exceptions listed in `exceptions`;
* `start_tracer_complete`: every setter is called exactly once.
-/
namespace TV.Props.Wiring
open TV.Gen.Wiring

/-- what is deliberately not `setter(cfg.setter)`: the target is the constructor's argument, the
interface is cloned, TCP probes may stay outstanding for one minimal round, the trace identifier is
per target, the flow limit is a derived value, privileges are always dropped -/
def exceptions : List (String × String) :=
  [("new", "target_addr"), ("interface", "cfg . interface . clone ( )"),
   ("tcp_connect_timeout", "cfg . min_round_duration"), ("trace_identifier", "trace_identifier"),
   ("max_flows", "cfg . max_flows ( )"), ("drop_privileges", "true"), ("build", ""), ("spawn", "")]

theorem setters_store_their_own_field :
    ∀ t ∈ builderSetters, t.2.1 = t.1 ∧ t.2.2.length = 1 := by decide

theorem setters_distinct : (builderSetters.map (·.1)).Nodup := by decide

theorem start_tracer_wiring :
    ∀ c ∈ startTracerChain, c.2 = "cfg . " ++ c.1 ∨ c ∈ exceptions := by decide

theorem start_tracer_complete :
    ∀ t ∈ builderSetters, (startTracerChain.filter (·.1 = t.1)).length = 1 := by decide

/-- the chain is a construction, the setters, `build`, `spawn` — nothing else -/
theorem start_tracer_shape :
    startTracerChain.head? = some ("new", "target_addr") ∧
    (startTracerChain.map (·.1)).getLast? = some "spawn" ∧
    ∀ c ∈ startTracerChain, c.1 ∈ ["new", "build", "spawn"] ∨ c.1 ∈ builderSetters.map (·.1) := by decide

#print axioms setters_store_their_own_field
#print axioms setters_distinct
#print axioms start_tracer_wiring
#print axioms start_tracer_complete
#print axioms start_tracer_shape
end TV.Props.Wiring
