import TrippyVerif.Gen.Wiring
/-!
# C16: from the configuration to the tracer

`build_config` (C16's wiring table) ends in a `TrippyConfig`; the tracer is then built by
`app::start_tracer` through the setters of trippy-core's `Builder`.  Both steps are translated into
tables on every run (`tools/rs2lean/wiring.py` → `Gen/Wiring.lean`); the theorems say that no option
is lost, swapped or stored under another name on that way:

* `setters_store_their_own_field`: every `Builder` setter stores (an expression of) its one parameter
  in the field that carries the setter's name;
* `start_tracer_wiring`: every call of the chain hands `cfg.<name>` to the setter `<name>`, with the
  documented exceptions listed in `exceptions`;
* `start_tracer_complete`: every setter is called exactly once;
* `config_lookup_order`, `firstFound_spec`: the default configuration file is the first that exists in the documented
  order of locations.
-/
namespace TV.Props.Wiring
open TV.Gen.Wiring

/-- what is deliberately not `setter(cfg.setter)`: the target is the constructor's argument, the
interface is cloned, TCP probes may stay outstanding for one minimal round, the trace identifier is
per target, the flow limit is a derived value, privileges are always dropped -/
def exceptions : List (String × String) :=
  [("new", "target_addr"), ("interface", "cfg . interface . clone ( )"),
   ("tcp_connect_timeout", "cfg . min_round_duration"), ("trace_identifier", "trace_identifier"),
   ("max_flows", "cfg . max_flows ( )"), ("drop_privileges", "true"), ("build", ""), ("spawn", "")]

theorem setters_store_their_own_field :
    ∀ t ∈ builderSetters, t.2.1 = t.1 ∧ t.2.2.length = 1 := by decide

theorem setters_distinct : (builderSetters.map (·.1)).Nodup := by decide

theorem start_tracer_wiring :
    ∀ c ∈ startTracerChain, c.2 = "cfg . " ++ c.1 ∨ c ∈ exceptions := by decide

theorem start_tracer_complete :
    ∀ t ∈ builderSetters, (startTracerChain.filter (·.1 = t.1)).length = 1 := by decide

/-- the chain is a construction, the setters, `build`, `spawn` — nothing else -/
theorem start_tracer_shape :
    startTracerChain.head? = some ("new", "target_addr") ∧
    (startTracerChain.map (·.1)).getLast? = some "spawn" ∧
    ∀ c ∈ startTracerChain, c.1 ∈ ["new", "build", "spawn"] ∨ c.1 ∈ builderSetters.map (·.1) := by decide

/-! ## where the configuration file comes from

`read_default_config_file` / `read_files` are chains `if let Some(file) = lookup? { Ok(Some(file)) } else …` (the
translator checks that every lookup is such an arm): the first file that exists is used.  `configLookupDirs` /
`configLookupNames` are the lookups in textual order, local aliases substituted. -/

/-- the chain: the first lookup that finds a file -/
def firstFound {α : Type} : List (Option α) → Option α
  | [] => none
  | some a :: _ => some a
  | none :: rest => firstFound rest

/-- the file used is the one at the first position where one exists -/
theorem firstFound_spec {α : Type} (l : List (Option α)) (a : α) :
    firstFound l = some a ↔ ∃ i : Nat, l[i]? = some (some a) ∧ ∀ j : Nat, j < i → l[j]? = some none := by
  induction l with
  | nil => simp [firstFound]
  | cons x xs ih =>
    cases x with
    | some b =>
      simp only [firstFound, Option.some.injEq]
      constructor
      · rintro rfl; exact ⟨0, by simp, by omega⟩
      · rintro ⟨i, hi, hj⟩
        cases i with
        | zero => simpa using hi
        | succ i => have := hj 0 (by omega); simp at this
    | none =>
      simp only [firstFound, ih]
      constructor
      · rintro ⟨i, hi, hj⟩
        refine ⟨i + 1, by simpa using hi, fun j hjlt => ?_⟩
        cases j with
        | zero => simp
        | succ j => simpa using hj j (by omega)
      · rintro ⟨i, hi, hj⟩
        cases i with
        | zero => simp at hi
        | succ i => exact ⟨i, by simpa using hi, fun j hjlt => by simpa using hj (j + 1) (by omega)⟩

theorem firstFound_none {α : Type} (l : List (Option α)) : firstFound l = none ↔ ∀ x ∈ l, x = none := by
  induction l with
  | nil => simp [firstFound]
  | cons x xs ih => cases x <;> simp [firstFound, ih]

/-- the documented order (file.rs doc comment, docs/reference/configuration.md): the current directory, the home
directory, the XDG configuration directory, its `trippy` sub-directory; in each `trippy.toml` before `.trippy.toml` -/
theorem config_lookup_order :
    configLookupDirs = ["\"\"", "base :: choose_base_strategy ( ) ? . home_dir ( )",
      "base :: choose_base_strategy ( ) ? . config_dir ( )",
      "base :: choose_base_strategy ( ) ? . config_dir ( ) . join ( \"trippy\" )"] ∧
    configLookupNames = ["trippy.toml", ".trippy.toml"] := by decide

#print axioms firstFound_spec
#print axioms firstFound_none
#print axioms config_lookup_order
#print axioms setters_store_their_own_field
#print axioms setters_distinct
#print axioms start_tracer_wiring
#print axioms start_tracer_complete
#print axioms start_tracer_shape
end TV.Props.Wiring
