import TrippyVerif.Model.Basic
/-
RFC field positions, stated once and independently of the code.

A header field is described by `(k, n, sh, w)`: it lives in the `n` consecutive
octets starting at octet `k` of the header; reading those octets as one big-endian
(network order) number `W` of `8*n` bits, the field is the `w` bits of `W` starting
`sh` bits above the least significant bit: `field = (W >>> sh) mod 2^w`.
(In RFC "bit 0 is the most significant bit" numbering the field starts at bit
`8*k + 8*n - sh - w` of the header.)
-/
namespace TV.Spec

/-- octet `i` of the buffer (0 beyond the end; every theorem that uses it carries the
hypothesis that `i` is inside the buffer) -/
def octet (b : Buf) (i : Nat) : UInt8 := b.getD i 0

/-- the `n` octets starting at `k`, concatenated in network order, as a bit vector -/
def wordBV (b : Buf) (k : Nat) : (n : Nat) → BitVec (8 * n)
  | 0     => 0#0
  | n + 1 => ((wordBV b k n) ++ (octet b (k + n)).toBitVec).cast (by omega)

/-- the value of field `(k,n,sh,w)` -/
def getField (b : Buf) (k n sh w : Nat) : BitVec w :=
  (wordBV b k n).extractLsb' sh w

/-- `x` with the `w` bits starting at `sh` replaced by the low `w` bits of `v` -/
def replaceBV {N : Nat} (x : BitVec N) (sh w : Nat) (v : BitVec w) : BitVec N :=
  (x &&& ~~~((BitVec.allOnes w).setWidth N <<< sh)) ||| (v.setWidth N <<< sh)

/-- write the `8*n`-bit word `x` into octets `k .. k+n` in network order -/
def putBV (b : Buf) (k : Nat) : (n : Nat) → BitVec (8 * n) → Buf
  | 0,     _ => b
  | n + 1, x =>
      (putBV b k n (x.extractLsb' 8 (8 * n))).set (k + n) (UInt8.ofBitVec (x.extractLsb' 0 8))

/-- the buffer after storing `v` into field `(k,n,sh,w)` -/
def setField (b : Buf) (k n sh w : Nat) (v : BitVec w) : Buf :=
  putBV b k n (replaceBV (wordBV b k n) sh w v)

/-- bit `j` of the buffer in RFC numbering (bit 0 = most significant bit of octet 0) -/
def bitAt (b : Buf) (j : Nat) : Bool := (octet b (j / 8)).toBitVec.getMsbD (j % 8)

end TV.Spec
