import TrippyVerif.Model.Basic
/-!
# Independent structural decoders (specification side of C11 / C02)

Written from the RFCs, not from the code:

* RFC 791 §3.1 — Internet header: version (4 bits), IHL (4 bits, 32-bit words, ≥ 5), type of
  service, total length (header + data, octets), identification, flags (bit 0 reserved, bit 1 DF,
  bit 2 MF), fragment offset (13 bits), time to live, protocol, header checksum, source,
  destination, options (IHL·4 − 20 octets); the data occupies octets IHL·4 … total length.
* RFC 8200 §3 — IPv6 header: version, traffic class (8 bits), flow label (20 bits), payload
  length, next header, hop limit, source, destination.
* RFC 768 — UDP: source port, destination port, length (header + data, ≥ 8), checksum (0 = none
  computed, IPv4 only); RFC 8200 §8.1 — over IPv6 a zero checksum is invalid (`decodeUDP6`).
* RFC 792 / RFC 4443 §4.1 — Echo / Echo Reply: type, code, checksum, identifier, sequence number,
  data.

Multi-octet fields are big-endian.  Each decoder returns `none` for an octet string that is not a
well-formed instance.
-/
namespace TV.Decode
open TV

/-- a 16-bit big-endian field -/
def u16 (a b : UInt8) : Nat := a.toNat * 256 + b.toNat

structure IPv4Hdr where
  version : Nat
  ihl : Nat
  tos : Nat
  totalLength : Nat
  ident : Nat
  /-- flag bit 0, must be zero -/
  reserved : Bool
  /-- Don't Fragment -/
  df : Bool
  /-- More Fragments -/
  mf : Bool
  fragOffset : Nat
  ttl : Nat
  proto : Nat
  headerChecksum : Nat
  src : Buf
  dst : Buf
  options : Buf
  deriving Repr, DecidableEq

/-- RFC 791: header and data of a datagram; `none` unless version = 4, IHL ≥ 5, the header fits
in the total length and the total length in the buffer. -/
def decodeIPv4 : Buf → Option (IPv4Hdr × Buf)
  | vihl :: tos :: l0 :: l1 :: i0 :: i1 :: f0 :: f1 :: ttl :: pr :: c0 :: c1 ::
      s0 :: s1 :: s2 :: s3 :: d0 :: d1 :: d2 :: d3 :: rest =>
    let version := vihl.toNat / 16
    let ihl := vihl.toNat % 16
    let total := u16 l0 l1
    if version = 4 ∧ 5 ≤ ihl ∧ ihl * 4 ≤ total ∧ total ≤ 20 + rest.length then
      some ({ version := version, ihl := ihl, tos := tos.toNat, totalLength := total,
              ident := u16 i0 i1,
              reserved := f0.toNat / 128 = 1, df := f0.toNat / 64 % 2 = 1, mf := f0.toNat / 32 % 2 = 1,
              fragOffset := f0.toNat % 32 * 256 + f1.toNat,
              ttl := ttl.toNat, proto := pr.toNat, headerChecksum := u16 c0 c1,
              src := [s0, s1, s2, s3], dst := [d0, d1, d2, d3],
              options := rest.take (ihl * 4 - 20) },
            (rest.take (total - 20)).drop (ihl * 4 - 20))
    else none
  | _ => none

structure IPv6Hdr where
  version : Nat
  trafficClass : Nat
  flowLabel : Nat
  payloadLength : Nat
  nextHeader : Nat
  hopLimit : Nat
  src : Buf
  dst : Buf
  deriving Repr, DecidableEq

/-- RFC 8200: header and payload; `none` unless version = 6 and the payload fits the buffer -/
def decodeIPv6 (b : Buf) : Option (IPv6Hdr × Buf) :=
  match b with
  | v :: t :: fl1 :: fl2 :: p0 :: p1 :: nh :: hl :: rest =>
    let plen := u16 p0 p1
    if v.toNat / 16 = 6 ∧ 32 + plen ≤ rest.length then
      some ({ version := 6, trafficClass := v.toNat % 16 * 16 + t.toNat / 16,
              flowLabel := t.toNat % 16 * 65536 + fl1.toNat * 256 + fl2.toNat,
              payloadLength := plen, nextHeader := nh.toNat, hopLimit := hl.toNat,
              src := rest.take 16, dst := (rest.drop 16).take 16 },
            (rest.drop 32).take plen)
    else none
  | _ => none

structure UdpHdr where
  srcPort : Nat
  dstPort : Nat
  length : Nat
  checksum : Nat
  deriving Repr, DecidableEq

/-- RFC 768: header and data; `none` unless 8 ≤ length ≤ octets available.  This is the decoder
for UDP over **IPv4**, where a checksum field of 0x0000 is well-formed: it means "no checksum
computed" (RFC 768), so every value of the field is accepted here.  For UDP over IPv6 use
`decodeUDP6`. -/
def decodeUDP : Buf → Option (UdpHdr × Buf)
  | s0 :: s1 :: d0 :: d1 :: l0 :: l1 :: c0 :: c1 :: rest =>
    let len := u16 l0 l1
    if 8 ≤ len ∧ len ≤ 8 + rest.length then
      some ({ srcPort := u16 s0 s1, dstPort := u16 d0 d1, length := len, checksum := u16 c0 c1 },
            rest.take (len - 8))
    else none
  | _ => none

/-- UDP over **IPv6** (RFC 8200 §8.1): "Unlike IPv4, the default behavior when UDP packets are
originated by an IPv6 node is that the UDP checksum is not optional. […] IPv6 receivers must
discard UDP packets containing a zero checksum".  A datagram whose checksum field is 0x0000 is
therefore not a valid UDP/IPv6 datagram: `none`. -/
def decodeUDP6 (b : Buf) : Option (UdpHdr × Buf) :=
  match decodeUDP b with
  | some (h, data) => if h.checksum = 0 then none else some (h, data)
  | none => none

structure IcmpEcho where
  type : Nat
  code : Nat
  checksum : Nat
  ident : Nat
  seq : Nat
  data : Buf
  deriving Repr, DecidableEq

/-- RFC 792 / RFC 4443: Echo or Echo Reply message (the type is reported, not checked) -/
def decodeIcmpEcho : Buf → Option IcmpEcho
  | ty :: code :: c0 :: c1 :: i0 :: i1 :: q0 :: q1 :: rest =>
    some { type := ty.toNat, code := code.toNat, checksum := u16 c0 c1, ident := u16 i0 i1,
           seq := u16 q0 q1, data := rest }
  | _ => none

end TV.Decode
