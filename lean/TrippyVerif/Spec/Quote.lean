import TrippyVerif.Model.Wire
import TrippyVerif.Spec.Rfc4884
/-!
# What a conforming network may return for a probe (specification side of C02)

Written from RFC 792 / 1122 / 1812 (ICMPv4 errors quote the IP header and at least the first 8
octets of the datagram's data; routers MAY quote more), RFC 4443 §2.4/§3 (ICMPv6 errors quote as
much of the invoking packet as fits in the minimum MTU), RFC 4884 (multi-part messages) and
RFC 791 / 8200 (what routers rewrite in transit: TTL / hop limit, the IPv4 header checksum,
TOS / traffic class; some stacks also rewrite the IPv4 total length of a quoted header).

## The datagram on the wire (`wireDatagram`)

* privileged IPv4 ICMP / UDP (`IP_HDRINCL`): the octets handed to `send_to`, as they are.  (The
  kernel fills in the header checksum; a quotation carries an arbitrary checksum anyway.)
* everything else — **modelled assumption**: the kernel builds the IP header (and for unprivileged
  UDP the UDP header, for TCP the SYN segment) around what the socket calls determine: source and
  destination address, TTL / hop limit and TOS from the socket options, next header from the
  socket type, ports from `bind` / `send_to` / `connect`, lengths from the payload.  Everything
  else is the kernel's choice: `KernelFill`.
-/
namespace TV.Quote
open TV TV.Wire

/-- the octets the kernel chooses freely when it builds headers -/
structure KernelFill where
  /-- IPv4 identification and flags / fragment offset -/
  id0 : UInt8
  id1 : UInt8
  f0 : UInt8
  f1 : UInt8
  /-- IPv4 header checksum -/
  hc0 : UInt8
  hc1 : UInt8
  /-- IPv6 traffic class and flow label: low nibble of octet 0, octets 1-3 -/
  tcHi : UInt8
  v1 : UInt8
  v2 : UInt8
  v3 : UInt8
  /-- UDP checksum of an unprivileged UDP probe -/
  uc0 : UInt8
  uc1 : UInt8
  /-- octets 4.. of the TCP SYN segment (sequence, acknowledgement, offset, flags, window,
  checksum, urgent pointer, options): at least 16 -/
  tcpRest : Buf
  deriving Repr

/-- a kernel-built IPv4 header (IHL 5) -/
def kernelIp4 (k : KernelFill) (tos ttl : Nat) (proto : UInt8) (src dst : Buf) (l4len : Nat) : Buf :=
  [0x45, UInt8.ofNat tos, hi (20 + l4len), lo (20 + l4len), k.id0, k.id1, k.f0, k.f1,
   UInt8.ofNat ttl, proto, k.hc0, k.hc1] ++ src ++ dst

/-- a kernel-built IPv6 header -/
def kernelIp6 (k : KernelFill) (hops : Nat) (nh : UInt8) (src dst : Buf) (l4len : Nat) : Buf :=
  [UInt8.ofNat (96 + k.tcHi.toNat % 16), k.v1, k.v2, k.v3, hi l4len, lo l4len, nh,
   UInt8.ofNat hops] ++ src ++ dst

/-- a kernel-built UDP datagram -/
def kernelUdp (k : KernelFill) (sp dp : Nat) (payload : Buf) : Buf :=
  [hi sp, lo sp, hi dp, lo dp, hi (8 + payload.length), lo (8 + payload.length), k.uc0, k.uc1]
    ++ payload

/-- a kernel-built TCP SYN segment -/
def kernelTcp (k : KernelFill) (sp dp : Nat) : Buf :=
  [hi sp, lo sp, hi dp, lo dp] ++ k.tcpRest

/-- the IP datagram on the wire for the socket calls of one dispatch -/
def wireOfOps (c : ChanCfg) (k : KernelFill) : List SockOp → Option Buf
  -- privileged IPv4: the header is ours
  | [.sendTo bytes _ _] => some bytes
  -- privileged IPv6 ICMP / UDP: next header from the socket type
  | [.setHops h, .sendTo l4 dst _] =>
    some (kernelIp6 k h (match c.proto with | .icmp => protoIcmpV6 | _ => protoUdp) c.src dst
            l4.length ++ l4)
  -- unprivileged UDP
  | [.newSocket (.udp4 _), .bind src sp, .setTtl t, .setTos tos, .sendTo payload dst dp] =>
    some (kernelIp4 k tos t protoUdp src dst (8 + payload.length) ++ kernelUdp k sp dp payload)
  | [.newSocket (.udp6 _), .bind src sp, .setHops h, .sendTo payload dst dp] =>
    some (kernelIp6 k h protoUdp src dst (8 + payload.length) ++ kernelUdp k sp dp payload)
  -- TCP
  | [.newSocket .stream4, .bind src sp, .setTtl t, .setTos tos, .connect dst dp] =>
    some (kernelIp4 k tos t protoTcp src dst (4 + k.tcpRest.length) ++ kernelTcp k sp dp)
  | [.newSocket .stream6, .bind src sp, .setHops h, .connect dst dp] =>
    some (kernelIp6 k h protoTcp src dst (4 + k.tcpRest.length) ++ kernelTcp k sp dp)
  | _ => none

/-- the datagram probe `p` puts on the wire -/
def wireDatagram (c : ChanCfg) (k : KernelFill) (p : Strat.Probe) : Option Buf :=
  match dispatch c p with
  | .ok ops => wireOfOps c k ops
  | _ => none

/-! ## Quotations -/

/-- what routers rewrite in a quoted IPv4 header: TOS, total length, TTL, header checksum -/
structure Mut4 where
  tos : UInt8
  len0 : UInt8
  len1 : UInt8
  ttl : UInt8
  ck0 : UInt8
  ck1 : UInt8
  deriving Repr

/-- the IPv4 header (20 octets, no options) with the in-transit changes applied -/
def mutHdr4 (m : Mut4) : Buf → Buf
  | v :: _ :: _ :: _ :: i0 :: i1 :: f0 :: f1 :: _ :: pr :: _ :: _ :: addrs =>
    v :: m.tos :: m.len0 :: m.len1 :: i0 :: i1 :: f0 :: f1 :: m.ttl :: pr :: m.ck0 :: m.ck1 :: addrs
  | b => b

/-- ICMPv4 quotation: the (rewritten) IP header, the first 8 octets of the data, and any number
`n` of further octets (RFC 792: 8; RFC 1812 §4.3.2.3: as much as fits in 576) -/
def quote4 (m : Mut4) (d : Buf) (n : Nat) : Buf :=
  mutHdr4 m (d.take 20) ++ (d.drop 20).take 8 ++ (d.drop 28).take n

/-- what routers rewrite in a quoted IPv6 header: traffic class, hop limit -/
structure Mut6 where
  tc : UInt8
  hops : UInt8
  deriving Repr

def mutHdr6 (m : Mut6) : Buf → Buf
  | _ :: b1 :: f2 :: f3 :: p0 :: p1 :: nh :: _ :: addrs =>
    UInt8.ofNat (96 + m.tc.toNat / 16) :: UInt8.ofNat (m.tc.toNat % 16 * 16 + b1.toNat % 16) ::
      f2 :: f3 :: p0 :: p1 :: nh :: m.hops :: addrs
  | b => b

/-- ICMPv6 quotation: the (rewritten) IPv6 header and the first `8 + n` octets of the payload
(RFC 4443: as much as fits — for the packets this tracer sends, everything) -/
def quote6 (m : Mut6) (d : Buf) (n : Nat) : Buf :=
  mutHdr6 m (d.take 40) ++ (d.drop 40).take 8 ++ (d.drop 48).take n

/-! ## ICMP error messages -/

/-- how the quotation is embedded -/
inductive Body where
  /-- RFC 792 / 4443: the quotation is the whole body, the length attribute is 0 -/
  | plain
  /-- RFC 4884: zero padded original datagram field followed by an extension structure `ext`
  (header and objects); compliant length attribute or the legacy 128-octet convention -/
  | rfc4884 (mode : Rfc4884.Mode) (ext : Buf)

/-- the ICMP message: header octets other than the length attribute are free (`h.type` and
`h.code` are set by the wrappers below) -/
def icmpMessage (v6 : Bool) (h : Rfc4884.IcmpHdr) (b : Body) (q : Buf) : Buf :=
  match b with
  | .plain => Rfc4884.icmpHeaderBytes v6 h 0 ++ q
  | .rfc4884 mode ext => Rfc4884.buildIcmp v6 h mode q ext

/-- free octets of the outer IPv4 header of a received ICMPv4 message -/
structure Outer4 where
  tos : UInt8
  l0 : UInt8
  l1 : UInt8
  i0 : UInt8
  i1 : UInt8
  f0 : UInt8
  f1 : UInt8
  ttl : UInt8
  c0 : UInt8
  c1 : UInt8
  deriving Repr

/-- what the IPv4 receive socket delivers: outer header (IHL 5, protocol 1, from `responder` to
the tracer) and the ICMP message; the IPv6 socket delivers the ICMPv6 message only -/
def deliver (c : ChanCfg) (o : Outer4) (responder : Buf) (icmp : Buf) : Buf :=
  if c.v6 then icmp
  else [0x45, o.tos, o.l0, o.l1, o.i0, o.i1, o.f0, o.f1, o.ttl, 1, o.c0, o.c1] ++ responder ++ c.src
        ++ icmp

/-- ICMP Time Exceeded, code 0 (TTL / hop limit exceeded in transit) -/
def wrapTimeExceeded (c : ChanCfg) (o : Outer4) (h : Rfc4884.IcmpHdr) (responder : Buf) (b : Body)
    (q : Buf) : Buf :=
  deliver c o responder (icmpMessage c.v6 { h with type := tyTimeExceeded c.v6, code := 0 } b q)

/-- ICMP Destination Unreachable, any code -/
def wrapDestUnreachable (c : ChanCfg) (o : Outer4) (h : Rfc4884.IcmpHdr) (responder : Buf) (b : Body)
    (q : Buf) : Buf :=
  deliver c o responder (icmpMessage c.v6 { h with type := tyDestUnreachable c.v6 } b q)

/-- ICMP Echo Reply: type, code 0, checksum, then identifier, sequence and data of the request
echoed (`l4` = the Echo Request as sent) -/
def echoReply (c : ChanCfg) (o : Outer4) (ck0 ck1 : UInt8) (responder : Buf) (l4 : Buf) : Buf :=
  deliver c o responder ([tyEchoReply c.v6, 0, ck0, ck1] ++ l4.drop 4)

end TV.Quote
