import TrippyVerif.Model.StateAgg
/-
Independent re-aggregation specification (C05, C10, C19): what the per-hop statistics of a history
of published rounds *are*, defined directly on the history (counts, sums, minima, last elements,
prefixes of the reversed list …) and not by replaying the aggregator's state machine.

  * `RoundWF`        – the rounds the aggregator accepts without panicking (what `publish_trace`
                       emits): probe ttls in [1,254] strictly ascending, and
                       `largest_ttl = 0 ∨ first ≤ largest_ttl ≤ 254`
  * `outcomes t hist` – the flattened per-round outcomes of the hop at ttl `t`
                       (complete / awaited / failed, oldest first); an awaited outcome carries its
                       loss classification and a complete one its NAT classification, both
                       defined *positionally* from the round (`lossOf`, `natOf`)
  * `Stats`, `reagg` – the exact (integer valued) statistics as direct functions of the outcomes
  * `jitters`, `jitterSpec`, `jmaxSpec` – the jitter series `j₀ = d₀`, `jᵢ = |dᵢ − dᵢ₋₁|`
  * `lowestTtl`, `highestTtl`, `windowTtls` – the hop window
Only core Lean is imported; the statements over the rationals live in `Lemmas/Welford.lean`.
-/
namespace TV.Reagg
open TV TV.Strat TV.Agg

/-! ### well-formed rounds -/

/-- the ttl of a slot that carries a probe -/
def slotTtl : Slot → Option Nat
  | .failed p => some p.ttl
  | .awaited p => some p.ttl
  | .complete c => some c.probe.ttl
  | .notSent | .skipped => none

/-- the ttls probed by a round, in probe order -/
def ttls (ps : List Slot) : List Nat := ps.filterMap slotTtl

/-- the first ttl of the round is at most `l` (false if nothing was probed) -/
def firstTtlLe (ps : List Slot) (l : Nat) : Prop :=
  match (ttls ps).head? with
  | some f => f ≤ l
  | none => False

instance (ps : List Slot) (l : Nat) : Decidable (firstTtlLe ps l) := by
  unfold firstTtlLe; split <;> infer_instance

/-- What the aggregator needs from a round (and what the strategy publishes): every probe ttl is in
`[1, 254]`, the ttls are strictly ascending in probe order, and `largest_ttl` is `0` (nothing
answered) or lies between the round's first ttl and 254. -/
def RoundWF (r : Round) : Prop :=
  (∀ t ∈ ttls r.probes, 1 ≤ t ∧ t ≤ 254) ∧
  (ttls r.probes).Pairwise (· < ·) ∧
  (r.largestTtl = 0 ∨ (firstTtlLe r.probes r.largestTtl ∧ r.largestTtl ≤ 254))

instance (r : Round) : Decidable (RoundWF r) := by unfold RoundWF; infer_instance

/-! ### positional classification inside one round -/

/-- (expected, actual) checksums of a completed probe that carries both -/
def ckPair : Slot → Option (Nat × Nat)
  | .complete c =>
    match c.expCk, c.actCk with
    | some e, some a => some (e, a)
    | _, _ => none
  | _ => none

/-- the checksum quoted by the last checksum-carrying response among `pre` -/
def lastCk (pre : List Slot) : Option Nat := ((pre.filterMap ckPair).getLast?).map (·.2)

/-- C19: the NAT classification of a completed probe, given the slots before it in the round:
`Detected` iff its quoted checksum differs from the one quoted by the previous checksum-carrying
response (or, for the first, from the expected checksum); none if it carries no checksums. -/
def natOf (pre : List Slot) (c : Complete) : Option NatStatus :=
  match c.expCk, c.actCk with
  | some e, some a =>
    let reference := (lastCk pre).getD e
    some (if reference = a then .notDetected else .detected)
  | _, _ => none

/-- all later probes are awaited (or skipped), and there is at least one: `post` are the slots after
the probe in question; leading slots without a probe are ignored -/
def laterSilent (post : List Slot) : Bool :=
  let rest := post.dropWhile fun s => (slotTtl s).isNone
  !rest.isEmpty && rest.all isAwaitedOrSkipped

/-- slot `s` followed by `post` is an awaited probe with forward loss -/
def isFwdHead (s : Slot) (post : List Slot) : Bool :=
  match s with
  | .awaited _ => laterSilent post
  | _ => false

/-- some slot of `pre` is a forward-loss probe (w.r.t. everything after it, `post` included) -/
def fwdSeen : List Slot → List Slot → Bool
  | [], _ => false
  | s :: pre, post => isFwdHead s (pre ++ post) || fwdSeen pre post

/-- C05: the loss classification of the awaited probe `s` with `pre` before and `post` after it:
backward loss if an earlier awaited probe already is the round's forward loss, forward loss if
this is the first awaited probe all of whose later probes are awaited/skipped (and there is one) -/
def lossOf (pre : List Slot) (s : Slot) (post : List Slot) : Loss :=
  if fwdSeen pre (s :: post) then .backward
  else if laterSilent post then .forward
  else .none

/-- what happened to one probe of hop `t` in one round -/
inductive Outcome
  | complete (c : Complete) (nat : Option NatStatus)
  | awaited (p : Probe) (loss : Loss)
  | failed (p : Probe)
  deriving DecidableEq, Repr

/-- the outcome (with its ttl) of slot `s` in the round `pre ++ s :: post` -/
def tagOf (pre : List Slot) (s : Slot) (post : List Slot) : Option (Nat × Outcome) :=
  match s with
  | .complete c => some (c.probe.ttl, .complete c (natOf pre c))
  | .awaited p => some (p.ttl, .awaited p (lossOf pre s post))
  | .failed p => some (p.ttl, .failed p)
  | .notSent | .skipped => none

/-- the outcomes of the slots `rest` of the round `pre ++ rest`, in probe order -/
def tagSlots (pre : List Slot) : List Slot → List (Nat × Outcome)
  | [] => []
  | s :: post => (tagOf pre s post).toList ++ tagSlots (pre ++ [s]) post

def forTtl (t : Nat) (tags : List (Nat × Outcome)) : List Outcome :=
  tags.filterMap fun x => if x.1 = t then some x.2 else none

/-- the outcomes of hop `t` in one round -/
def roundOutcomes (t : Nat) (r : Round) : List Outcome := forTtl t (tagSlots [] r.probes)

/-- the outcomes of hop `t` over a history of rounds, oldest first -/
def outcomes (t : Nat) (hist : List Round) : List Outcome := hist.flatMap (roundOutcomes t)

/-! ### direct definitions of the statistics -/

namespace Outcome

def probe : Outcome → Probe
  | .complete c _ => c.probe
  | .awaited p _ => p
  | .failed p => p

/-- round-trip time: `received.duration_since(sent).unwrap_or_default()` -/
def rtt : Outcome → Option Nat
  | .complete c _ => some (c.received - c.probe.sent)
  | _ => none

def isFailed : Outcome → Bool
  | .failed _ => true
  | _ => false

def hasLoss (l : Loss) : Outcome → Bool
  | .awaited _ l' => decide (l' = l)
  | _ => false

def host : Outcome → Option Nat
  | .complete c _ => some c.host
  | _ => none

def completed : Outcome → Option Complete
  | .complete c _ => some c
  | _ => none

def nat : Outcome → Option NatStatus
  | .complete _ n => n
  | _ => none

/-- what the sample history records: the rtt, or 0 for awaited/failed -/
def sample (o : Outcome) : Nat := o.rtt.getD 0

end Outcome

def rtts (os : List Outcome) : List Nat := os.filterMap Outcome.rtt
def hosts (os : List Outcome) : List Nat := os.filterMap Outcome.host
def completes (os : List Outcome) : List Complete := os.filterMap Outcome.completed

/-- distinct elements in order of first appearance -/
def firstSeen : List Nat → List Nat
  | [] => []
  | a :: l => a :: (firstSeen l).filter (· ≠ a)

/-- per-address response counts, addresses in order of first appearance -/
def addrCounts (hs : List Nat) : List (Nat × Nat) := (firstSeen hs).map fun a => (a, hs.count a)

def absDiff (a b : Nat) : Nat := (a - b) + (b - a)

/-- the jitter series of a series of round-trip times, given the previous one -/
def jittersFrom (prev : Nat) : List Nat → List Nat
  | [] => []
  | d :: ds => absDiff d prev :: jittersFrom d ds

/-- `j₀ = d₀` (the code takes `|d₀ − 0|`), `jᵢ = |dᵢ − dᵢ₋₁|` -/
def jitters (ds : List Nat) : List Nat := jittersFrom 0 ds

/-- the exact (integer valued, float independent) statistics of a hop -/
structure Stats where
  ttl : Nat
  sent : Nat
  recv : Nat
  failed : Nat
  forwardLost : Nat
  backwardLost : Nat
  totalTime : Nat
  last : Option Nat
  best : Option Nat
  worst : Option Nat
  samples : List Nat
  addrs : List (Nat × Nat)
  lastSrcPort : Nat
  lastDestPort : Nat
  lastSequence : Nat
  lastIcmp : Option IcmpKind
  lastNatStatus : NatStatus
  tos : Option Nat
  extensions : Option Nat
  deriving DecidableEq, Repr

/-- the exact statistics held by a model hop -/
def statsOf {F : Type} (h : Hop F) : Stats :=
  { ttl := h.ttl, sent := h.totalSent, recv := h.totalRecv, failed := h.totalFailed,
    forwardLost := h.totalForwardLost, backwardLost := h.totalBackwardLost, totalTime := h.totalTime,
    last := h.last, best := h.best, worst := h.worst, samples := h.samples, addrs := h.addrs,
    lastSrcPort := h.lastSrcPort, lastDestPort := h.lastDestPort, lastSequence := h.lastSequence,
    lastIcmp := h.lastIcmp, lastNatStatus := h.lastNatStatus, tos := h.tos, extensions := h.extensions }

/-- C05: the straightforward recomputation of a hop's statistics from its outcomes (oldest first)
with sample limit `maxSamples` -/
def reagg (maxSamples : Nat) (os : List Outcome) : Stats :=
  { ttl := (os.getLast?.map fun o => o.probe.ttl).getD 0,
    sent := os.length,
    recv := (rtts os).length,
    failed := os.countP Outcome.isFailed,
    forwardLost := os.countP (Outcome.hasLoss .forward),
    backwardLost := os.countP (Outcome.hasLoss .backward),
    totalTime := (rtts os).sum,
    last := (rtts os).getLast?,
    best := (rtts os).min?,
    worst := (rtts os).max?,
    samples := (os.reverse.map Outcome.sample).take maxSamples,
    addrs := addrCounts (hosts os),
    lastSrcPort := (os.getLast?.map fun o => o.probe.srcPort).getD 0,
    lastDestPort := (os.getLast?.map fun o => o.probe.destPort).getD 0,
    lastSequence := (os.getLast?.map fun o => o.probe.seq).getD 0,
    lastIcmp := (completes os).getLast?.map (·.kind),
    lastNatStatus := ((os.filterMap Outcome.nat).getLast?).getD .notApplicable,
    tos := (completes os).getLast?.bind (·.tos),
    extensions := (completes os).getLast?.bind (·.ext) }

/-- the current jitter: `|d_n − d_{n−1}|`, absent until there are two responses -/
def jitterSpec (os : List Outcome) : Option Nat :=
  if (rtts os).length < 2 then none else (jitters (rtts os)).getLast?

/-- the worst jitter -/
def jmaxSpec (os : List Outcome) : Option Nat := (jitters (rtts os)).max?

/-! ### the hop window (C10) -/

/-- every ttl probed in the history -/
def probedTtls (hist : List Round) : List Nat := hist.flatMap fun r => ttls r.probes

/-- the lowest ttl ever probed (0 if nothing was probed) -/
def lowestTtl (hist : List Round) : Nat := ((probedTtls hist).min?).getD 0

/-- the greatest path length any round reported -/
def highestTtl (hist : List Round) : Nat := ((hist.map (·.largestTtl)).max?).getD 0

/-- the latest round's path length -/
def latestTtl (hist : List Round) : Nat := ((hist.getLast?).map (·.largestTtl)).getD 0

/-- the ttls of the hop table: the gap-free run `lowest … highest`, empty if nothing was probed or
nothing ever answered -/
def windowTtls (hist : List Round) : List Nat :=
  if lowestTtl hist = 0 ∨ highestTtl hist = 0 then []
  else List.range' (lowestTtl hist) (highestTtl hist + 1 - lowestTtl hist)

/-- the greatest round id seen -/
def latestRound (hist : List Round) : Option Nat :=
  ((hist.flatMap fun r => r.probes.filterMap fun s =>
      match s with
      | .failed p => some p.round
      | .awaited p => some p.round
      | .complete c => some c.probe.round
      | _ => none).max?)

end TV.Reagg
