/-
RFC 1071 "Computing the Internet Checksum", written independently of the implementation.

  (1) adjacent octets are paired to form 16-bit integers (big-endian; an odd trailing octet is
      padded on the right with a zero octet), and the 1's complement sum of these integers is
      formed;
  (2) to generate a checksum, the checksum field itself is cleared, the sum is computed and its
      1's complement is placed in the field;
  (3) to check, the sum is computed over the same octets including the checksum field; the
      result must be all 1 bits (0xFFFF).

The 1's complement sum of 16-bit integers is their ordinary sum reduced by end-around carry,
i.e. reduced modulo 0xFFFF, where the two representations of zero are told apart as the
hardware does: the result is 0x0000 only if every summand was 0, otherwise a multiple of
0xFFFF is represented as 0xFFFF.
-/
namespace TV.Rfc1071

/-- ordinary sum of the big-endian 16-bit words of `d` (odd tail padded with a zero octet) -/
def wordSum : List UInt8 → Nat
  | [] => 0
  | [a] => a.toNat * 256
  | a :: b :: rest => (a.toNat * 256 + b.toNat) + wordSum rest

/-- end-around-carry reduction of a sum of 16-bit words to 16 bits -/
def fold16 (n : Nat) : Nat :=
  if n = 0 then 0 else if n % 65535 = 0 then 65535 else n % 65535

/-- the Internet checksum of `d`: the 1's complement of the 1's complement sum -/
def ocsum (d : List UInt8) : Nat := 0xFFFF - fold16 (wordSum d)

/-- `d` verifies: its 1's complement sum is all ones -/
def verifies (d : List UInt8) : Prop := fold16 (wordSum d) = 0xFFFF

/-- `d` with the 16-bit field number `iw` (octets `2*iw`, `2*iw+1`) cleared, as far as those
octets exist -/
def zeroField (iw : Nat) (d : List UInt8) : List UInt8 :=
  (d.set (2 * iw) 0).set (2 * iw + 1) 0

/-- `d` with the 16-bit value `c` stored big-endian in field number `iw` -/
def putField (iw : Nat) (c : Nat) (d : List UInt8) : List UInt8 :=
  (d.set (2 * iw) (UInt8.ofNat (c / 256))).set (2 * iw + 1) (UInt8.ofNat (c % 256))

/-- IPv4 pseudo header (RFC 768, RFC 9293 §3.1): source, destination, zero, protocol,
16-bit upper-layer length -/
def pseudo4 (src dst : List UInt8) (proto : UInt8) (len : Nat) : List UInt8 :=
  src ++ dst ++ [0, proto] ++ [UInt8.ofNat (len / 256), UInt8.ofNat (len % 256)]

/-- IPv6 pseudo header (RFC 8200 §8.1): source, destination, 32-bit upper-layer length,
three zero octets, next header -/
def pseudo6 (src dst : List UInt8) (nextHeader : UInt8) (len : Nat) : List UInt8 :=
  src ++ dst ++
    [UInt8.ofNat (len / 16777216), UInt8.ofNat (len / 65536 % 256),
     UInt8.ofNat (len / 256 % 256), UInt8.ofNat (len % 256)] ++
    [0, 0, 0, nextHeader]

end TV.Rfc1071
