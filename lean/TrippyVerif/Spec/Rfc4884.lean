import TrippyVerif.Model.Ext
/-!
# RFC 4884 / RFC 4950 encoder (specification side of property C14)

Written from the RFC text only; shares nothing with the parser model but the *data types*
`MplsMember` / `Extension` in which the tracer's report is expressed.

RFC 4884 §7 — extension structure = extension header (version 2 in the top nibble of octet 0,
reserved, 16-bit checksum) followed by objects; §7.2 object header = 16-bit length *including the
header*, Class-Num, C-Type, then the payload.  §4: when an extension structure is appended the
"original datagram" field is zero padded to at least 128 octets and to a 32-bit (ICMPv4) /
64-bit (ICMPv6) boundary, and the length attribute (ICMPv4: octet 5, 32-bit words; ICMPv6:
octet 4, 64-bit words) gives its length.  §5.5 (non-compliant senders): the length attribute
is 0 and the extension structure begins exactly 128 octets after the ICMP header.

RFC 4950 §3 — MPLS Label Stack object: Class-Num 1, C-Type 1, payload = label stack entries of
4 octets: label (20 bits), EXP (3 bits), S (1 bit), TTL (8 bits).
-/
namespace TV.Rfc4884
open TV TV.Ext

/-- object header + payload; `length = 4 + payload.length` as a big-endian 16-bit value -/
def encodeObject (classNum subType : Nat) (payload : Buf) : Buf :=
  [UInt8.ofNat ((4 + payload.length) / 256), UInt8.ofNat ((4 + payload.length) % 256),
   UInt8.ofNat classNum, UInt8.ofNat subType] ++ payload

/-- one label stack entry: `label(20) | exp(3) | S(1) | ttl(8)` -/
def encodeMember (m : MplsMember) : Buf :=
  [UInt8.ofNat (m.label / 4096), UInt8.ofNat (m.label / 16 % 256),
   UInt8.ofNat (m.label % 16 * 16 + m.exp * 2 + m.bos), UInt8.ofNat m.ttl]

def encodeStack (ms : List MplsMember) : Buf := ms.flatMap encodeMember

/-- RFC 4950 MPLS Label Stack object -/
def encodeMpls (ms : List MplsMember) : Buf := encodeObject 1 1 (encodeStack ms)

/-- extension header, version 2; the checksum is not looked at by the parser -/
def extHeader (ckHi ckLo : UInt8) : Buf := [0x20, 0, ckHi, ckLo]

/-- the field ranges of a label stack entry -/
def memberOk (m : MplsMember) : Prop :=
  m.label < 1048576 ∧ m.exp < 8 ∧ m.bos < 2 ∧ m.ttl < 256

/-- an extension object as the sender describes it -/
inductive Obj where
  | mpls (ms : List MplsMember)
  | other (classNum subType : Nat) (payload : Buf)
  deriving Repr

def Obj.encode : Obj → Buf
  | .mpls ms => encodeMpls ms
  | .other c s p => encodeObject c s p

/-- what the tracer must report for the object -/
def Obj.expected : Obj → Extension
  | .mpls ms => .mpls ms
  | .other c s p => .unknown c s p

/-- Encodable objects.  A label stack (of any number of entries, including none) fits the 16-bit
length, has all fields in range and S clear on every entry but the last (the last entry's S bit is
free: RFC 4950 senders set it, the theorem does not need it).  Any other object has a class ≠ 1
(class 1 *is* the label stack), 8-bit class and C-Type and a payload that fits the 16-bit length. -/
def Obj.wf : Obj → Prop
  | .mpls ms => ms.length ≤ 16382 ∧ (∀ m ∈ ms, memberOk m) ∧ (∀ m ∈ ms.dropLast, m.bos = 0)
  | .other c s p => c < 256 ∧ c ≠ 1 ∧ s < 256 ∧ p.length ≤ 65531

/-- the usual RFC 4950 sender: S set exactly on the last entry -/
def bosExact (ms : List MplsMember) : Prop :=
  (∀ m ∈ ms.dropLast, m.bos = 0) ∧ (∀ m, ms.getLast? = some m → m.bos = 1)

def encodeObjs (objs : List Obj) : Buf := (objs.map Obj.encode).flatten

/-- the extension structure -/
def encodeExt (ckHi ckLo : UInt8) (objs : List Obj) : Buf := extHeader ckHi ckLo ++ encodeObjs objs

inductive Mode where
  | compliant
  | legacy
  deriving Repr, DecidableEq

/-- octets per length-attribute unit -/
def unit (fam : Bool) : Nat := if fam then 8 else 4

def padTo (n : Nat) (b : Buf) : Buf := b ++ List.replicate (n - b.length) 0

/-- RFC 4884 §4: at least 128 octets, and a whole number of words -/
def paddedLen (fam : Bool) (n : Nat) : Nat := max 128 ((n + unit fam - 1) / unit fam * unit fam)

/-- the "original datagram" field as sent -/
def padOrig (fam : Bool) (mode : Mode) (orig : Buf) : Buf :=
  match mode with
  | .compliant => padTo (paddedLen fam orig.length) orig
  | .legacy => padTo 128 (orig.take 128)

def lengthAttr (fam : Bool) (mode : Mode) (orig : Buf) : Nat :=
  match mode with
  | .compliant => paddedLen fam orig.length / unit fam
  | .legacy => 0

/-- length attribute and ICMP body (everything after the 8-octet ICMP header); `ext` is the
extension structure (header ++ objects) -/
def buildBody (fam : Bool) (mode : Mode) (orig : Buf) (ext : Buf) : Nat × Buf :=
  (lengthAttr fam mode orig, padOrig fam mode orig ++ ext)

/-- the seven octets of the ICMP header other than the length attribute: type, code, checksum,
and the three unused / next-hop-MTU octets -/
structure IcmpHdr where
  type : UInt8
  code : UInt8
  ck0  : UInt8
  ck1  : UInt8
  r0   : UInt8
  r1   : UInt8
  r2   : UInt8
  deriving Repr, Inhabited

/-- ICMPv4: `type code cksum(2) unused length unused(2)` (Destination Unreachable: the last two are
the next-hop MTU); ICMPv6: `type code cksum(2) length unused(3)` -/
def icmpHeaderBytes (fam : Bool) (h : IcmpHdr) (lengthOctet : Nat) : Buf :=
  if fam then [h.type, h.code, h.ck0, h.ck1, UInt8.ofNat lengthOctet, h.r0, h.r1, h.r2]
  else [h.type, h.code, h.ck0, h.ck1, h.r0, UInt8.ofNat lengthOctet, h.r1, h.r2]

/-- the whole ICMP Time Exceeded / Destination Unreachable message -/
def buildIcmp (fam : Bool) (h : IcmpHdr) (mode : Mode) (orig : Buf) (ext : Buf) : Buf :=
  icmpHeaderBytes fam h (buildBody fam mode orig ext).1 ++ (buildBody fam mode orig ext).2

end TV.Rfc4884
