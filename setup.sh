#!/bin/sh
# Build the framework from files on disk only (offline): regenerate the translated Lean
# definitions from /repo, build all theorem modules + the model driver, build the Rust harness.
set -e
cd "$(dirname "$0")"
export CARGO_NET_OFFLINE=true
mkdir -p .build lean/TrippyVerif/Gen
python3 tools/rs2lean/accessors.py "${VERIF_REPO:-/repo}" lean/TrippyVerif/Gen
python3 tools/rs2lean/gen_c12.py "$(pwd)"
python3 tools/rs2lean/gen_dispatch.py "$(pwd)"
python3 tools/rs2lean/locks.py "${VERIF_REPO:-/repo}" lean/TrippyVerif/Gen
python3 tools/rs2lean/cfglayer.py "${VERIF_REPO:-/repo}" lean/TrippyVerif/Gen
python3 tools/rs2lean/wiring.py "${VERIF_REPO:-/repo}" lean/TrippyVerif/Gen || true
python3 tools/rs2lean/cksumtab.py "${VERIF_REPO:-/repo}" lean/TrippyVerif/Gen || true
python3 tools/rs2lean/itemtables.py "${VERIF_REPO:-/repo}" lean/TrippyVerif/Gen || true
python3 tools/rs2lean/tostab.py "${VERIF_REPO:-/repo}" lean/TrippyVerif/Gen || true
python3 tools/rs2lean/layoutidx.py "${VERIF_REPO:-/repo}" lean/TrippyVerif/Gen || true
python3 tools/rs2lean/privacy.py "${VERIF_REPO:-/repo}" lean/TrippyVerif/Gen || true
python3 tools/rs2lean/dispatchcmp.py "${VERIF_REPO:-/repo}" lean/TrippyVerif/Gen || true
python3 tools/rs2lean/hookfwd.py "${VERIF_REPO:-/repo}" lean/TrippyVerif/Gen || true
python3 tools/rs2lean/consts.py "${VERIF_REPO:-/repo}" lean/TrippyVerif/Gen lean/TrippyVerif/Gen/Pkt.report.json
(cd lean && lake build TrippyVerif tvdriver 2>&1 | grep -v "depends on axioms\|does not depend" | tail -20)
[ -f harness/Cargo.lock ] || cp "${VERIF_REPO:-/repo}/Cargo.lock" harness/Cargo.lock
(cd harness && env -u CARGO_TARGET_DIR -u CARGO_BUILD_TARGET_DIR cargo build --offline --target-dir "$(pwd)/../.build/cargo" 2>&1 | tail -3)
# the real binary for the pseudo-terminal sessions of C17 (tools/e2e_pty.py)
(cd "${VERIF_REPO:-/repo}" && CARGO_NET_OFFLINE=true cargo build --offline -p trippy --target-dir "$OLDPWD/.build/cargo-e2e" 2>&1 | tail -1)
echo setup done
