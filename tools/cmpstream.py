#!/usr/bin/env python3
"""usage: cmpstream.py <component> [seed] [tier]  — run one harness component and the model driver on
the same requests and print the first disagreements (development helper; `check` does the same)."""
import sys, subprocess, re
comp = sys.argv[1]; seed = sys.argv[2] if len(sys.argv) > 2 else '1'; tier = sys.argv[3] if len(sys.argv) > 3 else 'quick'
out = '/tmp/st'
subprocess.run(['/verif/.build/cargo/debug/tvh', comp, '--seed', seed, '--tier', tier, '--out', out], check=True)
subprocess.run(f'/verif/lean/.lake/build/bin/tvdriver < {out}/{comp}.ops > {out}/{comp}.model', shell=True, check=True)
src = open('/verif/check').read()
ns = {}
m = re.search(r"FLOAT_TOKENS = .*?\n\n\ndef run_component", src, re.S)
exec(m.group(0).rsplit('\n\n\ndef run_component', 1)[0], ns)
ops = open(f'{out}/{comp}.ops').read().splitlines(); impl = open(f'{out}/{comp}.impl').read().splitlines(); model = open(f'{out}/{comp}.model').read().splitlines()
print(len(ops), len(impl), len(model))
n = 0
for o, a, b in zip(ops, impl, model):
    if a != b and not ns['tolerant_equal'](a, b):
        n += 1
        if n <= int(sys.argv[4] if len(sys.argv) > 4 else 4):
            print('OP:', o[:400]); print('  I:', a[:900]); print('  M:', b[:900])
print(n, 'diffs;', 'oracle:', open(f'{out}/{comp}.oracle').read()[:1500])
