#!/usr/bin/env python3
"""Rebuild props_theorems.json: the theorems each Props/<ID>.lean audits with `#print axioms`.
Run by hand after editing a Props file (the file is committed, so a check notices when a
theorem disappears from a Props file or stops being proved)."""
import re, json, os, glob
V = os.path.dirname(os.path.dirname(os.path.abspath(__file__)))
out = {}
for f in sorted(glob.glob(os.path.join(V, 'lean/TrippyVerif/Props/C*.lean'))):
    pid = os.path.basename(f)[:-5]
    names = re.findall(r'^#print axioms (\S+)', open(f).read(), re.M)
    if pid == 'C12':
        continue
    out[pid] = names
json.dump(out, open(os.path.join(V, 'props_theorems.json'), 'w'), indent=1)
print({k: len(v) for k, v in out.items()})
