#!/usr/bin/env python3
"""`e2e`: the real `trip` binary on a pseudo-terminal (C17 through the code the hooks only copy).

    e2e_pty.py <repo> <outdir> <tier quick|thorough>

The TUI components drive `TuiApp` through `verif_dispatch_key` / `verif_frame`, which are *copies* of the key
dispatch and the per-frame prologue of `frontend::run_app` (kept honest by textual comparison).  This component runs
the loop itself: the binary built from <repo> traces the loopback address on a pseudo-terminal (production sockets,
real crossterm event loop), keys are typed into it — every view, the settings tabs, hop navigation, flows, freeze,
clear, privacy, resizes down to a few cells and up again (each resize also interrupts the tracer's waits with
SIGWINCH) — and finally `q`.  Oracle `c17-e2e-crash`: the program ends with status 0 within the time allowed and
never prints a panic.  Needs CAP_NET_RAW and /dev/ptmx; without them every session is counted as unavailable.
Writes e2e.ops / e2e.impl / e2e.oracle / e2e.stats like a harness component (one `conc noop` request: no model)."""
import os, sys, pty, time, select, struct, fcntl, termios, subprocess, signal

ESC, UP, DOWN, RIGHT, LEFT = b'\x1b', b'\x1b[A', b'\x1b[B', b'\x1b[C', b'\x1b[D'
CTRL = lambda c: bytes([ord(c) & 0x1f])


def sessions(thorough):
    fast = ['-i', '60ms', '-T', '300ms', '-g', '10ms', '--tui-refresh-rate', '50ms', '--max-ttl', '4']
    views = [b'h', b'h', b's', RIGHT, RIGHT, DOWN, DOWN, UP, LEFT, ESC, b'2', DOWN * 3, ESC, b'm', b'm', b'c', b'=', b'-', b'c',
             b'd', DOWN, UP, b'd', b'z', b'n', b'b', b'i', b']', b'[', b'}', b'{']
    out = [
        ('icmp: every view, freeze, clear, privacy, resizes',
         ['127.0.0.1'] + fast,
         [1.0] + views + [CTRL('f'), DOWN, UP, CTRL('f'), b'p', b'p', b'o', b'o', b'o', CTRL('r'), 0.3, DOWN, ESC,
                          ('resize', 24, 80), 0.2, ('resize', 5, 10), 0.2, ('resize', 1, 1), 0.2, ('resize', 60, 200), 0.2,
                          b'm', ('resize', 8, 30), 0.2, b'm', CTRL('k'), ('resize', 40, 120), 0.2]),
        ('udp/paris: flows view, clearing the trace data with a flow selected',
         ['127.0.0.1', '--udp', '--multipath-strategy', 'paris'] + fast,
         [1.0, b'f', 0.2, RIGHT, LEFT, 0.2, CTRL('r'), 0.4, b'f', 0.2, b'f', DOWN, CTRL('r'), 0.3, ESC, b'f', 0.2]),
        ('tcp: settings tabs walked to the end, hop details',
         ['127.0.0.1', '--tcp'] + fast,
         [1.0, b's'] + [b'%d' % k for k in range(1, 8)] + [b'2'] + [DOWN] * 22 + [UP] * 3 + [ESC, b'd', DOWN, DOWN, UP, b'd', 0.2]),
        ('two targets: switching traces with a hop selected, privacy at start-up',
         ['127.0.0.1', '127.0.0.2', '--tui-privacy-max-ttl', '0'] + fast,
         [1.0, DOWN, RIGHT, 0.2, DOWN, LEFT, 0.2, b'c', RIGHT, b'c', b'p', b'o', CTRL('r'), 0.3, RIGHT, 0.2]),
    ]
    if thorough:
        out += [
            ('udp/dublin IPv6: flows, map, chart with data arriving',
             ['::1', '--udp', '--multipath-strategy', 'dublin'] + fast,
             [1.5, b'f', 0.3, b'f', b'm', 0.3, b'm', b'c', 0.5, b'=', b'=', b'-', b'c', CTRL('r'), 0.5, b'f', 0.3]),
            ('icmp: frozen display while the trace is cleared and resized',
             ['127.0.0.1'] + fast,
             [1.0, DOWN, CTRL('f'), CTRL('r'), 0.3, DOWN, UP, ('resize', 3, 3), 0.2, ('resize', 40, 120), CTRL('f'), 0.3, DOWN, ESC, 0.2]),
        ]
    return out


def run_session(binary, args, script, limit=60.0):
    master, slave = pty.openpty()
    fcntl.ioctl(slave, termios.TIOCSWINSZ, struct.pack('HHHH', 40, 120, 0, 0))

    def pre():
        os.setsid()
        fcntl.ioctl(0, termios.TIOCSCTTY, 0)
    env = dict(os.environ, TERM='xterm-256color', RUST_BACKTRACE='0', HOME=os.environ.get('HOME', '/root'))
    env.pop('XDG_CONFIG_HOME', None)
    p = subprocess.Popen([binary] + args, stdin=slave, stdout=slave, stderr=slave, preexec_fn=pre, env=env, cwd='/')
    os.close(slave)
    buf = bytearray()
    t0 = time.time()

    def pump(d):
        end = time.time() + d
        while True:
            r, _, _ = select.select([master], [], [], max(0.0, min(0.05, end - time.time())))
            if r:
                try:
                    chunk = os.read(master, 65536)
                except OSError:
                    return
                if not chunk:
                    return
                buf.extend(chunk)
            if time.time() >= end:
                return
    typed = []
    for step in script:
        if p.poll() is not None or time.time() - t0 > limit:
            break
        if isinstance(step, (int, float)):
            pump(step)
        elif isinstance(step, tuple):
            fcntl.ioctl(master, termios.TIOCSWINSZ, struct.pack('HHHH', step[1], step[2], 0, 0))
            typed.append(f'resize {step[1]}x{step[2]}')
            pump(0.08)
        else:
            try:
                os.write(master, step)
            except OSError:
                break
            typed.append(repr(step)[2:-1])
            pump(0.06)
    early = p.poll()
    if early is None:
        try:
            os.write(master, b'q')
        except OSError:
            pass
        typed.append('q')
        end = time.time() + 20
        while p.poll() is None and time.time() < end:
            pump(0.1)
    status = p.poll()
    if status is None:
        p.kill()
        p.wait()
    pump(0.1)
    os.close(master)
    text = bytes(buf).decode('utf-8', 'replace')
    return status, early, text, typed


def main():
    repo, outdir, tier = sys.argv[1], sys.argv[2], sys.argv[3]
    verif = os.path.dirname(os.path.dirname(os.path.abspath(__file__)))
    target = os.path.join(verif, '.build', 'cargo-e2e')
    stats, oracle = {}, []

    def count(k):
        stats[k] = stats.get(k, 0) + 1
    env = dict(os.environ, CARGO_NET_OFFLINE='true', CARGO_TARGET_DIR=target)
    b = subprocess.run(['cargo', 'build', '--offline', '-p', 'trippy'], cwd=repo, env=env, capture_output=True, text=True)
    binary = os.path.join(target, 'debug', 'trip')
    if b.returncode != 0 or not os.path.exists(binary):
        # (a tree that does not compile is reported by the cargo build of the harness; here: nothing to run)
        count('e2e:binary-unavailable')
    else:
        for name, args, script in sessions(tier == 'thorough'):
            status, early, text, typed = run_session(binary, args, script)
            flat = ' '.join(text.split())
            if 'privileges are required' in flat or 'Operation not permitted' in flat or 'Permission denied' in flat:
                count('e2e:session-unavailable')
                continue
            count('e2e:session')
            stats['e2e:keys'] = stats.get('e2e:keys', 0) + len(typed)
            where = flat.find('panicked at')
            if where >= 0:
                oracle.append(('c17-e2e-crash', f'trip {" ".join(args)} [{name}]: typed {" ".join(typed)} => ' + flat[where:where + 300]))
            elif early is not None:
                oracle.append(('c17-e2e-crash', f'trip {" ".join(args)} [{name}]: the program ended by itself (status {early}) after {" ".join(typed)}: ' + flat[-300:]))
            elif status is None:
                oracle.append(('c17-e2e-crash', f'trip {" ".join(args)} [{name}]: did not end within 20 s of `q` after {" ".join(typed)}'))
            elif status != 0:
                oracle.append(('c17-e2e-crash', f'trip {" ".join(args)} [{name}]: exit status {status} after {" ".join(typed)}: ' + flat[-300:]))
    os.makedirs(outdir, exist_ok=True)
    base = os.path.join(outdir, 'e2e')
    open(base + '.ops', 'w').write('conc noop\n')
    open(base + '.impl', 'w').write('ok\n')
    open(base + '.oracle', 'w').write(''.join(f'{k}\t{d}\n' for k, d in oracle))
    stats.update(evaluations=1 + stats.get('e2e:keys', 0), distinct=1 + stats.get('e2e:keys', 0))
    open(base + '.stats', 'w').write(''.join(f'{k}\t{v}\n' for k, v in sorted(stats.items())))
    print(f'e2e: {stats.get("e2e:session", 0)} sessions, {len(oracle)} oracle failures')
    return 0


if __name__ == '__main__':
    sys.exit(main())
