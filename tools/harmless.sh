#!/bin/bash
# usage: tools/harmless.sh [area...]  — run the relevant checks against every stored behaviour-preserving
# refactoring (seeded/harmless/<area>/r<k>.diff) in an isolated copy; every VIOLATION is a false alarm
cd "$(dirname "$0")/.."
declare -A CHECKS=([pkt]="C12 C04" [cfg]="C16" [locks]="C20" [priv]="C18" [disp]="C17 C18" [strat]="C03 C09 C11"
  [pkt2]="C12 C04" [cfg2]="C16" [locks2]="C20 C16 C09" [priv2]="C18 C17" [disp2]="C17 C18" [strat2]="C03 C06 C09 C11" [net2]="C11 C02 C04 C09" [state2]="C05 C10 C15 C19" [ck2]="C13 C14" [items3]="C16" [file3]="C16" [rep3]="C10" [plat3]="C09 C04" [geo3]="C18 C13 C02")
for a in ${@:-pkt cfg locks priv disp strat}; do
  for f in seeded/harmless/$a/r?.diff; do
    d=$(mktemp -d /tmp/harmless.XXXX); cp $f $d/patch.diff
    for id in ${CHECKS[$a]}; do
      r=$(ISO=/tmp/iso.harmless.$a.$$ tools/seediso.sh $d $id 2>&1 | grep -E "^(VIOLATION|OK)|patch does not apply" | head -1 | cut -c1-120)
      echo "$a $(basename $f .diff) $id: $r"
    done
    rm -rf $d
  done
done
