#!/usr/bin/env python3
"""usage: tools/mkbriefs.py <wave dir, e.g. /tmp/w5> [shift]
Creates one scratch worktree of /repo and one brief per property for a wave of seeded changes
(the brief contains the property's text, the rules, and one-line summaries of the changes earlier
waves already used — nothing about how /verif checks anything)."""
import json, subprocess, os, glob, sys
W = sys.argv[1]; shift = int(sys.argv[2]) if len(sys.argv) > 2 else 0
os.makedirs(W, exist_ok=True)
used = {}
for f in sorted(glob.glob('/verif/seeded/C*/meta.json')):
    m = json.load(open(f)); pid = m['property']
    used.setdefault(pid, []).append(m['summary'][:260].replace('\n', ' '))
import re as _re
touched = {}
for f in sorted(glob.glob('/verif/seeded/C*/patch.diff')):
    pid = os.path.basename(os.path.dirname(f))[:3]
    for m in _re.finditer(r'^\+\+\+ b/(\S+)', open(f).read(), _re.M):
        touched.setdefault(pid, set()).add(m.group(1))
needs = ["two cooperating sites that each look fine alone", "a fault or error at a particular point", "a particular multi-step sequence of operations", "an unusual but legal input", "a particular interleaving or ordering of events (responses, timeouts, key presses, threads)"]
for i, l in enumerate(open('/verif/properties.jsonl')):
    p = json.loads(l); pid = p['id']
    wt = f'{W}/{pid}'
    if not os.path.exists(wt):
        subprocess.run(['git', '-C', '/repo', 'worktree', 'add', '--detach', wt, 'HEAD'], capture_output=True)
    prev = '\n'.join(f'  - {u}' for u in used.get(pid, []))
    brief = f"""# Brief: seed a realistic property-breaking change into trippy

You work in a scratch git worktree of the Rust project trippy (fujiapple852/trippy, a traceroute/ping
TUI tool) at `{wt}`. Work ONLY inside `{wt}` and your output directory `{wt}-out/`.
Do NOT read, list or touch `/verif` or `/repo` (both are out of bounds). Never use pkill/killall and never
use `git stash` (other jobs share the machine and the repository's stash). The sandbox has no network:
always pass `--offline` to cargo and use `CARGO_TARGET_DIR={wt}/target`. The existing test suite is
`cargo nextest run -j 4 --build-jobs 4 --workspace --no-fail-fast --offline` (730 tests, all pass on the
unchanged tree; a cold build takes a few minutes).

## The property (a semantic property the unchanged code satisfies)

id: {pid}
title: {p.get('title','')}

{p.get('statement', p.get('text',''))}

Where it lives (anchors): {json.dumps(p['anchors'], indent=1)}

## Your task

Produce ONE realistic change to the non-test source code (the kind of slip a maintainer could make in
a refactor or "tidy-up": off-by-one, wrong operand, swapped arguments, dropped or merged branch,
reordered statements, a condition on the wrong variable, a stale value reused, a boundary moved, ...) that
BREAKS this property while the code still COMPILES and ALL 730 existing tests still PASS unedited.

The breakage must need something specific to manifest — ideally {needs[(i + shift) % len(needs)]} — not something
that ordinary use would expose at once.

Earlier exercises already used the following changes for this property. Choose a DIFFERENT function and a
DIFFERENT mechanism from all of them (do not re-create any of these, nor a close variant); prefer a place
in the code none of them touched (a helper, a conversion, glue between modules, a rarely taken branch):
{prev}

Files those changes touched: {', '.join(sorted(touched.get(pid, [])))}. If the property can be broken from a file that is
not in this list, prefer that.

Rules:
- Change only non-test source (`crates/*/src`), not tests, not `#[cfg(test)]` modules, not items guarded by
  the cargo feature `verif-hooks`, no new dependencies. Keep the change small (a few lines).
- The change must really violate the property as stated (not merely change unrelated behaviour), on the
  real code path a user of the tool/library goes through.
- Write a demonstration: a new test (or small program) that FAILS with your change and PASSES without it.
  Put it in `{wt}-out/demo/` as a standalone cargo package with an empty `[workspace]` table, path
  dependencies on `{wt}/crates/...` (copy `{wt}/Cargo.lock` next to its Cargo.toml so it resolves offline;
  use only crates already in that lock file). If you need crate-private items you may enable the existing
  cargo feature `verif-hooks` of trippy-core / trippy-tui (it only re-exports private items under
  `trippy_core::verif` / `trippy_tui::verif`; look at the source to see what is there).
- Verify yourself, and say so in meta.json: (1) with the change applied: the whole 730-test suite passes
  and the demo fails; (2) without the change: the demo passes. To test without your change use
  `git diff > /tmp/x.diff`-style files inside your output directory with `git apply -R` / `git apply`.

Deliverables in `{wt}-out/`:
- `patch.diff`  — `git diff` of your source change against HEAD (must apply with `git apply` on a clean tree)
- `demo/`       — the demonstration package (no target directory inside)
- `meta.json`   — {{"property": "{pid}", "summary": "<what was changed, file and function>", "needs": "<what is
  needed for it to manifest>", "demo_cmd": "<shell command that runs the demo, starting with cd {wt}-out/demo>",
  "fails_with": "<the failure message with the change>", "verified": {{"suite_with_change": "730 passed", "demo_with_change": "fails", "demo_without_change": "passes"}}}}

When you are done, leave the worktree `{wt}` with your change APPLIED (so it can be re-checked), and
reply with a short summary (the change, what it needs to manifest, and the three verification results).
"""
    open(f'{W}/{pid}.brief.md', 'w').write(brief)
print(len(os.listdir(W)))
