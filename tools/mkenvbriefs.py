#!/usr/bin/env python3
"""usage: tools/mkenvbriefs.py <dir, e.g. /tmp/w11>   (environment-centred variant of mkfilebriefs.py)
File-centred wave: one scratch worktree and one brief per source file (group); the agent may break ANY of the
twenty properties, but only by a change inside its file(s).  The brief lists all property texts and one-line
summaries of the earlier seeded changes that touched those files."""
import json, subprocess, os, glob, sys, re
W = sys.argv[1]
os.makedirs(W, exist_ok=True)
props = [json.loads(l) for l in open('/verif/properties.jsonl')]
touched = {}
for f in sorted(glob.glob('/verif/seeded/C*/patch.diff')):
    d = os.path.dirname(f)
    m = json.load(open(os.path.join(d, 'meta.json')))
    for mm in re.finditer(r'^\+\+\+ b/(\S+)', open(f).read(), re.M):
        touched.setdefault(mm.group(1), []).append(f"[{m['property']}] " + m['summary'][:220].replace('\n', ' '))
groups = {
 'ipv6': "the trace runs over IPv6 (an IPv6 target, ICMPv6 responses, IPv6 extension headers in quotations, the IPv6 pseudo-header, `::1` / link-local sources, the Dublin strategy's IPv6 variant)",
 'locale': "a non-default presentation environment: a UI locale other than English (`--tui-locale`), a time zone (`--tui-timezone`), wide / non-ASCII host names, right-to-left or very long strings, custom column sets (`--tui-custom-columns`) including rarely shown columns",
 'cfgfile': "the configuration comes from a *file* in an unusual but legal form: UTF-16 or UTF-8-with-BOM encoding, CRLF line ends, sections present but empty, every option given in the file and some also on the command line, deprecated option names, values at the edge of their range, humantime durations in odd units",
 'termsize': "an unusual terminal: very small (a few cells), very wide or very tall, resized between frames, zero-width panels, many traces / flows / hops so that every list scrolls",
 'multi': "several things at once: several targets (several tracers in one process), `--dns-resolve-all`, many flows (ECMP, Paris / Dublin), switching between traces and flows while data arrives, clearing data of one trace while another is selected",
 'timing': "unusual timing parameters: zero or huge durations (`--min-round-duration`, `--max-round-duration`, `--grace-duration`, `--read-timeout`, `--dns-timeout`, `--tui-refresh-rate`), max-rounds 1, max-inflight 1 or 255, first-ttl = max-ttl, report cycles 1",
 'dnsenv': "an unusual name-resolution environment: reverse look-ups that fail, time out, return several names or very long names, AS-info look-ups, the resolver restarted or its cache flushed (`Ctrl+K`) while frames are drawn, `--dns-resolve-method` other than the default",
}
ptext = '\n\n'.join(f"### {p['id']} — {p.get('title','')}\n{p.get('statement', p.get('text',''))}" for p in props)
for g, envdesc in groups.items():
    files = []
    wt = f'{W}/{g}'
    if not os.path.exists(wt):
        subprocess.run(['git', '-C', '/repo', 'worktree', 'add', '--detach', wt, 'HEAD'], capture_output=True)
    prev = '\n'.join(f'  - {f}: {u}' for f, us in sorted(touched.items()) for u in us[-2:])
    brief = f"""# Brief: seed a realistic property-breaking change into trippy — environment-centred

You work in a scratch git worktree of the Rust project trippy (fujiapple852/trippy, a traceroute/ping
TUI tool) at `{wt}`. Work ONLY inside `{wt}` and your output directory `{wt}-out/`.
Do NOT read, list or touch `/verif` or `/repo` (both are out of bounds). Never use pkill/killall and never
use `git stash` (other jobs share the machine and the repository's stash). The sandbox has no network:
always pass `--offline` to cargo and use `CARGO_TARGET_DIR={wt}/target`. The existing test suite is
`cargo nextest run -j 4 --build-jobs 4 --workspace --no-fail-fast --offline` (730 tests, all pass on the
unchanged tree; a cold build takes a few minutes).

## Your environment

{envdesc}

## Your task

Below are twenty semantic properties the unchanged code satisfies. Produce ONE realistic change, anywhere in the
non-test code of the workspace, of the kind a maintainer could make in a refactor or "tidy-up" (off-by-one, wrong
operand, swapped arguments, dropped or merged branch, reordered statements, a condition on the wrong variable, a
stale value reused, a boundary moved, a field lost in a struct update, a default changed, ...) that BREAKS AT LEAST
ONE of the properties — your choice which — while the code still COMPILES and ALL 730 existing tests still PASS
unedited. The breakage must manifest ONLY in the environment described above (and be invisible in the default environment:
an English-locale, IPv4, single-target, default-timing, command-line-configured run on an ordinary terminal) — that is
the point of this exercise: pick code that only runs, or only matters, there.

Earlier exercises already made the following changes (the last two per file are listed); choose a DIFFERENT function and mechanism
(do not re-create any of these, nor a close variant):
{prev}

Rules:
- Change only non-test source, not `#[cfg(test)]` modules, not items guarded by
  the cargo feature `verif-hooks`, no new dependencies. Keep the change small (a few lines).
- The change must really violate the property as stated, on the real code path a user of the tool/library goes
  through.
- Write a demonstration: a new test (or small program) that FAILS with your change and PASSES without it.
  Put it in `{wt}-out/demo/` as a standalone cargo package with an empty `[workspace]` table, path
  dependencies on `{wt}/crates/...` (copy `{wt}/Cargo.lock` next to its Cargo.toml so it resolves offline;
  use only crates already in that lock file). If you need crate-private items you may enable the existing
  cargo feature `verif-hooks` of trippy-core / trippy-tui (it only re-exports private items under
  `trippy_core::verif` / `trippy_tui::verif`; look at the source to see what is there).
- Verify yourself, and say so in meta.json: (1) with the change applied: the whole 730-test suite passes
  and the demo fails; (2) without the change: the demo passes. To test without your change save `git diff` to a
  file in your output directory and use `git apply -R` / `git apply`.

Deliverables in `{wt}-out/`:
- `patch.diff`  — `git diff` of your source change against HEAD (must apply with `git apply` on a clean tree)
- `demo/`       — the demonstration package (no target directory inside)
- `meta.json`   — {{"property": "<the id, e.g. C07, of the property you broke (the main one if several)>", "summary": "<what was
  changed, file and function>", "needs": "<what is needed for it to manifest>", "demo_cmd": "<shell command that runs the
  demo, starting with cd {wt}-out/demo>", "fails_with": "<the failure message with the change>", "verified":
  {{"suite_with_change": "730 passed", "demo_with_change": "fails", "demo_without_change": "passes"}}}}

When you are done, leave the worktree `{wt}` with your change APPLIED (so it can be re-checked), and
reply with a short summary (the property, the change, what it needs to manifest, and the three verification results).

## The twenty properties

{ptext}
"""
    open(f'{W}/{g}.brief.md', 'w').write(brief)
print(len(groups))
