#!/usr/bin/env python3
"""usage: tools/mkfilebriefs.py <dir, e.g. /tmp/w8>
File-centred wave: one scratch worktree and one brief per source file (group); the agent may break ANY of the
twenty properties, but only by a change inside its file(s).  The brief lists all property texts and one-line
summaries of the earlier seeded changes that touched those files."""
import json, subprocess, os, glob, sys, re
W = sys.argv[1]
os.makedirs(W, exist_ok=True)
props = [json.loads(l) for l in open('/verif/properties.jsonl')]
touched = {}
for f in sorted(glob.glob('/verif/seeded/C*/patch.diff')):
    d = os.path.dirname(f)
    m = json.load(open(os.path.join(d, 'meta.json')))
    for mm in re.finditer(r'^\+\+\+ b/(\S+)', open(f).read(), re.M):
        touched.setdefault(mm.group(1), []).append(f"[{m['property']}] " + m['summary'][:220].replace('\n', ' '))
groups = {
 'builder': ['crates/trippy-core/src/builder.rs', 'crates/trippy-core/src/config.rs', 'crates/trippy-core/src/constants.rs', 'crates/trippy-core/src/types.rs'],
 'errmap': ['crates/trippy-core/src/error.rs', 'crates/trippy-core/src/net/common.rs', 'crates/trippy-core/src/net/source.rs'],
 'flows': ['crates/trippy-core/src/flows.rs'],
 'channel': ['crates/trippy-core/src/net/channel.rs'],
 'net4': ['crates/trippy-core/src/net/ipv4.rs'],
 'net6': ['crates/trippy-core/src/net/ipv6.rs'],
 'netext': ['crates/trippy-core/src/net/extension.rs', 'crates/trippy-core/src/probe.rs'],
 'state': ['crates/trippy-core/src/state.rs'],
 'strategy': ['crates/trippy-core/src/strategy.rs'],
 'tracer': ['crates/trippy-core/src/tracer.rs'],
 'pktsum': ['crates/trippy-packet/src/checksum.rs', 'crates/trippy-packet/src/buffer.rs', 'crates/trippy-packet/src/lib.rs'],
 'pktext': ['crates/trippy-packet/src/icmp_extension.rs'],
 'pkticmp': ['crates/trippy-packet/src/icmpv4.rs', 'crates/trippy-packet/src/icmpv6.rs'],
 'pktip': ['crates/trippy-packet/src/ipv4.rs', 'crates/trippy-packet/src/ipv6.rs'],
 'pktl4': ['crates/trippy-packet/src/udp.rs', 'crates/trippy-packet/src/tcp.rs'],
 'tuiapp': ['crates/trippy-tui/src/app.rs', 'crates/trippy-tui/src/frontend/config.rs', 'crates/trippy-tui/src/frontend/columns.rs', 'crates/trippy-tui/src/frontend/binding.rs'],
 'tuicfg': ['crates/trippy-tui/src/config.rs', 'crates/trippy-tui/src/config/constants.rs', 'crates/trippy-tui/src/config/file.rs', 'crates/trippy-tui/src/config/cmd.rs'],
 'tuifront': ['crates/trippy-tui/src/frontend.rs', 'crates/trippy-tui/src/frontend/tui_app.rs'],
 'tuirender': ['crates/trippy-tui/src/frontend/render/table.rs', 'crates/trippy-tui/src/frontend/render/world.rs', 'crates/trippy-tui/src/frontend/render/header.rs', 'crates/trippy-tui/src/frontend/render/history.rs', 'crates/trippy-tui/src/frontend/render/chart.rs', 'crates/trippy-tui/src/frontend/render/flows.rs', 'crates/trippy-tui/src/frontend/render/settings.rs', 'crates/trippy-tui/src/frontend/render/tabs.rs', 'crates/trippy-tui/src/frontend/render/body.rs', 'crates/trippy-tui/src/frontend/render/app.rs'],
}
groups2 = {
 'tuifile': ['crates/trippy-tui/src/config/file.rs', 'crates/trippy-tui/src/config/cmd.rs', 'crates/trippy-tui/src/config/constants.rs', 'crates/trippy-tui/src/config/columns.rs'],
 'tuibind': ['crates/trippy-tui/src/config/binding.rs', 'crates/trippy-tui/src/config/theme.rs', 'crates/trippy-tui/src/frontend/binding.rs', 'crates/trippy-tui/src/frontend/theme.rs'],
 'tuiloop': ['crates/trippy-tui/src/frontend.rs', 'crates/trippy-tui/src/frontend/config.rs'],
 'tuisettings': ['crates/trippy-tui/src/frontend/render/settings.rs', 'crates/trippy-tui/src/frontend/render/tabs.rs', 'crates/trippy-tui/src/frontend/render/help.rs', 'crates/trippy-tui/src/frontend/render/util.rs', 'crates/trippy-tui/src/frontend/render/footer.rs'],
 'tuicharts': ['crates/trippy-tui/src/frontend/render/chart.rs', 'crates/trippy-tui/src/frontend/render/histogram.rs', 'crates/trippy-tui/src/frontend/render/history.rs', 'crates/trippy-tui/src/frontend/render/bar.rs', 'crates/trippy-tui/src/frontend/render/flows.rs', 'crates/trippy-tui/src/frontend/render/app.rs', 'crates/trippy-tui/src/frontend/render/body.rs', 'crates/trippy-tui/src/frontend/render/splash.rs', 'crates/trippy-tui/src/frontend/render/bsod.rs'],
 'coretypes': ['crates/trippy-core/src/config.rs', 'crates/trippy-core/src/types.rs', 'crates/trippy-core/src/error.rs', 'crates/trippy-core/src/lib.rs', 'crates/trippy-core/src/constants.rs'],
 'source': ['crates/trippy-core/src/net/source.rs', 'crates/trippy-core/src/net/socket.rs', 'crates/trippy-core/src/net.rs', 'crates/trippy-core/src/net/platform.rs', 'crates/trippy-core/src/net/platform/byte_order.rs', 'crates/trippy-core/src/net/platform/unix.rs'],
 'dns': ['crates/trippy-dns/src/lazy_resolver.rs', 'crates/trippy-dns/src/resolver.rs', 'crates/trippy-dns/src/config.rs', 'crates/trippy-dns/src/lib.rs', 'crates/trippy-tui/src/geoip.rs'],
 'report': ['crates/trippy-tui/src/report/types.rs', 'crates/trippy-tui/src/report/csv.rs', 'crates/trippy-tui/src/report/table.rs', 'crates/trippy-tui/src/report/json.rs', 'crates/trippy-tui/src/report/stream.rs', 'crates/trippy-tui/src/report/dot.rs', 'crates/trippy-tui/src/report/flows.rs', 'crates/trippy-tui/src/report/silent.rs', 'crates/trippy-tui/src/report.rs', 'crates/trippy-tui/src/print.rs'],
 'buffer': ['crates/trippy-packet/src/buffer.rs', 'crates/trippy-packet/src/lib.rs', 'crates/trippy-packet/src/error.rs'],
 'tuilib': ['crates/trippy-tui/src/lib.rs', 'crates/trippy-tui/src/locale.rs', 'crates/trippy-tui/src/util.rs', 'crates/trippy-privilege/src/lib.rs', 'crates/trippy/src/lib.rs', 'crates/trippy/src/main.rs'],
}
groups3 = {
 'unix2': ['crates/trippy-core/src/net/platform/unix.rs', 'crates/trippy-core/src/net/socket.rs', 'crates/trippy-core/src/net/source.rs', 'crates/trippy-core/src/net/platform/byte_order.rs'],
 'dns2': ['crates/trippy-dns/src/lazy_resolver.rs', 'crates/trippy-dns/src/resolver.rs', 'crates/trippy-dns/src/config.rs'],
 'report2': ['crates/trippy-tui/src/report/csv.rs', 'crates/trippy-tui/src/report/json.rs', 'crates/trippy-tui/src/report/types.rs', 'crates/trippy-tui/src/report/dot.rs', 'crates/trippy-tui/src/report/flows.rs', 'crates/trippy-tui/src/report/stream.rs', 'crates/trippy-tui/src/report.rs'],
 'tuicfg2': ['crates/trippy-tui/src/config/binding.rs', 'crates/trippy-tui/src/config/columns.rs', 'crates/trippy-tui/src/config/cmd.rs', 'crates/trippy-tui/src/frontend/columns.rs', 'crates/trippy-tui/src/frontend/binding.rs'],
 'render2': ['crates/trippy-tui/src/frontend/render/header.rs', 'crates/trippy-tui/src/frontend/render/footer.rs', 'crates/trippy-tui/src/frontend/render/tabs.rs', 'crates/trippy-tui/src/frontend/render/help.rs', 'crates/trippy-tui/src/frontend/render/util.rs', 'crates/trippy-tui/src/frontend/render/histogram.rs', 'crates/trippy-tui/src/frontend/render/history.rs', 'crates/trippy-tui/src/frontend/render/bar.rs', 'crates/trippy-tui/src/frontend/render/flows.rs', 'crates/trippy-tui/src/frontend/render/app.rs', 'crates/trippy-tui/src/frontend/render/body.rs', 'crates/trippy-tui/src/frontend/render/splash.rs', 'crates/trippy-tui/src/frontend/render/bsod.rs'],
 'types2': ['crates/trippy-core/src/types.rs', 'crates/trippy-core/src/config.rs', 'crates/trippy-core/src/constants.rs', 'crates/trippy-core/src/probe.rs'],
 'tuiapp2': ['crates/trippy-tui/src/frontend/tui_app.rs', 'crates/trippy-tui/src/frontend/config.rs', 'crates/trippy-tui/src/frontend/theme.rs', 'crates/trippy-tui/src/app.rs'],
 'packet2': ['crates/trippy-packet/src/tcp.rs', 'crates/trippy-packet/src/udp.rs', 'crates/trippy-packet/src/ipv6.rs', 'crates/trippy-packet/src/buffer.rs', 'crates/trippy-packet/src/error.rs'],
}
groups4 = {
 'defaults': ['crates/trippy-core/src/config.rs', 'crates/trippy-tui/src/config/constants.rs', 'crates/trippy-core/src/lib.rs'],
 'cmd': ['crates/trippy-tui/src/config/cmd.rs', 'crates/trippy-tui/src/config/columns.rs'],
 'srcaddr': ['crates/trippy-core/src/net/source.rs', 'crates/trippy-core/src/net/platform/byte_order.rs', 'crates/trippy-core/src/net/socket.rs', 'crates/trippy-core/src/net.rs'],
 'keys': ['crates/trippy-tui/src/frontend/binding.rs', 'crates/trippy-tui/src/frontend/theme.rs', 'crates/trippy-tui/src/frontend/render/bar.rs', 'crates/trippy-tui/src/frontend/render/histogram.rs', 'crates/trippy-tui/src/frontend/render/history.rs', 'crates/trippy-tui/src/frontend/render/flows.rs', 'crates/trippy-tui/src/frontend/render/help.rs', 'crates/trippy-tui/src/frontend/render/tabs.rs'],
 'dnsres': ['crates/trippy-dns/src/resolver.rs', 'crates/trippy-dns/src/config.rs', 'crates/trippy-dns/src/lib.rs'],
 'repcsv': ['crates/trippy-tui/src/report/csv.rs', 'crates/trippy-tui/src/report/types.rs', 'crates/trippy-tui/src/report/stream.rs', 'crates/trippy-tui/src/report/dot.rs', 'crates/trippy-tui/src/print.rs'],
}
if len(sys.argv) > 2 and sys.argv[2] == 'set4':
    groups = groups4
if len(sys.argv) > 2 and sys.argv[2] == 'set2':
    groups = groups2
if len(sys.argv) > 2 and sys.argv[2] == 'set3':
    groups = groups3
ptext = '\n\n'.join(f"### {p['id']} — {p.get('title','')}\n{p.get('statement', p.get('text',''))}" for p in props)
for g, files in groups.items():
    files = [f for f in files if os.path.exists('/repo/' + f)]
    wt = f'{W}/{g}'
    if not os.path.exists(wt):
        subprocess.run(['git', '-C', '/repo', 'worktree', 'add', '--detach', wt, 'HEAD'], capture_output=True)
    prev = '\n'.join(f'  - {f}: {u}' for f in files for u in touched.get(f, [])) or '  (none)'
    brief = f"""# Brief: seed a realistic property-breaking change into trippy — file-centred

You work in a scratch git worktree of the Rust project trippy (fujiapple852/trippy, a traceroute/ping
TUI tool) at `{wt}`. Work ONLY inside `{wt}` and your output directory `{wt}-out/`.
Do NOT read, list or touch `/verif` or `/repo` (both are out of bounds). Never use pkill/killall and never
use `git stash` (other jobs share the machine and the repository's stash). The sandbox has no network:
always pass `--offline` to cargo and use `CARGO_TARGET_DIR={wt}/target`. The existing test suite is
`cargo nextest run -j 4 --build-jobs 4 --workspace --no-fail-fast --offline` (730 tests, all pass on the
unchanged tree; a cold build takes a few minutes).

## Your file(s)

{chr(10).join('  - ' + f for f in files)}

## Your task

Below are twenty semantic properties the unchanged code satisfies. Produce ONE realistic change, made ONLY in the
file(s) above (non-test code), of the kind a maintainer could make in a refactor or "tidy-up" (off-by-one, wrong
operand, swapped arguments, dropped or merged branch, reordered statements, a condition on the wrong variable, a
stale value reused, a boundary moved, a field lost in a struct update, a default changed, ...) that BREAKS AT LEAST
ONE of the properties — your choice which — while the code still COMPILES and ALL 730 existing tests still PASS
unedited. Prefer a property whose statement does not obviously point at this file: the interesting changes are in
code a property only passes *through*. The breakage must need something specific to manifest (an unusual but legal
input, a fault at a particular point, a particular sequence or interleaving of events, a particular configuration),
not something ordinary use would expose at once.

Earlier exercises already made the following changes in these files; choose a DIFFERENT function and mechanism
(do not re-create any of these, nor a close variant):
{prev}

Rules:
- Change only the file(s) listed above, only non-test source, not `#[cfg(test)]` modules, not items guarded by
  the cargo feature `verif-hooks`, no new dependencies. Keep the change small (a few lines).
- The change must really violate the property as stated, on the real code path a user of the tool/library goes
  through.
- Write a demonstration: a new test (or small program) that FAILS with your change and PASSES without it.
  Put it in `{wt}-out/demo/` as a standalone cargo package with an empty `[workspace]` table, path
  dependencies on `{wt}/crates/...` (copy `{wt}/Cargo.lock` next to its Cargo.toml so it resolves offline;
  use only crates already in that lock file). If you need crate-private items you may enable the existing
  cargo feature `verif-hooks` of trippy-core / trippy-tui (it only re-exports private items under
  `trippy_core::verif` / `trippy_tui::verif`; look at the source to see what is there).
- Verify yourself, and say so in meta.json: (1) with the change applied: the whole 730-test suite passes
  and the demo fails; (2) without the change: the demo passes. To test without your change save `git diff` to a
  file in your output directory and use `git apply -R` / `git apply`.

Deliverables in `{wt}-out/`:
- `patch.diff`  — `git diff` of your source change against HEAD (must apply with `git apply` on a clean tree)
- `demo/`       — the demonstration package (no target directory inside)
- `meta.json`   — {{"property": "<the id, e.g. C07, of the property you broke (the main one if several)>", "summary": "<what was
  changed, file and function>", "needs": "<what is needed for it to manifest>", "demo_cmd": "<shell command that runs the
  demo, starting with cd {wt}-out/demo>", "fails_with": "<the failure message with the change>", "verified":
  {{"suite_with_change": "730 passed", "demo_with_change": "fails", "demo_without_change": "passes"}}}}

When you are done, leave the worktree `{wt}` with your change APPLIED (so it can be re-checked), and
reply with a short summary (the property, the change, what it needs to manifest, and the three verification results).

## The twenty properties

{ptext}
"""
    open(f'{W}/{g}.brief.md', 'w').write(brief)
print(len(groups))
