#!/usr/bin/env python3
"""usage: tools/mkhrbriefs.py <dir, e.g. /tmp/hr2>
One scratch worktree of /repo and one brief per code area for sub-agents that produce strictly
behaviour-preserving refactorings (the false-alarm experiment of DESIGN.md §10)."""
import sys, os, subprocess
W = sys.argv[1]
os.makedirs(W, exist_ok=True)
areas = {
 'pkt2': ("crates/trippy-packet/src/*.rs (the packet views: field getters/setters, constructors, offset constants, octet-backed enums such as IcmpType / IpProtocol / IcmpCode, `fmt::Debug` impls excluded)", "field accessors of the packet views and their constants"),
 'cfg2': ("crates/trippy-tui/src/config.rs (TrippyConfig::build_config: the cfg_layer / cfg_layer_opt / cfg_layer_bool_flag functions and the long list of `let x = cfg_layer(args.x, cfg_file_y.x, defaults::...)` lines, plus the validate_* functions), crates/trippy-tui/src/config/constants.rs and crates/trippy-core/src/builder.rs (Builder::build and its checks), crates/trippy-core/src/constants.rs", "option layering (command line over config file over default), validation, and the library builder"),
 'locks2': ("crates/trippy-core/src/tracer.rs (the functions that touch `self.state`: handler, snapshot, clear, handle_error, run_internal, run_with, and the constructors / make_*_config helpers)", "how the shared State behind the RwLock is read and updated and how the tracer's configuration is split between channel, strategy and state"),
 'priv2': ("crates/trippy-tui/src/frontend/render/*.rs (table.rs, world.rs, header.rs, history.rs, bsod.rs, ...: the code that prints hop addresses, hostnames, AS / GeoIP text and the source address, with its `privacy_max_ttl` checks) and crates/trippy-tui/src/frontend/tui_app.rs", "the TUI rendering code, in particular the privacy checks around everything that prints an address or hostname"),
 'disp2': ("crates/trippy-tui/src/frontend.rs (run_app: the per-frame prologue — snapshot, clamp_selected_hop, update_order_flow_counts, draw — and the big key dispatch `if bindings.x.check(key) { app.method() } else if ...`) and crates/trippy-tui/src/frontend/tui_app.rs (the TuiApp methods it calls), crates/trippy-tui/src/frontend/binding.rs", "the key dispatch and the per-frame prologue of the TUI"),
 'strat2': ("crates/trippy-core/src/strategy.rs (Strategy::run, send_request, do_send, recv_response, update_round, publish_trace, validate, and mod state: TracerState and its methods), crates/trippy-core/src/probe.rs", "the tracing loop and the tracer state"),
 'net2': ("crates/trippy-core/src/net/channel.rs, crates/trippy-core/src/net/ipv4.rs, crates/trippy-core/src/net/ipv6.rs, crates/trippy-core/src/net/common.rs, crates/trippy-core/src/net/extension.rs, crates/trippy-core/src/error.rs", "the channel and the code that builds probes and decodes responses"),
 'state2': ("crates/trippy-core/src/state.rs (State, Hop, FlowState and update_from_round / update_lowest_ttl / update_round) and crates/trippy-core/src/flows.rs (FlowRegistry, Flow::check / merge)", "per-hop statistics aggregation and the flow registry"),
 'ck2': ("crates/trippy-packet/src/checksum.rs, crates/trippy-packet/src/icmp_extension.rs, crates/trippy-packet/src/icmpv4.rs / icmpv6.rs (the payload / extension splitting code of TimeExceeded / DestinationUnreachable packets)", "the Internet checksum functions and the ICMP extension parsing"),
}
areas3 = {
 'items3': ("crates/trippy-tui/src/config/theme.rs (TuiTheme, its Default impl, the big `impl From<(HashMap<TuiThemeItem, TuiColor>, ConfigThemeColors)> for TuiTheme`, TuiThemeItem, TuiColor parsing) and crates/trippy-tui/src/config/binding.rs (TuiBindings, its Default impl, the big `impl From<(HashMap<TuiCommandItem, TuiKeyBinding>, ConfigBindings)> for TuiBindings`, TuiKeyBinding parsing / Display, TuiCommandItem)", "the theme-colour and key-binding tables (command line over config file over default for every item)"),
 'file3': ("crates/trippy-tui/src/config/file.rs (read_default_config_file, read_config_file, read_files, read_file, the Config* section structs and their Default impls), crates/trippy-tui/src/config/cmd.rs (the clap argument definitions and the value parsers), crates/trippy-privilege/src/lib.rs (Privilege: discover, acquire_privileges, check_has_privileges, check_needs_privileges)", "how the configuration file is located and read, the command-line argument parsers, and privilege discovery"),
 'rep3': ("crates/trippy-tui/src/report.rs and crates/trippy-tui/src/report/*.rs (csv.rs, json.rs, table.rs, dot.rs, flows.rs, silent.rs, stream.rs, types.rs)", "the report generators (--mode csv / json / pretty / markdown / dot / flows / silent / stream)"),
 'plat3': ("crates/trippy-core/src/net/platform/unix.rs (SocketImpl: the socket constructors, bind, set_*, connect, send_to, is_readable, is_writable, recv_from, read, take_error, icmp_error_info; the address lookup helpers), crates/trippy-core/src/net/socket.rs, crates/trippy-core/src/net/source.rs, crates/trippy-core/src/error.rs (IoError, ErrorKind and the `From<&io::Error>` conversion)", "the Linux / Unix platform socket layer, source-address discovery and the I/O error types"),
 'geo3': ("crates/trippy-tui/src/geoip.rs (GeoIpCity and its name / location methods, the `From<(maxminddb::geoip2::City, &str)>` conversion, GeoIpLookup), crates/trippy-tui/src/frontend/render/world.rs (the map: grouping hops into pins, the info panel), crates/trippy-packet/src/lib.rs (IpProtocol and its conversions, fmt_payload) and the six public wrapper functions at the top of crates/trippy-packet/src/checksum.rs", "GeoIP lookups and the world map, the IpProtocol enum and the public checksum entry points"),
}
if len(sys.argv) > 2 and sys.argv[2] == 'set3':
    areas = areas3
for a, (files, what) in areas.items():
    wt = f'{W}/{a}'
    if not os.path.exists(wt):
        subprocess.run(['git', '-C', '/repo', 'worktree', 'add', '--detach', wt, 'HEAD'], capture_output=True)
    open(f'{W}/{a}.brief.md', 'w').write(f"""# Brief: behaviour-preserving refactorings of trippy

You work in a scratch git worktree of the Rust project trippy (fujiapple852/trippy, a traceroute/ping TUI tool)
at `{wt}`. Work ONLY inside `{wt}` and your output directory `{wt}-out/`. Do NOT read, list or touch `/verif`
or `/repo`. No network: always pass `--offline` to cargo and use `CARGO_TARGET_DIR={wt}/target`. Never use
pkill/killall and never use `git stash`. Use `-j 4` for builds (`cargo nextest run -j 4 --build-jobs 4 --workspace
--no-fail-fast --offline` runs the 730 existing tests; all pass on the unchanged tree).

## Task

Produce FIVE independent, *strictly behaviour-preserving* refactorings of {what}, in
{files}.

Each one should be the kind of tidy-up a maintainer really makes and a reviewer would wave through as "no
functional change": renaming a local variable or a private helper, extracting a few lines into a private
function (or inlining one), reordering independent statements or match arms whose patterns are disjoint,
replacing an `if let … else` by a `match` (or back), `map_or` ↔ `match`, an iterator chain ↔ a loop, a literal ↔
a named constant with the same value, re-wrapping / re-formatting an expression, adding a doc comment,
introducing an early return, changing `a <= b` to `b >= a`, De Morgan on a condition, `x.is_some_and(..)` ↔
`matches!(..)`, hoisting a repeated sub-expression into a `let`, splitting a long function, turning a
free function into a method (private), etc. Vary the kinds; touch different functions.
Each refactoring must keep the observable behaviour of every public function EXACTLY the same for every
input (including panics, error values, what is logged is irrelevant) — if you are not sure, choose a different
one. Do not touch tests, `#[cfg(test)]` modules or code guarded by the cargo feature `verif-hooks`; no new
dependencies; keep each change small (at most ~25 changed lines).

For each refactoring k = 1..5: start from a clean tree (`git checkout -- .`), make the change, check that the
workspace compiles WITH AND WITHOUT the feature (`cargo check -j 4 --offline --workspace` and
`cargo check -j 4 --offline -p trippy-core -p trippy-tui --features trippy-core/verif-hooks,trippy-tui/verif-hooks`
— if the second command's feature syntax is rejected, run `cargo check --offline --features verif-hooks` inside
crates/trippy-core and crates/trippy-tui), run the 730 tests (all must pass), then save `git diff` as
`{wt}-out/r<k>.diff` and a one-paragraph `{wt}-out/r<k>.md` saying what was changed and why it cannot change
behaviour. Leave the worktree clean at the end (`git checkout -- .`).

Reply with a short list of the five refactorings.
""")
print('ok', len(areas))
