#!/usr/bin/env python3
"""Regenerate MANIFEST.json from the table below (claimed checks) – unclaimed properties are
listed under not_applicable with the reason they are not (yet) claimed."""
import json, os, subprocess
V = os.path.dirname(os.path.dirname(os.path.abspath(__file__)))
CLAIMS = {
 'C12': dict(
   text='Proof (Lean 4): for every header field of every packet view, theorems over definitions regenerated from the Rust source on every run: getter = RFC bit position, setter = RFC store, read-back = value truncated to the width, length preserved, every bit outside the field untouched, constructor accepts iff length >= RFC minimum; for all buffers and all values. Statements come from a hand-written RFC table, not from the code. Plus correspondence of every translated accessor with the real function and a bit-level RFC oracle on the implementation.',
   design='§6 C12', technique='Lean 4 proof over source-translated definitions + differential correspondence',
   note='trusted: Lean kernel; translator tools/rs2lean/accessors.py (its output is also run differentially against the real accessors); spec/rfc_fields.json; slice accessors (payload, options) are hand-modelled under C04/C14'),
}
CLAIMS['C13'] = dict(
   text='Proof (Lean 4): the checksum code (hand model of checksum.rs, u32 accumulator with checked additions, while-loop finalisation by well-founded recursion) equals the RFC 1071 one\'s-complement checksum over pseudo-header ++ data with the field cleared, for every data string up to 65535 octets, every ignore index (incl. the odd-tail case) and every address pair; no accumulator overflow in that range; the datagram with the checksum inserted verifies (sums to 0xFFFF). Correspondence: all six entry points on every length 0..1024 x 4 patterns x 16 address pairs, model vs implementation, plus an independent RFC 1071 receiver as oracle. The empty-input deviation (returns 0, RFC gives 0xFFFF) is a recorded known finding F13.',
   design='§6 C13', technique='Lean 4 proof (refinement of a hand model to an RFC 1071 spec) + differential correspondence',
   note='trusted: Lean kernel; hand model validated only by the correspondence run; Spec/Rfc1071.lean; the Paris checksum swap on the wire is decided under C11')
REASONS = {}
def main():
    props = [json.loads(l) for l in open(os.path.join(V, 'properties.jsonl'))]
    commits = subprocess.run(['git', '-C', '/repo', 'log', '--format=%h %s'], capture_output=True, text=True).stdout.splitlines()
    hooks = [c.split()[0] for c in commits if c.split(' ', 1)[1].startswith('verif-hooks')]
    checks, na = [], []
    for p in props:
        i = p['id']
        if i in CLAIMS:
            c = CLAIMS[i]
            checks.append(dict(property_id=i, quick_cmd=f'./check {i} --tier quick', thorough_cmd=f'./check {i} --tier thorough',
                evidence_file=f'/verif/evidence/{i}.json', replay_cmd_template=f'./check {i} --replay {{path}}', engine='lean',
                level_claimed=dict(category='proof', text=c['text'], design_ref=c['design']), level_note=c['note'], technique=c['technique']))
        else:
            na.append(dict(property_id=i, reason=REASONS.get(i, 'not claimed yet: the Lean model, theorems and correspondence check for this property are planned (DESIGN.md §6) but not built at this commit; the technique applies')))
    m = dict(version=1, setup_cmd='./setup.sh',
      hooks=dict(guard='cargo feature verif-hooks (trippy-core; trippy-tui when its hooks land)',
        enable='harness/Cargo.toml depends on the /repo crates by path with features = ["verif-hooks"]',
        baseline_off_cmd='cd /repo && cargo nextest run --workspace --no-fail-fast --offline',
        source_commits=hooks, add_only=True),
      engines=[dict(name='lean', path='lean', serves_properties=sorted(CLAIMS),
        kind_free_text='Lean 4 theorems over models tied to the source by translation (tools/rs2lean) and/or correspondence (harness/ + lean/Driver.lean); driver ./check')],
      checks=checks, notes='Design, trusted base, findings and detection map: DESIGN.md. Known findings: known_findings.json.', not_applicable=na)
    json.dump(m, open(os.path.join(V, 'MANIFEST.json'), 'w'), indent=1)
    print(len(checks), 'claimed', len(na), 'not claimed')
if __name__ == '__main__':
    main()
