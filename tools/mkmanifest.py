#!/usr/bin/env python3
"""Regenerate MANIFEST.json from the table below (claimed checks) – unclaimed properties are
listed under not_applicable with the reason they are not (yet) claimed."""
import json, os, subprocess
V = os.path.dirname(os.path.dirname(os.path.abspath(__file__)))
CLAIMS = {
 'C12': dict(
   text='Proof (Lean 4): for every header field of every packet view, theorems over definitions regenerated from the Rust source on every run: getter = RFC bit position, setter = RFC store, read-back = value truncated to the width, length preserved, every bit outside the field untouched, constructor accepts iff length >= RFC minimum; for all buffers and all values. Statements come from a hand-written RFC table, not from the code. Plus correspondence of every translated accessor with the real function and a bit-level RFC oracle on the implementation.',
   design='§6 C12', technique='Lean 4 proof over source-translated definitions + differential correspondence',
   note='trusted: Lean kernel; translator tools/rs2lean/accessors.py (its output is also run differentially against the real accessors); spec/rfc_fields.json; slice accessors (payload, options) are hand-modelled under C04/C14'),
}
CLAIMS['C13'] = dict(
   text='Proof (Lean 4): the checksum code (hand model of checksum.rs, u32 accumulator with checked additions, while-loop finalisation by well-founded recursion) equals the RFC 1071 one\'s-complement checksum over pseudo-header ++ data with the field cleared, for every data string up to 65535 octets, every ignore index (incl. the odd-tail case) and every address pair; no accumulator overflow in that range; the datagram with the checksum inserted verifies (sums to 0xFFFF). Correspondence: all six entry points on every length 0..1024 x 4 patterns x 16 address pairs, model vs implementation, plus an independent RFC 1071 receiver as oracle. The empty-input deviation (returns 0, RFC gives 0xFFFF) is a recorded known finding F13.',
   design='§6 C13', technique='Lean 4 proof (refinement of a hand model to an RFC 1071 spec) + differential correspondence',
   note='trusted: Lean kernel; hand model validated only by the correspondence run; Spec/Rfc1071.lean; the Paris checksum swap on the wire is decided under C11')
STRAT_NOTE = 'trusted: Lean kernel; hand model Model/Strategy.lean validated only by the correspondence run (script set-up: real Strategy + TracerState via verif-hooks, scripted Network, virtual clock); constants regenerated from the source; CfgOk mirrors Builder::build (compared with the real builder under C16)'
CLAIMS['C03'] = dict(text='Proof (Lean 4) over a hand model of the tracing state machine tied to strategy.rs by correspondence: for every builder-accepted configuration, every reachable state (any environment, unboundedly many rounds, wrap-around included) and every response, a response that is not genuine (does not name an awaited probe allocated in the current round, fails validation or carries a foreign trace id) leaves the state identical up to the clock; duplicates, previous-round, never-sent, foreign-id and wrong-tuple responses are each shown non-genuine; removing all non-genuine responses from an environment does not change the run.', design='§6 C03', technique='Lean 4 invariant proof over hand model + differential correspondence (scripted network)', note=STRAT_NOTE + '; the pid+i lemma of the CLI is outside the model (DESIGN F15)')
CLAIMS['C06'] = dict(text='Proof (Lean 4): send guard, TTL progression without gaps or repeats, re-issued TCP probes keep their TTL, restart at first-ttl, liveness of the first probe of every round, for all configurations 1 <= first-ttl <= 254, max-ttl <= 254, max-inflight >= 1 and all environments; tied to strategy.rs by correspondence and an implementation-level monitor of the send_probe log.', design='§6 C06', technique='Lean 4 invariant proof over hand model + differential correspondence', note=STRAT_NOTE)
CLAIMS['C07'] = dict(text='Proof (Lean 4): from a proved invariant of the state machine (all initial sequences 0..=64511, both max-sequence regimes, unboundedly many rounds): consecutive sequence numbers below 65535, at most 512 per round, every buffer index < 512, no panic in any environment (capacity exhaustion is an error value), forward-or-restart across rounds, Dublin/IPv6 payload fits the buffer, separation of consecutive rounds that together use <= 512 numbers (all ICMP/UDP runs); the residual TCP corner is exhibited by a witness and recorded as known finding F7.', design='§6 C07', technique='Lean 4 invariant proof over hand model with source-translated constants + differential correspondence', note=STRAT_NOTE)
CLAIMS['C08'] = dict(text='Proof (Lean 4): a round is published in an iteration iff the timing policy holds at the clock reading after the wait (all combinations of min/max/grace incl. zero), the reason names the trigger, the next round starts at the publish instant, a round is never held open once max-round-duration is exceeded; tied to strategy.rs by correspondence under a virtual clock and an independent recomputation of the policy in the harness.', design='§6 C08', technique='Lean 4 proof over hand model + differential correspondence under a virtual clock', note=STRAT_NOTE + '; that one wait is bounded by the read timeout is an assumption about Socket::is_readable')
CLAIMS['C09'] = dict(text='Proof (Lean 4): round ids advance exactly on publication; with a round limit n a run returns Ok only after exactly n published rounds and never publishes more; the loop never panics; fatal send/receive outcomes end the run with the error; a transient send failure marks exactly the just-allocated slot failed; address-in-use re-issues under the next sequence number with the same TTL and marks the abandoned slot skipped; for every environment.', design='§6 C09', technique='Lean 4 induction over runs of a hand model + differential correspondence with fault scripts', note=STRAT_NOTE + '; the mapping of errno values to ProbeFailed/AddressInUse in net/ipv4.rs, net/ipv6.rs and the visibility of the error in snapshots (Tracer::handle_error) are decided under C11/C20')
CLAIMS['C14'] = dict(text='Proof (Lean 4): round trip of every RFC 4884 compliant or legacy Time Exceeded / Destination Unreachable message (ICMPv4 and v6, any original datagram whose length attribute fits, any object list, MPLS stacks of n >= 0 entries) through a hand model of the split / iterator / conversion code: payload, extension and exact objects, labels, EXP/S/TTL in order; for arbitrary bytes: quoted part is a prefix, extension a suffix, no overlap, inside the message, object/member counts bounded, iterators are total functions, no panic. Correspondence on every length octet x boundary body lengths x object shapes + corruption stream.', design='§6 C14', technique='Lean 4 proof (round trip against a hand-written RFC 4884/4950 encoder) + differential correspondence', note='trusted: Lean kernel; hand model Model/Ext.lean validated by the correspondence run; Spec/Rfc4884.lean')
REASONS = {}
def main():
    props = [json.loads(l) for l in open(os.path.join(V, 'properties.jsonl'))]
    commits = subprocess.run(['git', '-C', '/repo', 'log', '--format=%h %s'], capture_output=True, text=True).stdout.splitlines()
    hooks = [c.split()[0] for c in commits if c.split(' ', 1)[1].startswith('verif-hooks')]
    checks, na = [], []
    for p in props:
        i = p['id']
        if i in CLAIMS:
            c = CLAIMS[i]
            checks.append(dict(property_id=i, quick_cmd=f'./check {i} --tier quick', thorough_cmd=f'./check {i} --tier thorough',
                evidence_file=f'/verif/evidence/{i}.json', replay_cmd_template=f'./check {i} --replay {{path}}', engine='lean',
                level_claimed=dict(category='proof', text=c['text'], design_ref=c['design']), level_note=c['note'], technique=c['technique']))
        else:
            na.append(dict(property_id=i, reason=REASONS.get(i, 'not claimed yet: the Lean model, theorems and correspondence check for this property are planned (DESIGN.md §6) but not built at this commit; the technique applies')))
    m = dict(version=1, setup_cmd='./setup.sh',
      hooks=dict(guard='cargo feature verif-hooks (trippy-core; trippy-tui when its hooks land)',
        enable='harness/Cargo.toml depends on the /repo crates by path with features = ["verif-hooks"]',
        baseline_off_cmd='cd /repo && cargo nextest run --workspace --no-fail-fast --offline',
        source_commits=hooks, add_only=True),
      engines=[dict(name='lean', path='lean', serves_properties=sorted(CLAIMS),
        kind_free_text='Lean 4 theorems over models tied to the source by translation (tools/rs2lean) and/or correspondence (harness/ + lean/Driver.lean); driver ./check')],
      checks=checks, notes='Design, trusted base, findings and detection map: DESIGN.md. Known findings: known_findings.json.', not_applicable=na)
    json.dump(m, open(os.path.join(V, 'MANIFEST.json'), 'w'), indent=1)
    print(len(checks), 'claimed', len(na), 'not claimed')
if __name__ == '__main__':
    main()
