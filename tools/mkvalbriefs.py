#!/usr/bin/env python3
"""usage: tools/mkenvbriefs.py <dir, e.g. /tmp/w11>   (value-centred variant of mkfilebriefs.py)
File-centred wave: one scratch worktree and one brief per source file (group); the agent may break ANY of the
twenty properties, but only by a change inside its file(s).  The brief lists all property texts and one-line
summaries of the earlier seeded changes that touched those files."""
import json, subprocess, os, glob, sys, re
W = sys.argv[1]
os.makedirs(W, exist_ok=True)
props = [json.loads(l) for l in open('/verif/properties.jsonl')]
touched = {}
for f in sorted(glob.glob('/verif/seeded/C*/patch.diff')):
    d = os.path.dirname(f)
    m = json.load(open(os.path.join(d, 'meta.json')))
    for mm in re.finditer(r'^\+\+\+ b/(\S+)', open(f).read(), re.M):
        touched.setdefault(mm.group(1), []).append(f"[{m['property']}] " + m['summary'][:220].replace('\n', ' '))
groups = {
 'api': "the code is used as a *library*, not through the `trip` command line: `trippy_core::Builder` with its setters and defaults, `Tracer::run / run_with / spawn / spawn_with / snapshot / clear`, the `State` / `Hop` accessors (including per-flow ones), several `Tracer`s in one process, configurations the command line would never produce (but the builder accepts)",
 'rtt': "follow the *times* of a probe end to end: `sent` and `received` time stamps, the round start, the durations derived from them (last / best / worst / mean / standard deviation / jitter of a hop, the round's duration), through the strategy, the published round, the state and every place that shows them",
 'ident': "follow the *identity* of a probe end to end: sequence number, trace identifier, source and destination port, the round id and the TTL, from the strategy through the bytes on the wire, the quotation in an ICMP error, the decoded response, the matching against the round's buffer, the published round and the hop table",
 'responder': "follow *who answered and how* end to end: the responder's address, the ICMP type and code (time exceeded / destination unreachable / echo reply, TCP reset / accept), the target test, the path length, the hop's address list and counts, the target hop, and every view or report that shows them",
 'payload': "follow the *extra data* of a response end to end: ICMP multi-part extensions (MPLS label stacks, unknown objects), the type-of-service octet, the quoted UDP checksum and the NAT flag derived from it, through parsing, the published round, the state and the display",
 'flowid': "follow *flows* end to end: the per-round flow (the responders by position), the flow registry, flow identifiers, per-flow hop tables and counts, the selected flow in the TUI, the flows / dot reports",
}
ptext = '\n\n'.join(f"### {p['id']} — {p.get('title','')}\n{p.get('statement', p.get('text',''))}" for p in props)
for g, envdesc in groups.items():
    files = []
    wt = f'{W}/{g}'
    if not os.path.exists(wt):
        subprocess.run(['git', '-C', '/repo', 'worktree', 'add', '--detach', wt, 'HEAD'], capture_output=True)
    prev = '\n'.join(f'  - {f}: {u}' for f, us in sorted(touched.items()) for u in us[-2:])
    brief = f"""# Brief: seed a realistic property-breaking change into trippy — value-centred

You work in a scratch git worktree of the Rust project trippy (fujiapple852/trippy, a traceroute/ping
TUI tool) at `{wt}`. Work ONLY inside `{wt}` and your output directory `{wt}-out/`.
Do NOT read, list or touch `/verif` or `/repo` (both are out of bounds). Never use pkill/killall and never
use `git stash` (other jobs share the machine and the repository's stash). The sandbox has no network:
always pass `--offline` to cargo and use `CARGO_TARGET_DIR={wt}/target`. The existing test suite is
`cargo nextest run -j 4 --build-jobs 4 --workspace --no-fail-fast --offline` (730 tests, all pass on the
unchanged tree; a cold build takes a few minutes).

## Your thread through the code

{envdesc}

## Your task

Below are twenty semantic properties the unchanged code satisfies. Produce ONE realistic change, anywhere in the
non-test code of the workspace, of the kind a maintainer could make in a refactor or "tidy-up" (off-by-one, wrong
operand, swapped arguments, dropped or merged branch, reordered statements, a condition on the wrong variable, a
stale value reused, a boundary moved, a field lost in a struct update, a default changed, ...) that BREAKS AT LEAST
ONE of the properties — your choice which — while the code still COMPILES and ALL 730 existing tests still PASS
unedited. Follow the thread described above through the code and make your change somewhere ALONG it — preferably far from
where the value is produced (a conversion, a copy into another structure, an accessor, a place where two such values sit
next to each other and can be confused). The breakage must need something specific to manifest (an unusual but legal
input, a particular sequence of events, a particular configuration), not something ordinary use would expose at once.

Earlier exercises already made the following changes (the last two per file are listed); choose a DIFFERENT function and mechanism
(do not re-create any of these, nor a close variant):
{prev}

Rules:
- Change only non-test source, not `#[cfg(test)]` modules, not items guarded by
  the cargo feature `verif-hooks`, no new dependencies. Keep the change small (a few lines).
- The change must really violate the property as stated, on the real code path a user of the tool/library goes
  through.
- Write a demonstration: a new test (or small program) that FAILS with your change and PASSES without it.
  Put it in `{wt}-out/demo/` as a standalone cargo package with an empty `[workspace]` table, path
  dependencies on `{wt}/crates/...` (copy `{wt}/Cargo.lock` next to its Cargo.toml so it resolves offline;
  use only crates already in that lock file). If you need crate-private items you may enable the existing
  cargo feature `verif-hooks` of trippy-core / trippy-tui (it only re-exports private items under
  `trippy_core::verif` / `trippy_tui::verif`; look at the source to see what is there).
- Verify yourself, and say so in meta.json: (1) with the change applied: the whole 730-test suite passes
  and the demo fails; (2) without the change: the demo passes. To test without your change save `git diff` to a
  file in your output directory and use `git apply -R` / `git apply`.

Deliverables in `{wt}-out/`:
- `patch.diff`  — `git diff` of your source change against HEAD (must apply with `git apply` on a clean tree)
- `demo/`       — the demonstration package (no target directory inside)
- `meta.json`   — {{"property": "<the id, e.g. C07, of the property you broke (the main one if several)>", "summary": "<what was
  changed, file and function>", "needs": "<what is needed for it to manifest>", "demo_cmd": "<shell command that runs the
  demo, starting with cd {wt}-out/demo>", "fails_with": "<the failure message with the change>", "verified":
  {{"suite_with_change": "730 passed", "demo_with_change": "fails", "demo_without_change": "passes"}}}}

When you are done, leave the worktree `{wt}` with your change APPLIED (so it can be re-checked), and
reply with a short summary (the property, the change, what it needs to manifest, and the three verification results).

## The twenty properties

{ptext}
"""
    open(f'{W}/{g}.brief.md', 'w').write(brief)
print(len(groups))
