#!/usr/bin/env python3
"""Mutation testing of the checks (a tool for *testing the machinery*, not one of the registered checks).

    mutate.py plan  <n-per-file> <seed>      -> prints a JSON plan of mutants (file, line, before, after)
    mutate.py run   <plan.json> <worker-id> <n-workers> <outdir>

For every mutant: apply it in a scratch worktree of /repo (one per worker, build caches reused),
keep it only if the code still compiles and the *entire* existing test suite still passes (the
brief's notion of a realistic breaking change), then run the checks of the properties anchored in
that file against the worktree from a scratch copy of /verif.  Result lines:
    <file>:<line> <operator> tests=pass|fail|nocompile checks=<ID:V|ok,...>
A mutant that passes the tests and is reported by no check is a *survivor*: either an equivalent
mutant or a blind spot worth a directed scenario.
"""
import sys, os, re, json, random, subprocess, shutil, time

REPO = '/repo'
FILES = {
    'crates/trippy-core/src/strategy.rs': ['C03', 'C06', 'C07', 'C08', 'C09', 'C10', 'C01', 'C19', 'C02'],
    'crates/trippy-core/src/state.rs': ['C05', 'C10', 'C15', 'C19'],
    'crates/trippy-core/src/flows.rs': ['C15'],
    'crates/trippy-core/src/net/ipv4.rs': ['C11', 'C02', 'C04', 'C09'],
    'crates/trippy-core/src/net/ipv6.rs': ['C11', 'C02', 'C04', 'C09'],
    'crates/trippy-core/src/net/channel.rs': ['C09', 'C11', 'C04', 'C02'],
    'crates/trippy-core/src/net/common.rs': ['C09', 'C11'],
    'crates/trippy-core/src/net/extension.rs': ['C14', 'C02'],
    'crates/trippy-core/src/builder.rs': ['C16'],
    'crates/trippy-core/src/tracer.rs': ['C20', 'C16', 'C09'],
    'crates/trippy-core/src/probe.rs': ['C01', 'C03'],
    'crates/trippy-packet/src/checksum.rs': ['C13', 'C11'],
    'crates/trippy-packet/src/icmp_extension.rs': ['C14', 'C04', 'C12'],
    'crates/trippy-packet/src/icmpv4.rs': ['C12', 'C14', 'C04'],
    'crates/trippy-packet/src/icmpv6.rs': ['C12', 'C14', 'C04'],
    'crates/trippy-packet/src/ipv4.rs': ['C12', 'C04', 'C11'],
    'crates/trippy-packet/src/ipv6.rs': ['C12', 'C04', 'C11'],
    'crates/trippy-packet/src/udp.rs': ['C12', 'C04', 'C11'],
    'crates/trippy-packet/src/tcp.rs': ['C12', 'C04'],
    'crates/trippy-tui/src/frontend/tui_app.rs': ['C17', 'C18'],
    'crates/trippy-tui/src/frontend/render/table.rs': ['C18', 'C17'],
    'crates/trippy-tui/src/frontend/render/header.rs': ['C18', 'C17'],
    'crates/trippy-tui/src/frontend/columns.rs': ['C17'],
    'crates/trippy-tui/src/config.rs': ['C16'],
    'crates/trippy-tui/src/app.rs': ['C03', 'C16'],
}

# the glue covered since the ninth wave (MUT_SET=glue)
FILES_GLUE = {
    'crates/trippy-tui/src/report/table.rs': ['C10', 'C05'],
    'crates/trippy-tui/src/report/csv.rs': ['C10', 'C05'],
    'crates/trippy-tui/src/report/json.rs': ['C10', 'C05'],
    'crates/trippy-tui/src/report/types.rs': ['C10', 'C05', 'C19'],
    'crates/trippy-tui/src/config/theme.rs': ['C16'],
    'crates/trippy-tui/src/config/binding.rs': ['C16'],
    'crates/trippy-tui/src/config/file.rs': ['C16'],
    'crates/trippy-tui/src/geoip.rs': ['C18'],
    'crates/trippy-tui/src/frontend/render/world.rs': ['C18', 'C17'],
    'crates/trippy-core/src/net/platform/unix.rs': ['C09', 'C16', 'C10'],
    'crates/trippy-core/src/net/source.rs': ['C09', 'C16'],
    'crates/trippy-core/src/error.rs': ['C09'],
    'crates/trippy-privilege/src/lib.rs': ['C16'],
    'crates/trippy-core/src/types.rs': ['C17', 'C06'],
    'crates/trippy-dns/src/lazy_resolver.rs': ['C17', 'C18'],
    'crates/trippy-packet/src/lib.rs': ['C02', 'C12'],
}
if os.environ.get('MUT_SET') == 'glue':
    FILES = FILES_GLUE

OPS = [
    ('rel', r' <= ', ' < '), ('rel', r' < ', ' <= '), ('rel', r' >= ', ' > '), ('rel', r' > ', ' >= '),
    ('eq', r' == ', ' != '), ('eq', r' != ', ' == '),
    ('bool', r' && ', ' || '), ('bool', r' \|\| ', ' && '),
    ('arith', r' \+ 1\b', ' + 2'), ('arith', r' - 1\b', ' - 0'), ('arith', r' \+ 1\b', ' + 0'),
    ('arith', r' \+ ', ' - '), ('arith', r' - ', ' + '), ('arith', r' \* ', ' + '),
    ('minmax', r'\.min\(', '.max('), ('minmax', r'\.max\(', '.min('),
    ('sat', r'saturating_sub', 'wrapping_sub'), ('sat', r'wrapping_add', 'saturating_add'),
    ('shift', r' << ', ' >> '), ('shift', r' >> ', ' << '), ('bit', r' & ', ' | '), ('bit', r' \| ', ' & '),
    ('const', r'\b0x([0-9a-f]{2})\b', None), ('const', r'(?<![.\w])(\d+)\b(?!\.\d)', None),
    ('bool-lit', r'\btrue\b', 'false'), ('bool-lit', r'\bfalse\b', 'true'),
    ('neg', r'if !', 'if '), ('some', r'\.is_some\(\)', '.is_none()'), ('some', r'\.is_none\(\)', '.is_some()'),
    ('del', None, None),
]


def code_lines(path):
    src = open(path).read().split('\n')
    end = len(src)
    for i, l in enumerate(src):
        if l.strip().startswith('#[cfg(test)]'):
            end = i
            break
    out = []
    skip_hooks = 0
    for i in range(end):
        l = src[i]
        s = l.strip()
        if 'verif-hooks' in l or 'mod verif' in l:
            skip_hooks = 1
        if s.startswith('//') or s.startswith('#[') or s.startswith('use ') or 'tracing::' in l or 'instrument' in l:
            continue
        if 'verif_' in l or 'debug_assert' in l:
            continue
        out.append(i)
    return src, out


def mutants_for(path, rng, n):
    src, idx = code_lines(os.path.join(REPO, path))
    cands = []
    for i in idx:
        l = src[i]
        for name, pat, rep in OPS:
            if name == 'del':
                s = l.strip()
                if re.match(r'^(self\.|[a-z_]+\.)[a-z_.]+(\(.*\))?( = .*)?;$', s) and not s.startswith('let '):
                    cands.append((i, 'del', l, re.sub(r'\S.*$', '();', l) if False else l[:len(l) - len(l.lstrip())] + '// deleted'))
                continue
            for m in re.finditer(pat, l):
                if rep is None:
                    tok = m.group(1)
                    try:
                        v = int(tok, 16) if pat.startswith(r'\b0x') else int(tok)
                    except ValueError:
                        continue
                    if pat.startswith(r'\b0x'):
                        new = '0x%02x' % ((v + 1) % 256)
                    else:
                        if v > 100000:
                            continue
                        new = str(v + 1)
                    after = l[:m.start()] + new + l[m.end():]
                else:
                    after = l[:m.start()] + rep + l[m.end():]
                if after != l:
                    cands.append((i, name, l, after))
    rng.shuffle(cands)
    # round-robin over operator classes so that constants do not dominate
    by = {}
    for c in cands:
        by.setdefault(c[1], []).append(c)
    order = []
    while any(by.values()):
        for k in sorted(by):
            if by[k]:
                order.append(by[k].pop())
    seen, out = set(), []
    for c in order:
        if c[0] in seen:
            continue
        seen.add(c[0])
        out.append(dict(file=path, line=c[0] + 1, op=c[1], before=c[2], after=c[3]))
        if len(out) >= n:
            break
    return out


def plan(n, seed):
    rng = random.Random(seed)
    allm = []
    for f in FILES:
        allm += mutants_for(f, rng, n)
    rng.shuffle(allm)
    json.dump(allm, sys.stdout, indent=0)


def sh(cmd, cwd=None, timeout=1800, env=None):
    try:
        p = subprocess.run(cmd, shell=True, cwd=cwd, capture_output=True, text=True, timeout=timeout, env=env)
        return p.returncode, p.stdout + p.stderr
    except subprocess.TimeoutExpired:
        return 124, 'timeout'


def run(planf, wid, nw, outdir):
    muts = json.load(open(planf))
    os.makedirs(outdir, exist_ok=True)
    iso = f'/tmp/mut.{wid}'
    wt, v = iso + '/repo', iso + '/verif'
    if not os.path.exists(wt):
        os.makedirs(iso, exist_ok=True)
        sh(f'git -C /repo worktree add --detach {wt} HEAD')
        sh(f'rsync -a --exclude .build/run --exclude .git --exclude replays --exclude seeded /verif/ {v}/')
        sh(f"sed -i 's#/repo/crates#{wt}/crates#' {v}/harness/Cargo.toml")
        sh(f"sed -i 's#/verif/.build/cargo#{v}/.build/cargo#' {v}/harness/.cargo/config.toml")
    env = dict(os.environ, CARGO_TARGET_DIR=iso + '/target', CARGO_NET_OFFLINE='true', VERIF_REPO=wt)
    log = open(os.path.join(outdir, f'results.{wid}.txt'), 'a')
    for k, m in enumerate(muts):
        if k % nw != wid:
            continue
        path = os.path.join(wt, m['file'])
        src = open(path).read().split('\n')
        if src[m['line'] - 1] != m['before']:
            continue
        src[m['line'] - 1] = m['after']
        open(path, 'w').write('\n'.join(src))
        t0 = time.time()
        rc, out = sh('cargo nextest run --workspace --no-fail-fast --offline 2>&1 | tail -5', cwd=wt, timeout=1500, env=env)
        if 'error: could not compile' in out or 'error[' in out or 'could not compile' in out:
            tests = 'nocompile'
        elif re.search(r'\b730 passed', out):
            tests = 'pass'
        elif rc == 124:
            tests = 'timeout'
        else:
            tests = 'fail'
        checks = []
        if tests == 'pass':
            for pid in FILES[m['file']]:
                cenv = {k: x for k, x in env.items() if k != 'CARGO_TARGET_DIR'}
                rc, o = sh(f'./check {pid} 2>&1 | grep -E "^(VIOLATION|OK)" | head -1', cwd=v, timeout=1500, env=cenv)
                r = 'V' if 'VIOLATION' in o else ('ok' if o.startswith('OK') else '?')
                if 'no-failing-input-found' in o:
                    r = 'Vn'
                checks.append(f'{pid}:{r}')
                if r.startswith('V') and os.environ.get('MUT_FIRST', '1') == '1':
                    break
        log.write(f"{m['file']}:{m['line']} {m['op']} tests={tests} checks={','.join(checks)} t={int(time.time() - t0)}s | {m['before'].strip()[:70]} => {m['after'].strip()[:70]}\n")
        log.flush()
        sh(f'git -C {wt} checkout -- .')
    log.close()


if __name__ == '__main__':
    if sys.argv[1] == 'plan':
        plan(int(sys.argv[2]), int(sys.argv[3]))
    else:
        run(sys.argv[2], int(sys.argv[3]), int(sys.argv[4]), sys.argv[5])
