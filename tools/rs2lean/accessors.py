#!/usr/bin/env python3
"""Translate the field accessors of trippy-packet into Lean 4 definitions.

For every `impl … XPacket` in the given source files this emits, per `get_*` / `set_*`
function whose body lies in the supported expression language, a Lean definition
`Pkt.<file>.<Type>.<fn>` over `Buf` with panicking reads/writes (`rd`/`wr`/`wrN`), plus the
`u8`-backed enums (`From<u8>` / `id()`), the module constants and `minimum_packet_size`.

Fails closed: a `get_*`/`set_*` it cannot translate is reported in the output JSON under
`untranslated` (the C12 check treats that as an unmet obligation unless the function is in the
hand-modelled allow list).
"""
import sys, os, json, re
sys.path.insert(0, os.path.dirname(__file__))
from rsparse import *

FILES = ['ipv4', 'ipv6', 'udp', 'tcp', 'icmpv4', 'icmpv6', 'icmp_extension']
PKT_SRC = 'crates/trippy-packet/src'

LEAN_TY = {'u8': 'UInt8', 'u16': 'UInt16', 'u32': 'UInt32'}
WIDTH = {'u8': 8, 'u16': 16, 'u32': 32}


class Ctx:
    def __init__(self):
        self.enums = {}      # name -> dict(variants=[(name, has_payload)], id_arms, from_arms)
        self.newtypes = {}   # name -> underlying ('u8')
        self.types = []      # list of dict(ns, name, min, consts, fns)


def const_eval(e, consts):
    k = e[0]
    if k == 'num':
        return e[1]
    if k == 'path':
        name = e[1][-1]
        if len(e[1]) == 1 and name in consts:
            return consts[name]
        raise Unsupported(f'unknown constant {e[1]}')
    if k == 'paren':
        return const_eval(e[1], consts)
    if k == 'bin' and e[1] in ('+', '-', '*'):
        a, b = const_eval(e[2], consts), const_eval(e[3], consts)
        return {'+': a + b, '-': a - b, '*': a * b}[e[1]]
    if k == 'call' and e[1][0] == 'path' and e[1][1][-1] == 'minimum_packet_size':
        if 'minimum_packet_size' in consts:
            return consts['minimum_packet_size']
    if k == 'cast':
        return const_eval(e[1], consts)
    raise Unsupported(f'not a constant: {e}')


def lit(n, ty):
    return f'({n}:{LEAN_TY[ty]})'


class FnTx:
    """translate one accessor body"""
    def __init__(self, ctx, tinfo, fn, fnsigs):
        self.ctx = ctx
        self.t = tinfo
        self.fn = fn
        self.sigs = fnsigs   # name -> (param_ty or None, ret_ty)
        self.lines = []
        self.nt = 0
        self.env = {}        # local name -> ('scalar', term, ty) | ('array', [terms], elem_ty)
        self.callees = set()
        self.writes = False

    def fresh(self):
        n = f't{self.nt}'
        self.nt += 1
        return n

    def norm_ty(self, toks):
        s = ''.join(toks)
        s = s.replace("&'a", '').replace('&', '')
        if s in ('u8', 'u16', 'u32'):
            return s
        if s == 'Ipv4Addr':
            return 'bytes4'
        if s == 'Ipv6Addr':
            return 'bytes16'
        if s in self.ctx.enums:
            return 'enum:' + s
        if s in self.ctx.newtypes:
            return self.ctx.newtypes[s]
        raise Unsupported(f'type {s}')

    # ---- expression translation: returns (kind, payload, ty)
    #   ('scalar', term, ty)  ('array', [terms], 'u8')  ('bytes', term, 'bytesN')
    def is_buf(self, e):
        return e == ('field', ('path', ['self']), 'buf')

    def off(self, e):
        return const_eval(e, self.t['consts'])

    def tx(self, e, want=None):
        k = e[0]
        if k == 'paren':
            return self.tx(e[1], want)
        if k == 'num':
            ty = e[2] or want
            if ty not in LEAN_TY:
                raise Unsupported(f'cannot type literal {e[1]} (want={want})')
            if e[1] >= 2 ** WIDTH[ty]:
                raise Unsupported('literal out of range')
            return ('scalar', lit(e[1], ty), ty)
        if k == 'path':
            if len(e[1]) == 1 and e[1][0] in self.env:
                return self.env[e[1][0]]
            raise Unsupported(f'path {e[1]}')
        if k == 'deref':
            return self.tx(e[1], want)
        if k == 'field':
            # newtype projection `val.0`
            if e[2] == '0':
                r = self.tx(e[1], want)
                return r
            raise Unsupported(f'field {e[2]}')
        if k == 'index':
            base = self.tx(e[1])
            if base[0] != 'array':
                raise Unsupported('index of non-array')
            i = const_eval(e[2], {})
            if not (0 <= i < len(base[1])):
                raise Unsupported('array index out of range')
            return ('scalar', base[1][i], base[2])
        if k == 'array':
            elems = [self.tx(x, 'u8') for x in e[1]]
            for x in elems:
                if x[0] != 'scalar' or x[2] != 'u8':
                    raise Unsupported('array of non-u8')
            return ('array', [x[1] for x in elems], 'u8')
        if k == 'bin':
            op, l, r = e[1], e[2], e[3]
            if op in ('&', '|', '^'):
                # type from whichever side is not a bare literal
                if l[0] == 'num' and l[2] is None:
                    rr = self.tx(r, want); ll = self.tx(l, rr[2])
                else:
                    ll = self.tx(l, want); rr = self.tx(r, ll[2])
                if ll[0] != 'scalar' or rr[0] != 'scalar' or ll[2] != rr[2]:
                    raise Unsupported('bitop type mismatch')
                lop = {'&': '&&&', '|': '|||', '^': '^^^'}[op]
                return ('scalar', f'({ll[1]} {lop} {rr[1]})', ll[2])
            if op in ('<<', '>>'):
                ll = self.tx(l, want)
                if ll[0] != 'scalar':
                    raise Unsupported('shift of non-scalar')
                amt = const_eval(r, {})
                if not (0 <= amt < WIDTH[ll[2]]):
                    raise Unsupported('shift amount out of range (would panic)')
                lop = '<<<' if op == '<<' else '>>>'
                return ('scalar', f'({ll[1]} {lop} {lit(amt, ll[2])})', ll[2])
            raise Unsupported(f'binary operator {op}')
        if k == 'method':
            recv, name, args = e[1], e[2], e[3]
            if self.is_buf(recv):
                if name == 'read':
                    o = self.off(args[0])
                    t = self.fresh()
                    self.lines.append(f'let {t} ← rd b {o}')
                    return ('scalar', t, 'u8')
                if name == 'get_bytes':
                    n = want if isinstance(want, int) else None
                    if n is None:
                        raise Unsupported('get_bytes without known N')
                    o = self.off(args[0])
                    ts = []
                    for i in range(n):
                        t = self.fresh()
                        self.lines.append(f'let {t} ← rd b {o + i}')
                        ts.append(t)
                    return ('array', ts, 'u8')
                raise Unsupported(f'buf.{name}')
            if recv == ('path', ['self']):
                if name in self.sigs and name.startswith('get_'):
                    pty, rty = self.sigs[name]
                    t = self.fresh()
                    self.lines.append(f'let {t} ← {name} b')
                    self.callees.add(name)
                    if rty.startswith('bytes'):
                        return ('bytes', t, rty)
                    return ('scalar', t, rty)
                raise Unsupported(f'self.{name}')
            if name == 'to_be_bytes':
                r = self.tx(recv)
                if r[0] != 'scalar':
                    raise Unsupported('to_be_bytes of non-scalar')
                if r[2] == 'u16':
                    return ('array', [f'(hi16 {r[1]})', f'(lo16 {r[1]})'], 'u8')
                if r[2] == 'u32':
                    return ('array', [f'(b32_{i} {r[1]})' for i in range(4)], 'u8')
                raise Unsupported('to_be_bytes type')
            if name == 'octets':
                r = self.tx(recv)
                if r[0] != 'bytes':
                    raise Unsupported('octets of non-address')
                return r
            if name == 'id':
                r = self.tx(recv)
                if r[0] == 'scalar' and r[2].startswith('enum:'):
                    en = r[2][5:]
                    return ('scalar', f'({en}.id {r[1]})', 'u8')
                raise Unsupported('id() of non-enum')
            raise Unsupported(f'method {name}')
        if k == 'call':
            f = e[1]
            if f[0] != 'path':
                raise Unsupported('call of non-path')
            segs = f[1]
            if segs[-1] == 'from_be_bytes' and segs[0] in ('u16', 'u32'):
                n = {'u16': 2, 'u32': 4}[segs[0]]
                a = self.tx(e[2][0], n)
                if a[0] != 'array' or len(a[1]) != n:
                    raise Unsupported('from_be_bytes arity')
                fn = 'be16' if n == 2 else 'be32'
                return ('scalar', f'({fn} ' + ' '.join(a[1]) + ')', segs[0])
            if segs[-1] == 'from' and segs[0] in ('Ipv4Addr', 'Ipv6Addr'):
                n = 4 if segs[0] == 'Ipv4Addr' else 16
                a = self.tx(e[2][0], n)
                if a[0] != 'array' or len(a[1]) != n:
                    raise Unsupported('addr from arity')
                return ('bytes', '[' + ', '.join(a[1]) + ']', f'bytes{n}')
            if segs[-1] == 'from' and segs[0] in self.ctx.enums:
                a = self.tx(e[2][0], 'u8')
                if a[0] != 'scalar' or a[2] != 'u8':
                    raise Unsupported('enum from non-u8')
                return ('scalar', f'({segs[0]}.from_u8 {a[1]})', 'enum:' + segs[0])
            if segs[-1] == 'from' and segs[0] in self.ctx.newtypes:
                return self.tx(e[2][0], self.ctx.newtypes[segs[0]])
            raise Unsupported(f'call {segs}')
        raise Unsupported(f'expression kind {k}')

    def stmt(self, s):
        k = s[0]
        if k == 'let':
            pat = [t for t in s[1][1] if t != 'mut']
            if s[3] is None:
                raise Unsupported('let pattern')
            if len(pat) >= 3 and pat[0] == '[' and pat[-1] == ']':
                # `let [a, _, c] = <array>;`: every name is bound to its element
                names = [t for t in pat[1:-1] if t != ',']
                v = self.tx(s[3])
                if v[0] != 'array' or len(v[1]) != len(names) or not all(re.fullmatch(r'_|[a-z_][a-z0-9_]*', n) for n in names):
                    raise Unsupported('array pattern')
                for n, x in zip(names, v[1]):
                    if n != '_':
                        self.env[n] = ('scalar', x, v[2])
                return
            if len(pat) != 1:
                raise Unsupported('let pattern')
            v = self.tx(s[3])
            self.env[pat[0]] = v
            return
        if k == 'assign':
            op, lhs, rhs = s[1], s[2], s[3]
            if op != '=':
                raise Unsupported('compound assignment')
            if (lhs[0] == 'deref' and lhs[1][0] == 'method' and self.is_buf(lhs[1][1])
                    and lhs[1][2] == 'write'):
                v = self.tx(rhs, 'u8')
                if v[0] != 'scalar' or v[2] != 'u8':
                    raise Unsupported('write of non-u8')
                o = self.off(lhs[1][3][0])
                self.lines.append(f'let b ← wr b {o} {v[1]}')
                self.writes = True
                return
            raise Unsupported('assignment target')
        if k == 'expr':
            e = s[1]
            if e[0] == 'method' and self.is_buf(e[1]) and e[2] == 'set_bytes':
                o = self.off(e[3][0])
                v = self.tx(e[3][1])
                if v[0] == 'array':
                    self.lines.append(f'let b ← wrN b {o} [' + ', '.join(v[1]) + ']')
                elif v[0] == 'bytes':
                    self.lines.append(f'let b ← wrN b {o} {v[1]}')
                else:
                    raise Unsupported('set_bytes arg')
                self.writes = True
                return
            if e[0] == 'method' and e[1] == ('path', ['self']) and e[2].startswith('set_') \
                    and e[2] in self.sigs:
                pty, _ = self.sigs[e[2]]
                v = self.tx(e[3][0], pty if pty in LEAN_TY else None)
                self.lines.append(f'let b ← {e[2]} b {v[1]}')
                self.callees.add(e[2])
                self.writes = True
                return
            raise Unsupported('statement expression')
        raise Unsupported(f'statement {k}')


def lean_ty(ty):
    if ty in LEAN_TY:
        return LEAN_TY[ty]
    if ty.startswith('bytes'):
        return '(List UInt8)'
    if ty.startswith('enum:'):
        return ty[5:]
    raise Unsupported(ty)


def collect_enums(items, ctx):
    all_items = list(walk_items(items))
    # numeric constants of the file: an enum's `id()` / `From<u8>` may name them instead of literals
    ctx.num_consts = {}
    for it in all_items:
        if it['kind'] == 'const':
            try:
                v = const_eval(parse_expr_tokens(it['expr']), ctx.num_consts)
                if isinstance(v, int):
                    ctx.num_consts[it['name']] = v
            except Unsupported:
                pass
    for it in all_items:
        if it['kind'] == 'struct' and it['body'] and it['body'][0] == 'tuple':
            inner = [t for _, t in it['body'][1]]
            inner = [t for t in inner if t != 'pub']
            if inner in (['u8'],):
                ctx.newtypes[it['name']] = 'u8'
        if it['kind'] == 'enum':
            toks = [t for _, t in it['body'][1]]
            variants = []
            i = 0
            while i < len(toks):
                if toks[i] == '#':
                    # attribute
                    i += 1
                    depth = 0
                    while True:
                        if toks[i] == '[': depth += 1
                        if toks[i] == ']':
                            depth -= 1
                            if depth == 0:
                                i += 1
                                break
                        i += 1
                    continue
                name = toks[i]; i += 1
                payload = None
                if i < len(toks) and toks[i] == '(':
                    j = i + 1
                    inner = []
                    while toks[j] != ')':
                        inner.append(toks[j]); j += 1
                    payload = ''.join(inner)
                    i = j + 1
                if i < len(toks) and toks[i] == ',':
                    i += 1
                variants.append((name, payload))
            ctx.enums.setdefault(it['name'], {})['variants'] = variants
    # id() and From<u8>
    for it in all_items:
        if it['kind'] != 'impl':
            continue
        hdr = it['header']
        if len(hdr) == 1 and hdr[0] in ctx.enums:
            for f in it['items']:
                if f['kind'] == 'fn' and f['name'] == 'id':
                    body = parse_body(f['body'])
                    ctx.enums[hdr[0]]['id'] = body
        if len(hdr) >= 5 and hdr[0] == 'From' and hdr[1] == '<' and hdr[2] == 'u8' and hdr[-1] in ctx.enums:
            for f in it['items']:
                if f['kind'] == 'fn' and f['name'] == 'from':
                    ctx.enums[hdr[-1]]['from'] = (parse_body(f['body']), [t for _, t in f['params']][0])


def emit_enum(name, info, num_consts=None):
    num_consts = num_consts or {}
    vs = info['variants']
    if 'id' not in info or 'from' not in info:
        return None
    if not all(p in (None, 'u8') for _, p in vs):
        return None
    out = [f'inductive {name} where']
    for v, p in vs:
        out.append(f'  | {v}' + (' (id : UInt8)' if p else ''))
    out.append('  deriving DecidableEq, Repr')
    # id
    idb = info['id']
    m = idb[2]
    if m is None or m[0] != 'match':
        raise Unsupported(f'{name}.id shape')
    out.append(f'def {name}.id : {name} → UInt8')
    for pat, guard, body in m[2]:
        if guard:
            raise Unsupported('guard in id')
        if pat[0] != 'Self' or pat[1] != '::':
            raise Unsupported(f'id pattern {pat}')
        v = pat[2]
        if len(pat) == 3:
            if body[0] == 'path' and len(body[1]) == 1 and body[1][0] in num_consts:
                body = ('num', num_consts[body[1][0]], None)
            if body[0] != 'num':
                raise Unsupported('id arm body')
            out.append(f'  | .{v} => {body[1]}')
        else:
            var = pat[4]
            b = body
            if b[0] == 'deref':
                b = b[1]
            if b != ('path', [var]):
                raise Unsupported('id payload arm')
            out.append(f'  | .{v} {var} => {var}')
    # from
    fb, pname = info['from']
    m = fb[2]
    if m is None or m[0] != 'match' or m[1] != ('path', [pname]):
        raise Unsupported(f'{name}.from shape')
    out.append(f'def {name}.from_u8 (x : UInt8) : {name} :=')
    chain = ''
    closed = False
    for pat, guard, body in m[2]:
        if guard:
            raise Unsupported('guard in from')
        if len(pat) == 1 and (re.match(r'^(0x)?[0-9a-fA-F]+$', pat[0]) or pat[0] in num_consts):
            n = num_consts[pat[0]] if pat[0] in num_consts else int(pat[0], 0)
            if body[0] != 'path' or body[1][0] != 'Self':
                raise Unsupported('from arm body')
            chain += f'  if x = {n} then .{body[1][1]} else\n'
        elif len(pat) == 1:
            # binding catch-all
            if body[0] == 'call' and body[1] == ('path', ['Self', body[1][1][1]]) and body[2] == [('path', [pat[0]])]:
                chain += f'  .{body[1][1][1]} x'
                closed = True
                break
            raise Unsupported('from catch-all body')
        else:
            raise Unsupported(f'from pattern {pat}')
    if not closed:
        raise Unsupported('from without catch-all')
    out.append(chain)
    return '\n'.join(out)


def translate_file(repo, stem, ctx, report):
    path = os.path.join(repo, PKT_SRC, stem + '.rs')
    items = parse_file(path)
    out = []

    def visit(items, consts):
        consts = dict(consts)
        for it in items:
            if it['kind'] == 'const':
                try:
                    consts[it['name']] = const_eval(parse_expr_tokens(it['expr']), consts)
                except Unsupported:
                    pass
        for it in items:
            if it['kind'] == 'mod':
                visit(it['items'], consts)
            if it['kind'] == 'impl':
                hdr = [h for h in it['header'] if h not in ("'a", "'_", '<', '>')]
                if len(hdr) != 1 or not hdr[0].endswith('Packet'):
                    continue
                tname = hdr[0]
                fns = [f for f in it['items'] if f['kind'] == 'fn']
                tconsts = dict(consts)
                for f in fns:
                    if f['name'] == 'minimum_packet_size':
                        b = parse_body(f['body'])
                        tconsts['minimum_packet_size'] = const_eval(b[2], consts)
                tinfo = dict(ns=f'{stem}.{tname}', name=tname, consts=tconsts, modpath=list(it['path']),
                             min=tconsts.get('minimum_packet_size'))
                # signatures
                sigs = {}
                for f in fns:
                    if not (f['name'].startswith('get_') or f['name'].startswith('set_')):
                        continue
                    ptoks = [t for _, t in f['params']]
                    # params: & self | & mut self , name : type
                    pty = None
                    if ',' in ptoks:
                        rest = ptoks[ptoks.index(',') + 1:]
                        rest = [t for t in rest if t != ',']
                        if ':' in rest:
                            pname = rest[0]
                            tx0 = FnTx(ctx, tinfo, f, {})
                            try:
                                pty = (pname, tx0.norm_ty(rest[rest.index(':') + 1:]))
                            except Unsupported:
                                pty = (pname, None)
                    rty = None
                    if f['ret']:
                        try:
                            rty = FnTx(ctx, tinfo, f, {}).norm_ty(f['ret'])
                        except Unsupported:
                            rty = None
                    sigs[f['name']] = (pty[1] if pty else None, rty)
                    f['_pname'] = pty[0] if pty else None
                defs = []
                for f in fns:
                    n = f['name']
                    if not (n.startswith('get_') or n.startswith('set_')):
                        continue
                    full = f'{stem}.{tname}.{n}'
                    try:
                        pty, rty = sigs[n]
                        tx = FnTx(ctx, tinfo, f, sigs)
                        body = parse_body(f['body'])
                        if n.startswith('get_'):
                            if rty is None:
                                raise Unsupported('return type')
                            if f['_pname']:
                                raise Unsupported('getter with parameter')
                            for s in body[1]:
                                tx.stmt(s)
                            if body[2] is None:
                                raise Unsupported('getter without tail expression')
                            want = None
                            v = tx.tx(body[2], rty if rty in LEAN_TY else None)
                            if tx.writes:
                                raise Unsupported('getter writes to the buffer')
                            if v[2] != rty:
                                raise Unsupported(f'getter result type {v[2]} != {rty}')
                            lines = tx.lines + [f'pure {v[1]}']
                            sig = f'def {n} (b : Buf) : R {lean_ty(rty)} := do'
                        else:
                            if pty is None:
                                raise Unsupported('setter parameter type')
                            tx.env[f['_pname']] = (('bytes' if pty.startswith('bytes') else 'scalar'),
                                                   f['_pname'], pty)
                            for s in body[1]:
                                tx.stmt(s)
                            if body[2] is not None:
                                tx.stmt(('expr', body[2]))
                            lines = tx.lines + ['pure b']
                            sig = f'def {n} (b : Buf) ({f["_pname"]} : {lean_ty(pty)}) : R Buf := do'
                        defs.append(dict(name=n, text=sig + '\n' + '\n'.join('  ' + l for l in lines),
                                         callees=sorted(tx.callees), param=pty, ret=rty))
                        report['translated'].append(full)
                    except Unsupported as ex:
                        report['untranslated'].append(dict(fn=full, reason=str(ex), is_pub=bool(f.get('is_pub'))))
                # constructors: `if packet.len() >= Self::minimum_packet_size() { Ok(..Mutable|Immutable..) } else { Err(..) }`
                for f in fns:
                    if f['name'] not in ('new', 'new_view'):
                        continue
                    full = f'{stem}.{tname}.{f["name"]}'
                    try:
                        body = parse_body(f['body'])
                        # guard-clause spelling: `if c { return Err(..); } Ok(..)` is `if c { Err(..) } else { Ok(..) }`
                        if len(body[1]) == 1 and body[1][0][0] == 'expr' and body[1][0][1][0] == 'if' and body[1][0][1][3] is None \
                                and body[2] is not None and body[2][0] == 'call':
                            g = body[1][0][1]
                            gb = g[2]
                            ret = None
                            if len(gb[1]) == 1 and gb[2] is None and gb[1][0][0] == 'expr' and gb[1][0][1][0] == 'return':
                                ret = gb[1][0][1][1]
                            elif not gb[1] and gb[2] is not None and gb[2][0] == 'return':
                                ret = gb[2][1]
                            if ret is None:
                                raise Unsupported('constructor shape')
                            body = ('block', [], ('if', g[1], ('block', [], ret), ('block', [], body[2])))
                        if body[1] or body[2] is None or body[2][0] != 'if':
                            raise Unsupported('constructor shape')
                        _, cond, th, el = body[2]
                        if cond[0] != 'bin' or cond[1] not in ('>=', '>', '<=', '<', '==', '!='):
                            raise Unsupported('constructor condition')
                        def side(e):
                            if e == ('method', ('path', ['packet']), 'len', [], None):
                                return 'len'
                            if e[0] == 'call' and e[1][0] == 'path' and e[1][1][-1] == 'minimum_packet_size' and not e[2]:
                                return 'minSize'
                            if e[0] == 'num':
                                return str(e[1])
                            raise Unsupported('constructor operand')
                        l, r = side(cond[2]), side(cond[3])
                        want = 'Mutable' if f['name'] == 'new' else 'Immutable'
                        def is_ok(blk):
                            t = blk[2]
                            return (not blk[1] and t is not None and t[0] == 'call' and t[1] == ('path', ['Ok'])
                                    and t[2][0][0] == 'struct' and t[2][0][2][0][0] == 'buf'
                                    and t[2][0][2][0][1][0] == 'call'
                                    and t[2][0][2][0][1][1] == ('path', ['Buffer', want])
                                    and t[2][0][2][0][1][2] == [('path', ['packet'])])
                        def is_err(blk):
                            t = blk[2]
                            return (not blk[1] and t is not None and t[0] == 'call' and t[1] == ('path', ['Err']))
                        if is_ok(th) and el is not None and is_err(el):
                            pol = ''
                        elif is_err(th) and el is not None and is_ok(el):
                            pol = '!'
                        else:
                            raise Unsupported('constructor branches')
                        lop = {'>=': '≥', '>': '>', '<=': '≤', '<': '<', '==': '=', '!=': '≠'}[cond[1]]
                        defs.append(dict(name=f['name'] + '_accepts',
                                         text=f'def {f["name"]}_accepts (len : Nat) : Bool := {pol}decide ({l} {lop} {r})',
                                         callees=[], param=None, ret='bool'))
                        report['translated'].append(full)
                    except (Unsupported, IndexError, TypeError) as ex:
                        report['untranslated'].append(dict(fn=full, reason=str(ex)))
                tinfo['defs'] = defs
                # public functions that are not field accessors must be hand-modelled (C04 / C14); private
                # helpers are no obligation of their own: a public function that uses one is either translated
                # (the helper inlined or refused) or hand-modelled and compared with the real function
                tinfo['other_fns'] = [f['name'] for f in fns
                                      if not (f['name'].startswith('get_') or f['name'].startswith('set_'))
                                      and f.get('is_pub', True)]
                tinfo['private_fns'] = [f['name'] for f in fns if not f.get('is_pub', True)]
                ctx.types.append(tinfo)

    visit(items, {})
    return items


def main():
    repo = sys.argv[1]
    outdir = sys.argv[2]
    ctx = Ctx()
    report = dict(translated=[], untranslated=[], enums=[], types=[])
    # enums live in lib.rs and the packet files
    all_items = {}
    for stem in ['lib'] + FILES:
        items = parse_file(os.path.join(repo, PKT_SRC, stem + '.rs'))
        all_items[stem] = items
    # enums may have the same name in different files (IcmpType v4/v6): namespace by file
    out = ['-- GENERATED by tools/rs2lean/accessors.py from /repo/crates/trippy-packet/src — do not edit',
           'import TrippyVerif.Model.Basic', 'namespace TV.Pkt', '']
    for stem in ['lib'] + FILES:
        ectx = Ctx()
        collect_enums(all_items[stem], ectx)
        emitted = []
        for name, info in ectx.enums.items():
            try:
                txt = emit_enum(name, info, getattr(ectx, 'num_consts', {}))
            except Unsupported as ex:
                report['untranslated'].append(dict(fn=f'{stem}.{name}', reason=str(ex)))
                txt = None
            if txt:
                emitted.append((name, txt))
        ns = 'lib' if stem == 'lib' else stem
        if emitted:
            out.append(f'namespace {ns}')
            for name, txt in emitted:
                out.append(txt)
                report['enums'].append(f'{ns}.{name}')
            out.append(f'end {ns}')
            out.append('')
        all_items[stem + '#enums'] = ectx
    for stem in FILES:
        ctx2 = Ctx()
        # visible enums: own file + lib
        for src in ('lib', stem):
            e = all_items[src + '#enums']
            for k, v in e.enums.items():
                if 'id' in v and 'from' in v:
                    ctx2.enums[k] = v
            ctx2.newtypes.update(e.newtypes)
        translate_file(repo, stem, ctx2, report)
        out.append(f'namespace {stem}')
        if stem != 'lib':
            out.append('open TV.Pkt.lib')
        for t in ctx2.types:
            out.append(f'namespace {t["name"]}')
            out.append(f'def minSize : Nat := {t["min"]}')
            for d in t['defs']:
                out.append(d['text'])
            out.append(f'end {t["name"]}')
            report['types'].append(dict(ns=t['ns'], min=t['min'], modpath=t['modpath'],
                                        fns=[dict(name=d['name'], callees=d['callees'], param=d['param'],
                                                  ret=d['ret']) for d in t['defs']],
                                        other_fns=t['other_fns'], consts=t['consts']))
        out.append(f'end {stem}')
        out.append('')
    libsrc = open(os.path.join(repo, PKT_SRC, 'lib.rs')).read()
    report['forbid_unsafe'] = bool(re.search(r'#!\[forbid\(unsafe_code\)\]', libsrc))
    out.append('end TV.Pkt')
    text = '\n'.join(out) + '\n'
    os.makedirs(outdir, exist_ok=True)
    p = os.path.join(outdir, 'Pkt.lean')
    if not os.path.exists(p) or open(p).read() != text:
        open(p, 'w').write(text)
    json.dump(report, open(os.path.join(outdir, 'Pkt.report.json'), 'w'), indent=1)
    print(f'accessors: {len(report["translated"])} translated, {len(report["untranslated"])} untranslated, '
          f'{len(report["enums"])} enums')


if __name__ == '__main__':
    main()
