#!/usr/bin/env python3
"""C16 part A: option layering (CLI over file over default).

  python3 tools/rs2lean/cfglayer.py /repo /verif/lean/TrippyVerif/Gen

Translates, from /repo/crates/trippy-tui/src/config.rs,
  (a) `cfg_layer`, `cfg_layer_opt`, `cfg_layer_bool_flag` (their `match (fst, snd) { .. }` bodies, arm
      order and patterns preserved) into Lean functions (`Gen/CfgLayer.lean`, namespace `TV.CfgGen`);
  (b) the wiring table of `TrippyConfig::build_config`: one row per
      `let x = cfg_layer*(args.A, cfg_file_<section>.B, DEFAULT..)`, where `x` ends up in the final
      `Self { .. }` literal, every other use of `args.*` / `cfg_file_*.*`, and the derived values;
  (c) the documented defaults: the `DEFAULT_*` constants of config/constants.rs and of the core
      `defaults` module with the option each one documents ("The default value for `opt`."), and the
      `[default: ..]` texts of the command-line help (config/cmd.rs).
Fails closed: anything not understood is listed under `problems` in `Gen/CfgLayer.report.json`
(an unmet obligation) and the exit code is 1.
"""
import sys, os, json, re
sys.path.insert(0, os.path.dirname(__file__))
from rsparse import *          # tokenizer, item parser, ExprParser, Unsupported
import rsparse

CONFIG_RS = 'crates/trippy-tui/src/config.rs'
CMD_RS = 'crates/trippy-tui/src/config/cmd.rs'
FILE_RS = 'crates/trippy-tui/src/config/file.rs'
CONSTS_RS = 'crates/trippy-tui/src/config/constants.rs'
CORE_CFG_RS = 'crates/trippy-core/src/config.rs'
LAYER_FNS = ('cfg_layer', 'cfg_layer_opt', 'cfg_layer_bool_flag')
LEAN_KEYWORDS = {'def', 'default', 'end', 'fun', 'match', 'with', 'then', 'else', 'if', 'let', 'in', 'do',
                 'section', 'namespace', 'open', 'at', 'from', 'have', 'show', 'structure', 'where', 'instance'}


# ------------------------------------------------------------------ parser extension (local copy)
class ExprParser2(ExprParser):
    """`ExprParser` with a turbofish reader that understands `>>` closing two levels
    (`.collect::<HashMap<A, B>>()`); rsparse.py itself is not modified."""

    def _turbofish(self):
        c = self.c
        tf = []
        depth = 0
        while True:
            v = c.next()
            if v == '<':
                depth += 1
            elif v == '>':
                depth -= 1
            elif v == '>>':
                depth -= 2
            tf.append(v)
            if depth <= 0:
                break
        return ' '.join(tf[1:-1])

    def parse_primary(self, nostruct=False):
        # closures: `|a, &b| expr`, `|| expr`, `move |x| { .. }` -> ('closure', parameter tokens, body)
        c = self.c
        t = c.peek()
        if t in ('|', '||', 'move'):
            if t == 'move':
                c.next()
                t = c.peek()
            params = []
            if t == '||':
                c.next()
            else:
                c.next()
                while c.peek() != '|':
                    params.append(c.next())
                c.next()
            if c.peek() == '->':
                raise Unsupported('closure with a return type')
            body = self.parse_expr()
            return ('closure', ('pat', params), body)
        return super().parse_primary(nostruct)

    def parse_postfix(self, nostruct):
        c = self.c
        e = self.parse_primary(nostruct)
        while True:
            t = c.peek()
            if t == '.':
                c.next()
                name = c.next()
                if name == 'await':
                    raise Unsupported('await')
                turbofish = None
                if c.peek() == '::':
                    c.next()
                    turbofish = self._turbofish()
                if c.peek() == '(':
                    args = self.parse_args()
                    e = ('method', e, name, args, turbofish)
                else:
                    e = ('field', e, name)
            elif t == '(':
                args = self.parse_args()
                e = ('call', e, args)
            elif t == '[':
                c.next()
                idx = self.parse_expr()
                c.expect(']')
                e = ('index', e, idx)
            elif t == '?':
                c.next()
                e = ('try', e)
            else:
                return e


def parse_body2(body_toks):
    p = ExprParser2(body_toks)
    b = p.parse_block_body()
    if not p.c.eof():
        raise Unsupported(f'trailing tokens in body: {p.c.peek()!r}')
    return b


# ------------------------------------------------------------------ helpers
def unparse(e):
    """Rust-ish text of an expression (only the forms that occur as default expressions)"""
    k = e[0]
    if k == 'path':
        return '::'.join(e[1])
    if k == 'num':
        return str(e[1])
    if k == 'str' or k == 'char':
        return e[1]
    if k == 'call':
        return unparse(e[1]) + '(' + ', '.join(unparse(a) for a in e[2]) + ')'
    if k == 'method':
        return unparse(e[1]) + '.' + e[2] + '(' + ', '.join(unparse(a) for a in e[3]) + ')'
    if k == 'field':
        return unparse(e[1]) + '.' + e[2]
    if k == 'paren':
        return '(' + unparse(e[1]) + ')'
    raise Unsupported(f'default expression form {k}')


def subexprs(e):
    """all sub-terms of an AST value (tuples/lists are walked generically)"""
    if isinstance(e, tuple):
        yield e
        for x in e:
            yield from subexprs(x)
    elif isinstance(e, list):
        for x in e:
            yield from subexprs(x)


def field_of(e, roots):
    """e == root.name for a plain variable root in `roots` -> (root, name)"""
    if e[0] == 'field' and e[1][0] == 'path' and len(e[1][1]) == 1 and e[1][1][0] in roots:
        return e[1][1][0], e[2]
    return None


def lean_str(s):
    return '"' + s.replace('\\', '\\\\').replace('"', '\\"') + '"'


def lean_ident(s):
    return s + '_' if s in LEAN_KEYWORDS else s


# ------------------------------------------------------------------ (a) the layering functions
def split_top(toks, sep):
    out, cur, depth = [], [], 0
    for t in toks:
        if t in OPEN:
            depth += 1
        elif t in OPEN.values():
            depth -= 1
        if depth == 0 and t == sep:
            out.append(cur)
            cur = []
        else:
            cur.append(t)
    out.append(cur)
    return out


def lean_type(toks, tyvars):
    s = ' '.join(toks)
    if s == 'bool':
        return 'Bool'
    if len(toks) == 1 and re.fullmatch(r'[A-Z]', toks[0]):
        tyvars.add(toks[0])
        return 'α'
    m = re.fullmatch(r'Option < (.+) >', s)
    if m:
        inner = lean_type(m.group(1).split(' '), tyvars)
        return f'Option {inner}'
    raise Unsupported(f'parameter type {s!r}')


def lean_pat_atom(toks):
    """one component pattern: `_`, `true`, `false`, `None`, `Some(x)`, a variable"""
    if toks == ['_']:
        return '_'
    if toks in (['true'], ['false']):
        return toks[0]
    if toks == ['None']:
        return 'none'
    if len(toks) == 4 and toks[0] == 'Some' and toks[1] == '(' and toks[3] == ')' and re.fullmatch(r'[a-z_][a-z0-9_]*', toks[2]):
        return f'some {lean_ident(toks[2])}'
    raise Unsupported(f'pattern {" ".join(toks)!r}')


def lean_pattern(toks, arity):
    """`(p, q) | (p', q')` -> ['p, q', "p', q'"]"""
    alts = []
    for alt in split_top(toks, '|'):
        if not alt or alt[0] != '(' or alt[-1] != ')':
            raise Unsupported(f'pattern alternative {" ".join(alt)!r}')
        comps = split_top(alt[1:-1], ',')
        if len(comps) != arity:
            raise Unsupported(f'pattern arity {" ".join(alt)!r}')
        alts.append(', '.join(lean_pat_atom(c) for c in comps))
    return alts


def lean_body_expr(e, scope):
    """an expression of a layering function in Lean: parameters and pattern variables, `None`,
    `Some(x)`, `true` / `false`, calls of the other layering functions, the `Option` combinators
    `or` / `unwrap_or` (and their closure forms when the closure takes no argument), `if` on a
    boolean or an `if let`, nested `match`, parentheses and blocks with plain `let` statements"""
    k = e[0]
    if k == 'paren':
        return lean_body_expr(e[1], scope)
    if k == 'block':
        _, stmts, tail = e
        scope = set(scope)
        lets = []
        for st in stmts:
            if st[0] == 'let' and len(st) >= 4 and st[3] is not None and isinstance(st[1], list) and len(st[1]) == 1 and re.fullmatch(r'[a-z_][a-z0-9_]*', st[1][0]):
                lets.append(f'let {lean_ident(st[1][0])} := {lean_body_expr(st[3], scope)}; ')
                scope.add(st[1][0])
            else:
                raise Unsupported(f'statement {st}')
        if tail is None:
            raise Unsupported('block without a value')
        return '(' + ''.join(lets) + lean_body_expr(tail, scope) + ')'
    if k == 'path' and len(e[1]) == 1:
        n = e[1][0]
        if n in ('true', 'false'):
            return n
        if n == 'None':
            return 'none'
        if n in scope:
            return lean_ident(n)
        raise Unsupported(f'unbound name {n}')
    if k == 'call' and e[1] == ('path', ['Some']) and len(e[2]) == 1:
        return f'(some {lean_body_expr(e[2][0], scope)})'
    if k == 'call' and e[1][0] == 'path' and len(e[1][1]) == 1 and e[1][1][0] in LAYER_FNS:
        return '(' + e[1][1][0] + ''.join(' ' + lean_body_expr(a, scope) for a in e[2]) + ')'
    if k == 'method':
        _, recv, name, args, _tf = e
        r = lean_body_expr(recv, scope)
        if name in ('or', 'unwrap_or') and len(args) == 1:
            a = lean_body_expr(args[0], scope)
            return f'(Option.or {r} {a})' if name == 'or' else f'(Option.getD {r} {a})'
        if name in ('is_some', 'is_none') and not args:
            return f'(Option.{"isSome" if name == "is_some" else "isNone"} {r})'
        raise Unsupported(f'method .{name}()')
    if k == 'un' and e[1] == '!':
        return f'(!{lean_body_expr(e[2], scope)})'
    if k == 'if':
        _, cond, th, el = e
        if el is None:
            raise Unsupported('if without else')
        if cond[0] == 'iflet':
            _, pat, scrut = cond
            sc = lean_body_expr(scrut, scope)
            alts = lean_pattern(pat, 1)
            return (f'(match {sc} with | ' + ' | '.join(alts) + ' => ' + lean_body_expr(th, set(scope) | pattern_vars(pat)) +
                    ' | _ => ' + lean_body_expr(el, scope) + ')')
        return f'(if {lean_body_expr(cond, scope)} then {lean_body_expr(th, scope)} else {lean_body_expr(el, scope)})'
    if k == 'match':
        _, scrut, arms = e
        scruts = scrut[1] if scrut[0] == 'tuple' else [scrut]
        out = '(match ' + ', '.join(lean_body_expr(x, scope) for x in scruts) + ' with'
        for pat, guard, rhs in arms:
            if guard is not None:
                raise Unsupported('match guard')
            alts = lean_pattern(pat, len(scruts))
            out += ' | ' + ' | '.join(alts) + ' => ' + lean_body_expr(rhs, set(scope) | pattern_vars(pat))
        return out + ')'
    raise Unsupported(f'expression {e}')


def pattern_vars(toks):
    return {t for i, t in enumerate(toks) if re.fullmatch(r'[a-z_][a-z0-9_]*', t) and t not in ('true', 'false', '_')}


def translate_layer_fn(it):
    params = []
    for p in split_top([t for _, t in it['params']], ','):
        if not p:
            continue
        if ':' not in p:
            raise Unsupported(f'parameter {" ".join(p)!r}')
        i = p.index(':')
        if i != 1:
            raise Unsupported(f'parameter pattern {" ".join(p)!r}')
        params.append((p[0], p[2:]))
    tyvars = set()
    lparams = [(n, lean_type(ty, tyvars)) for n, ty in params]
    ret = lean_type(it['ret'], tyvars)
    if len(tyvars) > 1:
        raise Unsupported(f'more than one type parameter: {tyvars}')
    body = parse_body2(it['body'])
    pnames = [n for n, _ in params]
    arm_report = []
    if not body[1] and body[2] is not None and body[2][0] == 'match':
        # the usual shape: one `match` over a tuple of parameters, printed arm by arm
        _, scrut, arms = body[2]
        scruts = scrut[1] if scrut[0] == 'tuple' else [scrut]
        lines = ['  match ' + ', '.join(lean_body_expr(x, set(pnames)) for x in scruts) + ' with']
        for pat, guard, rhs in arms:
            if guard is not None:
                raise Unsupported('match guard')
            alts = lean_pattern(pat, len(scruts))
            scope = set(pnames) | pattern_vars(pat)
            r = lean_body_expr(rhs, scope)
            lines.append('  | ' + ' | '.join(alts) + ' => ' + r)
            arm_report.append(dict(pattern=' '.join(pat), body=r))
    else:
        r = lean_body_expr(body, set(pnames))
        lines = ['  ' + r]
        arm_report.append(dict(pattern='(expression)', body=r))
    binder = '{α : Type} ' if tyvars else ''
    sig = ' '.join(f'({lean_ident(n)} : {t})' for n, t in lparams)
    text = [f'/-- `{it["name"]}` ({CONFIG_RS}) -/',
            f'def {it["name"]} {binder}{sig} : {ret} :='] + lines
    return '\n'.join(text), dict(name=it['name'], params=[(n, ' '.join(t)) for n, t in params],
                                 ret=' '.join(it['ret']), arms=arm_report)


# ------------------------------------------------------------------ (b) wiring of build_config
def default_const_of(e):
    """the unique `..::DEFAULT_*` path mentioned by a default expression"""
    found = []
    for s in subexprs(e):
        if s and s[0] == 'path' and isinstance(s[1], list) and s[1] and isinstance(s[1][-1], str) and s[1][-1].startswith('DEFAULT_'):
            found.append('::'.join(s[1]))
    if len(found) != 1:
        raise Unsupported(f'default expression names {len(found)} DEFAULT_ constants: {unparse(e)}')
    return found[0]


FREE_FNS = set()      # free functions of config.rs (filled in by main)


def names_in(e):
    """variable names (single-segment lower-case paths) mentioned in an expression; the callee of a call is
    not a variable when it names a free function of the file (functions live in another namespace: a local
    may well carry the same name, `let dns_resolve_method = dns_resolve_method(..)`)"""
    out = []
    callees = set()
    for s in subexprs(e):
        if s and s[0] == 'call' and s[1] and s[1][0] == 'path' and isinstance(s[1][1], list) and len(s[1][1]) == 1 \
                and s[1][1][0] in FREE_FNS:
            callees.add(id(s[1]))
    for s in subexprs(e):
        if s and s[0] == 'path' and isinstance(s[1], list) and len(s[1]) == 1 and isinstance(s[1][0], str) \
                and re.fullmatch(r'[a-z_][a-z0-9_]*', s[1][0]) and id(s) not in callees:
            out.append(s[1][0])
    return out


def pattern_bound(pat_toks):
    return {t for t in pat_toks if re.fullmatch(r'[a-z_][a-z0-9_]*', t) and t not in ('true', 'false', '_', 'mut', 'ref')}


def bound_in(e):
    """names bound by match-arm patterns / inner lets inside an expression (not free variables)"""
    out = set()
    for s in subexprs(e):
        if s and s[0] == 'match':
            for pat, _, _ in s[2]:
                out |= pattern_bound(pat)
        if s and s[0] == 'let' and len(s) == 4 and isinstance(s[1], tuple) and s[1][0] == 'pat':
            out |= pattern_bound(s[1][1])
        if s and s[0] == 'closure' and isinstance(s[1], tuple) and s[1][0] == 'pat':
            out |= pattern_bound([t for t in s[1][1] if t not in ('&', ',', ':')])
    return out


def extract_wiring(fn, problems):
    body = parse_body2(fn['body'])
    stmts, tail = body[1], body[2]
    # section variables: `let cfg_file_X = cfg_file.S.unwrap_or_default();`
    sections = {}
    lets = []            # (index, name, init)
    for i, st in enumerate(stmts):
        if st[0] != 'let':
            continue
        pat = st[1][1]
        if len(pat) != 1:
            problems.append(f'build_config: let pattern {" ".join(pat)!r} not a plain variable')
            continue
        name, init = pat[0], st[3]
        lets.append((i, name, init))
        if init and init[0] == 'method' and init[2] == 'unwrap_or_default' and not init[3]:
            f = field_of(init[1], {'cfg_file'})
            if f:
                sections[name] = f[1]
    rows = []
    row_at = {}          # statement index -> row
    for i, name, init in lets:
        if not (init and init[0] == 'call' and init[1][0] == 'path' and init[1][1][-1] in LAYER_FNS):
            # a layering call hidden inside a larger expression is not understood
            if init and any(s and s[0] == 'path' and isinstance(s[1], list) and s[1] and s[1][-1] in LAYER_FNS
                            for s in subexprs(init)):
                problems.append(f'build_config: `let {name}` uses a layering function inside a larger expression')
            continue
        kind = init[1][1][-1]
        args = init[2]
        want = 2 if kind == 'cfg_layer_opt' else 3
        if len(init[1][1]) != 1 or len(args) != want:
            problems.append(f'build_config: `let {name} = {kind}(..)` has {len(args)} arguments')
            continue
        a = field_of(args[0], {'args'})
        b = field_of(args[1], set(sections))
        if not a or not b:
            problems.append(f'build_config: `let {name} = {kind}(..)`: inputs are not `args.A, cfg_file_<section>.B`')
            continue
        try:
            dconst = default_const_of(args[2]) if want == 3 else ''
            dtext = unparse(args[2]) if want == 3 else ''
        except Unsupported as ex:
            problems.append(f'build_config: `let {name}`: {ex}')
            continue
        row = dict(var=name, kind=kind, cli=a[1], section_var=b[0], section=sections[b[0]], file=b[1],
                   default_const=dconst, default_text=dtext, field='', stmt=i)
        rows.append(row)
        row_at[i] = row
    # stray statements that call a layering function without `let`
    for i, st in enumerate(stmts):
        if st[0] != 'let' and any(s and s[0] == 'path' and isinstance(s[1], list) and s[1] and s[1][-1] in LAYER_FNS
                                  for s in subexprs(st)):
            problems.append(f'build_config: statement {i} uses a layering function outside a `let`')
    # every use of args.* and cfg_file_<section>.* in the whole function
    args_uses, file_uses = {}, {}
    whole = (stmts, tail)
    for s in subexprs(whole):
        if s and s[0] == 'field':
            f = field_of(s, {'args'})
            if f:
                args_uses[f[1]] = args_uses.get(f[1], 0) + 1
            f = field_of(s, set(sections))
            if f:
                key = (sections[f[0]], f[1])
                file_uses[key] = file_uses.get(key, 0) + 1
    # whole-section uses (`&cfg_file_tui`, `(.., cfg_file_tui_bindings)`)
    section_whole_uses = {}
    field_recv = set()
    for s in subexprs(whole):
        if s and s[0] == 'field' and s[1][0] == 'path':
            field_recv.add(id(s[1]))
    for s in subexprs(whole):
        if s and s[0] == 'path' and isinstance(s[1], list) and len(s[1]) == 1 and s[1][0] in sections and id(s) not in field_recv:
            section_whole_uses[sections[s[1][0]]] = section_whole_uses.get(sections[s[1][0]], 0) + 1
    # the final literal
    if not (tail and tail[0] == 'call' and tail[1] == ('path', ['Ok']) and len(tail[2]) == 1 and tail[2][0][0] == 'struct'
            and tail[2][0][1] == ['Self']):
        problems.append('build_config: the tail expression is not `Ok(Self { .. })`')
        return rows, [], args_uses, file_uses, section_whole_uses, sections
    last_let = {}
    for i, name, init in lets:
        last_let[name] = (i, init)
    row_vars = {}
    for r in rows:
        row_vars.setdefault(r['var'], []).append(r)

    def resolve(name, before, seen):
        """inputs a variable depends on: row variables (by option), args fields, other names"""
        cands = [(i, init) for i, n, init in lets if n == name and i < before]
        if not cands:
            return {f'param:{name}'}
        i, init = cands[-1]
        if i in row_at:
            return {f'row:{row_at[i]["cli"]}'}
        deps = set()
        bound = bound_in(init)
        for s in subexprs(init):
            f = s and s[0] == 'field' and field_of(s, {'args'})
            if f:
                deps.add(f'args.{f[1]}')
        for n in names_in(init):
            if n in bound or n == 'args' or n in sections or (n, i) in seen:
                continue
            if n in sections:
                continue
            if any(n2 == n for _, n2, _ in lets) or n in ('pid', 'privilege', 'cfg_file'):
                deps |= resolve(n, i, seen | {(n, i)})
        for n in names_in(init):
            if n in sections and n not in bound:
                deps.add(f'section:{sections[n]}')
        return deps

    derived = []
    n_stmts = len(stmts)
    for fname, fexpr in tail[2][0][2]:
        if fname == '..':
            problems.append('build_config: `..` in the final literal')
            continue
        if fexpr[0] == 'path' and len(fexpr[1]) == 1:
            v = fexpr[1][0]
            if v in last_let and last_let[v][0] in row_at:
                row_at[last_let[v][0]]['field'] = fname
                continue
            deps = resolve(v, n_stmts, frozenset())
        else:
            deps = set()
            f = field_of(fexpr, {'args'})
            if f:
                deps.add(f'args.{f[1]}')
            else:
                problems.append(f'build_config: field `{fname}` of the final literal is not a variable or args field')
        derived.append(dict(field=fname, deps=sorted(deps)))
    return rows, derived, args_uses, file_uses, section_whole_uses, sections


# ------------------------------------------------------------------ (c) documented defaults
def documented_consts(path, modname, problems):
    """[(qualified name, option named by the doc comment, type, expression text)]"""
    src = open(path).read()
    out = []
    for m in re.finditer(r'((?:[ \t]*///[^\n]*\n)+)[ \t]*pub const (DEFAULT_[A-Z0-9_]+)\s*:\s*([^=]+?)\s*=\s*([^;]+);', src):
        doc, name, ty, expr = m.group(1), m.group(2), m.group(3), ' '.join(m.group(4).split())
        d = re.search(r'The default value for `([a-z0-9-]+)`', doc)
        opt = d.group(1) if d else ''
        out.append((f'{modname}::{name}', opt, ' '.join(ty.split()), expr))
    names = {n for n, _, _, _ in out}
    for m in re.finditer(r'pub const (DEFAULT_[A-Z0-9_]+)', src):
        if f'{modname}::{m.group(1)}' not in names:
            problems.append(f'{path}: constant {m.group(1)} not understood')
    return out


def kebab(s):
    return re.sub(r'(?<!^)(?=[A-Z])', '-', s).lower()


def norm_value(expr):
    """normal form of a default value, comparable with the `[default: ..]` help text"""
    expr = expr.strip()
    m = re.fullmatch(r'Duration::from_millis\((\d+)\)', expr)
    if m:
        return f'{int(m.group(1)) * 1000000}ns'
    m = re.fullmatch(r'Duration::from_secs\((\d+)\)', expr)
    if m:
        return f'{int(m.group(1)) * 1000000000}ns'
    if re.fullmatch(r'\d+', expr) or expr in ('true', 'false'):
        return expr
    m = re.fullmatch(r'"([^"]*)"', expr)
    if m:
        return m.group(1)
    m = re.fullmatch(r'[A-Za-z]+::([A-Za-z0-9]+)', expr)
    if m:
        return kebab(m.group(1))
    return None


def norm_doc(text):
    text = text.strip()
    m = re.fullmatch(r'(\d+)(ms|s)', text)
    if m:
        return f'{int(m.group(1)) * (1000000 if m.group(2) == "ms" else 1000000000)}ns'
    return text


def help_defaults(path, problems):
    """{field: text of `[default: ..]`} from the doc comments of `struct Args`"""
    src = open(path).read()
    m = re.search(r'pub struct Args \{(.*?)\n\}', src, re.S)
    if not m:
        problems.append('cmd.rs: struct Args not found')
        return {}, []
    out = {}
    fields = []
    doc = []
    for line in m.group(1).split('\n'):
        s = line.strip()
        if s.startswith('///'):
            doc.append(s[3:].strip())
        elif s.startswith('pub '):
            fm = re.match(r'pub ([a-z0-9_]+)\s*:', s)
            if not fm:
                problems.append(f'cmd.rs: field line {s!r}')
            else:
                fields.append(fm.group(1))
                d = re.search(r'\[default: ([^\]]+)\]', ' '.join(doc))
                if d:
                    out[fm.group(1)] = d.group(1)
            doc = []
    return out, fields


def struct_fields(path, struct, problems):
    src = open(path).read()
    m = re.search(r'pub struct ' + struct + r' \{(.*?)\n\}', src, re.S)
    if not m:
        problems.append(f'{path}: struct {struct} not found')
        return []
    return re.findall(r'pub ([a-z0-9_]+)\s*:', m.group(1))


def section_defaults(path, section_struct, problems):
    """`impl Default for Config<Section>`: [(section, field, DEFAULT constant or "" for None, expression text)]
    (what an absent `[section]` of the file contributes through `unwrap_or_default()`)"""
    items = parse_file(path)
    out = []
    for sec, struct in sorted(section_struct.items()):
        impl = [it for it in items if it['kind'] == 'impl' and it['header'] == ['Default', 'for', struct]]
        fn = impl and [f for f in impl[0]['items'] if f['kind'] == 'fn' and f['name'] == 'default']
        if not fn:
            problems.append(f'{path}: `impl Default for {struct}` not found')
            continue
        try:
            b = parse_body2(fn[0]['body'])
            if b[1] or not b[2] or b[2][0] != 'struct' or b[2][1] != ['Self']:
                raise Unsupported('body is not a single `Self { .. }` literal')
            for fname, e in b[2][2]:
                if e == ('path', ['None']):
                    out.append((sec, fname, '', 'None'))
                elif e[0] == 'call' and e[1] == ('path', ['Some']) and len(e[2]) == 1:
                    c = default_const_of(e[2][0])
                    out.append((sec, fname, '::'.join(c.split('::')[-2:]), unparse(e)))
                else:
                    raise Unsupported(f'field {fname}: {e}')
        except Unsupported as ex:
            problems.append(f'{path}: Default for {struct}: {ex}')
    return out


# ------------------------------------------------------------------ main
def main():
    repo, outdir = sys.argv[1], sys.argv[2]
    problems = []
    items = parse_file(os.path.join(repo, CONFIG_RS))
    fns = {}
    for it in walk_items(items):
        if it['kind'] == 'fn' and not it.get('is_test'):
            fns.setdefault(it['name'], it)
    FREE_FNS.update(fns)
    lean_fns, fn_report = [], []
    for name in LAYER_FNS:
        if name not in fns:
            problems.append(f'{name}: not found')
            continue
        try:
            text, rep = translate_layer_fn(fns[name])
            lean_fns.append((name, text))
            fn_report.append(rep)
        except Unsupported as ex:
            problems.append(f'{name}: {ex}')
    # a layering function may be written in terms of another one: definitions in dependency order
    ordered, pending = [], list(lean_fns)
    while pending:
        progress = False
        for name, text in list(pending):
            body = text.split(':=', 1)[1]
            if not any(re.search(r'\b' + other + r'\b', body) for other, _ in pending if other != name):
                ordered.append(text)
                pending.remove((name, text))
                progress = True
        if not progress:
            problems.append('layering functions call each other cyclically: ' + ', '.join(n for n, _ in pending))
            ordered += [t for _, t in pending]
            break
    lean_fns = ordered
    rows, derived, args_uses, file_uses, section_whole, sections = [], [], {}, {}, {}, {}
    if 'build_config' not in fns:
        problems.append('build_config: not found')
    else:
        try:
            rows, derived, args_uses, file_uses, section_whole, sections = extract_wiring(fns['build_config'], problems)
        except (Unsupported, IndexError) as ex:
            problems.append(f'build_config: {ex}')
    # every layered variable must reach the result, directly or through a derived value
    derived_rows = {d2[4:] for d in derived for d2 in d['deps'] if d2.startswith('row:')}
    for r in rows:
        if not r['field'] and r['cli'] not in derived_rows:
            problems.append(f'build_config: layered variable `{r["var"]}` does not reach the result')
    # the structs the table talks about
    help_def, args_fields = help_defaults(os.path.join(repo, CMD_RS), problems)
    SECTION_STRUCT = {'trippy': 'ConfigTrippy', 'strategy': 'ConfigStrategy', 'tui': 'ConfigTui', 'dns': 'ConfigDns',
                      'report': 'ConfigReport', 'bindings': 'ConfigBindings', 'theme_colors': 'ConfigThemeColors'}
    file_fields = {}
    for sec in set(sections.values()):
        if sec not in SECTION_STRUCT:
            problems.append(f'unknown config file section {sec}')
            continue
        file_fields[sec] = struct_fields(os.path.join(repo, FILE_RS), SECTION_STRUCT[sec], problems)
    for r in rows:
        if r['cli'] not in args_fields:
            problems.append(f'row {r["var"]}: `args.{r["cli"]}` is not a field of Args')
        if r['file'] not in file_fields.get(r['section'], []):
            problems.append(f'row {r["var"]}: `{r["file"]}` is not a field of section [{r["section"]}]')
    sec_defaults = section_defaults(os.path.join(repo, FILE_RS),
                                    {s: SECTION_STRUCT[s] for s in {r['section'] for r in rows} if s in SECTION_STRUCT}, problems)
    sd = {(s, f): c for s, f, c, _ in sec_defaults}
    for r in rows:
        if (r['section'], r['file']) not in sd:
            problems.append(f'row {r["var"]}: no default for [{r["section"]}].{r["file"]} in `impl Default`')
    # file options of the layered sections that no row reads (deprecated_* are rejected by validate_deprecated)
    layered_sections = sorted({r['section'] for r in rows})
    unread_file = [(sec, f) for sec in layered_sections for f in file_fields.get(sec, [])
                   if (sec, f) not in file_uses]
    # documented defaults
    consts = documented_consts(os.path.join(repo, CONSTS_RS), 'constants', problems) + \
        documented_consts(os.path.join(repo, CORE_CFG_RS), 'defaults', problems)
    const_by_name = {n: (opt, ty, ex) for n, opt, ty, ex in consts}
    doc_rows = []
    for r in rows:
        h = help_def.get(r['cli'], '')
        if r['kind'] == 'cfg_layer_opt':
            doc_rows.append(dict(cli=r['cli'], help=h, value='', agrees=True))
            continue
        c = const_by_name.get(r['default_const'])
        if c is None:
            problems.append(f'row {r["var"]}: default constant {r["default_const"]} not found')
            continue
        v = norm_value(c[2])
        # boolean flags: the default is `<CONST>.is_unprivileged()` / `.is_enabled()` of an enum constant
        if r['kind'] == 'cfg_layer_bool_flag' and v not in ('true', 'false'):
            v = {'privileged': 'false', 'unprivileged': 'true', 'disabled': 'false', 'enabled': 'true'}.get(v)
        if v is None:
            problems.append(f'row {r["var"]}: value of {r["default_const"]} = {c[2]} not understood')
            continue
        if not h:
            doc_rows.append(dict(cli=r['cli'], help='', value=v, agrees=r['kind'] == 'cfg_layer_bool_flag' and v == 'false'))
        else:
            doc_rows.append(dict(cli=r['cli'], help=h, value=v, agrees=norm_doc(h) == v))

    # ---------------------------------------------------------------- Lean output
    L = ['-- GENERATED by tools/rs2lean/cfglayer.py from /repo — do not edit',
         'namespace TV.CfgGen', '']
    L += ['\n\n'.join(lean_fns), '']
    L += ['/-- one `let var = kind(args.cli, cfg_file_<sect>.file, <default>)` of `TrippyConfig::build_config`;',
          '`field` is the field of the resulting `TrippyConfig` the variable is moved into ("" when it only',
          'feeds a derived value) -/',
          'structure Row where', '  var : String', '  kind : String', '  cli : String', '  sect : String',
          '  file : String', '  defaultConst : String', '  defaultText : String', '  field : String',
          '  deriving DecidableEq, Repr', '']
    L.append('def rows : List Row := [')
    L.append(',\n'.join(
        '  { var := %s, kind := %s, cli := %s, sect := %s, file := %s, defaultConst := %s, defaultText := %s, field := %s }' %
        tuple(lean_str(r[k]) for k in ('var', 'kind', 'cli', 'section', 'file', 'default_const', 'default_text', 'field'))
        for r in rows))
    L += [']', '']
    L += ['/-- number of textual occurrences of `args.<field>` in `build_config` -/',
          'def argsUses : List (String × Nat) := [',
          ',\n'.join(f'  ({lean_str(k)}, {v})' for k, v in sorted(args_uses.items())), ']', '']
    L += ['/-- number of textual occurrences of `cfg_file_<section>.<field>` in `build_config` -/',
          'def fileUses : List (String × String × Nat) := [',
          ',\n'.join(f'  ({lean_str(s)}, {lean_str(f)}, {v})' for (s, f), v in sorted(file_uses.items())), ']', '']
    L += ['/-- fields of the result that are not a direct move of a layered variable, with the inputs they',
          'depend on (`row:<cli option>`, `args.<field>`, `param:<parameter>`, `section:<whole section>`) -/',
          'def derived : List (String × List String) := [',
          ',\n'.join(f'  ({lean_str(d["field"])}, [{", ".join(lean_str(x) for x in d["deps"])}])' for d in derived), ']', '']
    L += ['/-- `DEFAULT_*` constants: (qualified name, option named by its doc comment "The default value for',
          '`opt`." with `-` written `_`, type, value text) -/',
          'def defaultConsts : List (String × String × String × String) := [',
          ',\n'.join(f'  ({lean_str(n)}, {lean_str(o.replace("-", "_"))}, {lean_str(t)}, {lean_str(e)})' for n, o, t, e in consts), ']', '']
    L += ['/-- per layered option: (cli field, `[default: ..]` of the help text, normalised value of the constant,',
          'do they agree) -/',
          'def helpDefaults : List (String × String × String × Bool) := [',
          ',\n'.join(f'  ({lean_str(d["cli"])}, {lean_str(d["help"])}, {lean_str(d["value"])}, {"true" if d["agrees"] else "false"})'
                     for d in doc_rows), ']', '']
    tui_nums = re.findall(r'pub const ([A-Z0-9_]+)\s*:\s*(?:u8|u16|u32|usize)\s*=\s*(\d+)\s*;',
                          open(os.path.join(repo, CONSTS_RS)).read())
    L += ['/-- numeric constants of config/constants.rs (limits used by the `validate_*` functions) -/']
    L += [f'def tui_{n} : Nat := {v}' for n, v in tui_nums] + ['']
    L += ['/-- `impl Default for Config<Section>` (used when the `[section]` is absent from the file):',
          '(section, field, `DEFAULT_*` constant inside `Some(..)` or "" for `None`) -/',
          'def sectionDefaults : List (String × String × String) := [',
          ',\n'.join(f'  ({lean_str(s)}, {lean_str(f)}, {lean_str(c)})' for s, f, c, _ in sec_defaults), ']', '']
    L += ['end TV.CfgGen', '']
    text = '\n'.join(L)
    p = os.path.join(outdir, 'CfgLayer.lean')
    if not os.path.exists(p) or open(p).read() != text:
        open(p, 'w').write(text)
    row_args = {r['cli'] for r in rows}
    report = dict(
        source=CONFIG_RS,
        functions=fn_report,
        rows=[{k: v for k, v in r.items() if k != 'stmt'} for r in rows],
        derived=derived,
        non_layered_args=sorted(k for k in args_uses if k not in row_args),
        args_never_read=sorted(f for f in args_fields if f not in args_uses),
        whole_section_uses=section_whole,
        file_fields_not_read=[f'{s}.{f}' for s, f in unread_file],
        section_defaults=[dict(section=s, field=f, const=c, text=t) for s, f, c, t in sec_defaults],
        default_consts=[dict(name=n, option=o, type=t, value=e) for n, o, t, e in consts],
        help_defaults=doc_rows,
        help_default_mismatches=[d for d in doc_rows if not d['agrees']],
        tui_numeric_consts={n: int(v) for n, v in tui_nums},
        problems=problems)
    json.dump(report, open(os.path.join(outdir, 'CfgLayer.report.json'), 'w'), indent=1)
    print(f'cfglayer: {len(fn_report)} functions, {len(rows)} rows, {len(derived)} derived fields, '
          f'{len(consts)} default constants, {len(report["help_default_mismatches"])} help/default mismatches, '
          f'{len(problems)} problems')
    for b in problems:
        print('  PROBLEM', b)
    return 1 if problems else 0


if __name__ == '__main__':
    sys.exit(main())
