#!/usr/bin/env python3
"""The public checksum entry points of trippy-packet as a table (`Gen/CksumTab.lean`):

  * `wrappers`: for every `pub fn NAME(data, [src_addr, dest_addr]) -> u16 { CORE(data, WORD [, src_addr, dest_addr, IpProtocol::P]) }`
    of `checksum.rs` the row (NAME, CORE, WORD, P or ""), WORD resolved through `const X: usize = N;` items;
  * `protoIds`: the arms of `IpProtocol::id` in `lib.rs`: (variant, number).

    cksumtab.py <repo> <outdir>   -> <outdir>/CksumTab.lean, CksumTab.report.json ; exit 1 on an unreadable shape

The theorems over these tables are in Props/CksumTab.lean: the hand model's entry points (Model/Checksum.lean) are the
core functions at exactly these ignore-words and protocol numbers, and every ignore-word is the position of the checksum
field the accessor translator found in the corresponding header (Gen/C12Field)."""
import sys, os, json, re
sys.path.insert(0, os.path.dirname(__file__))
from rsparse import tokenize


def toks(src):
    return [t for _, t in tokenize(src)]


def balanced(ts, i, open_, close):
    depth = 0
    for k in range(i, len(ts)):
        if ts[k] == open_:
            depth += 1
        elif ts[k] == close:
            depth -= 1
            if depth == 0:
                return k
    raise ValueError('unbalanced')


def cut_tests(ts):
    for i in range(len(ts) - 2):
        if ts[i] == 'mod' and ts[i + 1] == 'tests':
            return ts[:i]
    return ts


def split_args(ts):
    out, cur, depth = [], [], 0
    for t in ts:
        if t in '([{':
            depth += 1
        if t in ')]}':
            depth -= 1
        if t == ',' and depth == 0:
            out.append(cur); cur = []
        else:
            cur.append(t)
    if cur:
        out.append(cur)
    return out


def num(t):
    t = t.replace('_', '')
    m = re.fullmatch(r'(0x[0-9a-fA-F]+|\d+)(usize|u8|u16|u32)?', t)
    return int(m.group(1), 0) if m else None


def main():
    repo, out = sys.argv[1], sys.argv[2]
    problems = []
    ts = cut_tests(toks(open(os.path.join(repo, 'crates/trippy-packet/src/checksum.rs')).read()))
    consts = {}
    for i in range(len(ts) - 6):
        if ts[i] == 'const' and ts[i + 2] == ':' and ts[i + 4] == '=' and ts[i + 6] == ';' and num(ts[i + 5]) is not None:
            consts[ts[i + 1]] = num(ts[i + 5])
    rows = []
    i = 0
    while i < len(ts) - 3:
        if ts[i] == 'pub' and ts[i + 1] == 'fn':
            name = ts[i + 2]
            j = i + 3
            if ts[j] != '(':
                problems.append(f'checksum.rs: {name}: generic parameters'); i += 1; continue
            k = balanced(ts, j, '(', ')')
            params = [a[0] for a in split_args(ts[j + 1:k])]
            if ts[k + 1:k + 4] != ['->', 'u16', '{']:
                problems.append(f'checksum.rs: {name}: does not return u16'); i = k; continue
            b1 = balanced(ts, k + 3, '{', '}')
            body = ts[k + 4:b1]
            # CORE ( args )
            if len(body) < 3 or body[1] != '(' or balanced(body, 1, '(', ')') != len(body) - 1:
                problems.append(f'checksum.rs: {name}: body is not a single call'); i = b1; continue
            core = body[0]
            args = split_args(body[2:-1])
            word = None
            if len(args) >= 2 and len(args[1]) == 1:
                word = num(args[1][0])
                if word is None:
                    word = consts.get(args[1][0])
            if word is None or args[0] != [params[0]]:
                problems.append(f'checksum.rs: {name}: ignore-word argument not a literal or constant'); i = b1; continue
            proto = ''
            if len(args) == 5:
                if args[2] != [params[1]] or args[3] != [params[2]]:
                    problems.append(f'checksum.rs: {name}: source/destination are not passed through in order')
                if args[4][:2] == ['IpProtocol', '::'] and len(args[4]) == 3:
                    proto = args[4][2]
                else:
                    problems.append(f'checksum.rs: {name}: protocol argument not an IpProtocol variant')
            elif len(args) != 2:
                problems.append(f'checksum.rs: {name}: unexpected number of arguments')
            rows.append((name, core, word, proto))
            i = b1
        i += 1
    if not rows:
        problems.append('checksum.rs: no public entry points found')
    # IpProtocol::id
    ls = cut_tests(toks(open(os.path.join(repo, 'crates/trippy-packet/src/lib.rs')).read()))
    ids = []
    for i in range(len(ls) - 4):
        if ls[i] == 'fn' and ls[i + 1] == 'id' and ls[i + 2] == '(':
            j = i
            while ls[j] != '{':
                j += 1
            e = balanced(ls, j, '{', '}')
            body = ls[j + 1:e]
            for s in range(len(body) - 4):
                if body[s] == 'Self' and body[s + 1] == '::' and body[s + 3] == '=>' and num(body[s + 4]) is not None:
                    ids.append((body[s + 2], num(body[s + 4])))
            break
    if not ids:
        problems.append('lib.rs: IpProtocol::id not found')
    text = ['-- GENERATED by tools/rs2lean/cksumtab.py from crates/trippy-packet/src/checksum.rs and lib.rs — do not edit',
            'namespace TV.Gen.CksumTab', '',
            '/-- (public function, core function, index of the 16-bit word left out, IpProtocol variant or "") -/',
            'def wrappers : List (String × String × Nat × String) := [']
    text += [f'  ("{n}", "{c}", {w}, "{p}"),' for n, c, w, p in rows]
    text += [']', '', '/-- `IpProtocol::id` -/', 'def protoIds : List (String × Nat) := [']
    text += [f'  ("{v}", {n}),' for v, n in ids]
    text += [']', '', 'end TV.Gen.CksumTab', '']
    os.makedirs(out, exist_ok=True)
    p = os.path.join(out, 'CksumTab.lean')
    body = '\n'.join(text)
    if not os.path.exists(p) or open(p).read() != body:
        open(p, 'w').write(body)
    json.dump(dict(wrappers=rows, proto_ids=ids, problems=problems), open(os.path.join(out, 'CksumTab.report.json'), 'w'), indent=1)
    print(f'cksumtab: {len(rows)} entry points, {len(ids)} protocol numbers, {len(problems)} problems')
    for x in problems:
        print('  PROBLEM', x)
    return 1 if problems else 0


if __name__ == '__main__':
    sys.exit(main())
