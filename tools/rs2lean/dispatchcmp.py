#!/usr/bin/env python3
"""C17: the hooks `verif_dispatch_key` / `verif_frame` of trippy-tui's frontend.rs must be the key
dispatch / the per-frame prologue of `run_app`, token for token.

    dispatchcmp.py <repo> <outdir>    ->  <outdir>/Dispatch.report.json ; exit 1 when they differ

`run_app` cannot be called without a terminal, so the harness drives the two hooks instead; this
translator-side check is what ties the hooks to `run_app`: the token stream of the `if` chain that
starts after `let bindings = &app.tui_config.bindings;` must be identical in both functions up to the
way quitting is reported (`return Ok(ExitAction::Normal)` vs `return Some(false)`,
`return Ok(ExitAction::PreserveScreen)` vs `return Some(true)`), and the prologue of `verif_frame`
(`if app.frozen_start.is_none() { … }` followed by `terminal.draw(…)`) must be that of `run_app`.
"""
import sys, os, json, re
sys.path.insert(0, os.path.dirname(__file__))
from rsparse import tokenize


def toks(src):
    return [t.text if hasattr(t, 'text') else (t[1] if isinstance(t, tuple) else str(t)) for t in tokenize(src)]


def fn_body(ts, name):
    """tokens of the body of `fn <name>` (between its outermost braces)"""
    for i in range(len(ts) - 1):
        if ts[i] == 'fn' and ts[i + 1] == name:
            j = i
            while ts[j] != '{':
                j += 1
            depth, k = 0, j
            while True:
                if ts[k] == '{':
                    depth += 1
                elif ts[k] == '}':
                    depth -= 1
                    if depth == 0:
                        return ts[j + 1:k]
                k += 1
    return None


def block_after(ts, start):
    """the statement that starts at index `start` (an `if … else if … else …` chain): up to the end of its last block"""
    k, depth, seen = start, 0, False
    while k < len(ts):
        if ts[k] == '{':
            depth += 1
            seen = True
        elif ts[k] == '}':
            depth -= 1
            if depth == 0 and seen and not (k + 1 < len(ts) and ts[k + 1] == 'else'):
                return ts[start:k + 1]
        k += 1
    return ts[start:]


def find_seq(ts, seq):
    for i in range(len(ts) - len(seq) + 1):
        if ts[i:i + len(seq)] == seq:
            return i
    return -1


def norm_quit(ts):
    s = ' '.join(ts)
    s = s.replace('return Ok ( ExitAction :: Normal ) ;', 'return QUIT_NORMAL ;')
    s = s.replace('return Ok ( ExitAction :: PreserveScreen ) ;', 'return QUIT_PRESERVE ;')
    s = s.replace('return Some ( false ) ;', 'return QUIT_NORMAL ;')
    s = s.replace('return Some ( true ) ;', 'return QUIT_PRESERVE ;')
    return s.split(' ')


def numeric_consts(root):
    """`const NAME: <integer type> = <literal>;` of every file of the crate"""
    out = {}
    for d, _, fs in os.walk(root):
        for f in fs:
            if f.endswith('.rs'):
                for m in re.finditer(r'\bconst\s+([A-Z][A-Z0-9_]*)\s*:\s*(?:u8|u16|u32|u64|usize|i32|i64)\s*=\s*([0-9][0-9_]*)\s*;',
                                     open(os.path.join(d, f)).read()):
                    out.setdefault(m.group(1), set()).add(m.group(2).replace('_', ''))
    # a name that means two different numbers somewhere in the crate is left alone
    return {k: next(iter(v)) for k, v in out.items() if len(v) == 1}


def subst_consts(ts, consts):
    """a named integer constant (with or without a module path) reads as its value"""
    out = []
    for t in ts:
        if t in consts:
            while len(out) >= 2 and out[-1] == '::' and re.fullmatch(r'[a-z_][a-z0-9_]*|crate|super|self', out[-2]):
                out = out[:-2]
            out.append(consts[t])
        else:
            out.append(t)
    return out


def helper_fns(ts):
    """private free functions `fn name(app: &mut TuiApp) { body }` of the file: name -> body tokens"""
    out = {}
    sig = ['(', 'app', ':', '&', 'mut', 'TuiApp', ')', '{']
    for i in range(len(ts) - 2):
        if ts[i] == 'fn' and (i == 0 or ts[i - 1] != 'pub') and ts[i + 2:i + 2 + len(sig)] == sig:
            name = ts[i + 1]
            if name.startswith('verif_'):
                continue
            out[name] = fn_body(ts, name)
    return out


def inline_helpers(ts, helpers, depth=3):
    """`name(app);` as a statement is the body of the helper"""
    for _ in range(depth):
        out, i, changed = [], 0, False
        while i < len(ts):
            if ts[i] in helpers and ts[i + 1:i + 5] == ['(', 'app', ')', ';'] and (i == 0 or ts[i - 1] in (';', '{', '}')) \
                    and helpers[ts[i]] is not None and 'return' not in helpers[ts[i]] and '?' not in helpers[ts[i]]:
                out += helpers[ts[i]]
                i += 5
                changed = True
            else:
                out.append(ts[i])
                i += 1
        ts = out
        if not changed:
            break
    return ts


PURE_ATOM = re.compile(r'bindings|key|check|\.|\(|\)|\|\||&&|!|[a-z_][a-z0-9_]*')


def is_pure_binding_expr(e):
    """an expression made of `bindings.<name>.check(key)` joined by `||`, `&&`, `!` and parentheses only
    (`KeyBinding::check(&self, KeyEvent) -> bool` compares two values; hoisting or repeating it changes nothing)"""
    txt = ' '.join(e)
    atom = r'bindings \. [a-z_][a-z0-9_]* \. check \( key \)'
    rest = re.sub(atom, 'A', txt)
    return bool(e) and re.fullmatch(r'(?:A|\|\||&&|!|\(|\)| )+', rest) is not None and 'A' in rest


def inline_pure_lets(ts):
    """`let x = <pure binding expression>;` … `x` …  reads as the expression in place of `x`"""
    out, i, subst = [], 0, {}
    while i < len(ts):
        if ts[i] == 'let' and i + 3 < len(ts) and re.fullmatch(r'[a-z_][a-z0-9_]*', ts[i + 1]) and ts[i + 2] == '=':
            j = i + 3
            depth = 0
            while j < len(ts) and not (ts[j] == ';' and depth == 0):
                depth += ts[j] in '([{'
                depth -= ts[j] in ')]}'
                j += 1
            e = ts[i + 3:j]
            if is_pure_binding_expr(e):
                subst[ts[i + 1]] = e
                i = j + 1
                continue
        if ts[i] in subst and (not out or out[-1] != '.') and not (i + 1 < len(ts) and ts[i + 1] in ('(', ':', '=')):
            out += ['('] + subst[ts[i]] + [')']
        else:
            out.append(ts[i])
        i += 1
    return simplify_parens(out)


def simplify_parens(ts):
    """drop parentheses around a chain of `||` that is itself an operand of `||` or the whole `if` condition:
    `if (a || b) || c {` reads `if a || b || c {` (same operands, same order of evaluation)"""
    changed = True
    while changed:
        changed = False
        for i in range(len(ts)):
            if ts[i] != '(' or i == 0 or ts[i - 1] not in ('if', '||'):
                continue
            depth, j = 0, i
            while j < len(ts):
                depth += ts[j] == '('
                depth -= ts[j] == ')'
                if depth == 0:
                    break
                j += 1
            if j + 1 >= len(ts) or ts[j + 1] not in ('||', '{'):
                continue
            inner = ts[i + 1:j]
            d, ok = 0, True
            for x in inner:
                d += x in '([{'
                d -= x in ')]}'
                if d == 0 and x == '&&':
                    ok = False
            if ok and inner:
                ts = ts[:i] + inner + ts[j + 1:]
                changed = True
                break
    return ts


def main():
    repo, out = sys.argv[1], sys.argv[2]
    src = open(os.path.join(repo, 'crates/trippy-tui/src/frontend.rs')).read()
    ts = toks(src)
    problems = []
    # both sides are read modulo two behaviour-preserving spellings: a named integer constant is its value,
    # and a statement `helper(app);` of a private free function without `return` / `?` is the helper's body
    consts = numeric_consts(os.path.join(repo, 'crates/trippy-tui/src'))
    helpers = helper_fns(ts)
    norm = lambda body: None if body is None else inline_pure_lets(subst_consts(inline_helpers(body, helpers), consts))
    run_app = norm(fn_body(ts, 'run_app'))
    disp = norm(fn_body(ts, 'verif_dispatch_key'))
    frame = norm(fn_body(ts, 'verif_frame'))
    n_tokens = 0
    if run_app is None or disp is None or frame is None:
        problems.append('run_app / verif_dispatch_key / verif_frame not found in frontend.rs')
    else:
        lead = 'let bindings = & app . tui_config . bindings ;'.split(' ')
        a, b = find_seq(run_app, lead), find_seq(disp, lead)
        if a < 0 or b < 0:
            problems.append('`let bindings = &app.tui_config.bindings;` not found in run_app / verif_dispatch_key')
        else:
            ca = norm_quit(block_after(run_app, a + len(lead)))
            cb = norm_quit(block_after(disp, b + len(lead)))
            n_tokens = len(ca)
            if ca != cb:
                k = next((i for i in range(min(len(ca), len(cb))) if ca[i] != cb[i]), min(len(ca), len(cb)))
                problems.append('key dispatch of run_app and verif_dispatch_key differ at token %d: run_app `%s` vs hook `%s`'
                                % (k, ' '.join(ca[max(0, k - 8):k + 8]), ' '.join(cb[max(0, k - 8):k + 8])))
            rest = disp[b + len(lead) + len(block_after(disp, b + len(lead))):]
            if rest != ['None']:
                problems.append('verif_dispatch_key does more than the dispatch chain: `%s`' % ' '.join(rest[:20]))
        # prologue + draw
        pl = 'if app . frozen_start . is_none ( )'.split(' ')
        a, b = find_seq(run_app, pl), find_seq(frame, pl)
        if a < 0 or b < 0:
            problems.append('frame prologue not found in run_app / verif_frame')
        else:
            pa, pb = block_after(run_app, a), block_after(frame, b)
            if pa != pb:
                problems.append('frame prologue differs: run_app `%s` vs verif_frame `%s`' % (' '.join(pa), ' '.join(pb)))
            # inside `mod verif`, `render` is `super::render::app::render` (checked: the `pub use` line exists)
            short = lambda x: ' '.join(x).replace('render :: app :: render', 'render').split(' ')
            da = short(run_app[a + len(pa):a + len(pa) + 24])[:14]
            db = short(frame[b + len(pb):b + len(pb) + 24])[:14]
            want = 'terminal . draw ( | f | render ( f , app ) )'.split(' ')
            if find_seq(ts, 'pub use super :: render :: app :: render ;'.split(' ')) < 0:
                problems.append('`pub use super::render::app::render;` not found in the verif module')
            if da[:len(want)] != want or db[:len(want)] != want:
                problems.append('draw call after the prologue differs: run_app `%s` vs verif_frame `%s`' % (' '.join(da), ' '.join(db)))
    os.makedirs(out, exist_ok=True)
    json.dump(dict(tokens_compared=n_tokens, problems=problems), open(os.path.join(out, 'Dispatch.report.json'), 'w'), indent=1)
    print(f'dispatchcmp: {n_tokens} tokens of key dispatch compared, {len(problems)} problems')
    for p in problems:
        print('  problem:', p)
    sys.exit(1 if problems else 0)


if __name__ == '__main__':
    main()
