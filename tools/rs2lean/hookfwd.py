#!/usr/bin/env python3
"""The verif-hooks of trippy-core are what the harness calls instead of private code; this check
ties each hook to the code it stands for, token for token, on every run:

  * `Strategy::run` has exactly the loop shape the model's `run` / `iter` has
    (`while !finished { send_request?; recv_response?; update_round }`), and `verif_iterate`,
    `verif_send_request`, `verif_recv_response`, `verif_update_round` forward to those very methods;
  * every `VerifState` getter forwards to the `TracerState` method of the same name;
  * `TracerInner::verif_run_internal` is `run_internal` minus source-address discovery and the
    privilege drop, with the socket type a parameter; `verif_apply_round` = `handler`,
    `verif_handle_error` = `handle_error`, the config hooks forward to `make_*_config`.

    hookfwd.py <repo> <outdir>   -> <outdir>/Hooks.report.json ; exit 1 on any difference
"""
import sys, os, json, re
sys.path.insert(0, os.path.dirname(__file__))
from rsparse import tokenize


def toks(src):
    return [t for _, t in tokenize(src)]


def fn_bodies(ts):
    """name -> list of body token lists (a name may occur more than once)"""
    out = {}
    i = 0
    while i < len(ts) - 1:
        if ts[i] == 'fn' and re.match(r'^[A-Za-z_]\w*$', ts[i + 1]):
            name = ts[i + 1]
            j = i
            while j < len(ts) and ts[j] not in ('{', ';'):
                j += 1
            if j < len(ts) and ts[j] == '{':
                depth, k = 0, j
                while k < len(ts):
                    if ts[k] == '{':
                        depth += 1
                    elif ts[k] == '}':
                        depth -= 1
                        if depth == 0:
                            break
                    k += 1
                out.setdefault(name, []).append(ts[j + 1:k])
        i += 1
    return out


def T(s):
    return toks(s)


def alpha(ts):
    """the token list with its local names (`let [mut] NAME`, closure parameters `|NAME|`) renamed in order of
    binding: two bodies that differ only in the names of their locals read the same"""
    names = {}
    for i, t in enumerate(ts):
        cand = None
        if t == 'let' and i + 1 < len(ts):
            cand = ts[i + 2] if ts[i + 1] == 'mut' and i + 2 < len(ts) else ts[i + 1]
        elif t == '|' and i + 2 < len(ts) and ts[i + 2] == '|' and re.match(r'^[a-z_][a-z0-9_]*$', ts[i + 1]):
            cand = ts[i + 1]
        if cand and re.match(r'^[a-z_][a-z0-9_]*$', cand) and cand not in names and cand != '_':
            names[cand] = f'_v{len(names)}'
    out = []
    for i, t in enumerate(ts):
        if t in names and (i == 0 or ts[i - 1] not in ('.', '::')) and not (i + 1 < len(ts) and ts[i + 1] == ':' and i > 0 and ts[i - 1] in ('{', ',')):
            out.append(names[t])
        else:
            out.append(t)
    return out


def main():
    repo, out = sys.argv[1], sys.argv[2]
    problems, checked = [], 0

    def expect(bodies, name, want, which=0, what=None):
        nonlocal checked
        checked += 1
        b = bodies.get(name)
        if not b or len(b) <= which:
            problems.append(f'fn {name} not found')
            return
        wants = want if isinstance(want, list) else [want]
        if not any(alpha(b[which]) == alpha(T(w)) for w in wants):
            want = wants[0]
            problems.append(f'fn {name}{" (" + what + ")" if what else ""}: body is `{" ".join(b[which])[:300]}`, expected `{" ".join(T(want))}`')

    st = fn_bodies(toks(open(os.path.join(repo, 'crates/trippy-core/src/strategy.rs')).read()))
    # the loop of the model: `while` form, or the same loop written with `loop { if finished { break; } … }`
    expect(st, 'run', ['''let mut state = TracerState::new(self.config);
        while !state.finished(self.config.max_rounds) {
            self.send_request(&mut network, &mut state)?;
            self.recv_response(&mut network, &mut state)?;
            self.update_round(&mut state);
        }
        Ok(())''', '''let mut state = TracerState::new(self.config);
        loop {
            if state.finished(self.config.max_rounds) { break; }
            self.send_request(&mut network, &mut state)?;
            self.recv_response(&mut network, &mut state)?;
            self.update_round(&mut state);
        }
        Ok(())''', '''let mut state = TracerState::new(self.config);
        loop {
            if state.finished(self.config.max_rounds) { return Ok(()); }
            self.send_request(&mut network, &mut state)?;
            self.recv_response(&mut network, &mut state)?;
            self.update_round(&mut state);
        }'''])
    expect(st, 'verif_iterate', '''self.send_request(network, &mut st.0)?; self.recv_response(network, &mut st.0)?;
        self.update_round(&mut st.0); Ok(())''')
    expect(st, 'verif_send_request', 'self.send_request(network, &mut st.0)')
    expect(st, 'verif_recv_response', 'self.recv_response(network, &mut st.0)')
    expect(st, 'verif_update_round', 'self.update_round(&mut st.0);')
    # VerifState getters: the first occurrence of each name inside `mod verif` forwards to self.0.<name>()
    src = open(os.path.join(repo, 'crates/trippy-core/src/strategy.rs')).read()
    m = re.search(r'pub struct VerifState.*?impl VerifState \{(.*?)\n    \}\n', src, re.S)
    if not m:
        problems.append('impl VerifState not found')
    else:
        vb = fn_bodies(toks(m.group(1)))
        fw = {'new': 'Self(TracerState::new(config))', 'probes': 'self.0.probes()', 'ttl': 'self.0.ttl()',
              'round_start': 'self.0.round_start()', 'target_found': 'self.0.target_found()',
              'max_received_ttl': 'self.0.max_received_ttl()', 'target_ttl': 'self.0.target_ttl()',
              'received_time': 'self.0.received_time()', 'in_round': 'self.0.in_round(sequence)',
              'sequence': 'self.0.verif_sequence()', 'round_sequence': 'self.0.verif_round_sequence()',
              'round': 'self.0.verif_round()', 'round_has_capacity': 'self.0.round_has_capacity()',
              'finished': 'self.0.finished(max_rounds)'}
        for n, w in fw.items():
            expect(vb, n, w, what='VerifState')
        for n in vb:
            if n not in fw:
                problems.append(f'VerifState::{n}: unknown hook (not in the forward table)')
    expect(st, 'verif_sequence', 'self.sequence')
    expect(st, 'verif_round_sequence', 'self.round_sequence')
    expect(st, 'verif_round', 'self.round')

    tr = fn_bodies(toks(open(os.path.join(repo, 'crates/trippy-core/src/tracer.rs')).read()))
    ri = tr.get('run_internal', [None])[0]
    vi = tr.get('verif_run_internal', [None])[0]
    checked += 1
    if ri is None or vi is None:
        problems.append('run_internal / verif_run_internal not found')
    else:
        def remove_seq(ts, seq):
            for i in range(len(ts) - len(seq) + 1):
                if ts[i:i + len(seq)] == seq:
                    return ts[:i] + ts[i + len(seq):], True
            return ts, False
        def statements(ts):
            """top-level statements of a body: token lists ending with `;` or a closing `}` at depth 0"""
            out, cur, depth = [], [], 0
            for k, t in enumerate(ts):
                cur.append(t)
                depth += t in '([{'
                depth -= t in ')]}'
                if depth == 0 and (t == ';' or (t == '}' and not (k + 1 < len(ts) and ts[k + 1] in (';', '.', '?', 'else', ')')))):
                    out.append(cur); cur = []
            if cur:
                out.append(cur)
            return out

        def canon(stmts):
            """a statement `let x = self.make_…_config(..);` (a pure `const fn` of `&self`) may stand anywhere before the
            first use of `x`: it is moved down to just before that use"""
            out = list(stmts)
            for st in list(stmts):
                if len(st) > 6 and st[0] == 'let' and st[2] == '=' and st[3:5] == ['self', '.'] and re.fullmatch(r'make_[a-z_]+_config', st[5]) and st[-1] == ';' and '?' not in st:
                    x = st[1]
                    i = out.index(st)
                    rest = out[:i] + out[i + 1:]
                    j = next((k for k in range(i, len(rest)) if x in rest[k]), len(rest))
                    out = rest[:j] + [st] + rest[j:]
            return out

        # what the hook leaves out, whatever its spelling: the statement that binds `source_addr` by discovery or
        # validation, and the statement that drops privileges
        ri_st = statements(list(ri))
        is_disc = lambda st: st[:3] == ['let', 'source_addr', '='] and 'discover' in st and 'validate' in st and 'SourceAddr' in st
        is_drop = lambda st: st[0] == 'if' and 'drop_privileges' in st and 'Privilege' in st and st.count('drop_privileges') == 2
        ok1, ok2 = sum(map(is_disc, ri_st)) == 1, sum(map(is_drop, ri_st)) == 1
        if not (ok1 and ok2):
            problems.append('run_internal no longer has the source discovery / privilege drop the hook is known to leave out')
        body = [t for st in canon([st for st in ri_st if not is_disc(st) and not is_drop(st)]) for t in st]
        vi = [t for st in canon(statements(list(vi))) for t in st]
        body = ['S' if (t == 'SocketImpl' and k >= 2 and body[k - 1] == '<' and body[k - 2] == '::' ) else t for k, t in enumerate(body)]
        # modulo the names of the locals
        if alpha(body) != alpha(vi):
            k = next((i for i, (x, y) in enumerate(zip(alpha(body), alpha(vi))) if x != y), min(len(body), len(vi)))
            problems.append(f'verif_run_internal differs from run_internal (minus discovery and privilege drop) at token {k}: `{" ".join(vi[max(0, k - 10):k + 10])}` vs `{" ".join(body[max(0, k - 10):k + 10])}`')
    checked += 1
    # `r.map_err(|e| self.handle_error(e))` and its explicit `match` are the same function of `r`
    def wraps(call):
        return [alpha(T(f'{call}.map_err(|err| self.handle_error(err))')),
                alpha(T(f'match {call} {{ Ok(()) => Ok(()), Err(err) => Err(self.handle_error(err)), }}')),
                alpha(T(f'match {call} {{ Ok(()) => Ok(()), Err(err) => Err(self.handle_error(err)) }}')),
                alpha(T(f'match {call} {{ Err(err) => Err(self.handle_error(err)), Ok(()) => Ok(()), }}')),
                alpha(T(f'{call}.map_err(|err| self.handle_error(err))?; Ok(())')),
                alpha(T(f'if let Err(err) = {call} {{ return Err(self.handle_error(err)); }} Ok(())'))]
    if not any(alpha(b) in wraps('self.run_internal(func)') for b in tr.get('run_with', [])):
        problems.append('TracerInner::run_with is no longer `self.run_internal(func).map_err(|err| self.handle_error(err))`')
    if not any(alpha(b) in wraps('self.run_internal(|_| ())') for b in tr.get('run', [])):
        problems.append('TracerInner::run is no longer `self.run_internal(|_| ()).map_err(|err| self.handle_error(err))`')
    expect(tr, 'verif_run_with', 'self.inner.verif_run_with::<S, F>(source_addr, func)', 0)
    expect(tr, 'verif_run_with', 'self.verif_run_internal::<S, F>(source_addr, func).map_err(|err| self.handle_error(err))', 1)
    expect(tr, 'verif_apply_round', 'self.inner.verif_apply_round(round);', 0)
    expect(tr, 'verif_apply_round', 'self.handler(round);', 1)
    expect(tr, 'verif_handle_error', 'self.inner.verif_handle_error(err)', 0)
    expect(tr, 'verif_handle_error', 'self.handle_error(err)', 1)
    expect(tr, 'verif_strategy_config', 'self.inner.verif_strategy_config()', 0)
    expect(tr, 'verif_strategy_config', 'self.make_strategy_config()', 1)
    expect(tr, 'verif_channel_config', 'self.inner.verif_channel_config(source_addr)', 0)
    expect(tr, 'verif_channel_config', 'self.make_channel_config(source_addr)', 1)

    app = fn_bodies(toks(open(os.path.join(repo, 'crates/trippy-tui/src/app.rs')).read()))
    expect(app, 'verif_trace_identifier', 'super::trace_identifier(pid, i)')
    expect(app, 'verif_make_tui_config', 'super::make_tui_config(cfg, locale)')
    checked += 1
    if 'start_tracer ( cfg , hostname , * addr , trace_identifier ( pid , i ) )' not in ' '.join(app.get('start_tracers', [[]])[0]):
        problems.append('start_tracers no longer assigns trace_identifier(pid, i)')

    os.makedirs(out, exist_ok=True)
    json.dump(dict(checked=checked, problems=problems), open(os.path.join(out, 'Hooks.report.json'), 'w'), indent=1)
    print(f'hookfwd: {checked} hook bodies compared, {len(problems)} problems')
    for p in problems:
        print('  problem:', p)
    sys.exit(1 if problems else 0)


if __name__ == '__main__':
    main()
