#!/usr/bin/env python3
"""The two item tables layered outside `build_config`'s `cfg_layer` calls, as tables (`Gen/ItemTables.lean`):

  * theme colours: `impl From<(HashMap<TuiThemeItem, TuiColor>, ConfigThemeColors)> for TuiTheme` (config/theme.rs)
  * key bindings:  `impl From<(HashMap<TuiCommandItem, TuiKeyBinding>, ConfigBindings)> for TuiBindings` (config/binding.rs)

Every field stanza must have the shape
    FIELD: *MAP.get(&ITEM::Variant).or(CFG.FILEFIELD.as_ref()).unwrap_or(&Self::default().DEFAULTFIELD)
(command line over file over default) and becomes the row (FIELD, snake_case(Variant), FILEFIELD, DEFAULTFIELD).
Beside the rows: the variants of the item enum (snake_case), the fields of the file section struct and the fields of
the result struct, so that completeness can be stated.

    itemtables.py <repo> <outdir>  -> <outdir>/ItemTables.lean, ItemTables.report.json ; exit 1 on an unreadable shape

Theorems: Props/ItemTables.lean."""
import sys, os, json, re
sys.path.insert(0, os.path.dirname(__file__))
from rsparse import tokenize


def toks(src):
    return [t for _, t in tokenize(src)]


def balanced(ts, i, open_, close):
    depth = 0
    for k in range(i, len(ts)):
        if ts[k] == open_:
            depth += 1
        elif ts[k] == close:
            depth -= 1
            if depth == 0:
                return k
    raise ValueError('unbalanced')


def snake(v):
    # as strum's kebab-case (heck): a run of capitals is one word up to the capital that starts the next word
    return re.sub(r'(?<=[a-z0-9])(?=[A-Z])|(?<=[A-Z])(?=[A-Z][a-z])', '_', v).lower()


def split_top(ts):
    out, cur, depth = [], [], 0
    for t in ts:
        if t in ('(', '[', '{'):
            depth += 1
        if t in (')', ']', '}'):
            depth -= 1
        if t == ',' and depth == 0:
            out.append(cur); cur = []
        else:
            cur.append(t)
    if cur:
        out.append(cur)
    return out


def struct_fields(ts, name):
    for i in range(len(ts) - 2):
        if ts[i] == 'struct' and ts[i + 1] == name and ts[i + 2] == '{':
            e = balanced(ts, i + 2, '{', '}')
            out = []
            for f in split_top(ts[i + 3:e]):
                # [attrs] [pub] name : type
                if ':' in f:
                    k = f.index(':')
                    out.append(f[k - 1])
            return out
    return None


def enum_variants(ts, name):
    for i in range(len(ts) - 2):
        if ts[i] == 'enum' and ts[i + 1] == name and ts[i + 2] == '{':
            e = balanced(ts, i + 2, '{', '}')
            out = []
            for f in split_top(ts[i + 3:e]):
                # skip attributes `# [ ... ]`
                j = 0
                while j < len(f) and f[j] == '#':
                    j = balanced(f, j + 1, '[', ']') + 1
                if j < len(f):
                    out.append(f[j])
            return out
    return None


def table(ts, item, cfgty, target, problems, where):
    """rows of `impl From<(HashMap<item, _>, cfgty)> for target`"""
    for i in range(len(ts) - 8):
        if ts[i] == 'impl' and ts[i + 1] == 'From' and ts[i + 2] == '<':
            j = i + 2
            # find ` for target {`
            k = j
            while k < len(ts) and ts[k] != '{':
                k += 1
            head = ts[i:k]
            if item in head and cfgty in head and head[-2:] == ['for', target]:
                e = balanced(ts, k, '{', '}')
                body = ts[k + 1:e]
                # let ( MAP , CFG ) = value ;
                m, after = None, 0
                for s in range(len(body) - 8):
                    if body[s] == 'let' and body[s + 1] == '(' and body[s + 3] == ',' and body[s + 5] == ')' and body[s + 6] == '=':
                        m = (body[s + 2], body[s + 4])
                        after = s + 7
                        break
                if m is None:
                    # the pair destructured in the parameter list: `fn from((map, cfg): (..)) -> Self {`
                    for s in range(len(body) - 8):
                        if body[s] == 'fn' and body[s + 1] == 'from' and body[s + 2:s + 4] == ['(', '('] and body[s + 5] == ',' and body[s + 7] == ')' and body[s + 8] == ':':
                            m = (body[s + 4], body[s + 6])
                            after = s + 9
                            # past the signature: `-> Self {` opens the function body
                            for q in range(s, len(body) - 2):
                                if body[q:q + 3] == ['->', 'Self', '{']:
                                    after = q + 3
                                    break
                            break
                if m is None:
                    problems.append(f'{where}: neither `let (map, cfg) = value;` nor `fn from((map, cfg): ..)` found')
                    return []
                mp, cfg = m
                # Self { ... }
                for s in range(after, len(body) - 1):
                    if body[s] == 'Self' and body[s + 1] == '{':
                        se = balanced(body, s + 1, '{', '}')
                        rows = []
                        for f in split_top(body[s + 2:se]):
                            if len(f) < 2 or f[1] != ':':
                                problems.append(f'{where}: field without a value: {" ".join(f[:4])}')
                                continue
                            field, ex = f[0], f[2:]
                            # * MAP . get ( & ITEM :: V ) . or ( CFG . F . as_ref ( ) ) . unwrap_or ( & Self :: default ( ) . D )
                            want = ['*', mp, '.', 'get', '(', '&', item, '::', None, ')', '.', 'or', '(', cfg, '.', None, '.', 'as_ref', '(', ')', ')',
                                    '.', 'unwrap_or', '(', '&', 'Self', '::', 'default', '(', ')', '.', None, ')']
                            if len(ex) != len(want) or any(w is not None and w != x for w, x in zip(want, ex)):
                                problems.append(f'{where}: {field}: not `*map.get(&Item::V).or(cfg.f.as_ref()).unwrap_or(&Self::default().d)`')
                                continue
                            rows.append((field, snake(ex[8]), ex[15], ex[31]))
                        return rows
                problems.append(f'{where}: `Self {{ .. }}` not found')
                return []
    problems.append(f'{where}: impl From<(HashMap<{item}, _>, {cfgty})> for {target} not found')
    return []


def ui_table(ts, src_ty, dst_ty, problems, where):
    """rows (ui field, source field) of `impl From<src_ty> for dst_ty { fn from(value) -> Self { Self { f: T::from(value.g), .. } } }`;
    also accepts `value.g.into()` and plain `value.g`"""
    for i in range(len(ts) - 6):
        if ts[i:i + 4] == ['impl', 'From', '<', src_ty] and ts[i + 4:i + 7] == ['>', 'for', dst_ty]:
            k = i + 7
            e = balanced(ts, k, '{', '}')
            body = ts[k + 1:e]
            # the parameter name
            pn = None
            for s in range(len(body) - 4):
                if body[s] == 'fn' and body[s + 1] == 'from' and body[s + 2] == '(':
                    pn = body[s + 3]
                    break
            for s in range(len(body) - 1):
                if body[s] == 'Self' and body[s + 1] == '{' and body[s - 1] != '->':
                    se = balanced(body, s + 1, '{', '}')
                    rows = []
                    for f in split_top(body[s + 2:se]):
                        if len(f) < 3 or f[1] != ':':
                            problems.append(f'{where}: field without a value: {" ".join(f[:4])}')
                            continue
                        ex = f[2:]
                        src = None
                        if len(ex) == 8 and ex[1:4] == ['::', 'from', '('] and ex[4] == pn and ex[5] == '.' and ex[7] == ')':
                            src = ex[6]
                        elif len(ex) == 7 and ex[0] == pn and ex[1] == '.' and ex[3:] == ['.', 'into', '(', ')']:
                            src = ex[2]
                        elif len(ex) == 3 and ex[0] == pn and ex[1] == '.':
                            src = ex[2]
                        if src is None:
                            problems.append(f'{where}: {f[0]}: not a conversion of one field of the argument')
                            continue
                        rows.append((f[0], src))
                    return rows
    problems.append(f'{where}: impl From<{src_ty}> for {dst_ty} not found')
    return []


def main():
    repo, out = sys.argv[1], sys.argv[2]
    problems = []
    base = os.path.join(repo, 'crates/trippy-tui/src/config')
    th = toks(open(os.path.join(base, 'theme.rs')).read())
    bd = toks(open(os.path.join(base, 'binding.rs')).read())
    fl = toks(open(os.path.join(base, 'file.rs')).read())
    data = {}
    for key, ts, item, cfgty, target, where in [
        ('theme', th, 'TuiThemeItem', 'ConfigThemeColors', 'TuiTheme', 'theme.rs'),
        ('binding', bd, 'TuiCommandItem', 'ConfigBindings', 'TuiBindings', 'binding.rs'),
    ]:
        rows = table(ts, item, cfgty, target, problems, where)
        variants = enum_variants(ts, item)
        filef = struct_fields(fl, cfgty)
        resf = struct_fields(ts, target)
        for what, v in [('enum ' + item, variants), ('struct ' + cfgty, filef), ('struct ' + target, resf)]:
            if not v:
                problems.append(f'{where}: {what} not found')
        data[key] = dict(rows=rows, variants=[snake(v) for v in (variants or [])], file_fields=filef or [], result_fields=resf or [])
    fbase = os.path.join(repo, 'crates/trippy-tui/src/frontend')
    ui = {
        'theme': ui_table(toks(open(os.path.join(fbase, 'theme.rs')).read()), 'TuiTheme', 'Theme', problems, 'frontend/theme.rs'),
        'binding': ui_table(toks(open(os.path.join(fbase, 'binding.rs')).read()), 'TuiBindings', 'Bindings', problems, 'frontend/binding.rs'),
    }
    q = lambda s: '"' + s + '"'
    text = ['-- GENERATED by tools/rs2lean/itemtables.py from crates/trippy-tui/src/config/{theme,binding,file}.rs — do not edit',
            'namespace TV.Gen.ItemTables', '']
    for key in ('theme', 'binding'):
        d = data[key]
        text += [f'/-- (result field, item (snake case), file field, default field) -/',
                 f'def {key}Rows : List (String × String × String × String) := [']
        text += [f'  ({q(a)}, {q(b)}, {q(c)}, {q(dd)}),' for a, b, c, dd in d['rows']]
        text += [']', f'def {key}Items : List String := [' + ', '.join(q(x) for x in d['variants']) + ']',
                 f'def {key}FileFields : List String := [' + ', '.join(q(x) for x in d['file_fields']) + ']',
                 f'def {key}ResultFields : List String := [' + ', '.join(q(x) for x in d['result_fields']) + ']', '']
    for key in ('theme', 'binding'):
        text += [f'/-- what the user interface is handed: (its field, the field of the configuration it is converted from) -/',
                 f'def {key}UiRows : List (String × String) := ['] + [f'  ({q(a)}, {q(b)}),' for a, b in ui[key]] + [']', '']
    text += ['end TV.Gen.ItemTables', '']
    os.makedirs(out, exist_ok=True)
    p = os.path.join(out, 'ItemTables.lean')
    body = '\n'.join(text)
    if not os.path.exists(p) or open(p).read() != body:
        open(p, 'w').write(body)
    json.dump(dict(data=data, ui=ui, problems=problems), open(os.path.join(out, 'ItemTables.report.json'), 'w'), indent=1)
    print(f'itemtables: {len(data["theme"]["rows"])} theme rows, {len(data["binding"]["rows"])} binding rows, {len(problems)} problems')
    for x in problems:
        print('  PROBLEM', x)
    return 1 if problems else 0


if __name__ == '__main__':
    sys.exit(main())
