#!/usr/bin/env python3
"""Layout chunks of the render functions and the indices used on them (`Gen/LayoutIdx.lean`), for C17.

In every function of trippy-tui `frontend/render/*.rs`:

    let CHUNKS = Layout::default()…​.constraints(ARG)…​.split(AREA);          … CHUNKS[k] …

ARG is an array literal, a `const X: [Constraint; N]` (possibly `.as_ref()` / `.as_slice()`), or a local that an
`if c1 { X1 } else if c2 { X2 } else { X3 }` chain chooses among such constants.  Emitted:

  * `layoutUses`     : (file::function, chunk variable, number of chunks, greatest index used) — unconditional layouts;
  * `layoutBranches` : (file::function, condition, number of chunks chosen under it, greatest index used in the arm of
                       the *same* condition of the if-chain that draws) — conditional layouts; local `let` aliases
                       are substituted in the conditions; `"else"` is the final arm.

An index expression on a layout whose size cannot be read, or a drawing chain whose conditions are not those of the
choosing chain, is a problem (exit 1).   layoutidx.py <repo> <outdir>
Theorem: Props/LayoutIdx.lean (every index is below the number of chunks)."""
import sys, os, json, re, glob
sys.path.insert(0, os.path.dirname(__file__))
from rsparse import tokenize


def toks(src):
    return [t for _, t in tokenize(src)]


def balanced(ts, i, open_, close):
    depth = 0
    for k in range(i, len(ts)):
        if ts[k] == open_:
            depth += 1
        elif ts[k] == close:
            depth -= 1
            if depth == 0:
                return k
    raise ValueError('unbalanced')


def top_count(ts):
    n, depth, any_ = 0, 0, False
    for t in ts:
        if t in '([{':
            depth += 1
        if t in ')]}':
            depth -= 1
        if t == ',' and depth == 0:
            n += 1
            any_ = False
        else:
            any_ = True
    return n + (1 if any_ else 0)


def functions(ts):
    out, i = [], 0
    while i < len(ts) - 2:
        if ts[i] == 'fn' and re.fullmatch(r'[a-z_][a-z0-9_]*', ts[i + 1]):
            j = i + 2
            while j < len(ts) and ts[j] not in ('{', ';'):
                if ts[j] in '([<' and ts[j] != '<':
                    j = balanced(ts, j, ts[j], {'(': ')', '[': ']'}[ts[j]])
                j += 1
            if j < len(ts) and ts[j] == '{':
                e = balanced(ts, j, '{', '}')
                out.append((ts[i + 1], ts[j + 1:e]))
                i = e
        i += 1
    return out


def if_chain(body, s):
    """arms [(condition tokens | None, block tokens)] of the if-chain starting at body[s] == 'if'; end index"""
    arms = []
    while True:
        assert body[s] == 'if'
        j = s + 1
        while body[j] != '{':
            j += 1
        e = balanced(body, j, '{', '}')
        arms.append((body[s + 1:j], body[j + 1:e]))
        if e + 1 < len(body) and body[e + 1] == 'else':
            if body[e + 2] == 'if':
                s = e + 2
                continue
            e2 = balanced(body, e + 2, '{', '}')
            arms.append((None, body[e + 3:e2]))
            return arms, e2
        return arms, e


def main():
    repo, out = sys.argv[1], sys.argv[2]
    problems, uses, branches = [], [], []
    for path in sorted(glob.glob(os.path.join(repo, 'crates/trippy-tui/src/frontend/render/*.rs'))):
        fname = os.path.basename(path)
        ts = toks(open(path).read())
        for i in range(len(ts) - 2):
            if ts[i] == 'mod' and ts[i + 1] == 'tests':
                ts = ts[:i]
                break
        consts = {}
        for i in range(len(ts) - 8):
            if ts[i] == 'const' and ts[i + 2] == ':' and ts[i + 3] == '[' and ts[i + 4] == 'Constraint' and ts[i + 5] == ';':
                n = ts[i + 6]
                if n.isdigit():
                    consts[ts[i + 1]] = int(n)
        for fn, body in functions(ts):
            where = f'{fname}::{fn}'
            # pure local aliases
            alias = {}
            for s in range(len(body) - 3):
                if body[s] == 'let' and re.fullmatch(r'[a-z_][a-z0-9_]*', body[s + 1]) and body[s + 2] == '=' and body[s + 3] != 'if' and body[s + 3] != 'Layout':
                    e = s + 3
                    depth = 0
                    while e < len(body) and not (body[e] == ';' and depth == 0):
                        depth += body[e] in '([{'
                        depth -= body[e] in ')]}'
                        e += 1
                    alias[body[s + 1]] = body[s + 3:e]
            # (a name after a `.` is a field, not the local of that name)
            subst = lambda c: ' '.join(u for i, t in enumerate(c) for u in (alias[t] if t in alias and (i == 0 or c[i - 1] != '.') else [t]))
            # chosen layouts: let V = if … { X } else …
            chosen = {}
            for s in range(len(body) - 4):
                if body[s] == 'let' and body[s + 2] == '=' and body[s + 3] == 'if':
                    arms, _ = if_chain(body, s + 3)
                    sizes = []
                    for cond, blk in arms:
                        name = blk[0] if blk else None
                        if name in consts:
                            sizes.append((subst(cond) if cond is not None else 'else', consts[name]))
                        else:
                            sizes = None
                            break
                    if sizes:
                        chosen[body[s + 1]] = sizes
            # layouts
            layouts = {}
            for s in range(len(body) - 4):
                if body[s] == 'let' and body[s + 2] == '=' and body[s + 3] == 'Layout':
                    e = s + 3
                    depth = 0
                    while e < len(body) and not (body[e] == ';' and depth == 0):
                        depth += body[e] in '([{'
                        depth -= body[e] in ')]}'
                        e += 1
                    expr = body[s + 3:e]
                    size = None
                    for q in range(len(expr) - 2):
                        if expr[q] == 'constraints' and expr[q + 1] == '(':
                            k = balanced(expr, q + 1, '(', ')')
                            arg = expr[q + 2:k]
                            while arg[-1:] == [',']:
                                arg = arg[:-1]
                            while arg and arg[-3:] in (['as_ref', '(', ')'], ['as_slice', '(', ')']) and arg[-4] == '.':
                                arg = arg[:-4]
                            while arg[:1] == ['&']:
                                arg = arg[1:]
                            if arg[:1] == ['['] and balanced(arg, 0, '[', ']') == len(arg) - 1:
                                size = ('n', top_count(arg[1:-1]))
                            elif len(arg) == 1 and arg[0] in consts:
                                size = ('n', consts[arg[0]])
                            elif len(arg) == 1 and arg[0] in chosen:
                                size = ('c', chosen[arg[0]])
                            break
                    layouts[body[s + 1]] = size
            for var, size in layouts.items():
                idx = [int(body[s + 2]) for s in range(len(body) - 3) if body[s] == var and body[s + 1] == '[' and body[s + 2].isdigit() and body[s + 3] == ']']
                if not idx:
                    continue
                if size is None:
                    problems.append(f'{where}: {var}[..] is indexed but the number of chunks cannot be read')
                elif size[0] == 'n':
                    uses.append((where, var, size[1], max(idx)))
                else:
                    # the drawing chain: an if-chain (not a `let … = if`) whose arms index the layout
                    found = False
                    for s in range(len(body)):
                        if body[s] == 'if' and (s == 0 or body[s - 1] not in ('=', 'else')):
                            arms, _ = if_chain(body, s)
                            if not any(var in blk for _, blk in arms):
                                continue
                            found = True
                            conds = [(subst(c) if c is not None else 'else') for c, _ in arms]
                            if conds != [c for c, _ in size[1]]:
                                problems.append(f'{where}: the chain that draws on {var} tests [{" | ".join(conds)}], the chain that chooses its layout tests [{" | ".join(c for c, _ in size[1])}]')
                                break
                            for (c, blk), (_, n) in zip(arms, size[1]):
                                bi = [int(blk[q + 2]) for q in range(len(blk) - 3) if blk[q] == var and blk[q + 1] == '[' and blk[q + 2].isdigit() and blk[q + 3] == ']']
                                branches.append((where, subst(c) if c is not None else 'else', n, max(bi) if bi else 0))
                            break
                    # indices outside any chain (common to all arms): against the smallest layout
                    outside = [int(body[s + 2]) for s in range(len(body) - 3) if body[s] == var and body[s + 1] == '[' and body[s + 2].isdigit()]
                    if not found:
                        problems.append(f'{where}: {var} has a conditional layout but no drawing chain was found')
                    else:
                        branches.append((where, 'common', min(n for _, n in size[1]), min(outside)))
    esc = lambda s: s.replace('\\', '\\\\').replace('"', '\\"')
    text = ['-- GENERATED by tools/rs2lean/layoutidx.py from crates/trippy-tui/src/frontend/render/*.rs — do not edit',
            'namespace TV.Gen.LayoutIdx', '',
            '/-- (file::function, chunk variable, number of chunks, greatest index used) -/',
            'def layoutUses : List (String × String × Nat × Nat) := [']
    text += [f'  ("{esc(a)}", "{esc(b)}", {c}, {d}),' for a, b, c, d in uses]
    text += [']', '', '/-- (file::function, condition, number of chunks chosen under it, greatest index used under it) -/',
             'def layoutBranches : List (String × String × Nat × Nat) := [']
    text += [f'  ("{esc(a)}", "{esc(b)}", {c}, {d}),' for a, b, c, d in branches]
    text += [']', '', 'end TV.Gen.LayoutIdx', '']
    os.makedirs(out, exist_ok=True)
    p = os.path.join(out, 'LayoutIdx.lean')
    t = '\n'.join(text)
    if not os.path.exists(p) or open(p).read() != t:
        open(p, 'w').write(t)
    json.dump(dict(uses=uses, branches=branches, problems=problems), open(os.path.join(out, 'LayoutIdx.report.json'), 'w'), indent=1)
    print(f'layoutidx: {len(uses)} layouts, {len(branches)} conditional arms, {len(problems)} problems')
    for x in problems:
        print('  PROBLEM', x)
    return 1 if problems else 0


if __name__ == '__main__':
    sys.exit(main())
