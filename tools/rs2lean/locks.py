#!/usr/bin/env python3
"""Translate the lock usage of the functions of tracer.rs that touch the shared `State`
(`handler`, `snapshot`, `clear`, `handle_error`) into lock-level programs (`Gen/Locks.lean`).

Guard rules (Rust drop semantics): a guard created as a temporary inside an expression statement
is released at the end of that statement; a guard bound with `let` is released at the end of the
enclosing block.  Methods called through a guard become instructions: `update_from_round` →
`upd 0 m` (all micro-steps of the round), `set_error` → `setErr`, `clone` → `copyOut`, an
assignment `*guard = …` → `store`.  Any other use of `self.state` is an unmet obligation."""
import sys, os, json
sys.path.insert(0, os.path.dirname(__file__))
from rsparse import *

FUNCS = ['handler', 'snapshot', 'clear', 'handle_error']
METHOD = {'update_from_round': 'upd 0 m', 'set_error': 'setErr', 'clone': 'copyOut'}

def is_state(e):
    return e == ('field', ('path', ['self']), 'state')

class Tx:
    FNS = {}           # every function of tracer.rs that mentions `self.state`, by name

    def __init__(self, stack=()):
        self.stack = list(stack)
        self.prog = []
        self.guards = {}   # let-bound guard name -> kind
        self.dropped = []  # guards released early with `drop(..)`

    @staticmethod
    def is_guard(v):
        return bool(v) and v[0] == 'guard'

    def expr(self, e, pending):
        """walk expression; `pending` collects temporaries' releases for the enclosing statement"""
        k = e[0]
        if k == 'method':
            recv, name, args = e[1], e[2], e[3]
            # a call of another function that works on the shared state: its program runs here
            if recv == ('path', ['self']) and name in Tx.FNS and name not in self.stack:
                for a in args:
                    self.expr(a, pending)
                inner = Tx(self.stack + [name])
                inner.block(parse_body(Tx.FNS[name]['body']))
                self.prog += inner.prog
                return None
            # self.state.read() / write()
            if is_state(recv) and name in ('read', 'write'):
                self.prog.append('acqR' if name == 'read' else 'acqW')
                pending.append('rel')
                return ('guard', name)
            r = self.expr(recv, pending)
            for a in args:
                if self.is_guard(self.expr(a, pending)):
                    raise Unsupported(f'a state guard is passed to method {name}')
            if r and r[0] == 'guard':
                if name not in METHOD:
                    raise Unsupported(f'method {name} called through a state guard')
                self.prog.append(METHOD[name])
                return None
            return None
        if k == 'path':
            if len(e[1]) == 1 and e[1][0] in self.guards:
                return ('guard', self.guards[e[1][0]])
            return None
        if is_state(e):
            raise Unsupported('self.state used without read()/write()')
        if k in ('call',):
            self.expr(e[1], pending)
            vals = [self.expr(a, pending) for a in e[2]]
            fn = e[1][1] if e[1][0] == 'path' else None
            if any(self.is_guard(v) for v in vals):
                # the guard handed to a function: only the fully-qualified forms of the known methods
                if fn is not None and len(e[2]) >= 1 and self.is_guard(vals[0]) and not any(self.is_guard(v) for v in vals[1:]) \
                        and fn[-1] in METHOD and (len(fn) == 1 or fn[-2] in ('State', 'Clone')):
                    self.prog.append(METHOD[fn[-1]])
                    return None
                if fn == ['drop'] and len(e[2]) == 1 and e[2][0][0] == 'path' and len(e[2][0][1]) == 1:
                    # `drop(guard)`: released here instead of at the end of the block
                    name = e[2][0][1][0]
                    self.guards.pop(name, None)
                    self.dropped.append(name)
                    self.prog.append('rel')
                    return None
                raise Unsupported(f'a state guard is passed to {"::".join(fn) if fn else "a function value"}')
            return None
        if k == 'block':
            self.block(e)
            return None
        if k in ('paren', 'ref'):
            # `&guard`, `(guard)`: still the guard
            return self.expr(e[1], pending)
        if k in ('field', 'try', 'cast', 'un'):
            if self.is_guard(self.expr(e[1] if k != 'un' else e[2], pending)):
                raise Unsupported(f'`{k}` applied to a state guard')
            return None
        if k == 'deref':
            return self.expr(e[1], pending)
        if k == 'bin':
            self.expr(e[2], pending); self.expr(e[3], pending); return None
        if k in ('num', 'str', 'char'):
            return None
        if k == 'struct':
            for _, v in e[2]:
                self.expr(v, pending)
            return None
        if k == 'macro':
            return None
        raise Unsupported(f'expression kind {k}')

    def block(self, b):
        lets = []
        for st in b[1]:
            pending = []
            if st[0] == 'let':
                r = self.expr(st[3], pending) if st[3] is not None else None
                if r and r[0] == 'guard':
                    names = [t for t in st[1][1] if t not in ('mut', 'ref')]
                    if len(names) != 1 or not names[0].isidentifier():
                        raise Unsupported(f'a state guard is bound to the pattern `{" ".join(st[1][1])}`')
                    # guard bound to a name: lives to the end of the block (or to `drop(name)`)
                    self.guards[names[0]] = r[1]
                    lets.append(names[0])
                    pending.remove('rel')
                self.prog += pending
            elif st[0] == 'assign':
                # `*guard = rhs`: rhs first, then the place
                self.expr(st[3], pending)
                r = self.expr(st[2], pending)
                if r and r[0] == 'guard':
                    if st[1] != '=':
                        raise Unsupported('compound assignment through a guard')
                    self.prog.append('store')
                self.prog += pending
            elif st[0] == 'expr':
                self.expr(st[1], pending)
                self.prog += pending
            else:
                raise Unsupported(f'statement {st[0]}')
        if b[2] is not None:
            pending = []
            self.expr(b[2], pending)
            self.prog += pending
        # let-bound guards die here, innermost last-declared first (unless dropped before)
        for name in reversed(lets):
            if name in self.dropped:
                continue
            self.guards.pop(name, None)
            self.prog.append('rel')

def main():
    repo, outdir = sys.argv[1], sys.argv[2]
    items = parse_file(os.path.join(repo, 'crates/trippy-core/src/tracer.rs'))
    fns = {}
    for it in walk_items(items):
        if it['kind'] == 'fn' and it['name'] in FUNCS and it['body'] is not None:
            fns[it['name']] = it
    problems = []
    progs = {}
    Tx.FNS = dict(fns)
    for f in FUNCS:
        if f not in fns:
            problems.append(f'function {f} not found in tracer.rs')
            continue
        try:
            tx = Tx([f])
            tx.block(parse_body(fns[f]['body']))
            progs[f] = tx.prog
        except Unsupported as ex:
            problems.append(f'{f}: {ex}')
    # any OTHER function that touches self.state is an unmet obligation
    for it in walk_items(items):
        if it['kind'] == 'fn' and it['body'] is not None and it['name'] not in FUNCS and not it.get('is_test'):
            toks = [t for _, t in it['body']]
            for i in range(len(toks) - 2):
                if toks[i] == 'self' and toks[i + 1] == '.' and toks[i + 2] == 'state' and (i + 3 >= len(toks) or toks[i + 3] != ':'):
                    problems.append(f'function {it["name"]} touches self.state but is not modelled')
                    break
    out = ['-- GENERATED by tools/rs2lean/locks.py from crates/trippy-core/src/tracer.rs — do not edit',
           'import TrippyVerif.Model.Conc', 'namespace TV.Conc.Gen', 'open TV.Conc', '']
    for f, p in progs.items():
        out.append(f'/-- lock-level program of `TracerInner::{f}` (`m` = micro-steps of one `update_from_round`) -/')
        out.append(f'def {f}Prog (m : Nat) : List Instr := [' + ', '.join('.' + i if ' ' not in i else f'.{i.split()[0]} ' + ' '.join(i.split()[1:]) for i in p) + ']')
        out.append('')
    out += ['end TV.Conc.Gen', '']
    text = '\n'.join(out)
    p = os.path.join(outdir, 'Locks.lean')
    if not os.path.exists(p) or open(p).read() != text:
        open(p, 'w').write(text)
    json.dump(dict(programs=progs, problems=problems), open(os.path.join(outdir, 'Locks.report.json'), 'w'), indent=1)
    print(f'locks: {len(progs)} programs, {len(problems)} problems')
    for pr in problems: print('  PROBLEM', pr)
    return 1 if problems else 0

if __name__ == '__main__':
    sys.exit(main())
