#!/usr/bin/env python3
"""C18: the privacy-guard table of the render functions.

    privacy.py <repo> <outdir>     ->  <outdir>/Privacy.lean, <outdir>/Privacy.report.json

Scans crates/trippy-tui/src/frontend/render/*.rs for every expression that can put hop-derived
text (address, host name, AS information, GeoIP text, ICMP extension text) or the source address on
screen, and records for each such *emitter site* the privacy guard that encloses it:

  * lexically, inside the function: the conditions of the enclosing `if` / `else if` / `else`
    blocks that mention `privacy_max_ttl` (directly, or through a `let` bound boolean);
  * if the function has no such guard around the site: at every call site of the function
    (recursively, along every call chain up to the view's `render`).

A `let` whose initialiser contains an emitter that is not guarded *inside the initialiser* does not
emit by itself: the bound names carry the text and every later occurrence of a bound name is an
emitter site in turn (e.g. `locations` in `render_map_info_panel`).

Guard conditions are translated to Lean over `Option Nat` with Rust's `Option` order
(`None < Some _`).  Known shapes:

    P >= Some(H.ttl())        geSome     then-branch hides, else-branch emits
    Some(*H) > P              someGt     (also under `.any(|H| …)`: one pin stands for several hops)
    P.is_some()               isSome

Anything else that mentions `privacy_max_ttl` in a condition around an emitter is a *problem*
(exit status 1), as is every construct the scanner cannot follow.  An emitter with no guard on
some call chain is an entry with the empty guard (`fun _ _ => true`): the C18 theorem fails on it.

Declared interpretation (recorded in the report):
  * EXEMPT  `header.rs::render_destination`: the target address / host name is the user's own
    argument and is not part of the hidden set;
  * COLLECTOR `world.rs::build_map_entries`: collects `MapEntry` records (no text is drawn there);
    the text fields `long_name` / `location` and the pin-drawing helpers are the emitters.
"""
import sys, os, json, re
sys.path.insert(0, os.path.dirname(__file__))
from rsparse import tokenize, Unsupported

RENDER_DIR = 'crates/trippy-tui/src/frontend/render'
EXEMPT = {('header', 'render_destination'): 'target address/hostname: user-supplied argument, excluded from the hidden set'}
COLLECTORS = {('world', 'build_map_entries'): 'collects MapEntry records; text goes through .long_name/.location, pins through render_map_canvas_*'}

# emitter patterns: (kind, token sequence); `ID` matches any identifier
PATTERNS = [
    ('addr', ['.', 'addrs', '(', ')']),
    ('addr', ['.', 'addrs_with_counts', '(', ')']),
    ('dns', ['.', 'lazy_reverse_lookup', '(']),
    ('dns', ['.', 'lazy_reverse_lookup_with_asinfo', '(']),
    ('dns', ['.', 'reverse_lookup', '(']),
    ('dns', ['.', 'reverse_lookup_with_asinfo', '(']),
    ('dns', ['.', 'hostnames', '(', ')']),
    ('geoip', ['geoip_lookup', '.', 'lookup', '(']),
    ('geoip', ['.', 'long_name', '(', ')']),
    ('geoip', ['.', 'short_name', '(', ')']),
    ('geoip', ['.', 'location', '(', ')']),
    ('geoip', ['.', 'coordinates', '(', ')']),
    ('geoip-field', ['.', 'long_name']),
    ('geoip-field', ['.', 'location']),
    ('as', ['.', 'asn']),
    ('as', ['.', 'prefix']),
    ('as', ['.', 'registry']),
    ('as', ['.', 'allocated']),
    ('as', ['.', 'cc']),
    ('ext', ['.', 'extensions', '(', ')']),
    ('source', ['.', 'source_addr', '(', ')']),
    ('map-pin', ['render_map_canvas_pin', '(']),
    ('map-pin', ['render_map_canvas_radius', '(']),
    ('map-pin', ['render_map_canvas_selected', '(']),
]
KEYWORDS = {'let', 'mut', 'ref', 'if', 'else', 'match', 'for', 'in', 'fn', 'return', 'as', 'move', 'pub', 'use',
            'Some', 'None', 'Ok', 'Err', 'true', 'false', 'self', 'Self', 'const', 'static', 'struct', 'impl',
            'while', 'loop', 'break', 'continue', 'where', 'mod', 'enum', 'type', 'crate', 'super', 'dyn', 'unsafe'}

class Fn:
    def __init__(self, mod, name, toks, lines, start, end, is_pub, params=()):
        self.params = list(params)
        self.mod, self.name = mod, name
        self.t, self.lines = toks, lines          # shared token list of the file
        self.start, self.end = start, end         # body token range (inside the braces)
        self.is_pub = is_pub
        self.key = (mod, name)

def tok_lines(src):
    """tokens with line numbers"""
    toks = tokenize(src)
    # recover line numbers by re-scanning
    out, lines, pos, line = [], [], 0, 1
    from rsparse import TOKEN_RE
    while pos < len(src):
        m = TOKEN_RE.match(src, pos)
        k = m.lastgroup
        if k not in ('ws', 'lcomment', 'bcomment'):
            out.append(m.group(k)); lines.append(line)
        line += src[pos:m.end()].count('\n')
        pos = m.end()
    assert out == [t for _, t in toks]
    return out, lines

def match_pairs(t):
    st, m = [], {}
    opens, closes = {'(': ')', '[': ']', '{': '}'}, {')', ']', '}'}
    for i, x in enumerate(t):
        if x in opens:
            st.append(i)
        elif x in closes:
            if not st:
                raise Unsupported(f'unbalanced {x} at token {i}')
            j = st.pop()
            if opens[t[j]] != x:
                raise Unsupported(f'mismatched {t[j]} {x} at token {i}')
            m[j] = i; m[i] = j
    if st:
        raise Unsupported('unbalanced open bracket')
    return m

def find_fns(mod, t, lines, pairs):
    """all `fn NAME … { body }` items of the file (nested ones included, each once)"""
    fns = []
    i = 0
    while i < len(t):
        if t[i] == 'fn' and i + 1 < len(t) and re.match(r'^[a-z_][A-Za-z0-9_]*$', t[i + 1]):
            name = t[i + 1]
            j = i + 2
            # skip generics / params / return type up to the body brace
            depth = 0
            params = None
            while j < len(t):
                if t[j] == '(' and params is None:
                    # parameter names: the identifier before each top-level `:`
                    params, k2, d2 = [], j + 1, 0
                    while k2 < pairs[j]:
                        if t[k2] in '([{<':
                            d2 += 1
                        elif t[k2] in ')]}>':
                            d2 -= 1
                        elif t[k2] == ':' and d2 == 0 and re.match(r'^[a-z_][a-z0-9_]*$', t[k2 - 1]) and (k2 + 1 >= len(t) or t[k2 + 1] != ':') and t[k2 - 2] != ':':
                            params.append(t[k2 - 1])
                        k2 += 1
                if t[j] in '([':
                    j = pairs[j] + 1; continue
                if t[j] == '{':
                    break
                if t[j] == ';':
                    j = None; break
                j += 1
            if j is None or j >= len(t):
                i += 1; continue
            is_pub = i > 0 and (t[i - 1] == 'pub' or (i > 1 and t[i - 1] == ')' ))
            fns.append(Fn(mod, name, t, lines, j + 1, pairs[j], is_pub, params or []))
        i += 1
    return fns

# ---------------------------------------------------------------------------------------------
# guards
# ---------------------------------------------------------------------------------------------

def classify_cond(c, by_value=False):
    """condition tokens -> (lit, anyOver) or None if the condition does not mention privacy, or raises;
    `by_value`: the closure parameter was destructured (`|&ttl|`), so the element is `Some(ttl)`, not `Some(*ttl)`"""
    s = ' '.join(c)
    if 'privacy_max_ttl' not in s:
        return None
    P = r'(?:[a-z_]+ \. )*privacy_max_ttl'
    HT = r'Some \( ([a-z_]+) \. ttl \( \) \)'
    HS = r'Some \( ([a-z_]+) \)' if by_value else r'Some \( \* ([a-z_]+) \)'
    # the four spellings of each comparison (Rust's `Option` order is total: `a >= b` is `b <= a`, and the
    # negation of `a >= b` is `a < b`); a leading `!` marks the negated literal
    for h, lit_ge in ((HT, 'geSome'), (HS, '!someGt')):
        for pat, neg in ((f'{P} >= {h}', False), (f'{h} <= {P}', False), (f'{P} < {h}', True), (f'{h} > {P}', True)):
            m = re.fullmatch(pat, s)
            if m:
                name = lit_ge
                if neg:
                    name = name[1:] if name.startswith('!') else '!' + name
                return (name, False, m.group(1))
    m = re.fullmatch(P + r' \. is_some \( \)', s)
    if m:
        return ('isSome', False, None)
    m = re.fullmatch(P + r' \. is_none \( \)', s)
    if m:
        return ('!isSome', False, None)
    m = re.fullmatch(r'[a-z_]+ (?:\. [a-z_]+ )*\. iter \( \) \. any \( \| (& )?([a-z_]+) \| (.*) \)', s)
    if m:
        inner = classify_cond(m.group(3).split(' '), by_value=bool(m.group(1)))
        if inner and inner[0] == 'someGt' and inner[2] == m.group(2):
            return ('someGt', True, m.group(2))
    # `.iter().copied().any(|ttl| …)`: elements by value as well
    m = re.fullmatch(r'[a-z_]+ (?:\. [a-z_]+ )*\. iter \( \) \. (?:copied|cloned) \( \) \. any \( \| ([a-z_]+) \| (.*) \)', s)
    if m:
        inner = classify_cond(m.group(2).split(' '), by_value=True)
        if inner and inner[0] == 'someGt' and inner[2] == m.group(1):
            return ('someGt', True, m.group(1))
    raise Unsupported(f'privacy condition of unknown shape: `{s}`')

class Body:
    """block structure of one function body"""
    def __init__(self, fn, pairs, problems):
        self.fn, self.pairs, self.problems = fn, pairs, problems
        t = fn.t
        self.blocks = {}     # open-brace index -> dict(kind, cond=(a,b), prior=[conds])
        # boolean aliases: let NAME = <cond mentioning privacy> ;
        self.alias = {}
        # value aliases: let NAME = <path> . privacy_max_ttl ;   (the option itself under another name; never `mut`)
        self.valias = set()
        i = fn.start
        while i < fn.end:
            if t[i] == 'let' and re.match(r'^[a-z_]+$', t[i + 1]) and t[i + 2] == '=':
                j = self.stmt_end(i)
                init = t[i + 3:j]
                if re.fullmatch(r'(?:& )?(?:[a-z_]+ \. )+privacy_max_ttl', ' '.join(init)) and t[i + 1] != 'privacy_max_ttl':
                    self.valias.add(t[i + 1])
                if 'privacy_max_ttl' in init and 'if' not in init and 'match' not in init:
                    try:
                        c = classify_cond(init)
                        if c:
                            self.alias[t[i + 1]] = (c, fn.lines[i])
                    except Unsupported:
                        pass   # not a boolean guard (e.g. a formatted value); reported only if used as a guard
            i += 1
        # two passes: first the value aliases (substituted in place within this function's tokens, so that every
        # later step sees the option's own name), then the boolean aliases
        if self.valias:
            for k in range(fn.start, fn.end):
                if t[k] in self.valias and t[k - 1] != '.' and t[k + 1] not in (':', '('):
                    t[k] = 'privacy_max_ttl'
            i = fn.start
            while i < fn.end:
                if t[i] == 'let' and re.match(r'^[a-z_]+$', t[i + 1]) and t[i + 2] == '=':
                    j = self.stmt_end(i)
                    init = t[i + 3:j]
                    if 'privacy_max_ttl' in init and 'if' not in init and 'match' not in init and t[i + 1] not in self.alias:
                        try:
                            c = classify_cond(init)
                            if c:
                                self.alias[t[i + 1]] = (c, fn.lines[i])
                        except Unsupported:
                            pass
                i += 1
        for i in range(fn.start, fn.end):
            if t[i] == '{':
                self.blocks[i] = self.block_ctx(i)

    def stmt_end(self, i):
        """index of the `;` ending the statement that starts at i (balanced)"""
        t = self.fn.t
        j = i
        while j < self.fn.end:
            if t[j] in '([{':
                j = self.pairs[j] + 1; continue
            if t[j] == ';':
                return j
            j += 1
        return self.fn.end

    def block_ctx(self, i):
        t = self.fn.t
        if t[i - 1] == 'else':
            k = self.pairs[i - 2] if t[i - 2] == '}' else None
            if k is None:
                # `let … else {`
                return dict(kind='let-else', cond=None, prior=[])
            ctx = self.blocks.get(k) or self.block_ctx(k)
            return dict(kind='else', cond=None, prior=ctx['prior'] + ([ctx['cond']] if ctx['cond'] else []))
        # scan backwards for an `if` belonging to this brace
        j = i - 1
        while j >= self.fn.start:
            x = t[j]
            if x in ')]}':
                j = self.pairs[j] - 1; continue
            if x in '([{' or x == ';' or x == '=>' or x == ',':
                break
            if x == 'if':
                cond = (j + 1, i)
                prior = []
                if t[j - 1] == 'else' and t[j - 2] == '}':
                    k = self.pairs[j - 2]
                    ctx = self.blocks.get(k) or self.block_ctx(k)
                    prior = ctx['prior'] + ([ctx['cond']] if ctx['cond'] else [])
                return dict(kind='if', cond=cond, prior=prior)
            if x in ('match', 'for', 'while', 'loop', 'else', 'move') or x == '|':
                if x in ('match', 'for', 'while', 'loop'):
                    break
            j -= 1
        return dict(kind='block', cond=None, prior=[])

    def cond_lit(self, rng):
        """privacy literal of a condition range, following boolean aliases"""
        a, b = rng
        c = self.fn.t[a:b]
        if len(c) == 1 and c[0] in self.alias:
            return self.alias[c[0]][0]
        if len(c) == 2 and c[0] == '!' and c[1] in self.alias:
            lit = self.alias[c[1]][0]
            return (lit[0][1:] if lit[0].startswith('!') else '!' + lit[0], lit[1], lit[2])
        neg = False
        if c and c[0] == '!':
            c, neg = c[1:], True
        c = self.inline_predicate(self.subst_value_aliases(c))
        lit = classify_cond(c)
        if lit is not None and neg:
            lit = (lit[0][1:] if lit[0].startswith('!') else '!' + lit[0], lit[1], lit[2])
        return lit

    ALL_FNS = {}

    def subst_value_aliases(self, c):
        """a local that merely names the option (`let limit = app.tui_config.privacy_max_ttl;`) reads as the option"""
        if not self.valias:
            return c
        out = []
        for k, x in enumerate(c):
            if x in self.valias and (k == 0 or c[k - 1] != '.') and not (k + 1 < len(c) and c[k + 1] in (':', '(')):
                out.append('privacy_max_ttl')
            else:
                out.append(x)
        return out

    def inline_predicate(self, c):
        """`helper(args)` where `helper` is a function of the same file whose body is one expression:
        the body with the arguments in place of the parameters"""
        if len(c) >= 3 and c[1] == '(' and c[-1] == ')' and (self.fn.mod, c[0]) in Body.ALL_FNS:
            h = Body.ALL_FNS[(self.fn.mod, c[0])]
            body = h.t[h.start:h.end]
            if ';' in body or 'privacy_max_ttl' not in ' '.join(body) + ' ' + ' '.join(c):
                return c
            args, cur, depth = [], [], 0
            for x in c[2:-1]:
                if x in '([{':
                    depth += 1
                elif x in ')]}':
                    depth -= 1
                if x == ',' and depth == 0:
                    args.append(cur); cur = []
                else:
                    cur.append(x)
            if cur:
                args.append(cur)
            if len(args) != len(h.params):
                return c
            sub = dict(zip(h.params, args))
            out = []
            for i, x in enumerate(body):
                if x in sub and (i == 0 or body[i - 1] != '.'):
                    out += sub[x]
                else:
                    out.append(x)
            return out
        return c

    def guards_at(self, s, lo=None):
        """privacy literals (neg, lit, anyOver, hopvar, line) enclosing token index s, innermost first;
        only blocks opening at or after `lo` are considered"""
        out = []
        t = self.fn.t
        opens = [k for k in self.blocks if k < s < self.pairs[k]]
        # a site inside the *condition* of an `else if`: the earlier conditions of the chain are false
        for k, ctx in self.blocks.items():
            if ctx['kind'] == 'if' and ctx['cond'][0] <= s < ctx['cond'][1]:
                for pc in ctx['prior']:
                    self.add_lit(out, pc, True)
        # an `if COND { return …; }` without `else` that ends before the site, in a block that contains the
        # site: the site is reached only when COND is false
        for k, ctx in self.blocks.items():
            e = self.pairs[k]
            if ctx['kind'] != 'if' or e >= s or (e + 1 < len(t) and t[e + 1] == 'else') or ctx['prior']:
                continue
            inner = t[k + 1:e]
            if not inner or inner[0] != 'return' or inner[-1] != ';' or ';' in inner[:-1]:
                continue
            if lo is not None and k < lo:
                continue
            parents = [p for p in self.blocks if p < k and self.pairs[p] > e]
            parent_lo, parent_hi = (max(parents), self.pairs[max(parents)]) if parents else (self.fn.start - 1, self.fn.end)
            if parent_lo < s < parent_hi:
                self.add_lit(out, ctx['cond'], True)
        for k in sorted(opens, reverse=True):
            if lo is not None and k < lo:
                continue
            ctx = self.blocks[k]
            if ctx['kind'] == 'if':
                self.add_lit(out, ctx['cond'], False)
            for pc in ctx['prior']:
                self.add_lit(out, pc, True)
        return out

    def add_lit(self, out, rng, neg):
        try:
            lit = self.cond_lit(rng)
        except Unsupported as ex:
            self.problems.append(f'{self.fn.mod}.rs:{self.fn.lines[rng[0]]} fn {self.fn.name}: {ex}')
            return
        if lit is None:
            return
        name, any_over, hopvar = lit
        if name.startswith('!'):
            name, neg = name[1:], not neg
        out.append(dict(neg=neg, lit=name, anyOver=any_over, hop=hopvar, line=self.fn.lines[rng[0]],
                        rust=' '.join(self.fn.t[rng[0]:rng[1]])))

# ---------------------------------------------------------------------------------------------
# sites
# ---------------------------------------------------------------------------------------------

def pattern_sites(fn):
    t = fn.t
    out = []
    for i in range(fn.start, fn.end):
        for kind, pat in PATTERNS:
            if t[i:i + len(pat)] == pat:
                if kind in ('geoip-field', 'as'):
                    # a field access, not a method call / not a struct-literal field
                    if i + len(pat) < len(t) and t[i + len(pat)] == '(':
                        continue
                out.append((i, kind, ' '.join(pat)))
    return out

def let_of(fn, body, s):
    """the innermost `let PAT = INIT ;` (or `let PAT = INIT else {..};`) whose INIT contains s → (names, init_lo, end)"""
    t = fn.t
    best = None
    i = fn.start
    while i < fn.end:
        if t[i] == 'let' and t[i - 1] not in ('if', 'while'):
            # pattern up to `=` at depth 0
            j = i + 1
            while j < fn.end and t[j] != '=' and t[j] != ';':
                if t[j] in '([{':
                    j = body.pairs[j] + 1; continue
                j += 1
            if j < fn.end and t[j] == '=':
                e = body.stmt_end(j)
                if j < s < e:
                    names = [x for x in t[i + 1:j] if re.match(r'^[a-z_][a-z0-9_]*$', x) and x not in KEYWORDS and x != '_']
                    # drop a type ascription `let x: T = …`
                    if ':' in t[i + 1:j]:
                        c = t.index(':', i + 1, j)
                        names = [x for x in t[i + 1:c] if re.match(r'^[a-z_][a-z0-9_]*$', x) and x not in KEYWORDS and x != '_']
                    if best is None or j > best[1]:
                        best = (names, j, e)
        i += 1
    return best

def main():
    repo, outdir = sys.argv[1], sys.argv[2]
    rdir = os.path.join(repo, RENDER_DIR)
    problems, files, fns = [], {}, {}
    for f in sorted(os.listdir(rdir)):
        if not f.endswith('.rs'):
            continue
        mod = f[:-3]
        try:
            t, lines = tok_lines(open(os.path.join(rdir, f)).read())
            pairs = match_pairs(t)
        except (Unsupported, AssertionError) as ex:
            problems.append(f'{f}: cannot tokenize: {ex}')
            continue
        files[mod] = (t, lines, pairs)
        for fn in find_fns(mod, t, lines, pairs):
            if fn.key in fns:
                # nested helper fns of the same name in different parents (header.rs): keep both under distinct keys
                n = 2
                while (mod, f'{fn.name}#{n}') in fns:
                    n += 1
                fn.key = (mod, f'{fn.name}#{n}')
            fns[fn.key] = fn
    Body.ALL_FNS = fns
    bodies = {k: Body(fn, files[fn.mod][2], problems) for k, fn in fns.items()}

    # call sites: NAME ( or MOD :: NAME ( or a bare reference to a known fn (passed as a value)
    callers = {k: [] for k in fns}
    for k, fn in fns.items():
        t = fn.t
        for i in range(fn.start, fn.end):
            x = t[i]
            if not re.match(r'^[a-z_][a-z0-9_]*$', x) or x in KEYWORDS:
                continue
            if t[i - 1] == '.' or t[i - 1] == 'fn':
                continue
            if t[i - 1] == '::':
                q = t[i - 2]
                tgt = (q, x)
            else:
                tgt = (fn.mod, x)
            if tgt in fns and tgt != k:
                nxt = t[i + 1] if i + 1 < len(t) else ''
                if nxt == '(' or nxt in (')', ',', ';'):
                    # skip sites inside nested fn definitions of *other* functions: handled by their own Fn
                    callers[tgt].append((k, i))
    # nested fns: a site inside a nested fn body belongs to the nested fn only
    def owner_ok(fn, i):
        for k2, f2 in fns.items():
            if f2 is not fn and f2.mod == fn.mod and fn.start <= f2.start and f2.end <= fn.end and f2.start <= i < f2.end:
                return False
        return True

    entries, exempt, seen_sites = [], [], set()

    def resolve(key, s, kind, what, chain, depth, origin):
        """record the guard(s) of site s in fn key; walk lets and callers as needed"""
        fn, body = fns[key], bodies[key]
        if depth > 40:
            problems.append(f'{fn.mod}.rs:{fn.lines[s]} fn {fn.name}: call/let chain too deep for `{what}`')
            return
        if key in EXEMPT:
            exempt.append(dict(file=fn.mod + '.rs', fn=fn.name, line=fn.lines[s], emitter=what, reason=EXEMPT[key]))
            return
        if key in COLLECTORS:
            exempt.append(dict(file=fn.mod + '.rs', fn=fn.name, line=fn.lines[s], emitter=what, reason=COLLECTORS[key]))
            return
        st = (key, s, kind, origin)
        if st in seen_sites:
            return
        seen_sites.add(st)
        # inside a let initialiser?
        lt = let_of(fn, body, s)
        if lt is not None:
            names, lo, hi = lt
            inner = body.guards_at(s, lo=lo)
            if not inner:
                if not names:
                    return  # `let _ = …`: the value is dropped
                # the bound names carry the text: their later occurrences are the sites
                for i in range(hi, fn.end):
                    if not owner_ok(fn, i):
                        continue
                    x = fn.t[i]
                    hit = None
                    if x in names and fn.t[i - 1] != '.' and not (fn.t[i + 1] == ':' and fn.t[i + 2] != ':'):
                        hit = x
                    elif x.startswith('"'):
                        # inline format arguments: "{name}" / "{name:…}"
                        for n in names:
                            if re.search(r'\{' + n + r'[}:]', x):
                                hit = n
                    if hit:
                        resolve(key, i, kind, what, chain + [f'{fn.name}:let {hit}'], depth + 1, origin)
                return
        gs = body.guards_at(s)
        if gs:
            entries.append(dict(view=origin[0], file=origin[0] + '.rs', fn=origin[1], line=origin[2], kind=kind,
                                emitter=what, guard=gs, guard_fn=fn.name, guard_file=fn.mod + '.rs',
                                chain=' <- '.join(chain + [fn.name])))
            return
        # no guard in this function: every caller must provide one
        cs = callers[key]
        if not cs:
            entries.append(dict(view=origin[0], file=origin[0] + '.rs', fn=origin[1], line=origin[2], kind=kind,
                                emitter=what, guard=[], guard_fn=None, guard_file=None,
                                chain=' <- '.join(chain + [fn.name])))
            return
        for (ck, ci) in cs:
            resolve(ck, ci, kind, what, chain + [fn.name], depth + 1, origin)

    nsites = 0
    for key, fn in sorted(fns.items()):
        for (s, kind, what) in pattern_sites(fn):
            if not owner_ok(fn, s):
                continue
            nsites += 1
            resolve(key, s, kind, what, [], 0, (fn.mod, fn.name, fn.lines[s], s))

    # de-duplicate identical entries
    uniq, seen = [], set()
    for e in entries:
        k = json.dumps(e, sort_keys=True)
        if k not in seen:
            seen.add(k); uniq.append(e)
    entries = sorted(uniq, key=lambda e: (e['file'], e['line'], e['kind'], e['chain']))

    # sanity: the scanner must have seen the guards we know about
    guard_lines = sum(1 for (t, lines, pairs) in files.values() for x in t if x == 'privacy_max_ttl')
    if not entries:
        problems.append('no emitter found: the scanner is out of date')

    L = ['-- GENERATED by tools/rs2lean/privacy.py from /repo — do not edit',
         'namespace TV.Privacy',
         '',
         '/-- the three privacy conditions of the render code over `privacy_max_ttl : Option<u8>` and a hop ttl -/',
         'inductive Lit where',
         '  | geSome   -- `privacy_max_ttl >= Some(hop.ttl())`',
         '  | someGt   -- `Some(hop_ttl) > privacy_max_ttl`',
         '  | isSome   -- `privacy_max_ttl.is_some()`',
         '  deriving Repr, DecidableEq',
         '',
         '/-- Rust\'s derived order on `Option`: `None < Some _`, `Some a < Some b ↔ a < b` -/',
         'def optLt : Option Nat → Option Nat → Bool',
         '  | none, some _ => true',
         '  | some a, some b => a < b',
         '  | _, none => false',
         '',
         'def Lit.eval : Lit → Option Nat → Nat → Bool',
         '  | .geSome, p, t => !(optLt p (some t))',
         '  | .someGt, p, t => optLt p (some t)',
         '  | .isSome, p, _ => p.isSome',
         '',
         '/-- a condition on the path to an emitter: the literal, negated when the emitter sits in an `else` branch -/',
         'structure GLit where',
         '  neg : Bool',
         '  lit : Lit',
         '  deriving Repr, DecidableEq',
         '',
         'def GLit.eval (g : GLit) (p : Option Nat) (t : Nat) : Bool := g.neg != g.lit.eval p t',
         '',
         '/-- One emitter site of a view with the conjunction of privacy conditions that guards it',
         '(`[]` = no recognisable guard).  `anyOver`: the condition is evaluated under',
         '`.any(|hop| …)` over the hops that share the drawn item (a map pin). -/',
         'structure ViewGuard where',
         '  view : String',
         '  fn : String',
         '  line : Nat',
         '  kind : String',
         '  emitter : String',
         '  anyOver : Bool',
         '  lits : List GLit',
         '  chain : String',
         '  deriving Repr',
         '',
         '/-- "text of hop `t` is emitted" as a function of the privacy setting -/',
         'def ViewGuard.guard (g : ViewGuard) : Option Nat → Nat → Bool :=',
         '  fun p t => g.lits.all (fun l => l.eval p t)',
         '',
         'def viewGuards : List ViewGuard := [']
    rows = []
    for e in entries:
        lits = ', '.join(f'⟨{"true" if g["neg"] else "false"}, .{g["lit"]}⟩' for g in e['guard'])
        any_over = any(g['anyOver'] for g in e['guard'])
        rows.append(f'  {{ view := "{e["view"]}", fn := "{e["fn"]}", line := {e["line"]}, kind := "{e["kind"]}", '
                    f'emitter := "{e["emitter"]}", anyOver := {"true" if any_over else "false"}, lits := [{lits}], '
                    f'chain := "{e["chain"]}" }}')
    L.append(',\n'.join(rows))
    L.append(']')
    L.append('')
    L.append('end TV.Privacy')
    os.makedirs(outdir, exist_ok=True)
    open(os.path.join(outdir, 'Privacy.lean'), 'w').write('\n'.join(L) + '\n')
    report = dict(files=sorted(files), functions=len(fns), sites=nsites, entries=entries, exempt=exempt,
                  unguarded=[e for e in entries if not e['guard']],
                  privacy_mentions=guard_lines, problems=problems,
                  interpretation=dict(exempt={f'{k[0]}.rs::{k[1]}': v for k, v in EXEMPT.items()},
                                      collectors={f'{k[0]}.rs::{k[1]}': v for k, v in COLLECTORS.items()}))
    json.dump(report, open(os.path.join(outdir, 'Privacy.report.json'), 'w'), indent=1)
    print(f'privacy: {len(fns)} functions, {nsites} emitter sites, {len(entries)} guard entries, '
          f'{len(report["unguarded"])} unguarded, {len(exempt)} exempt, {len(problems)} problems')
    for p in problems:
        print('  problem:', p)
    sys.exit(1 if problems else 0)

if __name__ == '__main__':
    main()
